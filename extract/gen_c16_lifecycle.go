package main

// gen_c16_lifecycle.go — C16, life cycle of the active health checker (pkg/upstream/healthcheck/healthchecker.go).
//
// Gen/HealthLifecycle.lean: for the functions through which a health checker's session checkers come and go
// (startCheck, stopCheck, SetHealthCheckerHostSet, stop) and through which a check result reaches the callbacks
// (incHealthy, decHealthy), the list of EFFECTS on the state the property talks about, in program order:
//   host.SetHealthFlag(F) / ClearHealthFlag(F)            -> .flag (.set F) / .flag (.clear F)
//   c := newChecker(s, host, hc); hc.checkers[addr] = c   -> .newChecker
//   utils.GoWithRecover(func() { c.Start() }, nil)        -> .goStart
//   c.Stop()                                              -> .stopSession
//   delete(hc.checkers, addr)                             -> .delChecker
//   atomic.AddInt64(&hc.localProcessHealthy, N)           -> .localHealthy N
// Everything else in those functions must be free of accesses to the flags, the counters, the checker table and the
// sessions (logging, stats); an effect in a position the model has no reading for (nested in a condition, in a closure,
// on another receiver) is rejected, and so is ANY flag operation / counter access elsewhere in the package.
// All helpers are prefixed c16lc.

import (
	"fmt"
	"go/ast"
	"go/token"
	"os"
	"path/filepath"
	"strings"
)

func init() { register("HealthLifecycle", c16lcGen) }

const c16lcDir = "pkg/upstream/healthcheck"

var c16lcFlagNames = map[string]string{
	"api.FAILED_ACTIVE_HC":     ".activeHC",
	"api.FAILED_OUTLIER_CHECK": ".outlier",
}

// names whose appearance makes a statement relevant to the model
var c16lcSensitive = map[string]bool{
	"SetHealthFlag": true, "ClearHealthFlag": true, "GetHealthFlagPointer": true,
	"unHealthCount": true, "healthCount": true, "localProcessHealthy": true, "checkers": true,
	"newChecker": true, "startCheck": true, "stopCheck": true, "HandleSuccess": true, "HandleFailure": true,
	"findNewAndDeleteHost": true,
}

// c16lcTouches: does the subtree mention anything the model tracks (by identifier or selector name), or call
// Stop/Start on something, or delete from a map?
func c16lcTouches(n ast.Node) string {
	hit := ""
	ast.Inspect(n, func(m ast.Node) bool {
		switch x := m.(type) {
		case *ast.Ident:
			if c16lcSensitive[x.Name] && hit == "" {
				hit = x.Name
			}
		case *ast.CallExpr:
			k := exprKey(x.Fun)
			if hit == "" && (k == "delete" || strings.HasSuffix(k, ".Stop") || strings.HasSuffix(k, ".Start") || strings.HasPrefix(k, "atomic.Add") || strings.HasPrefix(k, "atomic.Store") || strings.HasPrefix(k, "atomic.CompareAndSwap") || strings.HasPrefix(k, "atomic.Swap")) {
				// timers' Stop/Start do not occur in the functions read here; any Stop/Start is taken as the session's
				hit = k
			}
		}
		return true
	})
	return hit
}

// c16lcIntLit: 1, -1, ^int64(0) (= -1), other small literals
func c16lcIntLit(e ast.Expr) (int64, bool) {
	switch x := e.(type) {
	case *ast.BasicLit:
		if x.Kind == token.INT {
			var v int64
			if _, err := fmt.Sscan(x.Value, &v); err == nil {
				return v, true
			}
		}
	case *ast.ParenExpr:
		return c16lcIntLit(x.X)
	case *ast.UnaryExpr:
		if v, ok := c16lcIntLit(x.X); ok {
			switch x.Op {
			case token.SUB:
				return -v, true
			case token.XOR:
				return ^v, true
			case token.ADD:
				return v, true
			}
		}
	case *ast.CallExpr:
		if k := exprKey(x.Fun); (k == "int64" || k == "int") && len(x.Args) == 1 {
			return c16lcIntLit(x.Args[0])
		}
	}
	return 0, false
}

func c16lcLeanInt(v int64) string {
	if v < 0 {
		return fmt.Sprintf("(%d)", v)
	}
	return fmt.Sprintf("%d", v)
}

type c16lcCtx struct {
	fn       string
	recv     string          // receiver name (hc)
	host     string          // the host parameter
	hostRecv map[string]bool // expressions denoting the host whose address keys the checker: host, c.Host
	addr     string          // local holding host.AddressString()
	chk      string          // variable bound to the checker found by the guard (stopCheck) / created (startCheck)
	fresh    map[string]bool // locals assigned from newChecker(_, host, hc)
}

// c16lcAtom reads ONE statement in effect position. Returns the Lean atoms it stands for (possibly none).
func (cx *c16lcCtx) atom(s ast.Stmt) ([]string, error) {
	// statements that touch nothing the model tracks are ignored
	hit := c16lcTouches(s)
	if hit == "" {
		return nil, nil
	}
	switch x := s.(type) {
	case *ast.ExprStmt:
		c, ok := x.X.(*ast.CallExpr)
		if !ok {
			break
		}
		k := exprKey(c.Fun)
		switch {
		case strings.HasSuffix(k, ".SetHealthFlag") || strings.HasSuffix(k, ".ClearHealthFlag"):
			recv := k[:strings.LastIndex(k, ".")]
			if !cx.hostRecv[recv] {
				return nil, fmt.Errorf("%s: flag operation on %s, which is not the host of the checker", cx.fn, recv)
			}
			if len(c.Args) != 1 {
				return nil, fmt.Errorf("%s: flag operation with %d arguments", cx.fn, len(c.Args))
			}
			f, ok := c16lcFlagNames[exprKey(c.Args[0])]
			if !ok {
				return nil, fmt.Errorf("%s: flag operation with argument %s", cx.fn, exprKey(c.Args[0]))
			}
			if strings.HasSuffix(k, ".SetHealthFlag") {
				return []string{".flag (.set " + f + ")"}, nil
			}
			return []string{".flag (.clear " + f + ")"}, nil
		case k == "delete" && len(c.Args) == 2 && exprKey(c.Args[0]) == cx.recv+".checkers" && exprKey(c.Args[1]) == cx.addr:
			return []string{".delChecker"}, nil
		case cx.chk != "" && k == cx.chk+".Stop" && len(c.Args) == 0:
			return []string{".stopSession"}, nil
		case k == "atomic.AddInt64" && len(c.Args) == 2 && exprKey(c.Args[0]) == "&"+cx.recv+".localProcessHealthy":
			v, ok := c16lcIntLit(c.Args[1])
			if !ok {
				return nil, fmt.Errorf("%s: localProcessHealthy changed by a non-literal", cx.fn)
			}
			return []string{".localHealthy " + c16lcLeanInt(v)}, nil
		case k == "utils.GoWithRecover" && len(c.Args) == 2:
			// func() { c.Start() }
			if fl, ok := c.Args[0].(*ast.FuncLit); ok && len(fl.Body.List) == 1 {
				if es, ok := fl.Body.List[0].(*ast.ExprStmt); ok {
					if cc, ok := es.X.(*ast.CallExpr); ok && len(cc.Args) == 0 {
						v := strings.TrimSuffix(exprKey(cc.Fun), ".Start")
						if cx.fresh[v] && v+".Start" == exprKey(cc.Fun) {
							return []string{".goStart"}, nil
						}
					}
				}
			}
		}
	case *ast.AssignStmt:
		if len(x.Lhs) == 1 && len(x.Rhs) == 1 {
			l, r := exprKey(x.Lhs[0]), x.Rhs[0]
			// c := newChecker(s, host, hc)
			if c, ok := r.(*ast.CallExpr); ok && exprKey(c.Fun) == "newChecker" && len(c.Args) == 3 &&
				exprKey(c.Args[1]) == cx.host && exprKey(c.Args[2]) == cx.recv && x.Tok == token.DEFINE {
				cx.fresh[l] = true
				return nil, nil // the creation takes effect when it is stored into the table
			}
			// hc.checkers[addr] = c
			if ix, ok := x.Lhs[0].(*ast.IndexExpr); ok && exprKey(ix.X) == cx.recv+".checkers" && exprKey(ix.Index) == cx.addr &&
				x.Tok == token.ASSIGN && cx.fresh[exprKey(r)] {
				return []string{".newChecker"}, nil
			}
		}
	}
	return nil, fmt.Errorf("%s: statement touching %s has a shape the life-cycle model has no reading for", cx.fn, hit)
}

// c16lcSeq reads a statement list in effect position: plain statements, plus `if … { … }` blocks that touch nothing
// (log-level guards) and early-exit blocks `if s == nil { …; return }` that touch nothing.
func (cx *c16lcCtx) seq(l []ast.Stmt) ([]string, error) {
	var out []string
	for _, s := range l {
		switch x := s.(type) {
		case *ast.IfStmt, *ast.SwitchStmt, *ast.ForStmt, *ast.RangeStmt, *ast.BlockStmt, *ast.DeferStmt, *ast.GoStmt, *ast.SelectStmt, *ast.TypeSwitchStmt:
			if hit := c16lcTouches(x); hit != "" {
				return nil, fmt.Errorf("%s: %s inside a nested statement (conditional / repeated effect is not modelled)", cx.fn, hit)
			}
		case *ast.ReturnStmt:
			return nil, fmt.Errorf("%s: return between effects", cx.fn)
		default:
			a, err := cx.atom(s)
			if err != nil {
				return nil, err
			}
			out = append(out, a...)
		}
	}
	return out, nil
}

type c16lcProg struct {
	guard           string
	pre, body, post []string
}

func (p c16lcProg) lean() string {
	j := func(l []string) string { return "[" + strings.Join(l, ", ") + "]" }
	return "⟨" + p.guard + ", " + j(p.pre) + ", " + j(p.body) + ", " + j(p.post) + "⟩"
}

// c16lcCheckProg reads startCheck / stopCheck:
//
//	addr := host.AddressString()
//	if <c|_>, ok := hc.checkers[addr]; <ok|!ok> { BODY }
//
// with effects allowed before, inside and after the guarded block.
func c16lcCheckProg(f *ast.File, name string) (c16lcProg, error) {
	var p c16lcProg
	fd := findFunc(f, "healthChecker", name)
	if fd == nil || fd.Body == nil {
		return p, fmt.Errorf("%s not found", name)
	}
	if fd.Type.Params == nil || len(fd.Type.Params.List) != 1 || len(fd.Type.Params.List[0].Names) != 1 {
		return p, fmt.Errorf("%s: expected the single parameter host", name)
	}
	cx := &c16lcCtx{fn: name, recv: fd.Recv.List[0].Names[0].Name, host: fd.Type.Params.List[0].Names[0].Name, fresh: map[string]bool{}}
	cx.hostRecv = map[string]bool{cx.host: true}
	guardAt := -1
	for i, s := range fd.Body.List {
		if as, ok := s.(*ast.AssignStmt); ok && as.Tok == token.DEFINE && len(as.Lhs) == 1 && len(as.Rhs) == 1 &&
			exprKey(as.Rhs[0]) == cx.host+".AddressString()" && cx.addr == "" {
			cx.addr = exprKey(as.Lhs[0])
			continue
		}
		ifs, ok := s.(*ast.IfStmt)
		if !ok || ifs.Init == nil {
			continue
		}
		as, ok := ifs.Init.(*ast.AssignStmt)
		if !ok || len(as.Lhs) != 2 || len(as.Rhs) != 1 {
			continue
		}
		ix, ok := as.Rhs[0].(*ast.IndexExpr)
		if !ok || exprKey(ix.X) != cx.recv+".checkers" {
			continue
		}
		if guardAt >= 0 {
			return p, fmt.Errorf("%s: more than one lookup of the checker table", name)
		}
		if cx.addr == "" || exprKey(ix.Index) != cx.addr {
			return p, fmt.Errorf("%s: the checker table is not looked up by host.AddressString()", name)
		}
		okv := exprKey(as.Lhs[1])
		switch exprKey(ifs.Cond) {
		case okv:
			p.guard = ".present"
		case "!" + okv:
			p.guard = ".absent"
		default:
			return p, fmt.Errorf("%s: guard condition %s", name, exprKey(ifs.Cond))
		}
		if ifs.Else != nil {
			return p, fmt.Errorf("%s: guard with else", name)
		}
		if v := exprKey(as.Lhs[0]); v != "_" {
			cx.chk = v
		}
		guardAt = i
	}
	if guardAt < 0 {
		return p, fmt.Errorf("%s: no `if …, ok := %s.checkers[addr]; …` guard", name, cx.recv)
	}
	var err error
	if p.pre, err = cx.seq(fd.Body.List[:guardAt]); err != nil {
		return p, err
	}
	ifs := fd.Body.List[guardAt].(*ast.IfStmt)
	// inside the guard: the found checker's host is the host of the address
	if cx.chk != "" {
		cx.hostRecv[cx.chk+".Host"] = true
	}
	body := ifs.Body.List
	// startCheck: `s := hc.sessionFactory.NewSession(…, host)` and `if s == nil { …; return }` (no session: the model
	// assumes the factory returns one) are skipped when they touch nothing
	var kept []ast.Stmt
	for _, s := range body {
		if i2, ok := s.(*ast.IfStmt); ok && c16lcTouches(i2) == "" {
			continue
		}
		kept = append(kept, s)
	}
	if p.body, err = cx.seq(kept); err != nil {
		return p, err
	}
	delete(cx.hostRecv, cx.chk+".Host")
	saved := cx.chk
	cx.chk = ""
	if p.post, err = cx.seq(fd.Body.List[guardAt+1:]); err != nil {
		return p, err
	}
	cx.chk = saved
	return p, nil
}

// c16lcCallback reads incHealthy / decHealthy: flag operations at top level (unconditional) and the change of
// localProcessHealthy under `if changed { … }`.
func c16lcCallback(f *ast.File, name string) (flagOps []string, local int64, err error) {
	fd := findFunc(f, "healthChecker", name)
	if fd == nil || fd.Body == nil {
		return nil, 0, fmt.Errorf("%s not found", name)
	}
	var params []string
	for _, p := range fd.Type.Params.List {
		for _, n := range p.Names {
			params = append(params, n.Name)
		}
	}
	if len(params) < 2 {
		return nil, 0, fmt.Errorf("%s: parameters", name)
	}
	cx := &c16lcCtx{fn: name, recv: fd.Recv.List[0].Names[0].Name, host: params[0], fresh: map[string]bool{}}
	cx.hostRecv = map[string]bool{cx.host: true}
	changedP := params[len(params)-1]
	nLocal := 0
	for _, s := range fd.Body.List {
		if ifs, ok := s.(*ast.IfStmt); ok && ifs.Init == nil && ifs.Else == nil && exprKey(ifs.Cond) == changedP {
			a, err := cx.seq(ifs.Body.List)
			if err != nil {
				return nil, 0, err
			}
			for _, x := range a {
				if !strings.HasPrefix(x, ".localHealthy ") {
					return nil, 0, fmt.Errorf("%s: effect %s under `if %s`", name, x, changedP)
				}
				var v int64
				fmt.Sscan(strings.Trim(strings.TrimPrefix(x, ".localHealthy "), "()"), &v)
				local += v
				nLocal++
			}
			continue
		}
		a, err := cx.seq([]ast.Stmt{s})
		if err != nil {
			return nil, 0, err
		}
		for _, x := range a {
			if !strings.HasPrefix(x, ".flag ") {
				return nil, 0, fmt.Errorf("%s: unconditional effect %s", name, x)
			}
			flagOps = append(flagOps, strings.TrimSuffix(strings.TrimPrefix(x, ".flag ("), ")"))
		}
	}
	if nLocal != 1 {
		return nil, 0, fmt.Errorf("%s: expected exactly one change of localProcessHealthy under `if %s`", name, changedP)
	}
	return flagOps, local, nil
}

// c16lcHostSet reads SetHealthCheckerHostSet:
//
//	deleteHosts, newHosts := findNewAndDeleteHost(hc.hosts, hostSet)
//	for _, h := range newHosts { hc.startCheck(h) } / for _, h := range deleteHosts { hc.stopCheck(h) } / hc.hosts = hostSet
func c16lcHostSet(f *ast.File) ([]string, error) {
	const name = "SetHealthCheckerHostSet"
	fd := findFunc(f, "healthChecker", name)
	if fd == nil || fd.Body == nil {
		return nil, fmt.Errorf("%s not found", name)
	}
	recv := fd.Recv.List[0].Names[0].Name
	if len(fd.Type.Params.List) != 1 || len(fd.Type.Params.List[0].Names) != 1 {
		return nil, fmt.Errorf("%s: parameters", name)
	}
	hs := fd.Type.Params.List[0].Names[0].Name
	var delV, newV string
	var out []string
	stored := false
	for i, s := range fd.Body.List {
		if c16lcTouches(s) == "" && !mentions(s, "hosts") {
			continue
		}
		switch x := s.(type) {
		case *ast.AssignStmt:
			if i == 0 && x.Tok == token.DEFINE && len(x.Lhs) == 2 && len(x.Rhs) == 1 &&
				exprKey(x.Rhs[0]) == "findNewAndDeleteHost("+recv+".hosts,"+hs+")" {
				delV, newV = exprKey(x.Lhs[0]), exprKey(x.Lhs[1])
				continue
			}
			if x.Tok == token.ASSIGN && len(x.Lhs) == 1 && len(x.Rhs) == 1 && exprKey(x.Lhs[0]) == recv+".hosts" && exprKey(x.Rhs[0]) == hs {
				out = append(out, ".storeHosts")
				stored = true
				continue
			}
		case *ast.RangeStmt:
			if delV != "" && x.Value != nil && len(x.Body.List) == 1 {
				if es, ok := x.Body.List[0].(*ast.ExprStmt); ok {
					v := exprKey(x.Value)
					switch {
					case exprKey(x.X) == newV && exprKey(es.X) == recv+".startCheck("+v+")":
						out = append(out, ".startNew")
						continue
					case exprKey(x.X) == delV && exprKey(es.X) == recv+".stopCheck("+v+")":
						out = append(out, ".stopDeleted")
						continue
					}
				}
			}
		case *ast.ExprStmt:
			// hc.stats.healthy.Update(atomic.LoadInt64(&hc.localProcessHealthy)): a read
			if c, ok := x.X.(*ast.CallExpr); ok && strings.HasSuffix(exprKey(c.Fun), ".Update") && len(c.Args) == 1 &&
				exprKey(c.Args[0]) == "atomic.LoadInt64(&"+recv+".localProcessHealthy)" {
				continue
			}
		}
		return nil, fmt.Errorf("%s: statement %d has a shape the life-cycle model has no reading for", name, i)
	}
	if delV == "" || !stored {
		return nil, fmt.Errorf("%s: expected findNewAndDeleteHost(%s.hosts, %s) first and %s.hosts = %s", name, recv, hs, recv, hs)
	}
	return out, nil
}

// c16lcStop: Stop() { hc.stop() }; stop() { if hc.hosts == nil { return }; hc.hosts.Range(func(h) bool { hc.stopCheck(h); return true }) }
func c16lcStop(f *ast.File) error {
	st := findFunc(f, "healthChecker", "Stop")
	if st == nil || st.Body == nil || len(st.Body.List) != 1 {
		return fmt.Errorf("Stop: expected the single statement hc.stop()")
	}
	recv := st.Recv.List[0].Names[0].Name
	if es, ok := st.Body.List[0].(*ast.ExprStmt); !ok || exprKey(es.X) != recv+".stop()" {
		return fmt.Errorf("Stop: expected the single statement hc.stop()")
	}
	fd := findFunc(f, "healthChecker", "stop")
	if fd == nil || fd.Body == nil {
		return fmt.Errorf("stop not found")
	}
	recv = fd.Recv.List[0].Names[0].Name
	ranged := false
	for i, s := range fd.Body.List {
		if ifs, ok := s.(*ast.IfStmt); ok && ifs.Init == nil && ifs.Else == nil {
			if be, ok := ifs.Cond.(*ast.BinaryExpr); ok && be.Op == token.EQL && exprKey(be.X) == recv+".hosts" && exprKey(be.Y) == "nil" {
				if c16lcTouches(ifs.Body) != "" {
					return fmt.Errorf("stop: effect in the nil-hosts branch")
				}
				continue
			}
		}
		if es, ok := s.(*ast.ExprStmt); ok {
			if c, ok := es.X.(*ast.CallExpr); ok && exprKey(c.Fun) == recv+".hosts.Range" && len(c.Args) == 1 {
				if fl, ok := c.Args[0].(*ast.FuncLit); ok && len(fl.Type.Params.List) == 1 && len(fl.Type.Params.List[0].Names) == 1 && len(fl.Body.List) == 2 {
					h := fl.Type.Params.List[0].Names[0].Name
					e1, ok1 := fl.Body.List[0].(*ast.ExprStmt)
					r2, ok2 := fl.Body.List[1].(*ast.ReturnStmt)
					if ok1 && ok2 && exprKey(e1.X) == recv+".stopCheck("+h+")" && len(r2.Results) == 1 && exprKey(r2.Results[0]) == "true" && !ranged {
						ranged = true
						continue
					}
				}
			}
		}
		if c16lcTouches(s) == "" {
			continue
		}
		return fmt.Errorf("stop: statement %d has a shape the life-cycle model has no reading for", i)
	}
	if !ranged {
		return fmt.Errorf("stop: does not stop the checker of every host of the current host set")
	}
	return nil
}

// c16lcElsewhere: outside the functions read above (and HandleSuccess/HandleFailure, which Gen/HealthCheck owns) no
// non-test file of the package may operate on health flags or touch the consecutive-result counters.
func c16lcElsewhere() error {
	owned := map[string]bool{
		"healthChecker.startCheck": true, "healthChecker.stopCheck": true, "healthChecker.incHealthy": true, "healthChecker.decHealthy": true,
		"sessionChecker.HandleSuccess": true, "sessionChecker.HandleFailure": true,
		".newChecker": true, // the initial counter values are read by gen_c16_share.go (Gen/HealthShare)
	}
	ents, err := os.ReadDir(filepath.Join(repo, c16lcDir))
	if err != nil {
		return err
	}
	for _, e := range ents {
		n := e.Name()
		if e.IsDir() || !strings.HasSuffix(n, ".go") || strings.HasSuffix(n, "_test.go") || strings.HasPrefix(n, "verif_") {
			continue
		}
		f, err := parse(c16lcDir + "/" + n)
		if err != nil {
			return err
		}
		for _, d := range f.Decls {
			fd, ok := d.(*ast.FuncDecl)
			if !ok {
				// package-level initialisers must not touch flags either
				bad := ""
				ast.Inspect(d, func(m ast.Node) bool {
					if id, ok := m.(*ast.Ident); ok && (id.Name == "SetHealthFlag" || id.Name == "ClearHealthFlag" || id.Name == "GetHealthFlagPointer") {
						bad = id.Name
					}
					return true
				})
				if bad != "" {
					return fmt.Errorf("%s: %s in a package-level declaration", n, bad)
				}
				continue
			}
			if fd.Body == nil || owned[cgRecvType(fd)+"."+fd.Name.Name] {
				continue
			}
			bad := ""
			ast.Inspect(fd.Body, func(m ast.Node) bool {
				switch x := m.(type) {
				case *ast.Ident:
					switch x.Name {
					case "SetHealthFlag", "ClearHealthFlag", "GetHealthFlagPointer", "unHealthCount", "healthCount":
						bad = x.Name
					}
				}
				return true
			})
			if bad != "" {
				return fmt.Errorf("%s: %s.%s touches %s (only the handlers and the life-cycle functions may)", n, cgRecvType(fd), fd.Name.Name, bad)
			}
		}
	}
	return nil
}

// c16lcCluster: simpleCluster.UpdateHosts hands the host set to the checker and StopHealthChecking stops it; neither
// operates on health flags itself.
func c16lcCluster() error {
	f, err := parse("pkg/upstream/cluster/cluster.go")
	if err != nil {
		return err
	}
	for fn, call := range map[string]string{"UpdateHosts": ".healthChecker.SetHealthCheckerHostSet", "StopHealthChecking": ".healthChecker.Stop"} {
		fd := findFunc(f, "simpleCluster", fn)
		if fd == nil || fd.Body == nil {
			return fmt.Errorf("simpleCluster.%s not found", fn)
		}
		n := 0
		bad := ""
		ast.Inspect(fd.Body, func(m ast.Node) bool {
			switch x := m.(type) {
			case *ast.CallExpr:
				if strings.HasSuffix(exprKey(x.Fun), call) {
					n++
				}
			case *ast.Ident:
				// flag operations of UpdateHosts on the new host set are read, with their conditions, by gen_c16_share.go
				// (Gen/HealthShare.updateHostsWrites); StopHealthChecking must have none
				if fn != "UpdateHosts" && (x.Name == "SetHealthFlag" || x.Name == "ClearHealthFlag" || x.Name == "GetHealthFlagPointer" || x.Name == "healthFlags") {
					bad = x.Name
				}
			}
			return true
		})
		if n != 1 {
			return fmt.Errorf("simpleCluster.%s: expected exactly one call of sc%s", fn, call)
		}
		if bad != "" {
			return fmt.Errorf("simpleCluster.%s touches %s", fn, bad)
		}
	}
	return nil
}

func c16lcGen() (string, error) {
	const src = c16lcDir + "/healthchecker.go"
	f, err := parse(src)
	if err != nil {
		return "", err
	}
	start, err := c16lcCheckProg(f, "startCheck")
	if err != nil {
		return "", err
	}
	stop, err := c16lcCheckProg(f, "stopCheck")
	if err != nil {
		return "", err
	}
	incF, incL, err := c16lcCallback(f, "incHealthy")
	if err != nil {
		return "", err
	}
	decF, decL, err := c16lcCallback(f, "decHealthy")
	if err != nil {
		return "", err
	}
	hsProg, err := c16lcHostSet(f)
	if err != nil {
		return "", err
	}
	if err := c16lcStop(f); err != nil {
		return "", err
	}
	if err := c16lcElsewhere(); err != nil {
		return "", err
	}
	if err := c16lcCluster(); err != nil {
		return "", err
	}
	s := header("HealthLifecycle", src+" (startCheck, stopCheck, SetHealthCheckerHostSet, stop, incHealthy, decHealthy)", "pkg/upstream/cluster/cluster.go (UpdateHosts, StopHealthChecking: shape only)")
	s += `/-- the health conditions the package operates on -/
inductive Flag where
  | activeHC   -- api.FAILED_ACTIVE_HC
  | outlier    -- api.FAILED_OUTLIER_CHECK
  deriving DecidableEq, Repr

inductive FlagOp where
  | set (f : Flag)     -- host.SetHealthFlag(f)
  | clear (f : Flag)   -- host.ClearHealthFlag(f)
  deriving DecidableEq, Repr

/-- one effect of startCheck / stopCheck on the state the property talks about, as it occurs in the Go source -/
inductive Atom where
  | flag (op : FlagOp)       -- a flag operation on the host whose address keys the checker
  | newChecker               -- c := newChecker(s, host, hc); hc.checkers[addr] = c   (counters zero)
  | goStart                  -- utils.GoWithRecover(func() { c.Start() }, nil)
  | stopSession              -- c.Stop()
  | delChecker               -- delete(hc.checkers, addr)
  | localHealthy (d : Int)   -- atomic.AddInt64(&hc.localProcessHealthy, d)
  deriving DecidableEq, Repr

/-- the test on the checker table that guards the body: ` + "`if _, ok := hc.checkers[addr]; !ok`" + ` / ` + "`if c, ok := hc.checkers[addr]; ok`" + ` -/
inductive Guard where
  | absent
  | present
  deriving DecidableEq, Repr

/-- effects before the guarded block, inside it, and after it, in program order -/
structure CheckProg where
  guard : Guard
  pre : List Atom
  body : List Atom
  post : List Atom
  deriving DecidableEq, Repr

/-- the phases of SetHealthCheckerHostSet after ` + "`deleteHosts, newHosts := findNewAndDeleteHost(hc.hosts, hostSet)`" + ` -/
inductive HsAtom where
  | startNew      -- for _, h := range newHosts { hc.startCheck(h) }
  | stopDeleted   -- for _, h := range deleteHosts { hc.stopCheck(h) }
  | storeHosts    -- hc.hosts = hostSet
  deriving DecidableEq, Repr

`
	s += "def startCheckProg : CheckProg := " + start.lean() + "\n"
	s += "def stopCheckProg : CheckProg := " + stop.lean() + "\n"
	s += "def hostSetProg : List HsAtom := [" + strings.Join(hsProg, ", ") + "]\n"
	s += "/-- healthChecker.stop(): hc.stopCheck(h) for every host of the current host set (shape checked by the extractor) -/\n"
	s += "def stopStopsEveryHost : Bool := true\n"
	s += "/-- incHealthy / decHealthy: unconditional flag operations on the host, and the change of localProcessHealthy under `if changed` -/\n"
	s += "def incHealthyFlagOps : List FlagOp := [" + strings.Join(incF, ", ") + "]\n"
	s += "def incHealthyLocal : Int := " + c16lcLeanInt(incL) + "\n"
	s += "def decHealthyFlagOps : List FlagOp := [" + strings.Join(decF, ", ") + "]\n"
	s += "def decHealthyLocal : Int := " + c16lcLeanInt(decL) + "\n"
	s += footer("HealthLifecycle")
	return s, nil
}
