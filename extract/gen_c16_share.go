package main

// gen_c16_share.go — C16, the health word is shared BY ADDRESS across clusters and host objects, the checkers are per
// cluster.  Gen/HealthShare.lean: every site OUTSIDE the health checker's handlers that writes (or could write) a health
// condition, in a closed vocabulary:
//
//   simpleCluster.UpdateHosts (pkg/upstream/cluster/cluster.go): flag operations on the hosts of the NEW host set,
//       each with the cluster condition it stands under (always / only without a health checker / only with one), the
//       per-host condition (any host / !h.Health() / h.ContainHealthFlag(F)) and the operation (set / clear F)
//   NewSimpleHost (host.go): which key the word is looked up by (config.Address), flag operations at creation
//   newChecker (pkg/upstream/healthcheck/session_checker.go): the initial values of unHealthCount / healthCount as
//       expressions over the health checker's thresholds (a field the literal does not name is 0)
//   any other function of pkg/upstream/cluster that calls Set/ClearHealthFlag or touches healthFlags: rejected
//
// All helpers are prefixed c16sh.

import (
	"fmt"
	"go/ast"
	"go/token"
	"os"
	"path/filepath"
	"strings"
)

func init() { register("HealthShare", c16shGen) }

const c16shDir = "pkg/upstream/cluster"

var c16shFlag = map[string]string{
	"api.FAILED_ACTIVE_HC":     ".activeHC",
	"api.FAILED_OUTLIER_CHECK": ".outlier",
}

// c16shMentions: does the subtree mention a flag writer / the word
func c16shMentions(n ast.Node) string {
	hit := ""
	ast.Inspect(n, func(m ast.Node) bool {
		if id, ok := m.(*ast.Ident); ok && hit == "" {
			switch id.Name {
			case "SetHealthFlag", "ClearHealthFlag", "healthFlags", "GetHealthFlagPointer", "healthStore":
				hit = id.Name
			}
		}
		return true
	})
	return hit
}

// c16shFlagCall: X.SetHealthFlag(F) / X.ClearHealthFlag(F) / SetHealthFlag(p, F) / ClearHealthFlag(p, F)
func c16shFlagCall(e ast.Expr) (set bool, flag string, ok bool) {
	c, isCall := e.(*ast.CallExpr)
	if !isCall {
		return false, "", false
	}
	k := exprKey(c.Fun)
	var arg ast.Expr
	switch {
	case strings.HasSuffix(k, ".SetHealthFlag") && len(c.Args) == 1:
		set, arg = true, c.Args[0]
	case strings.HasSuffix(k, ".ClearHealthFlag") && len(c.Args) == 1:
		set, arg = false, c.Args[0]
	case k == "SetHealthFlag" && len(c.Args) == 2:
		set, arg = true, c.Args[1]
	case k == "ClearHealthFlag" && len(c.Args) == 2:
		set, arg = false, c.Args[1]
	default:
		return false, "", false
	}
	f, known := c16shFlag[exprKey(arg)]
	if !known {
		return false, "", false
	}
	return set, f, true
}

type c16shWalk struct {
	param  string // the host-set parameter of UpdateHosts
	recv   string
	writes []string
}

// hostCond: `!h.Health()` / `h.ContainHealthFlag(F)`
func c16shHostCond(e ast.Expr) (string, bool) {
	if p, ok := e.(*ast.ParenExpr); ok {
		return c16shHostCond(p.X)
	}
	if u, ok := e.(*ast.UnaryExpr); ok && u.Op == token.NOT {
		if c, ok := u.X.(*ast.CallExpr); ok && strings.HasSuffix(exprKey(c.Fun), ".Health") && len(c.Args) == 0 {
			return ".unhealthy", true
		}
	}
	if c, ok := e.(*ast.CallExpr); ok && strings.HasSuffix(exprKey(c.Fun), ".ContainHealthFlag") && len(c.Args) == 1 {
		if f, ok := c16shFlag[exprKey(c.Args[0])]; ok {
			return "(.has " + f + ")", true
		}
	}
	return "", false
}

func (w *c16shWalk) stmts(l []ast.Stmt, when string, inLoop bool, hc string) error {
	for _, s := range l {
		if c16shMentions(s) == "" {
			continue
		}
		switch x := s.(type) {
		case *ast.IfStmt:
			if x.Init != nil && c16shMentions(x.Init) != "" {
				return fmt.Errorf("UpdateHosts: flag access in an if-initialiser")
			}
			k := exprKey(x.Cond)
			var thenWhen, elseWhen string
			if be, ok := x.Cond.(*ast.BinaryExpr); ok && (be.Op == token.NEQ || be.Op == token.EQL) {
				l, r := exprKey(be.X), exprKey(be.Y)
				if (l == w.recv+".healthChecker" && r == "nil") || (r == w.recv+".healthChecker" && l == "nil") {
					if be.Op == token.NEQ {
						thenWhen, elseWhen = ".hasChecker", ".noChecker"
					} else {
						thenWhen, elseWhen = ".noChecker", ".hasChecker"
					}
				}
			}
			if thenWhen != "" {
				if inLoop || when != ".always" {
					return fmt.Errorf("UpdateHosts: nested test of the health checker around a flag operation")
				}
				if err := w.stmts(x.Body.List, thenWhen, false, hc); err != nil {
					return err
				}
				if x.Else != nil {
					eb, ok := x.Else.(*ast.BlockStmt)
					if !ok {
						if c16shMentions(x.Else) != "" {
							return fmt.Errorf("UpdateHosts: flag operation in an else-if chain")
						}
						continue
					}
					if err := w.stmts(eb.List, elseWhen, false, hc); err != nil {
						return err
					}
				}
				continue
			}
			if c, ok := c16shHostCond(x.Cond); ok && inLoop && hc == ".any" {
				if x.Else != nil && c16shMentions(x.Else) != "" {
					return fmt.Errorf("UpdateHosts: flag operation in the else branch of a per-host condition")
				}
				if err := w.stmts(x.Body.List, when, true, c); err != nil {
					return err
				}
				continue
			}
			return fmt.Errorf("UpdateHosts: flag operation under a condition the model has no reading for: %s", k)
		case *ast.RangeStmt:
			if inLoop || !strings.Contains(exprKey(x.X), w.param) {
				return fmt.Errorf("UpdateHosts: flag operation in a loop that does not range over the new host set")
			}
			if err := w.stmts(x.Body.List, when, true, hc); err != nil {
				return err
			}
		case *ast.ExprStmt:
			if c, ok := x.X.(*ast.CallExpr); ok {
				// hostSet.Range(func(h types.Host) bool { … })
				if exprKey(c.Fun) == w.param+".Range" && len(c.Args) == 1 && !inLoop {
					if fl, ok := c.Args[0].(*ast.FuncLit); ok {
						if err := w.stmts(fl.Body.List, when, true, hc); err != nil {
							return err
						}
						continue
					}
				}
				if set, f, ok := c16shFlagCall(c); ok && inLoop {
					op := ".clear"
					if set {
						op = ".set"
					}
					w.writes = append(w.writes, fmt.Sprintf("⟨%s, %s, %s %s⟩", when, hc, op, f))
					continue
				}
			}
			return fmt.Errorf("UpdateHosts: statement touching %s in a shape the model has no reading for", c16shMentions(s))
		default:
			return fmt.Errorf("UpdateHosts: statement touching %s in a shape the model has no reading for", c16shMentions(s))
		}
	}
	return nil
}

func c16shUpdateHosts() ([]string, error) {
	f, err := parse(c16shDir + "/cluster.go")
	if err != nil {
		return nil, err
	}
	fd := findFunc(f, "simpleCluster", "UpdateHosts")
	if fd == nil || fd.Body == nil || fd.Recv == nil || len(fd.Recv.List) != 1 || len(fd.Recv.List[0].Names) != 1 ||
		fd.Type.Params == nil || len(fd.Type.Params.List) != 1 || len(fd.Type.Params.List[0].Names) != 1 {
		return nil, fmt.Errorf("simpleCluster.UpdateHosts(hostSet) not found")
	}
	w := &c16shWalk{param: fd.Type.Params.List[0].Names[0].Name, recv: fd.Recv.List[0].Names[0].Name}
	if err := w.stmts(fd.Body.List, ".always", false, ".any"); err != nil {
		return nil, err
	}
	return w.writes, nil
}

// c16shNewHost: NewSimpleHost: healthFlags: GetHealthFlagPointer(<key>); flag operations at top level
func c16shNewHost() (byAddr bool, writes []string, err error) {
	f, e := parse(c16shDir + "/host.go")
	if e != nil {
		return false, nil, e
	}
	fd := findFunc(f, "", "NewSimpleHost")
	if fd == nil || fd.Body == nil || fd.Type.Params == nil || len(fd.Type.Params.List) < 1 || len(fd.Type.Params.List[0].Names) != 1 {
		return false, nil, fmt.Errorf("NewSimpleHost not found")
	}
	cfg := fd.Type.Params.List[0].Names[0].Name
	n := 0
	ast.Inspect(fd.Body, func(m ast.Node) bool {
		if kv, ok := m.(*ast.KeyValueExpr); ok && exprKey(kv.Key) == "healthFlags" {
			n++
			if c, ok := kv.Value.(*ast.CallExpr); ok && exprKey(c.Fun) == "GetHealthFlagPointer" && len(c.Args) == 1 && exprKey(c.Args[0]) == cfg+".Address" {
				byAddr = true
			}
		}
		return true
	})
	if n != 1 {
		return false, nil, fmt.Errorf("NewSimpleHost: expected exactly one healthFlags field initialiser")
	}
	for _, s := range fd.Body.List {
		hit := c16shMentions(s)
		if hit == "" {
			continue
		}
		if es, ok := s.(*ast.ExprStmt); ok {
			if set, fl, ok := c16shFlagCall(es.X); ok {
				if set {
					writes = append(writes, ".set "+fl)
				} else {
					writes = append(writes, ".clear "+fl)
				}
				continue
			}
			if c, ok := es.X.(*ast.CallExpr); ok && exprKey(c.Fun) == "atomic.StoreUint64" && len(c.Args) == 2 && exprKey(c.Args[1]) == "0" {
				writes = append(writes, ".clear .activeHC", ".clear .outlier")
				continue
			}
		}
		// the literal itself (healthFlags: GetHealthFlagPointer(..)) is the only other mention allowed
		bad := false
		ast.Inspect(s, func(m ast.Node) bool {
			if c, ok := m.(*ast.CallExpr); ok {
				k := exprKey(c.Fun)
				if _, _, isW := c16shFlagCall(c); isW || strings.HasPrefix(k, "atomic.Store") || strings.HasPrefix(k, "atomic.Swap") || strings.HasPrefix(k, "atomic.Add") || strings.HasPrefix(k, "atomic.CompareAndSwap") {
					bad = true
				}
			}
			if st, ok := m.(*ast.StarExpr); ok && c16shMentions(st) != "" {
				bad = true
			}
			return true
		})
		if bad {
			return false, nil, fmt.Errorf("NewSimpleHost: write of the health word in a shape the model has no reading for")
		}
	}
	return byAddr, writes, nil
}

// c16shElsewhere: no other function of pkg/upstream/cluster writes a health condition
func c16shElsewhere() error {
	allowed := map[string]bool{
		".SetHealthFlag": true, ".ClearHealthFlag": true, ".GetHealthFlagPointer": true, ".NewSimpleHost": true,
		"simpleHost.SetHealthFlag": true, "simpleHost.ClearHealthFlag": true, "simpleCluster.UpdateHosts": true,
	}
	ents, err := os.ReadDir(filepath.Join(repo, c16shDir))
	if err != nil {
		return err
	}
	for _, e := range ents {
		n := e.Name()
		if e.IsDir() || !strings.HasSuffix(n, ".go") || strings.HasSuffix(n, "_test.go") || strings.HasPrefix(n, "verif_") {
			continue
		}
		f, err := parse(c16shDir + "/" + n)
		if err != nil {
			return err
		}
		for _, d := range f.Decls {
			fd, ok := d.(*ast.FuncDecl)
			if !ok || fd.Body == nil || allowed[cgRecvType(fd)+"."+fd.Name.Name] {
				continue
			}
			bad := ""
			ast.Inspect(fd.Body, func(m ast.Node) bool {
				switch x := m.(type) {
				case *ast.CallExpr:
					k := exprKey(x.Fun)
					if strings.HasSuffix(k, "SetHealthFlag") || strings.HasSuffix(k, "ClearHealthFlag") {
						bad = k
					}
					if (strings.HasPrefix(k, "atomic.Store") || strings.HasPrefix(k, "atomic.Swap") || strings.HasPrefix(k, "atomic.Add") || strings.HasPrefix(k, "atomic.CompareAndSwap")) && c16shMentions(x) != "" {
						bad = k
					}
					if strings.HasPrefix(k, "healthStore.") {
						bad = k
					}
				case *ast.AssignStmt:
					for _, l := range x.Lhs {
						if st, ok := l.(*ast.StarExpr); ok && c16shMentions(st) != "" {
							bad = "*healthFlags ="
						}
					}
				}
				return true
			})
			if bad != "" {
				return fmt.Errorf("%s: %s.%s writes the health word (%s): not a site the model has a reading for", n, cgRecvType(fd), fd.Name.Name, bad)
			}
		}
	}
	return nil
}

// c16shCounterExpr: 0, a literal, hc.healthyThreshold / hc.unhealthyThreshold, ± a literal
func c16shCounterExpr(e ast.Expr, hc string) (string, error) {
	switch x := e.(type) {
	case *ast.BasicLit:
		if x.Kind == token.INT {
			return x.Value, nil
		}
	case *ast.ParenExpr:
		return c16shCounterExpr(x.X, hc)
	case *ast.SelectorExpr:
		switch exprKey(x) {
		case hc + ".healthyThreshold":
			return "h", nil
		case hc + ".unhealthyThreshold":
			return "u", nil
		}
	case *ast.BinaryExpr:
		if x.Op == token.ADD || x.Op == token.SUB {
			a, e1 := c16shCounterExpr(x.X, hc)
			b, e2 := c16shCounterExpr(x.Y, hc)
			if e1 == nil && e2 == nil {
				return fmt.Sprintf("(%s %s %s)", a, x.Op.String(), b), nil
			}
		}
	case *ast.CallExpr:
		if k := exprKey(x.Fun); (k == "uint32" || k == "int") && len(x.Args) == 1 {
			return c16shCounterExpr(x.Args[0], hc)
		}
	}
	return "", fmt.Errorf("newChecker: initial counter value in a shape the model has no reading for: %s", exprKey(e))
}

func c16shNewChecker() (un, hcnt string, err error) {
	f, e := parse("pkg/upstream/healthcheck/session_checker.go")
	if e != nil {
		return "", "", e
	}
	fd := findFunc(f, "", "newChecker")
	if fd == nil || fd.Body == nil || fd.Type.Params == nil {
		return "", "", fmt.Errorf("newChecker not found")
	}
	var names []string
	for _, p := range fd.Type.Params.List {
		for _, n := range p.Names {
			names = append(names, n.Name)
		}
	}
	if len(names) != 3 {
		return "", "", fmt.Errorf("newChecker: expected (session, host, health checker)")
	}
	hc := names[2]
	un, hcnt = "0", "0"
	lits := 0
	var ferr error
	set := func(field string, v ast.Expr) {
		s, err := c16shCounterExpr(v, hc)
		if err != nil {
			ferr = err
			return
		}
		if field == "unHealthCount" {
			un = s
		} else {
			hcnt = s
		}
	}
	for _, s := range fd.Body.List {
		mentions := false
		ast.Inspect(s, func(m ast.Node) bool {
			if id, ok := m.(*ast.Ident); ok && (id.Name == "unHealthCount" || id.Name == "healthCount") {
				mentions = true
			}
			return true
		})
		switch x := s.(type) {
		case *ast.AssignStmt:
			if len(x.Lhs) == 1 && len(x.Rhs) == 1 {
				// c := &sessionChecker{…}
				if u, ok := x.Rhs[0].(*ast.UnaryExpr); ok && u.Op == token.AND {
					if cl, ok := u.X.(*ast.CompositeLit); ok && exprKey(cl.Type) == "sessionChecker" {
						lits++
						for _, el := range cl.Elts {
							if kv, ok := el.(*ast.KeyValueExpr); ok {
								if k := exprKey(kv.Key); k == "unHealthCount" || k == "healthCount" {
									set(k, kv.Value)
								}
							}
						}
						continue
					}
				}
				// c.healthCount = …
				if sel, ok := x.Lhs[0].(*ast.SelectorExpr); ok && x.Tok == token.ASSIGN && (sel.Sel.Name == "unHealthCount" || sel.Sel.Name == "healthCount") {
					set(sel.Sel.Name, x.Rhs[0])
					continue
				}
			}
		}
		if mentions {
			return "", "", fmt.Errorf("newChecker: counter access in a shape the model has no reading for")
		}
	}
	if ferr != nil {
		return "", "", ferr
	}
	if lits != 1 {
		return "", "", fmt.Errorf("newChecker: expected one &sessionChecker{…} literal")
	}
	return un, hcnt, nil
}

func c16shGen() (string, error) {
	writes, err := c16shUpdateHosts()
	if err != nil {
		return "", err
	}
	byAddr, nh, err := c16shNewHost()
	if err != nil {
		return "", err
	}
	if err := c16shElsewhere(); err != nil {
		return "", err
	}
	un, hcnt, err := c16shNewChecker()
	if err != nil {
		return "", err
	}
	s := header("HealthShare", c16shDir+"/cluster.go (simpleCluster.UpdateHosts)", c16shDir+"/host.go (NewSimpleHost)", "pkg/upstream/healthcheck/session_checker.go (newChecker)", c16shDir+"/*.go (no other writer of the health word)")
	s += `inductive Flag where
  | activeHC   -- api.FAILED_ACTIVE_HC
  | outlier    -- api.FAILED_OUTLIER_CHECK
  deriving DecidableEq, Repr

inductive FlagOp where
  | set (f : Flag)
  | clear (f : Flag)
  deriving DecidableEq, Repr

/-- the cluster condition a flag operation of UpdateHosts stands under -/
inductive When where
  | always
  | noChecker    -- sc.healthChecker == nil
  | hasChecker   -- sc.healthChecker != nil
  deriving DecidableEq, Repr

/-- the per-host condition -/
inductive HostCond where
  | any
  | unhealthy          -- !h.Health()
  | has (f : Flag)     -- h.ContainHealthFlag(f)
  deriving DecidableEq, Repr

/-- one flag operation simpleCluster.UpdateHosts performs on every host of the NEW host set -/
structure HostSetWrite where
  when : When
  host : HostCond
  op : FlagOp
  deriving DecidableEq, Repr

`
	s += "/-- flag operations of simpleCluster.UpdateHosts on the hosts of the new host set, in program order -/\n"
	s += "def updateHostsWrites : List HostSetWrite := [" + strings.Join(writes, ", ") + "]\n"
	s += "/-- NewSimpleHost: the word of a host object is looked up by the configured address (GetHealthFlagPointer(config.Address)) -/\n"
	s += fmt.Sprintf("def wordByAddress : Bool := %v\n", byAddr)
	s += "/-- flag operations NewSimpleHost performs on the (possibly already existing) word of the address -/\n"
	s += "def newHostWrites : List FlagOp := [" + strings.Join(nh, ", ") + "]\n"
	s += "/-- no function of pkg/upstream/cluster other than Set/ClearHealthFlag, their simpleHost wrappers, NewSimpleHost and\nUpdateHosts writes a health word; healthStore is touched by GetHealthFlagPointer only (checked by the extractor) -/\n"
	s += "def noOtherWriter : Bool := true\n"
	s += "set_option linter.unusedVariables false in\n/-- newChecker: initial unHealthCount / healthCount of a session checker, over the thresholds (u, h) of its health checker -/\n"
	s += "def newCheckerUn (u h : Int) : Int := " + un + "\n"
	s += "set_option linter.unusedVariables false in\n"
	s += "def newCheckerHc (u h : Int) : Int := " + hcnt + "\n"
	s += footer("HealthShare")
	return s, nil
}
