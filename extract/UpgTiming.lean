-- translation-unsupported UpgTiming: open -out/pkg/network/transfer.go: no such file or directory
namespace MosnVerif.Gen.UpgTiming
end MosnVerif.Gen.UpgTiming
