-- translation-unsupported TlsHandover: open -out/pkg/mtls/crypto/tls/tls_custom.go: no such file or directory
namespace MosnVerif.Gen.TlsHandover
end MosnVerif.Gen.TlsHandover
