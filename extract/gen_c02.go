package main

// Gen/StreamIds.lean (C02): the request-id generators of every xprotocol (pkg/protocol/xprotocol/<p>/protocol.go
// GenerateRequestID) with faithful integer widths, and the two registration decisions of the client stream table
// (pkg/stream/xprotocol/conn.go NewStream, stream.go xStream.ResetStream).

import (
	"fmt"
	"go/ast"
	"strings"
)

func init() {
	register("StreamIds", genStreamIds)
}

func genStreamIds() (string, error) {
	protos := []struct{ dir, recv, lean string }{
		{"bolt", "boltProtocol", "genBolt"},
		{"boltv2", "boltv2Protocol", "genBoltV2"},
		{"dubbo", "dubboProtocol", "genDubbo"},
		{"dubbothrift", "thriftProtocol", "genThrift"},
		{"tars", "tarsProtocol", "genTars"},
	}
	var srcs []string
	for _, p := range protos {
		srcs = append(srcs, "pkg/protocol/xprotocol/"+p.dir+"/protocol.go")
	}
	srcs = append(srcs, "pkg/stream/xprotocol/conn.go", "pkg/stream/xprotocol/stream.go")
	var sb strings.Builder
	sb.WriteString(header("StreamIds", srcs...))
	sb.WriteString(`/-- Go integer conversions on mathematical integers -/
def u64 (x : Int) : Int := x % 18446744073709551616
def u32 (x : Int) : Int := x % 4294967296
def i32 (x : Int) : Int := let y := x % 4294967296; if y < 2147483648 then y else y - 4294967296
/-- atomic.AddUint64(p, d): the new value of the counter (which is also what the call returns) -/
def addU64 (base d : Int) : Int := u64 (base + d)
`)
	for _, p := range protos {
		f, err := parse("pkg/protocol/xprotocol/" + p.dir + "/protocol.go")
		if err != nil {
			return "", err
		}
		fd := findFunc(f, p.recv, "GenerateRequestID")
		if fd == nil || len(fd.Type.Params.List) != 1 || len(fd.Type.Params.List[0].Names) != 1 {
			return "", fmt.Errorf("%s.GenerateRequestID: unexpected signature", p.recv)
		}
		ptr := fd.Type.Params.List[0].Names[0].Name
		env := &Env{
			Names: map[string]string{ptr: "base"},
			Calls: map[string]string{"uint64": "u64", "uint32": "u32", "int32": "i32", "atomic.AddUint64": "addU64"},
			Ret: func(rs []string) string {
				if len(rs) != 1 {
					return "ERR"
				}
				return rs[0]
			},
			Fall: "ERR",
		}
		// the body must be a single `return <conversions>(atomic.AddUint64(ptr, k))`
		var rets []*ast.ReturnStmt
		for _, s := range fd.Body.List {
			if r, ok := s.(*ast.ReturnStmt); ok {
				rets = append(rets, r)
			} else {
				return "", fmt.Errorf("%s.GenerateRequestID: statement %T not supported", p.recv, s)
			}
		}
		if len(rets) != 1 {
			return "", fmt.Errorf("%s.GenerateRequestID: expected one return", p.recv)
		}
		body, err := env.block(fd.Body.List, "  ")
		if err != nil {
			return "", fmt.Errorf("%s.GenerateRequestID: %v", p.recv, err)
		}
		// the counter update is the innermost atomic.AddUint64(ptr, k)
		var add *ast.CallExpr
		ast.Inspect(fd.Body, func(n ast.Node) bool {
			if c, ok := n.(*ast.CallExpr); ok && exprKey(c.Fun) == "atomic.AddUint64" {
				add = c
			}
			return true
		})
		if add == nil || len(add.Args) != 2 || exprKey(add.Args[0]) != ptr {
			return "", fmt.Errorf("%s.GenerateRequestID: counter update not recognised", p.recv)
		}
		nb, err := env.expr(add)
		if err != nil {
			return "", err
		}
		fmt.Fprintf(&sb, "/-- %s.GenerateRequestID: (new counter value, request id) -/\ndef %s (base : Int) : Int × Int :=\n  (%s, %s)\n", p.recv, p.lean, nb, body)
	}
	// streamConn.NewStream: the stream is put into the table iff a receiver was given
	cf, err := parse("pkg/stream/xprotocol/conn.go")
	if err != nil {
		return "", err
	}
	ns := findFunc(cf, "streamConn", "NewStream")
	if ns == nil {
		return "", fmt.Errorf("streamConn.NewStream not found")
	}
	var reg *ast.IfStmt
	for _, i := range ifs(ns.Body) {
		ast.Inspect(i.Body, func(n ast.Node) bool {
			if a, ok := n.(*ast.AssignStmt); ok && len(a.Lhs) == 1 {
				if ix, ok := a.Lhs[0].(*ast.IndexExpr); ok && exprKey(ix.X) == "sc.clientStreams" {
					reg = i
				}
			}
			return true
		})
	}
	if reg == nil {
		return "", fmt.Errorf("streamConn.NewStream: table insertion not found")
	}
	be, ok := reg.Cond.(*ast.BinaryExpr)
	if !ok || exprKey(be.X) != "receiver" || exprKey(be.Y) != "nil" {
		return "", fmt.Errorf("streamConn.NewStream: registration test is not `receiver != nil`")
	}
	switch be.Op.String() {
	case "!=":
		sb.WriteString("/-- streamConn.NewStream registers the stream in clientStreams -/\ndef registers (hasReceiver : Bool) : Bool :=\n  hasReceiver\n")
	case "==":
		sb.WriteString("/-- streamConn.NewStream registers the stream in clientStreams -/\ndef registers (hasReceiver : Bool) : Bool :=\n  !hasReceiver\n")
	default:
		return "", fmt.Errorf("streamConn.NewStream: registration test not recognised")
	}
	// xStream.ResetStream: the table entry is deleted unless the reset comes from the connection
	sf, err := parse("pkg/stream/xprotocol/stream.go")
	if err != nil {
		return "", err
	}
	rs := findFunc(sf, "xStream", "ResetStream")
	if rs == nil {
		return "", fmt.Errorf("xStream.ResetStream not found")
	}
	var del *ast.IfStmt
	for _, i := range ifs(rs.Body) {
		ast.Inspect(i.Body, func(n ast.Node) bool {
			if c, ok := n.(*ast.CallExpr); ok && exprKey(c.Fun) == "delete" {
				del = i
			}
			return true
		})
	}
	delCond := "false"
	if del != nil {
		env := boolEnv(map[string]string{"s.direction": "direction", "stream.ClientStream": "clientStream", "s.connReset": "connReset"})
		c, err := env.expr(del.Cond)
		if err != nil {
			return "", fmt.Errorf("xStream.ResetStream: %v", err)
		}
		delCond = c
	} else {
		// an unconditional delete?
		for _, s := range rs.Body.List {
			if es, ok := s.(*ast.ExprStmt); ok {
				if c, ok := es.X.(*ast.CallExpr); ok && exprKey(c.Fun) == "delete" {
					delCond = "true"
				}
			}
		}
	}
	cs, err := intConst("pkg/stream", "ClientStream")
	if err != nil {
		return "", err
	}
	fmt.Fprintf(&sb, "def clientStream : Int := %d\n", cs)
	sb.WriteString("/-- xStream.ResetStream removes the stream's id from clientStreams -/\ndef resetDeletes (direction : Int) (connReset : Bool) : Bool :=\n  " + delCond + "\n")
	sb.WriteString(footer("StreamIds"))
	return sb.String(), nil
}
