package main

import (
	"fmt"
	"go/ast"
	"go/token"
	"strings"
)

func init() {
	register("Updates", genUpdates)
}

// countCalls counts the calls whose head prints as one of `heads` inside node n.
func countCalls(n ast.Node, heads ...string) int {
	c := 0
	if n == nil {
		return 0
	}
	ast.Inspect(n, func(x ast.Node) bool {
		if ce, ok := x.(*ast.CallExpr); ok {
			k := exprKey(ce.Fun)
			for _, h := range heads {
				if k == h || strings.HasSuffix(k, "."+h) {
					c++
				}
			}
		}
		return true
	})
	return c
}

// topLevelCalls counts matching calls among the statements executed unconditionally at the top level of a block
// (expression statements and the init/cond of top-level `if err := f(); ...` statements).
func topLevelCalls(b *ast.BlockStmt, heads ...string) int {
	c := 0
	for _, s := range b.List {
		switch x := s.(type) {
		case *ast.ExprStmt:
			c += countCalls(x, heads...)
		case *ast.AssignStmt:
			c += countCalls(x, heads...)
		case *ast.IfStmt:
			if x.Init != nil {
				c += countCalls(x.Init, heads...)
			}
			c += countCalls(x.Cond, heads...)
		case *ast.ReturnStmt:
			c += countCalls(x, heads...)
		}
	}
	return c
}

func boolLit(b bool) string {
	if b {
		return "true"
	}
	return "false"
}

// genUpdates regenerates the facts the C12 model (Model/Updates.lean) is built on:
//   - host weight bounds and the two weight clamps (fresh-start parser, xDS endpoint conversion), translated;
//   - for every mutator of the router manager / cluster manager: does it record the new configuration in the
//     effective-config store (the "mechanism" of the property);
//   - the shape of ConvertUpdateEndpoints: how many host-set replacements are issued inside / after the loop over
//     the localities of one assignment.
func genUpdates() (string, error) {
	s := header("Updates", "pkg/config/v2/constants.go", "pkg/configmanager/parser.go", "pkg/router/routers_manager.go",
		"pkg/upstream/cluster/cluster_manager.go", "pkg/configmanager/effectiveconfig.go", "istio/istio1106/xds/conv/convert_cluster.go",
		"istio/istio1106/xds/conv/update.go", "pkg/server/handler.go")

	// ---- constants
	minW, err := intConst("pkg/config/v2", "MinHostWeight")
	if err != nil {
		return "", err
	}
	maxW, err := intConst("pkg/config/v2", "MaxHostWeight")
	if err != nil {
		return "", err
	}
	s += fmt.Sprintf("def minHostWeight : Int := %d\ndef maxHostWeight : Int := %d\n\n", minW, maxW)

	// ---- transHostWeight (fresh start: parseHostConfig)
	pf, err := parse("pkg/configmanager/parser.go")
	if err != nil {
		return "", err
	}
	fd := findFunc(pf, "", "transHostWeight")
	if fd == nil || len(fd.Type.Params.List) != 1 || len(fd.Type.Params.List[0].Names) != 1 {
		return "", fmt.Errorf("transHostWeight(weight) not found")
	}
	arg := fd.Type.Params.List[0].Names[0].Name
	env := &Env{
		Names: map[string]string{arg: "weight", "v2.MaxHostWeight": "maxHostWeight", "v2.MinHostWeight": "minHostWeight"},
		Calls: map[string]string{"uint32": "", "int": ""},
		Ret: func(rs []string) string {
			if len(rs) != 1 {
				return "ERR"
			}
			return rs[0]
		},
		Fall: "ERR_falls_off",
	}
	body, err := env.block(fd.Body.List, "  ")
	if err != nil {
		return "", fmt.Errorf("transHostWeight: %v", err)
	}
	if strings.Contains(body, "ERR") {
		return "", fmt.Errorf("transHostWeight: body may fall off its end")
	}
	// parseHostConfig must apply it to every host
	phc := findFunc(pf, "", "parseHostConfig")
	if phc == nil || countCalls(phc.Body, "transHostWeight") != 1 {
		return "", fmt.Errorf("parseHostConfig does not apply transHostWeight exactly once")
	}
	pcc := findFunc(pf, "", "ParseClusterConfig")
	if pcc == nil || countCalls(pcc.Body, "parseHostConfig") != 1 {
		return "", fmt.Errorf("ParseClusterConfig does not call parseHostConfig exactly once")
	}
	s += "/-- `transHostWeight` (pkg/configmanager/parser.go), applied to every host of a cluster by `ParseClusterConfig` when MOSN\nstarts from a configuration file. uint32 weights as unbounded `Int` (no arithmetic, only comparisons). -/\n"
	s += "def transHostWeight (weight : Int) : Int :=\n  " + body + "\n\n"

	// ---- the clamp of ConvertEndpointsConfig
	cf, err := parse("istio/istio1106/xds/conv/convert_cluster.go")
	if err != nil {
		return "", err
	}
	cec := findFunc(cf, "", "ConvertEndpointsConfig")
	if cec == nil {
		return "", fmt.Errorf("ConvertEndpointsConfig not found")
	}
	var clamp *ast.IfStmt
	ast.Inspect(cec.Body, func(n ast.Node) bool {
		if is, ok := n.(*ast.IfStmt); ok && clamp == nil && is.Init == nil {
			if be, ok := is.Cond.(*ast.BinaryExpr); ok && exprKey(be.X) == "weight" {
				clamp = is
				return false
			}
		}
		return true
	})
	if clamp == nil {
		return "", fmt.Errorf("weight clamp of ConvertEndpointsConfig not found")
	}
	env2 := &Env{
		Names: map[string]string{"weight": "weight", "v2.MaxHostWeight": "maxHostWeight", "v2.MinHostWeight": "minHostWeight"},
		Calls: map[string]string{"uint32": ""},
		Ret:   func(rs []string) string { return "ERR" },
		Fall:  "weight",
	}
	body2, err := env2.block([]ast.Stmt{clamp}, "  ")
	if err != nil {
		return "", fmt.Errorf("ConvertEndpointsConfig clamp: %v", err)
	}
	s += "/-- the weight clamp of `ConvertEndpointsConfig` (applied when the endpoint carries a load-balancing weight). -/\n"
	s += "def xdsEndpointWeight (weight : Int) : Int :=\n  " + body2 + "\n\n"

	// ---- router manager: every mutator records the new configuration
	rf, err := parse("pkg/router/routers_manager.go")
	if err != nil {
		return "", err
	}
	for _, fn := range []string{"AddOrUpdateRouters", "AddRoute", "RemoveAllRoutes"} {
		d := findFunc(rf, "routersManagerImpl", fn)
		if d == nil {
			return "", fmt.Errorf("routersManagerImpl.%s not found", fn)
		}
		n := countCalls(d.Body, "configmanager.SetRouter")
		s += fmt.Sprintf("/-- `%s` calls `configmanager.SetRouter` (%d call site(s)). -/\ndef %s_recordsRouter : Bool := %s\n",
			fn, n, lowerFirst(fn), boolLit(n >= 1))
	}
	// AddOrUpdateRouters: the call must be on the common path (after the add/update branches), or on the unconditional path of
	// BOTH branches of the lookup `if v, ok := …Load(…); ok { update } else { add }`
	{
		d := findFunc(rf, "routersManagerImpl", "AddOrUpdateRouters")
		both := topLevelCalls(d.Body, "configmanager.SetRouter") >= 1
		for _, st := range d.Body.List {
			if is, ok := st.(*ast.IfStmt); ok && is.Else != nil {
				if eb, ok := is.Else.(*ast.BlockStmt); ok && topLevelCalls(is.Body, "configmanager.SetRouter") >= 1 && topLevelCalls(eb, "configmanager.SetRouter") >= 1 {
					both = true
				}
			}
		}
		s += fmt.Sprintf("/-- in `AddOrUpdateRouters` the `SetRouter` call is reached by the add and by the update branch (at the top level of the body, or at the top level of both branches). -/\ndef addOrUpdateRouters_recordsOnBothBranches : Bool := %s\n\n",
			boolLit(both))
	}

	// ---- SetRouter: which fields of the router are copied into the store, and under which condition
	{
		ef, err := parse("pkg/configmanager/effectiveconfig.go")
		if err != nil {
			return "", err
		}
		facts, err := c12mSetRouter(ef)
		if err != nil {
			return "", err
		}
		s += facts
	}

	// ---- cluster manager
	mf, err := parse("pkg/upstream/cluster/cluster_manager.go")
	if err != nil {
		return "", err
	}
	type fact struct{ recv, fn, lean, doc string; heads []string; top bool }
	facts := []fact{
		{"clusterManager", "UpdateCluster", "updateCluster_recordsClusterConfig", "`UpdateCluster` calls `configmanager.SetClusterConfig` unconditionally", []string{"configmanager.SetClusterConfig"}, true},
		{"clusterManager", "UpdateCluster", "updateCluster_refreshesHosts", "`UpdateCluster` calls `refreshHostsConfig` unconditionally after installing the cluster", []string{"refreshHostsConfig"}, true},
		{"clusterManager", "UpdateHosts", "updateHosts_refreshesHosts", "`UpdateHosts` calls `refreshHostsConfig` unconditionally after the handler", []string{"refreshHostsConfig"}, true},
		{"clusterManager", "RemovePrimaryCluster", "removePrimaryCluster_removesClusterConfig", "`RemovePrimaryCluster` calls `configmanager.SetRemoveClusterConfig`", []string{"configmanager.SetRemoveClusterConfig"}, false},
		{"", "refreshHostsConfig", "refreshHostsConfig_setsHosts", "`refreshHostsConfig` calls `configmanager.SetHosts` unconditionally", []string{"configmanager.SetHosts"}, true},
	}
	for _, f := range facts {
		d := findFunc(mf, f.recv, f.fn)
		if d == nil {
			return "", fmt.Errorf("%s not found", f.fn)
		}
		n := countCalls(d.Body, f.heads...)
		if f.top {
			n = topLevelCalls(d.Body, f.heads...)
		}
		s += fmt.Sprintf("/-- %s (%d). -/\ndef %s : Bool := %s\n", f.doc, n, f.lean, boolLit(n >= 1))
	}
	s += "\n"

	// ---- ConvertUpdateEndpoints: where are the host-set replacements issued?
	uf, err := parse("istio/istio1106/xds/conv/update.go")
	if err != nil {
		return "", err
	}
	cue := findFunc(uf, "xdsConverter", "ConvertUpdateEndpoints")
	if cue == nil {
		return "", fmt.Errorf("ConvertUpdateEndpoints not found")
	}
	var outer, inner *ast.RangeStmt
	ast.Inspect(cue.Body, func(n ast.Node) bool {
		if r, ok := n.(*ast.RangeStmt); ok {
			switch exprKey(r.X) {
			case "loadAssignments":
				outer = r
			case "loadAssignment.Endpoints":
				inner = r
			}
		}
		return true
	})
	if outer == nil || inner == nil {
		return "", fmt.Errorf("ConvertUpdateEndpoints: assignment / locality loops not found")
	}
	in := countCalls(inner.Body, "TriggerClusterHostUpdate", "UpdateClusterHosts")
	after := 0
	seen := false
	for _, st := range outer.Body.List {
		if st == ast.Stmt(inner) {
			seen = true
			continue
		}
		if seen {
			after += countCalls(st, "TriggerClusterHostUpdate", "UpdateClusterHosts")
		}
	}
	appends := countCalls(inner.Body, "append")
	s += "/-- number of host-set replacements (`TriggerClusterHostUpdate`) issued lexically INSIDE the loop over the localities of one assignment. -/\n"
	s += fmt.Sprintf("def endpointUpdatesInsideLocalityLoop : Nat := %d\n", in)
	s += "/-- number of host-set replacements issued after that loop, once per assignment. -/\n"
	s += fmt.Sprintf("def endpointUpdatesAfterLocalityLoop : Nat := %d\n", after)
	s += "/-- the locality loop accumulates the converted hosts (`append`). -/\n"
	s += fmt.Sprintf("def localityLoopAccumulates : Bool := %s\n", boolLit(appends >= 1))
	// ---- listeners (pkg/server/handler.go)
	hf, err := parse("pkg/server/handler.go")
	if err != nil {
		return "", err
	}
	aul := findFunc(hf, "connHandler", "AddOrUpdateListener")
	rml := findFunc(hf, "connHandler", "RemoveListeners")
	if aul == nil || rml == nil {
		return "", fmt.Errorf("connHandler.AddOrUpdateListener / RemoveListeners not found")
	}
	s += fmt.Sprintf("\n/-- `AddOrUpdateListener` records the listener's config (`configmanager.SetListenerConfig`) on its common path. -/\ndef addOrUpdateListener_recordsListenerConfig : Bool := %s\n",
		boolLit(topLevelCalls(aul.Body, "configmanager.SetListenerConfig") >= 1))
	s += fmt.Sprintf("/-- `RemoveListeners` removes the listener's config from the store (`configmanager.SetRemoveListenerConfig`). -/\ndef removeListeners_removesListenerConfig : Bool := %s\n",
		boolLit(countCalls(rml.Body, "configmanager.SetRemoveListenerConfig") >= 1))
	// the update branch writes the new idle timeout into the listener's stored config as well as into the live listener
	idleCfg, idleLive := 0, 0
	ast.Inspect(aul.Body, func(n ast.Node) bool {
		if as, ok := n.(*ast.AssignStmt); ok && len(as.Lhs) == 1 {
			switch exprKey(as.Lhs[0]) {
			case "rawConfig.ConnectionIdleTimeout":
				idleCfg++
			case "al.idleTimeout":
				idleLive++
			}
		}
		return true
	})
	s += fmt.Sprintf("/-- the update branch assigns the new idle timeout to the live listener (%d) and to its config (%d). -/\ndef updateListener_idleLive : Bool := %s\ndef updateListener_idleConfig : Bool := %s\n",
		idleLive, idleCfg, boolLit(idleLive >= 1), boolLit(idleCfg >= 1))
	// validation before application: no error return of the update branch lies after the first filter-factory registration
	firstReg := token.NoPos
	ast.Inspect(aul.Body, func(n ast.Node) bool {
		if ce, ok := n.(*ast.CallExpr); ok {
			k := exprKey(ce.Fun)
			if strings.HasSuffix(k, "AddOrUpdateStreamFilterConfig") || strings.HasSuffix(k, "AddOrUpdateListenerFilterFactories") ||
				strings.HasSuffix(k, "AddOrUpdateNetworkFilterFactories") {
				if firstReg == token.NoPos || ce.Pos() < firstReg {
					firstReg = ce.Pos()
				}
			}
		}
		return true
	})
	if firstReg == token.NoPos {
		return "", fmt.Errorf("AddOrUpdateListener: filter factory registrations not found")
	}
	lateReturns := 0
	ast.Inspect(aul.Body, func(n ast.Node) bool {
		is, ok := n.(*ast.IfStmt)
		if !ok {
			return true
		}
		var cond string
		if be, ok := is.Cond.(*ast.BinaryExpr); ok {
			cond = exprKey(be.X) + be.Op.String() + exprKey(be.Y)
		}
		if cond != "al!=nil" {
			return true
		}
		ast.Inspect(is.Body, func(m ast.Node) bool {
			if r, ok := m.(*ast.ReturnStmt); ok && r.Pos() > firstReg {
				lateReturns++
			}
			return true
		})
		return false
	})
	s += fmt.Sprintf("/-- number of `return` statements of the update branch (`if al != nil`) that lie AFTER the first filter-factory registration:\n0 = a rejected update is rejected before anything is changed. -/\ndef updateListener_lateErrorReturns : Nat := %d\n", lateReturns)
	// ---- RemoveClusterHosts: the removal loop, statement by statement
	rl, err := c12rRemoveLoop(mf)
	if err != nil {
		return "", err
	}
	s += rl
	s += footer("Updates")
	return s, nil
}

// ---------------------------------------------------------------------------------------------------------------------
// RemoveClusterHosts (pkg/upstream/cluster/cluster_manager.go): the handler collects the hosts of the snapshot into a
// slice, sorts it, and for every address of the call looks the address up with sort.Search and deletes the host found.
// Regenerated: whether the slice is sorted before the loop, the predicate handed to sort.Search, the guard of the deletion,
// and the deletion statements themselves (as list operations on the slice variable). Anything outside this vocabulary is
// rejected (=> translation-unsupported).

type c12rCtx struct {
	slice   string // the slice variable (sortedHosts)
	idx     string // Lean name of the index variable
	idxGo   map[string]string
	addrGo  string // the Go name of the address variable of the range loop
	lenLean string // Lean rendering of len(slice)
	atLean  func(ix string) string
}

// c12rNat renders an int-typed Go expression over the index variable, literals, len(slice) and + / -.
func (c *c12rCtx) c12rNat(e ast.Expr) (string, error) {
	switch x := e.(type) {
	case *ast.ParenExpr:
		return c.c12rNat(x.X)
	case *ast.BasicLit:
		if x.Kind == token.INT {
			return x.Value, nil
		}
	case *ast.Ident:
		if n, ok := c.idxGo[x.Name]; ok {
			return n, nil
		}
	case *ast.CallExpr:
		if (exprKey(x.Fun) == c.slice+".Len" && len(x.Args) == 0) || (exprKey(x.Fun) == "len" && len(x.Args) == 1 && exprKey(x.Args[0]) == c.slice) {
			return c.lenLean, nil
		}
	case *ast.BinaryExpr:
		l, err := c.c12rNat(x.X)
		if err != nil {
			return "", err
		}
		r, err := c.c12rNat(x.Y)
		if err != nil {
			return "", err
		}
		switch x.Op {
		case token.ADD:
			return "(" + l + " + " + r + ")", nil
		case token.SUB:
			return "(" + l + " - " + r + ")", nil
		}
	}
	return "", fmt.Errorf("RemoveClusterHosts: unsupported index expression %s", exprKey(e))
}

// c12rStr renders a string-typed expression: the loop's address variable or slice[e].AddressString().
func (c *c12rCtx) c12rStr(e ast.Expr) (string, bool) {
	switch x := e.(type) {
	case *ast.ParenExpr:
		return c.c12rStr(x.X)
	case *ast.Ident:
		if x.Name == c.addrGo {
			return "addr", true
		}
	case *ast.CallExpr:
		if sel, ok := x.Fun.(*ast.SelectorExpr); ok && sel.Sel.Name == "AddressString" && len(x.Args) == 0 {
			if ix, ok := sel.X.(*ast.IndexExpr); ok && exprKey(ix.X) == c.slice {
				i, err := c.c12rNat(ix.Index)
				if err == nil {
					return c.atLean(i), true
				}
			}
		}
	}
	return "", false
}

func (c *c12rCtx) c12rBool(e ast.Expr) (string, error) {
	switch x := e.(type) {
	case *ast.ParenExpr:
		return c.c12rBool(x.X)
	case *ast.UnaryExpr:
		if x.Op == token.NOT {
			s, err := c.c12rBool(x.X)
			return "(!" + s + ")", err
		}
	case *ast.BinaryExpr:
		switch x.Op {
		case token.LAND, token.LOR:
			l, err := c.c12rBool(x.X)
			if err != nil {
				return "", err
			}
			r, err := c.c12rBool(x.Y)
			if err != nil {
				return "", err
			}
			if x.Op == token.LAND {
				return "(" + l + " && " + r + ")", nil
			}
			return "(" + l + " || " + r + ")", nil
		}
		cmp := map[token.Token]string{token.LSS: "<", token.LEQ: "≤", token.GTR: ">", token.GEQ: "≥", token.EQL: "=", token.NEQ: "≠"}
		op, ok := cmp[x.Op]
		if !ok {
			break
		}
		if l, ok := c.c12rStr(x.X); ok {
			if r, ok := c.c12rStr(x.Y); ok {
				return "(decide (" + l + " " + op + " " + r + "))", nil
			}
			break
		}
		l, err := c.c12rNat(x.X)
		if err != nil {
			return "", err
		}
		r, err := c.c12rNat(x.Y)
		if err != nil {
			return "", err
		}
		return "(decide (" + l + " " + op + " " + r + "))", nil
	}
	return "", fmt.Errorf("RemoveClusterHosts: unsupported condition %s", exprKey(e))
}

// c12rDelete renders the statements of the "found it" branch as successive rebindings of the list `l`.
func (c *c12rCtx) c12rDelete(stmts []ast.Stmt) (string, error) {
	out := ""
	bad := func(st ast.Stmt) error {
		return fmt.Errorf("RemoveClusterHosts: statement outside the deletion vocabulary at %s", fset.Position(st.Pos()))
	}
	// slice[lo:hi] of the slice variable -> (lo, hi) Lean expressions ("" = absent)
	sliceOf := func(e ast.Expr) (string, string, bool) {
		se, ok := e.(*ast.SliceExpr)
		if !ok || se.Slice3 || exprKey(se.X) != c.slice {
			return "", "", false
		}
		lo, hi := "", ""
		var err error
		if se.Low != nil {
			if lo, err = c.c12rNat(se.Low); err != nil {
				return "", "", false
			}
		}
		if se.High != nil {
			if hi, err = c.c12rNat(se.High); err != nil {
				return "", "", false
			}
		}
		return lo, hi, true
	}
	sub := func(lo, hi string) string {
		s := "l"
		if hi != "" {
			s = "(l.take " + hi + ")"
		}
		if lo != "" {
			s = "(" + s + ".drop " + lo + ")"
		}
		return s
	}
	elemIdx := func(e ast.Expr) (string, bool) {
		ix, ok := e.(*ast.IndexExpr)
		if !ok || exprKey(ix.X) != c.slice {
			return "", false
		}
		i, err := c.c12rNat(ix.Index)
		return i, err == nil
	}
	for _, st := range stmts {
		as, ok := st.(*ast.AssignStmt)
		if !ok || as.Tok != token.ASSIGN {
			return "", bad(st)
		}
		switch {
		case len(as.Lhs) == 1 && len(as.Rhs) == 1 && exprKey(as.Lhs[0]) == c.slice:
			// slice = append(slice[:a], slice[b:]...)   |   slice = slice[a:b]
			if ce, ok := as.Rhs[0].(*ast.CallExpr); ok && exprKey(ce.Fun) == "append" && len(ce.Args) == 2 && ce.Ellipsis != token.NoPos {
				lo1, hi1, ok1 := sliceOf(ce.Args[0])
				lo2, hi2, ok2 := sliceOf(ce.Args[1])
				if !ok1 || !ok2 || lo1 != "" || hi1 == "" {
					return "", bad(st)
				}
				out += "  let l := " + sub(lo1, hi1) + " ++ " + sub(lo2, hi2) + "\n"
				continue
			}
			if lo, hi, ok := sliceOf(as.Rhs[0]); ok {
				out += "  let l := " + sub(lo, hi) + "\n"
				continue
			}
			return "", bad(st)
		case len(as.Lhs) == 1 && len(as.Rhs) == 1:
			// slice[a] = slice[b]
			d, ok1 := elemIdx(as.Lhs[0])
			s, ok2 := elemIdx(as.Rhs[0])
			if !ok1 || !ok2 {
				return "", bad(st)
			}
			out += "  let l := sliceCopyElem l " + d + " " + s + "\n"
		case len(as.Lhs) == 2 && len(as.Rhs) == 2:
			// slice[a], slice[b] = slice[b], slice[a]
			a, ok1 := elemIdx(as.Lhs[0])
			b, ok2 := elemIdx(as.Lhs[1])
			b2, ok3 := elemIdx(as.Rhs[0])
			a2, ok4 := elemIdx(as.Rhs[1])
			if !ok1 || !ok2 || !ok3 || !ok4 || a != a2 || b != b2 {
				return "", bad(st)
			}
			out += "  let l := sliceSwap l " + a + " " + b + "\n"
		default:
			return "", bad(st)
		}
	}
	return out, nil
}

func c12rRemoveLoop(mf *ast.File) (string, error) {
	fd := findFunc(mf, "clusterManager", "RemoveClusterHosts")
	if fd == nil || len(fd.Type.Params.List) != 2 || len(fd.Type.Params.List[1].Names) != 1 {
		return "", fmt.Errorf("clusterManager.RemoveClusterHosts(clusterName, addrs) not found")
	}
	addrsParam := fd.Type.Params.List[1].Names[0].Name
	// the handler: the function literal passed to cm.UpdateHosts
	var handler *ast.FuncLit
	ast.Inspect(fd.Body, func(n ast.Node) bool {
		if fl, ok := n.(*ast.FuncLit); ok && handler == nil && len(fl.Type.Params.List) == 2 {
			handler = fl
			return false
		}
		return true
	})
	if handler == nil {
		return "", fmt.Errorf("RemoveClusterHosts: host handler literal not found")
	}
	var loop *ast.RangeStmt
	loopAt := -1
	for i, st := range handler.Body.List {
		if r, ok := st.(*ast.RangeStmt); ok && exprKey(r.X) == addrsParam {
			if loop != nil {
				return "", fmt.Errorf("RemoveClusterHosts: more than one loop over the addresses")
			}
			loop, loopAt = r, i
		}
	}
	if loop == nil || loop.Value == nil {
		return "", fmt.Errorf("RemoveClusterHosts: `for _, addr := range %s` not found at the top level of the handler", addrsParam)
	}
	if k, ok := loop.Key.(*ast.Ident); !ok || k.Name != "_" {
		return "", fmt.Errorf("RemoveClusterHosts: the loop uses the index of the address")
	}
	if len(loop.Body.List) != 2 {
		return "", fmt.Errorf("RemoveClusterHosts: the loop body is not `i := sort.Search(…); if … { … }`")
	}
	// i := sort.Search(LEN, func(k int) bool { return PRED })
	ivar, rhs, ok := assignParts(loop.Body.List[0], token.DEFINE)
	se, ok2 := rhs.(*ast.CallExpr)
	if !ok || !ok2 || exprKey(se.Fun) != "sort.Search" || len(se.Args) != 2 {
		return "", fmt.Errorf("RemoveClusterHosts: first loop statement is not `i := sort.Search(n, pred)`")
	}
	pl, ok := se.Args[1].(*ast.FuncLit)
	if !ok || len(pl.Type.Params.List) != 1 || len(pl.Type.Params.List[0].Names) != 1 || len(pl.Body.List) != 1 {
		return "", fmt.Errorf("RemoveClusterHosts: the sort.Search predicate is not a single-return literal")
	}
	pr, ok := pl.Body.List[0].(*ast.ReturnStmt)
	if !ok || len(pr.Results) != 1 {
		return "", fmt.Errorf("RemoveClusterHosts: the sort.Search predicate is not a single-return literal")
	}
	// the slice variable: what the search length is taken of
	var slice string
	switch n := se.Args[0].(type) {
	case *ast.CallExpr:
		if sel, ok := n.Fun.(*ast.SelectorExpr); ok && sel.Sel.Name == "Len" && len(n.Args) == 0 {
			slice = exprKey(sel.X)
		} else if exprKey(n.Fun) == "len" && len(n.Args) == 1 {
			slice = exprKey(n.Args[0])
		}
	}
	if slice == "" {
		return "", fmt.Errorf("RemoveClusterHosts: the sort.Search length is not the length of a slice variable")
	}
	// sorted before the loop? `sort.Sort(slice)` at the top level of the handler, before the loop, slice not reassigned after
	sorts := false
	for _, st := range handler.Body.List[:loopAt] {
		if isCallStmt(st, "sort.Sort", 1) && exprKey(st.(*ast.ExprStmt).X.(*ast.CallExpr).Args[0]) == slice {
			sorts = true
		} else if lhs, _, ok := assignParts(st, token.ASSIGN); ok && lhs == slice {
			sorts = false
		}
	}
	// the result handed to the cluster: c.UpdateHosts(NewHostSet(slice)) after the loop
	installs := 0
	for _, st := range handler.Body.List[loopAt+1:] {
		ast.Inspect(st, func(n ast.Node) bool {
			if ce, ok := n.(*ast.CallExpr); ok && exprKey(ce.Fun) == "NewHostSet" && len(ce.Args) == 1 && exprKey(ce.Args[0]) == slice {
				installs++
			}
			return true
		})
	}
	if installs != 1 {
		return "", fmt.Errorf("RemoveClusterHosts: the handler does not install NewHostSet(%s) exactly once after the loop", slice)
	}
	addrVar := exprKey(loop.Value)
	predCtx := &c12rCtx{slice: slice, idxGo: map[string]string{pl.Type.Params.List[0].Names[0].Name: "k"}, addrGo: addrVar, lenLean: "n",
		atLean: func(ix string) string { return "(at_ " + ix + ")" }}
	pred, err := predCtx.c12rBool(pr.Results[0])
	if err != nil {
		return "", err
	}
	ifs, ok := loop.Body.List[1].(*ast.IfStmt)
	if !ok || ifs.Init != nil || ifs.Else != nil {
		return "", fmt.Errorf("RemoveClusterHosts: second loop statement is not a plain `if`")
	}
	gctx := &c12rCtx{slice: slice, idxGo: map[string]string{ivar: "i"}, addrGo: addrVar, lenLean: "n",
		atLean: func(ix string) string { return "(at_ " + ix + ")" }}
	guard, err := gctx.c12rBool(ifs.Cond)
	if err != nil {
		return "", err
	}
	dctx := &c12rCtx{slice: slice, idxGo: map[string]string{ivar: "i"}, addrGo: addrVar, lenLean: "l.length",
		atLean: func(ix string) string { return "ERR" }}
	del, err := dctx.c12rDelete(ifs.Body.List)
	if err != nil {
		return "", err
	}
	s := "\nset_option linter.unusedVariables false\n/-- `RemoveClusterHosts`: `sort.Sort(" + slice + ")` precedes the loop over the addresses. -/\n"
	s += "def removeHosts_sorts : Bool := " + boolLit(sorts) + "\n"
	s += "/-- the predicate handed to `sort.Search` (`n` = current length, `at_ k` = address of element `k`, `addr` = the address looked up). -/\n"
	s += "def removeSearchPred (n : Nat) (at_ : Nat → String) (addr : String) (k : Nat) : Bool :=\n  " + pred + "\n"
	s += "/-- the guard of the deletion (`i` = result of the search). -/\n"
	s += "def removeFound (n : Nat) (at_ : Nat → String) (addr : String) (i : Nat) : Bool :=\n  " + guard + "\n"
	s += "/-- `s[dst] = s[src]` -/\ndef sliceCopyElem {α : Type} (l : List α) (dst src : Nat) : List α :=\n  match l[src]? with\n  | some x => l.set dst x\n  | none => l\n"
	s += "/-- `s[a], s[b] = s[b], s[a]` -/\ndef sliceSwap {α : Type} (l : List α) (a b : Nat) : List α :=\n  match l[a]?, l[b]? with\n  | some x, some y => (l.set a y).set b x\n  | _, _ => l\n"
	s += "/-- the statements of the `found it` branch, in source order, as operations on the slice `l` (`i` = index found). -/\n"
	s += "def removeDelete {α : Type} (l : List α) (i : Nat) : List α :=\n" + del + "  l\n"
	return s, nil
}

