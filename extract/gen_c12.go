package main

import (
	"fmt"
	"go/ast"
	"go/token"
	"strings"
)

func init() {
	register("Updates", genUpdates)
}

// countCalls counts the calls whose head prints as one of `heads` inside node n.
func countCalls(n ast.Node, heads ...string) int {
	c := 0
	if n == nil {
		return 0
	}
	ast.Inspect(n, func(x ast.Node) bool {
		if ce, ok := x.(*ast.CallExpr); ok {
			k := exprKey(ce.Fun)
			for _, h := range heads {
				if k == h || strings.HasSuffix(k, "."+h) {
					c++
				}
			}
		}
		return true
	})
	return c
}

// topLevelCalls counts matching calls among the statements executed unconditionally at the top level of a block
// (expression statements and the init/cond of top-level `if err := f(); ...` statements).
func topLevelCalls(b *ast.BlockStmt, heads ...string) int {
	c := 0
	for _, s := range b.List {
		switch x := s.(type) {
		case *ast.ExprStmt:
			c += countCalls(x, heads...)
		case *ast.AssignStmt:
			c += countCalls(x, heads...)
		case *ast.IfStmt:
			if x.Init != nil {
				c += countCalls(x.Init, heads...)
			}
			c += countCalls(x.Cond, heads...)
		case *ast.ReturnStmt:
			c += countCalls(x, heads...)
		}
	}
	return c
}

func boolLit(b bool) string {
	if b {
		return "true"
	}
	return "false"
}

// genUpdates regenerates the facts the C12 model (Model/Updates.lean) is built on:
//   - host weight bounds and the two weight clamps (fresh-start parser, xDS endpoint conversion), translated;
//   - for every mutator of the router manager / cluster manager: does it record the new configuration in the
//     effective-config store (the "mechanism" of the property);
//   - the shape of ConvertUpdateEndpoints: how many host-set replacements are issued inside / after the loop over
//     the localities of one assignment.
func genUpdates() (string, error) {
	s := header("Updates", "pkg/config/v2/constants.go", "pkg/configmanager/parser.go", "pkg/router/routers_manager.go",
		"pkg/upstream/cluster/cluster_manager.go", "pkg/configmanager/effectiveconfig.go", "istio/istio1106/xds/conv/convert_cluster.go",
		"istio/istio1106/xds/conv/update.go", "pkg/server/handler.go")

	// ---- constants
	minW, err := intConst("pkg/config/v2", "MinHostWeight")
	if err != nil {
		return "", err
	}
	maxW, err := intConst("pkg/config/v2", "MaxHostWeight")
	if err != nil {
		return "", err
	}
	s += fmt.Sprintf("def minHostWeight : Int := %d\ndef maxHostWeight : Int := %d\n\n", minW, maxW)

	// ---- transHostWeight (fresh start: parseHostConfig)
	pf, err := parse("pkg/configmanager/parser.go")
	if err != nil {
		return "", err
	}
	fd := findFunc(pf, "", "transHostWeight")
	if fd == nil || len(fd.Type.Params.List) != 1 || len(fd.Type.Params.List[0].Names) != 1 {
		return "", fmt.Errorf("transHostWeight(weight) not found")
	}
	arg := fd.Type.Params.List[0].Names[0].Name
	env := &Env{
		Names: map[string]string{arg: "weight", "v2.MaxHostWeight": "maxHostWeight", "v2.MinHostWeight": "minHostWeight"},
		Calls: map[string]string{"uint32": "", "int": ""},
		Ret: func(rs []string) string {
			if len(rs) != 1 {
				return "ERR"
			}
			return rs[0]
		},
		Fall: "ERR_falls_off",
	}
	body, err := env.block(fd.Body.List, "  ")
	if err != nil {
		return "", fmt.Errorf("transHostWeight: %v", err)
	}
	if strings.Contains(body, "ERR") {
		return "", fmt.Errorf("transHostWeight: body may fall off its end")
	}
	// parseHostConfig must apply it to every host
	phc := findFunc(pf, "", "parseHostConfig")
	if phc == nil || countCalls(phc.Body, "transHostWeight") != 1 {
		return "", fmt.Errorf("parseHostConfig does not apply transHostWeight exactly once")
	}
	pcc := findFunc(pf, "", "ParseClusterConfig")
	if pcc == nil || countCalls(pcc.Body, "parseHostConfig") != 1 {
		return "", fmt.Errorf("ParseClusterConfig does not call parseHostConfig exactly once")
	}
	s += "/-- `transHostWeight` (pkg/configmanager/parser.go), applied to every host of a cluster by `ParseClusterConfig` when MOSN\nstarts from a configuration file. uint32 weights as unbounded `Int` (no arithmetic, only comparisons). -/\n"
	s += "def transHostWeight (weight : Int) : Int :=\n  " + body + "\n\n"

	// ---- the clamp of ConvertEndpointsConfig
	cf, err := parse("istio/istio1106/xds/conv/convert_cluster.go")
	if err != nil {
		return "", err
	}
	cec := findFunc(cf, "", "ConvertEndpointsConfig")
	if cec == nil {
		return "", fmt.Errorf("ConvertEndpointsConfig not found")
	}
	var clamp *ast.IfStmt
	ast.Inspect(cec.Body, func(n ast.Node) bool {
		if is, ok := n.(*ast.IfStmt); ok && clamp == nil && is.Init == nil {
			if be, ok := is.Cond.(*ast.BinaryExpr); ok && exprKey(be.X) == "weight" {
				clamp = is
				return false
			}
		}
		return true
	})
	if clamp == nil {
		return "", fmt.Errorf("weight clamp of ConvertEndpointsConfig not found")
	}
	env2 := &Env{
		Names: map[string]string{"weight": "weight", "v2.MaxHostWeight": "maxHostWeight", "v2.MinHostWeight": "minHostWeight"},
		Calls: map[string]string{"uint32": ""},
		Ret:   func(rs []string) string { return "ERR" },
		Fall:  "weight",
	}
	body2, err := env2.block([]ast.Stmt{clamp}, "  ")
	if err != nil {
		return "", fmt.Errorf("ConvertEndpointsConfig clamp: %v", err)
	}
	s += "/-- the weight clamp of `ConvertEndpointsConfig` (applied when the endpoint carries a load-balancing weight). -/\n"
	s += "def xdsEndpointWeight (weight : Int) : Int :=\n  " + body2 + "\n\n"

	// ---- router manager: every mutator records the new configuration
	rf, err := parse("pkg/router/routers_manager.go")
	if err != nil {
		return "", err
	}
	for _, fn := range []string{"AddOrUpdateRouters", "AddRoute", "RemoveAllRoutes"} {
		d := findFunc(rf, "routersManagerImpl", fn)
		if d == nil {
			return "", fmt.Errorf("routersManagerImpl.%s not found", fn)
		}
		n := countCalls(d.Body, "configmanager.SetRouter")
		s += fmt.Sprintf("/-- `%s` calls `configmanager.SetRouter` (%d call site(s)). -/\ndef %s_recordsRouter : Bool := %s\n",
			fn, n, lowerFirst(fn), boolLit(n >= 1))
	}
	// AddOrUpdateRouters: the call must be on the common path (after the add/update branches)
	{
		d := findFunc(rf, "routersManagerImpl", "AddOrUpdateRouters")
		s += fmt.Sprintf("/-- in `AddOrUpdateRouters` the `SetRouter` call is at the top level of the body (reached by the add and the update branch). -/\ndef addOrUpdateRouters_recordsOnBothBranches : Bool := %s\n\n",
			boolLit(topLevelCalls(d.Body, "configmanager.SetRouter") >= 1))
	}

	// ---- cluster manager
	mf, err := parse("pkg/upstream/cluster/cluster_manager.go")
	if err != nil {
		return "", err
	}
	type fact struct{ recv, fn, lean, doc string; heads []string; top bool }
	facts := []fact{
		{"clusterManager", "UpdateCluster", "updateCluster_recordsClusterConfig", "`UpdateCluster` calls `configmanager.SetClusterConfig` unconditionally", []string{"configmanager.SetClusterConfig"}, true},
		{"clusterManager", "UpdateCluster", "updateCluster_refreshesHosts", "`UpdateCluster` calls `refreshHostsConfig` unconditionally after installing the cluster", []string{"refreshHostsConfig"}, true},
		{"clusterManager", "UpdateHosts", "updateHosts_refreshesHosts", "`UpdateHosts` calls `refreshHostsConfig` unconditionally after the handler", []string{"refreshHostsConfig"}, true},
		{"clusterManager", "RemovePrimaryCluster", "removePrimaryCluster_removesClusterConfig", "`RemovePrimaryCluster` calls `configmanager.SetRemoveClusterConfig`", []string{"configmanager.SetRemoveClusterConfig"}, false},
		{"", "refreshHostsConfig", "refreshHostsConfig_setsHosts", "`refreshHostsConfig` calls `configmanager.SetHosts` unconditionally", []string{"configmanager.SetHosts"}, true},
	}
	for _, f := range facts {
		d := findFunc(mf, f.recv, f.fn)
		if d == nil {
			return "", fmt.Errorf("%s not found", f.fn)
		}
		n := countCalls(d.Body, f.heads...)
		if f.top {
			n = topLevelCalls(d.Body, f.heads...)
		}
		s += fmt.Sprintf("/-- %s (%d). -/\ndef %s : Bool := %s\n", f.doc, n, f.lean, boolLit(n >= 1))
	}
	s += "\n"

	// ---- ConvertUpdateEndpoints: where are the host-set replacements issued?
	uf, err := parse("istio/istio1106/xds/conv/update.go")
	if err != nil {
		return "", err
	}
	cue := findFunc(uf, "xdsConverter", "ConvertUpdateEndpoints")
	if cue == nil {
		return "", fmt.Errorf("ConvertUpdateEndpoints not found")
	}
	var outer, inner *ast.RangeStmt
	ast.Inspect(cue.Body, func(n ast.Node) bool {
		if r, ok := n.(*ast.RangeStmt); ok {
			switch exprKey(r.X) {
			case "loadAssignments":
				outer = r
			case "loadAssignment.Endpoints":
				inner = r
			}
		}
		return true
	})
	if outer == nil || inner == nil {
		return "", fmt.Errorf("ConvertUpdateEndpoints: assignment / locality loops not found")
	}
	in := countCalls(inner.Body, "TriggerClusterHostUpdate", "UpdateClusterHosts")
	after := 0
	seen := false
	for _, st := range outer.Body.List {
		if st == ast.Stmt(inner) {
			seen = true
			continue
		}
		if seen {
			after += countCalls(st, "TriggerClusterHostUpdate", "UpdateClusterHosts")
		}
	}
	appends := countCalls(inner.Body, "append")
	s += "/-- number of host-set replacements (`TriggerClusterHostUpdate`) issued lexically INSIDE the loop over the localities of one assignment. -/\n"
	s += fmt.Sprintf("def endpointUpdatesInsideLocalityLoop : Nat := %d\n", in)
	s += "/-- number of host-set replacements issued after that loop, once per assignment. -/\n"
	s += fmt.Sprintf("def endpointUpdatesAfterLocalityLoop : Nat := %d\n", after)
	s += "/-- the locality loop accumulates the converted hosts (`append`). -/\n"
	s += fmt.Sprintf("def localityLoopAccumulates : Bool := %s\n", boolLit(appends >= 1))
	// ---- listeners (pkg/server/handler.go)
	hf, err := parse("pkg/server/handler.go")
	if err != nil {
		return "", err
	}
	aul := findFunc(hf, "connHandler", "AddOrUpdateListener")
	rml := findFunc(hf, "connHandler", "RemoveListeners")
	if aul == nil || rml == nil {
		return "", fmt.Errorf("connHandler.AddOrUpdateListener / RemoveListeners not found")
	}
	s += fmt.Sprintf("\n/-- `AddOrUpdateListener` records the listener's config (`configmanager.SetListenerConfig`) on its common path. -/\ndef addOrUpdateListener_recordsListenerConfig : Bool := %s\n",
		boolLit(topLevelCalls(aul.Body, "configmanager.SetListenerConfig") >= 1))
	s += fmt.Sprintf("/-- `RemoveListeners` removes the listener's config from the store (`configmanager.SetRemoveListenerConfig`). -/\ndef removeListeners_removesListenerConfig : Bool := %s\n",
		boolLit(countCalls(rml.Body, "configmanager.SetRemoveListenerConfig") >= 1))
	// the update branch writes the new idle timeout into the listener's stored config as well as into the live listener
	idleCfg, idleLive := 0, 0
	ast.Inspect(aul.Body, func(n ast.Node) bool {
		if as, ok := n.(*ast.AssignStmt); ok && len(as.Lhs) == 1 {
			switch exprKey(as.Lhs[0]) {
			case "rawConfig.ConnectionIdleTimeout":
				idleCfg++
			case "al.idleTimeout":
				idleLive++
			}
		}
		return true
	})
	s += fmt.Sprintf("/-- the update branch assigns the new idle timeout to the live listener (%d) and to its config (%d). -/\ndef updateListener_idleLive : Bool := %s\ndef updateListener_idleConfig : Bool := %s\n",
		idleLive, idleCfg, boolLit(idleLive >= 1), boolLit(idleCfg >= 1))
	// validation before application: no error return of the update branch lies after the first filter-factory registration
	firstReg := token.NoPos
	ast.Inspect(aul.Body, func(n ast.Node) bool {
		if ce, ok := n.(*ast.CallExpr); ok {
			k := exprKey(ce.Fun)
			if strings.HasSuffix(k, "AddOrUpdateStreamFilterConfig") || strings.HasSuffix(k, "AddOrUpdateListenerFilterFactories") ||
				strings.HasSuffix(k, "AddOrUpdateNetworkFilterFactories") {
				if firstReg == token.NoPos || ce.Pos() < firstReg {
					firstReg = ce.Pos()
				}
			}
		}
		return true
	})
	if firstReg == token.NoPos {
		return "", fmt.Errorf("AddOrUpdateListener: filter factory registrations not found")
	}
	lateReturns := 0
	ast.Inspect(aul.Body, func(n ast.Node) bool {
		is, ok := n.(*ast.IfStmt)
		if !ok {
			return true
		}
		var cond string
		if be, ok := is.Cond.(*ast.BinaryExpr); ok {
			cond = exprKey(be.X) + be.Op.String() + exprKey(be.Y)
		}
		if cond != "al!=nil" {
			return true
		}
		ast.Inspect(is.Body, func(m ast.Node) bool {
			if r, ok := m.(*ast.ReturnStmt); ok && r.Pos() > firstReg {
				lateReturns++
			}
			return true
		})
		return false
	})
	s += fmt.Sprintf("/-- number of `return` statements of the update branch (`if al != nil`) that lie AFTER the first filter-factory registration:\n0 = a rejected update is rejected before anything is changed. -/\ndef updateListener_lateErrorReturns : Nat := %d\n", lateReturns)
	s += footer("Updates")
	return s, nil
}

