-- translation-unsupported C01HttpMethod: open -out/pkg/stream/http/stream.go: no such file or directory
namespace MosnVerif.Gen.C01HttpMethod
end MosnVerif.Gen.C01HttpMethod
