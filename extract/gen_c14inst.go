package main

// Gen.FilterFactories (property C14, filter instances and configuration updates):
//   - for EVERY stream filter factory under pkg/filter/stream (each method `CreateFilterChain`): does the call allocate a
//     fresh filter object?  The value handed to AddStreamReceiverFilter / AddStreamSenderFilter must be a local variable
//     of CreateFilterChain that is only ever assigned from `&T{…}` / `new(T)` or from a call of a package-level
//     constructor of the same package whose returned value is itself allocated in the constructor (`&T{…}`, `new(T)`, or
//     a local assigned from those).  A field of the factory, a package-level variable, a method call on the receiver:
//     not fresh.  Also the receive phases it registers for, in order.                                  -> factories
//   - StreamFilterFactoryImpl.UpdateFactory evaluated symbolically: the published list after the call as a function of
//     the published list before it and the list built from the new configuration.                     -> updateFactory
//   - the shape of StreamFilterManagerImpl.AddOrUpdateStreamFilterConfig: known key => UpdateFactory(config)
//     unconditionally (after the type assertion), unknown key => NewStreamFilterFactory(config) stored.  -> addOrUpdateShape
// Anything outside the expected shapes is an error => translation-unsupported => broken tie.

import (
	"fmt"
	"go/ast"
	"go/token"
	"os"
	"path/filepath"
	"sort"
	"strings"
)

func init() { register("FilterFactories", genC14Inst) }

func c14iIsAlloc(e ast.Expr) bool {
	switch x := e.(type) {
	case *ast.ParenExpr:
		return c14iIsAlloc(x.X)
	case *ast.UnaryExpr:
		if x.Op == token.AND {
			_, ok := x.X.(*ast.CompositeLit)
			return ok
		}
	case *ast.CallExpr:
		if id, ok := x.Fun.(*ast.Ident); ok && id.Name == "new" && len(x.Args) == 1 {
			return true
		}
	}
	return false
}

// c14iAssignsTo returns the right-hand sides assigned to the identifier `name` anywhere in body (a multi-value call is
// returned once); ok=false when the variable is assigned in a way that is not understood (range, inc/dec, address taken).
func c14iAssignsTo(body *ast.BlockStmt, name string) (rhs []ast.Expr, ok bool) {
	ok = true
	ast.Inspect(body, func(n ast.Node) bool {
		switch s := n.(type) {
		case *ast.AssignStmt:
			for i, l := range s.Lhs {
				id, isID := l.(*ast.Ident)
				if !isID || id.Name != name {
					continue
				}
				if len(s.Rhs) == len(s.Lhs) {
					rhs = append(rhs, s.Rhs[i])
				} else if len(s.Rhs) == 1 && i == 0 {
					rhs = append(rhs, s.Rhs[0])
				} else {
					ok = false
				}
			}
		case *ast.RangeStmt:
			for _, e := range []ast.Expr{s.Key, s.Value} {
				if id, isID := e.(*ast.Ident); isID && id.Name == name {
					ok = false
				}
			}
		case *ast.ValueSpec:
			for i, id := range s.Names {
				if id.Name == name {
					if i < len(s.Values) {
						rhs = append(rhs, s.Values[i])
					} else {
						ok = false // zero value: no object
					}
				}
			}
		}
		return true
	})
	return
}

// c14iCtorAllocates: every return of the package-level function returns (first result) nil, an allocation, or a local
// variable that is only assigned allocations.
func c14iCtorAllocates(fd *ast.FuncDecl) (bool, string) {
	if fd.Body == nil {
		return false, "no body"
	}
	params := map[string]bool{}
	for _, f := range fd.Type.Params.List {
		for _, n := range f.Names {
			params[n.Name] = true
		}
	}
	good, why := true, ""
	nret := 0
	ast.Inspect(fd.Body, func(n ast.Node) bool {
		if _, isLit := n.(*ast.FuncLit); isLit {
			return false
		}
		r, isRet := n.(*ast.ReturnStmt)
		if !isRet || len(r.Results) == 0 {
			return true
		}
		nret++
		e := r.Results[0]
		if id, isID := e.(*ast.Ident); isID {
			if id.Name == "nil" {
				return true
			}
			if params[id.Name] {
				good, why = false, "returns its parameter "+id.Name
				return true
			}
			rhs, ok := c14iAssignsTo(fd.Body, id.Name)
			if !ok || len(rhs) == 0 {
				good, why = false, "returns "+id.Name+" which is not a local allocated here"
				return true
			}
			for _, x := range rhs {
				if !c14iIsAlloc(x) {
					good, why = false, "returns "+id.Name+" assigned from a non-allocation"
				}
			}
			return true
		}
		if !c14iIsAlloc(e) {
			good, why = false, "returns a non-allocation"
		}
		return true
	})
	if nret == 0 {
		return false, "no return"
	}
	return good, why
}

type c14iFactory struct {
	pkg    string
	fresh  bool
	why    string
	phases []int
}

func c14iFactoryOf(pkg string, files []*ast.File, fd *ast.FuncDecl) (c14iFactory, error) {
	out := c14iFactory{pkg: pkg, fresh: true}
	recv := ""
	if len(fd.Recv.List[0].Names) > 0 {
		recv = fd.Recv.List[0].Names[0].Name
	}
	ctor := func(name string) *ast.FuncDecl {
		for _, f := range files {
			if d := findFunc(f, "", name); d != nil {
				return d
			}
		}
		return nil
	}
	notFresh := func(why string) {
		if out.fresh {
			out.fresh, out.why = false, why
		}
	}
	nAdd := 0
	ast.Inspect(fd.Body, func(n ast.Node) bool {
		call, ok := n.(*ast.CallExpr)
		if !ok {
			return true
		}
		sel, ok := call.Fun.(*ast.SelectorExpr)
		if !ok || (sel.Sel.Name != "AddStreamReceiverFilter" && sel.Sel.Name != "AddStreamSenderFilter") || len(call.Args) != 2 {
			return true
		}
		nAdd++
		if sel.Sel.Name == "AddStreamReceiverFilter" {
			ph := 9
			switch exprKey(call.Args[1]) {
			case "api.BeforeRoute":
				ph = 0
			case "api.AfterRoute":
				ph = 1
			case "api.AfterChooseHost":
				ph = 2
			}
			out.phases = append(out.phases, ph)
		}
		id, isID := call.Args[0].(*ast.Ident)
		if !isID {
			if !c14iIsAlloc(call.Args[0]) {
				notFresh("the filter argument " + exprKey(call.Args[0]) + " is not a local variable of CreateFilterChain")
			}
			return true
		}
		if id.Name == recv {
			notFresh("the factory registers itself as the filter")
			return true
		}
		rhs, okA := c14iAssignsTo(fd.Body, id.Name)
		if !okA || len(rhs) == 0 {
			notFresh("the filter variable " + id.Name + " is not assigned inside CreateFilterChain")
			return true
		}
		for _, x := range rhs {
			if c14iIsAlloc(x) {
				continue
			}
			c, isCall := x.(*ast.CallExpr)
			if !isCall {
				notFresh("the filter variable " + id.Name + " is assigned " + exprKey(x))
				continue
			}
			fn, isFn := c.Fun.(*ast.Ident)
			if !isFn {
				notFresh("the filter variable " + id.Name + " comes from " + exprKey(c.Fun) + "(…), not a constructor of the package")
				continue
			}
			d := ctor(fn.Name)
			if d == nil {
				notFresh("constructor " + fn.Name + " not found in the package")
				continue
			}
			if ok, why := c14iCtorAllocates(d); !ok {
				notFresh("constructor " + fn.Name + ": " + why)
			}
		}
		return true
	})
	if nAdd == 0 {
		return out, fmt.Errorf("%s: CreateFilterChain registers no filter", pkg)
	}
	return out, nil
}

// c14iUpdate evaluates UpdateFactory symbolically: variables bound to `new` (the list built from the configuration);
// published value starts as `old`.
func c14iUpdate(fd *ast.FuncDecl) (string, error) {
	recv := fd.Recv.List[0].Names[0].Name
	if len(fd.Type.Params.List) != 1 || len(fd.Type.Params.List[0].Names) != 1 {
		return "", fmt.Errorf("UpdateFactory: unexpected parameters")
	}
	cfg := fd.Type.Params.List[0].Names[0].Name
	newVars := map[string]bool{}
	val := func(e ast.Expr) (string, bool) {
		if id, ok := e.(*ast.Ident); ok && newVars[id.Name] {
			return "new", true
		}
		return "", false
	}
	cond := func(e ast.Expr) (string, error) {
		b, ok := e.(*ast.BinaryExpr)
		if !ok {
			return "", fmt.Errorf("UpdateFactory: unsupported condition %s", exprKey(e))
		}
		k := exprKey(b.Y)
		var lhs string
		if c, isCall := b.X.(*ast.CallExpr); isCall && exprKey(c.Fun) == "len" && len(c.Args) == 1 {
			v, ok := val(c.Args[0])
			if !ok {
				return "", fmt.Errorf("UpdateFactory: unsupported condition %s", exprKey(e))
			}
			lhs = "(" + v + ".length : Int)"
		} else if v, ok := val(b.X); ok && k == "nil" {
			// a nil slice: createStreamFilterFactoryFromConfig returns nil exactly when it built nothing
			switch b.Op {
			case token.EQL:
				return "(" + v + ".isEmpty = true)", nil
			case token.NEQ:
				return "(" + v + ".isEmpty = false)", nil
			}
			return "", fmt.Errorf("UpdateFactory: unsupported condition %s", exprKey(e))
		} else {
			return "", fmt.Errorf("UpdateFactory: unsupported condition %s", exprKey(e))
		}
		op := map[token.Token]string{token.EQL: "=", token.NEQ: "≠", token.LSS: "<", token.LEQ: "≤", token.GTR: ">", token.GEQ: "≥"}[b.Op]
		if op == "" {
			return "", fmt.Errorf("UpdateFactory: unsupported condition %s", exprKey(e))
		}
		if _, isLit := b.Y.(*ast.BasicLit); !isLit {
			return "", fmt.Errorf("UpdateFactory: unsupported condition %s", exprKey(e))
		}
		return "(" + lhs + " " + op + " " + k + ")", nil
	}
	var block func(stmts []ast.Stmt, cur string) (string, error)
	block = func(stmts []ast.Stmt, cur string) (string, error) {
		if len(stmts) == 0 {
			return cur, nil
		}
		switch s := stmts[0].(type) {
		case *ast.AssignStmt:
			if len(s.Lhs) == 1 && len(s.Rhs) == 1 && s.Tok == token.DEFINE {
				if c, ok := s.Rhs[0].(*ast.CallExpr); ok && exprKey(c.Fun) == "createStreamFilterFactoryFromConfig" && len(c.Args) == 1 && exprKey(c.Args[0]) == cfg {
					newVars[s.Lhs[0].(*ast.Ident).Name] = true
					return block(stmts[1:], cur)
				}
			}
		case *ast.ExprStmt:
			if c, ok := s.X.(*ast.CallExpr); ok && exprKey(c.Fun) == recv+".factories.Store" && len(c.Args) == 1 {
				if v, ok := val(c.Args[0]); ok {
					return block(stmts[1:], v)
				}
			}
			if c, ok := s.X.(*ast.CallExpr); ok && strings.HasPrefix(exprKey(c.Fun), "log.") {
				return block(stmts[1:], cur)
			}
		case *ast.ReturnStmt:
			if len(s.Results) == 0 {
				return cur, nil
			}
		case *ast.IfStmt:
			if s.Init == nil {
				c, err := cond(s.Cond)
				if err != nil {
					return "", err
				}
				thenRest := append(append([]ast.Stmt{}, s.Body.List...), stmts[1:]...)
				elseRest := stmts[1:]
				if s.Else != nil {
					eb, ok := s.Else.(*ast.BlockStmt)
					if !ok {
						return "", fmt.Errorf("UpdateFactory: unsupported else")
					}
					elseRest = append(append([]ast.Stmt{}, eb.List...), stmts[1:]...)
				}
				a, err := block(thenRest, cur)
				if err != nil {
					return "", err
				}
				b, err := block(elseRest, cur)
				if err != nil {
					return "", err
				}
				if a == b {
					return a, nil
				}
				return "(if " + c + " then " + a + " else " + b + ")", nil
			}
		}
		return "", fmt.Errorf("UpdateFactory: unsupported statement at %s", fset.Position(stmts[0].Pos()))
	}
	return block(fd.Body.List, "old")
}

func c14iAddOrUpdateShape(fd *ast.FuncDecl) error {
	if len(fd.Type.Params.List) != 2 {
		return fmt.Errorf("AddOrUpdateStreamFilterConfig: unexpected parameters")
	}
	key := fd.Type.Params.List[0].Names[0].Name
	cfg := fd.Type.Params.List[1].Names[0].Name
	for _, st := range fd.Body.List {
		ifs, ok := st.(*ast.IfStmt)
		if !ok || ifs.Init == nil || !strings.Contains(exprKey(ifs.Init.(*ast.AssignStmt).Rhs[0]), "streamFilterChainMap.Load") {
			continue
		}
		upd := false
		for _, s := range ifs.Body.List {
			if es, ok := s.(*ast.ExprStmt); ok {
				if c, ok := es.X.(*ast.CallExpr); ok && strings.HasSuffix(exprKey(c.Fun), ".UpdateFactory") && len(c.Args) == 1 && exprKey(c.Args[0]) == cfg {
					upd = true
				}
			}
			if inner, ok := s.(*ast.IfStmt); ok && !upd {
				// only the failed type assertion may leave before the update
				if k := exprKey(inner.Cond); k != "!ok" {
					return fmt.Errorf("AddOrUpdateStreamFilterConfig: condition %s in front of UpdateFactory", k)
				}
			}
		}
		if !upd {
			return fmt.Errorf("AddOrUpdateStreamFilterConfig: UpdateFactory(%s) is not an unconditional statement of the known-key branch", cfg)
		}
		eb, ok := ifs.Else.(*ast.BlockStmt)
		if !ok {
			return fmt.Errorf("AddOrUpdateStreamFilterConfig: no else branch")
		}
		fac, stored := "", false
		for _, s := range eb.List {
			if as, ok := s.(*ast.AssignStmt); ok && len(as.Rhs) == 1 {
				if c, ok := as.Rhs[0].(*ast.CallExpr); ok && exprKey(c.Fun) == "NewStreamFilterFactory" && len(c.Args) == 1 && exprKey(c.Args[0]) == cfg {
					fac = exprKey(as.Lhs[0])
				}
			}
			if es, ok := s.(*ast.ExprStmt); ok {
				if c, ok := es.X.(*ast.CallExpr); ok && (strings.HasSuffix(exprKey(c.Fun), ".LoadOrStore") || strings.HasSuffix(exprKey(c.Fun), ".Store")) &&
					len(c.Args) == 2 && exprKey(c.Args[0]) == key && fac != "" && exprKey(c.Args[1]) == fac {
					stored = true
				}
			}
		}
		if !stored {
			return fmt.Errorf("AddOrUpdateStreamFilterConfig: the unknown-key branch does not store NewStreamFilterFactory(%s)", cfg)
		}
		return nil
	}
	return fmt.Errorf("AddOrUpdateStreamFilterConfig: lookup branch not found")
}

func genC14Inst() (string, error) {
	root := "pkg/filter/stream"
	ents, err := os.ReadDir(filepath.Join(repo, root))
	if err != nil {
		return "", err
	}
	var facs []c14iFactory
	for _, e := range ents {
		if !e.IsDir() {
			continue
		}
		files, err := parseDirFiles(filepath.Join(root, e.Name()))
		if err != nil {
			return "", err
		}
		for _, f := range files {
			for _, d := range f.Decls {
				fd, ok := d.(*ast.FuncDecl)
				if !ok || fd.Name.Name != "CreateFilterChain" || fd.Recv == nil || fd.Body == nil {
					continue
				}
				fc, err := c14iFactoryOf(e.Name(), files, fd)
				if err != nil {
					return "", err
				}
				facs = append(facs, fc)
			}
		}
	}
	if len(facs) < 3 {
		return "", fmt.Errorf("stream filter factories not found under %s", root)
	}
	sort.Slice(facs, func(i, j int) bool { return facs[i].pkg < facs[j].pkg })
	s := header("FilterFactories", root+"/*/ (every CreateFilterChain)", "pkg/streamfilter/factory.go", "pkg/streamfilter/manager.go")
	s += "/-- (package, CreateFilterChain allocates a fresh filter object per call, receive phases it registers: 0 BeforeRoute 1 AfterRoute 2 AfterChooseHost 9 configured) -/\n"
	s += "def factories : List (String × Bool × List Nat) := [\n"
	for i, f := range facs {
		var ph []string
		for _, p := range f.phases {
			ph = append(ph, fmt.Sprint(p))
		}
		sep := ","
		if i == len(facs)-1 {
			sep = ""
		}
		note := ""
		if !f.fresh {
			note = "  -- NOT fresh: " + strings.ReplaceAll(f.why, "\n", " ")
		}
		s += fmt.Sprintf("  (%q, %v, [%s])%s%s\n", f.pkg, f.fresh, strings.Join(ph, ", "), sep, note)
	}
	s += "]\n"

	ff, err := parse("pkg/streamfilter/factory.go")
	if err != nil {
		return "", err
	}
	uf := findFunc(ff, "StreamFilterFactoryImpl", "UpdateFactory")
	if uf == nil || uf.Body == nil {
		return "", fmt.Errorf("StreamFilterFactoryImpl.UpdateFactory not found")
	}
	body, err := c14iUpdate(uf)
	if err != nil {
		return "", err
	}
	s += "/-- StreamFilterFactoryImpl.UpdateFactory: the published factory list after the call (old = published before, new = built from the configuration) -/\n"
	s += "def updateFactory (old new : List Nat) : List Nat := " + body + "\n"

	mf, err := parse("pkg/streamfilter/manager.go")
	if err != nil {
		return "", err
	}
	au := findFunc(mf, "StreamFilterManagerImpl", "AddOrUpdateStreamFilterConfig")
	if au == nil || au.Body == nil {
		return "", fmt.Errorf("AddOrUpdateStreamFilterConfig not found")
	}
	if err := c14iAddOrUpdateShape(au); err != nil {
		return "", err
	}
	s += "/-- AddOrUpdateStreamFilterConfig: known key => UpdateFactory(config) unconditionally; unknown key => NewStreamFilterFactory(config) stored -/\n"
	s += "def addOrUpdateShape : Bool := true\n"
	return s + footer("FilterFactories"), nil
}
