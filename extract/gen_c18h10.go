package main

// Property C18, builder c18h10 — shared helpers of Gen.HpackHuff (gen_c18h10_huff.go) and Gen.H2Payload
// (gen_c18h10_frames.go):
//
//   - c18hMatch: a function body is printed with go/printer, statement line by statement line, and matched against a
//     TEMPLATE of the same lines in which the decision / arithmetic / layout expressions are holes «name».  Every line
//     outside a hole must be literally the expected one, so an inserted, removed, reordered or altered statement is a
//     translation error (=> broken tie), and every hole is translated to a Lean definition the model is built from.
//   - c18hTr: a width-exact translator of Go unsigned integer expressions to Lean `Nat` expressions: conversions
//     truncate (`% 2^w`), `+ - <<` wrap at the operand type's width, untyped constants take the type of their context
//     (Go spec, "Constant expressions" / non-constant shifts), `|`/`&`/`>>` are `|||`/`&&&`/`>>>`.

import (
	"bytes"
	"fmt"
	"go/ast"
	"go/constant"
	"go/parser"
	"go/printer"
	"go/token"
	"regexp"
	"strconv"
	"strings"
)

// c18hText prints a node with go/printer on one line (inner white space normalised).
func c18hText(n ast.Node) string {
	var b bytes.Buffer
	printer.Fprint(&b, token.NewFileSet(), n)
	return strings.Join(strings.Fields(b.String()), " ")
}

// c18hBodyLines: the statements of a block as go/printer prints them, one trimmed line each, blank lines dropped.
func c18hBodyLines(body *ast.BlockStmt) []string {
	var b bytes.Buffer
	cfg := printer.Config{Mode: printer.RawFormat, Tabwidth: 1}
	cfg.Fprint(&b, fset, body)
	var out []string
	for _, l := range strings.Split(b.String(), "\n") {
		l = strings.Join(strings.Fields(l), " ")
		if l != "" && !strings.HasPrefix(l, "//") {
			out = append(out, l)
		}
	}
	return out
}

var c18hHoleRx = regexp.MustCompile(`«([A-Za-z0-9_]+)»`)

// c18hMatch matches the printed body against the template; returns hole name -> Go expression text.
func c18hMatch(what string, body *ast.BlockStmt, template string) (map[string]string, error) {
	lines := c18hBodyLines(body)
	var tl []string
	for _, l := range strings.Split(template, "\n") {
		l = strings.Join(strings.Fields(l), " ")
		if l != "" {
			tl = append(tl, l)
		}
	}
	holes := map[string]string{}
	for i := 0; i < len(lines) || i < len(tl); i++ {
		if i >= len(lines) {
			return nil, fmt.Errorf("%s: statement `%s` expected at line %d is missing", what, tl[i], i+1)
		}
		if i >= len(tl) {
			return nil, fmt.Errorf("%s: unexpected statement `%s` at line %d", what, lines[i], i+1)
		}
		// template line -> regexp
		var rx strings.Builder
		rx.WriteString("^")
		last := 0
		var names []string
		for _, m := range c18hHoleRx.FindAllStringSubmatchIndex(tl[i], -1) {
			rx.WriteString(regexp.QuoteMeta(tl[i][last:m[0]]))
			rx.WriteString("(.+)")
			names = append(names, tl[i][m[2]:m[3]])
			last = m[1]
		}
		rx.WriteString(regexp.QuoteMeta(tl[i][last:]))
		rx.WriteString("$")
		m := regexp.MustCompile(rx.String()).FindStringSubmatch(lines[i])
		if m == nil {
			return nil, fmt.Errorf("%s: line %d is `%s`, expected `%s`", what, i+1, lines[i], tl[i])
		}
		for k, n := range names {
			if old, ok := holes[n]; ok && old != m[k+1] {
				return nil, fmt.Errorf("%s: hole %s has two different texts `%s` / `%s`", what, n, old, m[k+1])
			}
			holes[n] = m[k+1]
		}
	}
	return holes, nil
}

// ---------------------------------------------------------------------------------------------------------
// width-exact expression translator

type c18hVal struct {
	lean string
	typ  string // u8 u16 u32 u64 int bool bytes untyped
	// an `int` subtraction, kept apart so that a comparison can be rendered over Int
	subL, subR string
}

type c18hTr struct {
	dir string
	// printed Go expression -> value (variables, selectors, opaque sub-expressions such as `n.children != nil`)
	names map[string]c18hVal
	// named Go types -> width type
	types map[string]string
	// calls by printed function expression
	calls map[string]func(t *c18hTr, args []ast.Expr) (c18hVal, error)
}

func c18hNewTr(dir string) *c18hTr {
	return &c18hTr{dir: dir, names: map[string]c18hVal{}, types: map[string]string{
		"uint8": "u8", "byte": "u8", "uint16": "u16", "uint32": "u32", "uint64": "u64", "uint": "u64", "int": "int",
	}, calls: map[string]func(t *c18hTr, args []ast.Expr) (c18hVal, error){}}
}

func (t *c18hTr) bind(goExpr, lean, typ string) { t.names[goExpr] = c18hVal{lean: lean, typ: typ} }

func c18hWidth(typ string) int {
	switch typ {
	case "u8":
		return 8
	case "u16":
		return 16
	case "u32":
		return 32
	case "u64":
		return 64
	}
	return 0
}

func c18hPow(w int) string {
	return map[int]string{8: "256", 16: "65536", 32: "4294967296", 64: "18446744073709551616"}[w]
}

// c18hConst folds a constant expression (literals, package constants, conversions, + - * / << >> | &).
func (t *c18hTr) constOf(e ast.Expr) (int64, bool) {
	switch x := e.(type) {
	case *ast.BasicLit:
		if x.Kind == token.INT {
			v, err := strconv.ParseInt(x.Value, 0, 64)
			return v, err == nil
		}
	case *ast.ParenExpr:
		return t.constOf(x.X)
	case *ast.Ident:
		if _, shadow := t.names[x.Name]; shadow {
			return 0, false
		}
		cs, err := pkgConsts(t.dir)
		if err != nil {
			return 0, false
		}
		if c, ok := cs[x.Name]; ok {
			return constant.Int64Val(constant.ToInt(c))
		}
	case *ast.CallExpr:
		if id, ok := x.Fun.(*ast.Ident); ok && len(x.Args) == 1 {
			if _, isT := t.types[id.Name]; isT {
				return t.constOf(x.Args[0])
			}
		}
	case *ast.BinaryExpr:
		l, ok1 := t.constOf(x.X)
		r, ok2 := t.constOf(x.Y)
		if !ok1 || !ok2 {
			return 0, false
		}
		switch x.Op {
		case token.ADD:
			return l + r, true
		case token.SUB:
			return l - r, true
		case token.MUL:
			return l * r, true
		case token.QUO:
			if r != 0 {
				return l / r, true
			}
		case token.SHL:
			if r >= 0 && r < 62 {
				return l << uint(r), true
			}
		case token.SHR:
			if r >= 0 && r < 62 {
				return l >> uint(r), true
			}
		case token.OR:
			return l | r, true
		case token.AND:
			return l & r, true
		}
	}
	return 0, false
}

func (t *c18hTr) parseExpr(src string) (ast.Expr, error) {
	e, err := parser.ParseExpr(src)
	if err != nil {
		return nil, fmt.Errorf("cannot parse `%s`: %v", src, err)
	}
	return e, nil
}

// exprSrc translates Go source text.
func (t *c18hTr) exprSrc(src, ctx string) (c18hVal, error) {
	e, err := t.parseExpr(src)
	if err != nil {
		return c18hVal{}, err
	}
	v, err := t.expr(e, ctx)
	if err != nil {
		return v, fmt.Errorf("`%s`: %v", src, err)
	}
	return v, nil
}

// typed gives an untyped constant the type of its context.
func (t *c18hTr) typed(v c18hVal, ctx string) c18hVal {
	if v.typ == "untyped" && ctx != "" {
		v.typ = ctx
	}
	return v
}

func (t *c18hTr) expr(e ast.Expr, ctx string) (c18hVal, error) {
	if v, ok := t.names[c18hText(e)]; ok {
		return v, nil
	}
	if c, ok := t.constOf(e); ok {
		if c < 0 {
			return c18hVal{}, fmt.Errorf("negative constant %d", c)
		}
		return c18hVal{lean: strconv.FormatInt(c, 10), typ: "untyped"}, nil
	}
	switch x := e.(type) {
	case *ast.ParenExpr:
		v, err := t.expr(x.X, ctx)
		return v, err
	case *ast.Ident:
		if x.Name == "true" || x.Name == "false" {
			return c18hVal{lean: x.Name, typ: "bool"}, nil
		}
		return c18hVal{}, fmt.Errorf("unknown identifier %s", x.Name)
	case *ast.SelectorExpr:
		return c18hVal{}, fmt.Errorf("unknown selector %s", c18hText(x))
	case *ast.UnaryExpr:
		if x.Op == token.NOT {
			v, err := t.expr(x.X, "")
			if err != nil {
				return v, err
			}
			if v.typ != "bool" {
				return v, fmt.Errorf("! of non-bool")
			}
			return c18hVal{lean: "(!" + v.lean + ")", typ: "bool"}, nil
		}
		return c18hVal{}, fmt.Errorf("unary %v", x.Op)
	case *ast.IndexExpr:
		b, err := t.expr(x.X, "")
		if err != nil {
			return b, err
		}
		if b.typ != "bytes" {
			return b, fmt.Errorf("index of non-bytes %s", c18hText(x.X))
		}
		i, err := t.expr(x.Index, "int")
		if err != nil {
			return i, err
		}
		return c18hVal{lean: "(byteAt " + b.lean + " " + i.lean + ")", typ: "u8"}, nil
	case *ast.SliceExpr:
		b, err := t.expr(x.X, "")
		if err != nil {
			return b, err
		}
		if b.typ != "bytes" || x.Slice3 {
			return b, fmt.Errorf("slice of non-bytes %s", c18hText(x.X))
		}
		out := b.lean
		lo := "0"
		if x.Low != nil {
			l, err := t.expr(x.Low, "int")
			if err != nil {
				return l, err
			}
			lo = l.lean
			out = "(List.drop " + lo + " " + out + ")"
		}
		if x.High != nil {
			h, err := t.expr(x.High, "int")
			if err != nil {
				return h, err
			}
			n := "(" + h.lean + " - " + lo + ")"
			if lo == "0" {
				n = h.lean
			}
			if a, err1 := strconv.Atoi(h.lean); err1 == nil {
				if b, err2 := strconv.Atoi(lo); err2 == nil && a >= b {
					n = strconv.Itoa(a - b)
				}
			}
			out = "(List.take " + n + " " + out + ")"
		}
		return c18hVal{lean: out, typ: "bytes"}, nil
	case *ast.CallExpr:
		head := c18hText(x.Fun)
		if f, ok := t.calls[head]; ok {
			return f(t, x.Args)
		}
		if to, ok := t.types[head]; ok && len(x.Args) == 1 {
			v, err := t.expr(x.Args[0], to)
			if err != nil {
				return v, err
			}
			if v.typ == "bool" || v.typ == "bytes" {
				return v, fmt.Errorf("conversion of %s to %s", v.typ, head)
			}
			if v.typ == "untyped" {
				return c18hVal{lean: v.lean, typ: to}, nil
			}
			if to == "int" {
				return c18hVal{lean: v.lean, typ: "int"}, nil
			}
			if v.typ == "int" {
				return c18hVal{lean: "(" + v.lean + " % " + c18hPow(c18hWidth(to)) + ")", typ: to}, nil
			}
			if c18hWidth(v.typ) <= c18hWidth(to) {
				return c18hVal{lean: v.lean, typ: to}, nil
			}
			return c18hVal{lean: "(" + v.lean + " % " + c18hPow(c18hWidth(to)) + ")", typ: to}, nil
		}
		if head == "len" && len(x.Args) == 1 {
			v, err := t.expr(x.Args[0], "")
			if err != nil {
				return v, err
			}
			if v.typ != "bytes" {
				return v, fmt.Errorf("len of non-bytes")
			}
			return c18hVal{lean: "(List.length " + v.lean + ")", typ: "int"}, nil
		}
		return c18hVal{}, fmt.Errorf("unsupported call %s", head)
	case *ast.BinaryExpr:
		switch x.Op {
		case token.LAND, token.LOR:
			l, err := t.expr(x.X, "")
			if err != nil {
				return l, err
			}
			r, err := t.expr(x.Y, "")
			if err != nil {
				return r, err
			}
			if l.typ != "bool" || r.typ != "bool" {
				return l, fmt.Errorf("%v of non-bool", x.Op)
			}
			op := " && "
			if x.Op == token.LOR {
				op = " || "
			}
			return c18hVal{lean: "(" + l.lean + op + r.lean + ")", typ: "bool"}, nil
		case token.SHL, token.SHR:
			l, err := t.expr(x.X, ctx)
			if err != nil {
				return l, err
			}
			l = t.typed(l, ctx)
			if l.typ == "untyped" {
				return l, fmt.Errorf("shift of an untyped constant without a type context: %s", c18hText(x))
			}
			r, err := t.expr(x.Y, "u64")
			if err != nil {
				return r, err
			}
			if r.typ == "bool" || r.typ == "bytes" {
				return r, fmt.Errorf("shift count of type %s", r.typ)
			}
			if x.Op == token.SHR {
				return c18hVal{lean: "(" + l.lean + " >>> " + r.lean + ")", typ: l.typ}, nil
			}
			if w := c18hWidth(l.typ); w != 0 {
				return c18hVal{lean: "((" + l.lean + " <<< " + r.lean + ") % " + c18hPow(w) + ")", typ: l.typ}, nil
			}
			return c18hVal{lean: "(" + l.lean + " <<< " + r.lean + ")", typ: l.typ}, nil
		}
		l, err := t.expr(x.X, ctx)
		if err != nil {
			return l, err
		}
		r, err := t.expr(x.Y, ctx)
		if err != nil {
			return r, err
		}
		// operand types: an untyped constant takes the other operand's type
		if l.typ == "untyped" && r.typ != "untyped" {
			l.typ = r.typ
		}
		if r.typ == "untyped" && l.typ != "untyped" {
			r.typ = l.typ
		}
		cmp := map[token.Token]string{token.LSS: "<", token.LEQ: "≤", token.GTR: ">", token.GEQ: "≥", token.EQL: "=", token.NEQ: "≠"}
		if o, ok := cmp[x.Op]; ok {
			if l.typ != r.typ {
				return l, fmt.Errorf("comparison of %s with %s in %s", l.typ, r.typ, c18hText(x))
			}
			if l.typ == "bool" || l.typ == "bytes" {
				return l, fmt.Errorf("comparison of %s", l.typ)
			}
			if l.subL != "" || r.subL != "" {
				ri := func(v c18hVal) string {
					if v.subL != "" {
						return "((" + v.subL + " : Int) - (" + v.subR + " : Int))"
					}
					return "(" + v.lean + " : Int)"
				}
				return c18hVal{lean: "(decide (" + ri(l) + " " + o + " " + ri(r) + "))", typ: "bool"}, nil
			}
			return c18hVal{lean: "(decide (" + l.lean + " " + o + " " + r.lean + "))", typ: "bool"}, nil
		}
		if l.typ == "untyped" && r.typ == "untyped" {
			l = t.typed(l, ctx)
			r = t.typed(r, ctx)
		}
		if l.typ != r.typ || l.typ == "bool" || l.typ == "bytes" || l.typ == "untyped" {
			return l, fmt.Errorf("operands of type %s / %s in %s", l.typ, r.typ, c18hText(x))
		}
		w := c18hWidth(l.typ)
		switch x.Op {
		case token.ADD:
			if w == 0 {
				return c18hVal{lean: "(" + l.lean + " + " + r.lean + ")", typ: l.typ}, nil
			}
			return c18hVal{lean: "((" + l.lean + " + " + r.lean + ") % " + c18hPow(w) + ")", typ: l.typ}, nil
		case token.SUB:
			if w == 0 {
				// int: truncating on Nat where it is used as a length (guarded by the preceding test); exact over Int in a comparison
				return c18hVal{lean: "(" + l.lean + " - " + r.lean + ")", typ: l.typ, subL: l.lean, subR: r.lean}, nil
			}
			return c18hVal{lean: "((" + l.lean + " + " + c18hPow(w) + " - " + r.lean + ") % " + c18hPow(w) + ")", typ: l.typ}, nil
		case token.MUL:
			if w == 0 {
				return c18hVal{lean: "(" + l.lean + " * " + r.lean + ")", typ: l.typ}, nil
			}
			return c18hVal{lean: "((" + l.lean + " * " + r.lean + ") % " + c18hPow(w) + ")", typ: l.typ}, nil
		case token.QUO:
			return c18hVal{lean: "(" + l.lean + " / " + r.lean + ")", typ: l.typ}, nil
		case token.REM:
			return c18hVal{lean: "(" + l.lean + " % " + r.lean + ")", typ: l.typ}, nil
		case token.OR:
			return c18hVal{lean: "(" + l.lean + " ||| " + r.lean + ")", typ: l.typ}, nil
		case token.AND:
			return c18hVal{lean: "(" + l.lean + " &&& " + r.lean + ")", typ: l.typ}, nil
		case token.XOR:
			return c18hVal{lean: "(" + l.lean + " ^^^ " + r.lean + ")", typ: l.typ}, nil
		}
		return l, fmt.Errorf("binary %v", x.Op)
	}
	return c18hVal{}, fmt.Errorf("unsupported expression %T `%s`", e, c18hText(e))
}

// c18hDef renders `def name (params) : T := <translation of src>`; want = expected result type ("" = any numeric).
func (t *c18hTr) def(doc, name, params, src, ctx, want string) (string, error) {
	v, err := t.exprSrc(src, ctx)
	if err != nil {
		return "", fmt.Errorf("%s: %v", name, err)
	}
	v = t.typed(v, ctx)
	lt := "Nat"
	switch v.typ {
	case "bool":
		lt = "Bool"
	case "bytes":
		lt = "List UInt8"
	case "untyped":
		if want == "" || want == "bool" || want == "bytes" {
			return "", fmt.Errorf("%s: `%s` is an untyped constant", name, src)
		}
	}
	if want != "" && want != v.typ && !(v.typ == "untyped") {
		return "", fmt.Errorf("%s: `%s` has type %s, expected %s", name, src, v.typ, want)
	}
	p := ""
	if params != "" {
		p = " " + params
	}
	return fmt.Sprintf("/-- %s — Go: `%s` -/\ndef %s%s : %s := %s\n", doc, strings.ReplaceAll(src, "-/", "- /"), name, p, lt, v.lean), nil
}
