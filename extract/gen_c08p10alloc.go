package main

// Gen module C08H2Alloc (builder c08p10; C08 "no allocation for an announced length whose bytes have not arrived"):
// the allocation structure of the HTTP/2 read path of pkg/module/http2/mhttp2.go —
//   * MFramer.ReadFrame / readFrameHeader: every allocating expression (make / new / append / &T{…} / slice or map literal /
//     buffer.Get… / New…Buffer) in front of the payload slice, whether the "payload not buffered yet => ErrAGAIN" test
//     precedes the slice, whether the payload handed to the parser is a VIEW of the read buffer (a slice expression of
//     data.Bytes(), no copy), and the allocating expressions of the whole function;
//   * MFramer.readMetaFrame: the emit callback handed to hdec.SetEmitFunc as a step program over
//     {size := hf.Size(), test `size > remainSize` => stop, remainSize -= size, mh.Fields = append(mh.Fields, hf)} in
//     source order, the comparison and the subtraction translated; the initial value `fr.maxHeaderListSize()`
//     (Framer.maxHeaderListSize translated), what the server / client connection configure (`fr.MaxHeaderListSize = …`),
//     hpack.HeaderField.Size translated.
// Closed vocabulary: a statement shape that is not recognised makes the module translation-unsupported.

import (
	"fmt"
	"go/ast"
	"go/importer"
	"go/token"
	"go/types"
	"strings"
)

func init() { register("C08H2Alloc", genC08pH2Alloc) }

// c08pAllocs lists the allocating expressions below n (source order).
func c08pAllocs(n ast.Node) []string {
	var out []string
	ast.Inspect(n, func(m ast.Node) bool {
		switch x := m.(type) {
		case *ast.CallExpr:
			k := exprKey(x.Fun)
			last := k
			if i := strings.LastIndex(k, "."); i >= 0 {
				last = k[i+1:]
			}
			switch {
			case k == "make" || k == "new" || k == "append":
				out = append(out, c08fSrc(x))
			case strings.HasPrefix(last, "GetIoBuffer") || strings.HasPrefix(last, "NewIoBuffer") || strings.HasPrefix(last, "GetBytes") ||
				strings.HasPrefix(last, "NewBuffer") || last == "Grow" || last == "Clone" || last == "ReadAll":
				out = append(out, c08fSrc(x))
			}
		case *ast.UnaryExpr:
			if _, ok := x.X.(*ast.CompositeLit); ok && x.Op == token.AND {
				out = append(out, c08fSrc(x))
				return false
			}
		case *ast.CompositeLit:
			switch x.Type.(type) {
			case *ast.ArrayType, *ast.MapType:
				out = append(out, c08fSrc(x))
			}
		}
		return true
	})
	return out
}

func c08pStrList(l []string) string {
	var p []string
	for _, s := range l {
		p = append(p, fmt.Sprintf("%q", s))
	}
	return "[" + strings.Join(p, ", ") + "]"
}

func genC08pH2Alloc() (string, error) {
	f, err := parse("pkg/module/http2/mhttp2.go")
	if err != nil {
		return "", err
	}
	ff, err := parse("pkg/module/http2/frame.go")
	if err != nil {
		return "", err
	}
	hc := map[string]string{}
	if err := intConsts("pkg/module/http2", "", hc); err != nil {
		return "", err
	}
	var b strings.Builder
	b.WriteString(header("C08H2Alloc", "pkg/module/http2/mhttp2.go", "pkg/module/http2/frame.go", "pkg/module/http2/hpack/hpack.go"))

	// ---- ReadFrame
	rf := findFunc(f, "MFramer", "ReadFrame")
	rh := findFunc(f, "MFramer", "readFrameHeader")
	if rf == nil || rh == nil {
		return "", fmt.Errorf("MFramer.ReadFrame / readFrameHeader not found")
	}
	sliceAt, waitAt, parseAt := -1, -1, -1
	view := false
	for i, st := range rf.Body.List {
		switch x := st.(type) {
		case *ast.AssignStmt:
			if len(x.Lhs) == 1 && exprKey(x.Lhs[0]) == "payload" && sliceAt < 0 {
				sliceAt = i
				if se, ok := x.Rhs[0].(*ast.SliceExpr); ok && exprKey(se.X) == "data.Bytes()" && !se.Slice3 {
					view = true
				}
			}
			if len(x.Rhs) == 1 {
				if c, ok := x.Rhs[0].(*ast.CallExpr); ok && strings.HasPrefix(c08fSrc(c.Fun), "typeFrameParser(") && parseAt < 0 {
					parseAt = i
				}
			}
		case *ast.IfStmt:
			// if int(fh.Length) > data.Len()-(off+frameHeaderLen) { return nil, 0, ErrAGAIN }
			if be, ok := x.Cond.(*ast.BinaryExpr); ok && be.Op == token.GTR && strings.Contains(c08fSrc(be.Y), "data.Len()") && x.Init == nil && x.Else == nil &&
				len(x.Body.List) == 1 && waitAt < 0 {
				if r, ok := x.Body.List[0].(*ast.ReturnStmt); ok && len(r.Results) == 3 && exprKey(r.Results[2]) == "ErrAGAIN" {
					waitAt = i
				}
			}
		}
	}
	if sliceAt < 0 || parseAt < 0 {
		return "", fmt.Errorf("ReadFrame: payload slice / parser call not found")
	}
	var before []string
	before = append(before, c08pAllocs(rh.Body)...)
	for _, st := range rf.Body.List[:sliceAt+1] {
		before = append(before, c08pAllocs(st)...)
	}
	fmt.Fprintf(&b, "/-- mhttp2.go readFrameHeader + ReadFrame up to and including `payload := …`: the allocating expressions -/\ndef h2a_allocBeforePayload : List String := %s\n", c08pStrList(before))
	fmt.Fprintf(&b, "/-- mhttp2.go ReadFrame: the test `payload not buffered yet ⇒ return ErrAGAIN` is a statement in front of the payload slice, the slice in front of the parser call -/\ndef h2a_waitPrecedesSlice : Bool := %v\n",
		waitAt >= 0 && waitAt < sliceAt && sliceAt < parseAt)
	fmt.Fprintf(&b, "/-- mhttp2.go ReadFrame: the payload handed to the parser is a slice expression of data.Bytes() (a view of the read buffer, no copy) -/\ndef h2a_payloadIsView : Bool := %v\n", view)
	fmt.Fprintf(&b, "/-- mhttp2.go ReadFrame: the allocating expressions of the whole function -/\ndef h2a_readFrameAllocs : List String := %s\n", c08pStrList(c08pAllocs(rf.Body)))

	// ---- readMetaFrame: the emit callback
	rm := findFunc(f, "MFramer", "readMetaFrame")
	if rm == nil {
		return "", fmt.Errorf("MFramer.readMetaFrame not found")
	}
	var emit *ast.FuncLit
	var remainInit ast.Expr
	for _, st := range rm.Body.List {
		switch x := st.(type) {
		case *ast.ExprStmt:
			if c, ok := x.X.(*ast.CallExpr); ok && exprKey(c.Fun) == "hdec.SetEmitFunc" && len(c.Args) == 1 && emit == nil {
				emit, _ = c.Args[0].(*ast.FuncLit)
			}
		case *ast.DeclStmt:
			if gd, ok := x.Decl.(*ast.GenDecl); ok {
				for _, sp := range gd.Specs {
					if vs, ok := sp.(*ast.ValueSpec); ok && len(vs.Names) == 1 && vs.Names[0].Name == "remainSize" && len(vs.Values) == 1 {
						remainInit = vs.Values[0]
					}
				}
			}
		case *ast.AssignStmt:
			if len(x.Lhs) == 1 && exprKey(x.Lhs[0]) == "remainSize" && x.Tok == token.DEFINE {
				remainInit = x.Rhs[0]
			}
		}
	}
	if emit == nil || remainInit == nil {
		return "", fmt.Errorf("readMetaFrame: emit callback / remainSize not found")
	}
	if c08fSrc(remainInit) != "fr.maxHeaderListSize()" {
		return "", fmt.Errorf("readMetaFrame: remainSize starts as %s, not fr.maxHeaderListSize()", c08fSrc(remainInit))
	}
	env := newEnv(hc, "size", "size", "remainSize", "remain")
	var ops []string
	var over, take string
	touches := func(n ast.Node) bool { // mentions remainSize / mh.Fields on an assigned side
		bad := false
		ast.Inspect(n, func(m ast.Node) bool {
			switch x := m.(type) {
			case *ast.AssignStmt:
				for _, l := range x.Lhs {
					if k := exprKey(l); k == "remainSize" || k == "mh.Fields" {
						bad = true
					}
				}
			case *ast.IncDecStmt:
				if exprKey(x.X) == "remainSize" {
					bad = true
				}
			}
			return true
		})
		return bad
	}
	for _, st := range emit.Body.List {
		src := c08fSrc(st)
		switch x := st.(type) {
		case *ast.AssignStmt:
			switch {
			case src == "size := hf.Size()":
				ops = append(ops, "size")
				continue
			case x.Tok == token.SUB_ASSIGN && exprKey(x.Lhs[0]) == "remainSize" && len(x.Rhs) == 1:
				s, err := env.expr(x.Rhs[0])
				if err != nil {
					return "", fmt.Errorf("readMetaFrame emit: %v", err)
				}
				take = "(remain - " + s + ")"
				ops = append(ops, "take")
				continue
			case src == "mh.Fields = append(mh.Fields, hf)":
				ops = append(ops, "append")
				continue
			}
		case *ast.IfStmt:
			if strings.Contains(c08fSrc(x.Cond), "remainSize") {
				if x.Init != nil || x.Else != nil || !endsInReturn(x.Body.List) || touches(x.Body) {
					return "", fmt.Errorf("readMetaFrame emit: the header-list test has an unexpected shape: %s", src)
				}
				stops := false
				for _, s2 := range x.Body.List {
					if c08fSrc(s2) == "hdec.SetEmitEnabled(false)" {
						stops = true
					}
				}
				if !stops {
					return "", fmt.Errorf("readMetaFrame emit: the header-list test does not switch emitting off")
				}
				s, err := env.expr(x.Cond)
				if err != nil {
					return "", fmt.Errorf("readMetaFrame emit: %v", err)
				}
				over = s
				ops = append(ops, "test")
				continue
			}
		}
		if touches(st) || len(c08pAllocs(st)) > 0 {
			return "", fmt.Errorf("readMetaFrame emit: statement not recognised: %s", src)
		}
		ops = append(ops, "check") // field validation (no effect on the list or the budget)
	}
	if over == "" || take == "" {
		return "", fmt.Errorf("readMetaFrame emit: header-list test / budget update not found")
	}
	fmt.Fprintf(&b, "/-- mhttp2.go readMetaFrame, the emit callback, in source order: check = field validation, size = `size := hf.Size()`,\ntest = `if <over> { hdec.SetEmitEnabled(false); mh.Truncated = true; return }`, take = `remainSize -= size`, append = `mh.Fields = append(mh.Fields, hf)` -/\ndef h2a_emitOps : List String := %s\n", c08pStrList(ops))
	fmt.Fprintf(&b, "/-- the header-list test -/\ndef h2a_listOver (size remain : Int) : Bool := %s\n", over)
	fmt.Fprintf(&b, "/-- the budget update -/\ndef h2a_listTake (remain size : Int) : Int := %s\n", take)
	// allocations of readMetaFrame outside the callback
	var rmAllocs []string
	for _, st := range rm.Body.List {
		if es, ok := st.(*ast.ExprStmt); ok {
			if c, ok := es.X.(*ast.CallExpr); ok && exprKey(c.Fun) == "hdec.SetEmitFunc" {
				continue
			}
		}
		rmAllocs = append(rmAllocs, c08pAllocs(st)...)
	}
	fmt.Fprintf(&b, "/-- mhttp2.go readMetaFrame outside the emit callback: the allocating expressions -/\ndef h2a_metaAllocs : List String := %s\n", c08pStrList(rmAllocs))

	// ---- Framer.maxHeaderListSize
	mh := findFunc(ff, "Framer", "maxHeaderListSize")
	if mh == nil {
		return "", fmt.Errorf("Framer.maxHeaderListSize not found")
	}
	// shape: `if fr.MaxHeaderListSize == 0 { return <constant> }; return fr.MaxHeaderListSize`
	h2pkg, err := c08pLoad("pkg/module/http2")
	if err != nil {
		return "", err
	}
	okShape := false
	if len(mh.Body.List) == 2 {
		ifs, ok1 := mh.Body.List[0].(*ast.IfStmt)
		ret, ok2 := mh.Body.List[1].(*ast.ReturnStmt)
		if ok1 && ok2 && ifs.Init == nil && ifs.Else == nil && c08fSrc(ifs.Cond) == "fr.MaxHeaderListSize == 0" && len(ifs.Body.List) == 1 &&
			len(ret.Results) == 1 && exprKey(ret.Results[0]) == "fr.MaxHeaderListSize" {
			if r0, ok := ifs.Body.List[0].(*ast.ReturnStmt); ok && len(r0.Results) == 1 {
				tr := &c08pTr{pkg: h2pkg}
				if cv, ok := tr.constVal(r0.Results[0], &c08pScope{vars: map[string]c08pVar{}}); ok {
					fmt.Fprintf(&b, "/-- frame.go Framer.maxHeaderListSize — Go: `%s` -/\ndef h2a_maxHeaderListSize (configured : Int) : Int :=\n  if configured = 0 then %s else configured\n",
						c08fSrc(mh.Body), cv.ExactString())
					okShape = true
				}
			}
		}
	}
	if !okShape {
		return "", fmt.Errorf("Framer.maxHeaderListSize has an unexpected shape: %s", c08fSrc(mh.Body))
	}
	// what the connections configure
	stdHTTP, _ := importer.Default().Import("net/http")
	if stdHTTP == nil {
		stdHTTP, _ = importer.ForCompiler(fset, "source", nil).Import("net/http")
	}
	var conf []string
	var confSrc []string
	ast.Inspect(f, func(n ast.Node) bool {
		as, ok := n.(*ast.AssignStmt)
		if !ok || len(as.Lhs) != 1 || len(as.Rhs) != 1 || !strings.HasSuffix(exprKey(as.Lhs[0]), ".MaxHeaderListSize") {
			return true
		}
		rhs := exprKey(as.Rhs[0])
		confSrc = append(confSrc, c08fSrc(as))
		if rhs == "http.DefaultMaxHeaderBytes" && stdHTTP != nil {
			if c, ok := stdHTTP.Scope().Lookup("DefaultMaxHeaderBytes").(*types.Const); ok {
				conf = append(conf, c.Val().ExactString())
				return true
			}
		}
		if v, err := evalNat(as.Rhs[0], hc); err == nil {
			conf = append(conf, fmt.Sprint(v))
			return true
		}
		conf = append(conf, "unknown")
		return true
	})
	for _, c := range conf {
		if c == "unknown" {
			return "", fmt.Errorf("mhttp2.go: MaxHeaderListSize is configured with a value that is not a constant: %v", confSrc)
		}
	}
	if len(conf) == 0 {
		return "", fmt.Errorf("mhttp2.go: no assignment to MaxHeaderListSize found")
	}
	fmt.Fprintf(&b, "/-- mhttp2.go: what NewServerConn / NewClientConn configure: %s -/\ndef h2a_configured : List Int := [%s]\n", strings.Join(confSrc, "; "), strings.Join(conf, ", "))

	// ---- hpack.HeaderField.Size
	hp, err := parse("pkg/module/http2/hpack/hpack.go")
	if err != nil {
		return "", err
	}
	sz := findFunc(hp, "HeaderField", "Size")
	if sz == nil || len(sz.Body.List) != 1 {
		return "", fmt.Errorf("hpack.HeaderField.Size not found / not a single return")
	}
	r, ok := sz.Body.List[0].(*ast.ReturnStmt)
	if !ok || len(r.Results) != 1 {
		return "", fmt.Errorf("hpack.HeaderField.Size: not a single return")
	}
	senv := &Env{Names: map[string]string{"len(hf.Name)": "nameLen", "len(hf.Value)": "valueLen"}, Calls: map[string]string{"uint32": "", "int": ""}}
	ss, err := senv.expr(r.Results[0])
	if err != nil {
		return "", fmt.Errorf("hpack.HeaderField.Size: %v", err)
	}
	fmt.Fprintf(&b, "/-- hpack.go HeaderField.Size (uint32 conversion: identity for header fields off the wire) — Go: `%s` -/\ndef h2a_fieldSize (nameLen valueLen : Int) : Int := %s\n", c08fSrc(r.Results[0]), ss)
	b.WriteString(footer("C08H2Alloc"))
	return b.String(), nil
}
