-- translation-unsupported RedactGuards: open -out/pkg/configmanager/redact.go: no such file or directory
namespace MosnVerif.Gen.RedactGuards
end MosnVerif.Gen.RedactGuards
