-- translation-unsupported C01Tars: open -out/pkg/protocol/xprotocol/tars: no such file or directory
namespace MosnVerif.Gen.C01Tars
end MosnVerif.Gen.C01Tars
