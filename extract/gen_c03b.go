package main

// Gen module ProxyReset (C03 growth slice: partial responses): the two conditions of downStream.onUpstreamReset —
//   retryGate     `if <cond> { retryCheck := s.retryState.retry(s.context, nil, reason); … }`  (may a reset still be retried?)
//   resetNotReply `if <cond> { s.resetStream() } else { … s.sendHijackReply(code, …) }`       (reset the client or answer it?)
// translated over a record of the flags of downStream the conditions may read, and the statement skeleton around
// them (checked by shape: a restructured function is a broken tie, not a silently stale model).

import (
	"fmt"
	"go/ast"
	"strings"
)

func init() { register("ProxyReset", c03bGenProxyReset) }

// c03bFlagConds: canonical Go condition -> Lean expression over `f : Flags`
var c03bFlagConds = map[string]string{
	"s.downstreamResponseStarted":                         "f.responseStarted",
	"s.upstreamProcessDone.Load()":                        "f.processDone",
	"s.retryState != nil":                                 "f.hasRetryState",
	"s.retryState == nil":                                 "(!f.hasRetryState)",
	"s.upstreamRequestSent":                               "f.requestSent",
	"s.downstreamRecvDone":                                "f.recvDone",
	"atomic.LoadUint32(&s.upstreamResponseReceived) == 1": "f.responseReceived",
	"atomic.LoadUint32(&s.upstreamResponseReceived) == 0": "(!f.responseReceived)",
	"atomic.LoadUint32(&s.downstreamReset) == 1":          "f.downstreamReset",
	"atomic.LoadUint32(&s.downstreamReset) == 0":          "(!f.downstreamReset)",
	"s.upstreamRequest != nil":                            "f.hasUpstreamRequest",
	"s.upstreamRequest == nil":                            "(!f.hasUpstreamRequest)",
	"s.oneway":                                            "f.oneway",
	"s.directResponse":                                    "f.directResponse",
	"s.downstreamRespHeaders != nil":                      "f.hasResponseHeaders",
	"s.downstreamRespHeaders == nil":                      "(!f.hasResponseHeaders)",
	"s.processDone()":                                     "(f.processDone || f.downstreamReset || f.upstreamReset)",
}

func c03bGenProxyReset() (string, error) {
	rs, err := resetReasons()
	if err != nil {
		return "", err
	}
	f, err := parse("pkg/proxy/downstream.go")
	if err != nil {
		return "", err
	}
	fd := findFunc(f, "downStream", "onUpstreamReset")
	if fd == nil {
		return "", fmt.Errorf("onUpstreamReset not found")
	}
	if sig := src(fd.Type); sig != "func(reason types.StreamResetReason)" {
		return "", fmt.Errorf("onUpstreamReset: unexpected signature %s", sig)
	}
	conds := map[string]string{}
	for k, v := range c03bFlagConds {
		conds[k] = v
	}
	for _, r := range rs {
		conds["reason != types."+r.name] = "(decide (reason ≠ Reason." + r.name + "))"
		conds["reason == types."+r.name] = "(decide (reason = Reason." + r.name + "))"
	}
	t := &threader{conds: conds, condFx: map[string]string{}}

	// statement skeleton: [comments/logs]* ; if GATE { retryCheck := retry(nil, reason); if ShouldRetry && setupRetry(true) { …; CAS reset flag; return };
	// if RetryOverflow { flag } } ; s.cleanUp() ; if STARTED { s.resetStream() } else { … sendHijackReply(code, …) }
	var body []ast.Stmt
	for _, st := range fd.Body.List {
		if !isLogStmt(st) {
			body = append(body, st)
		}
	}
	if len(body) != 3 {
		return "", fmt.Errorf("onUpstreamReset: expected `if gate {…}; s.cleanUp(); if started {…} else {…}`, found %d statements", len(body))
	}
	gateIf, ok := body[0].(*ast.IfStmt)
	if !ok || gateIf.Init != nil || gateIf.Else != nil {
		return "", fmt.Errorf("onUpstreamReset: first statement is not a plain if")
	}
	gate, fx, err := t.cond(gateIf.Cond)
	if err != nil || fx != "" {
		return "", fmt.Errorf("onUpstreamReset: retry gate %q not translatable: %v", src(gateIf.Cond), err)
	}
	var gb []ast.Stmt
	for _, st := range gateIf.Body.List {
		if !isLogStmt(st) {
			gb = append(gb, st)
		}
	}
	if len(gb) != 3 || src(gb[0]) != "retryCheck := s.retryState.retry(s.context, nil, reason)" {
		return "", fmt.Errorf("onUpstreamReset: retry branch does not start with the retry decision")
	}
	doIf, ok := gb[1].(*ast.IfStmt)
	if !ok || doIf.Else != nil || src(doIf.Cond) != "retryCheck == api.ShouldRetry && s.setupRetry(true)" {
		return "", fmt.Errorf("onUpstreamReset: unexpected retry condition %q", src(gb[1]))
	}
	var db []string
	for _, st := range doIf.Body.List {
		if isLogStmt(st) {
			continue
		}
		if is, ok := st.(*ast.IfStmt); ok && strings.Contains(src(is.Cond), "s.upstreamRequest.host != nil") {
			continue // host statistics
		}
		db = append(db, src(st))
	}
	if strings.Join(db, " ; ") != "atomic.CompareAndSwapUint32(&s.upstreamReset, 1, 0) ; return" {
		return "", fmt.Errorf("onUpstreamReset: the accepted-retry branch is not `clear the reset flag; return`: %v", db)
	}
	if src(gb[2]) != "if retryCheck == api.RetryOverflow { s.requestInfo.SetResponseFlag(api.UpstreamOverflow) }" {
		return "", fmt.Errorf("onUpstreamReset: unexpected overflow statement %q", src(gb[2]))
	}
	if src(body[1]) != "s.cleanUp()" {
		return "", fmt.Errorf("onUpstreamReset: expected s.cleanUp() after the retry decision, found %q", src(body[1]))
	}
	stIf, ok := body[2].(*ast.IfStmt)
	if !ok || stIf.Init != nil || stIf.Else == nil {
		return "", fmt.Errorf("onUpstreamReset: last statement is not if/else")
	}
	started, fx, err := t.cond(stIf.Cond)
	if err != nil || fx != "" {
		return "", fmt.Errorf("onUpstreamReset: condition %q not translatable: %v", src(stIf.Cond), err)
	}
	if len(stIf.Body.List) != 1 || src(stIf.Body.List[0]) != "s.resetStream()" {
		return "", fmt.Errorf("onUpstreamReset: the started branch is not `s.resetStream()`")
	}
	eb, ok := stIf.Else.(*ast.BlockStmt)
	if !ok {
		return "", fmt.Errorf("onUpstreamReset: else-if not expected")
	}
	var es []string
	for _, st := range eb.List {
		if !isLogStmt(st) {
			es = append(es, c03bStmtSrc(st))
		}
	}
	want := []string{"var code int", "reasonFlag := s.proxy.streamResetReasonToResponseFlag(reason)", "s.requestInfo.SetResponseFlag(reasonFlag)",
		"code = types.ConvertReasonToCode(reason)", "atomic.CompareAndSwapUint32(&s.upstreamReset, 1, 0)", "s.sendHijackReply(code, s.downstreamReqHeaders)"}
	if strings.Join(es, " ; ") != strings.Join(want, " ; ") {
		return "", fmt.Errorf("onUpstreamReset: unexpected reply branch: %v", es)
	}

	s := header("ProxyReset", "pkg/proxy/downstream.go (downStream.onUpstreamReset)")
	s = "import MosnVerif.Gen.ProxyReason\n" + s
	s += "open MosnVerif.Gen.ProxyReason\n"
	s += `/-- the fields of downStream the two conditions of onUpstreamReset may read -/
structure Flags where
  responseStarted : Bool      -- s.downstreamResponseStarted
  processDone : Bool          -- s.upstreamProcessDone.Load()
  hasRetryState : Bool        -- s.retryState != nil
  requestSent : Bool          -- s.upstreamRequestSent
  recvDone : Bool             -- s.downstreamRecvDone
  responseReceived : Bool     -- upstreamResponseReceived == 1
  downstreamReset : Bool      -- downstreamReset == 1
  upstreamReset : Bool        -- upstreamReset == 1
  hasUpstreamRequest : Bool   -- s.upstreamRequest != nil
  oneway : Bool               -- s.oneway
  directResponse : Bool       -- s.directResponse
  hasResponseHeaders : Bool   -- s.downstreamRespHeaders != nil
`
	s += "/-- `if <this> { retryCheck := s.retryState.retry(s.context, nil, reason); if retryCheck == api.ShouldRetry && s.setupRetry(true) { clear the reset flag; return }; if retryCheck == api.RetryOverflow { flag } }` -/\n"
	s += "def retryGate (reason : Reason) (f : Flags) : Bool := " + gate + "\n"
	s += "/-- after `s.cleanUp()`: `if <this> { s.resetStream() } else { flag, code of the reason, clear the reset flag, s.sendHijackReply(code, …) }` -/\n"
	s += "def resetNotReply (f : Flags) : Bool := " + started + "\n"
	s += footer("ProxyReset")
	return s, nil
}

// c03bStmtSrc is src without the doc comment of a declaration statement.
func c03bStmtSrc(st ast.Stmt) string {
	if ds, ok := st.(*ast.DeclStmt); ok {
		if gd, ok := ds.Decl.(*ast.GenDecl); ok && gd.Doc != nil {
			doc := gd.Doc
			gd.Doc = nil
			defer func() { gd.Doc = doc }()
			return src(st)
		}
	}
	return src(st)
}
