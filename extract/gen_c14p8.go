package main

import (
	"fmt"
	"go/ast"
	"go/constant"
	"strings"
)

// c14p8Finish regenerates what follows the task loop of downStream.OnReceive when its re-entry budget is used up:
// `exhaustFinishes` (the loop is followed by exactly `s.onReentryExhausted(id, phase)`), the guard under which that function
// answers with a local error (`exhaustHijacks`), the code of that reply (`exhaustCode`), and the shape of the rest of its body
// (ID / cleaned test first; sendHijackReply + processError inside the guard; cleanNotify + receive(phase) last).
func c14p8Finish(df *ast.File, task *ast.FuncLit, taskLoop *ast.ForStmt, phases []string, avals map[string]constant.Value) (string, error) {
	var after []ast.Stmt
	found := false
	for i, st := range task.Body.List {
		if st == ast.Stmt(taskLoop) {
			after = task.Body.List[i+1:]
			found = true
		}
	}
	if !found {
		return "", fmt.Errorf("OnReceive: the task loop is not a statement of the task body")
	}
	none := "/-- nothing follows the task loop of OnReceive: when its budget is used up the task returns -/\n" +
		"def exhaustFinishes : Bool := false\ndef exhaustHijacks (p : Nat) : Bool := false\nabbrev exhaustCode : Nat := 0\n\n"
	if len(after) == 0 {
		return none, nil
	}
	if len(after) != 1 {
		return "", fmt.Errorf("OnReceive: %d statements after the task loop, expected one call", len(after))
	}
	es, ok := after[0].(*ast.ExprStmt)
	if !ok || exprKey(es.X) != "s.onReentryExhausted(id,phase)" && exprKey(es.X) != "s.onReentryExhausted(id, phase)" {
		return "", fmt.Errorf("OnReceive: unsupported statement after the task loop: %s", src(after[0]))
	}
	fn := findFunc(df, "downStream", "onReentryExhausted")
	if fn == nil {
		return "", fmt.Errorf("onReentryExhausted not found")
	}
	var body []ast.Stmt
	for _, st := range fn.Body.List { // log statements are not modelled
		if e, ok := st.(*ast.ExprStmt); ok && strings.HasPrefix(src(e), "log.") {
			continue
		}
		body = append(body, st)
	}
	if len(body) != 4 {
		return "", fmt.Errorf("onReentryExhausted: %d statements, expected 4", len(body))
	}
	g0, ok := body[0].(*ast.IfStmt)
	if !ok || src(g0.Cond) != "atomic.LoadUint32(&s.ID) != id || atomic.LoadUint32(&s.downstreamCleaned) == 1" ||
		len(g0.Body.List) != 1 || src(g0.Body.List[0]) != "return" || g0.Else != nil {
		return "", fmt.Errorf("onReentryExhausted: first statement is not the ID / cleaned test")
	}
	g1, ok := body[1].(*ast.IfStmt)
	if !ok || g1.Else != nil || g1.Init != nil || len(g1.Body.List) != 2 {
		return "", fmt.Errorf("onReentryExhausted: unsupported guard statement")
	}
	h, ok := g1.Body.List[0].(*ast.ExprStmt)
	if !ok {
		return "", fmt.Errorf("onReentryExhausted: guard body does not start with a call")
	}
	hc, ok := h.X.(*ast.CallExpr)
	if !ok || exprKey(hc.Fun) != "s.sendHijackReply" || len(hc.Args) != 2 || src(hc.Args[1]) != "s.downstreamReqHeaders" {
		return "", fmt.Errorf("onReentryExhausted: guard body does not start with s.sendHijackReply(code, s.downstreamReqHeaders)")
	}
	codeName := strings.TrimPrefix(src(hc.Args[0]), "api.")
	cv, ok := avals[codeName]
	if !ok || codeName == src(hc.Args[0]) {
		return "", fmt.Errorf("onReentryExhausted: reply code %s is not an api constant", src(hc.Args[0]))
	}
	if src(g1.Body.List[1]) != "phase, _ = s.processError(id)" {
		return "", fmt.Errorf("onReentryExhausted: the local reply is not taken by `phase, _ = s.processError(id)`")
	}
	if src(body[2]) != "s.cleanNotify()" || src(body[3]) != "s.receive(s.context, id, phase)" {
		return "", fmt.Errorf("onReentryExhausted: does not end with cleanNotify + receive(s.context, id, phase)")
	}
	env := &Env{Names: map[string]string{"phase": "p"}, Calls: map[string]string{}}
	for _, n := range phases {
		env.Names["types."+n] = n
	}
	cond, err := env.expr(g1.Cond)
	if err != nil {
		return "", fmt.Errorf("onReentryExhausted: guard: %v", err)
	}
	s := "/-- the task loop of OnReceive is followed by `s.onReentryExhausted(id, phase)` (ID / cleaned test; guard; cleanNotify; one more `receive(phase)`) -/\n"
	s += "def exhaustFinishes : Bool := true\n"
	s += "/-- guard of onReentryExhausted `" + src(g1.Cond) + "`: sendHijackReply(exhaustCode) + `phase, _ = s.processError(id)` -/\n"
	s += "def exhaustHijacks (p : Nat) : Bool := " + cond + "\n"
	s += "/-- api." + codeName + " -/\nabbrev exhaustCode : Nat := " + cv.ExactString() + "\n\n"
	return s, nil
}
