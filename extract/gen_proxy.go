package main

// Gen modules of the shared downstream machine (C03, C10, and the builders on top of it):
//   ProxyPhase  — types.Phase enum order, phase++, OnReceive's loop budget and what the retry pass does to it,
//                 the Oneway case's next phase, three guards of the timer/retry protocol
//   ProxyReason — StreamResetReason values, types.ConvertReasonToCode, proxy.streamResetReasonToResponseFlag,
//                 upstreamRequest.OnFailure's reason map, the api status codes and response flags
//   Resource    — resource.CanCreate / Increase / Decrease
//   ProxyRetry  — retryState.retry / shouldRetry / reset (statement by statement, generic in the state),
//                 doRetryCheck's decision table, the retry floor, api.RetryCheckStatus values
//   ProxyError  — downStream.processError (statement by statement, generic in the state)

import (
	"bytes"
	"fmt"
	"go/ast"
	"go/constant"
	"go/importer"
	"go/parser"
	"go/printer"
	"go/token"
	"go/types"
	"os"
	"path/filepath"
	"regexp"
	"sort"
	"strings"
)

func init() {
	register("ProxyPhase", genProxyPhase)
	register("ProxyReason", genProxyReason)
	register("Resource", genResource)
	register("ProxyRetry", genProxyRetry)
	register("ProxyError", genProxyError)
}

// ---------------------------------------------------------------------------------------------------------------
// helpers
// ---------------------------------------------------------------------------------------------------------------

// src prints an AST node canonically (single line, single spaces).
func src(n ast.Node) string {
	var b bytes.Buffer
	printer.Fprint(&b, fset, n)
	return strings.Join(strings.Fields(b.String()), " ")
}

// modDir returns the directory of a required module in the module cache (version from /repo's go.mod).
func pxModDir(mod string) (string, error) {
	gm, err := os.ReadFile(filepath.Join(repo, "go.mod"))
	if err != nil {
		return "", err
	}
	re := regexp.MustCompile(`(?m)^\s*` + regexp.QuoteMeta(mod) + `\s+(v\S+)`)
	m := re.FindSubmatch(gm)
	if m == nil {
		return "", fmt.Errorf("module %s not required in go.mod", mod)
	}
	cache := os.Getenv("GOMODCACHE")
	if cache == "" {
		gp := os.Getenv("GOPATH")
		if gp == "" {
			home, _ := os.UserHomeDir()
			gp = filepath.Join(home, "go")
		}
		cache = filepath.Join(gp, "pkg", "mod")
	}
	d := filepath.Join(cache, mod+"@"+string(m[1]))
	if _, err := os.Stat(d); err != nil {
		return "", fmt.Errorf("module dir %s: %v", d, err)
	}
	return d, nil
}

var absConstCache = map[string]map[string]constant.Value{}

// dirConsts type-checks the non-test files of an absolute directory with imports stubbed and returns its constants.
func pxDirConsts(dir string) (map[string]constant.Value, error) {
	if c, ok := absConstCache[dir]; ok {
		return c, nil
	}
	pkgs, err := parser.ParseDir(fset, dir, func(fi os.FileInfo) bool { return !strings.HasSuffix(fi.Name(), "_test.go") }, 0)
	if err != nil {
		return nil, err
	}
	out := map[string]constant.Value{}
	for _, p := range pkgs {
		var files []*ast.File
		var names []string
		for n := range p.Files {
			names = append(names, n)
		}
		sort.Strings(names)
		for _, n := range names {
			files = append(files, p.Files[n])
		}
		conf := types.Config{Importer: fakeImporter{importer.Default()}, Error: func(error) {}}
		tp, _ := conf.Check(p.Name, fset, files, nil)
		if tp == nil {
			continue
		}
		for _, n := range tp.Scope().Names() {
			if c, ok := tp.Scope().Lookup(n).(*types.Const); ok {
				out[n] = c.Val()
			}
		}
	}
	absConstCache[dir] = out
	return out, nil
}

func apiInt(name string) (int64, error) {
	d, err := pxModDir("mosn.io/api")
	if err != nil {
		return 0, err
	}
	cs, err := pxDirConsts(d)
	if err != nil {
		return 0, err
	}
	v, ok := cs[name]
	if !ok {
		return 0, fmt.Errorf("api constant %s not found", name)
	}
	i, ok := constant.Int64Val(constant.ToInt(v))
	if !ok {
		return 0, fmt.Errorf("api constant %s is not an integer", name)
	}
	return i, nil
}

func funcLits(n ast.Node) []*ast.FuncLit {
	var out []*ast.FuncLit
	ast.Inspect(n, func(x ast.Node) bool {
		if f, ok := x.(*ast.FuncLit); ok {
			out = append(out, f)
		}
		return true
	})
	return out
}

// ---------------------------------------------------------------------------------------------------------------
// ProxyPhase
// ---------------------------------------------------------------------------------------------------------------

func phaseNames() ([]string, error) {
	f, err := parse("pkg/types/proxy.go")
	if err != nil {
		return nil, err
	}
	var names []string
	for _, d := range f.Decls {
		gd, ok := d.(*ast.GenDecl)
		if !ok || gd.Tok != token.CONST {
			continue
		}
		isPhase := false
		for i, sp := range gd.Specs {
			vs := sp.(*ast.ValueSpec)
			if i == 0 {
				if id, ok := vs.Type.(*ast.Ident); ok && id.Name == "Phase" && len(vs.Values) == 1 && src(vs.Values[0]) == "iota" {
					isPhase = true
				}
			}
			if !isPhase {
				break
			}
			if i > 0 && (vs.Type != nil || len(vs.Values) != 0) {
				return nil, fmt.Errorf("Phase const block is not a plain iota enumeration")
			}
			for _, n := range vs.Names {
				names = append(names, n.Name)
			}
		}
		if isPhase {
			return names, nil
		}
	}
	return nil, fmt.Errorf("Phase enumeration not found")
}

func genProxyPhase() (string, error) {
	names, err := phaseNames()
	if err != nil {
		return "", err
	}
	if len(names) == 0 || names[len(names)-1] != "End" || names[0] != "InitPhase" {
		return "", fmt.Errorf("unexpected Phase enumeration %v", names)
	}
	f, err := parse("pkg/proxy/downstream.go")
	if err != nil {
		return "", err
	}
	// OnReceive: `for i := 0; i < N; i++ { ... switch phase { ... case types.Retry: ... i-- } }`
	onr := findFunc(f, "downStream", "OnReceive")
	if onr == nil {
		return "", fmt.Errorf("OnReceive not found")
	}
	budget := int64(-1)
	retryKeeps := false
	var loop *ast.ForStmt
	ast.Inspect(onr.Body, func(n ast.Node) bool {
		if fs, ok := n.(*ast.ForStmt); ok && loop == nil && fs.Cond != nil {
			if m := regexp.MustCompile(`^i < (\d+)$`).FindStringSubmatch(src(fs.Cond)); m != nil && src(fs.Init) == "i := 0" && src(fs.Post) == "i++" {
				fmt.Sscan(m[1], &budget)
				loop = fs
			}
		}
		return true
	})
	if loop == nil {
		return "", fmt.Errorf("OnReceive: re-entry loop `for i := 0; i < N; i++` not found")
	}
	var sw *ast.SwitchStmt
	for _, st := range loop.Body.List {
		if s, ok := st.(*ast.SwitchStmt); ok && src(s.Tag) == "phase" {
			sw = s
		}
	}
	if sw == nil {
		return "", fmt.Errorf("OnReceive: switch phase not found in the loop")
	}
	touchesI := func(n ast.Node) bool {
		t := false
		ast.Inspect(n, func(x ast.Node) bool {
			switch y := x.(type) {
			case *ast.IncDecStmt:
				if src(y.X) == "i" {
					t = true
				}
			case *ast.AssignStmt:
				for _, l := range y.Lhs {
					if src(l) == "i" {
						t = true
					}
				}
			}
			return true
		})
		return t
	}
	for _, cc := range sw.Body.List {
		c := cc.(*ast.CaseClause)
		isRetry := len(c.List) == 1 && src(c.List[0]) == "types.Retry"
		for _, st := range c.Body {
			if isRetry {
				if ids, ok := st.(*ast.IncDecStmt); ok && src(ids.X) == "i" && ids.Tok == token.DEC {
					retryKeeps = true
					continue
				}
			}
			if touchesI(st) {
				return "", fmt.Errorf("OnReceive: unsupported change of the loop counter in case %s", src(c))
			}
		}
	}
	// receive: the Oneway case assigns the next phase
	rcv := findFunc(f, "downStream", "receive")
	if rcv == nil {
		return "", fmt.Errorf("receive not found")
	}
	onewayNext := ""
	ast.Inspect(rcv.Body, func(n ast.Node) bool {
		if c, ok := n.(*ast.CaseClause); ok && len(c.List) == 1 && src(c.List[0]) == "types.Oneway" {
			for _, st := range c.Body {
				if as, ok := st.(*ast.AssignStmt); ok && src(as.Lhs[0]) == "phase" && strings.HasPrefix(src(as.Rhs[0]), "types.") {
					onewayNext = strings.TrimPrefix(src(as.Rhs[0]), "types.")
				}
			}
		}
		return true
	})
	if onewayNext == "" {
		return "", fmt.Errorf("receive: next phase of case types.Oneway not found")
	}
	// setupRetry: `if atomic.LoadUint32(&s.globalTimeoutExpired) == 1 { return false }` first
	sr := findFunc(f, "downStream", "setupRetry")
	if sr == nil {
		return "", fmt.Errorf("setupRetry not found")
	}
	checks := false
	if len(sr.Body.List) > 0 {
		if is, ok := sr.Body.List[0].(*ast.IfStmt); ok && src(is.Cond) == "atomic.LoadUint32(&s.globalTimeoutExpired) == 1" &&
			len(is.Body.List) == 1 && src(is.Body.List[0]) == "return false" && is.Else == nil {
			checks = true
		}
	}
	// global timer callback: records the expiry before its CAS
	sent := findFunc(f, "downStream", "onUpstreamRequestSent")
	if sent == nil {
		return "", fmt.Errorf("onUpstreamRequestSent not found")
	}
	records := false
	for _, fl := range funcLits(sent.Body) {
		store, cas := -1, -1
		for i, st := range fl.Body.List {
			s := src(st)
			if s == "atomic.StoreUint32(&s.globalTimeoutExpired, 1)" {
				store = i
			}
			if strings.HasPrefix(s, "if !atomic.CompareAndSwapUint32(&s.upstreamResponseReceived, 0, 1)") {
				cas = i
			}
		}
		if store >= 0 && cas > store {
			records = true
		}
	}
	// doRetry: arms the timers through onUpstreamRequestSent when it has not run yet
	dr := findFunc(f, "downStream", "doRetry")
	if dr == nil {
		return "", fmt.Errorf("doRetry not found")
	}
	arms := false
	ast.Inspect(dr.Body, func(n ast.Node) bool {
		if is, ok := n.(*ast.IfStmt); ok {
			c := src(is.Cond)
			if (c == "!s.upstreamRequestSent" || c == "s.responseTimer == nil") && strings.Contains(src(is.Body), "s.onUpstreamRequestSent()") &&
				is.Else != nil && strings.Contains(src(is.Else), "s.setupPerReqTimeout()") {
				arms = true
			}
		}
		return true
	})

	// doRetry: after the back-off sleep and before it chooses a host, a pending local reply ends the retry
	// (top-level statements of the body, in order: time.Sleep(...); if s.directResponse { return }; ... initializeUpstreamConnectionPool)
	skips := false
	{
		sleepAt, ifAt, poolAt := -1, -1, -1
		for i, st := range dr.Body.List {
			txt := src(st)
			if es, ok := st.(*ast.ExprStmt); ok && sleepAt < 0 && strings.HasPrefix(src(es.X), "time.Sleep(") {
				sleepAt = i
			}
			if is, ok := st.(*ast.IfStmt); ok && ifAt < 0 && is.Init == nil && is.Else == nil && src(is.Cond) == "s.directResponse" &&
				len(is.Body.List) == 1 {
				if rs, ok := is.Body.List[0].(*ast.ReturnStmt); ok && len(rs.Results) == 0 {
					ifAt = i
				}
			}
			if poolAt < 0 && strings.Contains(txt, "initializeUpstreamConnectionPool(") {
				poolAt = i
			}
		}
		skips = sleepAt >= 0 && ifAt > sleepAt && poolAt > ifAt
	}

	s := header("ProxyPhase", "pkg/types/proxy.go (Phase)", "pkg/proxy/downstream.go (OnReceive, receive, setupRetry, onUpstreamRequestSent, doRetry)")
	s += "inductive Phase where\n"
	for _, n := range names {
		s += "  | " + n + "\n"
	}
	s += "  deriving DecidableEq, Repr, Inhabited, Hashable\n"
	s += "def Phase.toNat : Phase → Nat\n"
	for i, n := range names {
		s += fmt.Sprintf("  | .%s => %d\n", n, i)
	}
	s += "/-- `phase++` (the last value stays: `receive` returns End for anything beyond it) -/\ndef Phase.next : Phase → Phase\n"
	for i, n := range names {
		nx := n
		if i+1 < len(names) {
			nx = names[i+1]
		}
		s += fmt.Sprintf("  | .%s => .%s\n", n, nx)
	}
	s += fmt.Sprintf("/-- `for i := 0; i < %d; i++` of downStream.OnReceive -/\ndef loopBudget : Nat := %d\n", budget, budget)
	s += "/-- `phase = types." + onewayNext + "` at the end of `case types.Oneway` of downStream.receive -/\ndef onewayNext : Phase := ." + onewayNext + "\n"
	s += fmt.Sprintf("/-- `i--` in `case types.Retry` of OnReceive's switch: a retry pass does not use up the loop budget -/\ndef retryKeepsBudget : Bool := %v\n", retryKeeps)
	s += fmt.Sprintf("/-- setupRetry starts with `if atomic.LoadUint32(&s.globalTimeoutExpired) == 1 { return false }` -/\ndef setupRetryChecksExpiry : Bool := %v\n", checks)
	s += fmt.Sprintf("/-- the global timer callback stores globalTimeoutExpired before its CAS on upstreamResponseReceived -/\ndef globalCallbackRecordsExpiry : Bool := %v\n", records)
	s += fmt.Sprintf("/-- doRetry runs onUpstreamRequestSent (both timers) when it has not run yet, else only setupPerReqTimeout -/\ndef retryArmsGlobalWhenUnsent : Bool := %v\n", arms)
	s += fmt.Sprintf("/-- doRetry returns right after its back-off sleep, before it chooses a host, when a local reply is pending (`if s.directResponse { return }`) -/\ndef retrySkipsOnDirect : Bool := %v\n", skips)
	s += footer("ProxyPhase")
	return s, nil
}

// ---------------------------------------------------------------------------------------------------------------
// ProxyReason
// ---------------------------------------------------------------------------------------------------------------

type reasonDef struct{ name, value string }

func resetReasons() ([]reasonDef, error) {
	f, err := parse("pkg/types/stream.go")
	if err != nil {
		return nil, err
	}
	var out []reasonDef
	for _, d := range f.Decls {
		gd, ok := d.(*ast.GenDecl)
		if !ok || gd.Tok != token.CONST {
			continue
		}
		for _, sp := range gd.Specs {
			vs := sp.(*ast.ValueSpec)
			if id, ok := vs.Type.(*ast.Ident); ok && id.Name == "StreamResetReason" && len(vs.Names) == 1 && len(vs.Values) == 1 {
				if bl, ok := vs.Values[0].(*ast.BasicLit); ok && bl.Kind == token.STRING {
					out = append(out, reasonDef{vs.Names[0].Name, strings.Trim(bl.Value, `"`)})
				}
			}
		}
	}
	if len(out) == 0 {
		return nil, fmt.Errorf("no StreamResetReason constants found")
	}
	return out, nil
}

func genProxyReason() (string, error) {
	rs, err := resetReasons()
	if err != nil {
		return "", err
	}
	known := map[string]bool{}
	for _, r := range rs {
		known[r.name] = true
	}
	// reason2code + default of ConvertReasonToCode
	cf, err := parse("pkg/types/constant.go")
	if err != nil {
		return "", err
	}
	type kv struct{ k, v string }
	var r2c []kv
	for _, d := range cf.Decls {
		gd, ok := d.(*ast.GenDecl)
		if !ok || gd.Tok != token.VAR {
			continue
		}
		for _, sp := range gd.Specs {
			vs := sp.(*ast.ValueSpec)
			if len(vs.Names) == 1 && vs.Names[0].Name == "reason2code" && len(vs.Values) == 1 {
				cl, ok := vs.Values[0].(*ast.CompositeLit)
				if !ok {
					return "", fmt.Errorf("reason2code is not a composite literal")
				}
				for _, e := range cl.Elts {
					p, ok := e.(*ast.KeyValueExpr)
					if !ok {
						return "", fmt.Errorf("reason2code: unexpected element")
					}
					k, v := src(p.Key), src(p.Value)
					if !known[k] || !strings.HasPrefix(v, "api.") {
						return "", fmt.Errorf("reason2code: unsupported entry %s: %s", k, v)
					}
					r2c = append(r2c, kv{k, strings.TrimPrefix(v, "api.")})
				}
			}
		}
	}
	if len(r2c) == 0 {
		return "", fmt.Errorf("reason2code not found")
	}
	conv := findFunc(cf, "", "ConvertReasonToCode")
	if conv == nil || len(conv.Body.List) != 2 {
		return "", fmt.Errorf("ConvertReasonToCode: unexpected shape")
	}
	if s0 := src(conv.Body.List[0]); s0 != "if code, ok := reason2code[reason]; ok { return code }" {
		return "", fmt.Errorf("ConvertReasonToCode: unexpected lookup %q", s0)
	}
	def := src(conv.Body.List[1])
	if !strings.HasPrefix(def, "return api.") {
		return "", fmt.Errorf("ConvertReasonToCode: unexpected default %q", def)
	}
	defCode := strings.TrimPrefix(def, "return api.")
	// streamResetReasonToResponseFlag
	pf, err := parse("pkg/proxy/proxy.go")
	if err != nil {
		return "", err
	}
	fl := findFunc(pf, "proxy", "streamResetReasonToResponseFlag")
	if fl == nil || len(fl.Body.List) != 2 {
		return "", fmt.Errorf("streamResetReasonToResponseFlag: unexpected shape")
	}
	sw, ok := fl.Body.List[0].(*ast.SwitchStmt)
	if !ok || src(sw.Tag) != "reason" || src(fl.Body.List[1]) != "return 0" {
		return "", fmt.Errorf("streamResetReasonToResponseFlag: unexpected shape")
	}
	var r2f []kv
	for _, cc := range sw.Body.List {
		c := cc.(*ast.CaseClause)
		if len(c.Body) != 1 || !strings.HasPrefix(src(c.Body[0]), "return api.") || len(c.List) == 0 {
			return "", fmt.Errorf("streamResetReasonToResponseFlag: unsupported case %s", src(c))
		}
		v := strings.TrimPrefix(src(c.Body[0]), "return api.")
		for _, e := range c.List {
			k := strings.TrimPrefix(src(e), "types.")
			if !known[k] {
				return "", fmt.Errorf("streamResetReasonToResponseFlag: unknown reason %s", k)
			}
			r2f = append(r2f, kv{k, v})
		}
	}
	// upstreamRequest.OnFailure
	uf, err := parse("pkg/proxy/upstream.go")
	if err != nil {
		return "", err
	}
	of := findFunc(uf, "upstreamRequest", "OnFailure")
	if of == nil {
		return "", fmt.Errorf("OnFailure not found")
	}
	fail := map[string]string{}
	ast.Inspect(of.Body, func(n ast.Node) bool {
		if s, ok := n.(*ast.SwitchStmt); ok && src(s.Tag) == "reason" {
			for _, cc := range s.Body.List {
				c := cc.(*ast.CaseClause)
				if len(c.List) == 1 && len(c.Body) == 1 {
					if as, ok := c.Body[0].(*ast.AssignStmt); ok && src(as.Lhs[0]) == "resetReason" {
						fail[strings.TrimPrefix(src(c.List[0]), "types.")] = strings.TrimPrefix(src(as.Rhs[0]), "types.")
					}
				}
			}
		}
		return true
	})
	if !known[fail["Overflow"]] || !known[fail["ConnectionFailure"]] {
		return "", fmt.Errorf("OnFailure: reason map not recognised: %v", fail)
	}
	if last := src(of.Body.List[len(of.Body.List)-1]); last != "r.OnResetStream(resetReason)" {
		return "", fmt.Errorf("OnFailure: unexpected tail %q", last)
	}

	s := header("ProxyReason", "pkg/types/stream.go (StreamResetReason)", "pkg/types/constant.go (reason2code, ConvertReasonToCode)",
		"pkg/proxy/proxy.go (streamResetReasonToResponseFlag)", "pkg/proxy/upstream.go (OnFailure)", "mosn.io/api (status codes, response flags)")
	s += "inductive Reason where\n"
	for _, r := range rs {
		s += "  | " + r.name + "\n"
	}
	s += "  deriving DecidableEq, Repr, Inhabited, Hashable\n"
	s += "def Reason.name : Reason → String\n"
	for _, r := range rs {
		s += fmt.Sprintf("  | .%s => %q\n", r.name, r.value)
	}
	s += "def Reason.all : List Reason := ["
	for i, r := range rs {
		if i > 0 {
			s += ", "
		}
		s += "." + r.name
	}
	s += "]\n"
	codes := []string{"SuccessCode", "RouterUnavailableCode", "InternalErrorCode", "NoHealthUpstreamCode", "UpstreamOverFlowCode", "TimeoutExceptionCode"}
	flags := []string{"NoHealthyUpstream", "UpstreamRequestTimeout", "UpstreamLocalReset", "UpstreamRemoteReset", "UpstreamConnectionFailure",
		"UpstreamConnectionTermination", "UpstreamOverflow", "NoRouteFound", "DownStreamTerminate"}
	need := map[string]bool{}
	for _, c := range codes {
		need[c] = true
	}
	for _, c := range flags {
		need[c] = true
	}
	need[defCode] = true
	for _, e := range r2c {
		need[e.v] = true
	}
	for _, e := range r2f {
		need[e.v] = true
	}
	var all []string
	for n := range need {
		all = append(all, n)
	}
	sort.Strings(all)
	for _, n := range all {
		v, err := apiInt(n)
		if err != nil {
			return "", err
		}
		s += fmt.Sprintf("def %s : Nat := %d\n", n, v)
	}
	s += "/-- types.ConvertReasonToCode -/\ndef reasonToCode : Reason → Nat\n"
	seen := map[string]bool{}
	for _, e := range r2c {
		if seen[e.k] {
			return "", fmt.Errorf("reason2code: duplicate key %s", e.k)
		}
		seen[e.k] = true
		s += fmt.Sprintf("  | .%s => %s\n", e.k, e.v)
	}
	if len(seen) < len(rs) {
		s += "  | _ => " + defCode + "\n"
	}
	s += "/-- proxy.streamResetReasonToResponseFlag -/\ndef reasonToFlag : Reason → Nat\n"
	seen = map[string]bool{}
	for _, e := range r2f {
		if seen[e.k] {
			return "", fmt.Errorf("streamResetReasonToResponseFlag: duplicate case %s", e.k)
		}
		seen[e.k] = true
		s += fmt.Sprintf("  | .%s => %s\n", e.k, e.v)
	}
	if len(seen) < len(rs) {
		s += "  | _ => 0\n"
	}
	s += "/-- upstreamRequest.OnFailure: pool failure reason -> stream reset reason -/\n"
	s += "def overflowReason : Reason := ." + fail["Overflow"] + "\n"
	s += "def connectionFailureReason : Reason := ." + fail["ConnectionFailure"] + "\n"
	s += footer("ProxyReason")
	return s, nil
}

// ---------------------------------------------------------------------------------------------------------------
// Resource
// ---------------------------------------------------------------------------------------------------------------

func genResource() (string, error) {
	const path = "pkg/upstream/cluster/resource_manager.go"
	f, err := parse(path)
	if err != nil {
		return "", err
	}
	cc := findFunc(f, "resource", "CanCreate")
	if cc == nil {
		return "", fmt.Errorf("CanCreate not found")
	}
	env := &Env{
		Names: map[string]string{"r.max": "max", "r.Max()": "max", "&r.current": "cur"},
		Calls: map[string]string{"uint64": "", "int64": "", "atomic.LoadInt64": ""},
		Ret: func(rs []string) string {
			if len(rs) != 1 {
				return "ERR"
			}
			return rs[0]
		},
		Fall: "ERR",
	}
	body, err := env.block(cc.Body.List, "  ")
	if err != nil {
		return "", err
	}
	if strings.Contains(body, "ERR") {
		return "", fmt.Errorf("CanCreate: a path falls off the end")
	}
	incdec := func(name string, delta string) (string, error) {
		fd := findFunc(f, "resource", name)
		if fd == nil || len(fd.Body.List) != 1 {
			return "", fmt.Errorf("%s: unexpected shape", name)
		}
		is, ok := fd.Body.List[0].(*ast.IfStmt)
		if !ok || is.Else != nil || len(is.Body.List) != 1 {
			return "", fmt.Errorf("%s: unexpected shape", name)
		}
		e2 := &Env{Names: map[string]string{"r.max": "max"}, Calls: map[string]string{"uint64": ""}}
		c, err := e2.expr(is.Cond)
		if err != nil {
			return "", err
		}
		if st := src(is.Body.List[0]); st != "atomic.AddInt64(&r.current, "+delta+")" {
			return "", fmt.Errorf("%s: unexpected statement %q", name, st)
		}
		return "  if " + c + " then\n    (cur + (" + delta + "))\n  else\n    cur\n", nil
	}
	inc, err := incdec("Increase", "1")
	if err != nil {
		return "", err
	}
	dec, err := incdec("Decrease", "-1")
	if err != nil {
		return "", err
	}
	s := header("Resource", path+" (resource.CanCreate/Increase/Decrease)")
	s += "/-- resource.CanCreate (max: uint64 threshold, cur: int64 counter; both as unbounded Int) -/\n"
	s += "def canCreate (max : Int) (cur : Int) : Bool :=\n  " + body + "\n"
	s += "def increase (max : Int) (cur : Int) : Int :=\n" + inc
	s += "def decrease (max : Int) (cur : Int) : Int :=\n" + dec
	s += footer("Resource")
	return s, nil
}

// ---------------------------------------------------------------------------------------------------------------
// state-threading translator (processError, retryState.*)
// ---------------------------------------------------------------------------------------------------------------

type threader struct {
	vars   []string          // threaded variables besides nothing: e.g. ["s","phase","err"]
	types  []string          // their Lean types
	conds  map[string]string // canonical Go condition -> Lean Bool expression
	condFx map[string]string // conditions with a side effect on success (CAS): canonical Go -> Lean effect on s
	// condFxNeg: conditions with a side effect when they are FALSE (`if !CAS(..) { return }`): canonical Go of the whole
	// condition -> Lean effect on s, applied on the path that continues (only for `if c { …return }` without else)
	condFxNeg map[string]string
	stmts  map[string]string // canonical Go statement -> Lean `let` line(s) (without indentation)
	skip   func(ast.Stmt) bool
	ret    func(results []string) (string, error)
	expr   func(ast.Expr) (string, bool) // extra expression rendering for assignments
	nk     int
}

func (t *threader) tuple() string { return "(" + strings.Join(t.vars, ", ") + ")" }

func (t *threader) cond(e ast.Expr) (string, string, error) {
	k := src(e)
	if c, ok := t.conds[k]; ok {
		return c, t.condFx[k], nil
	}
	switch x := e.(type) {
	case *ast.UnaryExpr:
		if x.Op == token.NOT {
			c, fx, err := t.cond(x.X)
			if err != nil || fx != "" {
				return "", "", fmt.Errorf("unsupported condition %s", k)
			}
			return "(!" + c + ")", "", nil
		}
	case *ast.ParenExpr:
		return t.cond(x.X)
	case *ast.BinaryExpr:
		if x.Op == token.LAND || x.Op == token.LOR {
			a, f1, err := t.cond(x.X)
			if err != nil {
				return "", "", err
			}
			b, f2, err := t.cond(x.Y)
			if err != nil {
				return "", "", err
			}
			if f1 != "" || f2 != "" {
				return "", "", fmt.Errorf("unsupported condition %s", k)
			}
			op := "&&"
			if x.Op == token.LOR {
				op = "||"
			}
			return "(" + a + " " + op + " " + b + ")", "", nil
		}
	}
	return "", "", fmt.Errorf("unsupported condition %s", k)
}

func alwaysReturns(l []ast.Stmt) bool {
	if len(l) == 0 {
		return false
	}
	switch x := l[len(l)-1].(type) {
	case *ast.ReturnStmt:
		return true
	case *ast.IfStmt:
		if x.Else == nil {
			return false
		}
		eb, ok := x.Else.(*ast.BlockStmt)
		return ok && alwaysReturns(x.Body.List) && alwaysReturns(eb.List)
	}
	return false
}

// block renders stmts; `fall` is the Lean expression used when the block falls off its end.
func (t *threader) block(stmts []ast.Stmt, ind, fall string) (string, error) {
	if len(stmts) == 0 {
		return fall, nil
	}
	st, rest := stmts[0], stmts[1:]
	if t.skip != nil && t.skip(st) {
		return t.block(rest, ind, fall)
	}
	if l, ok := t.stmts[src(st)]; ok {
		k, err := t.block(rest, ind, fall)
		if err != nil {
			return "", err
		}
		if l == "" {
			return k, nil
		}
		return strings.ReplaceAll(l, "\n", "\n"+ind) + "\n" + ind + k, nil
	}
	switch x := st.(type) {
	case *ast.ReturnStmt:
		var rs []string
		for _, r := range x.Results {
			rs = append(rs, src(r))
		}
		return t.ret(rs)
	case *ast.IfStmt:
		if x.Init != nil {
			return "", fmt.Errorf("if with init: %s", src(x))
		}
		c, fx, err := t.cond(x.Cond)
		if err != nil {
			return "", err
		}
		pre := ""
		if fx != "" {
			pre = fx + "\n" + ind + "  "
		}
		var elseList []ast.Stmt
		switch eb := x.Else.(type) {
		case nil:
		case *ast.BlockStmt:
			elseList = eb.List
		default:
			return "", fmt.Errorf("else-if chain not supported: %s", src(x))
		}
		thenRet := alwaysReturns(x.Body.List)
		elseRet := x.Else != nil && alwaysReturns(elseList)
		negFx := ""
		if t.condFxNeg != nil {
			negFx = t.condFxNeg[src(x.Cond)]
		}
		if negFx != "" && !(thenRet && x.Else == nil) {
			return "", fmt.Errorf("condition with an effect on failure in an unsupported position: %s", src(x))
		}
		if thenRet && (elseRet || x.Else == nil) {
			tb, err := t.block(x.Body.List, ind+"  ", "ERR")
			if err != nil {
				return "", err
			}
			eb, err := t.block(append(append([]ast.Stmt{}, elseList...), rest...), ind+"  ", fall)
			if err != nil {
				return "", err
			}
			if negFx != "" {
				eb = negFx + "\n" + ind + "  " + eb
			}
			return "if " + c + " then\n" + ind + "  " + pre + tb + "\n" + ind + "else\n" + ind + "  " + eb, nil
		}
		if len(rest) == 0 {
			tb, err := t.block(x.Body.List, ind+"  ", fall)
			if err != nil {
				return "", err
			}
			eb, err := t.block(elseList, ind+"  ", fall)
			if err != nil {
				return "", err
			}
			return "if " + c + " then\n" + ind + "  " + pre + tb + "\n" + ind + "else\n" + ind + "  " + eb, nil
		}
		// join point for the statements after the if
		t.nk++
		kname := fmt.Sprintf("k%d", t.nk)
		var params []string
		for i, v := range t.vars {
			params = append(params, "("+v+" : "+t.types[i]+")")
		}
		rb, err := t.block(rest, ind+"  ", fall)
		if err != nil {
			return "", err
		}
		call := kname + " " + strings.Join(t.vars, " ")
		tb, err := t.block(x.Body.List, ind+"  ", call)
		if err != nil {
			return "", err
		}
		eb, err := t.block(elseList, ind+"  ", call)
		if err != nil {
			return "", err
		}
		return "let " + kname + " := fun " + strings.Join(params, " ") + " =>\n" + ind + "  " + rb + "\n" + ind +
			"if " + c + " then\n" + ind + "  " + pre + tb + "\n" + ind + "else\n" + ind + "  " + eb, nil
	case *ast.BlockStmt:
		return t.block(append(append([]ast.Stmt{}, x.List...), rest...), ind, fall)
	}
	return "", fmt.Errorf("unsupported statement %q", src(st))
}

func pxIsLogStmt(st ast.Stmt) bool {
	switch x := st.(type) {
	case *ast.ExprStmt:
		return strings.HasPrefix(src(x.X), "log.")
	case *ast.IfStmt:
		c := src(x.Cond)
		if strings.HasPrefix(c, "log.") && strings.Contains(c, "GetLogLevel()") && x.Else == nil {
			for _, b := range x.Body.List {
				if !pxIsLogStmt(b) {
					return false
				}
			}
			return true
		}
	}
	return false
}

// ---------------------------------------------------------------------------------------------------------------
// ProxyError
// ---------------------------------------------------------------------------------------------------------------

func genProxyError() (string, error) {
	names, err := phaseNames()
	if err != nil {
		return "", err
	}
	f, err := parse("pkg/proxy/downstream.go")
	if err != nil {
		return "", err
	}
	fd := findFunc(f, "downStream", "processError")
	if fd == nil {
		return "", fmt.Errorf("processError not found")
	}
	if sig := src(fd.Type); sig != "func(id uint32) (phase types.Phase, err error)" {
		return "", fmt.Errorf("processError: unexpected signature %s", sig)
	}
	t := &threader{
		vars:  []string{"s", "phase", "err"},
		types: []string{"σ", "Phase", "Bool"},
		conds: map[string]string{
			"sid != id": "(!(o.idMatches s))",
			"atomic.LoadUint32(&s.downstreamCleaned) == 1": "(o.cleaned s)",
			"atomic.LoadUint32(&s.upstreamReset) == 1":     "(o.upstreamReset s)",
			"atomic.LoadUint32(&s.downstreamReset) == 1":   "(o.downstreamReset s)",
			"s.oneway":                                       "(o.oneway s)",
			"s.directResponse":                               "(o.directResponse s)",
			"s.upstreamProcessDone.Load()":                   "(o.processDone s)",
			"s.upstreamRequest != nil":                       "(o.hasUpstreamRequest s)",
			"s.upstreamRequest.setupRetry":                   "(o.setupRetry s)",
			"s.receiverFiltersAgainPhase != types.InitPhase": "(decide (o.againPhase s ≠ Phase.InitPhase))",
		},
		condFx: map[string]string{},
		stmts: map[string]string{
			"sid := atomic.LoadUint32(&s.ID)":         "",
			"err = types.ErrExit":                     "let err := true",
			"err = nil":                               "let err := false",
			"s.onUpstreamReset(s.resetReason.Load())": "let s := o.onUpstreamReset s",
			"s.ResetStream(s.resetReason.Load())":     "let s := o.resetStream s",
			"variable.SetString(s.context, types.VarProxyIsDirectResponse, types.IsDirectResponse)": "let s := o.markDirect s",
			"s.directResponse = false":                        "let s := o.setDirectResponse s false",
			"s.retryState = nil":                              "let s := o.clearRetryState s",
			"if s.retryState != nil { s.retryState.reset() }": "let s := o.releaseRetry s",
			"s.upstreamRequest.setupRetry = false":            "let s := o.setSetupRetry s false",
			"s.detachRetriedRequest()":                        "let s := o.detachRetried s",
			"phase = s.receiverFiltersAgainPhase":             "let phase := o.againPhase s",
		},
		skip: isLogStmt,
	}
	for _, p := range names {
		t.conds["s.phase != types."+p] = "(decide (o.curPhase s ≠ Phase." + p + "))"
		t.conds["s.phase == types."+p] = "(decide (o.curPhase s = Phase." + p + "))"
		t.stmts["phase = types."+p] = "let phase := Phase." + p
		t.stmts["s.receiverFiltersAgainPhase = types."+p] = "let s := o.setAgainPhase s Phase." + p
	}
	t.ret = func(rs []string) (string, error) {
		switch len(rs) {
		case 0:
			return "(s, phase, err)", nil
		case 2:
			if !strings.HasPrefix(rs[0], "types.") {
				return "", fmt.Errorf("processError: unsupported return %v", rs)
			}
			e := ""
			switch rs[1] {
			case "types.ErrExit":
				e = "true"
			case "nil":
				e = "false"
			default:
				return "", fmt.Errorf("processError: unsupported return %v", rs)
			}
			return "(s, Phase." + strings.TrimPrefix(rs[0], "types.") + ", " + e + ")", nil
		}
		return "", fmt.Errorf("processError: unsupported return %v", rs)
	}
	body, err := t.block(fd.Body.List, "  ", "(s, phase, err)")
	if err != nil {
		return "", err
	}
	s := header("ProxyError", "pkg/proxy/downstream.go (downStream.processError)")
	s = "import MosnVerif.Gen.ProxyPhase\n" + s
	s += "open MosnVerif.Gen.ProxyPhase\n"
	s += `/-- what processError reads and does, as operations on an abstract state σ -/
structure Ops (σ : Type) where
  idMatches : σ → Bool
  cleaned : σ → Bool
  upstreamReset : σ → Bool
  downstreamReset : σ → Bool
  oneway : σ → Bool
  directResponse : σ → Bool
  curPhase : σ → Phase
  processDone : σ → Bool
  hasUpstreamRequest : σ → Bool
  setupRetry : σ → Bool
  againPhase : σ → Phase
  onUpstreamReset : σ → σ
  resetStream : σ → σ
  markDirect : σ → σ
  setDirectResponse : σ → Bool → σ
  releaseRetry : σ → σ
  clearRetryState : σ → σ
  setSetupRetry : σ → Bool → σ
  setAgainPhase : σ → Phase → σ
  detachRetried : σ → σ
`
	fresh, err := c03dDetachFresh(f)
	if err != nil {
		return "", err
	}
	s += "/-- downStream.detachRetriedRequest (when processError calls it) installs a NEW upstreamRequest object that has neither a\nstream (requestSender) nor the setupRetry mark: the composite literal assigned to s.upstreamRequest sets only\ndownStream / proxy / protocol / host / connPool.  false when the function is absent or does anything else. -/\n"
	s += fmt.Sprintf("def detachFresh : Bool := %v\n", fresh)
	s += "/-- downStream.processError, statement by statement: (state, phase, err ≠ nil); the named results start as (0, nil) -/\n"
	s += "def processError {σ : Type} (o : Ops σ) (s : σ) : σ × Phase × Bool :=\n  let phase := Phase." + names[0] + "\n  let err := false\n  " + body + "\n"
	s += footer("ProxyError")
	return s, nil
}

// ---------------------------------------------------------------------------------------------------------------
// ProxyRetry
// ---------------------------------------------------------------------------------------------------------------

func genProxyRetry() (string, error) {
	rs, err := resetReasons()
	if err != nil {
		return "", err
	}
	known := map[string]bool{}
	for _, r := range rs {
		known[r.name] = true
	}
	f, err := parse("pkg/proxy/retrystate.go")
	if err != nil {
		return "", err
	}
	// floor: `retiesRemaining: N` in newRetryState, raised by NumRetries
	nrs := findFunc(f, "", "newRetryState")
	if nrs == nil {
		return "", fmt.Errorf("newRetryState not found")
	}
	floor := int64(-1)
	ast.Inspect(nrs.Body, func(n ast.Node) bool {
		if kvx, ok := n.(*ast.KeyValueExpr); ok && src(kvx.Key) == "retiesRemaining" {
			fmt.Sscan(src(kvx.Value), &floor)
		}
		return true
	})
	raised := false
	for _, st := range nrs.Body.List {
		if src(st) == "if retryPolicy.NumRetries() > rs.retiesRemaining { rs.retiesRemaining = retryPolicy.NumRetries() }" {
			raised = true
		}
	}
	if floor < 0 || !raised {
		return "", fmt.Errorf("newRetryState: retry floor not recognised")
	}
	var status [3]int64
	for i, n := range []string{"ShouldRetry", "NoRetry", "RetryOverflow"} {
		v, err := apiInt(n)
		if err != nil {
			return "", err
		}
		status[i] = v
	}
	mk := func() *threader {
		t := &threader{
			vars:  []string{"s"},
			types: []string{"σ"},
			conds: map[string]string{
				"r.retiesRemaining == 0":                                  "(decide (o.remaining s = 0))",
				"r.doRetryCheck(ctx, headers, reason)":                    "(o.doRetryCheck s)",
				"r.cluster.ResourceManager().Retries().CanCreate()":       "(o.canCreate s)",
				"atomic.CompareAndSwapUint32(&r.retryResourceHeld, 1, 0)": "(o.held s)",
				"atomic.CompareAndSwapUint32(&r.retryResourceHeld, 0, 1)": "(!(o.held s))",
				"check != 0": "(decide (check ≠ 0))",
			},
			condFx: map[string]string{
				"atomic.CompareAndSwapUint32(&r.retryResourceHeld, 1, 0)": "let s := o.setHeld s false",
				"atomic.CompareAndSwapUint32(&r.retryResourceHeld, 0, 1)": "let s := o.setHeld s true",
			},
			stmts: map[string]string{
				"r.cluster.ResourceManager().Retries().Decrease()":      "let s := o.decrease s",
				"r.cluster.ResourceManager().Retries().Increase()":      "let s := o.increase s",
				"r.cluster.Stats().UpstreamRequestRetry.Inc(1)":         "let s := o.countRetry s",
				"r.cluster.Stats().UpstreamRequestRetryOverflow.Inc(1)": "let s := o.countOverflow s",
				"r.retiesRemaining--":                                   "let s := o.setRemaining s (o.remaining s - 1)",
				"r.reset()":                                             "let s := reset o s",
				"atomic.StoreUint32(&r.retryResourceHeld, 0)":           "let s := o.setHeld s false",
				"atomic.StoreUint32(&r.retryResourceHeld, 1)":           "let s := o.setHeld s true",
				"check := r.shouldRetry(ctx, headers, reason)":          "let (s, check) := shouldRetry o s",
			},
		}
		return t
	}
	statusRet := func(rs []string) (string, error) {
		if len(rs) != 1 {
			return "", fmt.Errorf("unsupported return %v", rs)
		}
		switch rs[0] {
		case "api.NoRetry":
			return "(s, NoRetry)", nil
		case "api.RetryOverflow":
			return "(s, RetryOverflow)", nil
		case "api.ShouldRetry":
			return "(s, ShouldRetry)", nil
		case "check":
			return "(s, check)", nil
		case "0":
			return "(s, 0)", nil
		}
		return "", fmt.Errorf("unsupported return %v", rs)
	}
	get := func(name string, ret func([]string) (string, error), fall string) (string, error) {
		fd := findFunc(f, "retryState", name)
		if fd == nil {
			return "", fmt.Errorf("%s not found", name)
		}
		t := mk()
		t.ret = ret
		return t.block(fd.Body.List, "  ", fall)
	}
	resetB, err := get("reset", func(rs []string) (string, error) { return "s", nil }, "s")
	if err != nil {
		return "", err
	}
	shouldB, err := get("shouldRetry", statusRet, "ERR")
	if err != nil {
		return "", err
	}
	retryB, err := get("retry", statusRet, "ERR")
	if err != nil {
		return "", err
	}
	if strings.Contains(shouldB, "ERR") || strings.Contains(retryB, "ERR") {
		return "", fmt.Errorf("retry/shouldRetry: a path falls off the end")
	}
	// doRetryCheck decision table
	dc := findFunc(f, "retryState", "doRetryCheck")
	if dc == nil {
		return "", fmt.Errorf("doRetryCheck not found")
	}
	L := dc.Body.List
	if len(L) != 4 {
		return "", fmt.Errorf("doRetryCheck: unexpected number of statements %d", len(L))
	}
	wantDisable := "if ctx != nil { if disable, err := variable.Get(ctx, types.VarProxyDisableRetry); err == nil { if retryDisable, ok := disable.(bool); ok && retryDisable { return false } } }"
	if src(L[0]) != wantDisable {
		return "", fmt.Errorf("doRetryCheck: disable check not recognised")
	}
	reasonEq := regexp.MustCompile(`^if reason == types\.(\w+) \{ return (true|false) \}$`)
	m := reasonEq.FindStringSubmatch(src(L[1]))
	if m == nil || m[2] != "false" || !known[m[1]] {
		return "", fmt.Errorf("doRetryCheck: early refusal not recognised: %s", src(L[1]))
	}
	never := []string{m[1]}
	top, ok := L[2].(*ast.IfStmt)
	if !ok || src(top.Cond) != "r.retryOn" || top.Else == nil || src(L[3]) != "return false" {
		return "", fmt.Errorf("doRetryCheck: retryOn branch not recognised")
	}
	onL := top.Body.List
	if len(onL) < 1 {
		return "", fmt.Errorf("doRetryCheck: empty retryOn branch")
	}
	st0, ok := onL[0].(*ast.IfStmt)
	statusOnlyWithoutReason := false
	if !ok {
		return "", fmt.Errorf("doRetryCheck: status block not recognised")
	}
	switch src(st0.Cond) {
	case "ctx != nil":
	case `ctx != nil && reason == ""`:
		statusOnlyWithoutReason = true
	default:
		return "", fmt.Errorf("doRetryCheck: status block condition %q", src(st0.Cond))
	}
	wantStatus := regexp.MustCompile(`^\{ code, err := protocol\.MappingHeaderStatusCode\(ctx, r\.upstreamProtocol, headers\) if err == nil \{ codes := r\.retryPolicy\.RetryableStatusCodes\(\) if len\(codes\) > 0 \{ for _, it := range codes \{ if code == int\(it\) \{ return true \} \} return false \} return code (>=|>) (\S+) \} \}$`)
	sm := wantStatus.FindStringSubmatch(src(st0.Body))
	if sm == nil {
		return "", fmt.Errorf("doRetryCheck: status rule not recognised: %s", src(st0.Body))
	}
	thr := int64(0)
	if sm[2] == "http.InternalServerError" {
		d, err := pxModDir("mosn.io/pkg")
		if err != nil {
			return "", err
		}
		cs, err := pxDirConsts(filepath.Join(d, "protocol", "http"))
		if err != nil {
			return "", err
		}
		v, ok := cs["InternalServerError"]
		if !ok {
			return "", fmt.Errorf("http.InternalServerError not found")
		}
		thr, _ = constant.Int64Val(constant.ToInt(v))
	} else if _, err := fmt.Sscan(sm[2], &thr); err != nil {
		return "", fmt.Errorf("doRetryCheck: status threshold %s", sm[2])
	}
	collect := func(l []ast.Stmt) ([]string, error) {
		var out []string
		for _, st := range l {
			m := reasonEq.FindStringSubmatch(src(st))
			if m == nil || m[2] != "true" || !known[m[1]] {
				return nil, fmt.Errorf("doRetryCheck: unsupported statement %s", src(st))
			}
			out = append(out, m[1])
		}
		return out, nil
	}
	onReasons, err := collect(onL[1:])
	if err != nil {
		return "", err
	}
	eb, ok := top.Else.(*ast.BlockStmt)
	if !ok {
		return "", fmt.Errorf("doRetryCheck: else branch not recognised")
	}
	defReasons, err := collect(eb.List)
	if err != nil {
		return "", err
	}
	lst := func(l []string) string {
		var p []string
		for _, x := range l {
			p = append(p, "."+x)
		}
		return "[" + strings.Join(p, ", ") + "]"
	}
	cmp := "≥"
	if sm[1] == ">" {
		cmp = ">"
	}

	s := "import MosnVerif.Gen.ProxyReason\n" + header("ProxyRetry", "pkg/proxy/retrystate.go (newRetryState, retry, shouldRetry, reset, doRetryCheck)", "mosn.io/api (RetryCheckStatus)")
	s += "open MosnVerif.Gen.ProxyReason\n"
	s += fmt.Sprintf("/-- `retiesRemaining: %d` of newRetryState, raised to NumRetries() when that is larger -/\ndef retriesFloor : Nat := %d\n", floor, floor)
	s += fmt.Sprintf("def ShouldRetry : Int := %d\ndef NoRetry : Int := %d\ndef RetryOverflow : Int := %d\n", status[0], status[1], status[2])
	s += `/-- what the retry state reads and does, as operations on an abstract state σ -/
structure Ops (σ : Type) where
  remaining : σ → Nat
  setRemaining : σ → Nat → σ
  doRetryCheck : σ → Bool
  canCreate : σ → Bool
  held : σ → Bool
  setHeld : σ → Bool → σ
  increase : σ → σ
  decrease : σ → σ
  countOverflow : σ → σ
  countRetry : σ → σ
`
	s += "/-- retryState.reset -/\ndef reset {σ : Type} (o : Ops σ) (s : σ) : σ :=\n  " + resetB + "\n"
	s += "/-- retryState.shouldRetry -/\ndef shouldRetry {σ : Type} (o : Ops σ) (s : σ) : σ × Int :=\n  " + shouldB + "\n"
	s += "/-- retryState.retry -/\ndef retry {σ : Type} (o : Ops σ) (s : σ) : σ × Int :=\n  " + retryB + "\n"
	s += "def neverRetryReasons : List Reason := " + lst(never) + "\n"
	s += "def retryOnReasons : List Reason := " + lst(onReasons) + "\n"
	s += "def defaultReasons : List Reason := " + lst(defReasons) + "\n"
	s += fmt.Sprintf("def codeRetryable (code : Int) : Bool := (decide (code %s %d))\n", cmp, thr)
	s += fmt.Sprintf("/-- the mapped status code decides only when no reset reason is given (`ctx != nil && reason == \"\"`) -/\ndef statusOnlyWithoutReason : Bool := %v\n", statusOnlyWithoutReason)
	s += `/-- retryState.doRetryCheck: ` + "`disabled`" + ` = the proxy_disable_retry variable, ` + "`status`" + ` = the mapped header status when one is known -/
def doRetryCheck (disabled retryOn : Bool) (status : Option Int) (codes : List Int) (reason : Option Reason) : Bool :=
  if disabled then false else
  if (match reason with | some r => neverRetryReasons.contains r | none => false) then false else
  if retryOn then
    match (if statusOnlyWithoutReason && reason.isSome then none else status) with
    | some code => if !codes.isEmpty then codes.contains code else codeRetryable code
    | none => (match reason with | some r => retryOnReasons.contains r | none => false)
  else
    (match reason with | some r => defaultReasons.contains r | none => false)
`
	s += footer("ProxyRetry")
	return s, nil
}

// c03dDetachFresh: the body of downStream.detachRetriedRequest is `old := s.upstreamRequest` followed by ONE assignment
// `s.upstreamRequest = &upstreamRequest{…}` whose keys are among downStream, proxy, protocol, host, connPool (so the new
// object has no requestSender and setupRetry == false). An absent function yields false (processError then cannot call it:
// the translation of the call fails elsewhere).
func c03dDetachFresh(f *ast.File) (bool, error) {
	fd := findFunc(f, "downStream", "detachRetriedRequest")
	if fd == nil || fd.Body == nil {
		return false, nil
	}
	if len(fd.Body.List) != 2 || src(fd.Body.List[0]) != "old := s.upstreamRequest" {
		return false, nil
	}
	as, ok := fd.Body.List[1].(*ast.AssignStmt)
	if !ok || len(as.Lhs) != 1 || len(as.Rhs) != 1 || src(as.Lhs[0]) != "s.upstreamRequest" || as.Tok != token.ASSIGN {
		return false, nil
	}
	un, ok := as.Rhs[0].(*ast.UnaryExpr)
	if !ok || un.Op != token.AND {
		return false, nil
	}
	cl, ok := un.X.(*ast.CompositeLit)
	if !ok || src(cl.Type) != "upstreamRequest" {
		return false, nil
	}
	allowed := map[string]string{"downStream": "s", "proxy": "old.proxy", "protocol": "old.protocol", "host": "old.host", "connPool": "old.connPool"}
	hasDown := false
	for _, e := range cl.Elts {
		kv, ok := e.(*ast.KeyValueExpr)
		if !ok {
			return false, nil
		}
		want, ok := allowed[src(kv.Key)]
		if !ok || (src(kv.Value) != want && !(src(kv.Key) == "proxy" && src(kv.Value) == "s.proxy")) {
			return false, nil
		}
		if src(kv.Key) == "downStream" {
			hasDown = true
		}
	}
	return hasDown, nil
}
