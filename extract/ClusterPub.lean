-- translation-unsupported ClusterPub: open -out/pkg/upstream/cluster/cluster_manager.go: no such file or directory
namespace MosnVerif.Gen.ClusterPub
end MosnVerif.Gen.ClusterPub
