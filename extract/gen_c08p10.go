package main

// Gen modules of builder c08p10 (C08 malformed input is contained), produced with the checked-access statement
// translator c08p10_chk.go:
//   C08Matchers — every protocol matcher used by automatic protocol selection (the function each xprotocol codec returns
//                 from ProtocolMatch(), TarsGo's TarsRequest behind the tars matcher, the ProtocolMatch methods of the
//                 HTTP/1 and HTTP/2 stream factories) as a checked-access program over the peeked bytes
//   C08H2Parse  — every HTTP/2 frame payload parser of pkg/module/http2/frame.go (the frameParsers table, readByte,
//                 readUint32, Flags.Has, SettingsFrame.Value / Setting / NumSettings) as checked-access programs over the
//                 frame payload, plus the dispatch on the frame type

import (
	"fmt"
	"go/ast"
	"go/constant"
	"os"
	"path/filepath"
	"regexp"
	"sort"
	"strings"
)

func init() {
	register("C08Matchers", genC08pMatchers)
	register("C08H2Parse", genC08pH2Parse)
}

func c08pModule(name string, srcs []string, units []*c08pUnit, extra string) string {
	var b strings.Builder
	b.WriteString("import MosnVerif.Model.CheckedGo\n")
	b.WriteString(header(name, srcs...))
	b.WriteString("open MosnVerif.Model.CheckedGo\nset_option linter.unusedVariables false\n\n")
	var names []string
	for _, u := range units {
		for _, p := range u.pre {
			b.WriteString(p + "\n")
		}
		for _, d := range u.defs {
			b.WriteString(d + "\n")
		}
		names = append(names, u.defName...)
	}
	b.WriteString(extra)
	b.WriteString(footer(name))
	return b.String()
}

func c08pModCache() string {
	if d := os.Getenv("GOMODCACHE"); d != "" {
		return d
	}
	gp := os.Getenv("GOPATH")
	if gp == "" {
		gp = filepath.Join(os.Getenv("HOME"), "go")
	}
	return filepath.Join(gp, "pkg", "mod")
}

// c08pCodecMatcher reads `func (codec *XCodec) ProtocolMatch() api.ProtocolMatch { return <ident> }` of a codec.go.
func c08pCodecMatcher(dir string) (string, error) {
	f, err := parse(dir + "/codec.go")
	if err != nil {
		return "", err
	}
	var fd *ast.FuncDecl
	for _, d := range f.Decls {
		if x, ok := d.(*ast.FuncDecl); ok && x.Name.Name == "ProtocolMatch" && x.Recv != nil {
			fd = x
		}
	}
	if fd == nil || len(fd.Body.List) != 1 {
		return "", fmt.Errorf("%s/codec.go: ProtocolMatch is not a single return", dir)
	}
	r, ok := fd.Body.List[0].(*ast.ReturnStmt)
	if !ok || len(r.Results) != 1 {
		return "", fmt.Errorf("%s/codec.go: ProtocolMatch is not a single return", dir)
	}
	id, ok := r.Results[0].(*ast.Ident)
	if !ok || id.Name == "nil" {
		return "", fmt.Errorf("%s/codec.go: ProtocolMatch does not return a named matcher function", dir)
	}
	return id.Name, nil
}

func genC08pMatchers() (string, error) {
	var units []*c08pUnit
	var extra strings.Builder
	var srcs []string
	mr := func(u *c08pUnit) {
		u.name("api.MatchAgain", "MR.again", c08pMR)
		u.name("api.MatchSuccess", "MR.success", c08pMR)
		u.name("api.MatchFailed", "MR.failed", c08pMR)
	}
	for _, x := range []struct{ proto, dir string }{{"bolt", xp + "bolt"}, {"boltv2", xp + "boltv2"}, {"dubbo", xp + "dubbo"},
		{"thrift", xp + "dubbothrift"}, {"tars", xp + "tars"}} {
		pkg, err := c08pLoad(x.dir)
		if err != nil {
			return "", err
		}
		u := c08pNewUnit(pkg, x.proto+"_")
		mr(u)
		fname, err := c08pCodecMatcher(x.dir)
		if err != nil {
			return "", err
		}
		fd, ok := pkg.funcs[fname]
		if !ok {
			return "", fmt.Errorf("%s: matcher %s not found", x.dir, fname)
		}
		if x.proto == "tars" {
			// TarsGo's TarsRequest (the module version of go.mod) is translated into the unit as well
			gm, err := os.ReadFile(filepath.Join(repo, "go.mod"))
			if err != nil {
				return "", err
			}
			mv := regexp.MustCompile(`github.com/TarsCloud/TarsGo\s+(v[^\s]+)`).FindSubmatch(gm)
			if mv == nil {
				return "", fmt.Errorf("TarsGo version not found in go.mod")
			}
			tdir := filepath.Join(c08pModCache(), "github.com", "!tars!cloud", "!tars!go@"+string(mv[1]), "tars", "protocol")
			tp, err := c08pLoad(tdir)
			if err != nil {
				return "", err
			}
			tp.label = "TarsGo " + string(mv[1]) + " tars/protocol"
			td, ok := tp.funcs["TarsRequest"]
			if !ok {
				return "", fmt.Errorf("TarsGo: TarsRequest not found")
			}
			u.extern["tarsprotocol.TarsRequest"] = &c08pFn{pkg: tp, key: "TarsRequest", decl: td}
			for n, v := range tp.consts {
				if strings.HasPrefix(n, "PACKAGE_") && v.Kind() == constant.Int {
					u.name("tarsprotocol."+n, v.ExactString(), c08pInt)
				}
			}
			// maxPackageLength is a package variable with a setter MOSN never calls (checked): its initial value
			ml, ok := tp.vars["maxPackageLength"].(*ast.BasicLit)
			if !ok {
				return "", fmt.Errorf("TarsGo: maxPackageLength is not initialised with a literal")
			}
			called := false
			filepath.Walk(filepath.Join(repo, "pkg"), func(p string, fi os.FileInfo, err error) error {
				if err == nil && !fi.IsDir() && strings.HasSuffix(p, ".go") && !strings.HasSuffix(p, "_test.go") {
					if b, err := os.ReadFile(p); err == nil && strings.Contains(string(b), "SetMaxPackageLength") {
						called = true
					}
				}
				return nil
			})
			if called {
				return "", fmt.Errorf("TarsGo SetMaxPackageLength is called somewhere in pkg/: maxPackageLength is not a constant")
			}
			u.name("maxPackageLength", ml.Value, c08pInt)
			srcs = append(srcs, "TarsGo "+string(mv[1])+" tars/protocol/tarsprotocol.go")
		}
		sig, err := u.translate(&c08pFn{pkg: pkg, key: fname, decl: fd})
		if err != nil {
			return "", err
		}
		if len(sig.params) != 1 || sig.params[0].ty != c08pBytes || sig.resultType() != c08pMR {
			return "", fmt.Errorf("%s: matcher %s does not have the shape func([]byte) api.MatchResult", x.dir, fname)
		}
		fmt.Fprintf(&extra, "/-- the matcher %s/codec.go ProtocolMatch() hands to the stream factory: `%s` -/\ndef %s_matcher (data : Bytes) : Chk MR := %s data\n",
			x.dir, fname, x.proto, sig.lean)
		units = append(units, u)
		srcs = append(srcs, x.dir+"/{codec,matcher}.go")
	}
	// stream/xprotocol/factory.go ProtocolMatch: how the matcher's MatchResult becomes nil / EAGAIN / FAILED
	xf, err := c08pXFactoryMap()
	if err != nil {
		return "", err
	}
	extra.WriteString(xf)
	srcs = append(srcs, "pkg/stream/xprotocol/factory.go")
	// HTTP/1 and HTTP/2 stream factories
	h2c, err := pkgConsts("pkg/module/http2")
	if err != nil {
		return "", err
	}
	for _, x := range []struct{ proto, dir string }{{"http1", "pkg/stream/http"}, {"http2", "pkg/stream/http2"}} {
		pkg, err := c08pLoad(x.dir)
		if err != nil {
			return "", err
		}
		u := c08pNewUnit(pkg, x.proto+"_")
		u.name("str.EAGAIN", "Err.again", c08pErr)
		u.name("str.FAILED", "Err.failed", c08pErr)
		if x.proto == "http2" {
			pv, ok := h2c["ClientPreface"]
			if !ok || pv.Kind() != constant.String {
				return "", fmt.Errorf("http2.ClientPreface not found")
			}
			u.pre = append(u.pre, fmt.Sprintf("/-- pkg/module/http2 const ClientPreface -/\ndef http2_ClientPreface : Bytes := %s\n", c08pBytesLit([]byte(constant.StringVal(pv)))))
			u.name("http2.ClientPreface", "http2_ClientPreface", c08pBytes)
		}
		fd, ok := pkg.funcs["StreamConnFactory.ProtocolMatch"]
		if !ok {
			return "", fmt.Errorf("%s: StreamConnFactory.ProtocolMatch not found", x.dir)
		}
		sig, err := u.translate(&c08pFn{pkg: pkg, key: "StreamConnFactory.ProtocolMatch", decl: fd})
		if err != nil {
			return "", err
		}
		if len(sig.params) != 2 || sig.params[0].ty != c08pBytes || sig.params[1].ty != c08pBytes || sig.resultType() != c08pErr {
			return "", fmt.Errorf("%s: ProtocolMatch does not have the shape func(ctx, string, []byte) error", x.dir)
		}
		fmt.Fprintf(&extra, "/-- %s StreamConnFactory.ProtocolMatch on the peeked bytes (nil = match, EAGAIN, FAILED) -/\ndef %s_matcher (magic : Bytes) : Chk Err := %s ([] : Bytes) magic\n",
			x.dir, x.proto, sig.lean)
		units = append(units, u)
		srcs = append(srcs, x.dir+"/stream.go")
	}
	return c08pModule("C08Matchers", srcs, units, extra.String()), nil
}

func genC08pH2Parse() (string, error) {
	pkg, err := c08pLoad("pkg/module/http2")
	if err != nil {
		return "", err
	}
	u := c08pNewUnit(pkg, "h2p_")
	u.name("io.ErrUnexpectedEOF", "Err.eof", c08pErr)
	u.newOf["fc.getDataFrame"] = "DataFrame"
	u.skipSel["checkValid"] = true
	u.opaqueT["frameCache"] = true
	// the dispatch table
	tbl, ok := pkg.vars["frameParsers"].(*ast.CompositeLit)
	if !ok {
		return "", fmt.Errorf("frameParsers is not a map literal")
	}
	type row struct {
		ty int64
		fn string
	}
	var rows []row
	for _, el := range tbl.Elts {
		kv, ok := el.(*ast.KeyValueExpr)
		if !ok {
			return "", fmt.Errorf("frameParsers: element")
		}
		cv, ok := pkg.consts[exprKey(kv.Key)]
		if !ok {
			return "", fmt.Errorf("frameParsers: key %s is not a constant", exprKey(kv.Key))
		}
		k, _ := constant.Int64Val(constant.ToInt(cv))
		id, ok := kv.Value.(*ast.Ident)
		if !ok {
			return "", fmt.Errorf("frameParsers: value of %s is not a function name", exprKey(kv.Key))
		}
		rows = append(rows, row{k, id.Name})
	}
	sort.Slice(rows, func(i, j int) bool { return rows[i].ty < rows[j].ty })
	// typeFrameParser: `if f := frameParsers[t]; f != nil { return f }; return parseUnknownFrame`
	tfp, ok := pkg.funcs["typeFrameParser"]
	if !ok {
		return "", fmt.Errorf("typeFrameParser not found")
	}
	if got := c08fSrc(tfp.Body); got != "{ if f := frameParsers[t]; f != nil { return f } return parseUnknownFrame }" {
		return "", fmt.Errorf("typeFrameParser has an unexpected body: %s", got)
	}
	var extra strings.Builder
	extra.WriteString("/-- `typeFrameParser(fh.Type)(fc, fh, payload)`: the frameParsers table, parseUnknownFrame for every other type -/\ndef h2p_parse (fh : FH) (payload : Bytes) : Chk (Frm × Err) :=\n")
	want := "(" + c08pFrm + " × " + c08pErr + ")"
	for _, r := range append(rows, row{-1, "parseUnknownFrame"}) {
		fd, ok := pkg.funcs[r.fn]
		if !ok {
			return "", fmt.Errorf("parser %s not found", r.fn)
		}
		sig, err := u.translate(&c08pFn{pkg: pkg, key: r.fn, decl: fd})
		if err != nil {
			return "", err
		}
		if len(sig.params) != 2 || sig.params[0].ty != c08pFH || sig.params[1].ty != c08pBytes || sig.resultType() != want {
			return "", fmt.Errorf("parser %s does not have the shape func(*frameCache, FrameHeader, []byte) (Frame, error)", r.fn)
		}
		if r.ty >= 0 {
			fmt.Fprintf(&extra, "  if fh.Typ = %d then %s fh payload else\n", r.ty, sig.lean)
		} else {
			fmt.Fprintf(&extra, "  %s fh payload\n", sig.lean)
		}
	}
	var tys []string
	for _, r := range rows {
		tys = append(tys, fmt.Sprint(r.ty))
	}
	fmt.Fprintf(&extra, "/-- the frame types of the frameParsers table -/\ndef h2p_knownTypes : List Int := [%s]\n", strings.Join(tys, ", "))
	for _, n := range []string{"FlagDataPadded", "FlagHeadersPadded", "FlagHeadersPriority", "FlagPushPromisePadded", "FlagSettingsAck",
		"FrameData", "FrameHeaders", "FramePriority", "FrameRSTStream", "FrameSettings", "FramePushPromise", "FramePing", "FrameGoAway",
		"FrameWindowUpdate", "FrameContinuation", "ErrCodeProtocol", "ErrCodeFrameSize", "ErrCodeFlowControl"} {
		v, err := intConst("pkg/module/http2", n)
		if err != nil {
			return "", err
		}
		fmt.Fprintf(&extra, "/-- pkg/module/http2 const %s -/\ndef h2p_%s : Int := %d\n", n, n, v)
	}
	return c08pModule("C08H2Parse", []string{"pkg/module/http2/frame.go"}, []*c08pUnit{u}, extra.String()), nil
}

// c08pXFactoryMap regenerates the result mapping of streamConnFactory.ProtocolMatch (closed shape):
//   if f.matcher == nil { return stream.FAILED }; result := f.matcher(magic);
//   switch result { case api.MatchX: return <nil | stream.EAGAIN | stream.FAILED> … }; return stream.FAILED
func c08pXFactoryMap() (string, error) {
	f, err := parse("pkg/stream/xprotocol/factory.go")
	if err != nil {
		return "", err
	}
	fd := findFunc(f, "streamConnFactory", "ProtocolMatch")
	if fd == nil || len(fd.Body.List) != 4 {
		return "", fmt.Errorf("xprotocol/factory.go: ProtocolMatch not found / not of the expected shape")
	}
	errOf := func(e ast.Expr) (string, bool) {
		switch exprKey(e) {
		case "nil":
			return "Err.nil", true
		case "stream.EAGAIN":
			return "Err.again", true
		case "stream.FAILED":
			return "Err.failed", true
		}
		return "", false
	}
	mrOf := map[string]string{"api.MatchSuccess": "MR.success", "api.MatchAgain": "MR.again", "api.MatchFailed": "MR.failed"}
	single := func(l []ast.Stmt) (string, bool) {
		if len(l) != 1 {
			return "", false
		}
		r, ok := l[0].(*ast.ReturnStmt)
		if !ok || len(r.Results) != 1 {
			return "", false
		}
		return errOf(r.Results[0])
	}
	ifs, ok := fd.Body.List[0].(*ast.IfStmt)
	if !ok || c08fSrc(ifs.Cond) != "f.matcher == nil" || ifs.Else != nil {
		return "", fmt.Errorf("xprotocol/factory.go ProtocolMatch: first statement is not `if f.matcher == nil`")
	}
	noM, ok := single(ifs.Body.List)
	if !ok {
		return "", fmt.Errorf("xprotocol/factory.go ProtocolMatch: nil-matcher branch")
	}
	if c08fSrc(fd.Body.List[1]) != "result := f.matcher(magic)" {
		return "", fmt.Errorf("xprotocol/factory.go ProtocolMatch: second statement is not `result := f.matcher(magic)`")
	}
	sw, ok := fd.Body.List[2].(*ast.SwitchStmt)
	if !ok || sw.Init != nil || exprKey(sw.Tag) != "result" {
		return "", fmt.Errorf("xprotocol/factory.go ProtocolMatch: third statement is not `switch result`")
	}
	def, ok := single(fd.Body.List[3:])
	if !ok {
		return "", fmt.Errorf("xprotocol/factory.go ProtocolMatch: final return")
	}
	var b strings.Builder
	b.WriteString("/-- pkg/stream/xprotocol/factory.go streamConnFactory.ProtocolMatch: the error a matcher's MatchResult is turned into -/\ndef xfactory_result (r : MR) : Err :=\n")
	for _, st := range sw.Body.List {
		cc := st.(*ast.CaseClause)
		e, ok := single(cc.Body)
		if !ok {
			return "", fmt.Errorf("xprotocol/factory.go ProtocolMatch: a case is not a single return of nil / EAGAIN / FAILED")
		}
		if cc.List == nil {
			def = e
			continue
		}
		for _, v := range cc.List {
			m, ok := mrOf[exprKey(v)]
			if !ok {
				return "", fmt.Errorf("xprotocol/factory.go ProtocolMatch: case value %s", exprKey(v))
			}
			fmt.Fprintf(&b, "  if r = %s then %s else\n", m, e)
		}
	}
	fmt.Fprintf(&b, "  %s\n/-- … and what a codec without a matcher answers -/\ndef xfactory_noMatcher : Err := %s\n", def, noM)
	return b.String(), nil
}
