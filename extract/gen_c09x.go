package main

// Gen/PoolDestroyMx.lean (C09 / C10, multiplex + HTTP/2 pools): the handlers of the xprotocol multiplex pool
// (pkg/stream/xprotocol/connpool_multiplex.go) and of the HTTP/2 pool (pkg/stream/http2/connpool.go) as STEP PROGRAMS in
// source order, helpers inlined, with the lock scopes: NewStream, OnDestroyStream, OnResetStream / onStreamReset,
// onConnectionEvent (close / connect timeout / connect failure), OnGoAway, deleteActiveClient and the gauge movements of a
// successful dial.  Every statement of these bodies must be recognised (a conserved-counter movement, a test with exactly
// the expected refusal, a lock, a pure statistics counter, logging, a local) — anything else is rejected.
//
// step codes
//   0 host request_active -1 | 1 cluster request_active -1 | 2 Requests().Decrease()
//   10 host request_active +1 | 11 cluster request_active +1 | 12 Requests().Increase()
//   20 host connection_active -1 | 21 cluster connection_active -1 | 22 host connection_active +1 | 23 cluster +1
//   6 `if goaway word set && no request on the connection { close }` | 7 `if no request on the connection { close }` | 8 close
//   28 load the slot's client | 29 slot index from the context (absent: refused) | 30 `client == nil` => ConnectionFailure
//   31 `!Requests().CanCreate()` => Overflow | 32 the stream is created on the client's connection | 33 state word != Connected => ConnectionFailure
//   35 `if held client has the go-away mark { deleteActiveClient }` | 36 `p.activeClient = nil` | 37 `if no client { dial }`
//   38 closeWithActiveReq = true | 39 `if p.activeClient == client { deleteActiveClient }`
//   40 pool mutex Lock | 41 pool mutex Unlock | 45 `state word == GoAway => skip the rest` | 46 `if slot still holds this client { Delete }`
//   47 the pool's client is added to the stream's listeners | 50 go-away word set | 51 state word := GoAway
//   48 `if the connection is closed { reset the stream; give back once; ConnectionFailure }` (after the listener is added)

import (
	"fmt"
	"go/ast"
	"go/token"
	"go/types"
	"regexp"
	"strings"
)

func init() { register("PoolDestroyMx", c09xGen) }

var c09xStats = regexp.MustCompile(`^host\.(HostStats\(\)|ClusterInfo\(\)\.Stats\(\))\.Upstream(Connection(Total|Close|LocalClose|RemoteClose|ConFail|LocalCloseWithActiveRequest|RemoteCloseWithActiveRequest)|Request(Timeout|FailureEject|LocalReset|RemoteReset|Total|PendingOverflow))\.Inc\(1\)$`)

var c09xSkip = regexp.MustCompile(`^(host := (p|ac\.pool|pool)\.Host\(\)|_ = variable\.Set\(ctx, types\.VariableUpstreamConnectionID, .*\)|atomic\.AddUint64\(&activeClient\.totalStream, 1\)|subProtocol := p\.connpool\.codec\.ProtocolName\(\)|activeClient := client\.\(\*activeClientMultiplex\)|verifMuxYield\(verifMuxSite(Tested|Placed), activeClient\)|end := &multiplexStreamEnd\{…\})$`)

func c09xNorm(s string) string {
	s = strings.ReplaceAll(s, "p.Host().", "host.")
	return s
}

// c09xS renders a statement as a string key.
func c09xS(s ast.Stmt) string {
	switch st := s.(type) {
	case *ast.ExprStmt:
		return c09xNorm(types.ExprString(st.X))
	case *ast.AssignStmt:
		var l, r []string
		for _, e := range st.Lhs {
			l = append(l, types.ExprString(e))
		}
		for _, e := range st.Rhs {
			if _, isLit := e.(*ast.CallExpr); isLit {
				if _, fl := e.(*ast.CallExpr).Fun.(*ast.FuncLit); fl {
					r = append(r, "func(){…}()")
					continue
				}
			}
			r = append(r, types.ExprString(e))
		}
		return c09xNorm(strings.Join(l, ", ") + " " + st.Tok.String() + " " + strings.Join(r, ", "))
	case *ast.ReturnStmt:
		var r []string
		for _, e := range st.Results {
			r = append(r, types.ExprString(e))
		}
		return strings.TrimSpace("return " + strings.Join(r, ", "))
	case *ast.DeferStmt:
		return "defer " + types.ExprString(st.Call)
	case *ast.IfStmt:
		return "if " + types.ExprString(st.Cond)
	}
	return fmt.Sprintf("?%T", s)
}

// c09xLoose: the codes of every leaf statement of s (through if / else / switch / block), source order; leaves must be
// conserved-counter movements, statistics counters, the closeWithActiveReq mark or logging.
func c09xLoose(s ast.Stmt, out *[]int) error {
	switch st := s.(type) {
	case nil:
		return nil
	case *ast.BlockStmt:
		for _, x := range st.List {
			if err := c09xLoose(x, out); err != nil {
				return err
			}
		}
		return nil
	case *ast.IfStmt:
		if st.Init != nil {
			return fmt.Errorf("if with init")
		}
		if err := c09xLoose(st.Body, out); err != nil {
			return err
		}
		return c09xLoose(st.Else, out)
	case *ast.SwitchStmt:
		if st.Init != nil {
			return fmt.Errorf("switch with init")
		}
		for _, cc := range st.Body.List {
			for _, x := range cc.(*ast.CaseClause).Body {
				if err := c09xLoose(x, out); err != nil {
					return err
				}
			}
		}
		return nil
	}
	k := c09xS(s)
	if code, ok := c09wMoves[k]; ok {
		*out = append(*out, code)
		return nil
	}
	if c09xStats.MatchString(k) || strings.HasPrefix(k, "log.DefaultLogger.") || k == "host := p.Host()" || k == "host := ac.pool.Host()" {
		return nil
	}
	if k == "ac.closeWithActiveReq = true" || k == "client.closeWithActiveReq = true" {
		*out = append(*out, 38)
		return nil
	}
	return fmt.Errorf("unsupported statement `%s`", k)
}

func c09xOnlyStats(s ast.Stmt) bool {
	var out []int
	return c09xLoose(s, &out) == nil && len(out) == 0
}

type c09xCtx struct {
	file  *ast.File
	plain map[string][]int // statement string -> codes
	ifs   map[string]func(st *ast.IfStmt) ([]int, error)
	calls map[string][2]string // call string -> receiver, method to inline
	depth int
}

// refusal: the body of a refusing test is statistics followed by exactly the expected return
func c09xRefusal(st *ast.IfStmt, ret string, code int) ([]int, error) {
	if st.Else != nil || st.Init != nil || len(st.Body.List) == 0 {
		return nil, fmt.Errorf("refusal test `%s` has an unexpected shape", types.ExprString(st.Cond))
	}
	n := len(st.Body.List)
	for _, x := range st.Body.List[:n-1] {
		if !c09xOnlyStats(x) {
			return nil, fmt.Errorf("refusal `%s`: unsupported statement `%s`", types.ExprString(st.Cond), c09xS(x))
		}
	}
	if c09xS(st.Body.List[n-1]) != ret {
		return nil, fmt.Errorf("refusal `%s` ends with `%s`, expected `%s`", types.ExprString(st.Cond), c09xS(st.Body.List[n-1]), ret)
	}
	return []int{code}, nil
}

// guarded: `if cond { <exactly body> }`
func c09xGuarded(st *ast.IfStmt, code int, body ...string) ([]int, error) {
	if st.Else != nil || st.Init != nil || len(st.Body.List) != len(body) {
		return nil, fmt.Errorf("`if %s` has an unexpected shape", types.ExprString(st.Cond))
	}
	for i, x := range st.Body.List {
		if c09xS(x) != body[i] {
			return nil, fmt.Errorf("`if %s`: statement `%s`, expected `%s`", types.ExprString(st.Cond), c09xS(x), body[i])
		}
	}
	return []int{code}, nil
}

func (x *c09xCtx) flat(l []ast.Stmt) ([]int, error) {
	if x.depth > 4 {
		return nil, fmt.Errorf("inlining too deep")
	}
	var out, deferred []int
	for idx, s := range l {
		k := c09xS(s)
		if codes, ok := x.plain[k]; ok {
			out = append(out, codes...)
			continue
		}
		if code, ok := c09wMoves[k]; ok {
			out = append(out, code)
			continue
		}
		if c09xStats.MatchString(k) || c09xSkip.MatchString(k) {
			continue
		}
		switch st := s.(type) {
		case *ast.DeclStmt:
			if gd, ok := st.Decl.(*ast.GenDecl); ok && gd.Tok == token.VAR {
				continue
			}
			return nil, fmt.Errorf("unsupported declaration")
		case *ast.DeferStmt:
			if strings.HasSuffix(k, "ux.Unlock()") {
				deferred = append(deferred, 41)
				continue
			}
			return nil, fmt.Errorf("unsupported `%s`", k)
		case *ast.ReturnStmt:
			if idx == len(l)-1 {
				continue
			}
			return nil, fmt.Errorf("`%s` is not the last statement", k)
		case *ast.ExprStmt:
			if strings.HasSuffix(k, "ux.Lock()") {
				out = append(out, 40)
				continue
			}
			if strings.HasSuffix(k, "ux.Unlock()") {
				out = append(out, 41)
				continue
			}
			if rm, ok := x.calls[k]; ok {
				fd := findFunc(x.file, rm[0], rm[1])
				if fd == nil {
					return nil, fmt.Errorf("%s.%s not found", rm[0], rm[1])
				}
				x.depth++
				in, err := x.flat(fd.Body.List)
				x.depth--
				if err != nil {
					return nil, fmt.Errorf("%s: %v", rm[1], err)
				}
				out = append(out, in...)
				continue
			}
			return nil, fmt.Errorf("unsupported call `%s`", k)
		case *ast.AssignStmt:
			// `v := func() T { … }()`: the body is inlined
			if len(st.Rhs) == 1 {
				if ce, ok := st.Rhs[0].(*ast.CallExpr); ok {
					if fl, ok := ce.Fun.(*ast.FuncLit); ok && len(ce.Args) == 0 {
						x.depth++
						in, err := x.flat(fl.Body.List)
						x.depth--
						if err != nil {
							return nil, err
						}
						out = append(out, in...)
						continue
					}
				}
			}
			return nil, fmt.Errorf("unsupported assignment `%s`", k)
		case *ast.IfStmt:
			cond := types.ExprString(st.Cond)
			if h, ok := x.ifs[cond]; ok {
				codes, err := h(st)
				if err != nil {
					return nil, err
				}
				out = append(out, codes...)
				continue
			}
			if strings.HasPrefix(cond, "log.DefaultLogger.") || c09xOnlyStats(st) {
				continue
			}
			return nil, fmt.Errorf("unsupported `if %s`", cond)
		case *ast.SwitchStmt:
			if c09xOnlyStats(st) {
				continue
			}
			return nil, fmt.Errorf("unsupported switch")
		default:
			return nil, fmt.Errorf("unsupported statement `%s`", k)
		}
	}
	return append(out, deferred...), nil
}

// c09xEventBranches: `if event.IsClose() {A} else if event == api.ConnectTimeout {B} else if event == api.ConnectFailed {C}`
func c09xEventBranches(fd *ast.FuncDecl) (pre []ast.Stmt, a, b, c *ast.BlockStmt, err error) {
	n := len(fd.Body.List)
	if n == 0 {
		return nil, nil, nil, nil, fmt.Errorf("empty handler")
	}
	top, ok := fd.Body.List[n-1].(*ast.IfStmt)
	if !ok || types.ExprString(top.Cond) != "event.IsClose()" {
		return nil, nil, nil, nil, fmt.Errorf("the handler does not end with `if event.IsClose()`")
	}
	e1, ok := top.Else.(*ast.IfStmt)
	if !ok || types.ExprString(e1.Cond) != "event == api.ConnectTimeout" {
		return nil, nil, nil, nil, fmt.Errorf("connect-timeout branch not found")
	}
	e2, ok := e1.Else.(*ast.IfStmt)
	if !ok || types.ExprString(e2.Cond) != "event == api.ConnectFailed" || e2.Else != nil {
		return nil, nil, nil, nil, fmt.Errorf("connect-failed branch not found")
	}
	return fd.Body.List[:n-1], top.Body, e1.Body, e2.Body, nil
}

// c09xListenerFirst: in newActiveClient, is the pool's client registered as connection event listener BEFORE the codec
// client is created (the codec client registers itself when it is created)? Decides who hears a close first.
func c09xListenerFirst(fd *ast.FuncDecl) (bool, error) {
	posL, posC := token.NoPos, token.NoPos
	ast.Inspect(fd.Body, func(n ast.Node) bool {
		if ce, ok := n.(*ast.CallExpr); ok {
			s := types.ExprString(ce)
			if strings.HasSuffix(s, "AddConnectionEventListener(ac)") && posL == token.NoPos {
				posL = ce.Pos()
			}
			if strings.Contains(s, "createStreamClient(") && posC == token.NoPos {
				posC = ce.Pos()
			}
		}
		return true
	})
	if posL == token.NoPos || posC == token.NoPos {
		return false, fmt.Errorf("listener registration / codec client creation not found in newActiveClient")
	}
	return posL < posC, nil
}

func c09xGen() (string, error) {
	const mxsrc = "pkg/stream/xprotocol/connpool_multiplex.go"
	const h2src = "pkg/stream/http2/connpool.go"
	var sb strings.Builder
	sb.WriteString(header("PoolDestroyMx", mxsrc, h2src, "pkg/stream/xprotocol/conn.go", "pkg/stream/http2/stream.go"))
	emit := func(name, doc string, l []int) { sb.WriteString(c09wList(name, doc, l)) }
	need := func(f *ast.File, recv, name string) (*ast.FuncDecl, error) {
		fd := findFunc(f, recv, name)
		if fd == nil {
			return nil, fmt.Errorf("%s.%s not found", recv, name)
		}
		return fd, nil
	}
	cf := "return host, nil, types.ConnectionFailure"
	ovf := "return host, nil, types.Overflow"

	// ---------------- multiplex pool
	{
		f, err := parse(mxsrc)
		if err != nil {
			return "", err
		}
		x := &c09xCtx{file: f}
		// NewStream
		x.plain = map[string][]int{
			"client, _ := p.activeClients[clientIdx].Load(subProtocol)":      {28},
			"streamEncoder = activeClient.codecClient.NewStream(ctx, receiver)": {32},
			"streamEncoder.GetStream().AddEventListener(activeClient)":       {47},
			"streamEncoder.GetStream().AddEventListener(end)":                {47},
		}
		x.ifs = map[string]func(st *ast.IfStmt) ([]int, error){
			"activeClient.host.Connection.State() == api.ConnClosed": func(st *ast.IfStmt) ([]int, error) {
				// 48: the connection is found closed after the pool listens: the stream is ended here, once, and refused
				if err := c09xOnceListener(f); err != nil {
					return nil, err
				}
				if st.Else != nil || st.Init != nil || len(st.Body.List) != 3 ||
					!strings.HasPrefix(c09xS(st.Body.List[0]), "streamEncoder.GetStream().ResetStream(types.Stream") ||
					c09xS(st.Body.List[1]) != "end.OnDestroyStream()" || c09xS(st.Body.List[2]) != cf {
					return nil, fmt.Errorf("NewStream: the closed-connection test after the listener has an unexpected shape")
				}
				return []int{48}, nil
			},
			"len(p.activeClients) > 1": func(st *ast.IfStmt) ([]int, error) {
				var out []int
				if err := c09xLooseSlot(st, &out); err != nil {
					return nil, err
				}
				return []int{29}, nil
			},
			"client == nil": func(st *ast.IfStmt) ([]int, error) { return c09xRefusal(st, cf, 30) },
			"atomic.LoadUint32(&activeClient.state) != Connected": func(st *ast.IfStmt) ([]int, error) {
				return c09xRefusal(st, cf, 33)
			},
			"!host.ClusterInfo().ResourceManager().Requests().CanCreate()": func(st *ast.IfStmt) ([]int, error) {
				return c09xRefusal(st, ovf, 31)
			},
			"receiver == nil": func(st *ast.IfStmt) ([]int, error) {
				// the one-way branch is Gen/PoolMuxMoves; here: it moves no conserved counter, the ordinary branch is flattened
				var ow []int
				if len(st.Body.List) != 1 || c09xS(st.Body.List[0]) != "streamEncoder = activeClient.codecClient.NewStream(ctx, nil)" {
					return nil, fmt.Errorf("one-way branch of NewStream not recognised")
				}
				_ = ow
				eb, ok := st.Else.(*ast.BlockStmt)
				if !ok {
					return nil, fmt.Errorf("NewStream: ordinary-request branch not found")
				}
				return x.flat(eb.List)
			},
		}
		ns, err := need(f, "poolMultiplex", "NewStream")
		if err != nil {
			return "", err
		}
		prog, err := x.flat(ns.Body.List)
		if err != nil {
			return "", fmt.Errorf("multiplex NewStream: %v", err)
		}
		emit("muxNewStreamProg", "poolMultiplex.NewStream (ordinary request), source order", prog)

		// OnDestroyStream
		x.plain = map[string][]int{}
		x.ifs = map[string]func(st *ast.IfStmt) ([]int, error){
			"atomic.LoadUint32(&ac.goaway) == GoAway && ac.codecClient.ActiveRequestsNum() == 0": func(st *ast.IfStmt) ([]int, error) {
				return c09xGuarded(st, 6, "ac.codecClient.Close()")
			},
		}
		ods, err := need(f, "activeClientMultiplex", "OnDestroyStream")
		if err != nil {
			return "", err
		}
		if prog, err = x.flat(ods.Body.List); err != nil {
			return "", fmt.Errorf("multiplex OnDestroyStream: %v", err)
		}
		emit("muxDestroyProg", "activeClientMultiplex.OnDestroyStream", prog)

		// OnResetStream
		ors, err := need(f, "activeClientMultiplex", "OnResetStream")
		if err != nil {
			return "", err
		}
		var rp []int
		if err := c09xLoose(ors.Body, &rp); err != nil {
			return "", fmt.Errorf("multiplex OnResetStream: %v", err)
		}
		emit("muxResetProg", "activeClientMultiplex.OnResetStream: every statement other than statistics counters (38 closeWithActiveReq mark)", rp)

		// OnGoAway
		x.plain = map[string][]int{
			"atomic.StoreUint32(&ac.goaway, GoAway)": {50},
			"atomic.StoreUint32(&ac.state, GoAway)":  {51},
		}
		x.ifs = map[string]func(st *ast.IfStmt) ([]int, error){
			"ac.codecClient.ActiveRequestsNum() == 0": func(st *ast.IfStmt) ([]int, error) {
				return c09xGuarded(st, 7, "ac.codecClient.Close()")
			},
		}
		oga, err := need(f, "activeClientMultiplex", "OnGoAway")
		if err != nil {
			return "", err
		}
		if prog, err = x.flat(oga.Body.List); err != nil {
			return "", fmt.Errorf("multiplex OnGoAway: %v", err)
		}
		emit("muxGoAwayProg", "activeClientMultiplex.OnGoAway", prog)

		// onConnectionEvent
		oev, err := need(f, "activeClientMultiplex", "OnEvent")
		if err != nil {
			return "", err
		}
		if len(oev.Body.List) != 1 || c09xS(oev.Body.List[0]) != "ac.pool.onConnectionEvent(ac, event)" {
			return "", fmt.Errorf("multiplex OnEvent does not just call onConnectionEvent")
		}
		ev, err := need(f, "poolMultiplex", "onConnectionEvent")
		if err != nil {
			return "", err
		}
		pre, a, b, c, err := c09xEventBranches(ev)
		if err != nil {
			return "", fmt.Errorf("multiplex onConnectionEvent: %v", err)
		}
		x.plain = map[string][]int{"ac.codecClient.Close()": {8}}
		x.ifs = map[string]func(st *ast.IfStmt) ([]int, error){
			"atomic.LoadUint32(&ac.state) != GoAway": func(st *ast.IfStmt) ([]int, error) {
				if st.Else != nil {
					return nil, fmt.Errorf("unexpected else")
				}
				y := &c09xCtx{file: f, plain: map[string][]int{}, ifs: map[string]func(st *ast.IfStmt) ([]int, error){}}
				// `if cur, ok := …Load(ac.subProtocol); ok && cur == ac { …Delete(ac.subProtocol) }`
				var out []int
				for _, s := range st.Body.List {
					if is, ok := s.(*ast.IfStmt); ok && is.Init != nil {
						if c09xS(is.Init) == "cur, ok := p.activeClients[ac.indexInPool].Load(ac.subProtocol)" && types.ExprString(is.Cond) == "ok && cur == ac" &&
							is.Else == nil && len(is.Body.List) == 1 && c09xS(is.Body.List[0]) == "p.activeClients[ac.indexInPool].Delete(ac.subProtocol)" {
							out = append(out, 46)
							continue
						}
						return nil, fmt.Errorf("slot deletion of the close handler not recognised")
					}
					in, err := y.flat([]ast.Stmt{s})
					if err != nil {
						return nil, err
					}
					out = append(out, in...)
				}
				return append([]int{45}, out...), nil
			},
		}
		if p0, err := x.flat(pre); err != nil || len(p0) != 0 {
			return "", fmt.Errorf("multiplex onConnectionEvent: statements before the event test: %v %v", p0, err)
		}
		pa, err := x.flat(a.List)
		if err != nil {
			return "", fmt.Errorf("multiplex onConnectionEvent (close): %v", err)
		}
		if n := len(a.List); n == 0 || c09xS(a.List[n-1]) != "if atomic.LoadUint32(&ac.state) != GoAway" {
			return "", fmt.Errorf("multiplex onConnectionEvent (close): the go-away test is not the last statement")
		}
		pb, err := x.flat(b.List)
		if err != nil {
			return "", fmt.Errorf("multiplex onConnectionEvent (connect timeout): %v", err)
		}
		pc, err := x.flat(c.List)
		if err != nil {
			return "", fmt.Errorf("multiplex onConnectionEvent (connect failed): %v", err)
		}
		emit("muxCloseProg", "poolMultiplex.onConnectionEvent, close branch", pa)
		emit("muxConnTimeoutProg", "poolMultiplex.onConnectionEvent, connect-timeout branch", pb)
		emit("muxConnFailProg", "poolMultiplex.onConnectionEvent, connect-failed branch", pc)

		dial, err := need(f, "poolMultiplex", "newActiveClient")
		if err != nil {
			return "", err
		}
		emit("muxDialMoves", "poolMultiplex.newActiveClient after a successful Connect: connection_active movements", c09wCollect(dial, 0, 23))
		lf, err := c09xListenerFirst(dial)
		if err != nil {
			return "", err
		}
		sb.WriteString(fmt.Sprintf("/-- newActiveClient registers the pool's client as connection event listener before the codec client exists -/\ndef muxPoolHearsFirst : Bool := %v\n", lf))
		vis, err := c09xPlaceVisible("pkg/stream/xprotocol/conn.go", "streamConn", "sc.clientStreams")
		if err != nil {
			return "", err
		}
		sb.WriteString(fmt.Sprintf("/-- xprotocol streamConn.NewStream puts the stream into the connection's stream table: a connection event can reset it before the pool listens -/\ndef muxPlaceVisible : Bool := %v\n", vis))
	}

	// ---------------- HTTP/2 pool
	{
		f, err := parse(h2src)
		if err != nil {
			return "", err
		}
		x := &c09xCtx{file: f}
		del := []string{"p.deleteActiveClient()"}
		x.plain = map[string][]int{
			"streamEncoder := activeClient.client.NewStream(ctx, responseDecoder)": {32},
			"streamEncoder.GetStream().AddEventListener(activeClient)":          {47},
			"_ = variable.Set(ctx, types.VariableUpstreamConnectionID, activeClient.client.ConnID())": {},
		}
		x.ifs = map[string]func(st *ast.IfStmt) ([]int, error){
			"p.activeClient != nil && atomic.LoadUint32(&p.activeClient.goaway) == 1": func(st *ast.IfStmt) ([]int, error) {
				return c09xGuarded(st, 35, del...)
			},
			"p.activeClient == nil": func(st *ast.IfStmt) ([]int, error) {
				return c09xGuarded(st, 37, "p.activeClient = newActiveClient(ctx, p)")
			},
			"activeClient == nil": func(st *ast.IfStmt) ([]int, error) { return c09xRefusal(st, cf, 30) },
			"!host.ClusterInfo().ResourceManager().Requests().CanCreate()": func(st *ast.IfStmt) ([]int, error) {
				return c09xRefusal(st, ovf, 31)
			},
		}
		ns, err := need(f, "connPool", "NewStream")
		if err != nil {
			return "", err
		}
		prog, err := x.flat(ns.Body.List)
		if err != nil {
			return "", fmt.Errorf("http2 NewStream: %v", err)
		}
		emit("h2NewStreamProg", "http2 connPool.NewStream, source order (40..41: under the pool's mutex)", prog)

		x.plain = map[string][]int{"p.activeClient = nil": {36}}
		x.ifs = map[string]func(st *ast.IfStmt) ([]int, error){}
		dac, err := need(f, "connPool", "deleteActiveClient")
		if err != nil {
			return "", err
		}
		if prog, err = x.flat(dac.Body.List); err != nil {
			return "", fmt.Errorf("http2 deleteActiveClient: %v", err)
		}
		emit("h2DeleteMoves", "http2 connPool.deleteActiveClient", prog)

		x.plain = map[string][]int{}
		x.calls = map[string][2]string{"ac.pool.onStreamDestroy(ac)": {"connPool", "onStreamDestroy"}}
		ods, err := need(f, "activeClient", "OnDestroyStream")
		if err != nil {
			return "", err
		}
		if prog, err = x.flat(ods.Body.List); err != nil {
			return "", fmt.Errorf("http2 OnDestroyStream: %v", err)
		}
		emit("h2DestroyProg", "http2 activeClient.OnDestroyStream (onStreamDestroy inlined)", prog)

		ors, err := need(f, "activeClient", "OnResetStream")
		if err != nil {
			return "", err
		}
		if len(ors.Body.List) != 1 || c09xS(ors.Body.List[0]) != "ac.pool.onStreamReset(ac, reason)" {
			return "", fmt.Errorf("http2 OnResetStream does not just call onStreamReset")
		}
		osr, err := need(f, "connPool", "onStreamReset")
		if err != nil {
			return "", err
		}
		var rp []int
		if err := c09xLoose(osr.Body, &rp); err != nil {
			return "", fmt.Errorf("http2 onStreamReset: %v", err)
		}
		emit("h2ResetProg", "http2 connPool.onStreamReset: every statement other than statistics counters (38 closeWithActiveReq mark)", rp)

		x.calls = nil
		x.plain = map[string][]int{"atomic.StoreUint32(&ac.goaway, 1)": {50}}
		oga, err := need(f, "activeClient", "OnGoAway")
		if err != nil {
			return "", err
		}
		if prog, err = x.flat(oga.Body.List); err != nil {
			return "", fmt.Errorf("http2 OnGoAway: %v", err)
		}
		emit("h2GoAwayProg", "http2 activeClient.OnGoAway", prog)

		oev, err := need(f, "activeClient", "OnEvent")
		if err != nil {
			return "", err
		}
		if len(oev.Body.List) != 1 || c09xS(oev.Body.List[0]) != "ac.pool.onConnectionEvent(ac, event)" {
			return "", fmt.Errorf("http2 OnEvent does not just call onConnectionEvent")
		}
		ev, err := need(f, "connPool", "onConnectionEvent")
		if err != nil {
			return "", err
		}
		pre, a, b, c, err := c09xEventBranches(ev)
		if err != nil {
			return "", fmt.Errorf("http2 onConnectionEvent: %v", err)
		}
		x.plain = map[string][]int{}
		x.ifs = map[string]func(st *ast.IfStmt) ([]int, error){
			"p.activeClient == client": func(st *ast.IfStmt) ([]int, error) { return c09xGuarded(st, 39, del...) },
		}
		if p0, err := x.flat(pre); err != nil || len(p0) != 0 {
			return "", fmt.Errorf("http2 onConnectionEvent: statements before the event test: %v %v", p0, err)
		}
		pa, err := x.flat(a.List)
		if err != nil {
			return "", fmt.Errorf("http2 onConnectionEvent (close): %v", err)
		}
		pb, err := x.flat(b.List)
		if err != nil {
			return "", fmt.Errorf("http2 onConnectionEvent (connect timeout): %v", err)
		}
		pc, err := x.flat(c.List)
		if err != nil {
			return "", fmt.Errorf("http2 onConnectionEvent (connect failed): %v", err)
		}
		emit("h2CloseProg", "http2 connPool.onConnectionEvent, close branch", pa)
		emit("h2ConnTimeoutProg", "http2 connPool.onConnectionEvent, connect-timeout branch", pb)
		emit("h2ConnFailProg", "http2 connPool.onConnectionEvent, connect-failed branch", pc)
		dial, err := need(f, "", "newActiveClient")
		if err != nil {
			return "", err
		}
		emit("h2DialMoves", "http2 newActiveClient after a successful Connect: connection_active movements", c09wCollect(dial, 0, 23))
		lf, err := c09xListenerFirst(dial)
		if err != nil {
			return "", err
		}
		sb.WriteString(fmt.Sprintf("/-- newActiveClient registers the pool's client as connection event listener before the codec client exists -/\ndef h2PoolHearsFirst : Bool := %v\n", lf))
		vis, err := c09xPlaceVisible("pkg/stream/http2/stream.go", "clientStreamConnection", "conn.streams")
		if err != nil {
			return "", err
		}
		sb.WriteString(fmt.Sprintf("/-- http2 clientStreamConnection.NewStream puts the stream into the connection's stream table (it does not: the stream is entered when its headers are sent) -/\ndef h2PlaceVisible : Bool := %v\n", vis))
	}
	sb.WriteString(footer("PoolDestroyMx"))
	return sb.String(), nil
}

// c09xOnceListener: multiplexStreamEnd passes OnResetStream on and OnDestroyStream on at most once (CAS on its done word).
func c09xOnceListener(f *ast.File) error {
	od := findFunc(f, "multiplexStreamEnd", "OnDestroyStream")
	or := findFunc(f, "multiplexStreamEnd", "OnResetStream")
	if od == nil || or == nil {
		return fmt.Errorf("multiplexStreamEnd.OnDestroyStream / OnResetStream not found")
	}
	if len(or.Body.List) != 1 || c09xS(or.Body.List[0]) != "e.ac.OnResetStream(reason)" {
		return fmt.Errorf("multiplexStreamEnd.OnResetStream does not just pass the reset on")
	}
	if len(od.Body.List) != 1 {
		return fmt.Errorf("multiplexStreamEnd.OnDestroyStream has an unexpected shape")
	}
	is, ok := od.Body.List[0].(*ast.IfStmt)
	if !ok || is.Init != nil || is.Else != nil || types.ExprString(is.Cond) != "atomic.CompareAndSwapUint32(&e.done, 0, 1)" ||
		len(is.Body.List) != 1 || c09xS(is.Body.List[0]) != "e.ac.OnDestroyStream()" {
		return fmt.Errorf("multiplexStreamEnd.OnDestroyStream is not `if CAS(&e.done, 0, 1) { e.ac.OnDestroyStream() }`")
	}
	return nil
}

// c09xPlaceVisible: does the NewStream of a client stream connection put the new stream into the connection's stream
// table (so that a connection event can reset it before the caller holds it)?
func c09xPlaceVisible(src, recv, table string) (bool, error) {
	f, err := parse(src)
	if err != nil {
		return false, err
	}
	fd := findFunc(f, recv, "NewStream")
	if fd == nil {
		return false, fmt.Errorf("%s: %s.NewStream not found", src, recv)
	}
	vis := false
	ast.Inspect(fd.Body, func(n ast.Node) bool {
		if as, ok := n.(*ast.AssignStmt); ok {
			for _, l := range as.Lhs {
				if ix, ok := l.(*ast.IndexExpr); ok && types.ExprString(ix.X) == table {
					vis = true
				}
			}
		}
		return true
	})
	return vis, nil
}

// c09xLooseSlot: the slot selection of the multiplex NewStream moves no conserved counter
func c09xLooseSlot(st *ast.IfStmt, out *[]int) error {
	bad := false
	ast.Inspect(st, func(n ast.Node) bool {
		if s, ok := n.(ast.Stmt); ok {
			if _, ok := c09wMoves[c09xS(s)]; ok {
				bad = true
			}
		}
		return true
	})
	if bad {
		return fmt.Errorf("slot selection moves a conserved counter")
	}
	return nil
}
