package main

// Gen/PoolMuxMoves.lean (C09 / C10, helpers prefixed c09e): WHICH conserved counters a pool call moves, read
// statement by statement off the Go text:
//   - poolMultiplex.NewStream after its admission test, separately for a one-way request (receiver == nil) and an
//     ordinary one: Requests().Increase(), the host / cluster upstream request_active gauges, AddEventListener;
//   - activeClientMultiplex.OnDestroyStream: what is given back.
// The walker is shared with gen_c09h2.go (HTTP/2 pool). Every statement must be one the walker reads (a movement of a
// tracked counter, the stream creation, a branch on the receiver) or one known not to touch them (other statistics,
// context variables, logging); anything else is rejected (translation-unsupported).

import (
	"fmt"
	"go/ast"
	"go/token"
	"go/types"
	"regexp"
	"strings"
)

func init() {
	register("PoolMuxMoves", genPoolMuxMoves)
}

// c09eMv: net movements of one call path.
type c09eMv struct {
	reqInc, reqDec       int
	host, cluster        int // upstream request_active gauges
	connHost, connClustr int // upstream connection_active gauges
	listens              int // AddEventListener(<pool client>) calls
	nils                 int // p.activeClient = nil
	creates              int // <client>.NewStream(ctx, …) calls
}

var (
	c09eReHostReq  = regexp.MustCompile(`^[\w.()]*HostStats\(\)\.UpstreamRequestActive\.(Inc|Dec)\(1\)$`)
	c09eReClusReq  = regexp.MustCompile(`^[\w.()]*ClusterInfo\(\)\.Stats\(\)\.UpstreamRequestActive\.(Inc|Dec)\(1\)$`)
	c09eReHostConn = regexp.MustCompile(`^[\w.()]*HostStats\(\)\.UpstreamConnectionActive\.(Inc|Dec)\(1\)$`)
	c09eReClusConn = regexp.MustCompile(`^[\w.()]*ClusterInfo\(\)\.Stats\(\)\.UpstreamConnectionActive\.(Inc|Dec)\(1\)$`)
	c09eReReq      = regexp.MustCompile(`^[\w.()]*ResourceManager\(\)\.Requests\(\)\.(Increase|Decrease)\(\)$`)
	c09eReListen   = regexp.MustCompile(`^\w+\.GetStream\(\)\.AddEventListener\(\w+\)$`)
	c09eReOtherSt  = regexp.MustCompile(`^[\w.()]*(HostStats\(\)|ClusterInfo\(\)\.Stats\(\))\.Upstream\w+\.Inc\(1\)$`)
	c09eReCreate   = regexp.MustCompile(`^\w+(\.\w+)?\.NewStream\(\w+, \w+\)$`)
)

// c09eTracked: the text mentions a conserved counter (or the listener registration) at all.
func c09eTracked(t string) bool {
	return strings.Contains(t, "UpstreamRequestActive") || strings.Contains(t, "UpstreamConnectionActive") ||
		strings.Contains(t, "Requests()") || strings.Contains(t, "AddEventListener") || strings.Contains(t, "activeClient = ") ||
		strings.Contains(t, "deleteActiveClient")
}

func c09eSign(m []string) int {
	if m[1] == "Inc" {
		return 1
	}
	return -1
}

// c09eCall classifies one call used as a statement. inline: functions of the same file whose body is walked in place.
func c09eCall(call *ast.CallExpr, mv *c09eMv, inline map[string]*ast.FuncDecl, depth int) error {
	t := types.ExprString(call)
	switch {
	case c09eReHostReq.MatchString(t):
		mv.host += c09eSign(c09eReHostReq.FindStringSubmatch(t))
	case c09eReClusReq.MatchString(t):
		mv.cluster += c09eSign(c09eReClusReq.FindStringSubmatch(t))
	case c09eReHostConn.MatchString(t):
		mv.connHost += c09eSign(c09eReHostConn.FindStringSubmatch(t))
	case c09eReClusConn.MatchString(t):
		mv.connClustr += c09eSign(c09eReClusConn.FindStringSubmatch(t))
	case c09eReReq.MatchString(t):
		if c09eReReq.FindStringSubmatch(t)[1] == "Increase" {
			mv.reqInc++
		} else {
			mv.reqDec++
		}
	case c09eReListen.MatchString(t):
		mv.listens++
	case c09eTracked(t) && inline[t] == nil:
		return fmt.Errorf("statement `%s` touches a conserved counter in a form that is not read", t)
	case inline[t] != nil:
		if depth > 2 {
			return fmt.Errorf("`%s`: nesting too deep", t)
		}
		return c09eWalk(inline[t].Body.List, nil, mv, inline, depth+1)
	case c09eReOtherSt.MatchString(t), strings.HasPrefix(t, "log."), strings.HasPrefix(t, "atomic.AddUint64(&"),
		strings.HasPrefix(t, "variable.Set("), t == "p.mux.Lock()", t == "p.mux.Unlock()", strings.HasPrefix(t, "verifMuxYield("):
		// other statistics, totals, context variables, logging, the pool mutex: not conserved quantities
	default:
		return fmt.Errorf("statement `%s` is not read", t)
	}
	return nil
}

// c09eQuiet: no tracked text anywhere below n (used for branches the walker does not follow: refusals, logging).
func c09eQuiet(n ast.Node) error {
	var err error
	ast.Inspect(n, func(m ast.Node) bool {
		switch x := m.(type) {
		case *ast.CallExpr:
			if t := types.ExprString(x); c09eTracked(t) && err == nil {
				err = fmt.Errorf("`%s` inside a branch that is not followed", t)
			}
		case *ast.AssignStmt:
			for _, l := range x.Lhs {
				if types.ExprString(l) == "p.activeClient" && err == nil {
					err = fmt.Errorf("assignment to p.activeClient inside a branch that is not followed")
				}
			}
		}
		return true
	})
	return err
}

// c09eRecvCond: is cond a test of the receiver parameter against nil? (+1: "receiver == nil", -1: "receiver != nil")
func c09eRecvCond(cond ast.Expr, recv string) int {
	b, ok := cond.(*ast.BinaryExpr)
	if !ok || recv == "" {
		return 0
	}
	l, r := types.ExprString(b.X), types.ExprString(b.Y)
	if !((l == recv && r == "nil") || (l == "nil" && r == recv)) {
		return 0
	}
	switch b.Op {
	case token.EQL:
		return 1
	case token.NEQ:
		return -1
	}
	return 0
}

// c09eWalk follows the straight-line statements of one call path. oneway: nil = the path does not depend on a
// receiver; otherwise the value of `receiver == nil` on this path (recvName = the parameter's name is taken from
// the inline map's "" entry … kept simple: the caller passes it through c09eRecv).
var c09eRecv string

func c09eWalk(stmts []ast.Stmt, oneway *bool, mv *c09eMv, inline map[string]*ast.FuncDecl, depth int) error {
	for _, s := range stmts {
		switch x := s.(type) {
		case *ast.ReturnStmt:
			return nil
		case *ast.DeclStmt:
			if err := c09eQuiet(x); err != nil {
				return err
			}
		case *ast.DeferStmt:
			if t := types.ExprString(x.Call); t != "p.mux.Unlock()" {
				return fmt.Errorf("defer `%s` is not read", t)
			}
		case *ast.ExprStmt:
			call, ok := x.X.(*ast.CallExpr)
			if !ok {
				return fmt.Errorf("expression statement %T is not read", x.X)
			}
			if err := c09eCall(call, mv, inline, depth); err != nil {
				return err
			}
		case *ast.AssignStmt:
			if len(x.Lhs) == 1 && len(x.Rhs) == 1 {
				l, r := types.ExprString(x.Lhs[0]), types.ExprString(x.Rhs[0])
				switch {
				case l == "p.activeClient" && r == "nil":
					mv.nils++
					continue
				case c09eReCreate.MatchString(r) && !c09eTracked(l):
					mv.creates++
					continue
				case l == "_" && strings.HasPrefix(r, "variable.Set("):
					continue
				case (r == "p.Host()" || r == "ac.pool.Host()") && x.Tok == token.DEFINE:
					continue
				case l == "end" && r == "&multiplexStreamEnd{…}" && x.Tok == token.DEFINE:
					// the per-stream listener of the multiplex pool (its shape is read by Gen/PoolDestroyMx)
					continue
				}
			}
			return fmt.Errorf("assignment `%s` is not read", c09eStmtText(x))
		case *ast.IfStmt:
			k := c09eRecvCond(x.Cond, c09eRecv)
			if x.Init != nil {
				return fmt.Errorf("if with an init statement is not read")
			}
			if k != 0 && oneway != nil {
				take := (k == 1) == *oneway
				var body []ast.Stmt
				if take {
					body = x.Body.List
				} else if eb, ok := x.Else.(*ast.BlockStmt); ok {
					body = eb.List
				} else if x.Else != nil {
					return fmt.Errorf("else-if after the receiver test is not read")
				}
				if err := c09eWalk(body, oneway, mv, inline, depth); err != nil {
					return err
				}
				if take && endsInReturn(x.Body.List) {
					return nil
				}
				if !take {
					if eb, ok := x.Else.(*ast.BlockStmt); ok && endsInReturn(eb.List) {
						return nil
					}
				}
				continue
			}
			// any other branch must not touch what is tracked
			if err := c09eQuiet(x); err != nil {
				return err
			}
		default:
			return fmt.Errorf("statement %T is not read", s)
		}
	}
	return nil
}

func c09eStmtText(a *ast.AssignStmt) string {
	var l, r []string
	for _, e := range a.Lhs {
		l = append(l, types.ExprString(e))
	}
	for _, e := range a.Rhs {
		r = append(r, types.ExprString(e))
	}
	return strings.Join(l, ", ") + " " + a.Tok.String() + " " + strings.Join(r, ", ")
}

// c09eAfterAdmission returns the statements of body that follow the `if !…Requests().CanCreate() { …; return …Overflow }`
// statement (a direct statement of the body), and checks that the refusing branch itself moves nothing.
func c09eAfterAdmission(body *ast.BlockStmt) ([]ast.Stmt, []ast.Stmt, error) {
	for i, s := range body.List {
		is, ok := s.(*ast.IfStmt)
		if !ok || !strings.HasSuffix(types.ExprString(is.Cond), "Requests().CanCreate()") || !strings.HasPrefix(types.ExprString(is.Cond), "!") {
			continue
		}
		if !endsInReturn(is.Body.List) || is.Else != nil {
			return nil, nil, fmt.Errorf("admission test: the refusing branch does not return")
		}
		r := is.Body.List[len(is.Body.List)-1].(*ast.ReturnStmt)
		if len(r.Results) != 3 || types.ExprString(r.Results[2]) != "types.Overflow" {
			return nil, nil, fmt.Errorf("admission test: the refusing branch does not return types.Overflow")
		}
		var mv c09eMv
		if err := c09eWalk(is.Body.List, nil, &mv, nil, 0); err != nil {
			return nil, nil, fmt.Errorf("admission test, refusing branch: %v", err)
		}
		if mv != (c09eMv{}) {
			return nil, nil, fmt.Errorf("admission test: the refusing branch moves a conserved counter")
		}
		return body.List[:i], body.List[i+1:], nil
	}
	return nil, nil, fmt.Errorf("admission test `if !…Requests().CanCreate()` not found among the statements of the function")
}

func c09eRecvParam(fd *ast.FuncDecl) string {
	for _, p := range fd.Type.Params.List {
		if types.ExprString(p.Type) == "types.StreamReceiveListener" && len(p.Names) == 1 {
			return p.Names[0].Name
		}
	}
	return ""
}

func (m c09eMv) lean(structName string) string {
	return fmt.Sprintf("({ reqInc := %d, reqDec := %d, host := %d, cluster := %d, listens := %v } : %s)",
		m.reqInc, m.reqDec, m.host, m.cluster, m.listens > 0, structName)
}

const c09eMovesStruct = `/-- what one call path does to the conserved request counters -/
structure %s where
  reqInc  : Nat    -- Requests().Increase() calls
  reqDec  : Nat    -- Requests().Decrease() calls
  host    : Int    -- net movement of the host's upstream request_active gauge
  cluster : Int    -- net movement of the cluster's upstream request_active gauge
  listens : Bool   -- the pool's client is registered as a listener of the stream (its OnDestroyStream gives back)
  deriving DecidableEq, Repr
`

// c09eLeasePaths walks the statements after the admission test for an ordinary and for a one-way request.
func c09eLeasePaths(fd *ast.FuncDecl, after []ast.Stmt) (two, one c09eMv, err error) {
	c09eRecv = c09eRecvParam(fd)
	if c09eRecv == "" {
		return two, one, fmt.Errorf("%s: receiver parameter not found", fd.Name.Name)
	}
	f, t := false, true
	if err = c09eWalk(after, &f, &two, nil, 0); err != nil {
		return two, one, fmt.Errorf("%s (ordinary request): %v", fd.Name.Name, err)
	}
	if err = c09eWalk(after, &t, &one, nil, 0); err != nil {
		return two, one, fmt.Errorf("%s (one-way request): %v", fd.Name.Name, err)
	}
	for _, m := range []c09eMv{two, one} {
		if m.creates != 1 {
			return two, one, fmt.Errorf("%s: %d stream creations on one path", fd.Name.Name, m.creates)
		}
		if m.connHost != 0 || m.connClustr != 0 || m.nils != 0 {
			return two, one, fmt.Errorf("%s: connection books moved after the admission test", fd.Name.Name)
		}
	}
	return two, one, nil
}

func genPoolMuxMoves() (string, error) {
	const src = "pkg/stream/xprotocol/connpool_multiplex.go"
	f, err := parse(src)
	if err != nil {
		return "", err
	}
	var sb strings.Builder
	sb.WriteString(header("PoolMuxMoves", src))
	fmt.Fprintf(&sb, c09eMovesStruct, "Moves")
	ns := findFunc(f, "poolMultiplex", "NewStream")
	od := findFunc(f, "activeClientMultiplex", "OnDestroyStream")
	if ns == nil || od == nil {
		return "", fmt.Errorf("NewStream / OnDestroyStream not found")
	}
	before, after, err := c09eAfterAdmission(ns.Body)
	if err != nil {
		return "", fmt.Errorf("NewStream: %v", err)
	}
	// nothing conserved moves before the admission test
	var pre c09eMv
	for _, s := range before {
		if err := c09eQuiet(s); err != nil {
			return "", fmt.Errorf("NewStream, before the admission test: %v", err)
		}
	}
	_ = pre
	two, one, err := c09eLeasePaths(ns, after)
	if err != nil {
		return "", err
	}
	fmt.Fprintf(&sb, "/-- poolMultiplex.NewStream once the request is admitted: what moves for a one-way request (receiver == nil) and for an ordinary one -/\ndef muxLeaseMoves (oneway : Bool) : Moves :=\n  if oneway then %s\n  else %s\n", one.lean("Moves"), two.lean("Moves"))
	// OnDestroyStream: the movements, then the close test (read by Gen/PoolMux)
	var dm c09eMv
	c09eRecv = ""
	var stmts []ast.Stmt
	for _, s := range od.Body.List {
		if is, ok := s.(*ast.IfStmt); ok && strings.Contains(types.ExprString(is.Cond), "ActiveRequestsNum()") {
			if err := c09eQuiet(is); err != nil {
				return "", fmt.Errorf("OnDestroyStream: %v", err)
			}
			continue
		}
		stmts = append(stmts, s)
	}
	if err := c09eWalk(stmts, nil, &dm, nil, 0); err != nil {
		return "", fmt.Errorf("OnDestroyStream: %v", err)
	}
	if dm.creates != 0 || dm.listens != 0 || dm.connHost != 0 || dm.connClustr != 0 || dm.nils != 0 {
		return "", fmt.Errorf("OnDestroyStream: unexpected movement")
	}
	fmt.Fprintf(&sb, "/-- activeClientMultiplex.OnDestroyStream: what a destroyed stream gives back -/\ndef muxDestroyMoves : Moves :=\n  %s\n", dm.lean("Moves"))
	sb.WriteString(footer("PoolMuxMoves"))
	return sb.String(), nil
}
