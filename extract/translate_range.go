package main

// Search loops: the only supported `for … range` form is
//     for _, v := range XS { if COND { return R } }
// rendered as `if (XS.any (fun v => COND)) then R else <rest>` (XS must be an env-mapped list, COND pure).

import (
	"fmt"
	"go/ast"
)

func (env *Env) rangeAny(x *ast.RangeStmt, rest []ast.Stmt, ind string) (string, error) {
	if k, ok := x.Key.(*ast.Ident); x.Key != nil && (!ok || k.Name != "_") {
		return "", fmt.Errorf("range with a key variable")
	}
	v, ok := x.Value.(*ast.Ident)
	if !ok {
		return "", fmt.Errorf("range without a value variable")
	}
	xs, err := env.expr(x.X)
	if err != nil {
		return "", err
	}
	if len(x.Body.List) != 1 {
		return "", fmt.Errorf("range body is not a single if")
	}
	is, ok := x.Body.List[0].(*ast.IfStmt)
	if !ok || is.Init != nil || is.Else != nil || len(is.Body.List) != 1 {
		return "", fmt.Errorf("range body is not `if cond { return r }`")
	}
	ret, ok := is.Body.List[0].(*ast.ReturnStmt)
	if !ok {
		return "", fmt.Errorf("range body is not `if cond { return r }`")
	}
	saved := copyNames(env.Names)
	env.Names[v.Name] = v.Name
	c, err := env.expr(is.Cond)
	if err != nil {
		env.Names = saved
		return "", err
	}
	r, err := env.block([]ast.Stmt{ret}, ind+"  ")
	env.Names = saved
	if err != nil {
		return "", err
	}
	k, err := env.block(rest, ind+"  ")
	if err != nil {
		return "", err
	}
	return "if (" + xs + ".any (fun " + v.Name + " => " + c + ")) then\n" + ind + "  " + r + "\n" + ind + "else\n" + ind + "  " + k, nil
}
