-- translation-unsupported C01HttpUri: open -out/pkg/stream/http/stream.go: no such file or directory
namespace MosnVerif.Gen.C01HttpUri
end MosnVerif.Gen.C01HttpUri
