-- translation-unsupported RetryState: open -out/pkg/proxy/retrystate.go: no such file or directory
namespace MosnVerif.Gen.RetryState
end MosnVerif.Gen.RetryState
