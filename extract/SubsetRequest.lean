-- translation-unsupported SubsetRequest: open -out/pkg/proxy/downstream.go: no such file or directory
namespace MosnVerif.Gen.SubsetRequest
end MosnVerif.Gen.SubsetRequest
