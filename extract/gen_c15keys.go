package main

// Gen/SubsetKeys.lean for C15: GenerateSubsetKeys (pkg/upstream/cluster/subset_loadbalancer.go) translated statement by
// statement from the Go AST.  The function builds LbSubsetInfo.SubsetKeys from the configured subset_selectors: every
// selector is normalised by types.InitSet (a parameter here: modelled and proved in Model/Subset), a selector equal to an
// earlier one is dropped.  What is regenerated is HOW duplicates are recognised (the comparison of the sorted key lists
// as written, or whatever replaces it: a seen-map keyed by an expression over the keys is translated as well) and WHEN
// the normalised selector is appended.
//
// Modelling: a types.SortedStringSetType is its key list (`x.Keys()` is `x`); `[]T` grown by append is a List;
// `map[string]bool` / `map[string]struct{}` is the list of the keys stored; reflect.DeepEqual of two key lists is `==`;
// strings.Join is String.intercalate.  The loop body becomes `step`, the loop a left fold over the selectors.
// Anything else => translation-unsupported (the proofs importing this module no longer build).

import (
	"fmt"
	"go/ast"
	"go/token"
	"strings"
)

func init() { register("SubsetKeys", genSubsetKeys) }

type c15kEnv struct {
	state  []string          // state variables (declared before the loop), in declaration order
	kind   map[string]string // variable -> "list" | "set" | "bool" | "val"
	result string            // the returned state variable
}

func (env *c15kEnv) tuple() string {
	if len(env.state) == 1 {
		return env.state[0]
	}
	return "(" + strings.Join(env.state, ", ") + ")"
}

func c15kIsCall(e ast.Expr, name string, nargs int) (*ast.CallExpr, bool) {
	c, ok := e.(*ast.CallExpr)
	if !ok || exprKey(c.Fun) != name || len(c.Args) != nargs {
		return nil, false
	}
	return c, true
}

func (env *c15kEnv) expr(e ast.Expr) (string, error) {
	switch x := e.(type) {
	case *ast.ParenExpr:
		return env.expr(x.X)
	case *ast.BasicLit:
		if x.Kind == token.STRING && strings.HasPrefix(x.Value, "\"") {
			return x.Value, nil
		}
	case *ast.Ident:
		if x.Name == "true" || x.Name == "false" {
			return x.Name, nil
		}
		if _, ok := env.kind[x.Name]; ok {
			return x.Name, nil
		}
		return "", fmt.Errorf("unknown identifier %s", x.Name)
	case *ast.UnaryExpr:
		if x.Op == token.NOT {
			s, err := env.expr(x.X)
			return "(!" + s + ")", err
		}
	case *ast.IndexExpr: // seen[key] on a map[string]bool whose stored values are all `true`
		if id, ok := x.X.(*ast.Ident); ok && env.kind[id.Name] == "set" {
			k, err := env.expr(x.Index)
			return "(" + id.Name + ".contains " + k + ")", err
		}
	case *ast.BinaryExpr:
		l, err := env.expr(x.X)
		if err != nil {
			return "", err
		}
		r, err := env.expr(x.Y)
		if err != nil {
			return "", err
		}
		switch x.Op {
		case token.LAND:
			return "(" + l + " && " + r + ")", nil
		case token.LOR:
			return "(" + l + " || " + r + ")", nil
		case token.EQL:
			return "(" + l + " == " + r + ")", nil
		case token.NEQ:
			return "(!(" + l + " == " + r + "))", nil
		case token.ADD: // string concatenation
			return "(" + l + " ++ " + r + ")", nil
		}
	case *ast.CallExpr:
		if c, ok := c15kIsCall(x, "types.InitSet", 1); ok {
			a, err := env.expr(c.Args[0])
			return "(initSet " + a + ")", err
		}
		if c, ok := c15kIsCall(x, "reflect.DeepEqual", 2); ok {
			a, err := env.expr(c.Args[0])
			if err != nil {
				return "", err
			}
			b, err := env.expr(c.Args[1])
			return "(" + a + " == " + b + ")", err
		}
		if c, ok := c15kIsCall(x, "strings.Join", 2); ok {
			a, err := env.expr(c.Args[0])
			if err != nil {
				return "", err
			}
			b, err := env.expr(c.Args[1])
			return "(String.intercalate " + b + " " + a + ")", err
		}
		// x.Keys(): a sorted string set is its key list
		if sel, ok := x.Fun.(*ast.SelectorExpr); ok && sel.Sel.Name == "Keys" && len(x.Args) == 0 {
			return env.expr(sel.X)
		}
		return "", fmt.Errorf("unsupported call %s", exprKey(x.Fun))
	}
	return "", fmt.Errorf("unsupported expression %s", c15print(e))
}

// inner translates the body of an inner `for _, v := range L` that only assigns the boolean local `b`: the value of
// `b` after one iteration.  `break` is accepted after a constant assignment only (then stopping early changes nothing).
func (env *c15kEnv) inner(stmts []ast.Stmt, b string) (string, error) {
	if len(stmts) == 0 {
		return b, nil
	}
	switch s := stmts[0].(type) {
	case *ast.IfStmt:
		if s.Init != nil || s.Else != nil {
			return "", fmt.Errorf("inner loop: if with init/else")
		}
		c, err := env.expr(s.Cond)
		if err != nil {
			return "", err
		}
		body := s.Body.List
		if len(body) == 2 {
			if br, ok := body[1].(*ast.BranchStmt); ok && br.Tok == token.BREAK {
				body = body[:1]
			}
		}
		if len(body) != 1 {
			return "", fmt.Errorf("inner loop: unsupported if body")
		}
		as, ok := body[0].(*ast.AssignStmt)
		if !ok || as.Tok != token.ASSIGN || len(as.Lhs) != 1 || exprKey(as.Lhs[0]) != b {
			return "", fmt.Errorf("inner loop: only assignments to %s", b)
		}
		v := exprKey(as.Rhs[0])
		if v != "true" && v != "false" {
			return "", fmt.Errorf("inner loop: non-constant assignment")
		}
		rest, err := env.inner(stmts[1:], b)
		if err != nil {
			return "", err
		}
		if len(stmts) > 1 {
			return "(let " + b + " := (if " + c + " then " + v + " else " + b + "); " + rest + ")", nil
		}
		return "(if " + c + " then " + v + " else " + b + ")", nil
	}
	return "", fmt.Errorf("inner loop: unsupported statement %T", stmts[0])
}

// stmts translates the rest of the loop body into the state after this iteration (continuation style: an `if` whose
// branch ends in `continue` leaves the state as it is at that point).
func (env *c15kEnv) stmts(list []ast.Stmt, ind string) (string, error) {
	if len(list) == 0 {
		return ind + env.tuple(), nil
	}
	rest := func() (string, error) { return env.stmts(list[1:], ind) }
	switch s := list[0].(type) {
	case *ast.BranchStmt:
		if s.Tok == token.CONTINUE && s.Label == nil {
			return ind + env.tuple(), nil
		}
	case *ast.AssignStmt:
		if len(s.Lhs) != 1 || len(s.Rhs) != 1 {
			break
		}
		// m[k] = true / struct{}{}
		if ix, ok := s.Lhs[0].(*ast.IndexExpr); ok && s.Tok == token.ASSIGN {
			id, ok := ix.X.(*ast.Ident)
			v := exprKey(s.Rhs[0])
			if !ok || env.kind[id.Name] != "set" || (v != "true" && !strings.HasPrefix(c15print(s.Rhs[0]), "struct{}")) {
				return "", fmt.Errorf("unsupported map store %s", c15print(s.Lhs[0]))
			}
			k, err := env.expr(ix.Index)
			if err != nil {
				return "", err
			}
			r, err := rest()
			return ind + "let " + id.Name + " := " + id.Name + " ++ [" + k + "]\n" + r, err
		}
		id, ok := s.Lhs[0].(*ast.Ident)
		if !ok {
			break
		}
		// s = append(s, e)
		if c, ok := c15kIsCall(s.Rhs[0], "append", 2); ok && s.Tok == token.ASSIGN && env.kind[id.Name] == "list" &&
			exprKey(c.Args[0]) == id.Name {
			e, err := env.expr(c.Args[1])
			if err != nil {
				return "", err
			}
			r, err := rest()
			return ind + "let " + id.Name + " := " + id.Name + " ++ [" + e + "]\n" + r, err
		}
		e, err := env.expr(s.Rhs[0])
		if err != nil {
			return "", err
		}
		if s.Tok == token.DEFINE {
			if _, dup := env.kind[id.Name]; dup {
				return "", fmt.Errorf("redeclared %s", id.Name)
			}
			k := "val"
			if e == "true" || e == "false" {
				k = "bool"
			}
			env.kind[id.Name] = k
		} else if s.Tok != token.ASSIGN || (env.kind[id.Name] != "bool" && env.kind[id.Name] != "val") {
			return "", fmt.Errorf("unsupported assignment to %s", id.Name)
		}
		r, err := rest()
		return ind + "let " + id.Name + " := " + e + "\n" + r, err
	case *ast.RangeStmt:
		// for _, v := range L { if C { b = true } }
		v, ok := s.Value.(*ast.Ident)
		if !ok || (s.Key != nil && exprKey(s.Key) != "_") || s.Tok != token.DEFINE {
			return "", fmt.Errorf("inner loop: unsupported range clause")
		}
		l, err := env.expr(s.X)
		if err != nil {
			return "", err
		}
		b := ""
		ast.Inspect(s.Body, func(n ast.Node) bool {
			if as, ok := n.(*ast.AssignStmt); ok && b == "" {
				b = exprKey(as.Lhs[0])
			}
			return true
		})
		if env.kind[b] != "bool" {
			return "", fmt.Errorf("inner loop assigns %q, not a boolean local", b)
		}
		if _, dup := env.kind[v.Name]; dup {
			return "", fmt.Errorf("redeclared %s", v.Name)
		}
		env.kind[v.Name] = "val"
		body, err := env.inner(s.Body.List, b)
		delete(env.kind, v.Name)
		if err != nil {
			return "", err
		}
		r, err := rest()
		return ind + "let " + b + " := " + l + ".foldl (fun " + b + " " + v.Name + " => " + body + ") " + b + "\n" + r, err
	case *ast.IfStmt:
		pre := ""
		if s.Init != nil {
			// if _, ok := m[k]; ok
			as, ok := s.Init.(*ast.AssignStmt)
			if !ok || as.Tok != token.DEFINE || len(as.Lhs) != 2 || len(as.Rhs) != 1 || exprKey(as.Lhs[0]) != "_" {
				return "", fmt.Errorf("unsupported if-init")
			}
			ix, ok := as.Rhs[0].(*ast.IndexExpr)
			okv, ok2 := as.Lhs[1].(*ast.Ident)
			if !ok || !ok2 || env.kind[exprKey(ix.X)] != "set" {
				return "", fmt.Errorf("unsupported if-init")
			}
			k, err := env.expr(ix.Index)
			if err != nil {
				return "", err
			}
			env.kind[okv.Name] = "bool"
			pre = ind + "let " + okv.Name + " := " + exprKey(ix.X) + ".contains " + k + "\n"
		}
		c, err := env.expr(s.Cond)
		if err != nil {
			return "", err
		}
		var els []ast.Stmt
		if s.Else != nil {
			b, ok := s.Else.(*ast.BlockStmt)
			if !ok {
				return "", fmt.Errorf("else-if")
			}
			els = b.List
		}
		saved := map[string]string{}
		for k, v := range env.kind {
			saved[k] = v
		}
		thn, err := env.stmts(append(append([]ast.Stmt{}, s.Body.List...), list[1:]...), ind+"  ")
		if err != nil {
			return "", err
		}
		env.kind = saved
		saved2 := map[string]string{}
		for k, v := range env.kind {
			saved2[k] = v
		}
		el, err := env.stmts(append(append([]ast.Stmt{}, els...), list[1:]...), ind+"  ")
		env.kind = saved2
		if err != nil {
			return "", err
		}
		return pre + ind + "if " + c + " then\n" + thn + "\n" + ind + "else\n" + el, nil
	}
	return "", fmt.Errorf("unsupported statement %T at %s", list[0], fset.Position(list[0].Pos()))
}

func genSubsetKeys() (string, error) {
	f, err := parse(c15lb)
	if err != nil {
		return "", err
	}
	fd := findFunc(f, "", "GenerateSubsetKeys")
	if fd == nil || fd.Body == nil || len(fd.Type.Params.List) != 1 || len(fd.Type.Params.List[0].Names) != 1 {
		return "", fmt.Errorf("func GenerateSubsetKeys(keysArray [][]string) not found")
	}
	arg := fd.Type.Params.List[0].Names[0].Name
	env := &c15kEnv{kind: map[string]string{}}
	var loop *ast.RangeStmt
	for i, st := range fd.Body.List {
		switch s := st.(type) {
		case *ast.DeclStmt: // var subSetKeys []T
			gd, ok := s.Decl.(*ast.GenDecl)
			if !ok || gd.Tok != token.VAR || len(gd.Specs) != 1 {
				return "", fmt.Errorf("unsupported declaration")
			}
			vs := gd.Specs[0].(*ast.ValueSpec)
			if _, ok := vs.Type.(*ast.ArrayType); !ok || len(vs.Names) != 1 || len(vs.Values) != 0 {
				return "", fmt.Errorf("unsupported declaration")
			}
			env.state = append(env.state, vs.Names[0].Name)
			env.kind[vs.Names[0].Name] = "list"
		case *ast.AssignStmt: // seen := map[string]bool{} | make(map[string]bool[, n]) | x := []T{} | make([]T, 0[, n])
			if s.Tok != token.DEFINE || len(s.Lhs) != 1 || len(s.Rhs) != 1 {
				return "", fmt.Errorf("unsupported statement before the loop")
			}
			var t ast.Expr
			switch r := s.Rhs[0].(type) {
			case *ast.CompositeLit:
				if len(r.Elts) == 0 {
					t = r.Type
				}
			case *ast.CallExpr:
				if exprKey(r.Fun) == "make" && len(r.Args) >= 1 {
					_, isMap := r.Args[0].(*ast.MapType) // a map's size hint changes nothing; a slice must start empty
					if isMap || (len(r.Args) >= 2 && exprKey(r.Args[1]) == "0") {
						t = r.Args[0]
					}
				}
			}
			name := exprKey(s.Lhs[0])
			switch tt := t.(type) {
			case *ast.MapType:
				if exprKey(tt.Key) != "string" {
					return "", fmt.Errorf("map key type")
				}
				env.kind[name] = "set"
			case *ast.ArrayType:
				env.kind[name] = "list"
			default:
				return "", fmt.Errorf("unsupported initialiser of %s", name)
			}
			env.state = append(env.state, name)
		case *ast.RangeStmt:
			if loop != nil || exprKey(s.X) != arg || (s.Key != nil && exprKey(s.Key) != "_") || s.Value == nil {
				return "", fmt.Errorf("unsupported loop")
			}
			loop = s
		case *ast.ReturnStmt:
			if i != len(fd.Body.List)-1 || len(s.Results) != 1 || env.kind[exprKey(s.Results[0])] != "list" || loop == nil {
				return "", fmt.Errorf("unsupported return")
			}
			env.result = exprKey(s.Results[0])
		default:
			return "", fmt.Errorf("unsupported statement %T", st)
		}
	}
	if loop == nil || env.result == "" {
		return "", fmt.Errorf("loop / return not found")
	}
	v := exprKey(loop.Value)
	env.kind[v] = "val"
	body, err := env.stmts(loop.Body.List, "  ")
	if err != nil {
		return "", err
	}
	// state type: lists of key lists / sets of strings
	var tys, inits []string
	proj := env.result
	for i, n := range env.state {
		if env.kind[n] == "set" {
			tys = append(tys, "List String")
		} else {
			tys = append(tys, "List (List String)")
		}
		inits = append(inits, "[]")
		if n == env.result && len(env.state) > 1 {
			proj = "st" + strings.Repeat(".2", i)
			if i < len(env.state)-1 {
				proj += ".1"
			}
		}
	}
	sty := strings.Join(tys, " × ")
	s := header("SubsetKeys", c15lb)
	s += "/-- the state `GenerateSubsetKeys` carries through its loop: " + strings.Join(env.state, ", ") + " -/\n"
	s += "abbrev State := " + sty + "\n"
	s += "/-- one iteration of `for _, " + v + " := range " + arg + "` -/\n"
	s += "def step (initSet : List String → List String) (st : State) (" + v + " : List String) : State :=\n"
	if len(env.state) == 1 {
		s += "  let " + env.state[0] + " := st\n"
	} else {
		s += "  let " + env.tuple() + " := st\n"
	}
	s += body + "\n"
	s += "/-- `GenerateSubsetKeys(" + arg + ")` -/\n"
	s += "def generateSubsetKeys (initSet : List String → List String) (" + arg + " : List (List String)) : List (List String) :=\n"
	if len(env.state) == 1 {
		s += "  " + arg + ".foldl (step initSet) []\n"
	} else {
		s += "  let st : State := " + arg + ".foldl (step initSet) (" + strings.Join(inits, ", ") + ")\n  " + proj + "\n"
	}
	return s + footer("SubsetKeys"), nil
}
