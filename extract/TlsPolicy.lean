-- translation-unsupported TlsPolicy: open -out/pkg/mtls/crypto/tls: no such file or directory
namespace MosnVerif.Gen.TlsPolicy
end MosnVerif.Gen.TlsPolicy
