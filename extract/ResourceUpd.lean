-- translation-unsupported ResourceUpd: open -out/pkg/upstream/cluster/resource_manager.go: no such file or directory
namespace MosnVerif.Gen.ResourceUpd
end MosnVerif.Gen.ResourceUpd
