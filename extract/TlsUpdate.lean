-- translation-unsupported TlsUpdate: open -out/pkg/server/handler.go: no such file or directory
namespace MosnVerif.Gen.TlsUpdate
end MosnVerif.Gen.TlsUpdate
