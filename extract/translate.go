package main

// A deliberately tiny Go -> Lean translator for straight-line integer/boolean decision code.
// Supported subset: identifiers, integer/bool/string literals, parentheses, unary - and !, binary
// + - * / % < <= > >= == != && ||, conversions int(x)/uintN(x)/intN(x) (identity: values are modelled as
// unbounded Int, recorded as an assumption per use), selector expressions mapped through `Env`,
// statements: assignment, define, if/else, return, inc/dec, and blocks of those.
// Anything else yields an error => "translation-unsupported" (a broken tie, never a crash).

import (
	"fmt"
	"go/ast"
	"go/token"
	"strings"
)

type Env struct {
	// Names maps Go expressions (printed, e.g. "weightCluster.clusterWeight" or "selectedValue") to Lean identifiers.
	Names map[string]string
	// Calls maps Go call heads (e.g. "int", "uint32") to Lean function names ("" = identity).
	Calls map[string]string
	// Ret renders a return statement's results to a Lean expression.
	Ret func(results []string) string
	// Fall is the Lean expression used when a block falls off its end.
	Fall string
	// OptCalls maps a Go call (printed with exprKey of the function and its args, e.g. "headers.Get(types.HeaderTryTimeout)")
	// used in `if v, ok := CALL; ok {` / `if v, err := CALL; err == nil {` to a Lean expression of type `Option _`.
	OptCalls map[string]string
	// Types, when non-nil, turns on type ascriptions on lets: the Lean type of a Lean variable name (default Int).
	// With Types == nil lets are emitted without ascription (the behaviour gen jobs written before typed lets rely on).
	Types map[string]string
	// SkipCalls lists call heads (exprKey of the called function, e.g. "r.cluster.Stats().UpstreamRequestRetry.Inc") whose
	// expression statements have no effect on the modelled state and are dropped. Any other expression statement is an error.
	SkipCalls map[string]bool
	// Arith (optional) renders an arithmetic operation "+ - * / %" on two rendered operands; nil = unbounded
	// `(l op r)`. Used for fixed-width integer semantics (e.g. int32: wrap the result).
	Arith func(op, l, r string) string
	// Panic (optional): Lean expression a statement `panic(...)` is rendered to (terminal); "" = unsupported.
	Panic string
}

func (env *Env) typeOf(v string) string {
	if t, ok := env.Types[v]; ok {
		return t
	}
	return "Int"
}

// asc renders " : T" for variable v when ascriptions are on.
func (env *Env) asc(v string) string {
	if env.Types == nil {
		return ""
	}
	return " : " + env.typeOf(v)
}

func (env *Env) arith(op, l, r string) string {
	if env.Arith != nil {
		return env.Arith(op, l, r)
	}
	return "(" + l + " " + op + " " + r + ")"
}

func exprKey(e ast.Expr) string {
	switch x := e.(type) {
	case *ast.Ident:
		return x.Name
	case *ast.SelectorExpr:
		return exprKey(x.X) + "." + x.Sel.Name
	case *ast.ParenExpr:
		return exprKey(x.X)
	case *ast.StarExpr:
		return "*" + exprKey(x.X)
	case *ast.UnaryExpr:
		return x.Op.String() + exprKey(x.X)
	case *ast.BasicLit:
		return x.Value
	case *ast.CallExpr:
		return callKey(x)
	}
	return fmt.Sprintf("?%T", e)
}

func (env *Env) expr(e ast.Expr) (string, error) {
	switch x := e.(type) {
	case *ast.ParenExpr:
		s, err := env.expr(x.X)
		return "(" + s + ")", err
	case *ast.BasicLit:
		switch x.Kind {
		case token.INT:
			return x.Value, nil
		case token.STRING:
			return x.Value, nil
		case token.FLOAT:
			// only integral float literals ("1.0"): rendered as the integer, typed by the Lean context (Rat)
			if strings.HasSuffix(x.Value, ".0") && strings.Trim(x.Value[:len(x.Value)-2], "0123456789") == "" && len(x.Value) > 2 {
				return x.Value[:len(x.Value)-2], nil
			}
		}
		return "", fmt.Errorf("literal kind %v", x.Kind)
	case *ast.Ident:
		if x.Name == "true" || x.Name == "false" {
			return x.Name, nil
		}
		if n, ok := env.Names[x.Name]; ok {
			return n, nil
		}
		return "", fmt.Errorf("unknown identifier %s", x.Name)
	case *ast.SelectorExpr:
		if n, ok := env.Names[exprKey(x)]; ok {
			return n, nil
		}
		return "", fmt.Errorf("unknown selector %s", exprKey(x))
	case *ast.UnaryExpr:
		if x.Op == token.AND {
			// address-of a named location (e.g. the operand of an atomic load), only when the caller names it
			if n, ok := env.Names[exprKey(x)]; ok {
				return n, nil
			}
			return "", fmt.Errorf("unsupported address-of %s", exprKey(x))
		}
		s, err := env.expr(x.X)
		if err != nil {
			return "", err
		}
		switch x.Op {
		case token.SUB:
			return "(-" + s + ")", nil
		case token.NOT:
			return "(!" + s + ")", nil
		}
		return "", fmt.Errorf("unary %v", x.Op)
	case *ast.BinaryExpr:
		l, err := env.expr(x.X)
		if err != nil {
			return "", err
		}
		r, err := env.expr(x.Y)
		if err != nil {
			return "", err
		}
		op := map[token.Token]string{
			token.ADD: "+", token.SUB: "-", token.MUL: "*", token.QUO: "/", token.REM: "%",
		}
		cmp := map[token.Token]string{
			token.LSS: "<", token.LEQ: "≤", token.GTR: ">", token.GEQ: "≥", token.EQL: "=", token.NEQ: "≠",
		}
		if o, ok := op[x.Op]; ok {
			return env.arith(o, l, r), nil
		}
		if o, ok := cmp[x.Op]; ok {
			return "(decide (" + l + " " + o + " " + r + "))", nil
		}
		switch x.Op {
		case token.LAND:
			return "(" + l + " && " + r + ")", nil
		case token.LOR:
			return "(" + l + " || " + r + ")", nil
		}
		return "", fmt.Errorf("binary %v", x.Op)
	case *ast.CallExpr:
		if n, ok := env.Names[callKey(x)]; ok {
			return n, nil
		}
		head := exprKey(x.Fun)
		f, ok := env.Calls[head]
		if !ok {
			return "", fmt.Errorf("unsupported call %s", head)
		}
		var args []string
		for _, a := range x.Args {
			s, err := env.expr(a)
			if err != nil {
				return "", err
			}
			args = append(args, s)
		}
		if f == "" {
			if len(args) != 1 {
				return "", fmt.Errorf("conversion arity %s", head)
			}
			return args[0], nil
		}
		return "(" + f + " " + strings.Join(args, " ") + ")", nil
	}
	return "", fmt.Errorf("unsupported expression %T", e)
}

// block renders stmts in continuation style; `rest` are the statements following in the enclosing block.
func (env *Env) block(stmts []ast.Stmt, ind string) (string, error) {
	if len(stmts) == 0 {
		return env.Fall, nil
	}
	s, rest := stmts[0], stmts[1:]
	switch x := s.(type) {
	case *ast.AssignStmt:
		if len(x.Lhs) != 1 || len(x.Rhs) != 1 {
			return "", fmt.Errorf("multi-assign")
		}
		lhsKey := exprKey(x.Lhs[0])
		name, ok := env.Names[lhsKey]
		if !ok {
			if x.Tok == token.DEFINE {
				if env.Names == nil {
					env.Names = map[string]string{}
				}
				env.Names[lhsKey] = lhsKey
				name = lhsKey
			} else {
				return "", fmt.Errorf("assign to unknown %s", lhsKey)
			}
		}
		rhs, err := env.expr(x.Rhs[0])
		if err != nil {
			return "", err
		}
		switch x.Tok {
		case token.ASSIGN, token.DEFINE:
		case token.ADD_ASSIGN:
			rhs = env.arith("+", name, rhs)
		case token.SUB_ASSIGN:
			rhs = env.arith("-", name, rhs)
		default:
			return "", fmt.Errorf("assign op %v", x.Tok)
		}
		k, err := env.block(rest, ind)
		if err != nil {
			return "", err
		}
		return "let " + name + env.asc(name) + " := " + rhs + "\n" + ind + k, nil
	case *ast.IncDecStmt:
		name, ok := env.Names[exprKey(x.X)]
		if !ok {
			return "", fmt.Errorf("incdec of unknown %s", exprKey(x.X))
		}
		op := "+"
		if x.Tok == token.DEC {
			op = "-"
		}
		k, err := env.block(rest, ind)
		if err != nil {
			return "", err
		}
		return "let " + name + " := " + env.arith(op, name, "1") + "\n" + ind + k, nil
	case *ast.ReturnStmt:
		var rs []string
		for _, r := range x.Results {
			s, err := env.expr(r)
			if err != nil {
				return "", err
			}
			rs = append(rs, s)
		}
		return env.Ret(rs), nil
	case *ast.IfStmt:
		if !containsReturn(x) && !(env.Panic != "" && containsPanic(x)) {
			return env.pureIf(x, rest, ind)
		}
		if x.Init != nil {
			return "", fmt.Errorf("if with init")
		}
		c, err := env.expr(x.Cond)
		if err != nil {
			return "", err
		}
		// then-branch continues with `rest` unless it ends in return
		thenStmts := append(append([]ast.Stmt{}, x.Body.List...), rest...)
		if endsInReturn(x.Body.List) {
			thenStmts = x.Body.List
		}
		saved := copyNames(env.Names)
		t, err := env.block(thenStmts, ind+"  ")
		if err != nil {
			return "", err
		}
		env.Names = copyNames(saved)
		var elseStmts []ast.Stmt
		switch eb := x.Else.(type) {
		case nil:
			elseStmts = rest
		case *ast.BlockStmt:
			elseStmts = append(append([]ast.Stmt{}, eb.List...), rest...)
			if endsInReturn(eb.List) {
				elseStmts = eb.List
			}
		case *ast.IfStmt:
			elseStmts = append([]ast.Stmt{eb}, rest...)
		}
		e, err := env.block(elseStmts, ind+"  ")
		if err != nil {
			return "", err
		}
		env.Names = saved
		return "if " + c + " then\n" + ind + "  " + t + "\n" + ind + "else\n" + ind + "  " + e, nil
	case *ast.BlockStmt:
		return env.block(append(append([]ast.Stmt{}, x.List...), rest...), ind)
	case *ast.ExprStmt:
		// added for C17 (retry state): a call statement explicitly listed as effect-free for the model
		if c, ok := x.X.(*ast.CallExpr); ok && env.SkipCalls[exprKey(c.Fun)] {
			return env.block(rest, ind)
		}
		// added for C18: `panic(...)`, only when the caller said what a panic is rendered to
		if c, ok := x.X.(*ast.CallExpr); ok && env.Panic != "" {
			if id, ok := c.Fun.(*ast.Ident); ok && id.Name == "panic" {
				return env.Panic, nil
			}
		}
		return "", fmt.Errorf("unsupported expression statement %s", exprKey(x.X))
	case *ast.RangeStmt:
		// added for C17: `for _, v := range xs { if cond { return r } }` (see translate_range.go)
		return env.rangeAny(x, rest, ind)
	}
	return "", fmt.Errorf("unsupported statement %T", s)
}

func copyNames(m map[string]string) map[string]string {
	n := map[string]string{}
	for k, v := range m {
		n[k] = v
	}
	return n
}

func endsInReturn(l []ast.Stmt) bool {
	if len(l) == 0 {
		return false
	}
	switch x := l[len(l)-1].(type) {
	case *ast.ReturnStmt:
		return true
	case *ast.IfStmt:
		if x.Else == nil {
			return false
		}
		eb, ok := x.Else.(*ast.BlockStmt)
		return ok && endsInReturn(x.Body.List) && endsInReturn(eb.List)
	}
	return false
}
