package main

// C13 (TLS policy, trust anchors): regenerates Gen/TlsPool.lean from pkg/mtls:
//   - defaultConfigHooks.GetX509Pool (confighook.go): whether an unconfigured ca_cert gives a nil pool, the BASE
//     constructor of the returned pool (x509.NewCertPool = empty / x509.SystemCertPool = the host's root store) and the
//     items appended to it (AppendCertsFromPEM of the bytes of the configured ca_cert)            -> poolNilWhenUnconfigured / poolBase / poolItems
//   - newTLSContext (tls_context.go): the argument of hooks.GetX509Pool and which expression is installed as
//     tls.Config.RootCAs and as tls.Config.ClientCAs (the hook's pool / nil)                     -> rootCAsSrc / clientCAsSrc
//   - every other assignment to a RootCAs / ClientCAs field in pkg/mtls (non-test files) is an error.
// The functions are read by shape: every call inside GetX509Pool must be one of the known ones, every use of the pool
// variable must be one of the known ones; anything else is an error => translation-unsupported => broken tie.

import (
	"fmt"
	"go/ast"
	"go/token"
	"os"
	"path/filepath"
	"sort"
	"strings"
)

func init() {
	register("TlsPool", genTlsPool)
}

// c13pCallHead renders the callee of a call: `x509.NewCertPool`, `pool.AppendCertsFromPEM`, `[]byte`, ...
func c13pCallHead(c *ast.CallExpr) string {
	if at, ok := c.Fun.(*ast.ArrayType); ok && at.Len == nil {
		return "[]" + exprKey(at.Elt)
	}
	return exprKey(c.Fun)
}

func genTlsPool() (string, error) {
	const (
		hookSrc = "pkg/mtls/confighook.go"
		ctxSrc  = "pkg/mtls/tls_context.go"
		dir     = "pkg/mtls"
	)
	s := header("TlsPool", hookSrc, ctxSrc)

	// ---- 1. GetX509Pool
	f, err := parse(hookSrc)
	if err != nil {
		return "", err
	}
	fd := findFunc(f, "defaultConfigHooks", "GetX509Pool")
	if fd == nil {
		return "", fmt.Errorf("GetX509Pool not found")
	}
	if len(fd.Type.Params.List) != 1 || len(fd.Type.Params.List[0].Names) != 1 {
		return "", fmt.Errorf("GetX509Pool: unexpected parameters")
	}
	ca := fd.Type.Params.List[0].Names[0].Name
	// the pool variable: the first result of the last return statement
	if len(fd.Body.List) == 0 {
		return "", fmt.Errorf("GetX509Pool: empty body")
	}
	last, ok := fd.Body.List[len(fd.Body.List)-1].(*ast.ReturnStmt)
	if !ok || len(last.Results) != 2 || exprKey(last.Results[1]) != "nil" {
		return "", fmt.Errorf("GetX509Pool: does not end in `return <pool>, nil`")
	}
	pv, ok := last.Results[0].(*ast.Ident)
	if !ok || pv.Name == "nil" {
		return "", fmt.Errorf("GetX509Pool: returned pool is not a variable")
	}
	pool := pv.Name
	// `if caIndex == "" { return nil, nil }` as the first statement
	nilWhenEmpty := false
	if is, ok := fd.Body.List[0].(*ast.IfStmt); ok && is.Init == nil && is.Else == nil {
		if b, ok := is.Cond.(*ast.BinaryExpr); ok && b.Op == token.EQL && exprKey(b.X) == ca && exprKey(b.Y) == `""` && len(is.Body.List) == 1 {
			if r, ok := is.Body.List[0].(*ast.ReturnStmt); ok && len(r.Results) == 2 && exprKey(r.Results[0]) == "nil" && exprKey(r.Results[1]) == "nil" {
				nilWhenEmpty = true
			}
		}
	}
	// every return: `nil, <something>` or `<pool>, nil`
	var rerr error
	bad := func(format string, a ...interface{}) {
		if rerr == nil {
			rerr = fmt.Errorf("GetX509Pool: "+format, a...)
		}
	}
	// variables holding the bytes of the configured ca_cert: assigned only from []byte(caIndex) / ReadFile(caIndex)
	cfgBytes := map[string]bool{}
	notCfgBytes := map[string]bool{}
	bases := map[string]bool{}
	var items []string
	poolAssigns := 0
	ast.Inspect(fd.Body, func(n ast.Node) bool {
		switch x := n.(type) {
		case *ast.FuncLit:
			bad("function literal")
			return false
		case *ast.ReturnStmt:
			if len(x.Results) != 2 {
				bad("return with %d results", len(x.Results))
				return true
			}
			r0 := exprKey(x.Results[0])
			if r0 != "nil" && r0 != pool {
				bad("returns %s", r0)
			}
		case *ast.AssignStmt:
			for i, l := range x.Lhs {
				name := exprKey(l)
				var rhs ast.Expr
				if len(x.Rhs) == len(x.Lhs) {
					rhs = x.Rhs[i]
				} else if len(x.Rhs) == 1 && i == 0 {
					rhs = x.Rhs[0]
				}
				if name == pool {
					poolAssigns++
					c, ok := rhs.(*ast.CallExpr)
					if !ok {
						bad("pool assigned from a non-call")
						continue
					}
					switch c13pCallHead(c) {
					case "x509.NewCertPool":
						bases["empty"] = true
					case "x509.SystemCertPool":
						bases["system"] = true
					default:
						bad("pool assigned from %s", c13pCallHead(c))
					}
					continue
				}
				if rhs == nil {
					continue
				}
				if c, ok := rhs.(*ast.CallExpr); ok {
					h := c13pCallHead(c)
					if (h == "[]byte" || h == "ioutil.ReadFile" || h == "os.ReadFile") && len(c.Args) == 1 && exprKey(c.Args[0]) == ca {
						cfgBytes[name] = true
						continue
					}
				}
				if name != "err" && name != "_" && name != "ok" {
					notCfgBytes[name] = true
				}
			}
		case *ast.CallExpr:
			h := c13pCallHead(x)
			switch h {
			case "x509.NewCertPool", "x509.SystemCertPool", "strings.Contains", "ioutil.ReadFile", "os.ReadFile", "fmt.Errorf", "[]byte":
			case pool + ".AppendCertsFromPEM":
				if len(x.Args) != 1 {
					bad("AppendCertsFromPEM arguments")
					break
				}
				items = append(items, exprKey(x.Args[0]))
			default:
				bad("unexpected call %s", h)
			}
		case *ast.SelectorExpr:
			if exprKey(x.X) == pool && x.Sel.Name != "AppendCertsFromPEM" {
				bad("unexpected use %s.%s", pool, x.Sel.Name)
			}
		}
		return true
	})
	if rerr != nil {
		return "", rerr
	}
	if poolAssigns == 0 || len(bases) == 0 {
		return "", fmt.Errorf("GetX509Pool: no constructor of the pool found")
	}
	base := "Base.empty"
	if bases["system"] {
		// the host's root store flows into the returned pool on some path
		base = "Base.system"
	}
	var its []string
	for _, it := range items {
		if cfgBytes[it] && !notCfgBytes[it] {
			its = append(its, "Item.configured")
		} else {
			return "", fmt.Errorf("GetX509Pool: appended item %s is not the bytes of the configured ca_cert", it)
		}
	}
	s += "/-- what the returned pool starts from: `x509.NewCertPool()` or `x509.SystemCertPool()` (the host's root store) -/\n"
	s += "inductive Base where\n  | empty | system\n  deriving DecidableEq, Repr\n"
	s += "/-- what is appended to it: the certificates of the configured ca_cert (`AppendCertsFromPEM`) -/\n"
	s += "inductive Item where\n  | configured\n  deriving DecidableEq, Repr\n"
	s += "/-- where a field of the tls.Config template comes from: the pool returned by hooks.GetX509Pool, or nil -/\n"
	s += "inductive PoolSrc where\n  | hookPool | nilPool\n  deriving DecidableEq, Repr\n"
	s += fmt.Sprintf("/-- `defaultConfigHooks.GetX509Pool`: `if %s == \"\" { return nil, nil }` is the first statement -/\n", ca)
	s += fmt.Sprintf("def poolNilWhenUnconfigured : Bool := %v\n", nilWhenEmpty)
	s += "/-- the constructor of the returned pool -/\n"
	s += "def poolBase : Base := " + base + "\n"
	s += "/-- the AppendCertsFromPEM calls on it, in source order -/\n"
	s += "def poolItems : List Item := [" + strings.Join(its, ", ") + "]\n"

	// ---- 2. newTLSContext
	g, err := parse(ctxSrc)
	if err != nil {
		return "", err
	}
	nd := findFunc(g, "", "newTLSContext")
	if nd == nil {
		return "", fmt.Errorf("newTLSContext not found")
	}
	hookPool := ""
	src := map[string]string{}
	var nerr error
	ast.Inspect(nd.Body, func(n ast.Node) bool {
		as, ok := n.(*ast.AssignStmt)
		if !ok {
			return true
		}
		if len(as.Rhs) == 1 {
			if c, ok := as.Rhs[0].(*ast.CallExpr); ok && strings.HasSuffix(exprKey(c.Fun), ".GetX509Pool") {
				if exprKey(c.Fun) != "hooks.GetX509Pool" || len(c.Args) != 1 || exprKey(c.Args[0]) != "secret.Validation" || len(as.Lhs) != 2 || hookPool != "" {
					nerr = fmt.Errorf("newTLSContext: unexpected GetX509Pool call")
					return true
				}
				hookPool = exprKey(as.Lhs[0])
				return true
			}
		}
		for i, l := range as.Lhs {
			sel, ok := l.(*ast.SelectorExpr)
			if !ok || (sel.Sel.Name != "RootCAs" && sel.Sel.Name != "ClientCAs") {
				continue
			}
			if exprKey(sel.X) != "tmpl" || len(as.Rhs) != len(as.Lhs) {
				nerr = fmt.Errorf("newTLSContext: unexpected assignment to %s", exprKey(l))
				continue
			}
			if _, dup := src[sel.Sel.Name]; dup {
				nerr = fmt.Errorf("newTLSContext: %s assigned twice", sel.Sel.Name)
				continue
			}
			switch r := exprKey(as.Rhs[i]); {
			case hookPool != "" && r == hookPool:
				src[sel.Sel.Name] = "PoolSrc.hookPool"
			case r == "nil":
				src[sel.Sel.Name] = "PoolSrc.nilPool"
			default:
				nerr = fmt.Errorf("newTLSContext: %s = %s is neither the hook's pool nor nil", exprKey(l), r)
			}
		}
		return true
	})
	if nerr != nil {
		return "", nerr
	}
	if hookPool == "" {
		return "", fmt.Errorf("newTLSContext: hooks.GetX509Pool(secret.Validation) not found")
	}
	for _, k := range []string{"RootCAs", "ClientCAs"} {
		if _, ok := src[k]; !ok {
			src[k] = "PoolSrc.nilPool" // never assigned: the zero value
		}
	}
	// no other assignment to a RootCAs / ClientCAs field anywhere in pkg/mtls (the clones made by SetServerConfig /
	// SetClientConfig keep the template's pools)
	ents, err := os.ReadDir(filepath.Join(repo, dir))
	if err != nil {
		return "", err
	}
	var names []string
	for _, e := range ents {
		if !e.IsDir() && strings.HasSuffix(e.Name(), ".go") && !strings.HasSuffix(e.Name(), "_test.go") {
			names = append(names, e.Name())
		}
	}
	sort.Strings(names)
	others := 0
	for _, n := range names {
		pf, err := parse(dir + "/" + n)
		if err != nil {
			return "", err
		}
		for _, d := range pf.Decls {
			fn, ok := d.(*ast.FuncDecl)
			if !ok || fn.Body == nil || (n == "tls_context.go" && fn.Name.Name == "newTLSContext" && fn.Recv == nil) {
				continue
			}
			ast.Inspect(fn.Body, func(x ast.Node) bool {
				switch y := x.(type) {
				case *ast.AssignStmt:
					for _, l := range y.Lhs {
						if sel, ok := l.(*ast.SelectorExpr); ok && (sel.Sel.Name == "RootCAs" || sel.Sel.Name == "ClientCAs") {
							others++
						}
					}
				case *ast.KeyValueExpr:
					if k := exprKey(y.Key); k == "RootCAs" || k == "ClientCAs" {
						others++
					}
				}
				return true
			})
		}
	}
	if others != 0 {
		return "", fmt.Errorf("pkg/mtls: %d assignments to RootCAs / ClientCAs outside newTLSContext", others)
	}
	s += "/-- `newTLSContext`: what is installed as tls.Config.RootCAs (verifies an upstream's certificate) -/\n"
	s += "def rootCAsSrc : PoolSrc := " + src["RootCAs"] + "\n"
	s += "/-- `newTLSContext`: what is installed as tls.Config.ClientCAs (verifies a client's certificate) -/\n"
	s += "def clientCAsSrc : PoolSrc := " + src["ClientCAs"] + "\n"
	s += footer("TlsPool")
	return s, nil
}
