-- translation-unsupported FrameConsts: open -out/pkg/protocol/xprotocol/bolt: no such file or directory
namespace MosnVerif.Gen.FrameConsts
end MosnVerif.Gen.FrameConsts
