-- translation-unsupported HeaderWiring: open -out/pkg/router/utility.go: no such file or directory
namespace MosnVerif.Gen.HeaderWiring
end MosnVerif.Gen.HeaderWiring
