package main

// Gen/Subset.lean for C15: fallback-policy and build-mode constants, the fallback switch of both builders and the
// small boolean decisions of the subset load balancer (pkg/upstream/cluster/subset_loadbalancer*.go), translated
// from the Go AST.  Self-contained mini translator (conditions over ints/bools/strings with nil tests, len(),
// zero-argument method calls) so that translate.go stays untouched.

import (
	"fmt"
	"go/ast"
	"go/token"
	"strings"
)

func init() { register("Subset", genSubset) }

const (
	c15lb      = "pkg/upstream/cluster/subset_loadbalancer.go"
	c15builder = "pkg/upstream/cluster/subset_loadbalancer_builder.go"
)

// c15env maps printed Go expressions to Lean identifiers (`names`) and gives nil-tests a Lean boolean (`nonNil`).
type c15env struct {
	names  map[string]string // exprKey or exprKey+"()" for zero-arg calls, "len(x)" for len calls
	nonNil map[string]string // X in `X != nil` / `X == nil`  -> Lean Bool meaning "X is not nil"
}

func c15call(x *ast.CallExpr) string {
	if id, ok := x.Fun.(*ast.Ident); ok && id.Name == "len" && len(x.Args) == 1 {
		return "len(" + exprKey(x.Args[0]) + ")"
	}
	if len(x.Args) == 0 {
		return exprKey(x.Fun) + "()"
	}
	return ""
}

func isNilIdent(e ast.Expr) bool {
	id, ok := e.(*ast.Ident)
	return ok && id.Name == "nil"
}

func (env *c15env) expr(e ast.Expr) (string, error) {
	switch x := e.(type) {
	case *ast.ParenExpr:
		s, err := env.expr(x.X)
		return "(" + s + ")", err
	case *ast.BasicLit:
		if x.Kind == token.INT || x.Kind == token.STRING {
			return x.Value, nil
		}
	case *ast.Ident:
		if x.Name == "true" || x.Name == "false" {
			return x.Name, nil
		}
		if n, ok := env.names[x.Name]; ok {
			return n, nil
		}
		return "", fmt.Errorf("unknown identifier %s", x.Name)
	case *ast.SelectorExpr:
		if n, ok := env.names[exprKey(x)]; ok {
			return n, nil
		}
		return "", fmt.Errorf("unknown selector %s", exprKey(x))
	case *ast.CallExpr:
		if k := c15call(x); k != "" {
			if n, ok := env.names[k]; ok {
				return n, nil
			}
		}
		if id, ok := x.Fun.(*ast.Ident); ok && len(x.Args) == 1 {
			switch id.Name {
			case "int", "int64", "uint32", "uint64", "uint8":
				return env.expr(x.Args[0]) // unbounded Int (lengths and indexes of in-memory slices: no overflow)
			}
		}
		return "", fmt.Errorf("unsupported call %s", exprKey(x.Fun))
	case *ast.UnaryExpr:
		if x.Op == token.NOT {
			s, err := env.expr(x.X)
			return "(!" + s + ")", err
		}
	case *ast.BinaryExpr:
		if x.Op == token.NEQ || x.Op == token.EQL {
			var other ast.Expr
			if isNilIdent(x.Y) {
				other = x.X
			} else if isNilIdent(x.X) {
				other = x.Y
			}
			if other != nil {
				n, ok := env.nonNil[exprKey(other)]
				if !ok {
					return "", fmt.Errorf("nil test of unknown %s", exprKey(other))
				}
				if x.Op == token.NEQ {
					return n, nil
				}
				return "(!" + n + ")", nil
			}
		}
		l, err := env.expr(x.X)
		if err != nil {
			return "", err
		}
		r, err := env.expr(x.Y)
		if err != nil {
			return "", err
		}
		switch x.Op {
		case token.ADD:
			return "(" + l + " + " + r + ")", nil
		case token.SUB:
			return "(" + l + " - " + r + ")", nil
		case token.LAND:
			return "(" + l + " && " + r + ")", nil
		case token.LOR:
			return "(" + l + " || " + r + ")", nil
		}
		cmp := map[token.Token]string{token.LSS: "<", token.LEQ: "≤", token.GTR: ">", token.GEQ: "≥", token.EQL: "=", token.NEQ: "≠"}
		if o, ok := cmp[x.Op]; ok {
			return "(decide (" + l + " " + o + " " + r + "))", nil
		}
		return "", fmt.Errorf("binary %v", x.Op)
	}
	return "", fmt.Errorf("unsupported expression %T", e)
}

// firstIfCond returns the condition of the n-th (0-based) `if` statement (pre-order) inside node whose printed
// condition contains `needle`.
func c15findIf(node ast.Node, needle string) *ast.IfStmt {
	var hit *ast.IfStmt
	ast.Inspect(node, func(n ast.Node) bool {
		if hit != nil {
			return false
		}
		if s, ok := n.(*ast.IfStmt); ok && strings.Contains(c15print(s.Cond), needle) {
			hit = s
			return false
		}
		return true
	})
	return hit
}

func c15print(e ast.Expr) string {
	switch x := e.(type) {
	case *ast.BinaryExpr:
		return c15print(x.X) + " " + x.Op.String() + " " + c15print(x.Y)
	case *ast.UnaryExpr:
		return x.Op.String() + c15print(x.X)
	case *ast.ParenExpr:
		return "(" + c15print(x.X) + ")"
	case *ast.CallExpr:
		var a []string
		for _, y := range x.Args {
			a = append(a, c15print(y))
		}
		return c15print(x.Fun) + "(" + strings.Join(a, ", ") + ")"
	case *ast.BasicLit:
		return x.Value
	}
	return exprKey(e)
}

type c15def struct {
	file, recv, fn string // where
	needle         string // substring of the printed `if` condition ("" = the function's single `return <expr>`)
	name           string // Lean name
	params         string // Lean binder list
	ret            string // Lean result type
	env            c15env
	doc            string
}

func genSubset() (string, error) {
	files := map[string]*ast.File{}
	for _, p := range []string{c15lb, c15builder} {
		f, err := parse(p)
		if err != nil {
			return "", err
		}
		files[p] = f
	}
	s := header("Subset", c15lb, c15builder, "pkg/types/loadbalancer.go")

	// ---- constants
	for _, c := range []struct{ dir, goName, lean string }{
		{"pkg/types", "NoFallBack", "noFallBack"},
		{"pkg/types", "AnyEndPoint", "anyEndPoint"},
		{"pkg/types", "DefaultSubset", "defaultSubset"},
		{"pkg/upstream/cluster", "SubsetPreIndexBuildMode", "preIndexBuildMode"},
		{"pkg/upstream/cluster", "SubsetFilterBuildMode", "filterBuildMode"},
	} {
		v, err := intConst(c.dir, c.goName)
		if err != nil {
			return "", err
		}
		s += fmt.Sprintf("def %s : Int := %d\n", c.lean, v)
	}
	// default build mode: `var subsetBuildMode = <const>`
	defMode := ""
	for _, d := range files[c15builder].Decls {
		gd, ok := d.(*ast.GenDecl)
		if !ok || gd.Tok != token.VAR {
			continue
		}
		for _, sp := range gd.Specs {
			vs := sp.(*ast.ValueSpec)
			for i, n := range vs.Names {
				if n.Name == "subsetBuildMode" && i < len(vs.Values) {
					if id, ok := vs.Values[i].(*ast.Ident); ok {
						defMode = id.Name
					}
				}
			}
		}
	}
	if defMode == "" {
		return "", fmt.Errorf("var subsetBuildMode = <const> not found")
	}
	dm, err := intConst("pkg/upstream/cluster", defMode)
	if err != nil {
		return "", err
	}
	s += fmt.Sprintf("def defaultBuildMode : Int := %d\n", dm)

	// ---- the fallback switch of both builders: policy -> 0 (no fallback entry) | 1 (entry reusing the full load
	// balancer = all hosts) | 2 (entry over the hosts matching the default subset)
	for _, sw := range []struct{ file, recv, lean string }{
		{c15lb, "subsetLoadBalancer", "fallbackKindFilter"},
		{c15builder, "subsetLoadBalancerBuilder", "fallbackKindPre"},
	} {
		fd := findFunc(files[sw.file], sw.recv, "createFallbackSubset")
		if fd == nil {
			return "", fmt.Errorf("createFallbackSubset of %s not found", sw.recv)
		}
		body, err := c15fallbackSwitch(fd)
		if err != nil {
			return "", fmt.Errorf("%s: %v", sw.lean, err)
		}
		s += "/-- `createFallbackSubset` of " + sw.recv + ": 0 = no fallback entry, 1 = entry reusing the full load balancer, 2 = entry built from the default subset -/\n"
		s += "def " + sw.lean + " (policy : Int) : Int :=\n  " + body + "\n"
	}

	// ---- small decisions
	defs := []c15def{
		{c15lb, "subsetLoadBalancer", "ChooseHost", "hostChosen", "chooseAccept", "(hostChosen hostNonNil : Bool)", "Bool",
			c15env{names: map[string]string{"hostChosen": "hostChosen"}, nonNil: map[string]string{"host": "hostNonNil"}},
			"ChooseHost: the subset's answer is used iff this holds; otherwise the fallback entry is consulted"},
		{c15lb, "subsetLoadBalancer", "tryChooseHostFromContext", "entry", "tryReject", "(entryNonNil entryActive : Bool)", "Bool",
			c15env{names: map[string]string{"entry.Active()": "entryActive"}, nonNil: map[string]string{"entry": "entryNonNil"}},
			"tryChooseHostFromContext: `return nil, false` iff this holds"},
		{c15lb, "subsetLoadBalancer", "IsExistsHosts", "entry", "existsAccept", "(entryNonNil entryActive : Bool)", "Bool",
			c15env{names: map[string]string{"entry.Active()": "entryActive"}, nonNil: map[string]string{"entry": "entryNonNil"}},
			"IsExistsHosts: `return true` from the subset iff this holds"},
		{c15lb, "subsetLoadBalancer", "HostNum", "entry", "hostNumAccept", "(entryNonNil entryActive : Bool)", "Bool",
			c15env{names: map[string]string{"entry.Active()": "entryActive"}, nonNil: map[string]string{"entry": "entryNonNil"}},
			"HostNum: the subset's size is returned iff this holds"},
		{c15lb, "subsetLoadBalancer", "findSubset", "len(matchCriteria)", "findLast", "(i n : Int)", "Bool",
			c15env{names: map[string]string{"i": "i", "len(matchCriteria)": "n"}},
			"findSubset: the entry reached at criterion `i` of `n` is returned iff this holds"},
		{c15lb, "subsetLoadBalancer", "findOrCreateSubset", "len(kvs)", "createLastFilter", "(idx n : Int)", "Bool",
			c15env{names: map[string]string{"idx": "idx", "len(kvs)": "n"}},
			"findOrCreateSubset (filter builder), evaluated after `idx++`: the entry is returned iff this holds"},
		{c15builder, "subsetLoadBalancerBuilder", "findOrCreateSubset", "len(kvs)", "createLastPre", "(idx n : Int)", "Bool",
			c15env{names: map[string]string{"idx": "idx", "len(kvs)": "n"}},
			"findOrCreateSubset (pre-index builder), evaluated after `idx++`: the entry is returned iff this holds"},
		{c15lb, "", "HostMatches", "value", "hostMismatch", "(ok : Bool) (value want : String)", "Bool",
			c15env{names: map[string]string{"ok": "ok", "value": "value", "kv.T2": "want"}},
			"HostMatches: one criterion rejects the host iff this holds"},
		{c15lb, "subsetLoadBalancer", "createSubsets", "len(kvs)", "filterCreate", "(n : Int)", "Bool",
			c15env{names: map[string]string{"len(kvs)": "n"}},
			"filter builder: a host contributes a subset for a selector iff the extracted key/value list satisfies this"},
		{c15lb, "subsetLoadBalancer", "createSubsets", "Initialized", "filterNeedInit", "(initialized : Bool)", "Bool",
			c15env{names: map[string]string{"entry.Initialized()": "initialized"}},
			"filter builder: the entry's load balancer is created iff this holds"},
		{c15builder, "subsetLoadBalancerBuilder", "createSubsets", "len(hosts)", "preCreate", "(n : Int)", "Bool",
			c15env{names: map[string]string{"len(hosts)": "n"}},
			"pre-index builder: the entry's load balancer is created iff the filtered host list satisfies this"},
		{c15builder, "subsetLoadBalancerBuilder", "filterHosts", "len(kvs)", "filterAll", "(n : Int)", "Bool",
			c15env{names: map[string]string{"len(kvs)": "n"}},
			"pre-index filterHosts: all hosts are returned iff the key/value list satisfies this"},
		{c15builder, "subsetLoadBalancerBuilder", "doMetadataCombination", "len(keys)", "comboMore", "(idx n : Int)", "Bool",
			c15env{names: map[string]string{"idx": "idx", "len(keys)": "n"}},
			"doMetadataCombination: recursion continues with the next key iff this holds"},
		{c15builder, "subsetLoadBalancerBuilder", "metadataCombinations", "len(keys)", "comboEmpty", "(n : Int)", "Bool",
			c15env{names: map[string]string{"len(keys)": "n"}},
			"metadataCombinations: an empty selector key list yields no combination iff this holds (guard added by the C15 fix)"},
		{c15lb, "LBSubsetEntryImpl", "Active", "", "entryActive", "(hostNum : Int)", "Bool",
			c15env{names: map[string]string{"entry.HostNum()": "hostNum"}}, "LBSubsetEntryImpl.Active"},
		{c15lb, "LBSubsetEntryImpl", "Initialized", "", "entryInitialized", "(lbNonNil : Bool)", "Bool",
			c15env{nonNil: map[string]string{"entry.lb": "lbNonNil"}}, "LBSubsetEntryImpl.Initialized"},
	}
	for _, d := range defs {
		fd := findFunc(files[d.file], d.recv, d.fn)
		if fd == nil {
			return "", fmt.Errorf("%s.%s not found", d.recv, d.fn)
		}
		var e ast.Expr
		if d.needle == "" {
			// single `return <expr>`
			if len(fd.Body.List) != 1 {
				return "", fmt.Errorf("%s.%s: body is not a single return", d.recv, d.fn)
			}
			r, ok := fd.Body.List[0].(*ast.ReturnStmt)
			if !ok || len(r.Results) != 1 {
				return "", fmt.Errorf("%s.%s: body is not a single return", d.recv, d.fn)
			}
			e = r.Results[0]
		} else {
			is := c15findIf(fd.Body, d.needle)
			if is == nil {
				return "", fmt.Errorf("%s.%s: no `if` mentioning %q", d.recv, d.fn, d.needle)
			}
			if is.Init != nil {
				return "", fmt.Errorf("%s.%s: `if` with init statement", d.recv, d.fn)
			}
			e = is.Cond
		}
		lean, err := d.env.expr(e)
		if err != nil {
			return "", fmt.Errorf("%s (%s.%s): %v", d.name, d.recv, d.fn, err)
		}
		s += "/-- " + d.doc + " — Go: `" + c15print(e) + "` -/\n"
		s += "def " + d.name + " " + d.params + " : " + d.ret + " :=\n  " + lean + "\n"
	}

	// LBSubsetEntryImpl.HostNum: `if entry.lb != nil { return entry.lb.HostNum(nil) }; return 0`
	{
		fd := findFunc(files[c15lb], "LBSubsetEntryImpl", "HostNum")
		if fd == nil || len(fd.Body.List) != 2 {
			return "", fmt.Errorf("LBSubsetEntryImpl.HostNum: unexpected shape")
		}
		is, ok1 := fd.Body.List[0].(*ast.IfStmt)
		rt, ok2 := fd.Body.List[1].(*ast.ReturnStmt)
		if !ok1 || !ok2 || is.Else != nil || is.Init != nil || len(is.Body.List) != 1 || len(rt.Results) != 1 {
			return "", fmt.Errorf("LBSubsetEntryImpl.HostNum: unexpected shape")
		}
		r1, ok := is.Body.List[0].(*ast.ReturnStmt)
		if !ok || len(r1.Results) != 1 {
			return "", fmt.Errorf("LBSubsetEntryImpl.HostNum: unexpected shape")
		}
		call, ok := r1.Results[0].(*ast.CallExpr)
		if !ok || exprKey(call.Fun) != "entry.lb.HostNum" {
			return "", fmt.Errorf("LBSubsetEntryImpl.HostNum: then-branch is not entry.lb.HostNum(..)")
		}
		env := c15env{nonNil: map[string]string{"entry.lb": "lbNonNil"}, names: map[string]string{}}
		c, err := env.expr(is.Cond)
		if err != nil {
			return "", err
		}
		z, err := env.expr(rt.Results[0])
		if err != nil {
			return "", err
		}
		s += "/-- LBSubsetEntryImpl.HostNum: the inner load balancer's HostNum when one exists -/\n"
		s += "def entryHostNum (lbNonNil : Bool) (lbHostNum : Int) : Int :=\n  if " + c + " then lbHostNum else " + z + "\n"
	}
	s += footer("Subset")
	return s, nil
}

// c15fallbackSwitch renders `switch policy { case types.X: … }` as nested ifs over the policy value.
func c15fallbackSwitch(fd *ast.FuncDecl) (string, error) {
	var sw *ast.SwitchStmt
	ast.Inspect(fd.Body, func(n ast.Node) bool {
		if s, ok := n.(*ast.SwitchStmt); ok && sw == nil {
			sw = s
		}
		return true
	})
	if sw == nil || sw.Init != nil {
		return "", fmt.Errorf("switch not found")
	}
	if id, ok := sw.Tag.(*ast.Ident); !ok || id.Name != "policy" {
		return "", fmt.Errorf("switch tag is not `policy`")
	}
	out := ""
	deflt := "0"
	closeP := ""
	for _, st := range sw.Body.List {
		cc := st.(*ast.CaseClause)
		kind, err := c15caseKind(cc.Body)
		if err != nil {
			return "", err
		}
		if cc.List == nil {
			deflt = fmt.Sprint(kind)
			continue
		}
		var conds []string
		for _, e := range cc.List {
			sel, ok := e.(*ast.SelectorExpr)
			if !ok || exprKey(sel.X) != "types" {
				return "", fmt.Errorf("case expression %s is not a types.<const>", c15print(e))
			}
			v, err := intConst("pkg/types", sel.Sel.Name)
			if err != nil {
				return "", err
			}
			conds = append(conds, fmt.Sprintf("policy = %d", v))
		}
		out += "if " + strings.Join(conds, " ∨ ") + " then " + fmt.Sprint(kind) + " else ("
		closeP += ")"
	}
	return out + deflt + closeP, nil
}

// c15caseKind classifies a case body: an entry whose `lb:` field is the full load balancer (1), an entry that gets its
// own load balancer through CreateLoadBalancer (2), or nothing (0).
func c15caseKind(body []ast.Stmt) (int, error) {
	full, create, entry := false, false, false
	for _, st := range body {
		ast.Inspect(st, func(n ast.Node) bool {
			switch x := n.(type) {
			case *ast.CompositeLit:
				if id, ok := x.Type.(*ast.Ident); ok && id.Name == "LBSubsetEntryImpl" {
					entry = true
					for _, el := range x.Elts {
						if kv, ok := el.(*ast.KeyValueExpr); ok && exprKey(kv.Key) == "lb" {
							k := exprKey(kv.Value)
							if k == "sslb.fullLb" || k == "fullLb" {
								full = true
							}
						}
					}
				}
			case *ast.CallExpr:
				if sel, ok := x.Fun.(*ast.SelectorExpr); ok && sel.Sel.Name == "CreateLoadBalancer" {
					create = true
				}
			}
			return true
		})
	}
	switch {
	case !entry && !create:
		return 0, nil
	case entry && full && !create:
		return 1, nil
	case entry && create && !full:
		return 2, nil
	}
	return 0, fmt.Errorf("unrecognised fallback case body (entry=%v full=%v create=%v)", entry, full, create)
}
