package main

// A second, continuation-style Go -> Lean translator for small *lookup / scan* functions (added for C04):
// functions made of `if`, early `return`, comma-ok map lookups, two-result calls, `for _, x := range l` loops with
// `continue`/`break`, local definitions, string slicing/length/comparison.  A statement list is rendered as a Lean
// term of the function's result type; "the rest of the enclosing block" is a named thunk (`let kN := fun _ => …`),
// a range loop is `forRange l (fun x next => body) after` (Model/RouteBase.lean).
// Restrictions (violations => error => translation-unsupported => broken tie, never a wrong translation):
//   * a variable assigned in a block deeper than its declaration (or across loop iterations) is a *mutable* variable:
//     every continuation takes the mutable variables in scope as parameters (their types come from `Types`), a loop over
//     them is `forRangeS l (fun x state next => …) state after`; other assignments `x = e` must be in the declaring block,
//   * logging statements (`if log.… { … }`, `log.…(…)`) are skipped,
//   * every call must be listed in `Calls`/`Calls2`, every free name in `Names`.

import (
	"fmt"
	"go/ast"
	"go/token"
	"strconv"
	"strings"
)

type call2 struct {
	F    func(args []string) string // renders a Lean `Option _`
	Kind string                     // "ok": second result is a bool; "err": second result is an error (nil iff some)
}

type CPS struct {
	Names   map[string]string // Go expression key -> Lean expression (parameters, constants)
	LenFn   map[string]string // key of the argument of len() / of a sliced or indexed value -> mapLen | strLen | listLen
	Calls   map[string]func(args []string) string
	Calls2  map[string]call2
	Ret     func(e []ast.Expr) (string, error) // renders `return …`
	Types   map[string]string                  // Lean types of mutable / var-declared variables
	GoTypes map[string]string                  // Go type expression (printed) -> Lean type, for `var x T` of other names
	mut     map[string]bool                    // variables assigned outside their declaring block
	order   []string                           // declared variables, in declaration order (innermost last)
	n       int
	next    []string
	brk     []string
	scope   []map[string]bool
	locals  map[string]int // declared local names (count of live declarations)
}

var leanReserved = map[string]bool{"exists": true, "end": true, "from": true, "at": true, "have": true, "show": true,
	"then": true, "else": true, "fun": true, "let": true, "match": true, "with": true, "do": true, "in": true, "open": true,
	"by": true, "where": true, "Type": true, "Prop": true, "instance": true, "structure": true, "class": true, "def": true}

func leanName(s string) string {
	if leanReserved[s] {
		return s + "_"
	}
	return s
}

func goKey(e ast.Expr) string {
	switch x := e.(type) {
	case *ast.Ident:
		return x.Name
	case *ast.SelectorExpr:
		return goKey(x.X) + "." + x.Sel.Name
	case *ast.ParenExpr:
		return goKey(x.X)
	case *ast.StarExpr:
		return "*" + goKey(x.X)
	case *ast.IndexExpr:
		return goKey(x.X) + "[" + goKey(x.Index) + "]"
	case *ast.CallExpr:
		return goKey(x.Fun) + "()"
	case *ast.BasicLit:
		return x.Value
	}
	return fmt.Sprintf("?%T", e)
}

func typeText(e ast.Expr) string {
	switch x := e.(type) {
	case *ast.Ident:
		return x.Name
	case *ast.SelectorExpr:
		return typeText(x.X) + "." + x.Sel.Name
	case *ast.StarExpr:
		return "*" + typeText(x.X)
	case *ast.ArrayType:
		if x.Len == nil {
			return "[]" + typeText(x.Elt)
		}
	case *ast.MapType:
		return "map[" + typeText(x.Key) + "]" + typeText(x.Value)
	}
	return fmt.Sprintf("?%T", e)
}

func rootIdent(e ast.Expr) string {
	switch x := e.(type) {
	case *ast.Ident:
		return x.Name
	case *ast.SelectorExpr:
		return rootIdent(x.X)
	case *ast.ParenExpr:
		return rootIdent(x.X)
	}
	return ""
}

// leanStr renders a Go string literal as a Lean `List Char` literal.
func leanStr(s string) string {
	if s == "" {
		return "([] : List Char)"
	}
	var p []string
	for _, r := range s {
		switch {
		case r == '\'':
			p = append(p, `'\''`)
		case r == '\\':
			p = append(p, `'\\'`)
		case r >= 0x20 && r < 0x7f:
			p = append(p, "'"+string(r)+"'")
		default:
			p = append(p, fmt.Sprintf("(Char.ofNat %d)", r))
		}
	}
	return "[" + strings.Join(p, ", ") + "]"
}

func (c *CPS) isLocal(n string) bool { return c.locals[n] > 0 }

func (c *CPS) push() { c.scope = append(c.scope, map[string]bool{}) }
func (c *CPS) pop() {
	top := c.scope[len(c.scope)-1]
	for n := range top {
		c.locals[n]--
	}
	keep := c.order[:0:0]
	for _, n := range c.order {
		if !top[n] || c.locals[n] > 0 {
			keep = append(keep, n)
		}
	}
	c.order = keep
	c.scope = c.scope[:len(c.scope)-1]
}

// mutInScope lists the mutable variables that are declared at this point, in declaration order.
func (c *CPS) mutInScope() []string {
	var out []string
	seen := map[string]bool{}
	for _, n := range c.order {
		if c.mut[n] && c.isLocal(n) && !seen[n] {
			seen[n] = true
			out = append(out, n)
		}
	}
	return out
}

func (c *CPS) binders(vs []string) (string, error) {
	if len(vs) == 0 {
		return "(_ : Unit)", nil
	}
	var p []string
	for _, v := range vs {
		t, ok := c.Types[v]
		if !ok {
			return "", fmt.Errorf("no Lean type configured for mutable variable %s", v)
		}
		p = append(p, "("+leanName(v)+" : "+t+")")
	}
	return strings.Join(p, " "), nil
}

func callArgs(vs []string) string {
	if len(vs) == 0 {
		return "()"
	}
	var p []string
	for _, v := range vs {
		p = append(p, leanName(v))
	}
	return strings.Join(p, " ")
}

func tuple(vs []string) string {
	var p []string
	for _, v := range vs {
		p = append(p, leanName(v))
	}
	if len(p) == 1 {
		return p[0]
	}
	return "(" + strings.Join(p, ", ") + ")"
}

// findMutables: names assigned (=, op=, ++/--) in a block other than the one declaring them.
func findMutables(fd *ast.FuncDecl) (map[string]bool, error) {
	mut := map[string]bool{}
	var scopes []map[string]bool
	declare := func(n string) {
		if n != "_" {
			scopes[len(scopes)-1][n] = true
		}
	}
	assigned := func(n string) {
		if n == "_" {
			return
		}
		for i := len(scopes) - 1; i >= 0; i-- {
			if scopes[i][n] {
				if i != len(scopes)-1 {
					mut[n] = true
				}
				return
			}
		}
	}
	var walk func(ss []ast.Stmt)
	var stmt func(s ast.Stmt)
	block := func(ss []ast.Stmt) {
		scopes = append(scopes, map[string]bool{})
		walk(ss)
		scopes = scopes[:len(scopes)-1]
	}
	stmt = func(s ast.Stmt) {
		switch x := s.(type) {
		case *ast.AssignStmt:
			for _, l := range x.Lhs {
				if id, ok := l.(*ast.Ident); ok {
					if x.Tok == token.DEFINE {
						declare(id.Name)
					} else {
						assigned(id.Name)
					}
				} else if r := c04bPathRoot(l); r != "" && x.Tok != token.DEFINE {
					assigned(r) // `v.f = e`, `v.f[k] = e`: the record held by v is replaced
				}
			}
		case *ast.SwitchStmt:
			scopes = append(scopes, map[string]bool{})
			if x.Init != nil {
				stmt(x.Init)
			}
			for _, cl := range x.Body.List {
				if cc, ok := cl.(*ast.CaseClause); ok {
					block(cc.Body)
				}
			}
			scopes = scopes[:len(scopes)-1]
		case *ast.IncDecStmt:
			if id, ok := x.X.(*ast.Ident); ok {
				assigned(id.Name)
			}
		case *ast.DeclStmt:
			if gd, ok := x.Decl.(*ast.GenDecl); ok {
				for _, sp := range gd.Specs {
					if vs, ok := sp.(*ast.ValueSpec); ok {
						for _, n := range vs.Names {
							declare(n.Name)
						}
					}
				}
			}
		case *ast.BlockStmt:
			block(x.List)
		case *ast.IfStmt:
			scopes = append(scopes, map[string]bool{})
			if x.Init != nil {
				stmt(x.Init)
			}
			block(x.Body.List)
			if x.Else != nil {
				stmt(x.Else)
			}
			scopes = scopes[:len(scopes)-1]
		case *ast.RangeStmt:
			scopes = append(scopes, map[string]bool{})
			if id, ok := x.Key.(*ast.Ident); ok && x.Key != nil {
				declare(id.Name)
			}
			if id, ok := x.Value.(*ast.Ident); ok && x.Value != nil {
				declare(id.Name)
			}
			walk(x.Body.List) // the loop body is the loop's scope: assignments to loop-local names are not cross-block
			scopes = scopes[:len(scopes)-1]
		}
	}
	walk = func(ss []ast.Stmt) {
		for _, s := range ss {
			stmt(s)
		}
	}
	scopes = append(scopes, map[string]bool{})
	walk(fd.Body.List)
	return mut, nil
}
func (c *CPS) declare(n string) {
	if n == "_" {
		return
	}
	top := c.scope[len(c.scope)-1]
	if !top[n] {
		top[n] = true
		c.locals[n]++
		c.order = append(c.order, n)
	}
}
func (c *CPS) declaredHere(n string) bool { return c.scope[len(c.scope)-1][n] }

func (c *CPS) ex(e ast.Expr) (string, error) {
	switch x := e.(type) {
	case *ast.ParenExpr:
		s, err := c.ex(x.X)
		return "(" + s + ")", err
	case *ast.BasicLit:
		switch x.Kind {
		case token.INT:
			return x.Value, nil
		case token.STRING:
			s, err := strconv.Unquote(x.Value)
			if err != nil {
				return "", err
			}
			return leanStr(s), nil
		}
		return "", fmt.Errorf("literal kind %v", x.Kind)
	case *ast.Ident:
		if x.Name == "true" || x.Name == "false" {
			return x.Name, nil
		}
		if c.isLocal(x.Name) {
			return leanName(x.Name), nil
		}
		if n, ok := c.Names[x.Name]; ok {
			return n, nil
		}
		return "", fmt.Errorf("unknown identifier %s", x.Name)
	case *ast.SelectorExpr:
		k := goKey(x)
		r := rootIdent(x)
		if n, ok := c.Names[k]; ok && r != "" && c.isLocal(r) { // a configured rendering of this very path
			return n, nil
		}
		if r != "" && c.isLocal(r) { // field path of a local value: same field names in the Lean structures
			b, err := c.ex(x.X)
			if err != nil {
				return "", err
			}
			return b + "." + x.Sel.Name, nil
		}
		if n, ok := c.Names[k]; ok {
			return n, nil
		}
		if r != "" {
			if _, ok := c.Names[r]; ok && r != k {
				b, err := c.ex(x.X)
				if err != nil {
					return "", err
				}
				return b + "." + x.Sel.Name, nil
			}
		}
		return "", fmt.Errorf("unknown selector %s", k)
	case *ast.StarExpr:
		if n, ok := c.Names[goKey(x)]; ok {
			return n, nil
		}
		// *p of a pointer the source has tested non-nil (Go panics on nil; the Lean side yields the zero value)
		inner, err := c.ex(x.X)
		if err != nil {
			return "", fmt.Errorf("unsupported dereference %s", goKey(x))
		}
		return "(Option.getD " + inner + " default)", nil
	case *ast.IndexExpr:
		if n, ok := c.Names[goKey(x)]; ok {
			return n, nil
		}
		return "", fmt.Errorf("unsupported index expression %s", goKey(x))
	case *ast.CompositeLit:
		return c.c04bComposite(x)
	case *ast.UnaryExpr:
		if cl, ok := x.X.(*ast.CompositeLit); ok && x.Op == token.AND {
			// &T{…}: a freshly allocated record nobody else refers to is modelled by its value
			return c.c04bComposite(cl)
		}
		if x.Op == token.AND {
			// &v.f of a configuration value: only when the caller names what the pointer stands for
			if n, ok := c.Names["&"+goKey(x.X)]; ok {
				return n, nil
			}
		}
		s, err := c.ex(x.X)
		if err != nil {
			return "", err
		}
		switch x.Op {
		case token.SUB:
			return "(-" + s + ")", nil
		case token.NOT:
			return "(!" + s + ")", nil
		}
		return "", fmt.Errorf("unary %v", x.Op)
	case *ast.BinaryExpr:
		if id, ok := x.Y.(*ast.Ident); ok && id.Name == "nil" && (x.Op == token.NEQ || x.Op == token.EQL) {
			l, err := c.ex(x.X)
			if err != nil {
				return "", err
			}
			if x.Op == token.NEQ {
				return "(Option.isSome " + l + ")", nil
			}
			return "(Option.isNone " + l + ")", nil
		}
		l, err := c.ex(x.X)
		if err != nil {
			return "", err
		}
		r, err := c.ex(x.Y)
		if err != nil {
			return "", err
		}
		switch x.Op {
		case token.ADD:
			return "(" + l + " + " + r + ")", nil
		case token.SUB:
			return "(" + l + " - " + r + ")", nil
		case token.MUL:
			return "(" + l + " * " + r + ")", nil
		case token.LSS:
			return "(decide (" + l + " < " + r + "))", nil
		case token.LEQ:
			return "(decide (" + l + " ≤ " + r + "))", nil
		case token.GTR:
			return "(decide (" + l + " > " + r + "))", nil
		case token.GEQ:
			return "(decide (" + l + " ≥ " + r + "))", nil
		case token.EQL:
			return "(decide (" + l + " = " + r + "))", nil
		case token.NEQ:
			return "(decide (" + l + " ≠ " + r + "))", nil
		case token.LAND:
			return "(" + l + " && " + r + ")", nil
		case token.LOR:
			return "(" + l + " || " + r + ")", nil
		}
		return "", fmt.Errorf("binary %v", x.Op)
	case *ast.SliceExpr:
		if x.Slice3 || c.LenFn[goKey(x.X)] != "strLen" {
			return "", fmt.Errorf("unsupported slice of %s", goKey(x.X))
		}
		b, err := c.ex(x.X)
		if err != nil {
			return "", err
		}
		switch {
		case x.Low != nil && x.High == nil:
			lo, err := c.ex(x.Low)
			return "(strFrom " + b + " " + lo + ")", err
		case x.Low == nil && x.High != nil:
			hi, err := c.ex(x.High)
			return "(strTo " + b + " " + hi + ")", err
		}
		return "", fmt.Errorf("unsupported slice bounds of %s", goKey(x.X))
	case *ast.CallExpr:
		head := goKey(x.Fun)
		if head == "len" && len(x.Args) == 1 {
			fn, ok := c.LenFn[goKey(x.Args[0])]
			if !ok {
				return "", fmt.Errorf("len of unknown-typed %s", goKey(x.Args[0]))
			}
			a, err := c.ex(x.Args[0])
			return "(" + fn + " " + a + ")", err
		}
		if (head == "int" || head == "int64" || head == "uint32") && len(x.Args) == 1 {
			return c.ex(x.Args[0])
		}
		if head == "make" && len(x.Args) >= 1 {
			// an empty slice / map: the zero value of the configured Lean type (capacity hints are irrelevant)
			t, ok := c.GoTypes[typeText(x.Args[0])]
			if !ok {
				return "", fmt.Errorf("make of unknown type %s", typeText(x.Args[0]))
			}
			return "(default : " + t + ")", nil
		}
		f, ok := c.Calls[head]
		if !ok {
			return "", fmt.Errorf("unsupported call %s", head)
		}
		args, err := c.args(x.Args)
		if err != nil {
			return "", err
		}
		return f(args), nil
	}
	return "", fmt.Errorf("unsupported expression %T", e)
}

// args renders call arguments; an argument that cannot be rendered (e.g. a context value that the Lean side
// does not need) is passed as "?" and must be dropped by the call's renderer.
func (c *CPS) args(as []ast.Expr) ([]string, error) {
	var out []string
	for _, a := range as {
		s, err := c.ex(a)
		if err != nil {
			s = "?"
		}
		out = append(out, s)
	}
	return out, nil
}

// isLogStmt: statements without effect on the sequential result — logging, and taking / releasing a mutex
// (`x.mutex.RLock()`, `defer x.mutex.RUnlock()`): skipped by the translation.
func isLogStmt(s ast.Stmt) bool {
	isLock := func(ce *ast.CallExpr) bool {
		k := goKey(ce.Fun)
		for _, suf := range []string{".RLock", ".RUnlock", ".Lock", ".Unlock"} {
			if strings.HasSuffix(k, suf) && len(ce.Args) == 0 {
				return true
			}
		}
		return false
	}
	switch x := s.(type) {
	case *ast.IfStmt:
		return x.Init == nil && strings.HasPrefix(condText(x.Cond), "log.")
	case *ast.ExprStmt:
		if ce, ok := x.X.(*ast.CallExpr); ok {
			return strings.HasPrefix(goKey(ce.Fun), "log.") || isLock(ce)
		}
	case *ast.DeferStmt:
		return isLock(x.Call)
	}
	return false
}

func condText(e ast.Expr) string {
	switch x := e.(type) {
	case *ast.BinaryExpr:
		return condText(x.X)
	case *ast.CallExpr:
		return goKey(x.Fun)
	}
	return goKey(e)
}

func (c *CPS) fresh(p string) string { c.n++; return fmt.Sprintf("%s%d", p, c.n) }

// thunk binds "the rest" as a named continuation unless it is already atomic.
func (c *CPS) withRest(rest []ast.Stmt, k, ind string, body func(k string) (string, error)) (string, error) {
	live := false
	for _, s := range rest {
		if !isLogStmt(s) {
			live = true
		}
	}
	if !live {
		return body(k)
	}
	name := c.fresh("k")
	mv := c.mutInScope()
	bs, err := c.binders(mv)
	if err != nil {
		return "", err
	}
	// the statement itself first (its declarations live in sub-scopes), then the rest of the block
	b, err := body(name + " " + callArgs(mv))
	if err != nil {
		return "", err
	}
	r, err := c.blk(rest, k, ind+"  ")
	if err != nil {
		return "", err
	}
	return "let " + name + " := (fun " + bs + " =>\n" + ind + "  " + r + ")\n" + ind + b, nil
}

// sub renders a nested block in its own scope.
func (c *CPS) sub(stmts []ast.Stmt, k, ind string) (string, error) {
	c.push()
	defer c.pop()
	return c.blk(stmts, k, ind)
}

func (c *CPS) blk(stmts []ast.Stmt, k, ind string) (string, error) {
	for len(stmts) > 0 && isLogStmt(stmts[0]) {
		stmts = stmts[1:]
	}
	if len(stmts) == 0 {
		return k, nil
	}
	s, rest := stmts[0], stmts[1:]
	switch x := s.(type) {
	case *ast.ReturnStmt:
		return c.Ret(x.Results)
	case *ast.BranchStmt:
		if x.Label != nil {
			return "", fmt.Errorf("labelled branch")
		}
		switch x.Tok {
		case token.CONTINUE:
			if len(c.next) == 0 {
				return "", fmt.Errorf("continue outside loop")
			}
			return c.next[len(c.next)-1], nil
		case token.BREAK:
			if len(c.brk) == 0 {
				return "", fmt.Errorf("break outside loop")
			}
			return c.brk[len(c.brk)-1], nil
		}
		return "", fmt.Errorf("branch %v", x.Tok)
	case *ast.BlockStmt:
		return c.withRest(rest, k, ind, func(k string) (string, error) { return c.sub(x.List, k, ind) })
	case *ast.AssignStmt:
		return c.assign(x, rest, k, ind)
	case *ast.DeclStmt:
		gd, ok := x.Decl.(*ast.GenDecl)
		if !ok || gd.Tok != token.VAR || len(gd.Specs) != 1 {
			return "", fmt.Errorf("unsupported declaration")
		}
		vs, ok := gd.Specs[0].(*ast.ValueSpec)
		if !ok || len(vs.Names) != 1 || len(vs.Values) != 0 {
			return "", fmt.Errorf("unsupported var declaration")
		}
		n := vs.Names[0].Name
		t, ok := c.Types[n]
		if !ok && vs.Type != nil {
			t, ok = c.GoTypes[typeText(vs.Type)]
			if ok {
				if c.Types == nil {
					c.Types = map[string]string{}
				}
				c.Types[n] = t
			}
		}
		if !ok {
			return "", fmt.Errorf("no Lean type configured for variable %s", n)
		}
		c.declare(n)
		r, err := c.blk(rest, k, ind)
		if err != nil {
			return "", err
		}
		return "let " + leanName(n) + " : " + t + " := default\n" + ind + r, nil
	case *ast.IfStmt:
		if x.Init != nil {
			// `if init; cond {…}` = `{ init; if cond {…} }`
			noInit := *x
			noInit.Init = nil
			return c.withRest(rest, k, ind, func(k string) (string, error) {
				return c.sub([]ast.Stmt{x.Init, &noInit}, k, ind)
			})
		}
		cond, err := c.ex(x.Cond)
		if err != nil {
			return "", err
		}
		return c.withRest(rest, k, ind, func(k string) (string, error) {
			t, err := c.sub(x.Body.List, k, ind+"  ")
			if err != nil {
				return "", err
			}
			e := k
			switch eb := x.Else.(type) {
			case nil:
			case *ast.BlockStmt:
				e, err = c.sub(eb.List, k, ind+"  ")
			case *ast.IfStmt:
				e, err = c.sub([]ast.Stmt{eb}, k, ind+"  ")
			default:
				err = fmt.Errorf("else %T", x.Else)
			}
			if err != nil {
				return "", err
			}
			return "if " + cond + " then (\n" + ind + "  " + t + ")\n" + ind + "else (\n" + ind + "  " + e + ")", nil
		})
	case *ast.SwitchStmt:
		ifs, err := c04bSwitchToIf(x)
		if err != nil {
			return "", err
		}
		return c.blk(append([]ast.Stmt{ifs}, rest...), k, ind)
	case *ast.RangeStmt:
		if x.Tok != token.DEFINE {
			return "", fmt.Errorf("range without :=")
		}
		l, err := c.ex(x.X)
		if err != nil {
			return "", err
		}
		return c.withRest(rest, k, ind, func(k string) (string, error) {
			mv := c.mutInScope() // loop-carried state
			c.push()
			defer c.pop()
			nx := c.fresh("next")
			var binder, pre string
			keyN, valN := "_", "_"
			if id, ok := x.Key.(*ast.Ident); ok && x.Key != nil {
				keyN = id.Name
			}
			if x.Value != nil {
				id, ok := x.Value.(*ast.Ident)
				if !ok {
					return "", fmt.Errorf("range value")
				}
				valN = id.Name
			}
			switch c.LenFn[goKey(x.X)] {
			case "listLen": // slice: key is the index (unsupported unless blank)
				if keyN != "_" {
					return "", fmt.Errorf("range index variable")
				}
				if valN == "_" {
					valN = c.fresh("x")
				}
				c.declare(valN)
				binder = leanName(valN)
			case "mapLen": // map: (key, value) pairs
				binder = c.fresh("kv")
				if keyN != "_" {
					c.declare(keyN)
					pre += "let " + leanName(keyN) + " := " + binder + ".1\n" + ind + "  "
				}
				if valN != "_" {
					c.declare(valN)
					pre += "let " + leanName(valN) + " := " + binder + ".2\n" + ind + "  "
				}
			default:
				return "", fmt.Errorf("range over unknown-typed %s", goKey(x.X))
			}
			if len(mv) == 0 {
				c.next = append(c.next, nx)
				c.brk = append(c.brk, k)
				b, err := c.blk(x.Body.List, nx, ind+"  ")
				c.next = c.next[:len(c.next)-1]
				c.brk = c.brk[:len(c.brk)-1]
				if err != nil {
					return "", err
				}
				return "(forRange " + l + " (fun " + binder + " " + nx + " =>\n" + ind + "  " + pre + b + ")\n" + ind + "  (" + k + "))", nil
			}
			// stateful loop: the mutable variables in scope are threaded through the iterations
			st := c.fresh("s")
			c.next = append(c.next, nx+" "+tuple(mv))
			c.brk = append(c.brk, k)
			b, err := c.blk(x.Body.List, nx+" "+tuple(mv), ind+"  ")
			c.next = c.next[:len(c.next)-1]
			c.brk = c.brk[:len(c.brk)-1]
			if err != nil {
				return "", err
			}
			unpack := "let " + tuple(mv) + " := " + st + "\n" + ind + "  "
			return "(forRangeS " + l + " (fun " + binder + " " + st + " " + nx + " =>\n" + ind + "  " + unpack + pre + b + ")\n" + ind +
				"  " + tuple(mv) + "\n" + ind + "  (fun " + st + " =>\n" + ind + "    let " + tuple(mv) + " := " + st + "\n" + ind + "    " + k + "))", nil
		})
	}
	return "", fmt.Errorf("unsupported statement %T", s)
}

func (c *CPS) assign(x *ast.AssignStmt, rest []ast.Stmt, k, ind string) (string, error) {
	lhsName := func(e ast.Expr) (string, error) {
		id, ok := e.(*ast.Ident)
		if !ok {
			return "", fmt.Errorf("assignment to non-identifier %s", goKey(e))
		}
		if id.Name == "_" {
			return "_", nil
		}
		if x.Tok == token.DEFINE {
			return id.Name, nil
		}
		if !c.declaredHere(id.Name) && !(c.mut[id.Name] && c.isLocal(id.Name)) {
			return "", fmt.Errorf("assignment to %s which is not a local variable", id.Name)
		}
		return id.Name, nil
	}
	if len(x.Lhs) == 1 && len(x.Rhs) == 1 && x.Tok == token.ASSIGN && c04bPathRoot(x.Lhs[0]) != "" {
		return c.c04bAssignPath(x, rest, k, ind)
	}
	if len(x.Lhs) == 1 && len(x.Rhs) == 1 {
		n, err := lhsName(x.Lhs[0])
		if err != nil {
			return "", err
		}
		rhs, err := c.ex(x.Rhs[0])
		if err != nil {
			return "", err
		}
		switch x.Tok {
		case token.ASSIGN, token.DEFINE:
		case token.ADD_ASSIGN:
			rhs = "(" + leanName(n) + " + " + rhs + ")"
		case token.SUB_ASSIGN:
			rhs = "(" + leanName(n) + " - " + rhs + ")"
		default:
			return "", fmt.Errorf("assign op %v", x.Tok)
		}
		c.declare(n)
		r, err := c.blk(rest, k, ind)
		if err != nil {
			return "", err
		}
		if n == "_" {
			return r, nil
		}
		return "let " + leanName(n) + " := " + rhs + "\n" + ind + r, nil
	}
	if len(x.Lhs) == 2 && len(x.Rhs) == 1 && (x.Tok == token.DEFINE || x.Tok == token.ASSIGN) {
		a, err := lhsName(x.Lhs[0])
		if err != nil {
			return "", err
		}
		b, err := lhsName(x.Lhs[1])
		if err != nil {
			return "", err
		}
		var opt, kind string
		switch r := x.Rhs[0].(type) {
		case *ast.IndexExpr:
			if c.LenFn[goKey(r.X)] != "mapLen" {
				return "", fmt.Errorf("comma-ok on non-map %s", goKey(r.X))
			}
			m, err := c.ex(r.X)
			if err != nil {
				return "", err
			}
			key, err := c.ex(r.Index)
			if err != nil {
				return "", err
			}
			opt, kind = "(mapGet "+m+" "+key+")", "ok"
		case *ast.CallExpr:
			c2, ok := c.Calls2[goKey(r.Fun)]
			if !ok {
				return "", fmt.Errorf("unsupported two-result call %s", goKey(r.Fun))
			}
			args, _ := c.args(r.Args)
			opt, kind = c2.F(args), c2.Kind
		default:
			return "", fmt.Errorf("unsupported two-result right-hand side %T", x.Rhs[0])
		}
		on := c.fresh("opt")
		out := "let " + on + " := " + opt + "\n" + ind
		if a != "_" {
			c.declare(a)
			out += "let " + leanName(a) + " := " + on + ".getD default\n" + ind
			// a looked-up map value is itself a map/list: remember how len()/range treat it
			if ie, ok := x.Rhs[0].(*ast.IndexExpr); ok {
				if vt, ok := c.LenFn[goKey(ie.X)+"[]"]; ok {
					c.LenFn[a] = vt
				}
			}
		}
		if b != "_" {
			c.declare(b)
			if kind == "ok" {
				out += "let " + leanName(b) + " := " + on + ".isSome\n" + ind
			} else {
				out += "let " + leanName(b) + " : Option Unit := (if " + on + ".isSome then none else some ())\n" + ind
			}
		}
		r, err := c.blk(rest, k, ind)
		if err != nil {
			return "", err
		}
		return out + r, nil
	}
	if len(x.Lhs) == 3 && len(x.Rhs) == 1 && (x.Tok == token.DEFINE || x.Tok == token.ASSIGN) {
		call, ok := x.Rhs[0].(*ast.CallExpr)
		if !ok {
			return "", fmt.Errorf("unsupported three-result right-hand side")
		}
		c2, ok := c.Calls2[goKey(call.Fun)]
		if !ok {
			return "", fmt.Errorf("unsupported three-result call %s", goKey(call.Fun))
		}
		args, _ := c.args(call.Args)
		on := c.fresh("opt")
		out := "let " + on + " := " + c2.F(args) + "\n" + ind
		for i, proj := range []string{".1", ".2"} {
			n, err := lhsName(x.Lhs[i])
			if err != nil {
				return "", err
			}
			if n != "_" {
				c.declare(n)
				out += "let " + leanName(n) + " := (" + on + ".getD default)" + proj + "\n" + ind
			}
		}
		e, err := lhsName(x.Lhs[2])
		if err != nil {
			return "", err
		}
		if e != "_" {
			c.declare(e)
			if c2.Kind == "ok" {
				out += "let " + leanName(e) + " := " + on + ".isSome\n" + ind
			} else {
				out += "let " + leanName(e) + " : Option Unit := (if " + on + ".isSome then none else some ())\n" + ind
			}
		}
		r, err := c.blk(rest, k, ind)
		if err != nil {
			return "", err
		}
		return out + r, nil
	}
	return "", fmt.Errorf("unsupported assignment shape")
}

// fn renders a whole function body; the body must end in a `return` (Go guarantees it for result-typed functions),
// so the initial continuation is never reached.
func (c *CPS) fn(fd *ast.FuncDecl) (string, error) {
	if fd == nil || fd.Body == nil {
		return "", fmt.Errorf("function not found")
	}
	c.locals = map[string]int{}
	c.scope = nil
	c.order = nil
	c.n = 0
	m, err := findMutables(fd)
	if err != nil {
		return "", err
	}
	c.mut = m
	c.push()
	defer c.pop()
	l := fd.Body.List
	for len(l) > 0 && isLogStmt(l[len(l)-1]) {
		l = l[:len(l)-1]
	}
	if len(l) == 0 {
		return "", fmt.Errorf("empty body")
	}
	if _, ok := l[len(l)-1].(*ast.ReturnStmt); !ok {
		return "", fmt.Errorf("body does not end in return")
	}
	return c.blk(fd.Body.List, "default", "  ")
}
