package main

// C04 (regex growth): ParseToVariableMatchItem (pkg/router/variable_rule.go) is regenerated: which field of the item a
// configured `value` / `regex` / `model` fills, and that a regex is always compiled and never stored as an exact value,
// are facts of the Go source (before, the parse decision was hand-modelled as Model.Route.parseVarItem).

import (
	"fmt"
	"go/ast"
	"strings"
)

func c04rGenParseVarItem(sb *strings.Builder, fv *ast.File) error {
	fd := findFunc(fv, "", "ParseToVariableMatchItem")
	if fd == nil {
		return fmt.Errorf("ParseToVariableMatchItem not found")
	}
	ps := paramNames(fd)
	if len(ps) != 1 {
		return fmt.Errorf("ParseToVariableMatchItem arity")
	}
	m := ps[0]
	c := &CPS{
		Names: map[string]string{
			m: "matcher", m + ".Name": "matcher.name", m + ".Value": "matcher.value", m + ".Model": "matcher.model",
			m + ".Regex": "(VarCfg.regexText matcher)", "&" + m + ".Value": "(some matcher.value)",
			"AND": "modelAnd", "OR": "modelOr",
		},
		GoTypes: map[string]string{"VariableMatchItem": "VarItem"},
		Types:   map[string]string{},
	}
	ast.Inspect(fd.Body, func(n ast.Node) bool {
		if as, ok := n.(*ast.AssignStmt); ok && len(as.Lhs) == 1 && len(as.Rhs) == 1 {
			if id, ok := as.Lhs[0].(*ast.Ident); ok {
				if ue, ok := as.Rhs[0].(*ast.UnaryExpr); ok {
					if cl, ok := ue.X.(*ast.CompositeLit); ok && typeText(cl.Type) == "VariableMatchItem" {
						c.Types[id.Name] = "VarItem"
					}
				}
			}
		}
		return true
	})
	c.Calls = map[string]func([]string) string{
		"strings.ToLower": func(a []string) string { return "(lower " + a[0] + ")" },
		"Model":           func(a []string) string { return a[0] }, // conversion string -> Model
	}
	c.Calls2 = map[string]call2{
		"regexp.Compile": {func(a []string) string { return "(VarCfg.compile matcher " + a[0] + ")" }, "err"},
	}
	c.Ret = func(rs []ast.Expr) (string, error) {
		if len(rs) != 1 {
			return "", fmt.Errorf("return arity")
		}
		if id, ok := rs[0].(*ast.Ident); ok && id.Name == "nil" {
			return "none", nil
		}
		v, err := c.ex(rs[0])
		return "(some " + v + ")", err
	}
	body, err := c.fn(fd)
	if err != nil {
		return fmt.Errorf("ParseToVariableMatchItem: %v", err)
	}
	fmt.Fprintf(sb, "/-- `ParseToVariableMatchItem`: `none` = the nil item. `VarCfg.compile` is the `regexp.Compile` oracle of the matcher, `VarCfg.regexText` its `Regex` text -/\ndef parseToVariableMatchItem (matcher : VarCfg) : Option VarItem :=\n  %s\n\n", body)
	return nil
}
