-- translation-unsupported ResourceSites: lstat -out/pkg: no such file or directory
namespace MosnVerif.Gen.ResourceSites
end MosnVerif.Gen.ResourceSites
