package main

import (
	"fmt"
	"go/ast"
	"go/token"
	"strings"
)

func init() {
	register("H2GoAway", c11h2Gen)
}

// ---------------------------------------------------------------------------------------------------------
// Gen.H2GoAway: what the HTTP/2 server connection (pkg/module/http2/mhttp2.go) does with the frames of a stream once it
// has sent a GOAWAY — the per-stream rule of the graceful stop.
//
//   processData:    the guard of the leading `if … { return false, nil }` (DATA frame discarded) as a Bool over
//                   (inGoAway, goAwayCode, stream id, maxClientStreamID)
//   processHeaders: the guard of the leading "ignore" return, and the stale-id test that is a connection error
//   goAway:         idempotent (`if sc.inGoAway { return }`), records the code, writes maxClientStreamID as last stream id
//   GracefulShutdown -> startGracefulShutdownInternal -> goAway(ErrCodeNo, nil): the code of the graceful GOAWAY

func c11h2IsReturnOf(s ast.Stmt, results ...string) bool {
	r, ok := s.(*ast.ReturnStmt)
	if !ok || len(r.Results) != len(results) {
		return false
	}
	for i, x := range r.Results {
		if exprKey(x) != results[i] {
			return false
		}
	}
	return true
}

// c11h2Guard finds the first top-level `if <cond mentioning sc.inGoAway> { [comments] return <results> }` of fd that
// precedes the statement `stop` (exprKey of a call inside it), and translates the condition.
func c11h2Guard(fd *ast.FuncDecl, env *Env, stopCall string, results ...string) (string, error) {
	for _, st := range fd.Body.List {
		if stopCall != "" && len(callsTo(st, stopCall)) > 0 {
			break
		}
		ifs, ok := st.(*ast.IfStmt)
		if !ok || ifs.Init != nil || !c11Mentions(ifs.Cond, "sc.inGoAway") {
			continue
		}
		if ifs.Else != nil || len(ifs.Body.List) != 1 || !c11h2IsReturnOf(ifs.Body.List[0], results...) {
			return "", fmt.Errorf("%s: the go-away branch is not a plain `return %s`", fd.Name.Name, strings.Join(results, ", "))
		}
		c, err := env.expr(ifs.Cond)
		if err != nil {
			return "", fmt.Errorf("%s: go-away guard `%s`: %v", fd.Name.Name, exprKey(ifs.Cond), err)
		}
		return c, nil
	}
	return "false", nil // no such branch: nothing is dropped on account of the go-away
}

func c11h2Gen() (string, error) {
	const src = "pkg/module/http2/mhttp2.go"
	const dir = "pkg/module/http2"
	f, err := parse(src)
	if err != nil {
		return "", err
	}
	s := header("H2GoAway", src+" (MServerConn.processData / processHeaders / goAway / GracefulShutdown)", dir+"/errors.go")
	s += "set_option linter.unusedVariables false\n"
	codes := map[string]int64{}
	for _, n := range []string{"ErrCodeNo", "ErrCodeProtocol", "ErrCodeStreamClosed"} {
		v, err := intConst(dir, n)
		if err != nil {
			return "", err
		}
		codes[n] = v
		s += fmt.Sprintf("def %s : Int := %d\n", n, v)
	}
	names := func() map[string]string {
		return map[string]string{"sc.inGoAway": "inGoAway", "sc.goAwayCode": "goAwayCode", "sc.maxClientStreamID": "maxClientStreamID",
			"id": "id", "ErrCodeNo": "ErrCodeNo", "ErrCodeProtocol": "ErrCodeProtocol", "ErrCodeStreamClosed": "ErrCodeStreamClosed"}
	}
	// ---- processData
	pd := findFunc(f, "MServerConn", "processData")
	if pd == nil {
		return "", fmt.Errorf("MServerConn.processData not found")
	}
	idOK := false
	for _, st := range pd.Body.List {
		if a, ok := st.(*ast.AssignStmt); ok && a.Tok == token.DEFINE && len(a.Lhs) == 1 && exprKey(a.Lhs[0]) == "id" && exprKey(a.Rhs[0]) == "f.Header().StreamID" {
			idOK = true
		}
		if len(callsTo(st, "sc.state")) > 0 {
			break
		}
	}
	if !idOK {
		return "", fmt.Errorf("processData: `id := f.Header().StreamID` not found before the state lookup")
	}
	g, err := c11h2Guard(pd, &Env{Names: names(), Calls: map[string]string{}}, "sc.state", "false", "nil")
	if err != nil {
		return "", err
	}
	s += "/-- MServerConn.processData: the DATA frame of stream `id` is dropped (no body bytes accounted, END_STREAM not reported) -/\n"
	s += "def dataDiscarded (inGoAway : Bool) (goAwayCode id maxClientStreamID : Int) : Bool := " + g + "\n"
	// ---- processHeaders
	ph := findFunc(f, "MServerConn", "processHeaders")
	if ph == nil {
		return "", fmt.Errorf("MServerConn.processHeaders not found")
	}
	idOK = false
	for _, st := range ph.Body.List {
		if a, ok := st.(*ast.AssignStmt); ok && a.Tok == token.DEFINE && len(a.Lhs) == 1 && exprKey(a.Lhs[0]) == "id" && exprKey(a.Rhs[0]) == "f.StreamID" {
			idOK = true
		}
	}
	if !idOK {
		return "", fmt.Errorf("processHeaders: `id := f.StreamID` not found")
	}
	g, err = c11h2Guard(ph, &Env{Names: names(), Calls: map[string]string{}}, "sc.getStream", "nil", "false", "false", "nil")
	if err != nil {
		return "", err
	}
	s += "/-- MServerConn.processHeaders: the HEADERS frame (new stream or trailers) is ignored -/\n"
	s += "def headersIgnored (inGoAway : Bool) (goAwayCode id maxClientStreamID : Int) : Bool := " + g + "\n"
	stale := ""
	assigns := false
	for _, st := range ph.Body.List {
		if ifs, ok := st.(*ast.IfStmt); ok && ifs.Init == nil && c11Mentions(ifs.Cond, "sc.maxClientStreamID") && !c11Mentions(ifs.Cond, "sc.inGoAway") && stale == "" {
			if len(ifs.Body.List) != 1 || !c11h2IsReturnOf(ifs.Body.List[0], "nil", "false", "false", "ConnectionError(ErrCodeProtocol)") {
				return "", fmt.Errorf("processHeaders: the stale stream id branch is not `return …, ConnectionError(ErrCodeProtocol)`")
			}
			c, err := (&Env{Names: names(), Calls: map[string]string{}}).expr(ifs.Cond)
			if err != nil {
				return "", fmt.Errorf("processHeaders: stale id test: %v", err)
			}
			stale = c
			continue
		}
		if a, ok := st.(*ast.AssignStmt); ok && stale != "" && a.Tok == token.ASSIGN && len(a.Lhs) == 1 && exprKey(a.Lhs[0]) == "sc.maxClientStreamID" && exprKey(a.Rhs[0]) == "id" {
			assigns = true
		}
	}
	if stale == "" || !assigns {
		return "", fmt.Errorf("processHeaders: `if id <= sc.maxClientStreamID { …PROTOCOL_ERROR }; sc.maxClientStreamID = id` not found")
	}
	s += "/-- MServerConn.processHeaders: a new stream whose id does not exceed every earlier one is a PROTOCOL_ERROR connection error; otherwise maxClientStreamID := id -/\n"
	s += "def headersStale (id maxClientStreamID : Int) : Bool := " + stale + "\n"
	// ---- processResetStream
	pr := findFunc(f, "MServerConn", "processResetStream")
	if pr == nil {
		return "", fmt.Errorf("MServerConn.processResetStream not found")
	}
	rn := names()
	rn["f.StreamID"] = "id"
	g, err = c11h2Guard(pr, &Env{Names: rn, Calls: map[string]string{}}, "sc.state", "nil")
	if err != nil {
		return "", err
	}
	s += "/-- MServerConn.processResetStream: the RST_STREAM frame is discarded before the stream-state test (an idle stream is a PROTOCOL_ERROR connection error) -/\n"
	s += "def rstDiscarded (inGoAway : Bool) (goAwayCode id maxClientStreamID : Int) : Bool := " + g + "\n"
	// ---- goAway
	ga := findFunc(f, "MServerConn", "goAway")
	if ga == nil || len(ga.Type.Params.List) < 1 || len(ga.Type.Params.List[0].Names) < 1 {
		return "", fmt.Errorf("MServerConn.goAway(code, …) not found")
	}
	codeParam := ga.Type.Params.List[0].Names[0].Name
	once, sets, records := false, false, false
	if len(ga.Body.List) > 0 {
		if ifs, ok := ga.Body.List[0].(*ast.IfStmt); ok && exprKey(ifs.Cond) == "sc.inGoAway" && len(ifs.Body.List) == 1 && c11h2IsReturnOf(ifs.Body.List[0]) {
			once = true
		}
	}
	for _, st := range ga.Body.List {
		if a, ok := st.(*ast.AssignStmt); ok && a.Tok == token.ASSIGN && len(a.Lhs) == 1 {
			if exprKey(a.Lhs[0]) == "sc.inGoAway" && exprKey(a.Rhs[0]) == "true" {
				sets = true
			}
			if exprKey(a.Lhs[0]) == "sc.goAwayCode" && exprKey(a.Rhs[0]) == codeParam {
				records = true
			}
		}
	}
	if !sets || !records {
		return "", fmt.Errorf("goAway: `sc.inGoAway = true; sc.goAwayCode = %s` not found", codeParam)
	}
	writesLast := len(callsTo(ga, "sc.Framer.startWrite")) == 1 && c11Mentions(ga, "FrameGoAway") && c11Mentions(ga, "sc.maxClientStreamID")
	s += "/-- MServerConn.goAway: a second call is a no-op; the first records the code and writes maxClientStreamID as the last stream id -/\n"
	s += fmt.Sprintf("def goAwayOnce : Bool := %v\ndef goAwayWritesMaxClientStream : Bool := %v\n", once, writesLast)
	// ---- graceful shutdown
	gs := findFunc(f, "MServerConn", "GracefulShutdown")
	gi := findFunc(f, "MServerConn", "startGracefulShutdownInternal")
	if gs == nil || gi == nil || len(callsTo(gs, "sc.startGracefulShutdownInternal")) != 1 {
		return "", fmt.Errorf("GracefulShutdown -> startGracefulShutdownInternal not found")
	}
	cs := callsTo(gi, "sc.goAway")
	if len(cs) != 1 || len(cs[0].Args) < 1 {
		return "", fmt.Errorf("startGracefulShutdownInternal: sc.goAway(code, …) not found")
	}
	cv, ok := codes[exprKey(cs[0].Args[0])]
	if !ok {
		return "", fmt.Errorf("startGracefulShutdownInternal: go-away code %s is not a known constant", exprKey(cs[0].Args[0]))
	}
	s += "/-- the code of the GOAWAY that GracefulShutdown() sends -/\n"
	s += fmt.Sprintf("def gracefulCode : Int := %d\n", cv)
	ext, err := c11gwHandlers(f)
	if err != nil {
		return "", err
	}
	s += ext
	s += footer("H2GoAway")
	return s, nil
}
