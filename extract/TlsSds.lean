-- translation-unsupported TlsSds: open -out/pkg/mtls/secret_manager.go: no such file or directory
namespace MosnVerif.Gen.TlsSds
end MosnVerif.Gen.TlsSds
