package main

import (
	"fmt"
	"go/ast"
	"go/token"
	"strings"
)

func init() { register("ListenerAddr", genC19aListenerAddr) }

// genC19aListenerAddr regenerates how a listener's address travels between `AddrConfig string` and `Addr net.Addr`
// (property C19): the statement lists of `Listener.MarshalJSON` / `Listener.UnmarshalJSON` (pkg/config/v2/server.go) and of
// the address resolution at the head of `configmanager.ParseListenerConfig` (pkg/configmanager/parser.go), over a closed
// vocabulary:
//
//	MarshalJSON:   ifAddrSet      `if l.Addr != nil {`          (the guard of the next step)
//	               printVerbatim  `l.AddrConfig = l.Addr.String()`  — the address is written exactly as net.Addr prints it
//	               marshalConfig  `return json.Marshal(l.ListenerConfig)`
//	UnmarshalJSON / ParseListenerConfig:
//	               decodeConfig   `if err := json.Unmarshal(b, &l.ListenerConfig); err != nil { return err }`
//	               requireAddress `if l.AddrConfig == "" { return ErrNoAddrListener }`
//	               defaultTcp     `if X.Network == "" { X.Network = "tcp" }`
//	               lowerNetwork   `X.Network = strings.ToLower(X.Network)`
//	               ifAddrNil      `if lc.Addr == nil {` (ParseListenerConfig: an Addr that is set wins over the text)
//	               resolve        `switch X.Network { case "n": addr, err = net.Resolve<F>Addr("n", X.AddrConfig) … default: err = … }`
//	                              with the table of (case label, resolver function, network argument) emitted separately
//	               failOnError    `if err != nil { return err }` / `{ log…Fatalf(…) }`
//	               setAddr        `X.Addr = addr`
//	               setBufferLimit `l.PerConnBufferLimitBytes = defaultBufferLimit`
//	               done           `return nil`
//
// Any other statement — in particular any branch on the address value (`IsUnspecified`, `To4`, a rewrite of the printed
// text) — is a different shape: translation-unsupported. Declarations (`var err error`, `var addr net.Addr`) and logging are
// skipped. What the resolvers and `String()` do is the hand-written Model/ListenerAddr.lean (validated by the correspondence).

func c19aIsLog(st ast.Stmt) bool {
	es, ok := st.(*ast.ExprStmt)
	if !ok {
		return false
	}
	ce, ok := es.X.(*ast.CallExpr)
	return ok && strings.HasPrefix(exprKey(ce.Fun), "log.")
}

func c19aErrNotNil(e ast.Expr) bool {
	be, ok := e.(*ast.BinaryExpr)
	return ok && be.Op == token.NEQ && exprKey(be.X) == "err" && exprKey(be.Y) == "nil"
}

// c19aResolveSwitch: the switch over the network; returns the rows "(label, func, netarg)"
func c19aResolveSwitch(sw *ast.SwitchStmt, recv string) ([]string, error) {
	if sw.Init != nil || exprKey(sw.Tag) != recv+".Network" {
		return nil, fmt.Errorf("switch over something else than %s.Network", recv)
	}
	var rows []string
	hasDefault := false
	for _, c := range sw.Body.List {
		cc := c.(*ast.CaseClause)
		if len(cc.Body) != 1 {
			return nil, fmt.Errorf("case with %d statements at %s", len(cc.Body), fset.Position(cc.Pos()))
		}
		as, ok := cc.Body[0].(*ast.AssignStmt)
		if !ok || as.Tok != token.ASSIGN || len(as.Rhs) != 1 {
			return nil, fmt.Errorf("case body is not an assignment at %s", fset.Position(cc.Pos()))
		}
		if cc.List == nil {
			if len(as.Lhs) != 1 || exprKey(as.Lhs[0]) != "err" {
				return nil, fmt.Errorf("default case does not only set err at %s", fset.Position(cc.Pos()))
			}
			hasDefault = true
			continue
		}
		if len(cc.List) != 1 || len(as.Lhs) != 2 || exprKey(as.Lhs[0]) != "addr" || exprKey(as.Lhs[1]) != "err" {
			return nil, fmt.Errorf("case is not `case \"n\": addr, err = …` at %s", fset.Position(cc.Pos()))
		}
		lab, ok := cc.List[0].(*ast.BasicLit)
		if !ok || lab.Kind != token.STRING {
			return nil, fmt.Errorf("case label is not a string at %s", fset.Position(cc.Pos()))
		}
		ce, ok := as.Rhs[0].(*ast.CallExpr)
		if !ok || len(ce.Args) != 2 || exprKey(ce.Args[1]) != recv+".AddrConfig" {
			return nil, fmt.Errorf("resolver is not called with (network, %s.AddrConfig) at %s", recv, fset.Position(cc.Pos()))
		}
		na, ok := ce.Args[0].(*ast.BasicLit)
		if !ok || na.Kind != token.STRING {
			return nil, fmt.Errorf("resolver network is not a literal at %s", fset.Position(cc.Pos()))
		}
		rows = append(rows, fmt.Sprintf("(%s, %q, %s)", lab.Value, exprKey(ce.Fun), na.Value))
	}
	if !hasDefault {
		return nil, fmt.Errorf("no default case rejecting other networks")
	}
	return rows, nil
}

// c19aSteps renders statements (up to `limit` top-level ones, 0 = all) of a function working on receiver/parameter recv.
func c19aSteps(fn string, stmts []ast.Stmt, recv string, rows *[]string) ([]string, error) {
	var out []string
	for _, st := range stmts {
		bad := func(why string) error { return fmt.Errorf("%s: %s at %s", fn, why, fset.Position(st.Pos())) }
		if c19aIsLog(st) {
			continue
		}
		switch x := st.(type) {
		case *ast.DeclStmt:
			continue
		case *ast.ReturnStmt:
			if len(x.Results) == 1 && exprKey(x.Results[0]) == "nil" {
				out = append(out, ".done")
				continue
			}
			if len(x.Results) == 1 && isCallExpr(x.Results[0], "json.Marshal", 1) &&
				exprKey(x.Results[0].(*ast.CallExpr).Args[0]) == recv+".ListenerConfig" {
				out = append(out, ".marshalConfig")
				continue
			}
			return nil, bad("unsupported return")
		case *ast.AssignStmt:
			if len(x.Lhs) != 1 || len(x.Rhs) != 1 || x.Tok != token.ASSIGN {
				return nil, bad("unsupported assignment")
			}
			l, r := exprKey(x.Lhs[0]), exprKey(x.Rhs[0])
			switch {
			case l == recv+".AddrConfig" && r == recv+".Addr.String()":
				out = append(out, ".printVerbatim")
			case l == recv+".Network" && r == "strings.ToLower("+recv+".Network)":
				out = append(out, ".lowerNetwork")
			case l == recv+".Addr" && r == "addr":
				out = append(out, ".setAddr")
			case l == recv+".PerConnBufferLimitBytes" && r == "defaultBufferLimit":
				out = append(out, ".setBufferLimit")
			default:
				return nil, bad("unsupported assignment " + l + " = " + r)
			}
		case *ast.SwitchStmt:
			rs, err := c19aResolveSwitch(x, recv)
			if err != nil {
				return nil, bad(err.Error())
			}
			*rows = rs
			out = append(out, ".resolve")
		case *ast.IfStmt:
			if x.Else != nil {
				return nil, bad("if with else")
			}
			if x.Init != nil {
				// if err := json.Unmarshal(b, &l.ListenerConfig); err != nil { return err }
				as, ok := x.Init.(*ast.AssignStmt)
				if ok && len(as.Rhs) == 1 && isCallExpr(as.Rhs[0], "json.Unmarshal", 2) &&
					exprKey(as.Rhs[0].(*ast.CallExpr).Args[1]) == "&"+recv+".ListenerConfig" && c19aErrNotNil(x.Cond) && len(x.Body.List) == 1 {
					out = append(out, ".decodeConfig")
					continue
				}
				return nil, bad("unsupported if with init")
			}
			be, ok := x.Cond.(*ast.BinaryExpr)
			if !ok {
				return nil, bad("unsupported condition")
			}
			cl, cr := exprKey(be.X), exprKey(be.Y)
			switch {
			case be.Op == token.NEQ && cl == recv+".Addr" && cr == "nil":
				sub, err := c19aSteps(fn, x.Body.List, recv, rows)
				if err != nil {
					return nil, err
				}
				out = append(out, ".ifAddrSet")
				out = append(out, sub...)
			case be.Op == token.EQL && cl == recv+".Addr" && cr == "nil":
				sub, err := c19aSteps(fn, x.Body.List, recv, rows)
				if err != nil {
					return nil, err
				}
				out = append(out, ".ifAddrNil")
				out = append(out, sub...)
			case be.Op == token.EQL && cl == recv+".AddrConfig" && cr == `""`:
				if len(x.Body.List) != 1 {
					return nil, bad("address guard with more than a return")
				}
				if _, ok := x.Body.List[0].(*ast.ReturnStmt); !ok {
					return nil, bad("address guard does not return")
				}
				out = append(out, ".requireAddress")
			case be.Op == token.EQL && cl == recv+".Network" && cr == `""`:
				l, r, ok := "", ast.Expr(nil), false
				if len(x.Body.List) == 1 {
					l, r, ok = assignParts(x.Body.List[0], token.ASSIGN)
				}
				if !ok || l != recv+".Network" || exprKey(r) != `"tcp"` {
					return nil, bad("network default is not tcp")
				}
				out = append(out, ".defaultTcp")
			case be.Op == token.NEQ && cl == "err" && cr == "nil":
				if len(x.Body.List) != 1 {
					return nil, bad("error branch with more than one statement")
				}
				_, isRet := x.Body.List[0].(*ast.ReturnStmt)
				if !isRet && !c19aIsLog(x.Body.List[0]) {
					return nil, bad("error branch neither returns nor logs fatally")
				}
				out = append(out, ".failOnError")
			default:
				return nil, bad("branch on " + cl + " " + be.Op.String() + " " + cr)
			}
		default:
			return nil, bad(fmt.Sprintf("unsupported statement %T", st))
		}
	}
	return out, nil
}

func genC19aListenerAddr() (string, error) {
	f, err := parse("pkg/config/v2/server.go")
	if err != nil {
		return "", err
	}
	s := header("ListenerAddr", "pkg/config/v2/server.go (Listener.MarshalJSON / UnmarshalJSON), pkg/configmanager/parser.go (ParseListenerConfig, address resolution)")
	s += "/-- the step vocabulary (fixed text of the extractor); a branch on the address VALUE has no step. -/\n"
	s += "inductive Step where\n  | ifAddrSet | printVerbatim | marshalConfig | decodeConfig | requireAddress | defaultTcp | lowerNetwork | ifAddrNil\n  | resolve | failOnError | setAddr | setBufferLimit | done\nderiving DecidableEq, Repr, Inhabited\n\n"
	m := findFunc(f, "Listener", "MarshalJSON")
	u := findFunc(f, "Listener", "UnmarshalJSON")
	if m == nil || u == nil || c12vRecvName(m) == "" || c12vRecvName(u) == "" {
		return "", fmt.Errorf("Listener.MarshalJSON / UnmarshalJSON not found")
	}
	var none, urows, prows []string
	ms, err := c19aSteps("Listener.MarshalJSON", m.Body.List, c12vRecvName(m), &none)
	if err != nil {
		return "", err
	}
	us, err := c19aSteps("Listener.UnmarshalJSON", u.Body.List, c12vRecvName(u), &urows)
	if err != nil {
		return "", err
	}
	pf, err := parse("pkg/configmanager/parser.go")
	if err != nil {
		return "", err
	}
	p := findFunc(pf, "", "ParseListenerConfig")
	if p == nil || len(p.Type.Params.List) == 0 || len(p.Type.Params.List[0].Names) == 0 {
		return "", fmt.Errorf("ParseListenerConfig not found")
	}
	recv := p.Type.Params.List[0].Names[0].Name
	// the head of the function: up to (and without) the first statement that declares the inherited listener
	var head []ast.Stmt
	for _, st := range p.Body.List {
		if ds, ok := st.(*ast.DeclStmt); ok {
			if gd, ok := ds.Decl.(*ast.GenDecl); ok && len(gd.Specs) == 1 {
				if vs, ok := gd.Specs[0].(*ast.ValueSpec); ok && len(vs.Names) == 1 && vs.Names[0].Name == "old" {
					break
				}
			}
		}
		head = append(head, st)
	}
	if len(head) == len(p.Body.List) {
		return "", fmt.Errorf("ParseListenerConfig: the declaration of `old` (end of the address resolution) not found")
	}
	ps, err := c19aSteps("ParseListenerConfig", head, recv, &prows)
	if err != nil {
		return "", err
	}
	s += "/-- `Listener.MarshalJSON`. -/\ndef marshal : List Step := [" + strings.Join(ms, ", ") + "]\n\n"
	s += "/-- `Listener.UnmarshalJSON`. -/\ndef unmarshal : List Step := [" + strings.Join(us, ", ") + "]\n\n"
	s += "/-- the resolver table of `UnmarshalJSON`: (case label, function, network argument); other networks are rejected. -/\n"
	s += "def unmarshalResolvers : List (String × String × String) := [" + strings.Join(urows, ", ") + "]\n\n"
	s += "/-- the head of `configmanager.ParseListenerConfig` (up to the inheritance of old listeners). -/\ndef parse : List Step := [" + strings.Join(ps, ", ") + "]\n\n"
	s += "/-- its resolver table. -/\ndef parseResolvers : List (String × String × String) := [" + strings.Join(prows, ", ") + "]\n"
	s += footer("ListenerAddr")
	return s, nil
}
