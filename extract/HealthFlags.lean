-- translation-unsupported HealthFlags: open -out/pkg/upstream/cluster/health.go: no such file or directory
namespace MosnVerif.Gen.HealthFlags
end MosnVerif.Gen.HealthFlags
