-- translation-unsupported RecvOrder: open -out/pkg/stream/client.go: no such file or directory
namespace MosnVerif.Gen.RecvOrder
end MosnVerif.Gen.RecvOrder
