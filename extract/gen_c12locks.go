package main

import (
	"fmt"
	"go/ast"
	"go/token"
	"strings"
)

func init() { register("RouterLocks", genRouterLocks) }

// genRouterLocks regenerates the LOCK STRUCTURE of the router manager (pkg/router/routers_manager.go): for every mutator
// (`AddOrUpdateRouters`, `AddRoute`, `RemoveAllRoutes`) and reader (`GetRouterWrapperByName`, `RoutersWrapper.GetRouters`,
// `RoutersWrapper.GetRoutersConfig`) the statements in source order as a step program over a fixed vocabulary: which lock
// (`rm.updateMux`, `rw.mux` read / write) is taken and released where, and between which of them the wrapper is read
// (`routers := rw.routers`, `cfg := rw.routersConfig`), the live table is modified (`routers.AddRoute / RemoveAllRoutes`), the
// config object is read / written, the wrapper is assigned, and the config is recorded (`configmanager.SetRouter`).
// A mutator whose body is `if v, ok := rm.routersWrapperMap.Load(name); ok { A } else { B }` yields two programs: `_found`
// (lookup, A) and `_absent` (lookup, B). `defer X.Unlock()` becomes an unlock step at the end of the program (reverse order of the
// defers); the early returns are the `build` (error => return), `checkTable` (nil routers => return) and `checkIndex`
// (index -1 => return) steps. Logging, the verif yield points, the type assertion of the loaded value and the nil guard of a
// parameter are skipped. Any other statement is rejected (=> translation-unsupported).
// What each step DOES is the hand-written `Model/RouterLocks.lean`; whether the programs have the lock discipline the
// serializability theorem needs is decided in Lean on the regenerated lists.

type c12lProg struct {
	steps  []string
	defers []string // unlock steps of the defers, in source order
}

func (p *c12lProg) emit(s string) { p.steps = append(p.steps, "."+s) }

// leaks reports a lock that is held at this point of the program and whose unlock is not deferred: an early return here would
// leave it locked (the model's early return releases what the call holds, as Go's defer does)
func (p *c12lProg) leaks() string {
	held := map[string]bool{}
	for _, s := range p.steps {
		switch s {
		case ".lock", ".rlock", ".mlock":
			held[s[1:]] = true
		case ".unlock":
			held["lock"] = false
		case ".runlock":
			held["rlock"] = false
		case ".munlock":
			held["mlock"] = false
		}
	}
	for _, d := range p.defers {
		switch d {
		case "unlock":
			held["lock"] = false
		case "runlock":
			held["rlock"] = false
		case "munlock":
			held["mlock"] = false
		}
	}
	for _, k := range []string{"lock", "rlock", "mlock"} {
		if held[k] {
			return k
		}
	}
	return ""
}

func (p *c12lProg) clone() *c12lProg {
	return &c12lProg{steps: append([]string{}, p.steps...), defers: append([]string{}, p.defers...)}
}

func (p *c12lProg) lean() string {
	all := append([]string{}, p.steps...)
	for i := len(p.defers) - 1; i >= 0; i-- {
		all = append(all, "."+p.defers[i])
	}
	return "[" + strings.Join(all, ", ") + "]"
}

func c12lCallKey(st ast.Stmt) (string, *ast.CallExpr) {
	es, ok := st.(*ast.ExprStmt)
	if !ok {
		return "", nil
	}
	ce, ok := es.X.(*ast.CallExpr)
	if !ok {
		return "", nil
	}
	return exprKey(ce.Fun), ce
}

func c12lIsLog(st ast.Stmt) bool {
	if k, _ := c12lCallKey(st); k != "" {
		return strings.HasPrefix(k, "log.") || k == "verifRouterYield"
	}
	if is, ok := st.(*ast.IfStmt); ok && is.Init == nil && is.Else == nil && strings.HasPrefix(exprKey(condLeft(is.Cond)), "log.") {
		for _, s := range is.Body.List {
			if !c12lIsLog(s) {
				return false
			}
		}
		return true
	}
	return false
}

// c12lLogReturn: a block of logging statements / assignments of a message string, ending in a return
func c12lLogReturn(b *ast.BlockStmt) bool {
	if len(b.List) == 0 {
		return false
	}
	for i, s := range b.List {
		if i == len(b.List)-1 {
			_, ok := s.(*ast.ReturnStmt)
			return ok
		}
		if c12lIsLog(s) {
			continue
		}
		if a, ok := s.(*ast.AssignStmt); ok && a.Tok == token.DEFINE && len(a.Lhs) == 1 && len(a.Rhs) == 1 {
			if ce, ok := a.Rhs[0].(*ast.CallExpr); ok && exprKey(ce.Fun) == "fmt.Sprintf" {
				continue
			}
		}
		return false
	}
	return false
}

// c12lRoot: the identifier at the root of a selector / index / star chain
func c12lRoot(e ast.Expr) string {
	for {
		switch x := e.(type) {
		case *ast.Ident:
			return x.Name
		case *ast.SelectorExpr:
			e = x.X
		case *ast.IndexExpr:
			e = x.X
		case *ast.StarExpr:
			e = x.X
		case *ast.ParenExpr:
			e = x.X
		default:
			return ""
		}
	}
}

func c12lMentionsRoot(n ast.Node, root string) bool {
	found := false
	ast.Inspect(n, func(m ast.Node) bool {
		if se, ok := m.(*ast.SelectorExpr); ok && c12lRoot(se) == root {
			found = true
		}
		return true
	})
	return found
}

var c12lLockCalls = map[string]string{
	"rm.updateMux.Lock": "mlock", "rm.updateMux.Unlock": "munlock",
	"rw.mux.Lock": "lock", "rw.mux.Unlock": "unlock", "rw.mux.RLock": "rlock", "rw.mux.RUnlock": "runlock",
}

func c12lIsWrapperLit(e ast.Expr) bool {
	u, ok := e.(*ast.UnaryExpr)
	if !ok || u.Op != token.AND {
		return false
	}
	cl, ok := u.X.(*ast.CompositeLit)
	return ok && exprKey(cl.Type) == "RoutersWrapper"
}

// c12lBranch renders the statements of one branch (or of a wrapper method body) into p.
func c12lBranch(fn string, stmts []ast.Stmt, p *c12lProg, mutator string) error {
	lastPeek := false
	for i := 0; i < len(stmts); i++ {
		st := stmts[i]
		bad := func(why string) error {
			return fmt.Errorf("%s: %s at %s", fn, why, fset.Position(st.Pos()))
		}
		wasPeek := lastPeek
		lastPeek = false
		if c12lIsLog(st) {
			lastPeek = wasPeek
			continue
		}
		if k, ce := c12lCallKey(st); k != "" {
			if step, ok := c12lLockCalls[k]; ok && len(ce.Args) == 0 {
				p.emit(step)
				continue
			}
			switch {
			case k == "configmanager.SetRouter" && len(ce.Args) == 1:
				if _, ok := ce.Args[0].(*ast.StarExpr); !ok {
					return bad("SetRouter argument is not a dereferenced config pointer")
				}
				p.emit("store")
				continue
			case k == "rm.routersWrapperMap.Store" && len(ce.Args) == 2:
				if c12lIsWrapperLit(ce.Args[1]) {
					p.emit("newWrapper")
				} else if exprKey(ce.Args[1]) != "rw" {
					return bad("Store of something else than the new wrapper")
				}
				p.emit("publish")
				continue
			case k == "copy" && len(ce.Args) == 2 && c12lRoot(ce.Args[0]) != "cfg" && c12lRoot(ce.Args[0]) != "rw":
				if c12lMentionsRoot(ce, "cfg") && !wasPeek {
					p.emit("peekCfg")
				}
				lastPeek = true
				continue
			}
			return bad("unsupported call " + k)
		}
		switch x := st.(type) {
		case *ast.DeferStmt:
			step, ok := c12lLockCalls[exprKey(x.Call.Fun)]
			if !ok || len(x.Call.Args) != 0 || !strings.Contains(step, "unlock") {
				return bad("defer of something else than an unlock")
			}
			p.defers = append(p.defers, step)
			continue
		case *ast.ReturnStmt:
			if i != len(stmts)-1 {
				return bad("return before the end of the branch")
			}
			if len(x.Results) == 1 {
				switch exprKey(x.Results[0]) {
				case "rw.routers":
					p.emit("readTable")
				case "*rw.routersConfig":
					p.emit("readCfg")
				}
			}
			continue
		case *ast.IfStmt:
			if x.Init != nil || x.Else != nil || !c12lLogReturn(x.Body) {
				return bad("if statement that is not a guard `if c { log…; return … }`")
			}
			if l := p.leaks(); l != "" {
				return bad("early return while `" + l + "` is held without a deferred unlock")
			}
			switch c := x.Cond.(type) {
			case *ast.UnaryExpr:
				if c.Op == token.NOT && exprKey(c.X) == "ok" {
					continue // type assertion of the loaded value failed: cannot happen (only wrappers are stored)
				}
			case *ast.BinaryExpr:
				l, r := exprKey(c.X), exprKey(c.Y)
				switch {
				case c.Op == token.NEQ && l == "err" && r == "nil":
					if len(p.steps) == 0 || p.steps[len(p.steps)-1] != ".buildAny" {
						return bad("error check that does not follow NewRouters")
					}
					p.steps[len(p.steps)-1] = ".build"
					continue
				case c.Op == token.EQL && l == "routers" && r == "nil":
					p.emit("checkTable")
					continue
				case c.Op == token.EQL && l == "index" && r == "-1":
					if len(p.steps) == 0 || p.steps[len(p.steps)-1] != ".mutate" {
						return bad("index check that does not follow the table modification")
					}
					p.emit("checkIndex")
					continue
				}
			}
			return bad("unsupported guard")
		case *ast.AssignStmt:
			if len(x.Lhs) == 2 && len(x.Rhs) == 1 {
				if _, ok := x.Rhs[0].(*ast.TypeAssertExpr); ok && exprKey(x.Lhs[0]) == "rw" {
					continue
				}
				if ce, ok := x.Rhs[0].(*ast.CallExpr); ok && exprKey(ce.Fun) == "NewRouters" && len(ce.Args) == 1 && exprKey(ce.Args[0]) == "routerConfig" &&
					exprKey(x.Lhs[0]) == "routers" {
					// `routers, err :=` becomes `build` when the error check follows; `routers, _ :=` stays `buildAny`
					p.emit("buildAny")
					continue
				}
				return bad("unsupported two-valued assignment")
			}
			if len(x.Lhs) != 1 || len(x.Rhs) != 1 {
				return bad("unsupported assignment")
			}
			l, r := exprKey(x.Lhs[0]), exprKey(x.Rhs[0])
			switch {
			case l == "rw.routers" && r == "routers" && x.Tok == token.ASSIGN:
				p.emit("setTable")
			case l == "rw.routersConfig" && (r == "routerConfig" || r == "cfg") && x.Tok == token.ASSIGN:
				p.emit("setCfg")
			case l == "routers" && r == "rw.routers" && x.Tok == token.DEFINE:
				p.emit("readTable")
			case l == "cfg" && r == "rw.routersConfig" && x.Tok == token.DEFINE:
				p.emit("readCfg")
			case l == "rw" && x.Tok == token.DEFINE && c12lIsWrapperLit(x.Rhs[0]):
				p.emit("newWrapper")
			case l == "index" && x.Tok == token.DEFINE:
				ce, ok := x.Rhs[0].(*ast.CallExpr)
				if !ok || exprKey(ce.Fun) != "routers."+mutator {
					return bad("index is not the result of routers." + mutator)
				}
				p.emit("mutate")
			case c12lRoot(x.Lhs[0]) == "cfg":
				// cfg.VirtualHosts[index].Routers = …: a write into the config object the pointer refers to
				if c12lMentionsRoot(x.Rhs[0], "cfg") {
					return bad("config write whose right-hand side reads the config object")
				}
				p.emit("writeCfg")
			case c12lRoot(x.Lhs[0]) != "" && c12lRoot(x.Lhs[0]) != "rw" && c12lRoot(x.Lhs[0]) != "rm" && c12lRoot(x.Lhs[0]) != "routers":
				// a local (routersCfg := make(…), routersCfg[…] = *route): reads the config object when it mentions cfg
				if c12lMentionsRoot(st, "cfg") && !wasPeek {
					p.emit("peekCfg")
				}
				lastPeek = wasPeek || c12lMentionsRoot(st, "cfg")
			default:
				return bad("unsupported assignment " + l + " = " + r)
			}
			continue
		}
		return bad(fmt.Sprintf("unsupported statement %T", st))
	}
	return nil
}

// c12lMutator: the top level of a router-manager method: [nil guard of a parameter] [rm.updateMux.Lock(); defer Unlock()]
// `if v, ok := rm.routersWrapperMap.Load(…); ok {A} [else {B}]` `return nil`
func c12lMutator(fd *ast.FuncDecl, mutator string) (found, absent *c12lProg, err error) {
	fn := fd.Name.Name
	p := &c12lProg{}
	params := map[string]bool{}
	for _, f := range fd.Type.Params.List {
		for _, n := range f.Names {
			params[n.Name] = true
		}
	}
	for i, st := range fd.Body.List {
		bad := func(why string) error { return fmt.Errorf("%s: %s at %s", fn, why, fset.Position(st.Pos())) }
		if c12lIsLog(st) {
			continue
		}
		if _, isRet := st.(*ast.ReturnStmt); found != nil && !isRet {
			// a statement after the lookup is reached by both branches (those that did not return)
			if err := c12lBranch(fn+" (found)", []ast.Stmt{st}, found, mutator); err != nil {
				return nil, nil, err
			}
			if err := c12lBranch(fn+" (absent)", []ast.Stmt{st}, absent, mutator); err != nil {
				return nil, nil, err
			}
			continue
		}
		if k, ce := c12lCallKey(st); k != "" {
			if step, ok := c12lLockCalls[k]; ok && len(ce.Args) == 0 && strings.HasPrefix(step, "m") {
				p.emit(step)
				continue
			}
			return nil, nil, bad("unsupported call " + k)
		}
		switch x := st.(type) {
		case *ast.DeferStmt:
			step, ok := c12lLockCalls[exprKey(x.Call.Fun)]
			if !ok || step != "munlock" {
				return nil, nil, bad("defer of something else than rm.updateMux.Unlock()")
			}
			p.defers = append(p.defers, step)
		case *ast.ReturnStmt:
			if i != len(fd.Body.List)-1 || found == nil {
				return nil, nil, bad("return before the wrapper lookup / before the end")
			}
		case *ast.IfStmt:
			if be, ok := x.Cond.(*ast.BinaryExpr); ok && x.Init == nil && x.Else == nil && be.Op == token.EQL && exprKey(be.Y) == "nil" &&
				params[exprKey(be.X)] && c12lLogReturn(x.Body) && found == nil {
				continue // nil guard of a parameter
			}
			a, ok := x.Init.(*ast.AssignStmt)
			if !ok || found != nil || len(a.Lhs) != 2 || len(a.Rhs) != 1 || exprKey(x.Cond) != "ok" || exprKey(a.Lhs[0]) != "v" {
				return nil, nil, bad("if statement that is not the wrapper lookup")
			}
			ce, ok := a.Rhs[0].(*ast.CallExpr)
			if !ok || exprKey(ce.Fun) != "rm.routersWrapperMap.Load" || len(ce.Args) != 1 {
				return nil, nil, bad("lookup is not rm.routersWrapperMap.Load(name)")
			}
			p.emit("lookup")
			found, absent = p.clone(), p.clone()
			if err := c12lBranch(fn+" (found)", x.Body.List, found, mutator); err != nil {
				return nil, nil, err
			}
			if x.Else != nil {
				eb, ok := x.Else.(*ast.BlockStmt)
				if !ok {
					return nil, nil, bad("else-if after the wrapper lookup")
				}
				if err := c12lBranch(fn+" (absent)", eb.List, absent, mutator); err != nil {
					return nil, nil, err
				}
			}
		default:
			return nil, nil, bad(fmt.Sprintf("unsupported statement %T", st))
		}
	}
	if found == nil {
		return nil, nil, fmt.Errorf("%s: no wrapper lookup", fn)
	}
	return found, absent, nil
}

func genRouterLocks() (string, error) {
	f, err := parse("pkg/router/routers_manager.go")
	if err != nil {
		return "", err
	}
	s := header("RouterLocks", "pkg/router/routers_manager.go (lock structure of the router manager's mutators and readers)")
	s += "/-- the step vocabulary (fixed text of the extractor): `mlock/munlock` = `rm.updateMux`, `rlock/runlock/lock/unlock` = the wrapper's\n" +
		"`rw.mux`; `lookup` = `rm.routersWrapperMap.Load`; `build` / `buildAny` = `NewRouters(routerConfig)` returning on error / ignoring it;\n" +
		"`readTable` / `readCfg` = `routers := rw.routers` / `cfg := rw.routersConfig`; `checkTable` = return when the routers are nil;\n" +
		"`mutate` = `routers.AddRoute / RemoveAllRoutes` (in place on the table object), `checkIndex` = return on -1; `peekCfg` = locals computed\n" +
		"from the config object; `writeCfg` = `cfg.VirtualHosts[index].Routers = …` (in place on the config object); `setTable` / `setCfg` =\n" +
		"assignments to the wrapper; `store` = `configmanager.SetRouter(*cfg)`; `newWrapper` / `publish` = a new wrapper / its `Store` into the map. -/\n"
	s += "inductive Step where\n  | mlock | munlock | rlock | runlock | lock | unlock\n  | lookup | build | buildAny | readTable | checkTable | readCfg | mutate | checkIndex | peekCfg | writeCfg\n  | setTable | setCfg | store | newWrapper | publish\nderiving DecidableEq, Repr, Inhabited\n\n"
	for _, m := range []struct{ fn, lean, mut string }{
		{"AddOrUpdateRouters", "addOrUpdateRouters", "-"},
		{"AddRoute", "addRoute", "AddRoute"},
		{"RemoveAllRoutes", "removeAllRoutes", "RemoveAllRoutes"},
		{"GetRouterWrapperByName", "getRouterWrapperByName", "-"},
	} {
		fd := findFunc(f, "routersManagerImpl", m.fn)
		if fd == nil || fd.Recv.List[0].Names == nil || fd.Recv.List[0].Names[0].Name != "rm" {
			return "", fmt.Errorf("routersManagerImpl.%s (receiver rm) not found", m.fn)
		}
		found, absent, err := c12lMutator(fd, m.mut)
		if err != nil {
			return "", err
		}
		s += fmt.Sprintf("/-- `%s`, the router is in the map: statement by statement in source order. -/\ndef %s_found : List Step := %s\n", m.fn, m.lean, found.lean())
		s += fmt.Sprintf("/-- `%s`, no router of that name in the map. -/\ndef %s_absent : List Step := %s\n\n", m.fn, m.lean, absent.lean())
	}
	for _, m := range []struct{ fn, lean string }{{"GetRouters", "getRouters"}, {"GetRoutersConfig", "getRoutersConfig"}} {
		fd := findFunc(f, "RoutersWrapper", m.fn)
		if fd == nil || fd.Recv.List[0].Names == nil || fd.Recv.List[0].Names[0].Name != "rw" {
			return "", fmt.Errorf("RoutersWrapper.%s (receiver rw) not found", m.fn)
		}
		p := &c12lProg{}
		if err := c12lBranch(m.fn, fd.Body.List, p, "-"); err != nil {
			return "", err
		}
		s += fmt.Sprintf("/-- `RoutersWrapper.%s` (the request path reads the live table through it). -/\ndef %s : List Step := %s\n", m.fn, m.lean, p.lean())
	}
	s += footer("RouterLocks")
	return s, nil
}
