package main

// "pure-update" if statements: an `if` (possibly with an option-style init and nested ifs) that contains no return
// is rendered as a let-binding of the tuple of variables it assigns:
//     let (a, b) := if c then <updates; (a, b)> else (a, b)
// and `if v, ok := CALL; ok { … }` (or `err == nil`) becomes `match <OptCalls[CALL]> with | some v => … | none => …`.

import (
	"fmt"
	"go/ast"
	"go/token"
	"sort"
	"strings"
)

func containsReturn(n ast.Node) bool {
	found := false
	ast.Inspect(n, func(m ast.Node) bool {
		if _, ok := m.(*ast.ReturnStmt); ok {
			found = true
		}
		return !found
	})
	return found
}

// containsBranch: the node contains a break / continue / goto / fallthrough that is not enclosed in a nested loop,
// switch or select of its own (those bind their own break; a `continue` inside a nested loop belongs to that loop).
func containsBranch(n ast.Node) bool {
	found := false
	ast.Inspect(n, func(m ast.Node) bool {
		switch x := m.(type) {
		case *ast.ForStmt, *ast.RangeStmt, *ast.FuncLit:
			if m != n {
				return false
			}
		case *ast.SwitchStmt, *ast.TypeSwitchStmt, *ast.SelectStmt:
			if m != n {
				// a break in there belongs to that statement; continue / goto would not, but those forms are not
				// translated by pureIf anyway (unsupported statement)
				return false
			}
		case *ast.BranchStmt:
			_ = x
			found = true
		}
		return !found
	})
	return found
}

func containsPanic(n ast.Node) bool {
	found := false
	ast.Inspect(n, func(m ast.Node) bool {
		if c, ok := m.(*ast.CallExpr); ok {
			if id, ok := c.Fun.(*ast.Ident); ok && id.Name == "panic" {
				found = true
			}
		}
		return !found
	})
	return found
}

func callKey(c *ast.CallExpr) string {
	var args []string
	for _, a := range c.Args {
		args = append(args, exprKey(a))
	}
	return exprKey(c.Fun) + "(" + strings.Join(args, ",") + ")"
}

// assigned collects the env-mapped variables assigned (with = += -= ++ --) anywhere inside n.
func (env *Env) assigned(n ast.Node) []string {
	set := map[string]bool{}
	ast.Inspect(n, func(m ast.Node) bool {
		switch x := m.(type) {
		case *ast.AssignStmt:
			if x.Tok != token.DEFINE {
				for _, l := range x.Lhs {
					if v, ok := env.Names[exprKey(l)]; ok {
						set[v] = true
					}
				}
			}
		case *ast.IncDecStmt:
			if v, ok := env.Names[exprKey(x.X)]; ok {
				set[v] = true
			}
		}
		return true
	})
	var out []string
	for k := range set {
		out = append(out, k)
	}
	sort.Strings(out)
	return out
}

func pureTuple(vars []string) string {
	if len(vars) == 1 {
		return vars[0]
	}
	return "(" + strings.Join(vars, ", ") + ")"
}

func (env *Env) pureIf(x *ast.IfStmt, rest []ast.Stmt, ind string) (string, error) {
	vars := env.assigned(x)
	if containsBranch(x) {
		// added for C06: `break` / `continue` / `goto` change the control flow of the enclosing loop; dropping or
		// flattening such an if would silently change the meaning of the translated code
		return "", fmt.Errorf("if statement with break/continue/goto outside a control-aware translation")
	}
	if len(vars) == 0 {
		// no effect on modelled state
		return env.block(rest, ind)
	}
	subv := *env
	sub := &subv
	sub.Names = copyNames(env.Names)
	sub.Fall = pureTuple(vars)
	var tys []string
	for _, v := range vars {
		tys = append(tys, env.typeOf(v))
	}
	e, err := sub.ifExpr(x, ind+"  ")
	if err != nil {
		return "", err
	}
	k, err := env.block(rest, ind)
	if err != nil {
		return "", err
	}
	if env.Types == nil {
		return "let " + pureTuple(vars) + " := " + e + "\n" + ind + k, nil
	}
	return "let " + pureTuple(vars) + " := (" + e + " : " + strings.Join(tys, " × ") + ")\n" + ind + k, nil
}

// ifExpr renders one if statement (no returns inside) as an expression whose value is env.Fall after the updates.
func (env *Env) ifExpr(x *ast.IfStmt, ind string) (string, error) {
	var elseStmts []ast.Stmt
	switch eb := x.Else.(type) {
	case nil:
	case *ast.BlockStmt:
		elseStmts = eb.List
	case *ast.IfStmt:
		elseStmts = []ast.Stmt{eb}
	}
	if x.Init != nil {
		as, ok := x.Init.(*ast.AssignStmt)
		if !ok || as.Tok != token.DEFINE || len(as.Lhs) != 2 || len(as.Rhs) != 1 {
			return "", fmt.Errorf("unsupported if-init")
		}
		call, ok := as.Rhs[0].(*ast.CallExpr)
		if !ok {
			return "", fmt.Errorf("if-init is not a call")
		}
		opt, ok := env.OptCalls[callKey(call)]
		if !ok {
			return "", fmt.Errorf("unknown option call %s", callKey(call))
		}
		v, flag := exprKey(as.Lhs[0]), exprKey(as.Lhs[1])
		condOK := false
		switch c := x.Cond.(type) {
		case *ast.Ident:
			condOK = c.Name == flag
		case *ast.BinaryExpr:
			condOK = c.Op == token.EQL && exprKey(c.X) == flag && exprKey(c.Y) == "nil"
		}
		if !condOK {
			return "", fmt.Errorf("if-init condition is not the ok/err==nil test")
		}
		saved := copyNames(env.Names)
		env.Names[v] = v
		t, err := env.block(x.Body.List, ind+"  ")
		env.Names = copyNames(saved)
		if err != nil {
			return "", err
		}
		e, err := env.block(elseStmts, ind+"  ")
		env.Names = saved
		if err != nil {
			return "", err
		}
		return "(match " + opt + " with\n" + ind + "| some " + v + " =>\n" + ind + "  " + t + "\n" + ind + "| none =>\n" + ind + "  " + e + ")", nil
	}
	c, err := env.expr(x.Cond)
	if err != nil {
		return "", err
	}
	saved := copyNames(env.Names)
	t, err := env.block(x.Body.List, ind+"  ")
	env.Names = copyNames(saved)
	if err != nil {
		return "", err
	}
	e, err := env.block(elseStmts, ind+"  ")
	env.Names = saved
	if err != nil {
		return "", err
	}
	return "(if " + c + " then\n" + ind + "  " + t + "\n" + ind + "else\n" + ind + "  " + e + ")", nil
}
