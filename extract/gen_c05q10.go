package main

import (
	"fmt"
	"go/ast"
	"go/token"
	"strconv"
	"strings"
)

func init() { register("PoolLookup", genC05qPoolLookup) }

// genC05qPoolLookup regenerates the DATA FLOW of clusterManager.getActiveConnectionPool (cluster_manager.go) — the request
// path of a lookup: which host object travels with which connection pool — and the map selection of connPool.load.
//
// Closed vocabulary (anything else => translation-unsupported):
//
//	prologue   factory lookup, the two parallel arrays `[C]types.ConnectionPool` / `[C]types.Host`,
//	           `try := <snapshot>.HostNum(<ctx>.MetadataMatchCriteria())`, `if try == 0 {return nil, nil, …}`,
//	           `if try > C { try = C }`                                           => maxHosts = C
//	first loop `for i := 0; i < try; i++` over the statements
//	           host := <snapshot>.LoadBalancer().ChooseHost(<ctx>)               (.chosen)
//	           if host == nil { return nil, nil, … }
//	           addr := <host expr>.AddressString() | .Hostname()                 (key)
//	           m, ok := cm.protocolConnPool.load(<proto>, <snapshot>); if !ok { return nil, nil, … }
//	           f := func() (…) { Load(key) twice around the manager lock; pool := factory(ctx, <host expr>); Store(key, pool) }
//	           pool, loaded := f()
//	           if loaded { if !pool.TLSHashValue().Equal(<host>.TLSHashValue()) { func(){ lock; if Load(key) { pool = …;
//	               if equal {return}; Delete(key); pool.Shutdown(); pool = factory(ctx, <host expr>); Store(key, pool) } }() } }
//	           if pool.CheckAndInit(ctx) { return <pool expr>, <host expr>, nil }
//	           pools[<ix>] = <pool expr> ; hosts[<ix>] = <host expr>
//	poll loop  `for t := 0; t < P; t++ { for i := 0; i < try; i++ { if pools[<ix>] == nil {continue};
//	           if pools[<ix>].CheckAndInit(ctx) { return <pool expr>, <host expr>, nil } }; sleep }`  => maxPolls = P
//	epilogue   return nil, nil, …
//
// host expr: the ChooseHost result of the iteration (.chosen), `<pool>.Host()` (.poolHost), `hosts[<ix>]` (.slot ix), nil;
// pool expr: the pool the iteration loaded / created (.loopPool), `pools[<ix>]` (.slot ix), nil;
// ix: the loop variable of the enclosing loop (.loopVar), an integer literal (.const n).
func genC05qPoolLookup() (string, error) {
	const dir = "pkg/upstream/cluster"
	f, err := parse(dir + "/cluster_manager.go")
	if err != nil {
		return "", err
	}
	fd := findFunc(f, "clusterManager", "getActiveConnectionPool")
	if fd == nil {
		return "", fmt.Errorf("clusterManager.getActiveConnectionPool not found")
	}
	q := &c05qFlow{dir: dir, env: map[string]c05qVal{}}
	if err := q.function(fd); err != nil {
		return "", fmt.Errorf("getActiveConnectionPool: %v", err)
	}
	ld := findFunc(f, "connPool", "load")
	if ld == nil {
		return "", fmt.Errorf("connPool.load not found")
	}
	scope, err := c05qScope(ld)
	if err != nil {
		return "", fmt.Errorf("connPool.load: %v", err)
	}
	// the caller: ConnPoolForCluster hands pool and host of getActiveConnectionPool through unchanged
	cp := findFunc(f, "clusterManager", "ConnPoolForCluster")
	if cp == nil {
		return "", fmt.Errorf("clusterManager.ConnPoolForCluster not found")
	}
	if err := c05qPassThrough(cp); err != nil {
		return "", fmt.Errorf("ConnPoolForCluster: %v", err)
	}
	s := header("PoolLookup", dir+"/cluster_manager.go (getActiveConnectionPool, connPool.load, ConnPoolForCluster)")
	s += `/-- index of a slot of the parallel arrays pools / hosts (fixed text of the extractor). -/
inductive Ix where
  | loopVar | const (n : Nat)
deriving DecidableEq, Repr, Inhabited

/-- where a host value comes from. -/
inductive HostRef where
  | chosen | poolHost | slot (ix : Ix) | none
deriving DecidableEq, Repr, Inhabited

/-- where a pool value comes from. -/
inductive PoolRef where
  | loopPool | slot (ix : Ix) | none
deriving DecidableEq, Repr, Inhabited

/-- key of the pool map. -/
inductive Key where
  | address (h : HostRef) | hostname (h : HostRef)
deriving DecidableEq, Repr, Inhabited

/-- when a loaded pool is replaced. -/
inductive ReplaceCond where
  | tlsHashDiffers | never
deriving DecidableEq, Repr, Inhabited

/-- which pool map a lookup uses: the per-cluster one (keyed by the snapshot's cluster name) or the global one. -/
inductive ScopeCond where
  | managerOrCluster | managerOnly | clusterOnly | always | never
deriving DecidableEq, Repr, Inhabited

structure Ret where
  pool : PoolRef
  host : HostRef
deriving DecidableEq, Repr, Inhabited

structure Flow where
  maxHosts : Nat
  maxPolls : Nat
  loadKey : Key
  storeKey : Key
  createHost : HostRef
  replaceCond : ReplaceCond
  replaceDeleteKey : Key
  replaceStoreKey : Key
  recreateHost : HostRef
  firstReady : Ret
  slotPool : Ix × PoolRef
  slotHost : Ix × HostRef
  pollCheck : PoolRef
  pollReady : Ret
deriving DecidableEq, Repr, Inhabited

`
	s += "/-- `getActiveConnectionPool`, statement by statement. -/\n"
	s += "def flow : Flow :=\n  { maxHosts := " + strconv.Itoa(q.maxHosts) + ", maxPolls := " + strconv.Itoa(q.maxPolls) + ",\n"
	s += "    loadKey := " + q.loadKey + ", storeKey := " + q.storeKey + ", createHost := " + q.createHost + ",\n"
	s += "    replaceCond := " + q.replaceCond + ", replaceDeleteKey := " + q.replaceDeleteKey + ", replaceStoreKey := " + q.replaceStoreKey + ",\n"
	s += "    recreateHost := " + q.recreateHost + ",\n"
	s += "    firstReady := " + q.firstReady + ",\n"
	s += "    slotPool := " + q.slotPool + ", slotHost := " + q.slotHost + ",\n"
	s += "    pollCheck := " + q.pollCheck + ", pollReady := " + q.pollReady + " }\n"
	s += "/-- `connPool.load`: the per-cluster map (key: the snapshot's cluster name) is used under this condition, else the global one. -/\n"
	s += "def scopeCond : ScopeCond := " + scope + "\n"
	s += footer("PoolLookup")
	return s, nil
}

type c05qVal struct {
	sort string // host | pool | key | map | fn
	lean string
}

type c05qFlow struct {
	dir                                            string
	env                                            map[string]c05qVal
	ctxP, snapP, protoP                            string
	poolArr, hostArr                               string
	factory                                        string
	loopVar                                        string
	maxHosts, maxPolls                             int
	loadKey, storeKey, createHost                  string
	replaceCond, replaceDeleteKey, replaceStoreKey string
	recreateHost                                   string
	firstReady, slotPool, slotHost                 string
	pollCheck, pollReady                           string
	mapVar, closure                                string
	sawNilCheck                                    bool
}

func c05qAt(n ast.Node) string { return fset.Position(n.Pos()).String() }

// c05qKey renders an expression (idents, selectors, calls, index, unary, binary, type assertion, literals).
func c05qKey(e ast.Expr) string {
	switch x := e.(type) {
	case *ast.Ident:
		return x.Name
	case *ast.SelectorExpr:
		return c05qKey(x.X) + "." + x.Sel.Name
	case *ast.ParenExpr:
		return c05qKey(x.X)
	case *ast.StarExpr:
		return "*" + c05qKey(x.X)
	case *ast.UnaryExpr:
		return x.Op.String() + c05qKey(x.X)
	case *ast.BinaryExpr:
		return c05qKey(x.X) + x.Op.String() + c05qKey(x.Y)
	case *ast.BasicLit:
		return x.Value
	case *ast.IndexExpr:
		return c05qKey(x.X) + "[" + c05qKey(x.Index) + "]"
	case *ast.TypeAssertExpr:
		return c05qKey(x.X) + ".(" + c05qKey(x.Type) + ")"
	case *ast.ArrayType:
		return "[" + c05qKeyOpt(x.Len) + "]" + c05qKey(x.Elt)
	case *ast.CallExpr:
		var as []string
		for _, a := range x.Args {
			as = append(as, c05qKey(a))
		}
		return c05qKey(x.Fun) + "(" + strings.Join(as, ",") + ")"
	}
	return fmt.Sprintf("?%T", e)
}

func c05qKeyOpt(e ast.Expr) string {
	if e == nil {
		return ""
	}
	return c05qKey(e)
}

// c05qNilReturn: `return nil, nil, <anything>`.
func c05qNilReturn(st ast.Stmt) bool {
	r, ok := st.(*ast.ReturnStmt)
	return ok && len(r.Results) == 3 && c05qKey(r.Results[0]) == "nil" && c05qKey(r.Results[1]) == "nil"
}

// c05qFailIf: `if <cond> { return nil, nil, … }` without else / init; returns the rendered condition.
func c05qFailIf(st ast.Stmt) (string, bool) {
	i, ok := st.(*ast.IfStmt)
	if !ok || i.Init != nil || i.Else != nil || len(i.Body.List) != 1 || !c05qNilReturn(i.Body.List[0]) {
		return "", false
	}
	return c05qKey(i.Cond), true
}

// c05qLogOnly: `if log.…GetLogLevel() >= … { log.… }` or a bare log / metrics statement.
func c05qLogOnly(st ast.Stmt) bool {
	switch x := st.(type) {
	case *ast.IfStmt:
		if x.Init != nil || x.Else != nil || !strings.HasPrefix(c05qKey(x.Cond), "log.") {
			return false
		}
		for _, b := range x.Body.List {
			if !c05qLogOnly(b) {
				return false
			}
		}
		return true
	case *ast.ExprStmt:
		if c, ok := x.X.(*ast.CallExpr); ok {
			k := c05qKey(c.Fun)
			return strings.HasPrefix(k, "log.") || strings.HasPrefix(k, "cm.tlsMetrics.")
		}
	}
	return false
}

func c05qLockStmt(st ast.Stmt) bool {
	switch x := st.(type) {
	case *ast.ExprStmt:
		if c, ok := x.X.(*ast.CallExpr); ok {
			return c05qKey(c.Fun) == "cm.mux.Lock" && len(c.Args) == 0
		}
	case *ast.DeferStmt:
		return c05qKey(x.Call.Fun) == "cm.mux.Unlock" && len(x.Call.Args) == 0
	}
	return false
}

// c05qCountLoop: `for v := 0; v < <bound>; v++ { … }` => v, rendered bound.
func c05qCountLoop(st ast.Stmt) (*ast.ForStmt, string, string, bool) {
	fs, ok := st.(*ast.ForStmt)
	if !ok || fs.Init == nil || fs.Cond == nil || fs.Post == nil {
		return nil, "", "", false
	}
	in, ok := fs.Init.(*ast.AssignStmt)
	if !ok || in.Tok != token.DEFINE || len(in.Lhs) != 1 || len(in.Rhs) != 1 || c05qKey(in.Rhs[0]) != "0" {
		return nil, "", "", false
	}
	v := c05qKey(in.Lhs[0])
	c, ok := fs.Cond.(*ast.BinaryExpr)
	if !ok || c.Op != token.LSS || c05qKey(c.X) != v {
		return nil, "", "", false
	}
	p, ok := fs.Post.(*ast.IncDecStmt)
	if !ok || p.Tok != token.INC || c05qKey(p.X) != v {
		return nil, "", "", false
	}
	return fs, v, c05qKey(c.Y), true
}

func (q *c05qFlow) ix(e ast.Expr) (string, error) {
	switch x := e.(type) {
	case *ast.Ident:
		if x.Name == q.loopVar && q.loopVar != "" {
			return ".loopVar", nil
		}
	case *ast.BasicLit:
		if x.Kind == token.INT {
			if n, err := strconv.Atoi(x.Value); err == nil && n >= 0 {
				return fmt.Sprintf("(.const %d)", n), nil
			}
		}
	}
	return "", fmt.Errorf("unsupported slot index %s at %s", c05qKey(e), c05qAt(e))
}

// host evaluates a host-valued expression.
func (q *c05qFlow) host(e ast.Expr) (string, error) {
	switch x := e.(type) {
	case *ast.ParenExpr:
		return q.host(x.X)
	case *ast.Ident:
		if x.Name == "nil" {
			return ".none", nil
		}
		if v, ok := q.env[x.Name]; ok && v.sort == "host" {
			return v.lean, nil
		}
	case *ast.IndexExpr:
		if c05qKey(x.X) == q.hostArr {
			i, err := q.ix(x.Index)
			if err != nil {
				return "", err
			}
			return "(.slot " + i + ")", nil
		}
	case *ast.CallExpr:
		if c05qKey(e) == q.snapP+".LoadBalancer().ChooseHost("+q.ctxP+")" {
			return ".chosen", nil
		}
		if s, ok := x.Fun.(*ast.SelectorExpr); ok && s.Sel.Name == "Host" && len(x.Args) == 0 {
			if _, err := q.pool(s.X); err == nil {
				return ".poolHost", nil
			}
		}
	}
	return "", fmt.Errorf("unsupported host expression %s at %s", c05qKey(e), c05qAt(e))
}

// pool evaluates a pool-valued expression.
func (q *c05qFlow) pool(e ast.Expr) (string, error) {
	switch x := e.(type) {
	case *ast.ParenExpr:
		return q.pool(x.X)
	case *ast.Ident:
		if x.Name == "nil" {
			return ".none", nil
		}
		if v, ok := q.env[x.Name]; ok && v.sort == "pool" {
			return v.lean, nil
		}
	case *ast.IndexExpr:
		if c05qKey(x.X) == q.poolArr {
			i, err := q.ix(x.Index)
			if err != nil {
				return "", err
			}
			return "(.slot " + i + ")", nil
		}
	}
	return "", fmt.Errorf("unsupported pool expression %s at %s", c05qKey(e), c05qAt(e))
}

// key evaluates a map-key expression: a key variable, `<host>.AddressString()`, `<host>.Hostname()`.
func (q *c05qFlow) key(e ast.Expr) (string, error) {
	switch x := e.(type) {
	case *ast.Ident:
		if v, ok := q.env[x.Name]; ok && v.sort == "key" {
			return v.lean, nil
		}
	case *ast.CallExpr:
		if s, ok := x.Fun.(*ast.SelectorExpr); ok && len(x.Args) == 0 {
			h, err := q.host(s.X)
			if err == nil {
				switch s.Sel.Name {
				case "AddressString":
					return "(.address " + h + ")", nil
				case "Hostname":
					return "(.hostname " + h + ")", nil
				}
			}
		}
	}
	return "", fmt.Errorf("unsupported pool-map key %s at %s", c05qKey(e), c05qAt(e))
}

func (q *c05qFlow) ret(st ast.Stmt) (string, error) {
	r, ok := st.(*ast.ReturnStmt)
	if !ok || len(r.Results) != 3 || c05qKey(r.Results[2]) != "nil" {
		return "", fmt.Errorf("unsupported return at %s", c05qAt(st))
	}
	p, err := q.pool(r.Results[0])
	if err != nil {
		return "", err
	}
	h, err := q.host(r.Results[1])
	if err != nil {
		return "", err
	}
	return "⟨" + p + ", " + h + "⟩", nil
}

func (q *c05qFlow) set(dst *string, v, what string, at ast.Node) error {
	if *dst != "" && *dst != v {
		return fmt.Errorf("%s given twice with different values (%s, %s) at %s", what, *dst, v, c05qAt(at))
	}
	*dst = v
	return nil
}

func (q *c05qFlow) function(fd *ast.FuncDecl) error {
	var ps []string
	for _, p := range fd.Type.Params.List {
		for _, n := range p.Names {
			ps = append(ps, n.Name)
		}
	}
	if len(ps) != 3 {
		return fmt.Errorf("expected (ctx, snapshot, proto) parameters")
	}
	q.ctxP, q.snapP, q.protoP = ps[0], ps[1], ps[2]
	stage := 0 // 0 prologue, 1 after first loop, 2 after poll loop, 3 done
	tryVar, clamped, zeroChecked := "", false, false
	for _, st := range fd.Body.List {
		if stage == 3 {
			return fmt.Errorf("statement after the final return at %s", c05qAt(st))
		}
		if fs, v, bound, ok := c05qCountLoop(st); ok {
			switch stage {
			case 0:
				if tryVar == "" || bound != tryVar || !clamped || !zeroChecked || q.poolArr == "" || q.hostArr == "" || q.factory == "" {
					return fmt.Errorf("first loop at %s: bound %s is not the clamped, zero-checked HostNum", c05qAt(st), bound)
				}
				q.loopVar = v
				if err := q.firstLoop(fs.Body.List); err != nil {
					return err
				}
				q.loopVar = ""
				// loop-local names go out of scope
				q.env = map[string]c05qVal{}
				stage = 1
			case 1:
				n, err := intConst(q.dir, bound)
				if err != nil {
					return fmt.Errorf("poll loop bound %s: %v", bound, err)
				}
				q.maxPolls = int(n)
				if err := q.pollLoop(fs.Body.List, v, tryVar); err != nil {
					return err
				}
				stage = 2
			default:
				return fmt.Errorf("unexpected loop at %s", c05qAt(st))
			}
			continue
		}
		if stage == 2 {
			if c05qNilReturn(st) {
				stage = 3
				continue
			}
			return fmt.Errorf("unsupported statement after the poll loop at %s", c05qAt(st))
		}
		if stage == 1 {
			return fmt.Errorf("unsupported statement between the loops at %s", c05qAt(st))
		}
		// prologue
		switch x := st.(type) {
		case *ast.AssignStmt:
			if x.Tok == token.DEFINE && len(x.Rhs) == 1 {
				rhs := c05qKey(x.Rhs[0])
				switch {
				case len(x.Lhs) == 2 && rhs == "protocol.GetNewPoolFactory("+q.protoP+")":
					q.factory = c05qKey(x.Lhs[0])
					continue
				case len(x.Lhs) == 1 && rhs == q.snapP+".HostNum("+q.ctxP+".MetadataMatchCriteria())":
					tryVar = c05qKey(x.Lhs[0])
					continue
				}
			}
		case *ast.DeclStmt:
			gd, ok := x.Decl.(*ast.GenDecl)
			if ok && gd.Tok == token.VAR {
				good := true
				for _, sp := range gd.Specs {
					vs, ok := sp.(*ast.ValueSpec)
					at, ok2 := vs.Type.(*ast.ArrayType)
					if !ok || !ok2 || len(vs.Names) != 1 || len(vs.Values) != 0 || at.Len == nil {
						good = false
						break
					}
					n, err := c05qIntOf(q.dir, at.Len)
					if err != nil {
						return err
					}
					if q.maxHosts != 0 && q.maxHosts != n {
						return fmt.Errorf("pools / hosts arrays of different lengths at %s", c05qAt(st))
					}
					q.maxHosts = n
					switch c05qKey(at.Elt) {
					case "types.ConnectionPool":
						q.poolArr = vs.Names[0].Name
					case "types.Host":
						q.hostArr = vs.Names[0].Name
					default:
						good = false
					}
				}
				if good {
					continue
				}
			}
		case *ast.IfStmt:
			if cond, ok := c05qFailIf(st); ok {
				if cond == "!ok" {
					continue
				}
				if tryVar != "" && cond == tryVar+"==0" {
					zeroChecked = true
					continue
				}
			}
			// if try > C { try = C }
			if b, ok := x.Cond.(*ast.BinaryExpr); ok && x.Init == nil && x.Else == nil && b.Op == token.GTR && tryVar != "" && c05qKey(b.X) == tryVar && len(x.Body.List) == 1 {
				if a, ok := x.Body.List[0].(*ast.AssignStmt); ok && a.Tok == token.ASSIGN && len(a.Lhs) == 1 && len(a.Rhs) == 1 &&
					c05qKey(a.Lhs[0]) == tryVar && c05qKey(a.Rhs[0]) == c05qKey(b.Y) {
					n, err := c05qIntOf(q.dir, b.Y)
					if err != nil {
						return err
					}
					if n != q.maxHosts || n <= 0 {
						return fmt.Errorf("try is clamped to %d but the arrays have %d slots", n, q.maxHosts)
					}
					clamped = true
					continue
				}
			}
		}
		return fmt.Errorf("unsupported prologue statement at %s", c05qAt(st))
	}
	if stage != 3 {
		return fmt.Errorf("function shape: loops / final return missing")
	}
	for name, v := range map[string]string{"loadKey": q.loadKey, "storeKey": q.storeKey, "createHost": q.createHost,
		"firstReady": q.firstReady, "slotPool": q.slotPool, "slotHost": q.slotHost, "pollCheck": q.pollCheck, "pollReady": q.pollReady} {
		if v == "" {
			return fmt.Errorf("%s not found", name)
		}
	}
	if !q.sawNilCheck {
		return fmt.Errorf("no nil check of the ChooseHost result")
	}
	if q.replaceCond == "" {
		// no replacement branch: keys / host of it are those of the create path (unused by the model)
		q.replaceCond, q.replaceDeleteKey, q.replaceStoreKey, q.recreateHost = ".never", q.loadKey, q.storeKey, q.createHost
	}
	return nil
}

func c05qIntOf(dir string, e ast.Expr) (int, error) {
	if b, ok := e.(*ast.BasicLit); ok && b.Kind == token.INT {
		n, err := strconv.Atoi(b.Value)
		return n, err
	}
	if id, ok := e.(*ast.Ident); ok {
		n, err := intConst(dir, id.Name)
		return int(n), err
	}
	return 0, fmt.Errorf("unsupported integer expression %s at %s", c05qKey(e), c05qAt(e))
}

func (q *c05qFlow) firstLoop(stmts []ast.Stmt) error {
	for _, st := range stmts {
		if c05qLogOnly(st) {
			continue
		}
		switch x := st.(type) {
		case *ast.AssignStmt:
			if err := q.loopAssign(x); err != nil {
				return err
			}
			continue
		case *ast.IfStmt:
			if cond, ok := c05qFailIf(st); ok {
				if cond == "!ok" {
					continue
				}
				if v, ok := q.env[strings.TrimSuffix(cond, "==nil")]; ok && strings.HasSuffix(cond, "==nil") && v.sort == "host" && v.lean == ".chosen" {
					q.sawNilCheck = true
					continue
				}
				return fmt.Errorf("unsupported failure test %s at %s", cond, c05qAt(st))
			}
			if x.Init == nil && x.Else == nil {
				// if loaded { … }
				if id, ok := x.Cond.(*ast.Ident); ok {
					if v, ok := q.env[id.Name]; ok && v.sort == "loaded" {
						if err := q.replaceBranch(x.Body.List); err != nil {
							return err
						}
						continue
					}
				}
				// if <pool>.CheckAndInit(ctx) { return … }
				if p, ok := q.checkCall(x.Cond); ok && len(x.Body.List) == 1 {
					if p != ".loopPool" {
						return fmt.Errorf("first loop tests the readiness of %s at %s", p, c05qAt(st))
					}
					r, err := q.ret(x.Body.List[0])
					if err != nil {
						return err
					}
					if err := q.set(&q.firstReady, r, "first-loop return", st); err != nil {
						return err
					}
					continue
				}
			}
		}
		return fmt.Errorf("unsupported first-loop statement at %s", c05qAt(st))
	}
	return nil
}

// checkCall: `<pool expr>.CheckAndInit(<ctx>.DownstreamContext())` => the pool.
func (q *c05qFlow) checkCall(e ast.Expr) (string, bool) {
	c, ok := e.(*ast.CallExpr)
	if !ok || len(c.Args) != 1 || c05qKey(c.Args[0]) != q.ctxP+".DownstreamContext()" {
		return "", false
	}
	s, ok := c.Fun.(*ast.SelectorExpr)
	if !ok || s.Sel.Name != "CheckAndInit" {
		return "", false
	}
	p, err := q.pool(s.X)
	if err != nil {
		return "", false
	}
	return p, true
}

func (q *c05qFlow) loopAssign(x *ast.AssignStmt) error {
	bad := fmt.Errorf("unsupported first-loop assignment at %s", c05qAt(x))
	if len(x.Rhs) != 1 {
		return bad
	}
	rhs := x.Rhs[0]
	if x.Tok == token.ASSIGN && len(x.Lhs) == 1 {
		// pools[ix] = <pool> / hosts[ix] = <host>
		ie, ok := x.Lhs[0].(*ast.IndexExpr)
		if !ok {
			return bad
		}
		i, err := q.ix(ie.Index)
		if err != nil {
			return err
		}
		switch c05qKey(ie.X) {
		case q.poolArr:
			p, err := q.pool(rhs)
			if err != nil {
				return err
			}
			return q.set(&q.slotPool, "("+i+", "+p+")", "pools[] store", x)
		case q.hostArr:
			h, err := q.host(rhs)
			if err != nil {
				return err
			}
			return q.set(&q.slotHost, "("+i+", "+h+")", "hosts[] store", x)
		}
		return bad
	}
	if x.Tok != token.DEFINE {
		return bad
	}
	if len(x.Lhs) == 1 {
		name := c05qKey(x.Lhs[0])
		if _, dup := q.env[name]; dup {
			return fmt.Errorf("%s redefined at %s", name, c05qAt(x))
		}
		if h, err := q.host(rhs); err == nil {
			q.env[name] = c05qVal{"host", h}
			return nil
		}
		if k, err := q.key(rhs); err == nil {
			q.env[name] = c05qVal{"key", k}
			return nil
		}
		if fl, ok := rhs.(*ast.FuncLit); ok {
			if err := q.loadOrStore(fl); err != nil {
				return err
			}
			q.closure = name
			return nil
		}
		return bad
	}
	if len(x.Lhs) == 2 {
		a, b := c05qKey(x.Lhs[0]), c05qKey(x.Lhs[1])
		switch c05qKey(rhs) {
		case "cm.protocolConnPool.load(" + q.protoP + "," + q.snapP + ")":
			q.mapVar = a
			return nil
		case q.closure + "()":
			if q.closure == "" {
				return bad
			}
			q.env[a] = c05qVal{"pool", ".loopPool"}
			q.env[b] = c05qVal{"loaded", ""}
			return nil
		}
	}
	return bad
}

// mapLoadIf: `if v, ok := <map>.Load(<key>); ok { … }` => key, v, body.
func (q *c05qFlow) mapLoadIf(st ast.Stmt) (string, string, []ast.Stmt, bool, error) {
	i, ok := st.(*ast.IfStmt)
	if !ok || i.Init == nil || i.Else != nil {
		return "", "", nil, false, nil
	}
	a, ok := i.Init.(*ast.AssignStmt)
	if !ok || a.Tok != token.DEFINE || len(a.Lhs) != 2 || len(a.Rhs) != 1 || c05qKey(i.Cond) != c05qKey(a.Lhs[1]) {
		return "", "", nil, false, nil
	}
	c, ok := a.Rhs[0].(*ast.CallExpr)
	if !ok || q.mapVar == "" || c05qKey(c.Fun) != q.mapVar+".Load" || len(c.Args) != 1 {
		return "", "", nil, false, nil
	}
	k, err := q.key(c.Args[0])
	if err != nil {
		return "", "", nil, true, err
	}
	return k, c05qKey(a.Lhs[0]), i.Body.List, true, nil
}

// factoryCall: `<factory>(<ctx>.DownstreamContext(), <host expr>)` => host.
func (q *c05qFlow) factoryCall(e ast.Expr) (string, bool, error) {
	c, ok := e.(*ast.CallExpr)
	if !ok || c05qKey(c.Fun) != q.factory || len(c.Args) != 2 {
		return "", false, nil
	}
	h, err := q.host(c.Args[1])
	return h, true, err
}

// mapCall: `<map>.<op>(<key>[, <pool var>])`
func (q *c05qFlow) mapCall(st ast.Stmt, op string, nargs int) (string, bool, error) {
	es, ok := st.(*ast.ExprStmt)
	if !ok {
		return "", false, nil
	}
	c, ok := es.X.(*ast.CallExpr)
	if !ok || c05qKey(c.Fun) != q.mapVar+"."+op || len(c.Args) != nargs {
		return "", false, nil
	}
	k, err := q.key(c.Args[0])
	if err != nil {
		return "", true, err
	}
	if nargs == 2 {
		if p, err := q.pool(c.Args[1]); err != nil || p != ".loopPool" {
			return "", true, fmt.Errorf("the pool map stores %s at %s", c05qKey(c.Args[1]), c05qAt(st))
		}
	}
	return k, true, nil
}

// loadOrStore: the closure that loads the pool of the key or creates and stores it.
func (q *c05qFlow) loadOrStore(fl *ast.FuncLit) error {
	created := false
	local := ""
	for _, st := range fl.Body.List {
		if c05qLockStmt(st) || c05qLogOnly(st) {
			continue
		}
		if k, v, body, ok, err := q.mapLoadIf(st); ok {
			if err != nil {
				return err
			}
			// body: pool := v.(types.ConnectionPool); return pool, true
			if len(body) != 2 {
				return fmt.Errorf("unsupported load branch at %s", c05qAt(st))
			}
			a, ok := body[0].(*ast.AssignStmt)
			r, ok2 := body[1].(*ast.ReturnStmt)
			if !ok || !ok2 || a.Tok != token.DEFINE || len(a.Lhs) != 1 || len(a.Rhs) != 1 || c05qKey(a.Rhs[0]) != v+".(types.ConnectionPool)" ||
				len(r.Results) != 2 || c05qKey(r.Results[0]) != c05qKey(a.Lhs[0]) || c05qKey(r.Results[1]) != "true" {
				return fmt.Errorf("unsupported load branch at %s", c05qAt(st))
			}
			if err := q.set(&q.loadKey, k, "load key", st); err != nil {
				return err
			}
			continue
		}
		if a, ok := st.(*ast.AssignStmt); ok && a.Tok == token.DEFINE && len(a.Lhs) == 1 && len(a.Rhs) == 1 {
			if h, ok, err := q.factoryCall(a.Rhs[0]); ok {
				if err != nil {
					return err
				}
				local = c05qKey(a.Lhs[0])
				q.env[local] = c05qVal{"pool", ".loopPool"}
				created = true
				if err := q.set(&q.createHost, h, "factory host", st); err != nil {
					return err
				}
				continue
			}
		}
		if k, ok, err := q.mapCall(st, "Store", 2); ok {
			if err != nil {
				return err
			}
			if !created {
				return fmt.Errorf("store before the pool is created at %s", c05qAt(st))
			}
			if err := q.set(&q.storeKey, k, "store key", st); err != nil {
				return err
			}
			continue
		}
		if r, ok := st.(*ast.ReturnStmt); ok && created && len(r.Results) == 2 && c05qKey(r.Results[0]) == local && c05qKey(r.Results[1]) == "false" {
			continue
		}
		return fmt.Errorf("unsupported statement in the load-or-create closure at %s", c05qAt(st))
	}
	delete(q.env, local)
	if q.loadKey == "" || q.storeKey == "" || !created {
		return fmt.Errorf("load-or-create closure: load / create / store missing")
	}
	return nil
}

// replaceBranch: the body of `if loaded { … }`.
func (q *c05qFlow) replaceBranch(stmts []ast.Stmt) error {
	for _, st := range stmts {
		if c05qLogOnly(st) {
			continue
		}
		i, ok := st.(*ast.IfStmt)
		if !ok || i.Init != nil || i.Else != nil {
			return fmt.Errorf("unsupported statement in the loaded branch at %s", c05qAt(st))
		}
		if !q.hashDiffers(i.Cond) {
			return fmt.Errorf("unsupported replacement condition %s at %s", c05qKey(i.Cond), c05qAt(st))
		}
		if err := q.set(&q.replaceCond, ".tlsHashDiffers", "replacement condition", st); err != nil {
			return err
		}
		for _, b := range i.Body.List {
			if c05qLogOnly(b) {
				continue
			}
			es, ok := b.(*ast.ExprStmt)
			if !ok {
				return fmt.Errorf("unsupported statement in the replacement branch at %s", c05qAt(b))
			}
			c, ok := es.X.(*ast.CallExpr)
			fl, ok2 := c.Fun.(*ast.FuncLit)
			if !ok || !ok2 || len(c.Args) != 0 {
				return fmt.Errorf("unsupported statement in the replacement branch at %s", c05qAt(b))
			}
			if err := q.replaceClosure(fl); err != nil {
				return err
			}
		}
	}
	return nil
}

// hashDiffers: `!<loop pool>.TLSHashValue().Equal(<chosen host>.TLSHashValue())`
func (q *c05qFlow) hashDiffers(e ast.Expr) bool {
	u, ok := e.(*ast.UnaryExpr)
	if !ok || u.Op != token.NOT {
		return false
	}
	return q.hashEqual(u.X)
}

func (q *c05qFlow) hashEqual(e ast.Expr) bool {
	c, ok := e.(*ast.CallExpr)
	if !ok || len(c.Args) != 1 {
		return false
	}
	s, ok := c.Fun.(*ast.SelectorExpr)
	if !ok || s.Sel.Name != "Equal" {
		return false
	}
	side := func(x ast.Expr) (ast.Expr, bool) {
		cc, ok := x.(*ast.CallExpr)
		if !ok || len(cc.Args) != 0 {
			return nil, false
		}
		ss, ok := cc.Fun.(*ast.SelectorExpr)
		if !ok || ss.Sel.Name != "TLSHashValue" {
			return nil, false
		}
		return ss.X, true
	}
	l, ok1 := side(s.X)
	r, ok2 := side(c.Args[0])
	if !ok1 || !ok2 {
		return false
	}
	p, err1 := q.pool(l)
	h, err2 := q.host(r)
	return err1 == nil && err2 == nil && p == ".loopPool" && h == ".chosen"
}

func (q *c05qFlow) replaceClosure(fl *ast.FuncLit) error {
	for _, st := range fl.Body.List {
		if c05qLockStmt(st) || c05qLogOnly(st) {
			continue
		}
		k, v, body, ok, err := q.mapLoadIf(st)
		if !ok {
			return fmt.Errorf("unsupported statement in the replacement closure at %s", c05qAt(st))
		}
		if err != nil {
			return err
		}
		if k != q.loadKey {
			return fmt.Errorf("the replacement re-loads key %s, the lookup loaded %s (%s)", k, q.loadKey, c05qAt(st))
		}
		step := 0 // 0 reload, 1 recheck, 2 delete, 3 shutdown, 4 recreate, 5 store
		for _, b := range body {
			if c05qLogOnly(b) {
				continue
			}
			switch {
			case step == 0:
				a, ok := b.(*ast.AssignStmt)
				if !ok || a.Tok != token.ASSIGN || len(a.Lhs) != 1 || len(a.Rhs) != 1 || c05qKey(a.Rhs[0]) != v+".(types.ConnectionPool)" {
					return fmt.Errorf("unsupported reload at %s", c05qAt(b))
				}
				if p, err := q.pool(a.Lhs[0]); err != nil || p != ".loopPool" {
					return fmt.Errorf("the reloaded pool is not assigned to the loop's pool at %s", c05qAt(b))
				}
				step = 1
			case step == 1:
				i, ok := b.(*ast.IfStmt)
				if !ok || i.Init != nil || i.Else != nil || !q.hashEqual(i.Cond) || len(i.Body.List) != 1 {
					return fmt.Errorf("unsupported recheck at %s", c05qAt(b))
				}
				if r, ok := i.Body.List[0].(*ast.ReturnStmt); !ok || len(r.Results) != 0 {
					return fmt.Errorf("unsupported recheck at %s", c05qAt(b))
				}
				step = 2
			case step == 2:
				k, ok, err := q.mapCall(b, "Delete", 1)
				if !ok || err != nil {
					return fmt.Errorf("expected the delete of the stale pool at %s (%v)", c05qAt(b), err)
				}
				q.replaceDeleteKey = k
				step = 3
			case step == 3:
				es, ok := b.(*ast.ExprStmt)
				if !ok {
					return fmt.Errorf("expected Shutdown at %s", c05qAt(b))
				}
				c, ok := es.X.(*ast.CallExpr)
				s, ok2 := c.Fun.(*ast.SelectorExpr)
				if !ok || !ok2 || s.Sel.Name != "Shutdown" {
					return fmt.Errorf("expected Shutdown at %s", c05qAt(b))
				}
				if p, err := q.pool(s.X); err != nil || p != ".loopPool" {
					return fmt.Errorf("Shutdown of another pool at %s", c05qAt(b))
				}
				step = 4
			case step == 4:
				a, ok := b.(*ast.AssignStmt)
				if !ok || a.Tok != token.ASSIGN || len(a.Lhs) != 1 || len(a.Rhs) != 1 {
					return fmt.Errorf("expected the re-creation at %s", c05qAt(b))
				}
				h, ok, err := q.factoryCall(a.Rhs[0])
				if !ok || err != nil {
					return fmt.Errorf("expected the re-creation at %s (%v)", c05qAt(b), err)
				}
				if p, err := q.pool(a.Lhs[0]); err != nil || p != ".loopPool" {
					return fmt.Errorf("the new pool is not assigned to the loop's pool at %s", c05qAt(b))
				}
				q.recreateHost = h
				step = 5
			case step == 5:
				k, ok, err := q.mapCall(b, "Store", 2)
				if !ok || err != nil {
					return fmt.Errorf("expected the store of the new pool at %s (%v)", c05qAt(b), err)
				}
				q.replaceStoreKey = k
				step = 6
			default:
				return fmt.Errorf("unsupported statement in the replacement closure at %s", c05qAt(b))
			}
		}
		if step != 6 {
			return fmt.Errorf("replacement closure incomplete at %s", c05qAt(st))
		}
	}
	if q.replaceStoreKey == "" {
		return fmt.Errorf("replacement closure without a replacement")
	}
	return nil
}

func (q *c05qFlow) pollLoop(stmts []ast.Stmt, tVar, tryVar string) error {
	seenInner := false
	for _, st := range stmts {
		if fs, v, bound, ok := c05qCountLoop(st); ok {
			if seenInner || bound != tryVar {
				return fmt.Errorf("unsupported inner poll loop at %s", c05qAt(st))
			}
			seenInner = true
			q.loopVar = v
			skip := ""
			for _, b := range fs.Body.List {
				i, ok := b.(*ast.IfStmt)
				if !ok || i.Init != nil || i.Else != nil || len(i.Body.List) != 1 {
					return fmt.Errorf("unsupported poll statement at %s", c05qAt(b))
				}
				// if pools[ix] == nil { continue }
				if be, ok := i.Cond.(*ast.BinaryExpr); ok && be.Op == token.EQL && c05qKey(be.Y) == "nil" {
					br, ok := i.Body.List[0].(*ast.BranchStmt)
					p, err := q.pool(be.X)
					if !ok || br.Tok != token.CONTINUE || err != nil {
						return fmt.Errorf("unsupported poll statement at %s", c05qAt(b))
					}
					skip = p
					continue
				}
				p, ok := q.checkCall(i.Cond)
				if !ok {
					return fmt.Errorf("unsupported poll statement at %s", c05qAt(b))
				}
				if skip != p {
					return fmt.Errorf("the poll loop tests %s without the nil guard of the same slot at %s", p, c05qAt(b))
				}
				r, err := q.ret(i.Body.List[0])
				if err != nil {
					return err
				}
				if err := q.set(&q.pollCheck, p, "polled pool", b); err != nil {
					return err
				}
				if err := q.set(&q.pollReady, r, "poll-loop return", b); err != nil {
					return err
				}
			}
			q.loopVar = ""
			continue
		}
		// waitTime := tryConnTimes[t] ; time.Sleep(waitTime)
		switch x := st.(type) {
		case *ast.AssignStmt:
			if x.Tok == token.DEFINE && len(x.Lhs) == 1 && len(x.Rhs) == 1 && c05qKey(x.Rhs[0]) == "tryConnTimes["+tVar+"]" {
				continue
			}
		case *ast.ExprStmt:
			if c, ok := x.X.(*ast.CallExpr); ok && c05qKey(c.Fun) == "time.Sleep" {
				continue
			}
		}
		return fmt.Errorf("unsupported statement in the poll loop at %s", c05qAt(st))
	}
	if !seenInner {
		return fmt.Errorf("poll loop without the slot loop")
	}
	return nil
}

// c05qScope: connPool.load —
//
//	if <cond> { if m, ok := p.clusterPool.Load(proto); ok { v, _ := m.(*sync.Map).LoadOrStore(<snapshot>.ClusterInfo().Name(), &sync.Map{}); … return } }
//	else { if m, ok := p.globalPool.Load(proto); ok { … return } }
func c05qScope(fd *ast.FuncDecl) (string, error) {
	var ps []string
	for _, p := range fd.Type.Params.List {
		for _, n := range p.Names {
			ps = append(ps, n.Name)
		}
	}
	if len(ps) != 2 || fd.Recv == nil || len(fd.Recv.List) != 1 || len(fd.Recv.List[0].Names) != 1 {
		return "", fmt.Errorf("expected (proto, snapshot) parameters")
	}
	recv, proto, snap := fd.Recv.List[0].Names[0].Name, ps[0], ps[1]
	var top *ast.IfStmt
	for _, st := range fd.Body.List {
		switch x := st.(type) {
		case *ast.DeclStmt:
		case *ast.IfStmt:
			if top != nil {
				return "", fmt.Errorf("several top-level tests")
			}
			top = x
		case *ast.ReturnStmt:
			if len(x.Results) != 2 || c05qKey(x.Results[0]) != "nil" || c05qKey(x.Results[1]) != "false" {
				return "", fmt.Errorf("unsupported return at %s", c05qAt(st))
			}
		default:
			return "", fmt.Errorf("unsupported statement at %s", c05qAt(st))
		}
	}
	if top == nil || top.Init != nil {
		return "", fmt.Errorf("map selection test not found")
	}
	mgr, cl := recv+".clusterPoolEnable", snap+".ClusterInfo().IsClusterPoolEnable()"
	cond := ""
	switch c05qKey(top.Cond) {
	case mgr + "||" + cl, cl + "||" + mgr:
		cond = ".managerOrCluster"
	case mgr:
		cond = ".managerOnly"
	case cl:
		cond = ".clusterOnly"
	default:
		return "", fmt.Errorf("unsupported map selection condition %s", c05qKey(top.Cond))
	}
	// which branch uses which map
	uses := func(n ast.Node) (cluster, global bool, nameKey string) {
		ast.Inspect(n, func(x ast.Node) bool {
			if c, ok := x.(*ast.CallExpr); ok {
				switch k := c05qKey(c.Fun); {
				case k == recv+".clusterPool.Load" && len(c.Args) == 1 && c05qKey(c.Args[0]) == proto:
					cluster = true
				case k == recv+".globalPool.Load" && len(c.Args) == 1 && c05qKey(c.Args[0]) == proto:
					global = true
				case strings.HasSuffix(k, ".LoadOrStore") && len(c.Args) == 2:
					nameKey = c05qKey(c.Args[0])
				}
			}
			return true
		})
		return
	}
	if top.Else == nil {
		return "", fmt.Errorf("map selection without else branch")
	}
	c1, g1, n1 := uses(top.Body)
	c2, g2, n2 := uses(top.Else)
	if !(c1 && !g1 && !c2 && g2) || n2 != "" {
		return "", fmt.Errorf("unsupported use of the cluster / global maps")
	}
	if n1 != snap+".ClusterInfo().Name()" {
		return "", fmt.Errorf("the per-cluster map is keyed by %s", n1)
	}
	return cond, nil
}

// c05qPassThrough: ConnPoolForCluster returns exactly the pool and the host getActiveConnectionPool returned.
func c05qPassThrough(fd *ast.FuncDecl) error {
	var pv, hv string
	found := false
	for _, st := range fd.Body.List {
		switch x := st.(type) {
		case *ast.AssignStmt:
			if len(x.Rhs) == 1 {
				if c, ok := x.Rhs[0].(*ast.CallExpr); ok && c05qKey(c.Fun) == "cm.getActiveConnectionPool" && len(x.Lhs) == 3 && x.Tok == token.DEFINE {
					pv, hv = c05qKey(x.Lhs[0]), c05qKey(x.Lhs[1])
					continue
				}
			}
			return fmt.Errorf("unsupported assignment at %s", c05qAt(st))
		case *ast.IfStmt:
			// guards that return nil, nil or only log; they must not assign the results
			bad := false
			ast.Inspect(x, func(n ast.Node) bool {
				if a, ok := n.(*ast.AssignStmt); ok {
					for _, l := range a.Lhs {
						if k := c05qKey(l); k == pv || k == hv {
							bad = true
						}
					}
				}
				if r, ok := n.(*ast.ReturnStmt); ok {
					if len(r.Results) != 2 || c05qKey(r.Results[0]) != "nil" || c05qKey(r.Results[1]) != "nil" {
						bad = true
					}
				}
				return true
			})
			if bad {
				return fmt.Errorf("unsupported guard at %s", c05qAt(st))
			}
		case *ast.ReturnStmt:
			if pv == "" || len(x.Results) != 2 || c05qKey(x.Results[0]) != pv || c05qKey(x.Results[1]) != hv {
				return fmt.Errorf("the result is not the pair of getActiveConnectionPool at %s", c05qAt(st))
			}
			found = true
		default:
			return fmt.Errorf("unsupported statement at %s", c05qAt(st))
		}
	}
	if !found {
		return fmt.Errorf("no pass-through return")
	}
	return nil
}
