package main

import (
	"fmt"
	"go/ast"
	"go/token"
	"os"
	"path/filepath"
	"sort"
	"strings"
)

func init() { register("Snapshot", genSnapshot) }

// genSnapshot regenerates how a cluster's (host set, load balancer) pair is PUBLISHED and READ (cluster.go):
//   - `simpleCluster.UpdateHosts` as a step program in source order (build the balancer over the new host set, lock,
//     field writes, the store into the atomic snapshot cell with the origin of the `lb` / `hostSet` components of the
//     stored record, writes into an already published record, unlock);
//   - `simpleCluster.Snapshot`: number of loads of the atomic cell (must return what it loaded);
//   - the accessors `clusterSnapshot.HostSet/LoadBalancer` must be plain field reads;
//   - the number of assignments to fields of a `clusterSnapshot` anywhere else in the package (a published record must be
//     immutable).
// Statements outside this vocabulary are rejected (=> translation-unsupported).
func genSnapshot() (string, error) {
	const dir = "pkg/upstream/cluster"
	f, err := parse(dir + "/cluster.go")
	if err != nil {
		return "", err
	}
	uh := findFunc(f, "simpleCluster", "UpdateHosts")
	sn := findFunc(f, "simpleCluster", "Snapshot")
	if uh == nil || sn == nil {
		return "", fmt.Errorf("simpleCluster.UpdateHosts / Snapshot not found")
	}
	if len(uh.Type.Params.List) != 1 || len(uh.Type.Params.List[0].Names) != 1 || uh.Type.Params.List[0].Names[0].Name != "hostSet" ||
		uh.Recv.List[0].Names[0].Name != "sc" || sn.Recv.List[0].Names[0].Name != "sc" {
		return "", fmt.Errorf("UpdateHosts(hostSet) / receiver sc: unexpected signature")
	}
	steps, err := updateHostsSteps(uh.Body.List)
	if err != nil {
		return "", err
	}
	loads, err := snapshotLoads(sn)
	if err != nil {
		return "", err
	}
	for _, acc := range [][2]string{{"HostSet", "hostSet"}, {"LoadBalancer", "lb"}} {
		fd := findFunc(f, "clusterSnapshot", acc[0])
		if fd == nil || len(fd.Body.List) != 1 {
			return "", fmt.Errorf("clusterSnapshot.%s is not a single statement", acc[0])
		}
		r, ok := fd.Body.List[0].(*ast.ReturnStmt)
		recv := fd.Recv.List[0].Names[0].Name
		if !ok || len(r.Results) != 1 || exprKey(r.Results[0]) != recv+"."+acc[1] {
			return "", fmt.Errorf("clusterSnapshot.%s is not `return %s.%s`", acc[0], recv, acc[1])
		}
	}
	foreign, where, err := snapshotFieldWrites(dir)
	if err != nil {
		return "", err
	}
	s := header("Snapshot", dir+"/cluster.go (simpleCluster.UpdateHosts, simpleCluster.Snapshot, clusterSnapshot accessors)", dir+"/*.go (writes to clusterSnapshot fields)")
	s += "/-- origin of a component of the stored record: built from / equal to the argument of this `UpdateHosts` call, or the\ncurrent value of the `simpleCluster` field. -/\n"
	s += "inductive Src where\n  | fresh | field\nderiving DecidableEq, Repr, Inhabited\n\n"
	s += "/-- step vocabulary of `UpdateHosts` (fixed text of the extractor). -/\n"
	s += "inductive UStep where\n  | buildLB | lock | unlock | setLbInstance | setHostSet | publish (lb hs : Src) | mutLb (s : Src) | mutHs (s : Src) | notifyHC\nderiving DecidableEq, Repr, Inhabited\n\n"
	s += "/-- `UpdateHosts(hostSet)`, statement by statement in source order. -/\n"
	s += "def updateHosts : List UStep := [" + strings.Join(steps, ", ") + "]\n\n"
	s += "/-- loads of the atomic snapshot cell in `Snapshot()` (it returns the loaded record). -/\n"
	s += fmt.Sprintf("def snapshotLoads : Nat := %d\n\n", loads)
	s += "/-- assignments to a field of a `clusterSnapshot` outside `UpdateHosts`" + where + ". -/\n"
	s += fmt.Sprintf("def foreignSnapshotWrites : Nat := %d\n", foreign)
	s += footer("Snapshot")
	return s, nil
}

func srcOf(e ast.Expr, local, field string) (string, bool) {
	switch exprKey(e) {
	case local:
		return ".fresh", true
	case field:
		return ".field", true
	}
	return "", false
}

func updateHostsSteps(stmts []ast.Stmt) ([]string, error) {
	var out []string
	bad := func(st ast.Stmt, why string) error {
		return fmt.Errorf("UpdateHosts: %s at %s", why, fset.Position(st.Pos()))
	}
	emit := func(s string) { out = append(out, s) }
	held, deferred, built := false, false, false
	snapVars := map[string]bool{} // locals holding the currently published record
	for _, st := range stmts {
		switch {
		case isCallStmt(st, "sc.mutex.Lock", 0):
			if held {
				return nil, bad(st, "Lock while held")
			}
			held = true
			emit(".lock")
			continue
		case isCallStmt(st, "sc.mutex.Unlock", 0):
			if !held || deferred {
				return nil, bad(st, "Unlock while not held / deferred")
			}
			held = false
			emit(".unlock")
			continue
		}
		if d, ok := st.(*ast.DeferStmt); ok {
			if exprKey(d.Call.Fun) != "sc.mutex.Unlock" || deferred || !held {
				return nil, bad(st, "unsupported defer")
			}
			deferred = true
			continue
		}
		if ds, ok := st.(*ast.DeclStmt); ok {
			// var lb types.LoadBalancer
			gd, ok := ds.Decl.(*ast.GenDecl)
			if !ok || gd.Tok != token.VAR || len(gd.Specs) != 1 {
				return nil, bad(st, "unsupported declaration")
			}
			vs := gd.Specs[0].(*ast.ValueSpec)
			if len(vs.Names) != 1 || vs.Names[0].Name != "lb" || len(vs.Values) != 0 {
				return nil, bad(st, "unsupported declaration")
			}
			continue
		}
		if lhs, rhs, ok := assignParts(st, token.DEFINE); ok {
			switch {
			case lhs == "info" && exprKey(rhs) == "sc.info":
				continue
			case lhs == "lb":
				if err := checkBuild(rhs); err != nil {
					return nil, bad(st, err.Error())
				}
				built = true
				emit(".buildLB")
				continue
			default:
				// snap := sc.snapshot.Load().(*clusterSnapshot)
				if ta, ok := rhs.(*ast.TypeAssertExpr); ok && exprKey(ta.Type) == "*clusterSnapshot" && isCallExpr(ta.X, "sc.snapshot.Load", 0) {
					snapVars[lhs] = true
					continue
				}
			}
			return nil, bad(st, "unrecognised definition "+lhs)
		}
		if ifs, ok := st.(*ast.IfStmt); ok {
			// the if/else chain that builds lb from (info, hostSet)
			if isBuildChain(ifs) {
				if built {
					return nil, bad(st, "balancer built twice")
				}
				built = true
				emit(".buildLB")
				continue
			}
			// if sc.healthChecker != nil { sc.healthChecker.SetHealthCheckerHostSet(hostSet) }
			if ifs.Init == nil && ifs.Else == nil && len(ifs.Body.List) == 1 && isCallStmt(ifs.Body.List[0], "sc.healthChecker.SetHealthCheckerHostSet", 1) {
				emit(".notifyHC")
				continue
			}
			return nil, bad(st, "unrecognised if statement")
		}
		if lhs, rhs, ok := assignParts(st, token.ASSIGN); ok {
			switch {
			case lhs == "sc.lbInstance" && exprKey(rhs) == "lb":
				emit(".setLbInstance")
				continue
			case lhs == "sc.hostSet" && exprKey(rhs) == "hostSet":
				emit(".setHostSet")
				continue
			}
			if sel, ok := st.(*ast.AssignStmt).Lhs[0].(*ast.SelectorExpr); ok && snapVars[exprKey(sel.X)] {
				switch sel.Sel.Name {
				case "lb":
					if s, ok := srcOf(rhs, "lb", "sc.lbInstance"); ok {
						emit(".mutLb " + s)
						continue
					}
				case "hostSet":
					if s, ok := srcOf(rhs, "hostSet", "sc.hostSet"); ok {
						emit(".mutHs " + s)
						continue
					}
				case "info":
					continue
				}
			}
			return nil, bad(st, "unrecognised assignment to "+lhs)
		}
		if isCallStmt(st, "sc.snapshot.Store", 1) {
			arg := st.(*ast.ExprStmt).X.(*ast.CallExpr).Args[0]
			u, ok := arg.(*ast.UnaryExpr)
			var cl *ast.CompositeLit
			if ok && u.Op == token.AND {
				cl, _ = u.X.(*ast.CompositeLit)
			}
			if cl == nil || exprKey(cl.Type) != "clusterSnapshot" {
				if snapVars[exprKey(arg)] { // re-storing the record that is already published changes nothing
					continue
				}
				return nil, bad(st, "Store of something else than &clusterSnapshot{…}")
			}
			lbS, hsS := "", ""
			for _, el := range cl.Elts {
				kv, ok := el.(*ast.KeyValueExpr)
				if !ok {
					return nil, bad(st, "unkeyed clusterSnapshot literal")
				}
				switch exprKey(kv.Key) {
				case "lb":
					lbS, ok = srcOf(kv.Value, "lb", "sc.lbInstance")
				case "hostSet":
					hsS, ok = srcOf(kv.Value, "hostSet", "sc.hostSet")
				case "info":
					ok = true
				default:
					ok = false
				}
				if !ok {
					return nil, bad(st, "unrecognised component of the stored record: "+exprKey(kv.Key))
				}
			}
			if lbS == "" || hsS == "" {
				return nil, bad(st, "stored record lacks lb / hostSet")
			}
			if !built {
				return nil, bad(st, "record stored before the balancer is built")
			}
			emit(".publish " + lbS + " " + hsS)
			continue
		}
		// the verif publish observer (no-op without the build tag) is accepted only right behind the store
		if isCallStmt(st, "verifPublished", 2) && len(out) > 0 && strings.HasPrefix(out[len(out)-1], ".publish ") {
			continue
		}
		return nil, bad(st, "statement outside the step vocabulary")
	}
	if deferred {
		emit(".unlock")
	}
	for i, s := range out {
		if strings.Contains(s, " ") {
			out[i] = "(" + s + ")"
		}
	}
	return out, nil
}

// checkBuild: the balancer is built over exactly (info, hostSet).
func checkBuild(e ast.Expr) error {
	c, ok := e.(*ast.CallExpr)
	if !ok || len(c.Args) != 2 || exprKey(c.Args[0]) != "info" || exprKey(c.Args[1]) != "hostSet" {
		return fmt.Errorf("lb is not built by a constructor over (info, hostSet)")
	}
	switch exprKey(c.Fun) {
	case "NewLoadBalancer", "NewSubsetLoadBalancer", "NewSubsetLoadBalancerPreIndex":
		return nil
	}
	return fmt.Errorf("lb is built by an unknown constructor %s", exprKey(c.Fun))
}

// isBuildChain: an if / else-if / else tree all of whose leaves are the single statement `lb = New…(info, hostSet)`.
func isBuildChain(ifs *ast.IfStmt) bool {
	var block func(b *ast.BlockStmt) bool
	var node func(s ast.Stmt) bool
	block = func(b *ast.BlockStmt) bool {
		if len(b.List) != 1 {
			return false
		}
		return node(b.List[0])
	}
	node = func(s ast.Stmt) bool {
		switch x := s.(type) {
		case *ast.IfStmt:
			if x.Init != nil || x.Else == nil || !block(x.Body) {
				return false
			}
			if eb, ok := x.Else.(*ast.BlockStmt); ok {
				return block(eb)
			}
			return node(x.Else)
		case *ast.AssignStmt:
			lhs, rhs, ok := assignParts(x, token.ASSIGN)
			return ok && lhs == "lb" && checkBuild(rhs) == nil
		}
		return false
	}
	return node(ifs)
}

func snapshotLoads(sn *ast.FuncDecl) (int, error) {
	loads := 0
	ast.Inspect(sn.Body, func(n ast.Node) bool {
		if c, ok := n.(*ast.CallExpr); ok && exprKey(c.Fun) == "sc.snapshot.Load" {
			loads++
		}
		return true
	})
	// shape: si := sc.snapshot.Load(); if snap, ok := si.(*clusterSnapshot); ok { return snap }; return nil
	if len(sn.Body.List) != 3 {
		return 0, fmt.Errorf("Snapshot: unexpected shape")
	}
	lhs, rhs, ok := assignParts(sn.Body.List[0], token.DEFINE)
	if !ok || !isCallExpr(rhs, "sc.snapshot.Load", 0) {
		return 0, fmt.Errorf("Snapshot: first statement is not `x := sc.snapshot.Load()`")
	}
	ifs, ok := sn.Body.List[1].(*ast.IfStmt)
	if !ok || ifs.Init == nil || ifs.Else != nil || len(ifs.Body.List) != 1 {
		return 0, fmt.Errorf("Snapshot: second statement is not the type-assertion if")
	}
	in, ok := ifs.Init.(*ast.AssignStmt)
	if !ok || len(in.Lhs) != 2 || len(in.Rhs) != 1 {
		return 0, fmt.Errorf("Snapshot: unexpected if-init")
	}
	ta, ok := in.Rhs[0].(*ast.TypeAssertExpr)
	if !ok || exprKey(ta.X) != lhs || exprKey(ta.Type) != "*clusterSnapshot" {
		return 0, fmt.Errorf("Snapshot: the if does not assert the loaded value")
	}
	r, ok := ifs.Body.List[0].(*ast.ReturnStmt)
	if !ok || len(r.Results) != 1 || exprKey(r.Results[0]) != exprKey(in.Lhs[0]) {
		return 0, fmt.Errorf("Snapshot: does not return the loaded record")
	}
	r2, ok := sn.Body.List[2].(*ast.ReturnStmt)
	if !ok || len(r2.Results) != 1 || exprKey(r2.Results[0]) != "nil" {
		return 0, fmt.Errorf("Snapshot: last statement is not `return nil`")
	}
	return loads, nil
}

// snapshotFieldWrites counts assignments `<x>.<field> = …` / `<x>.<field> op= …` where x is known to be a clusterSnapshot
// (receiver of a clusterSnapshot method, a local defined by `….(*clusterSnapshot)` or `&clusterSnapshot{…}`), in every
// function of the package except simpleCluster.UpdateHosts (whose writes are steps of the regenerated program).
func snapshotFieldWrites(dir string) (int, string, error) {
	files, err := filepath.Glob(filepath.Join(repo, dir, "*.go"))
	if err != nil {
		return 0, "", err
	}
	sort.Strings(files)
	n := 0
	var where []string
	for _, fn := range files {
		if strings.HasSuffix(fn, "_test.go") {
			continue
		}
		if b, err := os.ReadFile(fn); err != nil || !strings.Contains(string(b), "clusterSnapshot") {
			continue
		}
		rel, _ := filepath.Rel(repo, fn)
		f, err := parse(rel)
		if err != nil {
			return 0, "", err
		}
		for _, d := range f.Decls {
			fd, ok := d.(*ast.FuncDecl)
			if !ok || fd.Body == nil {
				continue
			}
			vars := map[string]bool{}
			if fd.Recv != nil && len(fd.Recv.List) == 1 && len(fd.Recv.List[0].Names) == 1 {
				t := exprKey(fd.Recv.List[0].Type)
				if t == "*clusterSnapshot" || t == "clusterSnapshot" {
					vars[fd.Recv.List[0].Names[0].Name] = true
				}
				if t == "*simpleCluster" && fd.Name.Name == "UpdateHosts" {
					continue
				}
			}
			ast.Inspect(fd.Body, func(nd ast.Node) bool {
				a, ok := nd.(*ast.AssignStmt)
				if !ok {
					return true
				}
				if a.Tok == token.DEFINE || a.Tok == token.ASSIGN {
					for i, l := range a.Lhs {
						if i >= len(a.Rhs) {
							break
						}
						r := a.Rhs[i]
						isSnap := false
						if ta, ok := r.(*ast.TypeAssertExpr); ok && ta.Type != nil && exprKey(ta.Type) == "*clusterSnapshot" {
							isSnap = true
						}
						if u, ok := r.(*ast.UnaryExpr); ok && u.Op == token.AND {
							if cl, ok := u.X.(*ast.CompositeLit); ok && exprKey(cl.Type) == "clusterSnapshot" {
								isSnap = true
							}
						}
						if id, ok := l.(*ast.Ident); ok && isSnap {
							vars[id.Name] = true
						}
					}
				}
				if a.Tok != token.DEFINE {
					for _, l := range a.Lhs {
						if sel, ok := l.(*ast.SelectorExpr); ok && vars[exprKey(sel.X)] {
							n++
							where = append(where, fmt.Sprintf("%s:%s", filepath.Base(fn), fd.Name.Name))
						}
					}
				}
				return true
			})
		}
	}
	w := ""
	if len(where) > 0 {
		w = " (" + strings.Join(where, ", ") + ")"
	}
	return n, w, nil
}
