package main

// Gen/H1Continue.lean — the `Expect: 100-continue` branch of the HTTP/1 server serve loop (property C07, kind h1seg,
// side exp): pkg/stream/http/stream.go serverStreamConnection.serve.
//
// The loop reads a request in TWO phases: `request.ReadLimitBody(conn.br, …)` returns behind the head when the request
// says `Expect: 100-continue` (fasthttp: MayContinue), then serve() writes the interim response and reads the body with
// `request.ContinueReadBody(conn.br, …)`.  Regenerated (all relative to the single top-level `for { }` of serve()):
//   - phase1Stmt      : the statement holding the ReadLimitBody call;
//   - contPath        : the statements enclosing the ContinueReadBody call, outermost first, below the loop body:
//                       `if:<cond>` (then-branch), `else:<cond>`, `init-if:<cond>` (an if with an init statement), or
//                       the node kind of anything else (`for`, `switch`, …);
//   - contPre         : every statement between the phase-1 statement and the ContinueReadBody statement, in source order
//                       (the earlier siblings at every level of the path);
//   - contStmt        : the statement holding the ContinueReadBody call;
//   - contPost        : the later statements of the innermost block;
//   - contBrUses      : every use of the connection's reader `.br` in contPath's conditions and in contPre (same
//                       vocabulary as Gen/H1SegOps: `call:<method>`, `arg:<callee>`, `assign`, `alias`);
//   - contErrCheck    : condition of the `if` that follows the outermost statement of the path in the loop body, and
//     contErrReturns  : whether its block ends in `return`; contErrGap: the statements between the two;
//   - contCalls / mayContinueCalls : how often ContinueReadBody / MayContinue are called in the loop;
//   - interimBytes    : the bytes of strResponseContinue.
// All helpers carry the prefix c07e10.

import (
	"bytes"
	"fmt"
	"go/ast"
	"go/printer"
	"go/token"
	"go/types"
	"strconv"
	"strings"
)

func init() { register("H1Continue", genC07e10Cont) }

// c07e10Src renders a node on one line with single spaces
func c07e10Src(n ast.Node) string {
	var b bytes.Buffer
	printer.Fprint(&b, token.NewFileSet(), n)
	return strings.Join(strings.Fields(b.String()), " ")
}

func c07e10HasCall(n ast.Node, method string) int {
	k := 0
	ast.Inspect(n, func(x ast.Node) bool {
		if ce, ok := x.(*ast.CallExpr); ok {
			if se, ok := ce.Fun.(*ast.SelectorExpr); ok && se.Sel.Name == method {
				k++
			}
		}
		return true
	})
	return k
}

// c07e10Stmt renders a statement; compound statements by their head only
func c07e10Stmt(s ast.Stmt) string {
	switch x := s.(type) {
	case *ast.IfStmt:
		h := "if " + types.ExprString(x.Cond) + " {…}"
		if x.Init != nil {
			h = "if " + c07e10Src(x.Init) + "; " + types.ExprString(x.Cond) + " {…}"
		}
		if x.Else != nil {
			h += " else {…}"
		}
		return h
	case *ast.ForStmt:
		return "for {…}"
	case *ast.RangeStmt:
		return "for range {…}"
	case *ast.SwitchStmt, *ast.TypeSwitchStmt, *ast.SelectStmt:
		return "switch {…}"
	case *ast.BlockStmt:
		return "{…}"
	}
	return c07e10Src(s)
}

type c07e10Walk struct {
	path []string
	pre  []ast.Stmt
	stmt ast.Stmt
	post []ast.Stmt
}

// c07e10Find descends list for the statement holding the ContinueReadBody call; from = index of the first statement that
// counts as "before" at this level.
func c07e10Find(list []ast.Stmt, from int, w *c07e10Walk) bool {
	for i := from; i < len(list); i++ {
		s := list[i]
		if c07e10HasCall(s, "ContinueReadBody") == 0 {
			continue
		}
		w.pre = append(w.pre, list[from:i]...)
		switch x := s.(type) {
		case *ast.IfStmt:
			tag := "if:"
			if x.Init != nil {
				tag = "init-if:"
				w.pre = append(w.pre, x.Init)
			}
			if c07e10HasCall(x.Cond, "ContinueReadBody") > 0 {
				w.path = append(w.path, "cond:"+types.ExprString(x.Cond))
				w.stmt = s
				return true
			}
			if c07e10HasCall(x.Body, "ContinueReadBody") > 0 {
				w.path = append(w.path, tag+types.ExprString(x.Cond))
				return c07e10Find(x.Body.List, 0, w)
			}
			w.path = append(w.path, "else:"+types.ExprString(x.Cond))
			if eb, ok := x.Else.(*ast.BlockStmt); ok {
				return c07e10Find(eb.List, 0, w)
			}
			if x.Else != nil {
				return c07e10Find([]ast.Stmt{x.Else}, 0, w)
			}
			return false
		case *ast.BlockStmt:
			w.path = append(w.path, "block")
			return c07e10Find(x.List, 0, w)
		case *ast.ForStmt:
			w.path = append(w.path, "for")
			return c07e10Find(x.Body.List, 0, w)
		case *ast.AssignStmt, *ast.ExprStmt, *ast.DeclStmt, *ast.ReturnStmt:
			w.stmt = s
			w.post = list[i+1:]
			return true
		default:
			w.path = append(w.path, fmt.Sprintf("%T", s))
			w.stmt = s
			return true
		}
	}
	return false
}

func genC07e10Cont() (string, error) {
	f, err := parse(c07r8File)
	if err != nil {
		return "", err
	}
	fd := findFunc(f, "serverStreamConnection", "serve")
	if fd == nil || fd.Body == nil {
		return "", fmt.Errorf("serverStreamConnection.serve not found")
	}
	loop, err := c07r8Loop(fd)
	if err != nil {
		return "", err
	}
	body := loop.Body.List
	p1 := -1
	for i, s := range body {
		if c07e10HasCall(s, "ReadLimitBody") > 0 {
			if p1 >= 0 {
				return "", fmt.Errorf("serve: ReadLimitBody in more than one statement of the loop body")
			}
			p1 = i
		}
	}
	if p1 < 0 {
		return "", fmt.Errorf("serve: no ReadLimitBody statement in the loop body")
	}
	if _, ok := body[p1].(*ast.AssignStmt); !ok {
		return "", fmt.Errorf("serve: the ReadLimitBody statement is not an assignment")
	}
	w := &c07e10Walk{}
	nCont := c07e10HasCall(loop, "ContinueReadBody")
	found := c07e10Find(body, p1+1, w)
	if !found && c07e10HasCall(body[p1], "ContinueReadBody") == 0 && nCont > 0 {
		return "", fmt.Errorf("serve: ContinueReadBody is called before ReadLimitBody")
	}
	// the statement after the outermost statement of the path
	outer := -1
	for i := p1 + 1; i < len(body); i++ {
		if c07e10HasCall(body[i], "ContinueReadBody") > 0 {
			outer = i
			break
		}
	}
	errCheck, errReturns := "", false
	var gap []string
	if outer >= 0 {
		for i := outer + 1; i < len(body); i++ {
			if is, ok := body[i].(*ast.IfStmt); ok {
				errCheck = types.ExprString(is.Cond)
				if is.Init != nil {
					errCheck = c07e10Src(is.Init) + "; " + errCheck
				}
				if n := len(is.Body.List); n > 0 {
					_, errReturns = is.Body.List[n-1].(*ast.ReturnStmt)
				}
				break
			}
			gap = append(gap, c07e10Stmt(body[i]))
		}
	}
	pre := []string{}
	brUses := []string{}
	for _, s := range w.pre {
		pre = append(pre, c07e10Stmt(s))
		for _, u := range c07r8Uses(s) {
			brUses = append(brUses, u.what)
		}
	}
	// conditions of the path
	if found {
		var walk func(list []ast.Stmt, from int)
		walk = func(list []ast.Stmt, from int) {
			for i := from; i < len(list); i++ {
				if c07e10HasCall(list[i], "ContinueReadBody") == 0 {
					continue
				}
				if is, ok := list[i].(*ast.IfStmt); ok {
					for _, u := range c07r8Uses(is.Cond) {
						brUses = append(brUses, u.what)
					}
					if c07e10HasCall(is.Body, "ContinueReadBody") > 0 {
						walk(is.Body.List, 0)
					} else if eb, ok := is.Else.(*ast.BlockStmt); ok {
						walk(eb.List, 0)
					}
				}
				return
			}
		}
		walk(body, p1+1)
	}
	post := []string{}
	for _, s := range w.post {
		post = append(post, c07e10Stmt(s))
	}
	stmt := ""
	if w.stmt != nil {
		stmt = c07e10Stmt(w.stmt)
	}
	path := w.path
	if path == nil {
		path = []string{}
	}
	if gap == nil {
		gap = []string{}
	}
	// strResponseContinue
	interim := ""
	haveInterim := false
	for _, d := range f.Decls {
		gd, ok := d.(*ast.GenDecl)
		if !ok || gd.Tok != token.VAR {
			continue
		}
		for _, sp := range gd.Specs {
			vs, ok := sp.(*ast.ValueSpec)
			if !ok {
				continue
			}
			for i, n := range vs.Names {
				if n.Name != "strResponseContinue" || i >= len(vs.Values) {
					continue
				}
				ce, ok := vs.Values[i].(*ast.CallExpr)
				if !ok || len(ce.Args) != 1 || types.ExprString(ce.Fun) != "[]byte" {
					return "", fmt.Errorf("strResponseContinue is not []byte(\"…\")")
				}
				bl, ok := ce.Args[0].(*ast.BasicLit)
				if !ok || bl.Kind != token.STRING {
					return "", fmt.Errorf("strResponseContinue is not a string literal")
				}
				interim, err = strconv.Unquote(bl.Value)
				if err != nil {
					return "", err
				}
				haveInterim = true
			}
		}
	}
	if !haveInterim {
		return "", fmt.Errorf("strResponseContinue not found")
	}
	nums := make([]string, len(interim))
	for i := 0; i < len(interim); i++ {
		nums[i] = strconv.Itoa(int(interim[i]))
	}

	var sb strings.Builder
	sb.WriteString(header("H1Continue", c07r8File))
	sb.WriteString("def phase1Stmt : String := " + fmt.Sprintf("%q", c07e10Stmt(body[p1])) + "\n")
	sb.WriteString("def contPath : List String := " + c07r8StrList(path) + "\n")
	sb.WriteString("def contPre : List String := " + c07r8StrList(pre) + "\n")
	sb.WriteString("def contStmt : String := " + fmt.Sprintf("%q", stmt) + "\n")
	sb.WriteString("def contPost : List String := " + c07r8StrList(post) + "\n")
	sb.WriteString("def contBrUses : List String := " + c07r8StrList(brUses) + "\n")
	sb.WriteString("def contErrGap : List String := " + c07r8StrList(gap) + "\n")
	sb.WriteString("def contErrCheck : String := " + fmt.Sprintf("%q", errCheck) + "\n")
	sb.WriteString("def contErrReturns : Bool := " + c07r8Bool(errReturns) + "\n")
	sb.WriteString(fmt.Sprintf("def contCalls : Nat := %d\n", nCont))
	sb.WriteString(fmt.Sprintf("def mayContinueCalls : Nat := %d\n", c07e10HasCall(loop, "MayContinue")))
	sb.WriteString("def interimBytes : List Nat := [" + strings.Join(nums, ", ") + "]\n")
	sb.WriteString(footer("H1Continue"))
	return sb.String(), nil
}
