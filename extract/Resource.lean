-- translation-unsupported Resource: open -out/pkg/upstream/cluster/resource_manager.go: no such file or directory
namespace MosnVerif.Gen.Resource
end MosnVerif.Gen.Resource
