package main

// C09 growth (helpers prefixed c09b):
//
//  * c09bDialFailDef — which connection events give the slot of a FAILED DIAL back: the connection-event handler of a
//    pool is walked symbolically for the two events a failed dial can deliver (api.ConnectFailed: refused / TLS
//    failure, api.ConnectTimeout: the dial timed out) and the movements of totalClientCount on that path are summed.
//  * Gen/StreamOnce.lean — BaseStream.ResetStream / DestroyStream as atomic STEP PROGRAMS (load / cas / store / lock /
//    unlock / notify / call), read statement by statement; shapes that cannot be read are rejected.

import (
	"fmt"
	"go/ast"
	"go/token"
	"go/types"
	"os"
	"path/filepath"
	"strings"
)

func init() {
	register("StreamOnce", genStreamOnce)
}

// ---------------------------------------------------------------------------------------------------------------
// dial-failure events

// c09bEventParam returns the name of the api.ConnectionEvent parameter of an event handler.
func c09bEventParam(fd *ast.FuncDecl) string {
	for _, p := range fd.Type.Params.List {
		if types.ExprString(p.Type) == "api.ConnectionEvent" && len(p.Names) == 1 {
			return p.Names[0].Name
		}
	}
	return ""
}

// c09bCond evaluates a condition for a dial event `ev` (ConnectFailed | ConnectTimeout): 1 true, 0 false, -1 unknown.
// A dial event is not a close event (mosn.io/api ConnectionEvent.IsClose: LocalClose, RemoteClose, OnReadErrClose,
// OnWriteErrClose, OnWriteTimeout — trusted, exercised by the correspondence run).
func c09bCond(e ast.Expr, evVar, ev string) int {
	switch x := e.(type) {
	case *ast.ParenExpr:
		return c09bCond(x.X, evVar, ev)
	case *ast.UnaryExpr:
		if x.Op == token.NOT {
			v := c09bCond(x.X, evVar, ev)
			if v < 0 {
				return -1
			}
			return 1 - v
		}
	case *ast.CallExpr:
		if types.ExprString(x.Fun) == evVar+".IsClose" && len(x.Args) == 0 {
			return 0
		}
	case *ast.BinaryExpr:
		switch x.Op {
		case token.EQL, token.NEQ:
			l, r := types.ExprString(x.X), types.ExprString(x.Y)
			if r == evVar {
				l, r = r, l
			}
			if l == evVar && strings.HasPrefix(r, "api.") {
				eq := r == "api."+ev
				if (x.Op == token.EQL) == eq {
					return 1
				}
				return 0
			}
		case token.LOR:
			a, b := c09bCond(x.X, evVar, ev), c09bCond(x.Y, evVar, ev)
			if a == 1 || b == 1 {
				return 1
			}
			if a == 0 && b == 0 {
				return 0
			}
		case token.LAND:
			a, b := c09bCond(x.X, evVar, ev), c09bCond(x.Y, evVar, ev)
			if a == 0 || b == 0 {
				return 0
			}
			if a == 1 && b == 1 {
				return 1
			}
		}
	}
	return -1
}

// c09bMoves reports whether a counter movement of `target` occurs anywhere below n.
func c09bMoves(n ast.Node, target string) bool {
	found := false
	ast.Inspect(n, func(m ast.Node) bool {
		if s, ok := m.(ast.Stmt); ok {
			if _, ok := counterDelta(s, target); ok {
				found = true
			}
		}
		return !found
	})
	return found
}

// c09bWalk sums the movements of `target` on the path the handler takes for dial event `ev`. done = a return was reached.
func c09bWalk(stmts []ast.Stmt, evVar, ev, target string) (sum int64, done bool, err error) {
	for _, s := range stmts {
		if d, ok := counterDelta(s, target); ok {
			sum += d
			continue
		}
		switch x := s.(type) {
		case *ast.ReturnStmt:
			return sum, true, nil
		case *ast.BlockStmt:
			d, dn, e := c09bWalk(x.List, evVar, ev, target)
			if e != nil {
				return 0, false, e
			}
			sum += d
			if dn {
				return sum, true, nil
			}
		case *ast.IfStmt:
			if x.Init != nil && c09bMoves(x.Init, target) {
				return 0, false, fmt.Errorf("counter movement in an if-initialiser")
			}
			switch c09bCond(x.Cond, evVar, ev) {
			case 1:
				d, dn, e := c09bWalk(x.Body.List, evVar, ev, target)
				if e != nil {
					return 0, false, e
				}
				sum += d
				if dn {
					return sum, true, nil
				}
			case 0:
				if x.Else != nil {
					d, dn, e := c09bWalk([]ast.Stmt{x.Else}, evVar, ev, target)
					if e != nil {
						return 0, false, e
					}
					sum += d
					if dn {
						return sum, true, nil
					}
				}
			default:
				if c09bMoves(x, target) {
					return 0, false, fmt.Errorf("counter movement under a condition that is not about the event: %s", types.ExprString(x.Cond))
				}
			}
		case *ast.SwitchStmt:
			if x.Init != nil && c09bMoves(x.Init, target) {
				return 0, false, fmt.Errorf("counter movement in a switch-initialiser")
			}
			var taken *ast.CaseClause
			var def *ast.CaseClause
			unknown := false
			for _, cs := range x.Body.List {
				cl := cs.(*ast.CaseClause)
				if cl.List == nil {
					def = cl
					continue
				}
				for _, e := range cl.List {
					v := -1
					if x.Tag == nil {
						v = c09bCond(e, evVar, ev)
					} else if types.ExprString(x.Tag) == evVar && strings.HasPrefix(types.ExprString(e), "api.") {
						v = 0
						if types.ExprString(e) == "api."+ev {
							v = 1
						}
					}
					if v < 0 {
						unknown = true
					}
					if v == 1 && taken == nil && !unknown {
						taken = cl
					}
				}
				if taken != nil || unknown {
					break
				}
			}
			if unknown {
				if c09bMoves(x, target) {
					return 0, false, fmt.Errorf("counter movement in a switch whose cases are not about the event")
				}
				continue
			}
			if taken == nil {
				taken = def
			}
			if taken != nil {
				for _, b := range taken.Body {
					if br, ok := b.(*ast.BranchStmt); ok && br.Tok == token.FALLTHROUGH {
						return 0, false, fmt.Errorf("fallthrough in the event switch")
					}
				}
				d, dn, e := c09bWalk(taken.Body, evVar, ev, target)
				if e != nil {
					return 0, false, e
				}
				sum += d
				if dn {
					return sum, true, nil
				}
			}
		default:
			if c09bMoves(s, target) {
				return 0, false, fmt.Errorf("counter movement inside a statement that is not read (%T)", s)
			}
		}
	}
	return sum, false, nil
}

// c09bDialFailDef emits `def <name> (timeout : Bool) : Int`: what a failed dial does to totalClientCount after the
// pool's own bookkeeping before the dial: the movement in the acquiring function's failure branch (inFn) plus the
// movement in the event handler for the dial's event.
func c09bDialFailDef(name, what string, inFn int64, handler *ast.FuncDecl, target string) (string, error) {
	evVar := c09bEventParam(handler)
	if evVar == "" {
		return "", fmt.Errorf("%s: event parameter of %s not found", name, handler.Name.Name)
	}
	var ds [2]int64
	for i, ev := range []string{"ConnectFailed", "ConnectTimeout"} {
		d, _, err := c09bWalk(handler.Body.List, evVar, ev, target)
		if err != nil {
			return "", fmt.Errorf("%s: %s for %s: %v", name, handler.Name.Name, ev, err)
		}
		ds[i] = d
	}
	return fmt.Sprintf("/-- %s: movement of totalClientCount by a failed dial = (failure branch of the acquiring function: %d) + (event handler %s: ConnectFailed %d, ConnectTimeout %d) -/\ndef %s (timeout : Bool) : Int :=\n  if timeout then (%d) + (%d) else (%d) + (%d)\n",
		what, inFn, handler.Name.Name, ds[0], ds[1], name, inFn, ds[1], inFn, ds[0]), nil
}

// ---------------------------------------------------------------------------------------------------------------
// Gen/StreamOnce: BaseStream.ResetStream / DestroyStream as step programs

type c09bStep struct {
	kind    string // yield loadGuard casGuard store lock unlock notifyReset notifyDestroy callDestroy
	a, b    int64  // loadGuard: want; casGuard: old, new; store: value
	defers  int    // guards: number of defers registered when the guard is evaluated
	yieldOf string // yield: the site kind passed to verifYield
}

func c09bStateVal(e ast.Expr) (int64, error) {
	switch x := e.(type) {
	case *ast.Ident:
		return intConst("pkg/stream", x.Name)
	case *ast.BasicLit:
		var v int64
		if _, err := fmt.Sscan(x.Value, &v); err == nil {
			return v, nil
		}
	}
	return 0, fmt.Errorf("state value %s not a constant", types.ExprString(e))
}

func c09bIsOnlyReturn(b *ast.BlockStmt) bool {
	if len(b.List) != 1 {
		return false
	}
	r, ok := b.List[0].(*ast.ReturnStmt)
	return ok && len(r.Results) == 0
}

// c09bCallStep reads a call statement (plain or deferred) on the receiver.
func c09bCallStep(call *ast.CallExpr, recv string) (c09bStep, error) {
	head := types.ExprString(call.Fun)
	switch {
	case head == recv+".Lock" && len(call.Args) == 0:
		return c09bStep{kind: "lock"}, nil
	case head == recv+".Unlock" && len(call.Args) == 0:
		return c09bStep{kind: "unlock"}, nil
	case head == recv+".DestroyStream" && len(call.Args) == 0:
		return c09bStep{kind: "callDestroy"}, nil
	case head == "atomic.StoreUint32" && len(call.Args) == 2 && types.ExprString(call.Args[0]) == "&"+recv+".state":
		v, err := c09bStateVal(call.Args[1])
		if err != nil {
			return c09bStep{}, err
		}
		return c09bStep{kind: "store", a: v}, nil
	case head == "verifYield" && len(call.Args) == 2 && types.ExprString(call.Args[0]) == recv:
		return c09bStep{kind: "yield", yieldOf: types.ExprString(call.Args[1])}, nil
	}
	return c09bStep{}, fmt.Errorf("call %s is not read", types.ExprString(call))
}

// c09bProgram reads the body of a BaseStream method into (straight-line steps ++ deferred steps in LIFO order).
func c09bProgram(fd *ast.FuncDecl) ([]c09bStep, error) {
	if fd.Recv == nil || len(fd.Recv.List) != 1 || len(fd.Recv.List[0].Names) != 1 {
		return nil, fmt.Errorf("%s: receiver not named", fd.Name.Name)
	}
	recv := fd.Recv.List[0].Names[0].Name
	var straight, deferred []c09bStep
	for _, s := range fd.Body.List {
		switch x := s.(type) {
		case *ast.ExprStmt:
			call, ok := x.X.(*ast.CallExpr)
			if !ok {
				return nil, fmt.Errorf("%s: statement %s is not read", fd.Name.Name, types.ExprString(x.X))
			}
			st, err := c09bCallStep(call, recv)
			if err != nil {
				return nil, fmt.Errorf("%s: %v", fd.Name.Name, err)
			}
			straight = append(straight, st)
		case *ast.DeferStmt:
			st, err := c09bCallStep(x.Call, recv)
			if err != nil {
				return nil, fmt.Errorf("%s: defer: %v", fd.Name.Name, err)
			}
			if st.kind != "unlock" && st.kind != "callDestroy" {
				return nil, fmt.Errorf("%s: deferred %s is not read", fd.Name.Name, st.kind)
			}
			deferred = append(deferred, st)
		case *ast.IfStmt:
			if x.Init != nil || x.Else != nil || !c09bIsOnlyReturn(x.Body) {
				return nil, fmt.Errorf("%s: only `if <guard> { return }` is read", fd.Name.Name)
			}
			st := c09bStep{defers: len(deferred)}
			switch c := x.Cond.(type) {
			case *ast.BinaryExpr: // atomic.LoadUint32(&s.state) != C
				call, ok := c.X.(*ast.CallExpr)
				if c.Op != token.NEQ || !ok || types.ExprString(call.Fun) != "atomic.LoadUint32" || len(call.Args) != 1 || types.ExprString(call.Args[0]) != "&"+recv+".state" {
					return nil, fmt.Errorf("%s: guard %s is not read", fd.Name.Name, types.ExprString(x.Cond))
				}
				v, err := c09bStateVal(c.Y)
				if err != nil {
					return nil, err
				}
				st.kind, st.a = "loadGuard", v
			case *ast.UnaryExpr: // !atomic.CompareAndSwapUint32(&s.state, A, B)
				call, ok := c.X.(*ast.CallExpr)
				if c.Op != token.NOT || !ok || types.ExprString(call.Fun) != "atomic.CompareAndSwapUint32" || len(call.Args) != 3 || types.ExprString(call.Args[0]) != "&"+recv+".state" {
					return nil, fmt.Errorf("%s: guard %s is not read", fd.Name.Name, types.ExprString(x.Cond))
				}
				a, err := c09bStateVal(call.Args[1])
				if err != nil {
					return nil, err
				}
				b, err := c09bStateVal(call.Args[2])
				if err != nil {
					return nil, err
				}
				st.kind, st.a, st.b = "casGuard", a, b
			default:
				return nil, fmt.Errorf("%s: guard %s is not read", fd.Name.Name, types.ExprString(x.Cond))
			}
			straight = append(straight, st)
		case *ast.RangeStmt: // for _, listener := range s.streamListeners { listener.OnXxx(...) }
			if types.ExprString(x.X) != recv+".streamListeners" || len(x.Body.List) != 1 || x.Value == nil {
				return nil, fmt.Errorf("%s: loop over %s is not read", fd.Name.Name, types.ExprString(x.X))
			}
			es, ok := x.Body.List[0].(*ast.ExprStmt)
			if !ok {
				return nil, fmt.Errorf("%s: listener loop body is not read", fd.Name.Name)
			}
			call, ok := es.X.(*ast.CallExpr)
			if !ok {
				return nil, fmt.Errorf("%s: listener loop body is not read", fd.Name.Name)
			}
			switch types.ExprString(call.Fun) {
			case types.ExprString(x.Value) + ".OnResetStream":
				straight = append(straight, c09bStep{kind: "notifyReset"})
			case types.ExprString(x.Value) + ".OnDestroyStream":
				straight = append(straight, c09bStep{kind: "notifyDestroy"})
			default:
				return nil, fmt.Errorf("%s: listener call %s is not read", fd.Name.Name, types.ExprString(call.Fun))
			}
		default:
			return nil, fmt.Errorf("%s: statement of type %T is not read", fd.Name.Name, s)
		}
	}
	// deferred calls run last-registered first
	var all []c09bStep
	all = append(all, straight...)
	for i := len(deferred) - 1; i >= 0; i-- {
		all = append(all, deferred[i])
	}
	return all, nil
}

// c09bRender prints the program; a failing guard skips to the deferred calls registered before it.
func c09bRender(p []c09bStep) string {
	var out []string
	for i, st := range p {
		after := len(p) - i - 1
		switch st.kind {
		case "loadGuard":
			out = append(out, fmt.Sprintf(".loadGuard %d %d", st.a, after-st.defers))
		case "casGuard":
			out = append(out, fmt.Sprintf(".casGuard %d %d %d", st.a, st.b, after-st.defers))
		case "store":
			out = append(out, fmt.Sprintf(".store %d", st.a))
		default:
			out = append(out, "."+st.kind)
		}
	}
	return "[" + strings.Join(out, ", ") + "]"
}

// c09bCovered: every atomic access of the state word and every Lock is directly preceded by a verifYield whose site
// kind names that access (the deterministic scheduler of the harness can then reach every interleaving).
func c09bCovered(p []c09bStep) bool {
	want := map[string]string{"loadGuard": "verifSiteLoad", "casGuard": "verifSiteCAS", "store": "verifSiteStore", "lock": "verifSiteLock"}
	for i, st := range p {
		if w, ok := want[st.kind]; ok {
			if i == 0 || p[i-1].kind != "yield" || p[i-1].yieldOf != w {
				return false
			}
		}
		if st.kind == "yield" {
			if i+1 >= len(p) || want[p[i+1].kind] != st.yieldOf {
				return false
			}
		}
	}
	return true
}

func genStreamOnce() (string, error) {
	const src = "pkg/stream/stream.go"
	f, err := parse(src)
	if err != nil {
		return "", err
	}
	rs := findFunc(f, "BaseStream", "ResetStream")
	ds := findFunc(f, "BaseStream", "DestroyStream")
	if rs == nil || ds == nil {
		return "", fmt.Errorf("BaseStream.ResetStream / DestroyStream not found")
	}
	rp, err := c09bProgram(rs)
	if err != nil {
		return "", err
	}
	dp, err := c09bProgram(ds)
	if err != nil {
		return "", err
	}
	// no other function of the package may touch the state word
	files, err := c09bPkgFiles("pkg/stream")
	if err != nil {
		return "", err
	}
	for name, pf := range files {
		for _, d := range pf.Decls {
			fd, ok := d.(*ast.FuncDecl)
			if !ok || fd.Body == nil || fd == rs || fd == ds {
				continue
			}
			if strings.HasPrefix(fd.Name.Name, "Verif") {
				continue // read-only verification accessors (build tag verif)
			}
			if name == src && (fd.Name.Name == "ResetStream" || fd.Name.Name == "DestroyStream") {
				continue
			}
			bad := ""
			ast.Inspect(fd.Body, func(n ast.Node) bool {
				if se, ok := n.(*ast.SelectorExpr); ok && se.Sel.Name == "state" {
					bad = fd.Name.Name
				}
				return true
			})
			if bad != "" {
				return "", fmt.Errorf("%s in pkg/stream touches a `state` field: not read", bad)
			}
		}
	}
	var sb strings.Builder
	sb.WriteString(header("StreamOnce", src+" (BaseStream.ResetStream, BaseStream.DestroyStream)"))
	sb.WriteString(`/-- one step of a BaseStream method, as it occurs in the Go source (fixed text of the extractor).
A failing guard returns: it skips ` + "`skip`" + ` of the steps that follow (everything but the deferred calls registered before it). -/
inductive Step where
  | yield                            -- verifYield(s, site): no-op marker placed before an atomic access / Lock
  | loadGuard (want skip : Nat)      -- if atomic.LoadUint32(&s.state) != want { return }
  | casGuard (old new skip : Nat)    -- if !atomic.CompareAndSwapUint32(&s.state, old, new) { return }
  | store (v : Nat)                  -- atomic.StoreUint32(&s.state, v)
  | lock                             -- s.Lock()
  | unlock                           -- s.Unlock() (plain or deferred)
  | notifyReset                      -- for _, l := range s.streamListeners { l.OnResetStream(reason) }
  | notifyDestroy                    -- for _, l := range s.streamListeners { l.OnDestroyStream() }
  | callDestroy                      -- s.DestroyStream() (plain or deferred)
  deriving DecidableEq, Repr
`)
	for _, n := range []string{"streamStateReset", "streamStateDestroying", "streamStateDestroyed"} {
		v, err := intConst("pkg/stream", n)
		if err != nil {
			return "", err
		}
		fmt.Fprintf(&sb, "def %s : Nat := %d\n", n, v)
	}
	fmt.Fprintf(&sb, "/-- BaseStream.ResetStream(reason), statement by statement; deferred calls last, in LIFO order -/\ndef resetProg : List Step := %s\n", c09bRender(rp))
	fmt.Fprintf(&sb, "/-- BaseStream.DestroyStream(), statement by statement; deferred calls last, in LIFO order -/\ndef destroyProg : List Step := %s\n", c09bRender(dp))
	fmt.Fprintf(&sb, "/-- every atomic access of `state` and every Lock is directly preceded by a verifYield naming it -/\ndef yieldCovered : Bool := %v\n", c09bCovered(rp) && c09bCovered(dp))
	sb.WriteString(footer("StreamOnce"))
	return sb.String(), nil
}

// c09bPkgFiles parses the non-test files of a package directory.
func c09bPkgFiles(relDir string) (map[string]*ast.File, error) {
	out := map[string]*ast.File{}
	ents, err := os.ReadDir(filepath.Join(repo, relDir))
	if err != nil {
		return nil, err
	}
	for _, e := range ents {
		n := e.Name()
		if e.IsDir() || !strings.HasSuffix(n, ".go") || strings.HasSuffix(n, "_test.go") {
			continue
		}
		pf, err := parse(relDir + "/" + n)
		if err != nil {
			return nil, err
		}
		out[relDir+"/"+n] = pf
	}
	return out, nil
}
