-- translation-unsupported RetryPolicyBuild: open -out/pkg/router/base_rule.go: no such file or directory
namespace MosnVerif.Gen.RetryPolicyBuild
end MosnVerif.Gen.RetryPolicyBuild
