package main

// Gen/PoolPlace.lean (C09 / C10, pool9): the NewStream of the HTTP/1 pool (pkg/stream/http/connpool.go), of the xprotocol
// ping-pong pool (connpool_pingpong.go) and of the binding pool (connpool_binding.go) as STEP PROGRAMS in source order
// (codes of Gen/PoolDestroyMx), with the creation of the stream (`place`, 32) and the registration of the pool's
// listener (`listen`, 47) as separate steps, and the facts that decide whether a connection event between the two can
// reset the stream unheard (`*PlaceVisible`).
//
//   31 `!Requests().CanCreate()` => Overflow | 28 a client is acquired (idle list / map lookup / dial; moves no counter of
//   the request ledger) | 40 / 41 pool mutex | 37 `if no client for this downstream connection { dial }` |
//   30 no client => refused with the reason | 32 the stream is created on the client's connection |
//   47 the pool's listener is added to the stream | 10 11 12 the takes |
//   48 `if the connection is closed { reset the stream; give back once; ConnectionFailure }`
// Every statement of these bodies must be recognised; anything else is rejected.

import (
	"fmt"
	"go/ast"
	"go/token"
	"go/types"
	"regexp"
	"strings"
)

func init() { register("PoolPlace", c09pGen) }

var c09pSkip = regexp.MustCompile(`^(host := p\.Host\(\)|_ = variable\.Set\(ctx, types\.VariableUpstreamConnectionID, .*\)|verifPoolYield\(.*\)|verifDialYield\(.*\)|c\.addDownConnListenerOnce\(ctx\)|end := &(pingPong|binding)StreamEnd\{…\})$`)

// c09pNoMoves: no statement of the function moves a counter of the request ledger
func c09pNoMoves(fd *ast.FuncDecl, skipFirst bool) error {
	var err error
	for i, s := range fd.Body.List {
		if skipFirst && i == 0 {
			continue
		}
		ast.Inspect(s, func(n ast.Node) bool {
			if st, ok := n.(ast.Stmt); ok {
				if code, ok := c09wMoves[c09xS(st)]; ok && code <= 12 {
					err = fmt.Errorf("%s moves a counter of the request ledger (`%s`)", fd.Name.Name, c09xS(st))
				}
			}
			return true
		})
	}
	return err
}

// c09pBreakerFirst: the first statement of the function is the requests-breaker refusal
func c09pBreakerFirst(fd *ast.FuncDecl, ret string) error {
	if len(fd.Body.List) < 2 {
		return fmt.Errorf("%s: too short", fd.Name.Name)
	}
	idx := 0
	if c09xS(fd.Body.List[0]) == "host := p.Host()" {
		idx = 1
	}
	is, ok := fd.Body.List[idx].(*ast.IfStmt)
	if !ok || types.ExprString(is.Cond) != "!host.ClusterInfo().ResourceManager().Requests().CanCreate()" {
		return fmt.Errorf("%s does not start with the requests-breaker test", fd.Name.Name)
	}
	_, err := c09xRefusal(is, ret, 31)
	return err
}

// c09pOnce: the per-stream listener type passes OnResetStream on and OnDestroyStream on at most once
func c09pOnce(f *ast.File, typ string) error {
	od := findFunc(f, typ, "OnDestroyStream")
	or := findFunc(f, typ, "OnResetStream")
	if od == nil || or == nil {
		return fmt.Errorf("%s.OnDestroyStream / OnResetStream not found", typ)
	}
	if len(or.Body.List) != 1 || c09xS(or.Body.List[0]) != "e.ac.OnResetStream(reason)" {
		return fmt.Errorf("%s.OnResetStream does not just pass the reset on", typ)
	}
	if len(od.Body.List) != 1 {
		return fmt.Errorf("%s.OnDestroyStream has an unexpected shape", typ)
	}
	is, ok := od.Body.List[0].(*ast.IfStmt)
	if !ok || is.Init != nil || is.Else != nil || types.ExprString(is.Cond) != "atomic.CompareAndSwapUint32(&e.done, 0, 1)" ||
		len(is.Body.List) != 1 || c09xS(is.Body.List[0]) != "e.ac.OnDestroyStream()" {
		return fmt.Errorf("%s.OnDestroyStream is not `if CAS(&e.done, 0, 1) { e.ac.OnDestroyStream() }`", typ)
	}
	return nil
}

type c09pPool struct {
	file      *ast.File
	pool      string   // receiver of NewStream
	acquire   string   // statement that acquires the client
	acqFn     string   // the function it calls
	acqCodes  []int    // codes of the acquisition (after the breaker test where that is inside it)
	breakerIn bool     // the breaker test is the first statement of the acquisition function
	refuse    string   // condition of the refusal after the acquisition
	place     string   // statement that creates the stream
	listen    []string // statements that add the pool's listener
	closedTst string   // condition of the closed-connection test
	endType   string   // per-stream listener type
	sender    string
}

func c09pFlat(p c09pPool) ([]int, error) {
	ns := findFunc(p.file, p.pool, "NewStream")
	acq := findFunc(p.file, p.pool, p.acqFn)
	if ns == nil || acq == nil {
		return nil, fmt.Errorf("%s.NewStream / %s not found", p.pool, p.acqFn)
	}
	if err := c09pNoMoves(acq, false); err != nil {
		return nil, err
	}
	if p.breakerIn {
		if err := c09pBreakerFirst(acq, "return nil, types.Overflow"); err != nil {
			return nil, err
		}
	}
	var out []int
	l := ns.Body.List
	for idx, s := range l {
		k := c09xS(s)
		if ds, ok := s.(*ast.DeclStmt); ok {
			// `var streamSender = c.codecClient.NewStream(ctx, receiver)`
			if gd, ok := ds.Decl.(*ast.GenDecl); ok && gd.Tok == token.VAR && len(gd.Specs) == 1 {
				if vs, ok := gd.Specs[0].(*ast.ValueSpec); ok && len(vs.Names) == 1 && len(vs.Values) == 1 {
					k = vs.Names[0].Name + " := " + types.ExprString(vs.Values[0])
				}
			}
		}
		switch {
		case k == p.acquire:
			if p.breakerIn {
				out = append(out, 31)
			}
			out = append(out, p.acqCodes...)
		case k == p.place:
			out = append(out, 32)
		case k == p.listen[0] || k == p.listen[1]:
			if k == p.listen[1] {
				if err := c09pOnce(p.file, p.endType); err != nil {
					return nil, err
				}
			}
			out = append(out, 47)
		case c09pSkip.MatchString(k) || c09xStats.MatchString(k):
		default:
			if code, ok := c09wMoves[k]; ok && code >= 10 && code <= 12 {
				out = append(out, code)
				continue
			}
			switch st := s.(type) {
			case *ast.ReturnStmt:
				if idx != len(l)-1 {
					return nil, fmt.Errorf("`%s` is not the last statement", k)
				}
			case *ast.IfStmt:
				cond := types.ExprString(st.Cond)
				switch cond {
				case "!host.ClusterInfo().ResourceManager().Requests().CanCreate()":
					if _, err := c09xRefusal(st, "return host, nil, types.Overflow", 31); err != nil {
						return nil, err
					}
					out = append(out, 31)
				case p.refuse:
					if _, err := c09xRefusal(st, "return host, nil, reason", 30); err != nil {
						return nil, err
					}
					out = append(out, 30)
				case "receiver == nil":
					// one-way: the stream is handed out, nothing is taken
					if st.Else != nil || len(st.Body.List) != 1 || c09xS(st.Body.List[0]) != "return host, "+p.sender+`, ""` {
						return nil, fmt.Errorf("one-way branch of NewStream not recognised")
					}
				case p.closedTst:
					if st.Else != nil || st.Init != nil || len(st.Body.List) != 3 ||
						!strings.HasPrefix(c09xS(st.Body.List[0]), p.sender+".GetStream().ResetStream(types.Stream") ||
						c09xS(st.Body.List[1]) != "end.OnDestroyStream()" || c09xS(st.Body.List[2]) != "return host, nil, types.ConnectionFailure" {
						return nil, fmt.Errorf("NewStream: the closed-connection test after the listener has an unexpected shape")
					}
					out = append(out, 48)
				default:
					return nil, fmt.Errorf("unsupported `if %s`", cond)
				}
			default:
				return nil, fmt.Errorf("unsupported statement `%s`", k)
			}
		}
	}
	return out, nil
}

// c09pH1Visible: can a connection event reach (reset) the stream of the HTTP/1 client stream connection before its
// request was sent?  The connection's Reset only closes channels; serve() is the only place that resets the stream, and
// in its connection-closed branch only under `case <-conn.requestSent` (signalled by endStream after the request is
// written).  Visible iff NewStream signals requestSent, Reset touches the stream, or serve resets outside that guard.
func c09pH1Visible() (bool, error) {
	const src = "pkg/stream/http/stream.go"
	f, err := parse(src)
	if err != nil {
		return false, err
	}
	ns := findFunc(f, "clientStreamConnection", "NewStream")
	rs := findFunc(f, "streamConnection", "Reset")
	sv := findFunc(f, "clientStreamConnection", "serve")
	if ns == nil || rs == nil || sv == nil {
		return false, fmt.Errorf("%s: clientStreamConnection.NewStream / serve or streamConnection.Reset not found", src)
	}
	vis := false
	ast.Inspect(ns.Body, func(n ast.Node) bool {
		if ss, ok := n.(*ast.SendStmt); ok && strings.HasSuffix(types.ExprString(ss.Chan), "requestSent") {
			vis = true
		}
		return true
	})
	ast.Inspect(rs.Body, func(n ast.Node) bool {
		if ce, ok := n.(*ast.CallExpr); ok && strings.Contains(types.ExprString(ce.Fun), "ResetStream") {
			vis = true
		}
		if se, ok := n.(*ast.SelectorExpr); ok && se.Sel.Name == "stream" {
			vis = true
		}
		return true
	})
	found := false
	var walk func(n ast.Node, closedBranch, guarded bool)
	walk = func(n ast.Node, closedBranch, guarded bool) {
		ast.Inspect(n, func(m ast.Node) bool {
			if m == n {
				return true
			}
			if cc, ok := m.(*ast.CommClause); ok {
				cb, g := closedBranch, guarded
				if cc.Comm != nil {
					c := c09xS(cc.Comm)
					if strings.Contains(c, "<-conn.connClosed") {
						cb, found = true, true
					}
					if strings.Contains(c, "<-conn.requestSent") {
						g = true
					}
				}
				for _, b := range cc.Body {
					walk(b, cb, g)
				}
				return false
			}
			if ce, ok := m.(*ast.CallExpr); ok && strings.HasSuffix(types.ExprString(ce.Fun), "ResetStream") && closedBranch && !guarded {
				vis = true
			}
			return true
		})
	}
	walk(sv.Body, false, false)
	if !found {
		return false, fmt.Errorf("%s: serve() has no `case <-conn.connClosed` branch", src)
	}
	return vis, nil
}

func c09pGen() (string, error) {
	const h1src = "pkg/stream/http/connpool.go"
	const ppsrc = "pkg/stream/xprotocol/connpool_pingpong.go"
	const bdsrc = "pkg/stream/xprotocol/connpool_binding.go"
	var sb strings.Builder
	sb.WriteString(header("PoolPlace", h1src, ppsrc, bdsrc, "pkg/stream/xprotocol/conn.go", "pkg/stream/http/stream.go"))
	fh, err := parse(h1src)
	if err != nil {
		return "", err
	}
	fp, err := parse(ppsrc)
	if err != nil {
		return "", err
	}
	fb, err := parse(bdsrc)
	if err != nil {
		return "", err
	}
	// the binding pool's GetActiveClient: breaker test, then under the pool's mutex the client of this downstream
	// connection or a dial
	if ga := findFunc(fb, "poolBinding", "GetActiveClient"); ga != nil {
		s := ""
		for _, st := range ga.Body.List {
			s += c09xS(st) + ";"
		}
		if !strings.Contains(s, "p.clientMux.Lock();defer p.clientMux.Unlock();") || !strings.Contains(s, "c, reason := p.newActiveClient(ctx)") {
			return "", fmt.Errorf("binding GetActiveClient: lock scope / dial not recognised")
		}
	}
	for _, p := range []struct {
		pre string
		p   c09pPool
	}{
		{"h1", c09pPool{file: fh, pool: "connPool", acquire: "c, reason := p.getAvailableClient(ctx)", acqFn: "getAvailableClient", acqCodes: []int{28},
			refuse: "c == nil", place: "streamEncoder := c.client.NewStream(ctx, receiver)",
			listen: []string{"streamEncoder.GetStream().AddEventListener(c)", "streamEncoder.GetStream().AddEventListener(end)"},
			closedTst: "c.host.Connection.State() == api.ConnClosed", endType: "h1StreamEnd", sender: "streamEncoder"}},
		{"pp", c09pPool{file: fp, pool: "poolPingPong", acquire: "c, reason := p.GetActiveClient(ctx)", acqFn: "GetActiveClient", acqCodes: []int{28}, breakerIn: true,
			refuse: `reason != ""`, place: "streamSender := c.codecClient.NewStream(ctx, receiver)",
			listen: []string{"streamSender.GetStream().AddEventListener(c)", "streamSender.GetStream().AddEventListener(end)"},
			closedTst: "c.host.Connection.State() == api.ConnClosed", endType: "pingPongStreamEnd", sender: "streamSender"}},
		{"bind", c09pPool{file: fb, pool: "poolBinding", acquire: "c, reason := p.GetActiveClient(ctx)", acqFn: "GetActiveClient", acqCodes: []int{40, 37, 41}, breakerIn: true,
			refuse: `reason != ""`, place: "streamSender := c.codecClient.NewStream(ctx, receiver)",
			listen: []string{"streamSender.GetStream().AddEventListener(c)", "streamSender.GetStream().AddEventListener(end)"},
			closedTst: "c.host.Connection.State() == api.ConnClosed", endType: "bindingStreamEnd", sender: "streamSender"}},
	} {
		prog, err := c09pFlat(p.p)
		if err != nil {
			return "", fmt.Errorf("%s NewStream: %v", p.pre, err)
		}
		sb.WriteString(c09wList(p.pre+"NewStreamProg", p.p.pool+".NewStream (ordinary request), source order", prog))
	}
	// binding pool: handlers (codes of Gen/PoolDestroyMx)
	{
		x := &c09xCtx{file: fb, plain: map[string][]int{}}
		x.ifs = map[string]func(st *ast.IfStmt) ([]int, error){
			"atomic.LoadUint32(&ac.goaway) == GoAway && ac.codecClient.ActiveRequestsNum() == 0": func(st *ast.IfStmt) ([]int, error) {
				return c09xGuarded(st, 6, "ac.Close(upperStreamGoAway)")
			},
		}
		ods := findFunc(fb, "activeClientBinding", "OnDestroyStream")
		ors := findFunc(fb, "activeClientBinding", "OnResetStream")
		dial := findFunc(fb, "poolBinding", "newActiveClient")
		ev := findFunc(fb, "activeClientBinding", "OnEvent")
		if ods == nil || ors == nil || dial == nil || ev == nil {
			return "", fmt.Errorf("binding pool: OnDestroyStream / OnResetStream / newActiveClient / OnEvent not found")
		}
		prog, err := x.flat(ods.Body.List)
		if err != nil {
			return "", fmt.Errorf("binding OnDestroyStream: %v", err)
		}
		sb.WriteString(c09wList("bindDestroyProg", "activeClientBinding.OnDestroyStream (6: go-away and drained => the client is removed and its connection closed)", prog))
		var rp []int
		if err := c09xLoose(ors.Body, &rp); err != nil {
			return "", fmt.Errorf("binding OnResetStream: %v", err)
		}
		sb.WriteString(c09wList("bindResetProg", "activeClientBinding.OnResetStream: every statement other than statistics counters (38 closeWithActiveReq mark)", rp))
		sb.WriteString(c09wList("bindDialMoves", "poolBinding.newActiveClient after a successful Connect: connection_active movements", c09wCollect(dial, 0, 23)))
		// close branch of OnEvent: the connection gauges, then removeFromPool (the entry of this downstream connection is deleted: 39)
		cm := c09wCollect(ev, 0, 23)
		rem := false
		ast.Inspect(ev.Body, func(n ast.Node) bool {
			if ce, ok := n.(*ast.CallExpr); ok && types.ExprString(ce) == "ac.removeFromPool()" {
				rem = true
			}
			return true
		})
		if !rem {
			return "", fmt.Errorf("binding OnEvent: removeFromPool not found in the close branch")
		}
		sb.WriteString(c09wList("bindCloseProg", "activeClientBinding.OnEvent, close branch: connection_active movements, then removeFromPool (39: the map entry of this downstream connection is deleted)", append(cm, 39)))
	}
	vis, err := c09xPlaceVisible("pkg/stream/xprotocol/conn.go", "streamConn", "sc.clientStreams")
	if err != nil {
		return "", err
	}
	sb.WriteString(fmt.Sprintf("/-- xprotocol streamConn.NewStream (the codec client of the ping-pong and binding pools) puts the stream into the connection's stream table: a connection event can reset it before the pool listens -/\ndef xPlaceVisible : Bool := %v\n", vis))
	hv, err := c09pH1Visible()
	if err != nil {
		return "", err
	}
	sb.WriteString(fmt.Sprintf("/-- HTTP/1 clientStreamConnection: a connection event can reset the stream before its request was sent (it cannot: Reset only closes channels, serve() resets the stream in its connection-closed branch only after `<-conn.requestSent`, which endStream signals after the request is written) -/\ndef h1PlaceVisible : Bool := %v\n", hv))
	sb.WriteString(footer("PoolPlace"))
	return sb.String(), nil
}
