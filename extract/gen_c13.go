package main

// C13 (TLS policy): regenerates Gen/TlsPolicy.lean from pkg/mtls:
//   - the ClientAuthType constants of the forked crypto/tls and `requiresClientCert`
//   - defaultConfigHooks.GetClientAuth                       (confighook.go)      -> getClientAuth
//   - the InsecureSkipVerify/VerifyPeerCertificate cascade of tlsContext.SetClientConfig (tls_context.go) -> clientVerify
//   - the loop body and the tail of serverContextManager.GetConfigForClient (tls_context_manager.go) -> walkStep / walkFinish
//   - the decision of serverContextManager.Conn (inspector, first byte)   -> connDecision
//   - the key set of the `alpn` table (types.go)                          -> alpnSupported
// The Go statements are first normalised by small, shape-checked AST rewrites (continue -> marker return,
// switch -> if chain, the provider method calls -> boolean inputs) and then rendered by translate.go. Any
// statement outside the expected shapes is an error => translation-unsupported => broken tie.

import (
	"fmt"
	"go/ast"
	"go/token"
	"strconv"
	"strings"
)

func init() {
	register("TlsPolicy", genTlsPolicy)
}

func ident(n string) *ast.Ident { return &ast.Ident{Name: n} }

// isCall reports whether e is a call of `recv.method(args...)` with the printed argument keys given.
func isCall(e ast.Expr, head string, args ...string) bool {
	c, ok := e.(*ast.CallExpr)
	if !ok || exprKey(c.Fun) != head || len(c.Args) != len(args) {
		return false
	}
	for i, a := range c.Args {
		if exprKey(a) != args[i] {
			return false
		}
	}
	return true
}

// rewriteExpr applies f bottom-up over the expression forms the translator knows.
func rewriteExpr(e ast.Expr, f func(ast.Expr) ast.Expr) ast.Expr {
	if r := f(e); r != e {
		return r
	}
	switch x := e.(type) {
	case *ast.ParenExpr:
		return &ast.ParenExpr{X: rewriteExpr(x.X, f)}
	case *ast.UnaryExpr:
		return &ast.UnaryExpr{Op: x.Op, X: rewriteExpr(x.X, f)}
	case *ast.BinaryExpr:
		return &ast.BinaryExpr{Op: x.Op, X: rewriteExpr(x.X, f), Y: rewriteExpr(x.Y, f)}
	}
	return e
}

// rewriteStmts applies the expression rewrite fe to every expression position and the statement rewrite fs to
// every statement (fs may return nil to keep the statement).
func rewriteStmts(l []ast.Stmt, fe func(ast.Expr) ast.Expr, fs func(ast.Stmt) (ast.Stmt, error)) ([]ast.Stmt, error) {
	var out []ast.Stmt
	for _, s := range l {
		if fs != nil {
			r, err := fs(s)
			if err != nil {
				return nil, err
			}
			if r != nil {
				s = r
			}
		}
		switch x := s.(type) {
		case *ast.IfStmt:
			n := &ast.IfStmt{Init: x.Init, Cond: rewriteExpr(x.Cond, fe)}
			b, err := rewriteStmts(x.Body.List, fe, fs)
			if err != nil {
				return nil, err
			}
			n.Body = &ast.BlockStmt{List: b}
			switch eb := x.Else.(type) {
			case nil:
			case *ast.BlockStmt:
				b, err := rewriteStmts(eb.List, fe, fs)
				if err != nil {
					return nil, err
				}
				n.Else = &ast.BlockStmt{List: b}
			case *ast.IfStmt:
				b, err := rewriteStmts([]ast.Stmt{eb}, fe, fs)
				if err != nil {
					return nil, err
				}
				n.Else = b[0]
			}
			out = append(out, n)
		case *ast.ReturnStmt:
			n := &ast.ReturnStmt{}
			for _, r := range x.Results {
				n.Results = append(n.Results, rewriteExpr(r, fe))
			}
			out = append(out, n)
		case *ast.AssignStmt:
			n := &ast.AssignStmt{Tok: x.Tok, Lhs: x.Lhs}
			for _, r := range x.Rhs {
				n.Rhs = append(n.Rhs, rewriteExpr(r, fe))
			}
			out = append(out, n)
		default:
			out = append(out, s)
		}
	}
	return out, nil
}

// switchToIf turns `switch tag { case a, b: S; default: T }` (no fallthrough, no init) into an if chain.
func switchToIf(sw *ast.SwitchStmt) (ast.Stmt, error) {
	if sw.Init != nil || sw.Tag == nil {
		return nil, fmt.Errorf("switch with init / without tag")
	}
	var def []ast.Stmt
	hasDef := false
	type arm struct {
		cond ast.Expr
		body []ast.Stmt
	}
	var arms []arm
	for _, c := range sw.Body.List {
		cc := c.(*ast.CaseClause)
		for _, s := range cc.Body {
			if b, ok := s.(*ast.BranchStmt); ok && b.Tok == token.FALLTHROUGH {
				return nil, fmt.Errorf("fallthrough")
			}
		}
		if cc.List == nil {
			def, hasDef = cc.Body, true
			continue
		}
		var cond ast.Expr
		for _, v := range cc.List {
			eq := &ast.BinaryExpr{Op: token.EQL, X: sw.Tag, Y: v}
			if cond == nil {
				cond = eq
			} else {
				cond = &ast.BinaryExpr{Op: token.LOR, X: cond, Y: eq}
			}
		}
		arms = append(arms, arm{cond, cc.Body})
	}
	if len(arms) == 0 {
		return nil, fmt.Errorf("switch without cases")
	}
	var tail ast.Stmt
	if hasDef {
		tail = &ast.BlockStmt{List: def}
	}
	for i := len(arms) - 1; i >= 0; i-- {
		n := &ast.IfStmt{Cond: arms[i].cond, Body: &ast.BlockStmt{List: arms[i].body}}
		if tail != nil {
			n.Else = tail
		}
		tail = n
	}
	return tail, nil
}

func genTlsPolicy() (string, error) {
	const (
		hookSrc = "pkg/mtls/confighook.go"
		ctxSrc  = "pkg/mtls/tls_context.go"
		mngSrc  = "pkg/mtls/tls_context_manager.go"
		typSrc  = "pkg/mtls/types.go"
		tlsDir  = "pkg/mtls/crypto/tls"
	)
	s := header("TlsPolicy", hookSrc, ctxSrc, mngSrc, typSrc, tlsDir+"/common.go")

	// ---- 1. ClientAuthType constants
	authNames := []string{"NoClientCert", "RequestClientCert", "RequireAnyClientCert", "VerifyClientCertIfGiven", "RequireAndVerifyClientCert"}
	for _, n := range authNames {
		v, err := intConst(tlsDir, n)
		if err != nil {
			return "", err
		}
		s += fmt.Sprintf("def %s : Int := %d\n", n, v)
	}

	// ---- 2. requiresClientCert (crypto/tls/common.go)
	{
		f, err := parse(tlsDir + "/common.go")
		if err != nil {
			return "", err
		}
		fd := findFunc(f, "", "requiresClientCert")
		if fd == nil || len(fd.Body.List) != 1 {
			return "", fmt.Errorf("requiresClientCert: not found / unexpected shape")
		}
		sw, ok := fd.Body.List[0].(*ast.SwitchStmt)
		if !ok {
			return "", fmt.Errorf("requiresClientCert: body is not a switch")
		}
		ifs, err := switchToIf(sw)
		if err != nil {
			return "", err
		}
		env := &Env{Names: map[string]string{"c": "c"}, Calls: map[string]string{},
			Ret: func(rs []string) string {
				if len(rs) != 1 {
					return "ERR"
				}
				return rs[0]
			}, Fall: "ERR_falls_off"}
		for _, n := range authNames {
			env.Names[n] = n
		}
		body, err := env.block([]ast.Stmt{ifs}, "  ")
		if err != nil {
			return "", fmt.Errorf("requiresClientCert: %v", err)
		}
		s += "/-- crypto/tls `requiresClientCert` -/\ndef requiresClientCert (c : Int) : Bool :=\n  " + body + "\n"
	}

	// ---- 3. GetClientAuth
	{
		f, err := parse(hookSrc)
		if err != nil {
			return "", err
		}
		fd := findFunc(f, "defaultConfigHooks", "GetClientAuth")
		if fd == nil {
			return "", fmt.Errorf("GetClientAuth not found")
		}
		if len(fd.Type.Params.List) != 1 || len(fd.Type.Params.List[0].Names) != 1 {
			return "", fmt.Errorf("GetClientAuth: unexpected parameters")
		}
		p := fd.Type.Params.List[0].Names[0].Name
		env := &Env{Names: map[string]string{
			p + ".RequireClientCert": "requireClientCert",
			p + ".VerifyClient":      "verifyClient",
		}, Calls: map[string]string{},
			Ret: func(rs []string) string {
				if len(rs) != 1 {
					return "ERR"
				}
				return rs[0]
			}, Fall: "ERR_falls_off"}
		for _, n := range authNames {
			env.Names["tls."+n] = n
		}
		body, err := env.block(fd.Body.List, "  ")
		if err != nil {
			return "", fmt.Errorf("GetClientAuth: %v", err)
		}
		s += "/-- `defaultConfigHooks.GetClientAuth`: require_client_cert, verify_client ↦ tls.ClientAuthType -/\n"
		s += "def getClientAuth (requireClientCert verifyClient : Bool) : Int :=\n  " + body + "\n"
	}

	// ---- 4. SetClientConfig: InsecureSkipVerify / VerifyPeerCertificate cascade
	{
		f, err := parse(ctxSrc)
		if err != nil {
			return "", err
		}
		fd := findFunc(f, "tlsContext", "SetClientConfig")
		if fd == nil {
			return "", fmt.Errorf("SetClientConfig not found")
		}
		var stmts []ast.Stmt
		seenHook := false
		for _, st := range fd.Body.List {
			switch x := st.(type) {
			case *ast.AssignStmt:
				if len(x.Lhs) != 1 || len(x.Rhs) != 1 {
					return "", fmt.Errorf("SetClientConfig: multi-assign")
				}
				l := exprKey(x.Lhs[0])
				switch {
				case l == "tlsConfig" && x.Tok == token.DEFINE && isCall(x.Rhs[0], "tmpl.Clone"):
				case l == "tlsConfig.ServerName" && exprKey(x.Rhs[0]) == "cfg.ServerName":
				case l == "tlsConfig.VerifyPeerCertificate" && isCall(x.Rhs[0], "hooks.ClientHandshakeVerify", "tlsConfig"):
					seenHook = true
					stmts = append(stmts, &ast.AssignStmt{Tok: token.ASSIGN, Lhs: x.Lhs, Rhs: []ast.Expr{ident("hookVerify")}})
				case l == "ctx.client":
				default:
					return "", fmt.Errorf("SetClientConfig: unexpected assignment to %s", l)
				}
			case *ast.IfStmt:
				stmts = append(stmts, x)
			default:
				return "", fmt.Errorf("SetClientConfig: unexpected statement %T", st)
			}
		}
		if !seenHook {
			return "", fmt.Errorf("SetClientConfig: hook assignment not found")
		}
		env := &Env{Names: map[string]string{
			"tlsConfig.VerifyPeerCertificate": "verifyPeer",
			"tlsConfig.InsecureSkipVerify":    "insecureSkipVerify",
			"cfg.InsecureSkip":                "insecureSkip",
			"hookVerify":                      "hookVerify",
			"nil":                             "false",
		}, Calls: map[string]string{}, Ret: func([]string) string { return "ERR_return" },
			Fall: "(insecureSkipVerify, verifyPeer)"}
		body, err := env.block(stmts, "  ")
		if err != nil {
			return "", fmt.Errorf("SetClientConfig: %v", err)
		}
		s += "/-- `tlsContext.SetClientConfig`: (hook returned a verify function, insecure_skip) ↦\n(tls.Config.InsecureSkipVerify, VerifyPeerCertificate ≠ nil). The template's InsecureSkipVerify is false. -/\n"
		s += "def clientVerify (hookVerify insecureSkip : Bool) : Bool × Bool :=\n  let insecureSkipVerify := false\n  let verifyPeer := false\n  " + body + "\n"
	}

	// ---- 5. GetConfigForClient
	{
		f, err := parse(mngSrc)
		if err != nil {
			return "", err
		}
		fd := findFunc(f, "serverContextManager", "GetConfigForClient")
		if fd == nil {
			return "", fmt.Errorf("GetConfigForClient not found")
		}
		if len(fd.Type.Params.List) != 1 || len(fd.Type.Params.List[0].Names) != 1 {
			return "", fmt.Errorf("GetConfigForClient: unexpected parameters")
		}
		info := fd.Type.Params.List[0].Names[0].Name
		st := fd.Body.List
		if len(st) < 2 {
			return "", fmt.Errorf("GetConfigForClient: too short")
		}
		// var ( defaultProvider, firstALPNMatchedProvider types.TLSProvider )  -- both start nil
		ds, ok := st[0].(*ast.DeclStmt)
		if !ok {
			return "", fmt.Errorf("GetConfigForClient: first statement is not a var block")
		}
		gd := ds.Decl.(*ast.GenDecl)
		var vars []string
		for _, sp := range gd.Specs {
			vs := sp.(*ast.ValueSpec)
			if len(vs.Values) != 0 {
				return "", fmt.Errorf("GetConfigForClient: initialised variable")
			}
			for _, n := range vs.Names {
				vars = append(vars, n.Name)
			}
		}
		if strings.Join(vars, ",") != "defaultProvider,firstALPNMatchedProvider" {
			return "", fmt.Errorf("GetConfigForClient: unexpected variables %v", vars)
		}
		loop, ok := st[1].(*ast.RangeStmt)
		if !ok || exprKey(loop.X) != "mng.providers" {
			return "", fmt.Errorf("GetConfigForClient: second statement is not the range over mng.providers")
		}
		pv, ok := loop.Value.(*ast.Ident)
		if !ok {
			return "", fmt.Errorf("GetConfigForClient: range value")
		}
		p := pv.Name
		fe := func(e ast.Expr) ast.Expr {
			switch {
			case isCall(e, p+".MatchedServerName", info+".ServerName"):
				return ident("sniMatch")
			case isCall(e, p+".MatchedALPN", info+".SupportedProtos"):
				return ident("alpnMatch")
			}
			// X.GetTLSConfigContext(false).Config()
			if c, ok := e.(*ast.CallExpr); ok && len(c.Args) == 0 {
				if sel, ok := c.Fun.(*ast.SelectorExpr); ok && sel.Sel.Name == "Config" {
					if in, ok := sel.X.(*ast.CallExpr); ok && len(in.Args) == 1 && exprKey(in.Args[0]) == "false" {
						if s2, ok := in.Fun.(*ast.SelectorExpr); ok && s2.Sel.Name == "GetTLSConfigContext" {
							return ident("cfgOf_" + exprKey(s2.X))
						}
					}
				}
			}
			return e
		}
		fs := func(s ast.Stmt) (ast.Stmt, error) {
			if b, ok := s.(*ast.BranchStmt); ok {
				if b.Tok == token.CONTINUE && b.Label == nil {
					return &ast.ReturnStmt{Results: []ast.Expr{ident("__continue")}}, nil
				}
				return nil, fmt.Errorf("GetConfigForClient: branch statement %v", b.Tok)
			}
			return nil, nil
		}
		names := func() map[string]string {
			return map[string]string{
				"defaultProvider":                "defaultProvider",
				"firstALPNMatchedProvider":       "firstALPNMatchedProvider",
				p:                                "(some provider)",
				p + ".Ready()":                   "ready",
				"sniMatch":                       "sniMatch",
				"alpnMatch":                      "alpnMatch",
				"nil":                            "none",
				"ErrorNoCertConfigure":           "ErrorNoCertConfigure",
				"__continue":                     "__continue",
				"cfgOf_" + p:                     "(some provider)",
				"cfgOf_defaultProvider":          "defaultProvider",
				"cfgOf_firstALPNMatchedProvider": "firstALPNMatchedProvider",
			}
		}
		mkRet := func(wrap func(string) string) func([]string) string {
			return func(rs []string) string {
				switch {
				case len(rs) == 1 && rs[0] == "__continue":
					return "Step.next defaultProvider firstALPNMatchedProvider"
				case len(rs) == 2 && rs[1] == "none":
					return wrap("Outcome.config " + rs[0])
				case len(rs) == 2 && rs[0] == "none" && rs[1] == "ErrorNoCertConfigure":
					return wrap("Outcome.errNoCert")
				}
				return "ERR_return"
			}
		}
		body, err := rewriteStmts(loop.Body.List, fe, fs)
		if err != nil {
			return "", err
		}
		envStep := &Env{Names: names(), Calls: map[string]string{},
			Ret:  mkRet(func(o string) string { return "Step.ret (" + o + ")" }),
			Fall: "Step.next defaultProvider firstALPNMatchedProvider"}
		stepBody, err := envStep.block(body, "  ")
		if err != nil {
			return "", fmt.Errorf("GetConfigForClient loop: %v", err)
		}
		tail, err := rewriteStmts(st[2:], fe, fs)
		if err != nil {
			return "", err
		}
		envFin := &Env{Names: names(), Calls: map[string]string{},
			Ret: mkRet(func(o string) string { return o }), Fall: "ERR_falls_off"}
		finBody, err := envFin.block(tail, "  ")
		if err != nil {
			return "", fmt.Errorf("GetConfigForClient tail: %v", err)
		}
		s += "/-- result of GetConfigForClient: the server config of provider `p` (index in mng.providers; `none` = a nil\nprovider would be dereferenced) or ErrorNoCertConfigure -/\n"
		s += "inductive Outcome where\n  | config (p : Option Nat)\n  | errNoCert\n  deriving DecidableEq, Repr\n"
		s += "inductive Step where\n  | next (defaultProvider firstALPNMatchedProvider : Option Nat)\n  | ret (o : Outcome)\n  deriving DecidableEq, Repr\n"
		s += "/-- one iteration of `for _, provider := range mng.providers` (provider = its index; ready / sniMatch / alpnMatch =\nprovider.Ready(), provider.MatchedServerName(info.ServerName), provider.MatchedALPN(info.SupportedProtos)) -/\n"
		s += "def walkStep (defaultProvider firstALPNMatchedProvider : Option Nat) (provider : Nat) (ready sniMatch alpnMatch : Bool) : Step :=\n  " + stepBody + "\n"
		s += "/-- the statements after the loop -/\n"
		s += "def walkFinish (defaultProvider firstALPNMatchedProvider : Option Nat) : Outcome :=\n  " + finBody + "\n"

		// ---- 6. Conn (inspector)
		fc := findFunc(f, "serverContextManager", "Conn")
		if fc == nil {
			return "", fmt.Errorf("serverContextManager.Conn not found")
		}
		if len(fc.Type.Params.List) != 1 || len(fc.Type.Params.List[0].Names) != 1 {
			return "", fmt.Errorf("Conn: unexpected parameters")
		}
		cn := fc.Type.Params.List[0].Names[0].Name
		var cs []ast.Stmt
		wrapped := "" // name of the peeking wrapper
		bufName := ""
		for _, st := range fc.Body.List {
			switch x := st.(type) {
			case *ast.IfStmt:
				if x.Init != nil {
					// if _, ok := c.(*net.TCPConn); !ok { ... }
					as, ok := x.Init.(*ast.AssignStmt)
					if !ok || len(as.Lhs) != 2 || len(as.Rhs) != 1 {
						return "", fmt.Errorf("Conn: unexpected if-init")
					}
					ta, ok := as.Rhs[0].(*ast.TypeAssertExpr)
					if !ok || exprKey(ta.X) != cn || exprKey(ta.Type) != "*net.TCPConn" {
						return "", fmt.Errorf("Conn: if-init is not the *net.TCPConn assertion")
					}
					okName := exprKey(as.Lhs[1])
					cond := rewriteExpr(x.Cond, func(e ast.Expr) ast.Expr {
						if id, ok := e.(*ast.Ident); ok && id.Name == okName {
							return ident("isTCP")
						}
						return e
					})
					cs = append(cs, &ast.IfStmt{Cond: cond, Body: x.Body, Else: x.Else})
					continue
				}
				if b, ok := x.Cond.(*ast.BinaryExpr); ok && b.Op == token.NEQ && exprKey(b.X) == "err" && exprKey(b.Y) == "nil" {
					cs = append(cs, &ast.IfStmt{Cond: ident("peekFailed"), Body: x.Body, Else: x.Else})
					continue
				}
				cs = append(cs, x)
			case *ast.AssignStmt:
				switch {
				case len(x.Lhs) == 1 && len(x.Rhs) == 1 && x.Tok == token.DEFINE:
					// conn := &Conn{Conn: c}
					u, ok := x.Rhs[0].(*ast.UnaryExpr)
					if !ok || u.Op != token.AND {
						return "", fmt.Errorf("Conn: unexpected definition")
					}
					cl, ok := u.X.(*ast.CompositeLit)
					if !ok || exprKey(cl.Type) != "Conn" || len(cl.Elts) != 1 {
						return "", fmt.Errorf("Conn: wrapper is not &Conn{Conn: c}")
					}
					kv, ok := cl.Elts[0].(*ast.KeyValueExpr)
					if !ok || exprKey(kv.Key) != "Conn" || exprKey(kv.Value) != cn {
						return "", fmt.Errorf("Conn: wrapper is not &Conn{Conn: c}")
					}
					wrapped = exprKey(x.Lhs[0])
				case len(x.Lhs) == 2 && len(x.Rhs) == 1 && x.Tok == token.DEFINE && wrapped != "" && isCall(x.Rhs[0], wrapped+".Peek") && exprKey(x.Lhs[1]) == "err":
					bufName = exprKey(x.Lhs[0])
				default:
					return "", fmt.Errorf("Conn: unexpected assignment")
				}
			case *ast.SwitchStmt:
				ie, ok := x.Tag.(*ast.IndexExpr)
				if !ok || bufName == "" || exprKey(ie.X) != bufName {
					return "", fmt.Errorf("Conn: switch tag is not %s[0]", bufName)
				}
				if bl, ok := ie.Index.(*ast.BasicLit); !ok || bl.Value != "0" {
					return "", fmt.Errorf("Conn: switch tag is not %s[0]", bufName)
				}
				ifs, err := switchToIf(&ast.SwitchStmt{Tag: ident("first"), Body: x.Body})
				if err != nil {
					return "", err
				}
				cs = append(cs, ifs)
			default:
				return "", fmt.Errorf("Conn: unexpected statement %T", st)
			}
		}
		// classify the returned connections
		var rerr error
		fe2 := func(e ast.Expr) ast.Expr {
			if u, ok := e.(*ast.UnaryExpr); ok && u.Op == token.AND {
				if cl, ok := u.X.(*ast.CompositeLit); ok && exprKey(cl.Type) == "TLSConn" && len(cl.Elts) == 1 {
					if c, ok := cl.Elts[0].(*ast.CallExpr); ok && exprKey(c.Fun) == "tls.Server" && len(c.Args) == 2 {
						switch exprKey(c.Args[0]) {
						case cn:
							return ident("__tlsRaw")
						case wrapped:
							return ident("__tlsPeeked")
						}
					}
				}
				rerr = fmt.Errorf("Conn: unexpected returned value")
			}
			return e
		}
		cs, err = rewriteStmts(cs, fe2, nil)
		if err != nil {
			return "", err
		}
		if rerr != nil {
			return "", rerr
		}
		envC := &Env{Names: map[string]string{
			"isTCP": "isTCP", "mng.Enabled()": "enabled", "mng.inspector": "inspector", "peekFailed": "peekFailed",
			"first": "first", "nil": "none", "err": "err",
			cn: "ConnResult.raw", "__tlsRaw": "ConnResult.tls", "__tlsPeeked": "ConnResult.tlsPeeked",
		}, Calls: map[string]string{},
			Ret: func(rs []string) string {
				switch {
				case len(rs) == 2 && rs[1] == "none":
					return rs[0]
				case len(rs) == 2 && rs[0] == "none" && rs[1] == "err":
					return "ConnResult.peekError"
				}
				return "ERR_return"
			}, Fall: "ERR_falls_off"}
		if wrapped != "" {
			envC.Names[wrapped] = "ConnResult.plainPeeked"
		}
		cbody, err := envC.block(cs, "  ")
		if err != nil {
			return "", fmt.Errorf("Conn: %v", err)
		}
		s += "/-- what `serverContextManager.Conn` returns: the connection unchanged, a TLS server connection over it, a TLS server\nconnection over the peeking wrapper, the peeking wrapper itself (plaintext is served), or the Peek error -/\n"
		s += "inductive ConnResult where\n  | raw | tls | tlsPeeked | plainPeeked | peekError\n  deriving DecidableEq, Repr\n"
		s += "/-- `serverContextManager.Conn`: isTCP = the connection is a *net.TCPConn, enabled = mng.Enabled(), first = the peeked byte -/\n"
		s += "def connDecision (isTCP enabled inspector peekFailed : Bool) (first : Nat) : ConnResult :=\n  " + cbody + "\n"
	}

	// ---- 7. alpn table keys (types.go)
	{
		f, err := parse(typSrc)
		if err != nil {
			return "", err
		}
		var keys []string
		found := false
		for _, d := range f.Decls {
			gd, ok := d.(*ast.GenDecl)
			if !ok || gd.Tok != token.VAR {
				continue
			}
			for _, sp := range gd.Specs {
				vs := sp.(*ast.ValueSpec)
				if len(vs.Names) == 1 && vs.Names[0].Name == "alpn" && len(vs.Values) == 1 {
					cl, ok := vs.Values[0].(*ast.CompositeLit)
					if !ok {
						return "", fmt.Errorf("alpn: not a composite literal")
					}
					for _, e := range cl.Elts {
						kv, ok := e.(*ast.KeyValueExpr)
						if !ok {
							return "", fmt.Errorf("alpn: element")
						}
						k, ok := kv.Key.(*ast.BasicLit)
						if !ok || k.Kind != token.STRING || exprKey(kv.Value) != "true" {
							return "", fmt.Errorf("alpn: key/value shape")
						}
						u, err := strconv.Unquote(k.Value)
						if err != nil {
							return "", err
						}
						keys = append(keys, strconv.Quote(u))
					}
					found = true
				}
			}
		}
		if !found {
			return "", fmt.Errorf("alpn table not found")
		}
		s += "/-- keys of the `alpn` table (types.go): the ALPN tokens tlsConfigTemplate keeps -/\n"
		s += "def alpnSupported : List String := [" + strings.Join(keys, ", ") + "]\n"
	}
	s += footer("TlsPolicy")
	return s, nil
}
