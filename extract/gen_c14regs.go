package main

// Gen module FilterRegs (property C14, round 7): the REGISTRATION side of pkg/streamfilter/chain.go.
//
//   - AddStreamReceiverFilter / AddStreamSenderFilter, statement by statement: every statement must be an unconditional
//     `d.<slice> = append(d.<slice>, <parameter>)`; anything else (a guard, a loop looking for the object, an early return)
//     is not an append-only registration and is reported as translation-unsupported (the tie breaks);
//   - the element test in front of the filter call in the RunReceiverFilter / RunSenderFilter loops
//     (`if phase != p { continue }`): the comparison is regenerated; the loop body must read filter and phase at the cursor,
//     must contain no `break` / `goto`, and the loop must advance the cursor by one;
//   - OnDestroy: the slices it ranges over, calling OnDestroy of every element (once per registration);
//   - the api.ReceiverFilterPhase / api.SenderFilterPhase constants.

import (
	"fmt"
	"go/ast"
	"go/token"
	"path/filepath"
	"strings"
)

func init() { register("FilterRegs", genC14Regs) }

var c14rgSlices = map[string]bool{"receiverFilters": true, "receiverFiltersPhase": true, "senderFilters": true, "senderFiltersPhase": true}

// c14rgAdd translates the body of an Add…Filter method.
func c14rgAdd(fd *ast.FuncDecl, leanName string) (string, error) {
	if fd == nil {
		return "", fmt.Errorf("%s not found", leanName)
	}
	if fd.Recv == nil || len(fd.Recv.List) != 1 || len(fd.Recv.List[0].Names) != 1 {
		return "", fmt.Errorf("%s: receiver", fd.Name.Name)
	}
	recv := fd.Recv.List[0].Names[0].Name
	var params []string
	for _, f := range fd.Type.Params.List {
		for _, n := range f.Names {
			params = append(params, n.Name)
		}
	}
	if len(params) != 2 {
		return "", fmt.Errorf("%s: expected (filter, phase) parameters", fd.Name.Name)
	}
	isParam := func(s string) bool { return s == params[0] || s == params[1] }
	s := fmt.Sprintf("def %s (%s : Chain) (%s %s : Nat) : Chain :=\n", leanName, recv, params[0], params[1])
	for _, st := range fd.Body.List {
		as, ok := st.(*ast.AssignStmt)
		if !ok || as.Tok != token.ASSIGN || len(as.Lhs) != 1 || len(as.Rhs) != 1 {
			return "", fmt.Errorf("%s: statement %T is not an unconditional append (registration is not append-only)", fd.Name.Name, st)
		}
		lhs := exprKey(as.Lhs[0])
		if !strings.HasPrefix(lhs, recv+".") || !c14rgSlices[strings.TrimPrefix(lhs, recv+".")] {
			return "", fmt.Errorf("%s: assignment to %s", fd.Name.Name, lhs)
		}
		field := strings.TrimPrefix(lhs, recv+".")
		call, ok := as.Rhs[0].(*ast.CallExpr)
		if !ok || exprKey(call.Fun) != "append" || len(call.Args) != 2 || call.Ellipsis.IsValid() {
			return "", fmt.Errorf("%s: %s is not assigned an append of one element", fd.Name.Name, lhs)
		}
		if exprKey(call.Args[0]) != lhs {
			return "", fmt.Errorf("%s: %s = append(%s, …) does not extend the slice itself", fd.Name.Name, lhs, exprKey(call.Args[0]))
		}
		arg := exprKey(call.Args[1])
		if !isParam(arg) {
			return "", fmt.Errorf("%s: appended value %s is not a parameter", fd.Name.Name, arg)
		}
		s += fmt.Sprintf("  let %s : Chain := { %s with %s := %s.%s ++ [%s] }\n", recv, recv, field, recv, field, arg)
	}
	s += "  " + recv + "\n"
	return s, nil
}

// c14rgLoop checks the shape of a Run…Filter loop and returns the regenerated skip test and the slices the body reads.
func c14rgLoop(fd *ast.FuncDecl, cursor, filters, phases string) (string, error) {
	if fd == nil {
		return "", fmt.Errorf("run function not found")
	}
	var loop *ast.ForStmt
	for _, st := range fd.Body.List {
		if f, ok := st.(*ast.ForStmt); ok {
			if loop != nil {
				return "", fmt.Errorf("%s: more than one loop", fd.Name.Name)
			}
			loop = f
		}
	}
	if loop == nil {
		return "", fmt.Errorf("%s: loop not found", fd.Name.Name)
	}
	if loop.Init != nil {
		return "", fmt.Errorf("%s: the loop has an init statement (does not start at the cursor)", fd.Name.Name)
	}
	if c, ok := loop.Cond.(*ast.BinaryExpr); !ok || c.Op != token.LSS || exprKey(c.X) != cursor || exprKey(c.Y) != "len("+filters+")" {
		return "", fmt.Errorf("%s: loop condition is not `%s < len(%s)`", fd.Name.Name, cursor, filters)
	}
	if inc, ok := loop.Post.(*ast.IncDecStmt); !ok || inc.Tok != token.INC || exprKey(inc.X) != cursor {
		return "", fmt.Errorf("%s: the loop does not advance the cursor by one", fd.Name.Name)
	}
	bad := ""
	ast.Inspect(loop.Body, func(n ast.Node) bool {
		if b, ok := n.(*ast.BranchStmt); ok && b.Tok != token.CONTINUE {
			bad = b.Tok.String()
		}
		if _, ok := n.(*ast.ForStmt); ok {
			bad = "nested loop"
		}
		if _, ok := n.(*ast.RangeStmt); ok {
			bad = "nested loop"
		}
		return true
	})
	if bad != "" {
		return "", fmt.Errorf("%s: %s inside the filter loop", fd.Name.Name, bad)
	}
	body := loop.Body.List
	if len(body) < 4 {
		return "", fmt.Errorf("%s: loop body too short", fd.Name.Name)
	}
	def := func(st ast.Stmt, slice string) (string, error) {
		as, ok := st.(*ast.AssignStmt)
		if !ok || as.Tok != token.DEFINE || len(as.Lhs) != 1 || len(as.Rhs) != 1 {
			return "", fmt.Errorf("%s: expected `x := %s[%s]`", fd.Name.Name, slice, cursor)
		}
		ix, ok := as.Rhs[0].(*ast.IndexExpr)
		if !ok || exprKey(ix.X) != slice || exprKey(ix.Index) != cursor {
			return "", fmt.Errorf("%s: expected `x := %s[%s]`, found %s", fd.Name.Name, slice, cursor, exprKey(as.Rhs[0]))
		}
		return exprKey(as.Lhs[0]), nil
	}
	fvar, err := def(body[0], filters)
	if err != nil {
		return "", err
	}
	pvar, err := def(body[1], phases)
	if err != nil {
		return "", err
	}
	ifs, ok := body[2].(*ast.IfStmt)
	if !ok || ifs.Init != nil || ifs.Else != nil || len(ifs.Body.List) != 1 {
		return "", fmt.Errorf("%s: third statement of the loop is not the phase test", fd.Name.Name)
	}
	if br, ok := ifs.Body.List[0].(*ast.BranchStmt); !ok || br.Tok != token.CONTINUE {
		return "", fmt.Errorf("%s: the phase test does not `continue`", fd.Name.Name)
	}
	be, ok := ifs.Cond.(*ast.BinaryExpr)
	if !ok {
		return "", fmt.Errorf("%s: phase test %s", fd.Name.Name, exprKey(ifs.Cond))
	}
	x, y := exprKey(be.X), exprKey(be.Y)
	if !((x == "phase" && y == pvar) || (x == pvar && y == "phase")) {
		return "", fmt.Errorf("%s: phase test compares %s with %s", fd.Name.Name, x, y)
	}
	lx, ly := "phase", "p"
	if x == pvar {
		lx, ly = "p", "phase"
	}
	op := ""
	switch be.Op {
	case token.NEQ:
		op = "!="
	case token.EQL:
		op = "=="
	case token.LSS:
		op = "<"
	case token.GTR:
		op = ">"
	case token.LEQ:
		op = "<="
	case token.GEQ:
		op = ">="
	default:
		return "", fmt.Errorf("%s: phase test operator %s", fd.Name.Name, be.Op)
	}
	// the filter call is the first statement after the test and calls the element read at the cursor
	as, ok := body[3].(*ast.AssignStmt)
	if !ok || len(as.Rhs) != 1 {
		return "", fmt.Errorf("%s: the statement after the phase test is not the filter call", fd.Name.Name)
	}
	call, ok := as.Rhs[0].(*ast.CallExpr)
	if !ok || !strings.HasPrefix(exprKey(call.Fun), fvar+".") {
		return "", fmt.Errorf("%s: the statement after the phase test does not call %s", fd.Name.Name, fvar)
	}
	if op == "!=" || op == "==" {
		return fmt.Sprintf("(%s %s %s)", lx, op, ly), nil
	}
	return fmt.Sprintf("decide (%s %s %s)", lx, op, ly), nil
}

// c14rgDestroy returns the slices OnDestroy ranges over, in order; every loop body must be exactly `<elem>.OnDestroy()`.
func c14rgDestroy(fd *ast.FuncDecl) ([]string, error) {
	if fd == nil {
		return nil, fmt.Errorf("OnDestroy not found")
	}
	recv := fd.Recv.List[0].Names[0].Name
	var out []string
	for _, st := range fd.Body.List {
		rs, ok := st.(*ast.RangeStmt)
		if !ok {
			return nil, fmt.Errorf("OnDestroy: statement %T", st)
		}
		sl := exprKey(rs.X)
		if !strings.HasPrefix(sl, recv+".") || rs.Value == nil {
			return nil, fmt.Errorf("OnDestroy: range over %s", sl)
		}
		if len(rs.Body.List) != 1 {
			return nil, fmt.Errorf("OnDestroy: loop body is not a single call")
		}
		es, ok := rs.Body.List[0].(*ast.ExprStmt)
		if !ok {
			return nil, fmt.Errorf("OnDestroy: loop body is not a call")
		}
		call, ok := es.X.(*ast.CallExpr)
		if !ok || exprKey(call.Fun) != exprKey(rs.Value)+".OnDestroy" || len(call.Args) != 0 {
			return nil, fmt.Errorf("OnDestroy: loop body %s", exprKey(es.X))
		}
		out = append(out, strings.TrimPrefix(sl, recv+"."))
	}
	return out, nil
}

func genC14Regs() (string, error) {
	f, err := parse("pkg/streamfilter/chain.go")
	if err != nil {
		return "", err
	}
	const impl = "DefaultStreamFilterChainImpl"
	s := "-- GENERATED by /verif/extract from pkg/streamfilter/chain.go, mosn.io/api — do not edit; regenerated on every check\n"
	s += "set_option linter.unusedVariables false\nnamespace MosnVerif.Gen.FilterRegs\n"
	ad, err := apiDir()
	if err != nil {
		return "", err
	}
	vals, order, err := c14DirConsts(filepath.Clean(ad))
	if err != nil {
		return "", err
	}
	for _, ty := range []string{"ReceiverFilterPhase", "SenderFilterPhase"} {
		if len(order[ty]) == 0 {
			return "", fmt.Errorf("api.%s constants not found", ty)
		}
		s += "/-- api." + ty + " constants -/\n"
		for _, n := range order[ty] {
			v, ok := vals[n]
			if !ok {
				return "", fmt.Errorf("value of api.%s", n)
			}
			s += fmt.Sprintf("abbrev %s : Nat := %s\n", n, v.ExactString())
		}
		var q []string
		for _, n := range order[ty] {
			q = append(q, n)
		}
		s += fmt.Sprintf("def %sValues : List Nat := [%s]\n", strings.ToLower(ty[:1])+ty[1:], strings.Join(q, ", "))
	}
	s += "\n/-- the registration slices of DefaultStreamFilterChainImpl (filter objects by identity, phases by value) -/\n"
	s += "structure Chain where\n  receiverFilters : List Nat := []\n  receiverFiltersPhase : List Nat := []\n  senderFilters : List Nat := []\n  senderFiltersPhase : List Nat := []\n  deriving DecidableEq, Repr\n\n"
	r, err := c14rgAdd(findFunc(f, impl, "AddStreamReceiverFilter"), "addStreamReceiverFilter")
	if err != nil {
		return "", err
	}
	s += "/-- DefaultStreamFilterChainImpl.AddStreamReceiverFilter, statement by statement -/\n" + r
	r, err = c14rgAdd(findFunc(f, impl, "AddStreamSenderFilter"), "addStreamSenderFilter")
	if err != nil {
		return "", err
	}
	s += "/-- DefaultStreamFilterChainImpl.AddStreamSenderFilter, statement by statement -/\n" + r
	t, err := c14rgLoop(findFunc(f, impl, "RunReceiverFilter"), "d.receiverFiltersIndex", "d.receiverFilters", "d.receiverFiltersPhase")
	if err != nil {
		return "", err
	}
	s += "\n/-- RunReceiverFilter: the loop starts at the cursor, advances it by one, reads filter and phase at the cursor, has no\nbreak; the element is SKIPPED (continue) when this test holds (`phase` = the pass, `p` = the registration) -/\n"
	s += "def recvSkips (phase p : Nat) : Bool := " + t + "\n"
	t, err = c14rgLoop(findFunc(f, impl, "RunSenderFilter"), "d.senderFiltersIndex", "d.senderFilters", "d.senderFiltersPhase")
	if err != nil {
		return "", err
	}
	s += "/-- RunSenderFilter: same shape -/\n"
	s += "def sendSkips (phase p : Nat) : Bool := " + t + "\n"
	ds, err := c14rgDestroy(findFunc(f, impl, "OnDestroy"))
	if err != nil {
		return "", err
	}
	s += "\n/-- DefaultStreamFilterChainImpl.OnDestroy: the objects whose OnDestroy is called, in call order (a range over each slice) -/\n"
	s += "def onDestroy (d : Chain) : List Nat := "
	var parts []string
	for _, sl := range ds {
		if !c14rgSlices[sl] {
			return "", fmt.Errorf("OnDestroy ranges over %s", sl)
		}
		parts = append(parts, "d."+sl)
	}
	if len(parts) == 0 {
		s += "[]\n"
	} else {
		s += strings.Join(parts, " ++ ") + "\n"
	}
	s += "end MosnVerif.Gen.FilterRegs\n"
	return s, nil
}
