package main

// Gen/C08H2Loop.lean (C08): the HTTP/2 read path.
//
//   pkg/stream/http2/stream.go   serverStreamConnection.Dispatch / clientStreamConnection.Dispatch: what ONE turn of the
//       `for { … Decode … }` loop does after each class of Decode answer — ErrAGAIN, a connection error (err != nil that
//       is neither ErrAGAIN nor a StreamError), a StreamError, a frame — walked symbolically (conditions over `err`, the
//       `ok` of the StreamError assertion decided by the class; anything else may only guard code without control
//       transfers): `true` = the loop goes round again, `false` = Dispatch returns; and whether handleFrame saw the error.
//   pkg/module/http2/mhttp2.go   MFramer.readFrameHeader: the slice expression `data.Bytes()[off:]`, every index into it
//       and the 4-byte big-endian read; MFramer.ReadFrame: the payload slice bounds, the order
//       readFrameHeader < `fh.Length > fr.maxReadSize` < completeness test < payload slice, the offset handed to
//       readMetaFrame; MFramer.readMetaFrame: the offset of the nested ReadFrame and `msize += size`.
//   (the length tests themselves are Gen/FrameLen h2_hdrShort / h2_tooLarge / h2_incomplete / h2_size / h2_drain.)
//
// Unknown shapes are rejected. Helpers carry the prefix c08h.

import (
	"fmt"
	"go/ast"
	"go/token"
	"sort"
	"strings"
)

func init() { register("C08H2Loop", c08hGen) }

type c08hWalk struct {
	class   string // again | connerr | streamerr | frame
	bufV    string
	errV    string
	okV     string
	decodes int
	handled int
	end     string
}

func (w *c08hWalk) cond(e ast.Expr) int {
	switch x := e.(type) {
	case *ast.ParenExpr:
		return w.cond(x.X)
	case *ast.UnaryExpr:
		if x.Op == token.NOT {
			return c08dNot(w.cond(x.X))
		}
	case *ast.Ident:
		if w.okV != "" && x.Name == w.okV {
			switch w.class {
			case "streamerr":
				return c08dT
			case "connerr":
				return c08dF
			}
		}
	case *ast.BinaryExpr:
		switch x.Op {
		case token.LAND:
			a, b := w.cond(x.X), w.cond(x.Y)
			if a == c08dF || b == c08dF {
				return c08dF
			}
			if a == c08dT && b == c08dT {
				return c08dT
			}
			return c08dU
		case token.LOR:
			a, b := w.cond(x.X), w.cond(x.Y)
			if a == c08dT || b == c08dT {
				return c08dT
			}
			if a == c08dF && b == c08dF {
				return c08dF
			}
			return c08dU
		case token.EQL, token.NEQ:
			r := c08dU
			if w.errV != "" && exprKey(x.X) == w.errV {
				switch {
				case exprKey(x.Y) == "http2.ErrAGAIN":
					if w.class == "again" {
						r = c08dT
					} else {
						r = c08dF
					}
				case c08dIsNil(x.Y):
					if w.class == "frame" {
						r = c08dT
					} else {
						r = c08dF
					}
				}
			}
			if x.Op == token.NEQ {
				r = c08dNot(r)
			}
			return r
		}
	}
	return c08dU
}

func c08hTransfers(n ast.Node) bool {
	found := false
	ast.Inspect(n, func(m ast.Node) bool {
		switch x := m.(type) {
		case *ast.FuncLit:
			return false
		case *ast.ReturnStmt, *ast.BranchStmt, *ast.ForStmt, *ast.RangeStmt, *ast.GoStmt, *ast.LabeledStmt, *ast.SelectStmt:
			found = true
		case *ast.CallExpr:
			if s, ok := x.Fun.(*ast.SelectorExpr); ok && (s.Sel.Name == "Decode" || s.Sel.Name == "handleFrame" || s.Sel.Name == "Dispatch") {
				found = true
			}
			if id, ok := x.Fun.(*ast.Ident); ok && id.Name == "panic" {
				found = true
			}
		}
		return true
	})
	return found
}

func (w *c08hWalk) stmts(l []ast.Stmt) error {
	for _, s := range l {
		if w.end != "" {
			return nil
		}
		if err := w.stmt(s); err != nil {
			return err
		}
	}
	return nil
}

func (w *c08hWalk) stmt(s ast.Stmt) error {
	switch x := s.(type) {
	case *ast.ReturnStmt:
		if len(x.Results) != 0 {
			return fmt.Errorf("h2 Dispatch: return with a value")
		}
		w.end = "return"
	case *ast.BranchStmt:
		if x.Label != nil {
			return fmt.Errorf("h2 Dispatch: labelled %s", x.Tok)
		}
		switch x.Tok {
		case token.CONTINUE:
			w.end = "continue"
		case token.BREAK:
			w.end = "break"
		default:
			return fmt.Errorf("h2 Dispatch: %s", x.Tok)
		}
	case *ast.BlockStmt:
		return w.stmts(x.List)
	case *ast.IfStmt:
		if x.Init != nil {
			a, ok := x.Init.(*ast.AssignStmt)
			if !ok || len(a.Lhs) != 2 || len(a.Rhs) != 1 {
				return fmt.Errorf("h2 Dispatch: if-initialiser not recognised at %s", fset.Position(x.Pos()))
			}
			ta, ok := a.Rhs[0].(*ast.TypeAssertExpr)
			if !ok || exprKey(ta.X) != w.errV || exprKey(ta.Type) != "http2.StreamError" {
				return fmt.Errorf("h2 Dispatch: if-initialiser is not `_, ok := err.(http2.StreamError)`")
			}
			w.okV = exprKey(a.Lhs[1])
		}
		switch w.cond(x.Cond) {
		case c08dT:
			return w.stmts(x.Body.List)
		case c08dF:
			if x.Else != nil {
				return w.stmt(x.Else)
			}
		default:
			if c08hTransfers(x.Body) || (x.Else != nil && c08hTransfers(x.Else)) {
				return fmt.Errorf("h2 Dispatch: on the path `%s` the condition %s is not decided by the class and guards a control transfer", w.class, exprKey(x.Cond))
			}
		}
	case *ast.AssignStmt:
		if len(x.Rhs) == 1 {
			if c, ok := x.Rhs[0].(*ast.CallExpr); ok {
				if sel, ok := c.Fun.(*ast.SelectorExpr); ok && sel.Sel.Name == "Decode" {
					if len(x.Lhs) != 2 || len(c.Args) != 2 || exprKey(c.Args[1]) != w.bufV {
						return fmt.Errorf("h2 Dispatch: Decode call not of the shape `frame, err := ….Decode(ctx, buf)`")
					}
					w.errV = exprKey(x.Lhs[1])
					w.decodes++
					return nil
				}
			}
		}
		if c08hTransfers(x) {
			return fmt.Errorf("h2 Dispatch: assignment with a control transfer at %s", fset.Position(x.Pos()))
		}
	case *ast.ExprStmt:
		if c, ok := x.X.(*ast.CallExpr); ok {
			if sel, ok := c.Fun.(*ast.SelectorExpr); ok {
				switch sel.Sel.Name {
				case "Decode", "Dispatch":
					return fmt.Errorf("h2 Dispatch: %s as a statement", sel.Sel.Name)
				case "handleFrame":
					if len(c.Args) == 3 && exprKey(c.Args[2]) == w.errV {
						w.handled++
					}
				}
			}
			if id, ok := c.Fun.(*ast.Ident); ok && id.Name == "panic" {
				return fmt.Errorf("h2 Dispatch: panic in the loop")
			}
		}
	case *ast.DeclStmt, *ast.IncDecStmt, *ast.EmptyStmt:
	default:
		return fmt.Errorf("h2 Dispatch: statement %T at %s not recognised", s, fset.Position(s.Pos()))
	}
	return nil
}

func c08hClass(fd *ast.FuncDecl, class string) (again bool, handled bool, err error) {
	if fd.Type.Params == nil || len(fd.Type.Params.List) != 1 || len(fd.Type.Params.List[0].Names) != 1 {
		return false, false, fmt.Errorf("h2 Dispatch: parameters not recognised")
	}
	var loop *ast.ForStmt
	for _, s := range fd.Body.List {
		f, ok := s.(*ast.ForStmt)
		if !ok {
			if c08hTransfers(s) {
				return false, false, fmt.Errorf("h2 Dispatch: a statement outside the loop transfers control")
			}
			continue
		}
		if loop != nil {
			return false, false, fmt.Errorf("h2 Dispatch: more than one loop")
		}
		loop = f
	}
	if loop == nil || loop.Init != nil || loop.Cond != nil || loop.Post != nil {
		return false, false, fmt.Errorf("h2 Dispatch: not a single `for { … }` loop")
	}
	w := &c08hWalk{class: class, bufV: fd.Type.Params.List[0].Names[0].Name}
	if err := w.stmts(loop.Body.List); err != nil {
		return false, false, err
	}
	if w.decodes != 1 {
		return false, false, fmt.Errorf("h2 Dispatch: path `%s` passes %d Decode calls", class, w.decodes)
	}
	return w.end == "" || w.end == "continue", w.handled >= 1, nil
}

// c08hPos: position of the first node satisfying pred (0 = none)
func c08hPos(root ast.Node, pred func(ast.Node) bool) token.Pos {
	var p token.Pos
	ast.Inspect(root, func(n ast.Node) bool {
		if n == nil || p != 0 {
			return false
		}
		if pred(n) {
			p = n.Pos()
			return false
		}
		return true
	})
	return p
}

func c08hGen() (string, error) {
	const sfile = "pkg/stream/http2/stream.go"
	const mfile = "pkg/module/http2/mhttp2.go"
	sf, err := parse(sfile)
	if err != nil {
		return "", err
	}
	o := &leanOut{}
	o.sb.WriteString(header("C08H2Loop", sfile, mfile))
	for _, side := range []struct{ recv, pre string }{{"serverStreamConnection", "srv"}, {"clientStreamConnection", "cli"}} {
		fd := findFunc(sf, side.recv, "Dispatch")
		if fd == nil {
			return "", fmt.Errorf("%s.Dispatch not found", side.recv)
		}
		for _, c := range []struct{ class, lean, doc string }{
			{"again", "Again", "Decode answered ErrAGAIN (no complete frame)"},
			{"connerr", "ConnErr", "Decode failed with an error that is neither ErrAGAIN nor a StreamError (connection error)"},
			{"streamerr", "StreamErr", "Decode failed with a StreamError"},
			{"frame", "Frame", "Decode delivered a frame"},
		} {
			again, handled, err := c08hClass(fd, c.class)
			if err != nil {
				return "", err
			}
			fmt.Fprintf(&o.sb, "/-- %s.Dispatch, a turn in which %s: the loop goes round again (false: Dispatch returns) -/\ndef %sAgain%s : Bool := %s\n", side.recv, c.doc, side.pre, c.lean, c08dBool(again))
			if c.class == "connerr" || c.class == "streamerr" {
				fmt.Fprintf(&o.sb, "/-- … and the error was handed to handleFrame (→ handleError) before the turn ended -/\ndef %sHandled%s : Bool := %s\n", side.pre, c.lean, c08dBool(handled))
			}
		}
	}

	// ---- the framer
	hc := map[string]string{}
	if err := intConsts("pkg/module/http2", "", hc); err != nil {
		return "", err
	}
	mf, err := parse(mfile)
	if err != nil {
		return "", err
	}
	rh := findFunc(mf, "MFramer", "readFrameHeader")
	rf := findFunc(mf, "MFramer", "ReadFrame")
	rm := findFunc(mf, "MFramer", "readMetaFrame")
	if rh == nil || rf == nil || rm == nil {
		return "", fmt.Errorf("MFramer.readFrameHeader / ReadFrame / readMetaFrame not found")
	}
	// readFrameHeader: `if <short> { return …ErrAGAIN }` first, then `buf := data.Bytes()[off:]`, then only reads of buf
	if len(rh.Body.List) < 3 {
		return "", fmt.Errorf("readFrameHeader: shape not recognised")
	}
	if ifs, ok := rh.Body.List[0].(*ast.IfStmt); !ok || !strings.Contains(c08fSrc(ifs.Body), "ErrAGAIN") || len(ifs.Body.List) != 1 {
		return "", fmt.Errorf("readFrameHeader: does not start with the completeness test returning ErrAGAIN")
	}
	as, ok := rh.Body.List[1].(*ast.AssignStmt)
	if !ok || len(as.Lhs) != 1 || len(as.Rhs) != 1 {
		return "", fmt.Errorf("readFrameHeader: second statement is not `buf := data.Bytes()[off:]`")
	}
	sl, ok := as.Rhs[0].(*ast.SliceExpr)
	if !ok || sl.High != nil || sl.Low == nil || baseKey(sl.X) != "data.Bytes()" {
		return "", fmt.Errorf("readFrameHeader: second statement is not `buf := data.Bytes()[off:]`")
	}
	bufName := exprKey(as.Lhs[0])
	envH := newEnv(hc, "off", "off")
	o.fn("h2c_hdrSliceLo", "mhttp2.go readFrameHeader: low bound of `"+c08fSrc(as.Rhs[0])+"`", []string{"off"}, "Nat", sl.Low, envH)
	idx := map[int64]bool{}
	var u32 []int64
	bad := ""
	for _, s := range rh.Body.List[2:] {
		ast.Inspect(s, func(n ast.Node) bool {
			switch x := n.(type) {
			case *ast.IndexExpr:
				if exprKey(x.X) == bufName {
					k, err := evalNat(x.Index, hc)
					if err != nil {
						bad = "index " + c08fSrc(x) + " is not a constant"
					}
					idx[k] = true
					return false
				}
				bad = "index into " + exprKey(x.X)
			case *ast.SliceExpr:
				bad = "slice expression outside a big-endian read: " + c08fSrc(x)
			case *ast.CallExpr:
				if w, base, lo, hi, ok := beRead(x); ok {
					if base != bufName || hi != nil || w != 4 {
						bad = "read " + c08fSrc(x) + " not of the shape binary.BigEndian.Uint32(buf[k:])"
						return false
					}
					k := int64(0)
					if lo != nil {
						var err error
						if k, err = evalNat(lo, hc); err != nil {
							bad = "offset of " + c08fSrc(x) + " is not a constant"
						}
					}
					u32 = append(u32, k)
					return false
				}
				if strings.Contains(exprKey(x.Fun), "Bytes") || strings.Contains(exprKey(x.Fun), "Peek") {
					bad = "further buffer access " + c08fSrc(x)
				}
			}
			return true
		})
	}
	if bad != "" {
		return "", fmt.Errorf("readFrameHeader: %s", bad)
	}
	var il []int64
	for k := range idx {
		il = append(il, k)
	}
	sort.Slice(il, func(i, j int) bool { return il[i] < il[j] })
	fmt.Fprintf(&o.sb, "/-- mhttp2.go readFrameHeader: the constant indices `%s[k]` -/\ndef h2c_hdrIdx : List Nat := %s\n", bufName, natList(il))
	fmt.Fprintf(&o.sb, "/-- mhttp2.go readFrameHeader: offsets k of the 4-byte reads `binary.BigEndian.Uint32(%s[k:])` -/\ndef h2c_hdrU32 : List Nat := %s\n", bufName, natList(u32))
	o.names = append(o.names, "h2c_hdrIdx", "h2c_hdrU32")

	// ReadFrame: order of the guards and the payload slice
	isCallTo := func(name string) func(ast.Node) bool {
		return func(n ast.Node) bool {
			c, ok := n.(*ast.CallExpr)
			if !ok {
				return false
			}
			s, ok := c.Fun.(*ast.SelectorExpr)
			return ok && s.Sel.Name == name
		}
	}
	ifWith := func(key string) func(ast.Node) bool {
		return func(n ast.Node) bool {
			i, ok := n.(*ast.IfStmt)
			if !ok {
				return false
			}
			if c08fSrc(i.Cond) != key {
				return false
			}
			// the body must be a bare `return nil, 0, <err>`
			if len(i.Body.List) != 1 {
				return false
			}
			_, isRet := i.Body.List[0].(*ast.ReturnStmt)
			return isRet
		}
	}
	var paySlice *ast.SliceExpr
	pHdr := c08hPos(rf.Body, isCallTo("readFrameHeader"))
	pLarge := c08hPos(rf.Body, ifWith("fh.Length > fr.maxReadSize"))
	pIncomplete := c08hPos(rf.Body, func(n ast.Node) bool {
		i, ok := n.(*ast.IfStmt)
		if !ok || len(i.Body.List) != 1 {
			return false
		}
		b, ok := i.Cond.(*ast.BinaryExpr)
		if !ok || b.Op != token.GTR || c08fSrc(b.X) != "int(fh.Length)" {
			return false
		}
		return strings.Contains(c08fSrc(i.Body), "ErrAGAIN")
	})
	pSlice := c08hPos(rf.Body, func(n ast.Node) bool {
		s, ok := n.(*ast.SliceExpr)
		if ok && baseKey(s.X) == "data.Bytes()" {
			paySlice = s
			return true
		}
		return false
	})
	if pHdr == 0 || pLarge == 0 || pIncomplete == 0 || pSlice == 0 || !(pHdr < pLarge && pLarge < pIncomplete && pIncomplete < pSlice) {
		return "", fmt.Errorf("ReadFrame: readFrameHeader call, `fh.Length > fr.maxReadSize` test, completeness test and payload slice not found in this order")
	}
	nSlices := 0
	ast.Inspect(rf.Body, func(n ast.Node) bool {
		switch x := n.(type) {
		case *ast.SliceExpr:
			nSlices++
		case *ast.IndexExpr:
			if strings.Contains(c08fSrc(x.X), "Bytes") {
				nSlices += 10
			}
		}
		return true
	})
	if nSlices != 1 || paySlice.Low == nil || paySlice.High == nil || paySlice.Slice3 {
		return "", fmt.Errorf("ReadFrame: expected exactly one buffer access, the payload slice data.Bytes()[lo:hi]")
	}
	envF := newEnv(hc, "off", "off", "fh.Length", "length", "size", "size", "msize", "msize")
	o.fn("h2c_payLo", "mhttp2.go ReadFrame: low bound of the payload slice `"+c08fSrc(paySlice)+"`", []string{"off", "length"}, "Nat", paySlice.Low, envF)
	o.fn("h2c_payHi", "mhttp2.go ReadFrame: high bound of the payload slice", []string{"off", "length"}, "Nat", paySlice.High, envF)
	// the offset handed to readMetaFrame
	var metaArg ast.Expr
	nMeta := 0
	ast.Inspect(rf.Body, func(n ast.Node) bool {
		if isCallTo("readMetaFrame")(n) {
			c := n.(*ast.CallExpr)
			nMeta++
			if len(c.Args) == 4 {
				metaArg = c.Args[3]
			}
		}
		return true
	})
	if nMeta != 1 || metaArg == nil {
		return "", fmt.Errorf("ReadFrame: expected one call readMetaFrame(ctx, hf, data, <off>)")
	}
	o.fn("h2c_metaOff", "mhttp2.go ReadFrame: offset at which readMetaFrame starts to read CONTINUATION frames", []string{"off", "size"}, "Nat", metaArg, envF)
	// readMetaFrame: one loop, one nested ReadFrame(ctx, data, <off>) whose error is returned at once, `msize += size`
	var nested *ast.CallExpr
	nNested, plusEq := 0, 0
	var nestedIf *ast.IfStmt
	ast.Inspect(rm.Body, func(n ast.Node) bool {
		switch x := n.(type) {
		case *ast.FuncLit:
			return false
		case *ast.IfStmt:
			if a, ok := x.Init.(*ast.AssignStmt); ok && len(a.Rhs) == 1 && isCallTo("ReadFrame")(a.Rhs[0]) {
				nestedIf = x
			}
		case *ast.CallExpr:
			if isCallTo("ReadFrame")(x) {
				nNested++
				nested = x
			}
		case *ast.AssignStmt:
			if x.Tok == token.ADD_ASSIGN && len(x.Lhs) == 1 && exprKey(x.Lhs[0]) == "msize" {
				if exprKey(x.Rhs[0]) == "size" {
					plusEq++
				} else {
					plusEq += 10
				}
			} else if x.Tok != token.DEFINE && len(x.Lhs) == 1 && exprKey(x.Lhs[0]) == "msize" {
				plusEq += 10
			}
		}
		return true
	})
	if nNested != 1 || len(nested.Args) != 3 || plusEq != 1 || nestedIf == nil {
		return "", fmt.Errorf("readMetaFrame: expected `if f, size, err := fr.ReadFrame(ctx, data, <off>); err != nil { return … } else { msize += size … }`")
	}
	if c08fSrc(nestedIf.Cond) != "err != nil" || len(nestedIf.Body.List) != 1 || nestedIf.Else == nil {
		return "", fmt.Errorf("readMetaFrame: the nested ReadFrame's error is not returned at once")
	}
	if _, ok := nestedIf.Body.List[0].(*ast.ReturnStmt); !ok {
		return "", fmt.Errorf("readMetaFrame: the nested ReadFrame's error is not returned at once")
	}
	o.fn("h2c_contOff", "mhttp2.go readMetaFrame: offset of the next CONTINUATION frame (msize bytes of them read so far)", []string{"off", "msize"}, "Nat", nested.Args[2], envF)
	if len(o.errs) > 0 {
		return "", fmt.Errorf("%s", strings.Join(o.errs, "; "))
	}
	return o.sb.String() + o.macro("c08h2_defs") + footer("C08H2Loop"), nil
}
