-- translation-unsupported StreamRestore: open -out/pkg/stream/xprotocol/stream.go: no such file or directory
namespace MosnVerif.Gen.StreamRestore
end MosnVerif.Gen.StreamRestore
