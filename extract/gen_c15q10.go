package main

import (
	"fmt"
	"go/ast"
	"go/token"
	"sort"
	"strings"
)

func init() { register("CriteriaFlow", genC15qCriteriaFlow) }

// genC15qCriteriaFlow: downStream.MetadataMatchCriteria is RECOMPUTED at every call.
//   - every field of the receiver the function reads (closed set: context, requestInfo, cluster), no write to a receiver
//     field (a stored result reused across calls = `memoized`), no package-level variable written;
//   - the functions of downstream.go that select a host (call initializeUpstreamConnectionPool) and the LoadBalancerContext
//     argument they pass; the call sites of LoadBalancerContext.MetadataMatchCriteria() on the selection path
//     (cluster_manager.go, subset_loadbalancer.go).
func genC15qCriteriaFlow() (string, error) {
	f, err := parse(c15down)
	if err != nil {
		return "", err
	}
	fd := findFunc(f, "downStream", "MetadataMatchCriteria")
	if fd == nil || fd.Recv == nil || len(fd.Recv.List[0].Names) != 1 {
		return "", fmt.Errorf("downStream.MetadataMatchCriteria not found")
	}
	recv := fd.Recv.List[0].Names[0].Name
	reads := map[string]bool{}
	memo := false
	var bad error
	ast.Inspect(fd.Body, func(n ast.Node) bool {
		switch x := n.(type) {
		case *ast.AssignStmt:
			for _, l := range x.Lhs {
				if root := c15qRoot(l); root == recv {
					if _, isIdent := l.(*ast.Ident); !isIdent {
						memo = true // a receiver field is written: state kept across calls
					}
				}
			}
		case *ast.IncDecStmt:
			if c15qRoot(x.X) == recv {
				memo = true
			}
		case *ast.SelectorExpr:
			if id, ok := x.X.(*ast.Ident); ok && id.Name == recv {
				reads[x.Sel.Name] = true
			}
		case *ast.GoStmt, *ast.DeferStmt:
			bad = fmt.Errorf("go / defer statement at %s", fset.Position(n.Pos()))
		}
		return true
	})
	if bad != nil {
		return "", bad
	}
	var rs []string
	for r := range reads {
		rs = append(rs, r)
	}
	sort.Strings(rs)
	vocab := map[string]string{"context": ".context", "requestInfo": ".requestInfo", "cluster": ".cluster"}
	var leanReads []string
	for _, r := range rs {
		v, ok := vocab[r]
		if !ok {
			// any other receiver field (e.g. a cached criteria field) is outside the vocabulary
			leanReads = append(leanReads, ".other")
			memo = memo || strings.Contains(strings.ToLower(r), "crit") || strings.Contains(strings.ToLower(r), "cache") || strings.Contains(strings.ToLower(r), "meta")
			continue
		}
		leanReads = append(leanReads, v)
	}
	// selection sites of downstream.go
	var sites []string
	for _, d := range f.Decls {
		g, ok := d.(*ast.FuncDecl)
		if !ok || g.Body == nil || g.Name.Name == "initializeUpstreamConnectionPool" {
			continue
		}
		ast.Inspect(g.Body, func(n ast.Node) bool {
			if c, ok := n.(*ast.CallExpr); ok && strings.HasSuffix(goKey(c.Fun), ".initializeUpstreamConnectionPool") {
				arg := "?"
				if len(c.Args) == 1 {
					arg = goKey(c.Args[0])
				}
				sites = append(sites, fmt.Sprintf("(%q, %q)", g.Name.Name, arg))
			}
			return true
		})
	}
	sort.Strings(sites)
	// initializeUpstreamConnectionPool hands its argument to ConnPoolForCluster
	ip := findFunc(f, "downStream", "initializeUpstreamConnectionPool")
	passes := false
	if ip != nil && len(ip.Type.Params.List) == 1 && len(ip.Type.Params.List[0].Names) == 1 {
		p := ip.Type.Params.List[0].Names[0].Name
		ast.Inspect(ip.Body, func(n ast.Node) bool {
			if c, ok := n.(*ast.CallExpr); ok && strings.HasSuffix(goKey(c.Fun), ".ConnPoolForCluster") && len(c.Args) == 3 && goKey(c.Args[0]) == p {
				passes = true
			}
			return true
		})
	}
	// callers of <ctx>.MetadataMatchCriteria() in the cluster package
	var callers []string
	for _, file := range []string{c15cm, "pkg/upstream/cluster/subset_loadbalancer.go"} {
		cf, err := parse(file)
		if err != nil {
			return "", err
		}
		for _, d := range cf.Decls {
			g, ok := d.(*ast.FuncDecl)
			if !ok || g.Body == nil {
				continue
			}
			n := 0
			ast.Inspect(g.Body, func(x ast.Node) bool {
				if c, ok := x.(*ast.CallExpr); ok && len(c.Args) == 0 {
					if s, ok := c.Fun.(*ast.SelectorExpr); ok && s.Sel.Name == "MetadataMatchCriteria" {
						if id, ok := s.X.(*ast.Ident); ok && (id.Name == "ctx" || id.Name == "balancerContext" || id.Name == "context") {
							n++
						}
					}
				}
				return true
			})
			if n > 0 {
				callers = append(callers, fmt.Sprintf("(%q, %d)", g.Name.Name, n))
			}
		}
	}
	sort.Strings(callers)
	s := header("CriteriaFlow", c15down+" (downStream.MetadataMatchCriteria, the host-selection sites)", c15cm, "pkg/upstream/cluster/subset_loadbalancer.go")
	s += "inductive Read where\n  | context | requestInfo | cluster | other\nderiving DecidableEq, Repr, Inhabited\n\n"
	s += "/-- receiver fields `downStream.MetadataMatchCriteria` reads (sorted by name). -/\n"
	s += "def reads : List Read := [" + strings.Join(leanReads, ", ") + "]\n"
	s += "/-- the function writes a receiver field / reads a field outside {context, requestInfo, cluster}: a result kept across calls. -/\n"
	s += fmt.Sprintf("def memoized : Bool := %v\n", memo)
	s += "/-- functions of downstream.go that select a host, with the LoadBalancerContext they pass. -/\n"
	s += "def selectionSites : List (String × String) := [" + strings.Join(sites, ", ") + "]\n"
	s += "/-- `initializeUpstreamConnectionPool` hands that context to `ConnPoolForCluster`. -/\n"
	s += fmt.Sprintf("def contextPassedOn : Bool := %v\n", passes)
	s += "/-- functions of the cluster package calling `<balancer context>.MetadataMatchCriteria()`, with the number of calls. -/\n"
	s += "def criteriaCallers : List (String × Nat) := [" + strings.Join(callers, ", ") + "]\n"
	s += footer("CriteriaFlow")
	return s, nil
}

func c15qRoot(e ast.Expr) string {
	for {
		switch x := e.(type) {
		case *ast.SelectorExpr:
			e = x.X
		case *ast.IndexExpr:
			e = x.X
		case *ast.StarExpr:
			e = x.X
		case *ast.ParenExpr:
			e = x.X
		case *ast.Ident:
			return x.Name
		default:
			return ""
		}
	}
}

var _ = token.ASSIGN
