-- translation-unsupported ConfigDir: open -out/pkg/config/v2: no such file or directory
namespace MosnVerif.Gen.ConfigDir
end MosnVerif.Gen.ConfigDir
