package main

// C13 (TLS policy), selection code regenerated statement by statement: Gen/TlsMatch.lean from pkg/mtls:
//   - tlsContext.buildMatch          (tls_context.go)          -> buildMatch certificates nextProtos serverName
//   - tlsContext.MatchedServerName   (tls_context.go)          -> matchedServerName matches sn
//   - tlsContext.MatchedALPN         (tls_context.go)          -> matchedALPN matches protocols
//   - the ALPN block of tlsConfigTemplate (tls_context.go)     -> alpnFilter alpnCfg
//   - serverContextManager.GetConfigForClient (tls_context_manager.go), the whole function -> getConfigForClient
// by extract/translate_c13m.go (loops, set inserts, slices, strings.ToLower/Split/Join).  The shapes the translation
// relies on around these functions (who calls buildMatch with what, where NextProtos / serverName / Certificates are
// written) are checked here; any deviation is an error => translation-unsupported.

import (
	"fmt"
	"go/ast"
	"go/token"
	"strings"
)

func init() {
	register("TlsMatch", genTlsMatch)
}

func c13mOneArg(name string) func(t *c13mTr, c *ast.CallExpr) (string, error) {
	return func(t *c13mTr, c *ast.CallExpr) (string, error) {
		if len(c.Args) != 1 {
			return "", fmt.Errorf("%s arity", name)
		}
		a, err := t.ex(c.Args[0])
		if err != nil {
			return "", err
		}
		return "(" + name + " " + a + ")", nil
	}
}

// c13mStrCalls: strings.ToLower / Split (one-character separator literal) / Join.
func c13mStrCalls(t *c13mTr) {
	t.Calls["strings.ToLower"] = c13mOneArg("toLower")
	t.Kind["strings.ToLower()"] = "str"
	t.Calls["strings.Split"] = func(t *c13mTr, c *ast.CallExpr) (string, error) {
		if len(c.Args) != 2 {
			return "", fmt.Errorf("strings.Split arity")
		}
		sep, ok := c13mStrLit(c.Args[1])
		if !ok || len(sep) != 1 || sep == "'" || sep == "\\" {
			return "", fmt.Errorf("strings.Split with a separator that is not a one-character literal")
		}
		a, err := t.ex(c.Args[0])
		if err != nil {
			return "", err
		}
		return "(splitOn '" + sep + "' " + a + ")", nil
	}
	t.Kind["strings.Split()"] = "list"
	t.Kind["strings.Split()[]"] = "str"
	t.Calls["strings.Join"] = func(t *c13mTr, c *ast.CallExpr) (string, error) {
		if len(c.Args) != 2 {
			return "", fmt.Errorf("strings.Join arity")
		}
		a, err := t.ex(c.Args[0])
		if err != nil {
			return "", err
		}
		b, err := t.ex(c.Args[1])
		if err != nil {
			return "", err
		}
		return "(join " + a + " " + b + ")", nil
	}
	t.Kind["strings.Join()"] = "str"
}

func c13mNew(retTy string) *c13mTr {
	t := &c13mTr{Names: map[string]string{}, Kind: map[string]string{}, Calls: map[string]func(*c13mTr, *ast.CallExpr) (string, error){},
		Calls2: map[string]func(*c13mTr, *ast.CallExpr) (string, error){}, Skip: map[string]bool{}, VarTy: map[string]string{}, RetTy: retTy}
	c13mStrCalls(t)
	t.Ret = func(t *c13mTr, rs []ast.Expr) (string, error) {
		if len(rs) != 1 {
			return "", fmt.Errorf("return with %d results", len(rs))
		}
		return t.ex(rs[0])
	}
	return t
}

func c13mParam(fd *ast.FuncDecl, i int) (string, error) {
	n := 0
	for _, f := range fd.Type.Params.List {
		for _, id := range f.Names {
			if n == i {
				return id.Name, nil
			}
			n++
		}
	}
	return "", fmt.Errorf("%s: parameter %d missing", fd.Name.Name, i)
}

func c13mCountSel(n ast.Node, sel string) int {
	k := 0
	ast.Inspect(n, func(m ast.Node) bool {
		if s, ok := m.(*ast.SelectorExpr); ok && s.Sel.Name == sel {
			k++
		}
		return true
	})
	return k
}

func genTlsMatch() (string, error) {
	const (
		ctxSrc = "pkg/mtls/tls_context.go"
		mngSrc = "pkg/mtls/tls_context_manager.go"
	)
	f, err := parse(ctxSrc)
	if err != nil {
		return "", err
	}
	s := "import MosnVerif.Model.TlsMatchBase\nimport MosnVerif.Gen.TlsPolicy\nset_option linter.unusedVariables false\n" +
		header("TlsMatch", ctxSrc+" (buildMatch, MatchedServerName, MatchedALPN, tlsConfigTemplate: ALPN block)", mngSrc+" (GetConfigForClient)") +
		"open MosnVerif.Model.TlsMatchBase MosnVerif.Gen.TlsPolicy\n\n"

	// ---- 0. the surroundings the translation relies on
	{
		ssc := findFunc(f, "tlsContext", "SetServerConfig")
		if ssc == nil {
			return "", fmt.Errorf("SetServerConfig not found")
		}
		okClone, okCall := false, false
		for _, st := range ssc.Body.List {
			switch x := st.(type) {
			case *ast.AssignStmt:
				if len(x.Lhs) == 1 && len(x.Rhs) == 1 && exprKey(x.Lhs[0]) == "tlsConfig" && x.Tok == token.DEFINE && isCall(x.Rhs[0], "tmpl.Clone") {
					okClone = true
				}
			case *ast.ExprStmt:
				if okClone && isCall(x.X, "ctx.buildMatch", "tlsConfig") {
					okCall = true
				}
			}
		}
		if !okCall {
			return "", fmt.Errorf("SetServerConfig: `tlsConfig := tmpl.Clone()` … `ctx.buildMatch(tlsConfig)` not found")
		}
		ntc := findFunc(f, "", "newTLSContext")
		if ntc == nil {
			return "", fmt.Errorf("newTLSContext not found")
		}
		okName := false
		apps := 0
		ast.Inspect(ntc, func(m ast.Node) bool {
			switch x := m.(type) {
			case *ast.KeyValueExpr:
				if exprKey(x.Key) == "serverName" && exprKey(x.Value) == "cfg.ServerName" {
					okName = true
				}
			case *ast.AssignStmt:
				if len(x.Lhs) == 1 && exprKey(x.Lhs[0]) == "tmpl.Certificates" {
					apps++
					if !(len(x.Rhs) == 1 && isCall(x.Rhs[0], "append", "tmpl.Certificates", "cert")) {
						apps += 100
					}
				}
			}
			return true
		})
		if !okName || apps != 1 {
			return "", fmt.Errorf("newTLSContext: `serverName: cfg.ServerName` / the single `tmpl.Certificates = append(tmpl.Certificates, cert)` not found")
		}
		// serverName and matches are written nowhere else in the file
		for _, d := range f.Decls {
			fd, ok := d.(*ast.FuncDecl)
			if !ok || fd.Body == nil {
				continue
			}
			var bad error
			ast.Inspect(fd.Body, func(m ast.Node) bool {
				if as, ok := m.(*ast.AssignStmt); ok {
					for _, l := range as.Lhs {
						k := exprKey(l)
						if ix, ok := l.(*ast.IndexExpr); ok {
							k = exprKey(ix.X)
						}
						if (strings.HasSuffix(k, ".serverName") || strings.HasSuffix(k, ".matches")) && fd.Name.Name != "buildMatch" {
							bad = fmt.Errorf("%s assigns %s", fd.Name.Name, k)
						}
					}
				}
				return true
			})
			if bad != nil {
				return "", bad
			}
		}
		if n := c13mCountSel(f, "NextProtos"); n != 3 {
			return "", fmt.Errorf("NextProtos is referenced %d times in %s (expected: the append of tlsConfigTemplate and the range of buildMatch)", n, ctxSrc)
		}
	}

	// ---- 1. the ALPN block of tlsConfigTemplate
	{
		fd := findFunc(f, "", "tlsConfigTemplate")
		if fd == nil {
			return "", fmt.Errorf("tlsConfigTemplate not found")
		}
		cp, err := c13mParam(fd, 0)
		if err != nil {
			return "", err
		}
		var blk *ast.IfStmt
		for _, st := range fd.Body.List {
			if is, ok := st.(*ast.IfStmt); ok && c13mCountSel(is, "NextProtos") > 0 {
				if blk != nil {
					return "", fmt.Errorf("tlsConfigTemplate: two statements touch NextProtos")
				}
				blk = is
			} else if c13mCountSel(st, "NextProtos") > 0 {
				return "", fmt.Errorf("tlsConfigTemplate: NextProtos touched outside an if block")
			}
		}
		if blk == nil {
			return "", fmt.Errorf("tlsConfigTemplate: ALPN block not found")
		}
		t := c13mNew("List Str")
		t.Names[cp+".ALPN"] = "alpnCfg"
		t.Kind[cp+".ALPN"] = "str"
		t.Names["tlsConfig.NextProtos"] = "nextProtos"
		t.Kind["tlsConfig.NextProtos"] = "list"
		t.Kind["tlsConfig.NextProtos[]"] = "str"
		t.Names["alpn"] = "alpnTable"
		t.Kind["alpn"] = "set"
		t.Skip["log.DefaultLogger.Debugf"] = true
		t.Fall = "nextProtos"
		body, err := t.block([]ast.Stmt{blk}, c13mCx{}, "  ")
		if err != nil {
			return "", fmt.Errorf("tlsConfigTemplate (ALPN block): %v", err)
		}
		s += "/-- the keys of the `alpn` table (types.go) as a set -/\ndef alpnTable : List Str := alpnSupported.map String.toList\n\n"
		s += "/-- `tlsConfigTemplate`, the statement that fills `tlsConfig.NextProtos` from the `alpn` config string (NextProtos is\nnil before it) -/\n"
		s += "def alpnFilter (alpnCfg : Str) : List Str :=\n  let nextProtos := ([] : List Str)\n  " + body + "\n\n"
	}

	// ---- 2. buildMatch
	{
		fd := findFunc(f, "tlsContext", "buildMatch")
		if fd == nil {
			return "", fmt.Errorf("buildMatch not found")
		}
		cfg, err := c13mParam(fd, 0)
		if err != nil {
			return "", err
		}
		st := fd.Body.List
		if len(st) < 3 {
			return "", fmt.Errorf("buildMatch: too short")
		}
		// `if tlsConfig == nil { return }` — SetServerConfig passes a fresh Clone(), never nil
		g, ok := st[0].(*ast.IfStmt)
		if !ok || g.Init != nil || g.Else != nil || len(g.Body.List) != 1 {
			return "", fmt.Errorf("buildMatch: first statement is not the nil guard")
		}
		if b, ok := g.Cond.(*ast.BinaryExpr); !ok || b.Op != token.EQL || exprKey(b.X) != cfg || exprKey(b.Y) != "nil" {
			return "", fmt.Errorf("buildMatch: first statement is not the nil guard")
		}
		if r, ok := g.Body.List[0].(*ast.ReturnStmt); !ok || len(r.Results) != 0 {
			return "", fmt.Errorf("buildMatch: first statement is not the nil guard")
		}
		// last statement: ctx.matches = <set>
		last, ok := st[len(st)-1].(*ast.AssignStmt)
		if !ok || len(last.Lhs) != 1 || len(last.Rhs) != 1 || last.Tok != token.ASSIGN || exprKey(last.Lhs[0]) != "ctx.matches" {
			return "", fmt.Errorf("buildMatch: last statement is not `ctx.matches = …`")
		}
		body := append(append([]ast.Stmt{}, st[1:len(st)-1]...), &ast.ReturnStmt{Results: last.Rhs})
		for _, b := range body[:len(body)-1] {
			if c13mCountSel(b, "matches") > 0 {
				return "", fmt.Errorf("buildMatch: ctx.matches used before the final assignment")
			}
		}
		t := c13mNew("List Str")
		t.Names[cfg+".Certificates"] = "certificates"
		t.Kind[cfg+".Certificates"] = "list"
		t.Kind[cfg+".Certificates[]"] = "cert"
		t.Names[cfg+".NextProtos"] = "nextProtos"
		t.Kind[cfg+".NextProtos"] = "list"
		t.Kind[cfg+".NextProtos[]"] = "str"
		t.Names["ctx.serverName"] = "serverName"
		t.Kind["ctx.serverName"] = "str"
		// x509Cert, err := x509.ParseCertificate(cert.Certificate[0]): a certificate of the model IS the parse result of its
		// leaf (none = does not parse)
		t.Calls2["x509.ParseCertificate"] = func(t *c13mTr, c *ast.CallExpr) (string, error) {
			if len(c.Args) == 1 {
				if ix, ok := c.Args[0].(*ast.IndexExpr); ok && exprKey(ix.Index) == "0" {
					if sel, ok := ix.X.(*ast.SelectorExpr); ok && sel.Sel.Name == "Certificate" && t.kindOf(sel.X) == "cert" {
						return t.ex(sel.X)
					}
				}
			}
			return "", fmt.Errorf("x509.ParseCertificate of something else than <certificate>.Certificate[0]")
		}
		t.Kind["x509.ParseCertificate()"] = "x509"
		// fields of the parsed certificate, whatever the variable holding it is called
		ast.Inspect(fd.Body, func(m ast.Node) bool {
			if as, ok := m.(*ast.AssignStmt); ok && len(as.Lhs) == 2 && len(as.Rhs) == 1 {
				if c, ok := as.Rhs[0].(*ast.CallExpr); ok && exprKey(c.Fun) == "x509.ParseCertificate" {
					v := exprKey(as.Lhs[0])
					t.Names[v+".Subject.CommonName"] = v + ".cn"
					t.Kind[v+".Subject.CommonName"] = "str"
					t.Names[v+".DNSNames"] = v + ".dnsNames"
					t.Kind[v+".DNSNames"] = "list"
					t.Kind[v+".DNSNames[]"] = "str"
				}
			}
			return true
		})
		b, err := t.block(body, c13mCx{}, "  ")
		if err != nil {
			return "", fmt.Errorf("buildMatch: %v", err)
		}
		s += "/-- `tlsContext.buildMatch`: the key set stored in `ctx.matches` (insertion order). certificates = tlsConfig.Certificates,\neach given by the parse result of its leaf (none = x509.ParseCertificate fails) -/\n"
		s += "def buildMatch (certificates : List (Option X509)) (nextProtos : List Str) (serverName : Str) : List Str :=\n  " + b + "\n\n"
	}

	// ---- 3. MatchedServerName
	{
		fd := findFunc(f, "tlsContext", "MatchedServerName")
		if fd == nil {
			return "", fmt.Errorf("MatchedServerName not found")
		}
		p, err := c13mParam(fd, 0)
		if err != nil {
			return "", err
		}
		t := c13mNew("Bool")
		t.Names[p] = "sn"
		t.Kind[p] = "str"
		t.Names["ctx.matches"] = "keys"
		t.Kind["ctx.matches"] = "set"
		// termination measures of the two `for cond` loops: the trailing-dot loop shortens `name`, the wildcard walk
		// counts up to len(labels)
		t.Fuel = []string{"name.length + 1", "labels.length + 1"}
		b, err := t.block(fd.Body.List, c13mCx{}, "  ")
		if err != nil {
			return "", fmt.Errorf("MatchedServerName: %v", err)
		}
		if t.fuelIx != 2 {
			return "", fmt.Errorf("MatchedServerName: %d `for cond` loops (expected 2: trailing dots, wildcard walk)", t.fuelIx)
		}
		s += "/-- `tlsContext.MatchedServerName` over the key set `keys` (= ctx.matches); every `for cond` loop may run `extraFuel` more\niterations than its termination measure -/\n"
		s += "def matchedServerName (keys : List Str) (sn : Str) (extraFuel : Nat) : Bool :=\n  " + b + "\n\n"
	}

	// ---- 4. MatchedALPN
	{
		fd := findFunc(f, "tlsContext", "MatchedALPN")
		if fd == nil {
			return "", fmt.Errorf("MatchedALPN not found")
		}
		p, err := c13mParam(fd, 0)
		if err != nil {
			return "", err
		}
		t := c13mNew("Bool")
		t.Names[p] = "protocols"
		t.Kind[p] = "list"
		t.Kind[p+"[]"] = "str"
		t.Names["ctx.matches"] = "keys"
		t.Kind["ctx.matches"] = "set"
		b, err := t.block(fd.Body.List, c13mCx{}, "  ")
		if err != nil {
			return "", fmt.Errorf("MatchedALPN: %v", err)
		}
		s += "/-- `tlsContext.MatchedALPN` over the key set `keys` (= ctx.matches) -/\n"
		s += "def matchedALPN (keys : List Str) (protocols : List Str) : Bool :=\n  " + b + "\n\n"
	}

	// ---- 5. GetConfigForClient (whole function)
	{
		fm, err := parse(mngSrc)
		if err != nil {
			return "", err
		}
		fd := findFunc(fm, "serverContextManager", "GetConfigForClient")
		if fd == nil {
			return "", fmt.Errorf("GetConfigForClient not found")
		}
		info, err := c13mParam(fd, 0)
		if err != nil {
			return "", err
		}
		t := c13mNew("Outcome")
		t.Names["mng.providers"] = "providers"
		t.Kind["mng.providers"] = "list"
		t.Kind["mng.providers[]"] = "prov"
		t.Names[info+".ServerName"] = "serverName"
		t.Kind[info+".ServerName"] = "str"
		t.Names[info+".SupportedProtos"] = "supportedProtos"
		t.Kind[info+".SupportedProtos"] = "list"
		t.VarTy["types.TLSProvider"] = "opt"
		t.VarTy["types.TLSProvider:lean"] = "Option Prov"
		// the methods of the range variable(s) over mng.providers
		ast.Inspect(fd.Body, func(m ast.Node) bool {
			if r, ok := m.(*ast.RangeStmt); ok && exprKey(r.X) == "mng.providers" {
				if id, ok := r.Value.(*ast.Ident); ok && id.Name != "_" {
					p := id.Name
					t.Names[p+".Ready()"] = p + ".ready"
					t.Calls[p+".MatchedServerName"] = func(t *c13mTr, c *ast.CallExpr) (string, error) {
						if len(c.Args) != 1 {
							return "", fmt.Errorf("MatchedServerName arity")
						}
						a, err := t.ex(c.Args[0])
						return "(matchedServerName " + p + ".keys " + a + " extraFuel)", err
					}
					t.Calls[p+".MatchedALPN"] = func(t *c13mTr, c *ast.CallExpr) (string, error) {
						if len(c.Args) != 1 {
							return "", fmt.Errorf("MatchedALPN arity")
						}
						a, err := t.ex(c.Args[0])
						return "(matchedALPN " + p + ".keys " + a + ")", err
					}
				}
			}
			return true
		})
		t.Ret = func(t *c13mTr, rs []ast.Expr) (string, error) {
			if len(rs) != 2 {
				return "", fmt.Errorf("GetConfigForClient: return with %d results", len(rs))
			}
			if exprKey(rs[0]) == "nil" && exprKey(rs[1]) == "ErrorNoCertConfigure" {
				return "Outcome.errNoCert", nil
			}
			// X.GetTLSConfigContext(false).Config(), nil
			if c, ok := rs[0].(*ast.CallExpr); ok && len(c.Args) == 0 && exprKey(rs[1]) == "nil" {
				if sel, ok := c.Fun.(*ast.SelectorExpr); ok && sel.Sel.Name == "Config" {
					if in, ok := sel.X.(*ast.CallExpr); ok && len(in.Args) == 1 && exprKey(in.Args[0]) == "false" {
						if s2, ok := in.Fun.(*ast.SelectorExpr); ok && s2.Sel.Name == "GetTLSConfigContext" {
							x, err := t.ex(s2.X)
							if err != nil {
								return "", err
							}
							switch t.kindOf(s2.X) {
							case "opt":
								return "Outcome.config (" + x + ".map Prov.idx)", nil
							case "prov":
								return "Outcome.config (some " + x + ".idx)", nil
							}
						}
					}
				}
			}
			return "", fmt.Errorf("GetConfigForClient: unexpected return")
		}
		b, err := t.block(fd.Body.List, c13mCx{}, "  ")
		if err != nil {
			return "", fmt.Errorf("GetConfigForClient: %v", err)
		}
		s += "/-- `serverContextManager.GetConfigForClient`: providers = mng.providers, serverName / supportedProtos = the ClientHello's;\nthe result names the provider whose server config is returned by its position in mng.providers -/\n"
		s += "def getConfigForClient (providers : List Prov) (serverName : Str) (supportedProtos : List Str) (extraFuel : Nat) : Outcome :=\n  " + b + "\n\n"
	}
	s += footer("TlsMatch")
	return s, nil
}
