package main

import (
	"fmt"
	"go/ast"
	"go/token"
)

func init() {
	register("Edf", genEdf)
	register("LB", genLB)
}

// findAssign returns the right-hand side of the first plain assignment `lhs = …` / `lhs := …` in body.
func findAssign(body *ast.BlockStmt, lhs string) ast.Expr {
	var out ast.Expr
	ast.Inspect(body, func(n ast.Node) bool {
		if a, ok := n.(*ast.AssignStmt); ok && out == nil && len(a.Lhs) == 1 && len(a.Rhs) == 1 &&
			(a.Tok == token.ASSIGN || a.Tok == token.DEFINE) && exprKey(a.Lhs[0]) == lhs {
			out = a.Rhs[0]
		}
		return true
	})
	return out
}

// findField returns the value of `field:` in the first composite literal of type `typ` in body.
func findField(body *ast.BlockStmt, typ, field string) ast.Expr {
	var out ast.Expr
	ast.Inspect(body, func(n ast.Node) bool {
		if cl, ok := n.(*ast.CompositeLit); ok && out == nil && exprKey(cl.Type) == typ {
			for _, el := range cl.Elts {
				if kv, ok := el.(*ast.KeyValueExpr); ok && exprKey(kv.Key) == field {
					out = kv.Value
				}
			}
		}
		return true
	})
	return out
}

// genEdf: the EDF scheduler's decision code — heap order `edfEntryLess` (edfheap.go), the deadline arithmetic of
// Add / NextAndPush and `fixHostWeight` (edf.go), with v2.MinHostWeight / v2.MaxHostWeight (config/v2/constants.go).
// float64 is rendered as exact `Rat` (the float gap is a stated assumption), int64 as `Int`.
func genEdf() (string, error) {
	fh, err := parse("pkg/upstream/cluster/edfheap.go")
	if err != nil {
		return "", err
	}
	fe, err := parse("pkg/upstream/cluster/edf.go")
	if err != nil {
		return "", err
	}
	s := header("Edf", "pkg/upstream/cluster/edfheap.go (edfEntryLess)", "pkg/upstream/cluster/edf.go (Add, NextAndPush, fixHostWeight)", "pkg/config/v2/constants.go")

	less := findFunc(fh, "", "edfEntryLess")
	if less == nil {
		return "", fmt.Errorf("edfEntryLess not found")
	}
	env := &Env{
		Names: map[string]string{"a.deadline": "aDeadline", "b.deadline": "bDeadline", "a.queuedTime": "aQueued", "b.queuedTime": "bQueued"},
		Calls: map[string]string{},
		Ret: func(rs []string) string {
			if len(rs) != 1 {
				return "ERR"
			}
			return rs[0]
		},
		Fall: "ERR_fallthrough",
	}
	body, err := env.block(less.Body.List, "  ")
	if err != nil {
		return "", fmt.Errorf("edfEntryLess: %v", err)
	}
	s += "/-- heap order of the EDF queue: `edfEntryLess(a, b)`; deadlines float64 → `Rat`, queuedTime int64 → `Int`. -/\n"
	s += "def edfEntryLess (aDeadline : Rat) (aQueued : Int) (bDeadline : Rat) (bQueued : Int) : Bool :=\n  " + body + "\n\n"

	minCap, err := intConst("pkg/upstream/cluster", "minCap")
	if err != nil {
		return "", err
	}
	s += fmt.Sprintf("def minCap : Nat := %d\n\n", minCap)

	add := findFunc(fe, "edfScheduler", "Add")
	nap := findFunc(fe, "edfScheduler", "NextAndPush")
	if add == nil || nap == nil {
		return "", fmt.Errorf("edfScheduler.Add / NextAndPush not found")
	}
	e2 := &Env{Names: map[string]string{"edf.currentTime": "currentTime", "weight": "weight", "entry.deadline": "deadline"}, Calls: map[string]string{}}
	ad := findField(add.Body, "edfEntry", "deadline")
	if ad == nil {
		return "", fmt.Errorf("Add: edfEntry{deadline: …} not found")
	}
	adS, err := e2.expr(ad)
	if err != nil {
		return "", fmt.Errorf("Add deadline: %v", err)
	}
	s += "/-- deadline of a newly added entry (`Add`). -/\n"
	s += "def addDeadline (currentTime weight : Rat) : Rat := " + adS + "\n\n"
	nd := findAssign(nap.Body, "entry.deadline")
	if nd == nil {
		return "", fmt.Errorf("NextAndPush: assignment to entry.deadline not found")
	}
	ndS, err := e2.expr(nd)
	if err != nil {
		return "", fmt.Errorf("NextAndPush deadline: %v", err)
	}
	s += "/-- new deadline of the served entry (`NextAndPush`). -/\n"
	s += "def nextDeadline (deadline weight : Rat) : Rat := " + ndS + "\n\n"
	ct := findAssign(nap.Body, "edf.currentTime")
	if ct == nil {
		return "", fmt.Errorf("NextAndPush: assignment to edf.currentTime not found")
	}
	ctS, err := e2.expr(ct)
	if err != nil {
		return "", fmt.Errorf("NextAndPush currentTime: %v", err)
	}
	s += "/-- scheduler time after serving an entry with the given deadline (`NextAndPush`). -/\n"
	s += "def nextTime (deadline : Rat) : Rat := " + ctS + "\n\n"

	mn, err := intConst("pkg/config/v2", "MinHostWeight")
	if err != nil {
		return "", err
	}
	mx, err := intConst("pkg/config/v2", "MaxHostWeight")
	if err != nil {
		return "", err
	}
	s += fmt.Sprintf("def minHostWeight : Int := %d\ndef maxHostWeight : Int := %d\n\n", mn, mx)
	fw := findFunc(fe, "", "fixHostWeight")
	if fw == nil {
		return "", fmt.Errorf("fixHostWeight not found")
	}
	e3 := &Env{
		Names: map[string]string{"weight": "weight", "v2.MinHostWeight": "minHostWeight", "v2.MaxHostWeight": "maxHostWeight"},
		Calls: map[string]string{"float64": ""},
		Ret: func(rs []string) string {
			if len(rs) != 1 {
				return "ERR"
			}
			return rs[0]
		},
		Fall: "ERR_fallthrough",
	}
	fwS, err := e3.block(fw.Body.List, "  ")
	if err != nil {
		return "", fmt.Errorf("fixHostWeight: %v", err)
	}
	s += "/-- `fixHostWeight` on integral weights (host weights are uint32; float64(uint32) is exact). -/\n"
	s += "def fixHostWeight (weight : Int) : Int :=\n  " + fwS + "\n"
	s += footer("Edf")
	return s, nil
}

// genLB: `hostSet.Get`'s index clamping (host_set.go) and the default number of random choices (loadbalancer.go).
func genLB() (string, error) {
	f, err := parse("pkg/upstream/cluster/host_set.go")
	if err != nil {
		return "", err
	}
	get := findFunc(f, "hostSet", "Get")
	if get == nil {
		return "", fmt.Errorf("hostSet.Get not found")
	}
	n := len(get.Body.List)
	if n < 1 {
		return "", fmt.Errorf("hostSet.Get: empty body")
	}
	ret, ok := get.Body.List[n-1].(*ast.ReturnStmt)
	if !ok || len(ret.Results) != 1 {
		return "", fmt.Errorf("hostSet.Get: last statement is not a single return")
	}
	ix, ok := ret.Results[0].(*ast.IndexExpr)
	if !ok || exprKey(ix.X) != "hs.allHosts" || exprKey(ix.Index) != "i" {
		return "", fmt.Errorf("hostSet.Get: does not return hs.allHosts[i]")
	}
	env := &Env{
		Names: map[string]string{"i": "i", "hs.allHosts": "n"},
		Calls: map[string]string{"len": ""},
		Ret:   func(rs []string) string { return "ERR" },
		Fall:  "i",
	}
	body, err := env.block(get.Body.List[:n-1], "  ")
	if err != nil {
		return "", fmt.Errorf("hostSet.Get: %v", err)
	}
	s := header("LB", "pkg/upstream/cluster/host_set.go (hostSet.Get)", "pkg/upstream/cluster/loadbalancer.go (defaultChoice)")
	s += "/-- the index `hostSet.Get(i)` actually reads, for a host list of length `n` (`len(hs.allHosts)` is rendered as `n`). -/\n"
	s += "def getIndex (i n : Int) : Int :=\n  " + body + "\n\n"
	dc, err := intConst("pkg/upstream/cluster", "defaultChoice")
	if err != nil {
		return "", err
	}
	s += fmt.Sprintf("def defaultChoice : Nat := %d\n", dc)
	s += footer("LB")
	return s, nil
}
