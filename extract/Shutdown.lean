-- translation-unsupported Shutdown: open -out/pkg/network: no such file or directory
namespace MosnVerif.Gen.Shutdown
end MosnVerif.Gen.Shutdown
