-- translation-unsupported PoolMux: open -out/pkg/stream/xprotocol/connpool_multiplex.go: no such file or directory
namespace MosnVerif.Gen.PoolMux
end MosnVerif.Gen.PoolMux
