package main

import (
	"fmt"
	"go/ast"
	"go/token"
	"os"
	"path/filepath"
	"sort"
	"strings"
)

// Gen/ResourceShare (property C10, builder c10p10): WHICH resource-manager OBJECT a cluster uses after a runtime update.
//
// The ledger of a cluster's breaker resources survives an update (AddOrUpdatePrimaryCluster / AddOrUpdateClusterAndHost ->
// clusterManager.UpdateCluster) only because the new cluster object is made to SHARE the old cluster's live manager object.
// Regenerated, each with a closed vocabulary (an unknown statement shape => translation-unsupported => the dependent proofs of
// Props/C10 no longer build):
//   - `handler`: the statement program of UpdateClusterResourceManagerHandler (guards, the reads of the two managers, the
//     aliasing assignment, Cur copies, the call of updateResourceValue with its argument order);
//   - `stores`: the statement program of updateResourceValue (every store: destination object / field / resource, source);
//   - `primaryChain` / `andHostChain`: the handler chains of the two mutators, in order;
//   - UpdateCluster: the new cluster comes from NewCluster, the old one from clustersMap, the chain runs BEFORE the publication
//     (clustersMap.Store) and receives (old, new) in that order; every caller of UpdateCluster under pkg/; the adapter's Trigger*;
//   - NewClusterInfo gives every cluster info a FRESH manager whose counters start at 0 (NewResourceManager sets only `max`);
//   - InheritClusterHostsHandler points the old hosts at the new cluster info and keeps the host set; NewSimpleHostHandler builds
//     the new hosts with the cluster's own info;
//   - the stats gauges are keyed by NAME in the metrics registry (NewMetrics returns the registered object, Counter is
//     GetOrRegister), so cluster / host gauges are shared by construction;
//   - through which object every Increase / Decrease / CanCreate site reaches the manager (a host's current ClusterInfo(), or a
//     cluster info captured earlier).
func init() { register("ResourceShare", genC10pShare) }

// c10pKey: exprKey extended by binary, index, type-assertion, composite and function literals.
func c10pKey(e ast.Expr) string {
	switch x := e.(type) {
	case nil:
		return ""
	case *ast.ParenExpr:
		return c10pKey(x.X)
	case *ast.BinaryExpr:
		return c10pKey(x.X) + " " + x.Op.String() + " " + c10pKey(x.Y)
	case *ast.IndexExpr:
		return c10pKey(x.X) + "[" + c10pKey(x.Index) + "]"
	case *ast.SelectorExpr:
		return c10pKey(x.X) + "." + x.Sel.Name
	case *ast.TypeAssertExpr:
		return c10pKey(x.X) + ".(" + c10pKey(x.Type) + ")"
	case *ast.StarExpr:
		return "*" + c10pKey(x.X)
	case *ast.UnaryExpr:
		return x.Op.String() + c10pKey(x.X)
	case *ast.CallExpr:
		var a []string
		for _, y := range x.Args {
			a = append(a, c10pKey(y))
		}
		return c10pKey(x.Fun) + "(" + strings.Join(a, ",") + ")"
	case *ast.FuncLit:
		return "func"
	}
	return exprKey(e)
}

func c10pOnlyReturn(b *ast.BlockStmt) bool {
	if b == nil || len(b.List) != 1 {
		return false
	}
	r, ok := b.List[0].(*ast.ReturnStmt)
	return ok && len(r.Results) == 0
}

var c10pResIdx = map[string]int{"connections": 0, "pendingRequests": 1, "requests": 2, "retries": 3,
	"Connections": 0, "PendingRequests": 1, "Requests": 2, "Retries": 3}
var c10pResLean = []string{".conn", ".pend", ".req", ".retr"}

// ---- UpdateClusterResourceManagerHandler -----------------------------------------------------------------------------------------

func c10pMgrVar(k string) (string, bool) {
	switch k {
	case "oldResourceManager":
		return ".old", true
	case "newResourceManager":
		return ".new", true
	}
	return "", false
}

func c10pHandler(f *ast.File) ([]string, error) {
	fd := findFunc(f, "", "UpdateClusterResourceManagerHandler")
	if fd == nil {
		return nil, fmt.Errorf("UpdateClusterResourceManagerHandler not found")
	}
	if p := fd.Type.Params.List; len(p) != 1 || len(p[0].Names) != 2 || p[0].Names[0].Name != "oc" || p[0].Names[1].Name != "nc" {
		return nil, fmt.Errorf("UpdateClusterResourceManagerHandler: parameters are not (oc, nc)")
	}
	var acts []string
	snaps := map[string]string{} // local -> "old" | "new"
	for _, st := range fd.Body.List {
		bad := func(why string) ([]string, error) {
			return nil, fmt.Errorf("UpdateClusterResourceManagerHandler: %s at %s: %s", why, fset.Position(st.Pos()), src(st))
		}
		switch x := st.(type) {
		case *ast.AssignStmt:
			if x.Tok != token.DEFINE || len(x.Lhs) != 1 || len(x.Rhs) != 1 {
				return bad("unsupported assignment")
			}
			l, r := c10pKey(x.Lhs[0]), c10pKey(x.Rhs[0])
			switch {
			case r == "nc.Snapshot()":
				snaps[l] = "new"
			case r == "oc.Snapshot()":
				snaps[l] = "old"
			case strings.HasSuffix(r, ".ClusterInfo().ResourceManager()") && snaps[strings.TrimSuffix(r, ".ClusterInfo().ResourceManager()")] != "":
				which := snaps[strings.TrimSuffix(r, ".ClusterInfo().ResourceManager()")]
				v, ok := c10pMgrVar(l)
				if !ok {
					return bad("manager read into an unknown variable")
				}
				// read (variable) (of which cluster's info, at this point of the program)
				acts = append(acts, fmt.Sprintf(".read %s %s", v, map[string]string{"old": ".old", "new": ".new"}[which]))
			default:
				return bad("unsupported definition")
			}
		case *ast.IfStmt:
			if x.Else != nil {
				return bad("if with else")
			}
			if x.Init == nil {
				c := c10pKey(x.Cond)
				isType := func(a, b string) bool {
					return snaps[strings.TrimSuffix(a, ".ClusterInfo().ClusterType()")] != "" && snaps[strings.TrimSuffix(b, ".ClusterInfo().ClusterType()")] != "" &&
						strings.HasSuffix(a, ".ClusterInfo().ClusterType()") && strings.HasSuffix(b, ".ClusterInfo().ClusterType()") &&
						snaps[strings.TrimSuffix(a, ".ClusterInfo().ClusterType()")] != snaps[strings.TrimSuffix(b, ".ClusterInfo().ClusterType()")]
				}
				switch {
				case c == "oc == nil" && c10pOnlyReturn(x.Body):
					acts = append(acts, ".skipIfNoOld")
				case c10pOnlyReturn(x.Body) && strings.Contains(c, " != ") && isType(strings.SplitN(c, " != ", 2)[0], strings.SplitN(c, " != ", 2)[1]):
					acts = append(acts, ".skipIfTypeDiffers")
				default:
					return bad("unsupported guard")
				}
				continue
			}
			// if ci, ok := <newSnap>.ClusterInfo().(*clusterInfo); ok { ci.resourceManager = <manager variable> }
			in, ok := x.Init.(*ast.AssignStmt)
			if !ok || in.Tok != token.DEFINE || len(in.Lhs) != 2 || len(in.Rhs) != 1 || c10pKey(x.Cond) != c10pKey(in.Lhs[1]) || len(x.Body.List) != 1 {
				return bad("unsupported if")
			}
			ta, ok := in.Rhs[0].(*ast.TypeAssertExpr)
			if !ok || c10pKey(ta.Type) != "*clusterInfo" || !strings.HasSuffix(c10pKey(ta.X), ".ClusterInfo()") {
				return bad("unsupported type assertion")
			}
			which := snaps[strings.TrimSuffix(c10pKey(ta.X), ".ClusterInfo()")]
			if which == "" {
				return bad("type assertion on an unknown snapshot")
			}
			a, ok := x.Body.List[0].(*ast.AssignStmt)
			if !ok || a.Tok != token.ASSIGN || len(a.Lhs) != 1 || len(a.Rhs) != 1 || c10pKey(a.Lhs[0]) != c10pKey(in.Lhs[0])+".resourceManager" {
				return bad("unsupported statement under the type assertion")
			}
			v, ok := c10pMgrVar(c10pKey(a.Rhs[0]))
			if !ok {
				if isCallExpr(a.Rhs[0], "NewResourceManager", 1) {
					acts = append(acts, fmt.Sprintf(".fresh %s", map[string]string{"old": ".old", "new": ".new"}[which]))
					continue
				}
				return bad("the info's manager is assigned from something else than a manager variable")
			}
			// alias (which cluster's info) (manager variable): info.resourceManager = variable
			acts = append(acts, fmt.Sprintf(".alias %s %s", map[string]string{"old": ".old", "new": ".new"}[which], v))
		case *ast.ExprStmt:
			c, ok := x.X.(*ast.CallExpr)
			if !ok {
				return bad("unsupported statement")
			}
			fk := c10pKey(c.Fun)
			if fk == "updateResourceValue" && len(c.Args) == 2 {
				a0, ok0 := c10pMgrVar(c10pKey(c.Args[0]))
				a1, ok1 := c10pMgrVar(c10pKey(c.Args[1]))
				if !ok0 || !ok1 {
					return bad("updateResourceValue called with something else than the manager variables")
				}
				acts = append(acts, fmt.Sprintf(".update %s %s", a0, a1))
				continue
			}
			// <mgrVar>.<Res>().UpdateCur(<mgrVar>.<Res>().Cur())  /  <mgrVar>.<Res>().UpdateCur(<int literal>)
			if se, ok := c.Fun.(*ast.SelectorExpr); ok && se.Sel.Name == "UpdateCur" && len(c.Args) == 1 {
				dv, dr, okd := c10pMgrRes(se.X)
				if !okd {
					return bad("UpdateCur on something else than a manager variable's resource")
				}
				if lit, ok := c.Args[0].(*ast.BasicLit); ok && lit.Kind == token.INT {
					acts = append(acts, fmt.Sprintf(".setCur %s %s (%s)", dv, c10pResLean[dr], lit.Value))
					continue
				}
				if sc, ok := c.Args[0].(*ast.CallExpr); ok && len(sc.Args) == 0 {
					if sse, ok := sc.Fun.(*ast.SelectorExpr); ok && sse.Sel.Name == "Cur" {
						if sv, sr, oks := c10pMgrRes(sse.X); oks {
							acts = append(acts, fmt.Sprintf(".copyCur %s %s %s %s", dv, c10pResLean[dr], sv, c10pResLean[sr]))
							continue
						}
					}
				}
				return bad("unsupported UpdateCur argument")
			}
			return bad("unsupported call")
		default:
			return bad("unsupported statement")
		}
	}
	return acts, nil
}

// c10pMgrRes: `<oldResourceManager|newResourceManager>.<Res>()`
func c10pMgrRes(e ast.Expr) (string, int, bool) {
	c, ok := e.(*ast.CallExpr)
	if !ok || len(c.Args) != 0 {
		return "", 0, false
	}
	se, ok := c.Fun.(*ast.SelectorExpr)
	if !ok {
		return "", 0, false
	}
	r, okr := c10pResIdx[se.Sel.Name]
	v, okv := c10pMgrVar(c10pKey(se.X))
	return v, r, okr && okv
}

// ---- updateResourceValue ---------------------------------------------------------------------------------------------------------

// c10pField: `<local>.<res>.<max|current>` with local bound to a formal => (formal ".p0"/".p1", res, field)
func c10pField(e ast.Expr, locals map[string]string) (string, int, string, bool) {
	if u, ok := e.(*ast.UnaryExpr); ok && u.Op == token.AND {
		e = u.X
	}
	se, ok := e.(*ast.SelectorExpr)
	if !ok || (se.Sel.Name != "max" && se.Sel.Name != "current") {
		return "", 0, "", false
	}
	in, ok := se.X.(*ast.SelectorExpr)
	if !ok {
		return "", 0, "", false
	}
	r, okr := c10pResIdx[in.Sel.Name]
	id, ok := in.X.(*ast.Ident)
	if !ok || !okr || locals[id.Name] == "" {
		return "", 0, "", false
	}
	fld := ".max"
	if se.Sel.Name == "current" {
		fld = ".cur"
	}
	return locals[id.Name], r, fld, true
}

func c10pSrc(e ast.Expr, locals map[string]string) (string, bool) {
	if p, ok := e.(*ast.ParenExpr); ok {
		return c10pSrc(p.X, locals)
	}
	if lit, ok := e.(*ast.BasicLit); ok && lit.Kind == token.INT {
		return "(.lit " + lit.Value + ")", true
	}
	if c, ok := e.(*ast.CallExpr); ok {
		k := c10pKey(c.Fun)
		if (k == "uint64" || k == "int64") && len(c.Args) == 1 {
			return c10pSrc(c.Args[0], locals)
		}
		if k == "atomic.LoadInt64" && len(c.Args) == 1 {
			return c10pSrc(c.Args[0], locals)
		}
		// <local>.<res>.Cur() / .Max()
		if se, ok := c.Fun.(*ast.SelectorExpr); ok && len(c.Args) == 0 && (se.Sel.Name == "Cur" || se.Sel.Name == "Max") {
			if in, ok := se.X.(*ast.SelectorExpr); ok {
				if r, okr := c10pResIdx[in.Sel.Name]; okr {
					if id, ok := in.X.(*ast.Ident); ok && locals[id.Name] != "" {
						fld := ".max"
						if se.Sel.Name == "Cur" {
							fld = ".cur"
						}
						return fmt.Sprintf("(.fld %s %s %s)", locals[id.Name], c10pResLean[r], fld), true
					}
				}
			}
		}
		return "", false
	}
	if p, r, fld, ok := c10pField(e, locals); ok {
		return fmt.Sprintf("(.fld %s %s %s)", p, c10pResLean[r], fld), true
	}
	return "", false
}

func c10pStores(f *ast.File) ([]string, error) {
	fd := findFunc(f, "", "updateResourceValue")
	if fd == nil || len(fd.Type.Params.List) != 1 || len(fd.Type.Params.List[0].Names) != 2 {
		return nil, fmt.Errorf("updateResourceValue(a, b types.ResourceManager) not found")
	}
	formal := map[string]string{fd.Type.Params.List[0].Names[0].Name: ".p0", fd.Type.Params.List[0].Names[1].Name: ".p1"}
	locals := map[string]string{}
	var out []string
	for _, st := range fd.Body.List {
		bad := func(why string) ([]string, error) {
			return nil, fmt.Errorf("updateResourceValue: %s at %s: %s", why, fset.Position(st.Pos()), src(st))
		}
		switch x := st.(type) {
		case *ast.AssignStmt:
			if len(x.Lhs) != 1 || len(x.Rhs) != 1 {
				return bad("unsupported assignment")
			}
			if x.Tok == token.DEFINE {
				ta, ok := x.Rhs[0].(*ast.TypeAssertExpr)
				id, ok2 := x.Lhs[0].(*ast.Ident)
				if !ok || !ok2 || c10pKey(ta.Type) != "*resourcemanager" || formal[c10pKey(ta.X)] == "" {
					return bad("unsupported definition")
				}
				locals[id.Name] = formal[c10pKey(ta.X)]
				continue
			}
			if x.Tok != token.ASSIGN {
				return bad("unsupported assignment operator")
			}
			p, r, fld, ok := c10pField(x.Lhs[0], locals)
			if !ok {
				return bad("store into something else than <manager>.<resource>.<max|current>")
			}
			s, ok := c10pSrc(x.Rhs[0], locals)
			if !ok {
				return bad("unsupported stored value")
			}
			out = append(out, fmt.Sprintf("⟨%s, %s, %s, %s⟩", p, c10pResLean[r], fld, s))
		case *ast.ExprStmt:
			c, ok := x.X.(*ast.CallExpr)
			if !ok {
				return bad("unsupported statement")
			}
			// <local>.<res>.UpdateCur(v)  /  atomic.StoreInt64(&<local>.<res>.current, v)
			if se, ok := c.Fun.(*ast.SelectorExpr); ok && se.Sel.Name == "UpdateCur" && len(c.Args) == 1 {
				if in, ok := se.X.(*ast.SelectorExpr); ok {
					if r, okr := c10pResIdx[in.Sel.Name]; okr {
						if id, ok := in.X.(*ast.Ident); ok && locals[id.Name] != "" {
							s, ok := c10pSrc(c.Args[0], locals)
							if !ok {
								return bad("unsupported UpdateCur argument")
							}
							out = append(out, fmt.Sprintf("⟨%s, %s, .cur, %s⟩", locals[id.Name], c10pResLean[r], s))
							continue
						}
					}
				}
			}
			if c10pKey(c.Fun) == "atomic.StoreInt64" && len(c.Args) == 2 {
				if p, r, fld, ok := c10pField(c.Args[0], locals); ok {
					if s, ok := c10pSrc(c.Args[1], locals); ok {
						out = append(out, fmt.Sprintf("⟨%s, %s, %s, %s⟩", p, c10pResLean[r], fld, s))
						continue
					}
				}
			}
			return bad("unsupported call")
		default:
			return bad("unsupported statement")
		}
	}
	return out, nil
}

// ---- handler chains --------------------------------------------------------------------------------------------------------------

func c10pChain(f *ast.File, method string) ([]string, error) {
	fd := findFunc(f, "clusterManager", method)
	if fd == nil {
		return nil, fmt.Errorf("%s not found", method)
	}
	bad := func(why string) ([]string, error) { return nil, fmt.Errorf("%s: %s", method, why) }
	if len(fd.Body.List) != 1 {
		return bad("body is not a single return statement")
	}
	rs, ok := fd.Body.List[0].(*ast.ReturnStmt)
	if !ok || len(rs.Results) != 1 {
		return bad("body is not a single return statement")
	}
	call, ok := rs.Results[0].(*ast.CallExpr)
	if !ok || c10pKey(call.Fun) != "cm.UpdateCluster" || len(call.Args) != 2 || c10pKey(call.Args[0]) != "cluster" {
		return bad("does not return cm.UpdateCluster(cluster, handler)")
	}
	fl, ok := call.Args[1].(*ast.FuncLit)
	if !ok || len(fl.Type.Params.List) != 1 || len(fl.Type.Params.List[0].Names) != 2 ||
		fl.Type.Params.List[0].Names[0].Name != "oc" || fl.Type.Params.List[0].Names[1].Name != "nc" {
		return bad("the handler is not a function literal func(oc, nc types.Cluster)")
	}
	known := map[string]string{
		"UpdateClusterResourceManagerHandler(oc,nc)": ".resource",
		"CleanOldClusterHandler(oc,nc)":              ".cleanOld",
		"InheritClusterHostsHandler(oc,nc)":          ".inheritHosts",
		"NewSimpleHostHandler(nc,hostConfigs)":       ".newHosts",
		"TransferClusterHostStatesHandler(oc,nc)":    ".transfer",
	}
	var out []string
	var walk func(l []ast.Stmt) error
	walk = func(l []ast.Stmt) error {
		for _, st := range l {
			switch x := st.(type) {
			case *ast.ExprStmt:
				k := known[c10pKey(x.X)]
				if k == "" {
					return fmt.Errorf("unknown handler step %s", src(st))
				}
				out = append(out, k)
			case *ast.IfStmt:
				// a step under a configuration test (`if cluster.SlowStart.Mode != ""`): only the steps that do not touch managers / infos
				if x.Init != nil || x.Else != nil || !strings.HasPrefix(c10pKey(x.Cond), "cluster.") {
					return fmt.Errorf("unsupported conditional step %s", src(st))
				}
				n := len(out)
				if err := walk(x.Body.List); err != nil {
					return err
				}
				for _, k := range out[n:] {
					if k != ".transfer" && k != ".cleanOld" {
						return fmt.Errorf("step %s under a condition", k)
					}
				}
			default:
				return fmt.Errorf("unsupported statement %s", src(st))
			}
		}
		return nil
	}
	if err := walk(fl.Body.List); err != nil {
		return bad(err.Error())
	}
	return out, nil
}

// ---- UpdateCluster ---------------------------------------------------------------------------------------------------------------

type c10pUpd struct{ newFromNewCluster, oldFromMap, argsOldNew, beforePublish, publishesNew bool }

func c10pUpdateCluster(f *ast.File) (c10pUpd, error) {
	var u c10pUpd
	fd := findFunc(f, "clusterManager", "UpdateCluster")
	if fd == nil {
		return u, fmt.Errorf("clusterManager.UpdateCluster not found")
	}
	hIdx, sIdx := -1, -1
	nStores := 0
	for i, st := range fd.Body.List {
		switch x := st.(type) {
		case *ast.AssignStmt:
			if len(x.Lhs) == 1 && len(x.Rhs) == 1 && c10pKey(x.Lhs[0]) == "newCluster" {
				if x.Tok == token.DEFINE && c10pKey(x.Rhs[0]) == "NewCluster(cluster)" && hIdx < 0 {
					u.newFromNewCluster = true
				} else {
					return u, fmt.Errorf("UpdateCluster: newCluster assigned by %s", src(st))
				}
			}
			if len(x.Lhs) == 2 && len(x.Rhs) == 1 && c10pKey(x.Rhs[0]) == "cm.clustersMap.Load(clusterName)" && c10pKey(x.Lhs[0]) == "ci" && c10pKey(x.Lhs[1]) == "exists" {
				u.oldFromMap = true
			}
		case *ast.IfStmt:
			c := c10pKey(x.Cond)
			if c == "exists" && u.oldFromMap {
				if len(x.Body.List) != 1 || c10pKey2(x.Body.List[0]) != "oldCluster = ci.(types.Cluster)" {
					return u, fmt.Errorf("UpdateCluster: unsupported statement under `if exists`")
				}
			}
			if c == "clusterHandler != nil" {
				if len(x.Body.List) != 1 || x.Else != nil {
					return u, fmt.Errorf("UpdateCluster: unsupported handler call")
				}
				es, ok := x.Body.List[0].(*ast.ExprStmt)
				if !ok {
					return u, fmt.Errorf("UpdateCluster: unsupported handler call")
				}
				switch c10pKey(es.X) {
				case "clusterHandler(oldCluster,newCluster)":
					u.argsOldNew = true
				default:
					return u, fmt.Errorf("UpdateCluster: unsupported handler call %s", src(es))
				}
				if hIdx >= 0 {
					return u, fmt.Errorf("UpdateCluster: the handler is called twice")
				}
				hIdx = i
			}
		case *ast.ExprStmt:
			k := c10pKey(x.X)
			if strings.HasPrefix(k, "cm.clustersMap.Store(") {
				nStores++
				sIdx = i
				u.publishesNew = k == "cm.clustersMap.Store(clusterName,newCluster)"
			}
			if strings.HasPrefix(k, "clusterHandler(") {
				return u, fmt.Errorf("UpdateCluster: unguarded handler call")
			}
		}
	}
	// a handler call or a publication hidden deeper in the body is outside the vocabulary
	deepH, deepS := 0, 0
	ast.Inspect(fd.Body, func(n ast.Node) bool {
		if c, ok := n.(*ast.CallExpr); ok {
			k := c10pKey(c.Fun)
			if k == "clusterHandler" {
				deepH++
			}
			if k == "cm.clustersMap.Store" {
				deepS++
			}
		}
		return true
	})
	if hIdx < 0 || sIdx < 0 || nStores != 1 || deepH != 1 || deepS != 1 {
		return u, fmt.Errorf("UpdateCluster: expected exactly one top-level handler call and one publication (found %d / %d)", deepH, deepS)
	}
	u.beforePublish = hIdx < sIdx
	return u, nil
}

func c10pKey2(st ast.Stmt) string {
	a, ok := st.(*ast.AssignStmt)
	if !ok || len(a.Lhs) != 1 || len(a.Rhs) != 1 {
		return src(st)
	}
	return c10pKey(a.Lhs[0]) + " " + a.Tok.String() + " " + c10pKey(a.Rhs[0])
}

// every call `<x>.UpdateCluster(` in the non-test, non-mock files under pkg/: "file:function"
func c10pUpdateCallers() ([]string, error) {
	var out []string
	root := filepath.Join(repo, "pkg")
	err := filepath.Walk(root, func(p string, fi os.FileInfo, err error) error {
		if err != nil {
			return err
		}
		if fi.IsDir() {
			if fi.Name() == "mock" || fi.Name() == "testdata" {
				return filepath.SkipDir
			}
			return nil
		}
		if !strings.HasSuffix(p, ".go") || strings.HasSuffix(p, "_test.go") {
			return nil
		}
		b, err := os.ReadFile(p)
		if err != nil {
			return err
		}
		if !strings.Contains(string(b), "UpdateCluster(") {
			return nil
		}
		f, err := c10tParse(p)
		if err != nil {
			return err
		}
		rel, _ := filepath.Rel(repo, p)
		for _, d := range f.Decls {
			fd, ok := d.(*ast.FuncDecl)
			if !ok || fd.Body == nil {
				continue
			}
			ast.Inspect(fd.Body, func(n ast.Node) bool {
				if c, ok := n.(*ast.CallExpr); ok {
					if se, ok := c.Fun.(*ast.SelectorExpr); ok && se.Sel.Name == "UpdateCluster" {
						out = append(out, rel+":"+fd.Name.Name)
					}
				}
				return true
			})
		}
		return nil
	})
	sort.Strings(out)
	return out, err
}

// the adapter's Trigger method returns exactly one call of a cluster-manager method: its name
func c10pAdapter(f *ast.File, method string) (string, error) {
	fd := findFunc(f, "MngAdapter", method)
	if fd == nil || len(fd.Body.List) != 1 {
		return "", fmt.Errorf("MngAdapter.%s: not a single statement", method)
	}
	rs, ok := fd.Body.List[0].(*ast.ReturnStmt)
	if !ok || len(rs.Results) != 1 {
		return "", fmt.Errorf("MngAdapter.%s: not a single return", method)
	}
	c, ok := rs.Results[0].(*ast.CallExpr)
	if !ok {
		return "", fmt.Errorf("MngAdapter.%s: not a call", method)
	}
	se, ok := c.Fun.(*ast.SelectorExpr)
	if !ok || c10pKey(se.X) != "ca" {
		return "", fmt.Errorf("MngAdapter.%s: not a call on the adapter", method)
	}
	return se.Sel.Name, nil
}

// ---- construction of infos, hosts, stats -----------------------------------------------------------------------------------------

func c10pKV(cl *ast.CompositeLit, key string) ast.Expr {
	for _, e := range cl.Elts {
		if kv, ok := e.(*ast.KeyValueExpr); ok && c10pKey(kv.Key) == key {
			return kv.Value
		}
	}
	return nil
}

func c10pFindLit(n ast.Node, typ string) *ast.CompositeLit {
	var out *ast.CompositeLit
	ast.Inspect(n, func(m ast.Node) bool {
		if cl, ok := m.(*ast.CompositeLit); ok && out == nil && c10pKey(cl.Type) == typ {
			out = cl
		}
		return true
	})
	return out
}

// NewClusterInfo: the info literal's resourceManager is NewResourceManager(<config thresholds>) and nothing assigns it afterwards
func c10pNewInfo(f *ast.File) (bool, error) {
	fd := findFunc(f, "", "NewClusterInfo")
	if fd == nil {
		return false, fmt.Errorf("NewClusterInfo not found")
	}
	cl := c10pFindLit(fd.Body, "clusterInfo")
	if cl == nil {
		return false, fmt.Errorf("NewClusterInfo: clusterInfo literal not found")
	}
	v := c10pKV(cl, "resourceManager")
	if v == nil {
		return false, fmt.Errorf("NewClusterInfo: the literal does not set resourceManager")
	}
	fresh := c10pKey(v) == "NewResourceManager(clusterConfig.CirBreThresholds)"
	later := false
	ast.Inspect(fd.Body, func(n ast.Node) bool {
		if a, ok := n.(*ast.AssignStmt); ok {
			for _, l := range a.Lhs {
				if strings.HasSuffix(c10pKey(l), ".resourceManager") {
					later = true
				}
			}
		}
		return true
	})
	if !fresh || later {
		return false, fmt.Errorf("NewClusterInfo: resourceManager is %s (assigned later: %v)", src(v), later)
	}
	return true, nil
}

// NewResourceManager: every resource literal sets `max` only (counters start at 0)
func c10pFreshZero(f *ast.File) (bool, error) {
	fd := findFunc(f, "", "NewResourceManager")
	if fd == nil {
		return false, fmt.Errorf("NewResourceManager not found")
	}
	cl := c10pFindLit(fd.Body, "resourcemanager")
	if cl == nil {
		return false, fmt.Errorf("NewResourceManager: resourcemanager literal not found")
	}
	n := 0
	for _, fld := range []string{"connections", "pendingRequests", "requests", "retries"} {
		v := c10pKV(cl, fld)
		u, ok := v.(*ast.UnaryExpr)
		if !ok || u.Op != token.AND {
			return false, fmt.Errorf("NewResourceManager: field %s is not &resource{…}", fld)
		}
		rl, ok := u.X.(*ast.CompositeLit)
		if !ok || c10pKey(rl.Type) != "resource" {
			return false, fmt.Errorf("NewResourceManager: field %s is not &resource{…}", fld)
		}
		for _, e := range rl.Elts {
			kv, ok := e.(*ast.KeyValueExpr)
			if !ok || c10pKey(kv.Key) != "max" {
				return false, fmt.Errorf("NewResourceManager: resource literal of %s sets more than max", fld)
			}
		}
		n++
	}
	// one object per resource: four distinct literals
	return n == 4, nil
}

func c10pInherit(f *ast.File) (swings, keeps bool, err error) {
	fd := findFunc(f, "", "InheritClusterHostsHandler")
	if fd == nil {
		return false, false, fmt.Errorf("InheritClusterHostsHandler not found")
	}
	newInfo := ""
	for _, st := range fd.Body.List {
		switch x := st.(type) {
		case *ast.IfStmt:
			if c10pKey(x.Cond) != "oc == nil" || !c10pOnlyReturn(x.Body) {
				return false, false, fmt.Errorf("InheritClusterHostsHandler: unsupported guard %s", src(x.Cond))
			}
		case *ast.AssignStmt:
			if x.Tok == token.DEFINE && len(x.Lhs) == 1 && len(x.Rhs) == 1 && c10pKey(x.Rhs[0]) == "nc.Snapshot().ClusterInfo()" {
				newInfo = c10pKey(x.Lhs[0])
			} else {
				return false, false, fmt.Errorf("InheritClusterHostsHandler: unsupported assignment %s", src(st))
			}
		case *ast.ExprStmt:
			k := c10pKey(x.X)
			switch {
			case k == "oc.Snapshot().HostSet().Range(func)":
				c := x.X.(*ast.CallExpr)
				fl := c.Args[0].(*ast.FuncLit)
				if len(fl.Body.List) == 2 && len(fl.Type.Params.List) == 1 && len(fl.Type.Params.List[0].Names) == 1 {
					h := fl.Type.Params.List[0].Names[0].Name
					if es, ok := fl.Body.List[0].(*ast.ExprStmt); ok && newInfo != "" && c10pKey(es.X) == h+".SetClusterInfo("+newInfo+")" {
						if r, ok := fl.Body.List[1].(*ast.ReturnStmt); ok && len(r.Results) == 1 && c10pKey(r.Results[0]) == "true" {
							swings = true
						}
					}
				}
				if !swings {
					return false, false, fmt.Errorf("InheritClusterHostsHandler: unsupported host loop")
				}
			case k == "nc.UpdateHosts(oc.Snapshot().HostSet())":
				keeps = true
			default:
				return false, false, fmt.Errorf("InheritClusterHostsHandler: unsupported call %s", src(st))
			}
		default:
			return false, false, fmt.Errorf("InheritClusterHostsHandler: unsupported statement %s", src(st))
		}
	}
	return swings, keeps, nil
}

// NewSimpleHostHandler: every new host is NewSimpleHost(hc, <c.Snapshot()>.ClusterInfo()) and the set is published by c.UpdateHosts
func c10pNewHosts(f *ast.File) (bool, error) {
	fd := findFunc(f, "", "NewSimpleHostHandler")
	if fd == nil {
		return false, fmt.Errorf("NewSimpleHostHandler not found")
	}
	snap := ""
	ok1, ok2 := false, false
	ast.Inspect(fd.Body, func(n ast.Node) bool {
		switch x := n.(type) {
		case *ast.AssignStmt:
			if x.Tok == token.DEFINE && len(x.Lhs) == 1 && len(x.Rhs) == 1 && c10pKey(x.Rhs[0]) == "c.Snapshot()" {
				snap = c10pKey(x.Lhs[0])
			}
		case *ast.CallExpr:
			k := c10pKey(x.Fun)
			if k == "NewSimpleHost" && len(x.Args) == 2 {
				ok1 = snap != "" && c10pKey(x.Args[1]) == snap+".ClusterInfo()"
			}
			if k == "c.UpdateHosts" {
				ok2 = true
			}
		}
		return true
	})
	return ok1 && ok2, nil
}

// NewSimpleHost stores the info it is given (h.clusterInfo.Store(clusterInfo)) and ClusterInfo() loads that field
func c10pHostInfo(f *ast.File) (bool, error) {
	fd := findFunc(f, "", "NewSimpleHost")
	get := findFunc(f, "simpleHost", "ClusterInfo")
	set := findFunc(f, "simpleHost", "SetClusterInfo")
	if fd == nil || get == nil || set == nil || len(fd.Type.Params.List) != 2 {
		return false, fmt.Errorf("NewSimpleHost / simpleHost.ClusterInfo / SetClusterInfo not found")
	}
	p := fd.Type.Params.List[1].Names[0].Name
	stored, loads, sets := false, false, false
	ast.Inspect(fd.Body, func(n ast.Node) bool {
		if c, ok := n.(*ast.CallExpr); ok && strings.HasSuffix(c10pKey(c.Fun), ".clusterInfo.Store") && len(c.Args) == 1 && c10pKey(c.Args[0]) == p {
			stored = true
		}
		return true
	})
	ast.Inspect(get.Body, func(n ast.Node) bool {
		if c, ok := n.(*ast.CallExpr); ok && strings.HasSuffix(c10pKey(c.Fun), ".clusterInfo.Load") {
			loads = true
		}
		return true
	})
	ast.Inspect(set.Body, func(n ast.Node) bool {
		if c, ok := n.(*ast.CallExpr); ok && strings.HasSuffix(c10pKey(c.Fun), ".clusterInfo.Store") && len(c.Args) == 1 && c10pKey(c.Args[0]) == set.Type.Params.List[0].Names[0].Name {
			sets = true
		}
		return true
	})
	return stored && loads && sets, nil
}

// stats gauges keyed by name: newClusterStats(name) / newHostStats(cluster, addr) take their metrics from metrics.NewClusterStats /
// NewHostStats, which call NewMetrics(type, labels of the NAMES); NewMetrics returns the object already registered under the full
// name before it builds one; Counter is registry.GetOrRegister.
func c10pStats() (cluster, host, lookup, getOrReg bool, err error) {
	sf, err := parse("pkg/upstream/cluster/stats.go")
	if err != nil {
		return
	}
	uf, err := parse("pkg/metrics/upstream.go")
	if err != nil {
		return
	}
	st, err := parse("pkg/metrics/store.go")
	if err != nil {
		return
	}
	check := func(fn, ctor, gauge string) bool {
		fd := findFunc(sf, "", fn)
		if fd == nil || len(fd.Body.List) < 2 {
			return false
		}
		var args []string
		for _, p := range fd.Type.Params.List {
			for _, n := range p.Names {
				args = append(args, n.Name)
			}
		}
		a, ok := fd.Body.List[0].(*ast.AssignStmt)
		if !ok || len(a.Lhs) != 1 || len(a.Rhs) != 1 || c10pKey(a.Rhs[0]) != "metrics."+ctor+"("+strings.Join(args, ",")+")" {
			return false
		}
		s := c10pKey(a.Lhs[0])
		found := 0
		ast.Inspect(fd.Body, func(n ast.Node) bool {
			if kv, ok := n.(*ast.KeyValueExpr); ok {
				k := c10pKey(kv.Key)
				if k == "UpstreamRequestActive" || k == "UpstreamConnectionActive" {
					if c10pKey(kv.Value) == s+".Counter(metrics."+k+")" {
						found++
					} else {
						found = -10
					}
				}
			}
			return true
		})
		return found == 2
	}
	cluster = check("newClusterStats", "NewClusterStats", "")
	host = check("newHostStats", "NewHostStats", "")
	// metrics.NewClusterStats / NewHostStats: NewMetrics(UpstreamType, map[string]string{...names...})
	for _, fn := range []string{"NewClusterStats", "NewHostStats"} {
		fd := findFunc(uf, "", fn)
		if fd == nil {
			err = fmt.Errorf("metrics.%s not found", fn)
			return
		}
		okc := false
		ast.Inspect(fd.Body, func(n ast.Node) bool {
			if c, ok := n.(*ast.CallExpr); ok && c10pKey(c.Fun) == "NewMetrics" && len(c.Args) == 2 && c10pKey(c.Args[0]) == "UpstreamType" {
				if cl, ok := c.Args[1].(*ast.CompositeLit); ok {
					okc = true
					names := map[string]bool{}
					for _, p := range fd.Type.Params.List {
						for _, n := range p.Names {
							names[n.Name] = true
						}
					}
					for _, e := range cl.Elts {
						kv, ok := e.(*ast.KeyValueExpr)
						if !ok || !names[c10pKey(kv.Value)] {
							okc = false
						}
					}
				}
			}
			return true
		})
		if fn == "NewClusterStats" {
			cluster = cluster && okc
		} else {
			host = host && okc
		}
	}
	// NewMetrics: `if m, ok := defaultStore.metrics[name]; ok { return m, nil }` before the `&metrics{` literal
	nm := findFunc(st, "", "NewMetrics")
	if nm == nil {
		err = fmt.Errorf("NewMetrics not found")
		return
	}
	seenLookup := false
	for _, s := range nm.Body.List {
		if is, ok := s.(*ast.IfStmt); ok && is.Init != nil {
			if a, ok := is.Init.(*ast.AssignStmt); ok && len(a.Rhs) == 1 && c10pKey(a.Rhs[0]) == "defaultStore.metrics[name]" && len(a.Lhs) == 2 && c10pKey(is.Cond) == c10pKey(a.Lhs[1]) {
				if len(is.Body.List) == 1 {
					if r, ok := is.Body.List[0].(*ast.ReturnStmt); ok && len(r.Results) == 2 && c10pKey(r.Results[0]) == c10pKey(a.Lhs[0]) {
						seenLookup = true
					}
				}
			}
		}
		if a, ok := s.(*ast.AssignStmt); ok && len(a.Rhs) == 1 {
			if u, ok := a.Rhs[0].(*ast.UnaryExpr); ok {
				if cl, ok := u.X.(*ast.CompositeLit); ok && c10pKey(cl.Type) == "metrics" {
					lookup = seenLookup
				}
			}
		}
	}
	cf := findFunc(st, "metrics", "Counter")
	if cf == nil {
		err = fmt.Errorf("metrics.Counter not found")
		return
	}
	ast.Inspect(cf.Body, func(n ast.Node) bool {
		if c, ok := n.(*ast.CallExpr); ok && c10pKey(c.Fun) == "s.registry.GetOrRegister" && len(c.Args) == 2 && c10pKey(c.Args[0]) == "key" {
			getOrReg = true
		}
		return true
	})
	return
}

// ---- through which object each site reaches the manager ---------------------------------------------------------------------------

type c10pSite struct{ file, fn, res, op, path string }

// c10pPathOf classifies the expression in front of `.ResourceManager()`.
func c10pPathOf(e ast.Expr) string {
	k := c10pKey(e)
	if strings.HasSuffix(k, ".ClusterInfo()") {
		base := strings.TrimSuffix(k, ".ClusterInfo()")
		lb := strings.ToLower(base)
		switch {
		case strings.HasSuffix(lb, "snap") || strings.HasSuffix(lb, "snapshot") || strings.HasSuffix(lb, "snapshot()"):
			return ".viaInfo" // the info of a snapshot: an info object, fixed
		case strings.HasSuffix(lb, "host") || strings.HasSuffix(lb, "host()"):
			return ".viaHost" // the host's CURRENT info (SetClusterInfo can swing it)
		}
		return ".other"
	}
	// a stored cluster info (field or local): an info object captured earlier
	switch e.(type) {
	case *ast.Ident, *ast.SelectorExpr:
		lk := strings.ToLower(k)
		if strings.HasSuffix(lk, "cluster") || strings.HasSuffix(lk, "clusterinfo") || strings.HasSuffix(lk, "info") {
			return ".viaInfo"
		}
	}
	return ".other"
}

func c10pSites() ([]c10pSite, error) {
	var sites []c10pSite
	root := filepath.Join(repo, "pkg")
	err := filepath.Walk(root, func(p string, fi os.FileInfo, err error) error {
		if err != nil {
			return err
		}
		if fi.IsDir() {
			if fi.Name() == "mock" || fi.Name() == "testdata" {
				return filepath.SkipDir
			}
			return nil
		}
		if !strings.HasSuffix(p, ".go") || strings.HasSuffix(p, "_test.go") {
			return nil
		}
		b, err := os.ReadFile(p)
		if err != nil {
			return err
		}
		if !strings.Contains(string(b), "ResourceManager()") {
			return nil
		}
		f, err := c10tParse(p)
		if err != nil {
			return err
		}
		rel, _ := filepath.Rel(repo, p)
		for _, d := range f.Decls {
			fd, ok := d.(*ast.FuncDecl)
			if !ok || fd.Body == nil {
				continue
			}
			name := fd.Name.Name
			if fd.Recv != nil && len(fd.Recv.List) == 1 {
				rt := fd.Recv.List[0].Type
				if st, ok := rt.(*ast.StarExpr); ok {
					rt = st.X
				}
				name = src(rt) + "." + name
			}
			// `<prefix>.ResourceManager().<Res>()` => (res, prefix expression)
			resOf := func(e ast.Expr) (string, ast.Expr, bool) {
				ce, ok := e.(*ast.CallExpr)
				if !ok || len(ce.Args) != 0 {
					return "", nil, false
				}
				se, ok := ce.Fun.(*ast.SelectorExpr)
				if !ok || !c10tResNames[se.Sel.Name] {
					return "", nil, false
				}
				in, ok := se.X.(*ast.CallExpr)
				if !ok {
					return "", nil, false
				}
				ise, ok := in.Fun.(*ast.SelectorExpr)
				if !ok || ise.Sel.Name != "ResourceManager" {
					return "", nil, false
				}
				return se.Sel.Name, ise.X, true
			}
			type al struct {
				res  string
				path string
			}
			alias := map[string]al{}
			ast.Inspect(fd.Body, func(n ast.Node) bool {
				as, ok := n.(*ast.AssignStmt)
				if !ok || len(as.Lhs) != 1 || len(as.Rhs) != 1 {
					return true
				}
				if res, pre, ok := resOf(as.Rhs[0]); ok {
					if id, ok := as.Lhs[0].(*ast.Ident); ok {
						alias[id.Name] = al{res, c10pPathOf(pre)}
					}
				}
				return true
			})
			ast.Inspect(fd.Body, func(n ast.Node) bool {
				ce, ok := n.(*ast.CallExpr)
				if !ok {
					return true
				}
				se, ok := ce.Fun.(*ast.SelectorExpr)
				if !ok || !(se.Sel.Name == "CanCreate" || se.Sel.Name == "Increase" || se.Sel.Name == "Decrease") {
					return true
				}
				if res, pre, ok := resOf(se.X); ok {
					sites = append(sites, c10pSite{rel, name, res, se.Sel.Name, c10pPathOf(pre)})
				} else if id, ok := se.X.(*ast.Ident); ok && alias[id.Name].res != "" {
					sites = append(sites, c10pSite{rel, name, alias[id.Name].res, se.Sel.Name, alias[id.Name].path})
				}
				return true
			})
		}
		return nil
	})
	sort.Slice(sites, func(i, j int) bool {
		a, b := sites[i], sites[j]
		if a.file != b.file {
			return a.file < b.file
		}
		if a.fn != b.fn {
			return a.fn < b.fn
		}
		if a.res != b.res {
			return a.res < b.res
		}
		return a.op < b.op
	})
	return sites, err
}

// ---- the module ------------------------------------------------------------------------------------------------------------------

func c10pList(xs []string, ind string) string {
	if len(xs) == 0 {
		return "[]"
	}
	return "[\n" + ind + strings.Join(xs, ",\n"+ind) + "]"
}

func genC10pShare() (string, error) {
	const dir = "pkg/upstream/cluster"
	mf, err := parse(dir + "/cluster_manager.go")
	if err != nil {
		return "", err
	}
	rf, err := parse(dir + "/resource_manager.go")
	if err != nil {
		return "", err
	}
	cf, err := parse(dir + "/cluster.go")
	if err != nil {
		return "", err
	}
	hf, err := parse(dir + "/host.go")
	if err != nil {
		return "", err
	}
	af, err := parse(dir + "/cluster_adapter.go")
	if err != nil {
		return "", err
	}
	acts, err := c10pHandler(mf)
	if err != nil {
		return "", err
	}
	stores, err := c10pStores(rf)
	if err != nil {
		return "", err
	}
	pc, err := c10pChain(mf, "AddOrUpdatePrimaryCluster")
	if err != nil {
		return "", err
	}
	hc, err := c10pChain(mf, "AddOrUpdateClusterAndHost")
	if err != nil {
		return "", err
	}
	u, err := c10pUpdateCluster(mf)
	if err != nil {
		return "", err
	}
	callers, err := c10pUpdateCallers()
	if err != nil {
		return "", err
	}
	ap, err := c10pAdapter(af, "TriggerClusterAddOrUpdate")
	if err != nil {
		return "", err
	}
	ah, err := c10pAdapter(af, "TriggerClusterAndHostsAddOrUpdate")
	if err != nil {
		return "", err
	}
	freshInfo, err := c10pNewInfo(cf)
	if err != nil {
		return "", err
	}
	freshZero, err := c10pFreshZero(rf)
	if err != nil {
		return "", err
	}
	swings, keeps, err := c10pInherit(mf)
	if err != nil {
		return "", err
	}
	newHosts, err := c10pNewHosts(mf)
	if err != nil {
		return "", err
	}
	hostInfo, err := c10pHostInfo(hf)
	if err != nil {
		return "", err
	}
	sc, sh, lookup, gor, err := c10pStats()
	if err != nil {
		return "", err
	}
	sites, err := c10pSites()
	if err != nil {
		return "", err
	}

	s := header("ResourceShare", dir+"/cluster_manager.go", dir+"/resource_manager.go", dir+"/cluster.go", dir+"/host.go", dir+"/cluster_adapter.go",
		dir+"/stats.go", "pkg/metrics/upstream.go", "pkg/metrics/store.go", "every non-test, non-mock Go file under pkg/ (callers of UpdateCluster, resource sites)")
	s += "inductive Res where\n  | conn | pend | req | retr\n  deriving DecidableEq, Repr\n"
	s += "/-- which cluster / which manager variable of the handler: the OLD one or the NEW one -/\ninductive Side where\n  | old | new\n  deriving DecidableEq, Repr\n"
	s += "/-- the statements of `UpdateClusterResourceManagerHandler(oc, nc)` (closed vocabulary) -/\ninductive Act where\n" +
		"  | skipIfNoOld                                  -- if oc == nil { return }\n" +
		"  | skipIfTypeDiffers                            -- if <new type> != <old type> { return }\n" +
		"  | read (v : Side) (of : Side)                  -- <v>ResourceManager := <of>Snap.ClusterInfo().ResourceManager()\n" +
		"  | alias (info : Side) (v : Side)               -- <info>Snap.ClusterInfo().(*clusterInfo).resourceManager = <v>ResourceManager\n" +
		"  | fresh (info : Side)                          -- … .resourceManager = NewResourceManager(…)\n" +
		"  | update (a0 a1 : Side)                        -- updateResourceValue(<a0>ResourceManager, <a1>ResourceManager)\n" +
		"  | copyCur (d : Side) (dr : Res) (s : Side) (sr : Res)  -- <d>ResourceManager.<dr>().UpdateCur(<s>ResourceManager.<sr>().Cur())\n" +
		"  | setCur (d : Side) (dr : Res) (n : Int)       -- <d>ResourceManager.<dr>().UpdateCur(<n>)\n" +
		"  deriving DecidableEq, Repr\n"
	s += "def handler : List Act := " + c10pList(acts, "  ") + "\n\n"
	s += "/-- formal parameters of `updateResourceValue(p0, p1)` -/\ninductive Formal where\n  | p0 | p1\n  deriving DecidableEq, Repr\n"
	s += "inductive Fld where\n  | max | cur\n  deriving DecidableEq, Repr\n"
	s += "inductive Src where\n  | fld (p : Formal) (r : Res) (f : Fld)\n  | lit (n : Int)\n  deriving DecidableEq, Repr\n"
	s += "/-- one store of `updateResourceValue`: `<p>.<r>.<f> = <src>` -/\nstructure Store where\n  p : Formal\n  r : Res\n  f : Fld\n  src : Src\n  deriving DecidableEq, Repr\n"
	s += "def stores : List Store := " + c10pList(stores, "  ") + "\n\n"
	s += "/-- the steps of an update handler chain -/\ninductive Step where\n  | resource | cleanOld | inheritHosts | newHosts | transfer\n  deriving DecidableEq, Repr\n"
	s += "/-- `AddOrUpdatePrimaryCluster`: cm.UpdateCluster(cluster, func(oc, nc) { … }) -/\ndef primaryChain : List Step := [" + strings.Join(pc, ", ") + "]\n"
	s += "/-- `AddOrUpdateClusterAndHost` -/\ndef andHostChain : List Step := [" + strings.Join(hc, ", ") + "]\n\n"
	s += "/-- `UpdateCluster`: `newCluster := NewCluster(cluster)` -/\ndef update_newFromNewCluster : Bool := " + boolLit(u.newFromNewCluster) + "\n"
	s += "/-- … the old cluster is the one loaded from `clustersMap` under the name -/\ndef update_oldFromMap : Bool := " + boolLit(u.oldFromMap) + "\n"
	s += "/-- … `clusterHandler(oldCluster, newCluster)` -/\ndef update_handlerArgsOldNew : Bool := " + boolLit(u.argsOldNew) + "\n"
	s += "/-- … the handler chain runs BEFORE `cm.clustersMap.Store(clusterName, newCluster)`: no request can reach the new cluster's info before the chain is through -/\ndef update_handlerBeforePublish : Bool := " + boolLit(u.beforePublish) + "\n"
	s += "/-- … what is published is `newCluster` -/\ndef update_publishesNew : Bool := " + boolLit(u.publishesNew) + "\n"
	var cs []string
	for _, c := range callers {
		cs = append(cs, fmt.Sprintf("%q", c))
	}
	s += "/-- every call of `UpdateCluster` under pkg/ (file:function) -/\ndef updateCallers : List String := [" + strings.Join(cs, ", ") + "]\n"
	s += fmt.Sprintf("/-- `MngAdapter.TriggerClusterAddOrUpdate` / `TriggerClusterAndHostsAddOrUpdate` (the xDS / service-discovery path) return this cluster-manager call -/\ndef adapterAddOrUpdate : String := %q\ndef adapterAndHosts : String := %q\n\n", ap, ah)
	s += "/-- `NewClusterInfo`: `resourceManager: NewResourceManager(clusterConfig.CirBreThresholds)` — every cluster object starts with a manager of its own -/\ndef newInfo_freshManager : Bool := " + boolLit(freshInfo) + "\n"
	s += "/-- `NewResourceManager`: four `&resource{max: …}` literals, `current` left at 0 -/\ndef freshManager_cursZero : Bool := " + boolLit(freshZero) + "\n"
	s += "/-- `InheritClusterHostsHandler`: every host of the old host set gets `SetClusterInfo(<new info>)` -/\ndef inherit_swingsHosts : Bool := " + boolLit(swings) + "\n"
	s += "/-- … and the new cluster takes over that host set (`nc.UpdateHosts(oc.Snapshot().HostSet())`) -/\ndef inherit_keepsHostSet : Bool := " + boolLit(keeps) + "\n"
	s += "/-- `NewSimpleHostHandler`: new host objects built with the cluster's own info -/\ndef newHosts_useOwnInfo : Bool := " + boolLit(newHosts) + "\n"
	s += "/-- `simpleHost`: the info is an atomic field, stored by NewSimpleHost / SetClusterInfo, loaded by ClusterInfo() -/\ndef host_infoIsMutableField : Bool := " + boolLit(hostInfo) + "\n"
	s += "/-- cluster / host stats: `metrics.New{Cluster,Host}Stats(<names>)` → `NewMetrics(UpstreamType, {names})`; the two active gauges are `s.Counter(metrics.<key>)` -/\n"
	s += "def stats_clusterByName : Bool := " + boolLit(sc) + "\ndef stats_hostByName : Bool := " + boolLit(sh) + "\n"
	s += "/-- `NewMetrics` returns the object registered under the full name before building one -/\ndef stats_lookupBeforeCreate : Bool := " + boolLit(lookup) + "\n"
	s += "/-- `metrics.Counter` is `registry.GetOrRegister(key, …)` -/\ndef stats_counterGetOrRegister : Bool := " + boolLit(gor) + "\n\n"
	s += "/-- through which object a site reaches the manager: a host's CURRENT ClusterInfo() / a cluster info captured earlier -/\ninductive Via where\n  | viaHost | viaInfo | other\n  deriving DecidableEq, Repr\n"
	s += "inductive SiteOp where\n  | CanCreate | Increase | Decrease\n  deriving DecidableEq, Repr\n"
	s += "structure Site where\n  file : String\n  fn : String\n  res : Res\n  op : SiteOp\n  via : Via\n  deriving DecidableEq, Repr\n"
	var ss []string
	for _, x := range sites {
		ss = append(ss, fmt.Sprintf("⟨%q, %q, %s, .%s, %s⟩", x.file, x.fn, c10pResLean[c10pResIdx[x.res]], x.op, x.path))
	}
	s += "def sites : List Site := " + c10pList(ss, "  ") + "\n"
	return s + footer("ResourceShare"), nil
}
