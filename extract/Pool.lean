-- translation-unsupported Pool: open -out/pkg/stream: no such file or directory
namespace MosnVerif.Gen.Pool
end MosnVerif.Gen.Pool
