package main

// Gen/ReadLoopConn.lean — the connection read loop below streamConn.Dispatch (property C07):
// pkg/network/connection.go startReadLoop / doRead / onRead.
//
// Regenerated:
//   - DefaultReadBufferSize;
//   - startReadLoop, branch "doRead returned a net.Error timeout": the guarded re-allocations of the read buffer
//     (`if COND { c.readBuffer.Free(); c.readBuffer.Alloc(E) }` ... `continue`) as (condition, size) pairs in source
//     order, the conditions translated over (network, allocated, Len(), Cap(), defaultReadBufferSize);
//   - startReadLoop, every other error: the close event (`c.Close(api.NoFlush, api.X)`) as a function of the error kind;
//   - doRead after `ReadOnce`: which (error kind, bytesRead) reach `c.onRead` and which error goes back to the loop,
//     translated statement by statement; the size of the first allocation;
//   - onRead: when the filter manager is called;
//   - every use of `c.readBuffer` in the three functions outside the recognised shrink statements.
// Statements outside this vocabulary => translation-unsupported.
// All helpers carry the prefix c07c.

import (
	"fmt"
	"go/ast"
	"go/parser"
	"go/token"
	"go/types"
	"os"
	"path/filepath"
	"sort"
	"strings"
)

func init() { register("ReadLoopConn", genC07Conn) }

const c07cFile = "pkg/network/connection.go"

func c07cText(e ast.Expr) string { return types.ExprString(e) }

func c07cBad(n ast.Node, why string) error {
	return fmt.Errorf("%s at %s", why, fset.Position(n.Pos()))
}

// c07cLogOnly: a statement whose leaves are all calls on a logger (conditions may only read).
func c07cLogOnly(s ast.Stmt) bool {
	switch x := s.(type) {
	case *ast.ExprStmt:
		ce, ok := x.X.(*ast.CallExpr)
		return ok && strings.HasPrefix(exprKey(ce.Fun), "log.")
	case *ast.BlockStmt:
		for _, t := range x.List {
			if !c07cLogOnly(t) {
				return false
			}
		}
		return true
	case *ast.IfStmt:
		if x.Init != nil || !c07cLogOnly(x.Body) {
			return false
		}
		switch e := x.Else.(type) {
		case nil:
			return true
		case *ast.BlockStmt:
			return c07cLogOnly(e)
		case *ast.IfStmt:
			return c07cLogOnly(e)
		}
	}
	return false
}

// c07cIsTimeoutIf: `if te, ok := err.(net.Error); ok && te.Timeout() {`
func c07cIsTimeoutIf(x *ast.IfStmt) bool {
	as, ok := x.Init.(*ast.AssignStmt)
	if !ok || as.Tok != token.DEFINE || len(as.Lhs) != 2 || len(as.Rhs) != 1 {
		return false
	}
	return exprKey(as.Lhs[0]) == "te" && exprKey(as.Lhs[1]) == "ok" && c07cText(as.Rhs[0]) == "err.(net.Error)" &&
		c07cText(x.Cond) == "ok && te.Timeout()"
}

func c07cCallStmt(s ast.Stmt) (*ast.CallExpr, bool) {
	es, ok := s.(*ast.ExprStmt)
	if !ok {
		return nil, false
	}
	ce, ok := es.X.(*ast.CallExpr)
	return ce, ok
}

// c07cDropNotifyLoops removes `for _, cb := range c.<callbacks> { cb(...) / cb.OnEvent(...) }` statements (listener
// notification; no effect on the read buffer) from a statement list, recursively. It returns how many were removed.
func c07cDropNotifyLoops(list []ast.Stmt, n *int) []ast.Stmt {
	var out []ast.Stmt
	for _, st := range list {
		switch x := st.(type) {
		case *ast.RangeStmt:
			k := exprKey(x.X)
			if (k == "c.connCallbacks" || k == "c.bytesReadCallbacks") && len(x.Body.List) == 1 {
				if ce, ok := c07cCallStmt(x.Body.List[0]); ok {
					h := exprKey(ce.Fun)
					if h == exprKey(x.Value) || h == exprKey(x.Value)+".OnEvent" {
						*n++
						continue
					}
				}
			}
			out = append(out, st)
		case *ast.IfStmt:
			c := *x
			b := *x.Body
			b.List = c07cDropNotifyLoops(x.Body.List, n)
			c.Body = &b
			switch e := x.Else.(type) {
			case *ast.BlockStmt:
				eb := *e
				eb.List = c07cDropNotifyLoops(e.List, n)
				c.Else = &eb
			case *ast.IfStmt:
				l := c07cDropNotifyLoops([]ast.Stmt{e}, n)
				c.Else = l[0]
			}
			out = append(out, &c)
		default:
			out = append(out, st)
		}
	}
	return out
}

// c07cRewrite replaces, recursively: the timeout type-assertion `if` header by the identifier `errIsTimeout`, and the
// call statement `callee(...)` by `dispatched = true`.
func c07cRewrite(list []ast.Stmt, callee string, hits *int) []ast.Stmt {
	var out []ast.Stmt
	for _, st := range list {
		switch x := st.(type) {
		case *ast.IfStmt:
			c := *x
			if c07cIsTimeoutIf(x) {
				c.Init = nil
				c.Cond = ast.NewIdent("errIsTimeout")
			}
			b := *x.Body
			b.List = c07cRewrite(x.Body.List, callee, hits)
			c.Body = &b
			switch e := x.Else.(type) {
			case *ast.BlockStmt:
				eb := *e
				eb.List = c07cRewrite(e.List, callee, hits)
				c.Else = &eb
			case *ast.IfStmt:
				c.Else = c07cRewrite([]ast.Stmt{e}, callee, hits)[0]
			}
			out = append(out, &c)
		case *ast.ExprStmt:
			if ce, ok := x.X.(*ast.CallExpr); ok && exprKey(ce.Fun) == callee {
				*hits++
				out = append(out, &ast.AssignStmt{Lhs: []ast.Expr{ast.NewIdent("dispatched")}, Tok: token.ASSIGN,
					Rhs: []ast.Expr{ast.NewIdent("true")}})
				continue
			}
			out = append(out, st)
		default:
			out = append(out, st)
		}
	}
	return out
}

func c07cBufEnv() *Env {
	return &Env{Names: map[string]string{
		"c.network": "network", "c.readBuffer": "allocated", "nil": "false",
		"c.readBuffer.Len()": "len", "c.readBuffer.Cap()": "cap", "c.defaultReadBufferSize": "dflt",
	}, Calls: map[string]string{"int": "", "int64": ""}}
}

type c07cShrink struct{ cond, size string }

// c07cShrinkIf: `if COND { c.readBuffer.Free(); c.readBuffer.Alloc(E) }` (or only the Alloc, which frees first)
func c07cShrinkIf(st ast.Stmt) (*c07cShrink, error) {
	x, ok := st.(*ast.IfStmt)
	if !ok || x.Init != nil || x.Else != nil {
		return nil, c07cBad(st, "timeout branch: statement is not a plain `if COND { Free; Alloc }`")
	}
	cond, err := c07cBufEnv().expr(x.Cond)
	if err != nil {
		return nil, c07cBad(x, "timeout branch condition: "+err.Error())
	}
	body := x.Body.List
	if len(body) == 2 {
		ce, ok := c07cCallStmt(body[0])
		if !ok || exprKey(ce.Fun) != "c.readBuffer.Free" || len(ce.Args) != 0 {
			return nil, c07cBad(body[0], "timeout branch: expected c.readBuffer.Free()")
		}
		body = body[1:]
	}
	if len(body) != 1 {
		return nil, c07cBad(x, "timeout branch: body is not { [Free();] Alloc(E) }")
	}
	ce, ok := c07cCallStmt(body[0])
	if !ok || exprKey(ce.Fun) != "c.readBuffer.Alloc" || len(ce.Args) != 1 {
		return nil, c07cBad(body[0], "timeout branch: expected c.readBuffer.Alloc(E)")
	}
	size, err := c07cBufEnv().expr(ce.Args[0])
	if err != nil {
		return nil, c07cBad(ce, "Alloc argument: "+err.Error())
	}
	return &c07cShrink{cond, size}, nil
}

func c07cCloseEvent(ce *ast.CallExpr) (string, bool) {
	if exprKey(ce.Fun) != "c.Close" || len(ce.Args) != 2 || exprKey(ce.Args[0]) != "api.NoFlush" {
		return "", false
	}
	switch exprKey(ce.Args[1]) {
	case "api.RemoteClose":
		return "CloseEv.remoteClose", true
	case "api.OnReadErrClose":
		return "CloseEv.onReadErrClose", true
	case "api.LocalClose":
		return "CloseEv.localClose", true
	}
	return "CloseEv.other", true
}

func c07cErrEnv() *Env {
	return &Env{Names: map[string]string{
		"err": "err", "nil": "ErrKind.none", "io.EOF": "ErrKind.eof", "bytesRead": "bytesRead",
		"atomic.LoadUint32(&c.closed)": "closedWord", "errIsTimeout": "(decide (err = ErrKind.timeout))",
		"dispatched": "dispatched", "c.readEnabled": "readEnabled", "c.readBuffer.Len()": "len",
	}, Calls: map[string]string{"int": "", "int64": ""},
		SkipCalls: map[string]bool{"log.DefaultLogger.Errorf": true, "log.DefaultLogger.Debugf": true,
			"log.DefaultLogger.Infof": true, "log.DefaultLogger.Warnf": true, "c.updateReadBufStats": true}}
}

// c07cLoop walks startReadLoop: returns the shrinks of the timeout branch and the Lean body of closeOnErr.
func c07cLoop(fd *ast.FuncDecl) ([]*c07cShrink, string, error) {
	var errIf *ast.IfStmt
	calls := 0
	ast.Inspect(fd.Body, func(n ast.Node) bool {
		if ce, ok := n.(*ast.CallExpr); ok && exprKey(ce.Fun) == "c.doRead" {
			calls++
		}
		b, ok := n.(*ast.BlockStmt)
		if !ok {
			return true
		}
		for i, st := range b.List {
			as, ok := st.(*ast.AssignStmt)
			if !ok || as.Tok != token.DEFINE || len(as.Lhs) != 1 || len(as.Rhs) != 1 || exprKey(as.Lhs[0]) != "err" ||
				exprKey(as.Rhs[0]) != "c.doRead()" {
				continue
			}
			if i+2 == len(b.List) {
				if x, ok := b.List[i+1].(*ast.IfStmt); ok && x.Init == nil && x.Else == nil && c07cText(x.Cond) == "err != nil" {
					errIf = x
				}
			}
		}
		return true
	})
	if calls != 1 || errIf == nil {
		return nil, "", c07cBad(fd, "startReadLoop: expected exactly one `err := c.doRead(); if err != nil { … }` closing its block")
	}
	body := errIf.Body.List
	if len(body) < 2 {
		return nil, "", c07cBad(errIf, "startReadLoop: error branch too short")
	}
	tIf, ok := body[0].(*ast.IfStmt)
	if !ok || !c07cIsTimeoutIf(tIf) || tIf.Else != nil {
		return nil, "", c07cBad(body[0], "startReadLoop: error branch does not start with the net.Error timeout test")
	}
	tb := tIf.Body.List
	if len(tb) == 0 {
		return nil, "", c07cBad(tIf, "startReadLoop: empty timeout branch")
	}
	br, ok := tb[len(tb)-1].(*ast.BranchStmt)
	if !ok || br.Tok != token.CONTINUE || br.Label != nil {
		return nil, "", c07cBad(tb[len(tb)-1], "startReadLoop: timeout branch does not end in `continue`")
	}
	var shrinks []*c07cShrink
	for _, st := range tb[:len(tb)-1] {
		if c07cLogOnly(st) {
			continue
		}
		s, err := c07cShrinkIf(st)
		if err != nil {
			return nil, "", err
		}
		shrinks = append(shrinks, s)
	}
	// the rest: logging, the close, return
	rest := body[1:]
	if r, ok := rest[len(rest)-1].(*ast.ReturnStmt); !ok || len(r.Results) != 0 {
		return nil, "", c07cBad(rest[len(rest)-1], "startReadLoop: error branch does not end in `return`")
	}
	closeFn := ""
	for _, st := range rest[:len(rest)-1] {
		if c07cLogOnly(st) {
			continue
		}
		if closeFn != "" {
			return nil, "", c07cBad(st, "startReadLoop: unexpected statement after the close")
		}
		switch x := st.(type) {
		case *ast.ExprStmt:
			ce, _ := c07cCallStmt(st)
			ev, ok := c07cCloseEvent(ce)
			if !ok {
				return nil, "", c07cBad(st, "startReadLoop: unexpected call in the error branch")
			}
			closeFn = ev
		case *ast.IfStmt:
			eb, ok := x.Else.(*ast.BlockStmt)
			if !ok || x.Init != nil || len(x.Body.List) != 1 || len(eb.List) != 1 {
				return nil, "", c07cBad(st, "startReadLoop: unexpected `if` in the error branch")
			}
			c1, ok1 := c07cCallStmt(x.Body.List[0])
			c2, ok2 := c07cCallStmt(eb.List[0])
			if !ok1 || !ok2 {
				return nil, "", c07cBad(st, "startReadLoop: close `if` does not hold two calls")
			}
			e1, ok1 := c07cCloseEvent(c1)
			e2, ok2 := c07cCloseEvent(c2)
			if !ok1 || !ok2 {
				return nil, "", c07cBad(st, "startReadLoop: close `if` does not hold two c.Close(api.NoFlush, …)")
			}
			cond, err := c07cErrEnv().expr(x.Cond)
			if err != nil {
				return nil, "", c07cBad(x, "close condition: "+err.Error())
			}
			closeFn = "if " + cond + " then " + e1 + " else " + e2
		default:
			return nil, "", c07cBad(st, "startReadLoop: unexpected statement in the error branch")
		}
	}
	if closeFn == "" {
		return nil, "", c07cBad(errIf, "startReadLoop: the error branch does not close the connection")
	}
	return shrinks, closeFn, nil
}

// c07cDoRead: returns (Lean body of doReadAfter, Lean expression of the first allocation size, listener loops dropped).
func c07cDoRead(fd *ast.FuncDecl) (string, string, int, error) {
	if fd.Type.Results == nil || len(fd.Type.Results.List) != 1 || len(fd.Type.Results.List[0].Names) != 1 ||
		fd.Type.Results.List[0].Names[0].Name != "err" {
		return "", "", 0, c07cBad(fd, "doRead: expected the named result `err error`")
	}
	l := fd.Body.List
	at := -1
	for i, st := range l {
		as, ok := st.(*ast.AssignStmt)
		if ok && len(as.Rhs) == 1 && c07cText(as.Rhs[0]) == "c.readBuffer.ReadOnce(c.rawConnection)" {
			if as.Tok != token.ASSIGN || len(as.Lhs) != 2 || exprKey(as.Lhs[0]) != "bytesRead" || exprKey(as.Lhs[1]) != "err" || at >= 0 {
				return "", "", 0, c07cBad(st, "doRead: unexpected ReadOnce statement")
			}
			at = i
		}
	}
	if at < 0 {
		return "", "", 0, c07cBad(fd, "doRead: `bytesRead, err = c.readBuffer.ReadOnce(c.rawConnection)` not found")
	}
	// before the read: allocation when nil, `var bytesRead int64`, the deadline
	alloc := ""
	for _, st := range l[:at] {
		switch x := st.(type) {
		case *ast.DeclStmt:
			continue
		case *ast.ExprStmt:
			if ce, ok := c07cCallStmt(st); ok && exprKey(ce.Fun) == "c.setReadDeadline" {
				continue
			}
		case *ast.IfStmt:
			if x.Init == nil && x.Else == nil && c07cText(x.Cond) == "c.readBuffer == nil" && len(x.Body.List) == 1 && alloc == "" {
				sw, ok := x.Body.List[0].(*ast.SwitchStmt)
				if ok && sw.Init == nil && exprKey(sw.Tag) == "c.network" {
					for _, cc := range sw.Body.List {
						cl := cc.(*ast.CaseClause)
						if cl.List != nil || len(cl.Body) != 1 {
							continue
						}
						as, ok := cl.Body[0].(*ast.AssignStmt)
						if !ok || as.Tok != token.ASSIGN || len(as.Lhs) != 1 || exprKey(as.Lhs[0]) != "c.readBuffer" {
							continue
						}
						ce, ok := as.Rhs[0].(*ast.CallExpr)
						if !ok || exprKey(ce.Fun) != "buffer.GetIoBuffer" || len(ce.Args) != 1 {
							continue
						}
						s, err := c07cBufEnv().expr(ce.Args[0])
						if err != nil {
							return "", "", 0, c07cBad(ce, "first allocation size: "+err.Error())
						}
						alloc = s
					}
				}
				if alloc != "" {
					continue
				}
			}
		}
		return "", "", 0, c07cBad(st, "doRead: unexpected statement before ReadOnce")
	}
	if alloc == "" {
		return "", "", 0, c07cBad(fd, "doRead: first allocation `c.readBuffer = buffer.GetIoBuffer(E)` (default case) not found")
	}
	dropped := 0
	after := c07cDropNotifyLoops(l[at+1:], &dropped)
	hits := 0
	after = c07cRewrite(after, "c.onRead", &hits)
	if hits != 1 {
		return "", "", 0, c07cBad(fd, fmt.Sprintf("doRead: %d calls of c.onRead after ReadOnce (expected 1)", hits))
	}
	env := c07cErrEnv()
	env.Ret = func([]string) string { return "(dispatched, err)" }
	env.Fall = "(dispatched, err)"
	body, err := env.block(after, "  ")
	if err != nil {
		return "", "", 0, fmt.Errorf("doRead: %v", err)
	}
	return body, alloc, dropped, nil
}

func c07cOnRead(fd *ast.FuncDecl) (string, error) {
	dropped := 0
	l := c07cDropNotifyLoops(fd.Body.List, &dropped)
	hits := 0
	l = c07cRewrite(l, "c.filterManager.OnRead", &hits)
	if hits != 1 {
		return "", c07cBad(fd, fmt.Sprintf("onRead: %d calls of c.filterManager.OnRead (expected 1)", hits))
	}
	env := c07cErrEnv()
	env.Ret = func([]string) string { return "dispatched" }
	env.Fall = "dispatched"
	body, err := env.block(l, "  ")
	if err != nil {
		return "", fmt.Errorf("onRead: %v", err)
	}
	return body, nil
}

// c07cUses lists every use of `c.readBuffer` in fd outside the statements in `skip`, as "<func>:<what>".
func c07cUses(fd *ast.FuncDecl, skip map[ast.Node]bool) []string {
	var out []string
	var stack []ast.Node
	ast.Inspect(fd.Body, func(n ast.Node) bool {
		if n == nil {
			stack = stack[:len(stack)-1]
			return true
		}
		if skip[n] {
			return false
		}
		if se, ok := n.(*ast.SelectorExpr); ok && exprKey(se) == "c.readBuffer" {
			what := "escape"
			if len(stack) > 0 {
				switch p := stack[len(stack)-1].(type) {
				case *ast.SelectorExpr:
					what = p.Sel.Name
				case *ast.BinaryExpr:
					if (p.Op == token.EQL || p.Op == token.NEQ) && (exprKey(p.X) == "nil" || exprKey(p.Y) == "nil") {
						what = "nilcheck"
					}
				case *ast.AssignStmt:
					for _, lh := range p.Lhs {
						if lh == ast.Expr(se) {
							what = "assign"
						}
					}
				}
			}
			out = append(out, fd.Name.Name+":"+what)
		}
		stack = append(stack, n)
		return true
	})
	return out
}

// c07cOtherShrinks: every recognised `if COND { Free; Alloc }` on c.readBuffer in the other functions of connection.go
// (the netpoll event loop), and every Free / Alloc / Reset / Drain / Cut / Read* call on a `readBuffer` field anywhere in
// the non-test files of pkg/network that is NOT inside a recognised statement (or is doRead's ReadOnce).
func c07cOtherShrinks(f *ast.File, loop *ast.FuncDecl) ([]*c07cShrink, []string, error) {
	var shrinks []*c07cShrink
	for _, d := range f.Decls {
		fd, ok := d.(*ast.FuncDecl)
		if !ok || fd == loop || fd.Body == nil {
			continue
		}
		ast.Inspect(fd.Body, func(n ast.Node) bool {
			if x, ok := n.(*ast.IfStmt); ok {
				if sh, err := c07cShrinkIf(x); err == nil {
					shrinks = append(shrinks, sh)
					return false
				}
			}
			return true
		})
	}
	pkgs, err := parser.ParseDir(fset, filepath.Join(repo, "pkg/network"), func(fi os.FileInfo) bool {
		return !strings.HasSuffix(fi.Name(), "_test.go")
	}, 0)
	if err != nil {
		return nil, nil, err
	}
	var stray []string
	for _, p := range pkgs {
		var names []string
		for n := range p.Files {
			names = append(names, n)
		}
		sort.Strings(names)
		for _, n := range names {
			for _, d := range p.Files[n].Decls {
				fd, ok := d.(*ast.FuncDecl)
				if !ok || fd.Body == nil {
					continue
				}
				ast.Inspect(fd.Body, func(m ast.Node) bool {
					if x, ok := m.(*ast.IfStmt); ok {
						if _, err := c07cShrinkIf(x); err == nil {
							return false
						}
					}
					ce, ok := m.(*ast.CallExpr)
					if !ok {
						return true
					}
					se, ok := ce.Fun.(*ast.SelectorExpr)
					if !ok {
						return true
					}
					in, ok := se.X.(*ast.SelectorExpr)
					if !ok || in.Sel.Name != "readBuffer" {
						return true
					}
					switch se.Sel.Name {
					case "Free", "Alloc", "Reset", "Drain", "Cut", "Read", "ReadByte", "ReadOnce", "ReadFrom", "Restore", "SetEOF":
						if se.Sel.Name == "ReadOnce" && fd.Name.Name == "doRead" {
							return true
						}
						stray = append(stray, filepath.Base(n)+":"+fd.Name.Name+":"+se.Sel.Name)
					}
					return true
				})
			}
		}
	}
	return shrinks, stray, nil
}

func genC07Conn() (string, error) {
	f, err := parse(c07cFile)
	if err != nil {
		return "", err
	}
	dflt, err := intConst("pkg/network", "DefaultReadBufferSize")
	if err != nil {
		return "", err
	}
	loop := findFunc(f, "connection", "startReadLoop")
	dr := findFunc(f, "connection", "doRead")
	or := findFunc(f, "connection", "onRead")
	if loop == nil || dr == nil || or == nil {
		return "", fmt.Errorf("connection.startReadLoop / doRead / onRead not found")
	}
	for _, fd := range []*ast.FuncDecl{loop, dr, or} {
		if len(fd.Recv.List[0].Names) != 1 || fd.Recv.List[0].Names[0].Name != "c" {
			return "", c07cBad(fd, "receiver is not named c")
		}
	}
	shrinks, closeFn, err := c07cLoop(loop)
	if err != nil {
		return "", err
	}
	drBody, alloc, notified, err := c07cDoRead(dr)
	if err != nil {
		return "", err
	}
	orBody, err := c07cOnRead(or)
	if err != nil {
		return "", err
	}
	// uses of c.readBuffer outside the recognised shrink statements of the timeout branch
	skip := map[ast.Node]bool{}
	ast.Inspect(loop.Body, func(n ast.Node) bool {
		if x, ok := n.(*ast.IfStmt); ok && c07cIsTimeoutIf(x) {
			for _, st := range x.Body.List {
				if _, err := c07cShrinkIf(st); err == nil {
					skip[st] = true
				}
			}
		}
		return true
	})
	others, stray, err := c07cOtherShrinks(f, loop)
	if err != nil {
		return "", err
	}
	var uses []string
	for _, fd := range []*ast.FuncDecl{loop, dr, or} {
		uses = append(uses, c07cUses(fd, skip)...)
	}

	s := header("ReadLoopConn", c07cFile+" (startReadLoop, doRead, onRead)")
	s += fmt.Sprintf("/-- `DefaultReadBufferSize` -/\ndef defaultReadBufferSize : Int := %d\n\n", dflt)
	s += "/-- what `ReadOnce` returned besides the byte count, as the read loop distinguishes it: nil, a `net.Error` with\n`Timeout()`, `io.EOF`, anything else (fixed text of the extractor). -/\n"
	s += "inductive ErrKind where\n  | none | timeout | eof | other\nderiving DecidableEq, Repr, Inhabited\n\n"
	s += "/-- connection events of `c.Close` (fixed text of the extractor). -/\n"
	s += "inductive CloseEv where\n  | remoteClose | onReadErrClose | localClose | other\nderiving DecidableEq, Repr, Inhabited\n\n"
	s += "/-- one `if COND { c.readBuffer.Free(); c.readBuffer.Alloc(E) }` of the timeout branch: COND over (c.network,\nc.readBuffer != nil, Len(), Cap(), c.defaultReadBufferSize), E over c.defaultReadBufferSize. -/\n"
	s += "structure Shrink where\n  cond : String → Bool → Int → Int → Int → Bool\n  size : Int → Int\n\n"
	var names []string
	for i, sh := range shrinks {
		s += fmt.Sprintf("def timeoutShrinkCond%d (network : String) (allocated : Bool) (len cap dflt : Int) : Bool :=\n  %s\n", i, sh.cond)
		s += fmt.Sprintf("def timeoutShrinkSize%d (dflt : Int) : Int :=\n  %s\n\n", i, sh.size)
		names = append(names, fmt.Sprintf("⟨timeoutShrinkCond%d, timeoutShrinkSize%d⟩", i, i))
	}
	s += "/-- startReadLoop, `doRead` returned a timeout: these re-allocations in source order, then `continue`. -/\n"
	s += "def timeoutShrinks : List Shrink := [" + strings.Join(names, ", ") + "]\n\n"
	var onames []string
	for i, sh := range others {
		s += fmt.Sprintf("def netpollShrinkCond%d (network : String) (allocated : Bool) (len cap dflt : Int) : Bool :=\n  %s\n", i, sh.cond)
		s += fmt.Sprintf("def netpollShrinkSize%d (dflt : Int) : Int :=\n  %s\n\n", i, sh.size)
		onames = append(onames, fmt.Sprintf("⟨netpollShrinkCond%d, netpollShrinkSize%d⟩", i, i))
	}
	s += "/-- the same statement in the other functions of connection.go (netpoll mode: read-timeout timer, event-loop onRead). -/\n"
	s += "def netpollShrinks : List Shrink := [" + strings.Join(onames, ", ") + "]\n\n"
	var sq []string
	for _, u := range stray {
		sq = append(sq, fmt.Sprintf("%q", u))
	}
	s += "/-- calls that discard / consume a `readBuffer` in the non-test files of pkg/network outside those statements and\noutside doRead's `ReadOnce` (file:function:method). -/\n"
	s += "def strayBufferCalls : List String := [" + strings.Join(sq, ", ") + "]\n\n"
	s += "/-- startReadLoop, `doRead` returned any other error: `c.Close(api.NoFlush, <event>)`, then `return`. -/\n"
	s += "def closeOnErr (err : ErrKind) : CloseEv :=\n  " + closeFn + "\n\n"
	s += "/-- doRead: size of the first allocation of the read buffer (tcp / unix). -/\n"
	s += "def firstAllocSize (dflt : Int) : Int :=\n  " + alloc + "\n\n"
	s += fmt.Sprintf("/-- doRead after `bytesRead, err = c.readBuffer.ReadOnce(c.rawConnection)`: (was `c.onRead(bytesRead)` reached, the error\nreturned to the loop). `closedWord` = atomic load of c.closed. %d listener-notification loop(s) dropped. -/\n", notified)
	s += "def doReadAfter (closedWord : Int) (err : ErrKind) (bytesRead : Int) : Bool × ErrKind :=\n  let dispatched := false\n  " + drBody + "\n\n"
	s += "/-- onRead: is `c.filterManager.OnRead()` reached (`len` = c.readBuffer.Len()). -/\n"
	s += "def onReadDispatches (readEnabled : Bool) (len : Int) : Bool :=\n  let dispatched := false\n  " + orBody + "\n\n"
	var q []string
	for _, u := range uses {
		i := strings.Index(u, ":")
		q = append(q, fmt.Sprintf("(%q, %q)", u[:i], u[i+1:]))
	}
	s += "/-- every use of `c.readBuffer` in startReadLoop, doRead, onRead outside the re-allocations above, in source order:\n(function, method called / `assign` / `nilcheck` / `escape`). -/\n"
	s += "def readBufferUses : List (String × String) := [" + strings.Join(q, ", ") + "]\n"
	s += footer("ReadLoopConn")
	return s, nil
}
