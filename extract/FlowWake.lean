-- translation-unsupported FlowWake: open -out/pkg/module/http2/mhttp2.go: no such file or directory
namespace MosnVerif.Gen.FlowWake
end MosnVerif.Gen.FlowWake
