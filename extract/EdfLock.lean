-- translation-unsupported EdfLock: open -out/pkg/upstream/cluster/edf.go: no such file or directory
namespace MosnVerif.Gen.EdfLock
end MosnVerif.Gen.EdfLock
