package main

import (
	"fmt"
	"go/ast"
	"go/token"
	"strconv"
	"strings"
)

func init() {
	register("Flow", genFlow)
}

// ---------------------------------------------------------------------------------------------------------
// Gen.Flow: pkg/module/http2/flow.go (flow.available / take / add) with int32 semantics, the window computation of
// the two awaitFlowControl loops of mhttp2.go, the DATA split constant of MFramer.writeData, the initial constants.
//
// Integer typing (recorded choice): values are unbounded `Int`; every arithmetic result of Go type int32 is passed
// through `wrap32` (two's-complement wrap into [-2^31, 2^31)), as is every conversion `int32(x)`. `int(x)` is the
// identity (64-bit int, operands are int32 / slice lengths).

const wrap32Def = `/-- Go int32 arithmetic: the two's-complement representative of x in [-2^31, 2^31). -/
def wrap32 (x : Int) : Int := (x + 2147483648) % 4294967296 - 2147483648
`

func arith32(op, l, r string) string { return "(wrap32 (" + l + " " + op + " " + r + "))" }

func flowEnv(recv string) *Env {
	return &Env{
		Names: map[string]string{
			recv + ".n":           "f_n",
			recv + ".conn":        "hasConn", // pointer modelled by its nil-ness
			"nil":                 "false",
			recv + ".conn.n":      "conn_n",
			"n":                   "n",
			recv + ".available()": "(available f_n hasConn conn_n)",
		},
		Calls: map[string]string{"int32": "wrap32"},
		Arith: arith32,
	}
}

func recvName(fd *ast.FuncDecl) string {
	if fd.Recv != nil && len(fd.Recv.List) > 0 && len(fd.Recv.List[0].Names) > 0 {
		return fd.Recv.List[0].Names[0].Name
	}
	return "_"
}

// takeBlock extracts from an awaitFlowControl method the `if a := <x>.flow.available(); a > 0 { … }` statement and
// translates (1) its condition and (2) its body up to the `<x>.flow.take(take); return take, nil` tail.
func takeBlock(fd *ast.FuncDecl, prefix string) (string, error) {
	var ifs *ast.IfStmt
	ast.Inspect(fd.Body, func(n ast.Node) bool {
		if s, ok := n.(*ast.IfStmt); ok && s.Init != nil && ifs == nil {
			if as, ok := s.Init.(*ast.AssignStmt); ok && len(as.Rhs) == 1 {
				if c, ok := as.Rhs[0].(*ast.CallExpr); ok && strings.HasSuffix(exprKey(c.Fun), ".flow.available") {
					ifs = s
				}
			}
		}
		return true
	})
	if ifs == nil {
		return "", fmt.Errorf("%s: `if a := ….flow.available(); …` not found", fd.Name.Name)
	}
	as := ifs.Init.(*ast.AssignStmt)
	aName := exprKey(as.Lhs[0])
	if len(fd.Type.Params.List) != 1 || len(fd.Type.Params.List[0].Names) != 1 {
		return "", fmt.Errorf("%s: unexpected parameters", fd.Name.Name)
	}
	maxBytes := fd.Type.Params.List[0].Names[0].Name
	// locate the connection variable: `cc := <recv>.conn`
	connVar := ""
	for _, st := range fd.Body.List {
		if a, ok := st.(*ast.AssignStmt); ok && a.Tok == token.DEFINE && len(a.Lhs) == 1 && strings.HasSuffix(exprKey(a.Rhs[0]), ".conn") {
			connVar = exprKey(a.Lhs[0])
		}
	}
	if connVar == "" {
		return "", fmt.Errorf("%s: connection variable not found", fd.Name.Name)
	}
	env := &Env{
		Names: map[string]string{aName: "a", maxBytes: "maxBytes", connVar + ".maxFrameSize": "maxFrameSize"},
		Calls: map[string]string{"int32": "wrap32", "int": ""},
		Arith: arith32,
		Ret: func(rs []string) string {
			if len(rs) != 2 || rs[1] != "NIL" {
				return "ERR_unexpected_return"
			}
			return rs[0]
		},
		Fall: "ERR_falls_through",
	}
	cond, err := env.expr(ifs.Cond)
	if err != nil {
		return "", err
	}
	// body: drop exactly one `<x>.flow.take(<v>)` statement, which must directly precede `return <v>, nil`
	var stmts []ast.Stmt
	body := ifs.Body.List
	if len(body) < 2 {
		return "", fmt.Errorf("%s: body too short", fd.Name.Name)
	}
	ret, ok := body[len(body)-1].(*ast.ReturnStmt)
	if !ok || len(ret.Results) != 2 || exprKey(ret.Results[1]) != "nil" {
		return "", fmt.Errorf("%s: body does not end in `return v, nil`", fd.Name.Name)
	}
	es, ok := body[len(body)-2].(*ast.ExprStmt)
	if !ok {
		return "", fmt.Errorf("%s: flow.take call not found before return", fd.Name.Name)
	}
	call, ok := es.X.(*ast.CallExpr)
	if !ok || !strings.HasSuffix(exprKey(call.Fun), ".flow.take") || len(call.Args) != 1 || exprKey(call.Args[0]) != exprKey(ret.Results[0]) {
		return "", fmt.Errorf("%s: expected `x.flow.take(v); return v, nil`", fd.Name.Name)
	}
	stmts = append(stmts, body[:len(body)-2]...)
	stmts = append(stmts, ret)
	env.Names["nil"] = "NIL"
	b, err := env.block(stmts, "  ")
	if err != nil {
		return "", err
	}
	if strings.Contains(b, "ERR_") {
		return "", fmt.Errorf("%s: unsupported control flow in the take computation", fd.Name.Name)
	}
	s := "/-- guard of the send branch of " + fd.Name.Name + " (`a` = flow.available()) -/\n"
	s += "def " + prefix + "Enabled (a : Int) : Bool := " + cond + "\n"
	s += "/-- bytes taken by one pass of " + fd.Name.Name + ": `a` = available window, `maxBytes` = len(remain), `maxFrameSize` = peer SETTINGS_MAX_FRAME_SIZE as stored -/\n"
	s += "def " + prefix + "Take (a maxBytes maxFrameSize : Int) : Int :=\n  " + b + "\n"
	return s, nil
}

// localIntConst finds `const name = <int literal>` declared inside a function body.
func localIntConst(fd *ast.FuncDecl, name string) (int64, error) {
	var out *int64
	ast.Inspect(fd.Body, func(n ast.Node) bool {
		if vs, ok := n.(*ast.ValueSpec); ok {
			for i, id := range vs.Names {
				if id.Name == name && i < len(vs.Values) {
					if bl, ok := vs.Values[i].(*ast.BasicLit); ok && bl.Kind == token.INT {
						if v, err := strconv.ParseInt(bl.Value, 0, 64); err == nil {
							out = &v
						}
					}
				}
			}
		}
		return true
	})
	if out == nil {
		return 0, fmt.Errorf("local constant %s not found in %s", name, fd.Name.Name)
	}
	return *out, nil
}

// fieldInit finds `<recv>.<field> = <const expr>` in a constructor and evaluates int literals / `a << b`.
func fieldInit(fd *ast.FuncDecl, key string) (int64, error) {
	var out *int64
	ast.Inspect(fd.Body, func(n ast.Node) bool {
		if a, ok := n.(*ast.AssignStmt); ok && len(a.Lhs) == 1 && len(a.Rhs) == 1 && exprKey(a.Lhs[0]) == key {
			if v, ok := evalInt(a.Rhs[0]); ok {
				out = &v
			}
		}
		return true
	})
	if out == nil {
		return 0, fmt.Errorf("initialisation of %s not found in %s", key, fd.Name.Name)
	}
	return *out, nil
}

func evalInt(e ast.Expr) (int64, bool) {
	switch x := e.(type) {
	case *ast.BasicLit:
		if x.Kind == token.INT {
			v, err := strconv.ParseInt(x.Value, 0, 64)
			return v, err == nil
		}
	case *ast.ParenExpr:
		return evalInt(x.X)
	case *ast.BinaryExpr:
		l, ok1 := evalInt(x.X)
		r, ok2 := evalInt(x.Y)
		if ok1 && ok2 {
			switch x.Op {
			case token.SHL:
				return l << uint(r), true
			case token.ADD:
				return l + r, true
			case token.SUB:
				return l - r, true
			case token.MUL:
				return l * r, true
			}
		}
	}
	return 0, false
}

func genFlow() (string, error) {
	const src = "pkg/module/http2/flow.go"
	const msrc = "pkg/module/http2/mhttp2.go"
	f, err := parse(src)
	if err != nil {
		return "", err
	}
	s := header("Flow", src, msrc+" (awaitFlowControl ×2, MFramer.writeData, NewClientConn/NewServerConn)")
	s += wrap32Def

	// available
	fd := findFunc(f, "flow", "available")
	if fd == nil {
		return "", fmt.Errorf("flow.available not found")
	}
	env := flowEnv(recvName(fd))
	env.Ret = func(rs []string) string {
		if len(rs) != 1 {
			return "ERR"
		}
		return rs[0]
	}
	env.Fall = "ERR_falls_through"
	b, err := env.block(fd.Body.List, "  ")
	if err != nil {
		return "", fmt.Errorf("available: %v", err)
	}
	s += "/-- flow.available(): `hasConn` = (f.conn != nil), `conn_n` = f.conn.n -/\n"
	s += "def available (f_n : Int) (hasConn : Bool) (conn_n : Int) : Int :=\n  " + b + "\n"

	// take
	fd = findFunc(f, "flow", "take")
	if fd == nil {
		return "", fmt.Errorf("flow.take not found")
	}
	env = flowEnv(recvName(fd))
	if len(fd.Type.Params.List) != 1 || len(fd.Type.Params.List[0].Names) != 1 {
		return "", fmt.Errorf("flow.take parameters")
	}
	env.Names[fd.Type.Params.List[0].Names[0].Name] = "n"
	env.Ret = func(rs []string) string { return "ERR" }
	env.Fall = "some (f_n, conn_n)"
	env.Panic = "none"
	b, err = env.block(fd.Body.List, "  ")
	if err != nil {
		return "", fmt.Errorf("take: %v", err)
	}
	s += "/-- flow.take(n): new (f.n, f.conn.n); `none` = panic(\"took too much\") -/\n"
	s += "def take (f_n : Int) (hasConn : Bool) (conn_n : Int) (n : Int) : Option (Int × Int) :=\n  " + b + "\n"

	// add
	fd = findFunc(f, "flow", "add")
	if fd == nil {
		return "", fmt.Errorf("flow.add not found")
	}
	env = flowEnv(recvName(fd))
	env.Names[fd.Type.Params.List[0].Names[0].Name] = "n"
	env.Ret = func(rs []string) string {
		if len(rs) != 1 {
			return "ERR"
		}
		return "(f_n, " + rs[0] + ")"
	}
	env.Fall = "ERR_falls_through"
	b, err = env.block(fd.Body.List, "  ")
	if err != nil {
		return "", fmt.Errorf("add: %v", err)
	}
	s += "/-- flow.add(n): (new f.n, returned bool) -/\n"
	s += "def add (f_n : Int) (n : Int) : Int × Bool :=\n  " + b + "\n"
	if strings.Contains(s, "ERR") {
		return "", fmt.Errorf("flow.go: unsupported control flow")
	}

	// awaitFlowControl ×2
	mf, err := parse(msrc)
	if err != nil {
		return "", err
	}
	for _, p := range []struct{ recv, prefix string }{{"MClientStream", "client"}, {"MStream", "server"}} {
		fd = findFunc(mf, p.recv, "awaitFlowControl")
		if fd == nil {
			return "", fmt.Errorf("%s.awaitFlowControl not found", p.recv)
		}
		t, err := takeBlock(fd, p.prefix)
		if err != nil {
			return "", err
		}
		s += t
	}
	// MFramer.writeData split constant
	fd = findFunc(mf, "MFramer", "writeData")
	if fd == nil {
		return "", fmt.Errorf("MFramer.writeData not found")
	}
	c, err := localIntConst(fd, "maxFrameSize")
	if err != nil {
		return "", err
	}
	s += fmt.Sprintf("/-- MFramer.writeData splits a taken chunk into DATA frames of at most this many bytes -/\ndef writeDataSplit : Nat := %d\n", c)
	// initial values
	iw, err := intConst("pkg/module/http2", "initialWindowSize")
	if err != nil {
		return "", err
	}
	imf, err := intConst("pkg/module/http2", "initialMaxFrameSize")
	if err != nil {
		return "", err
	}
	s += fmt.Sprintf("def initialWindowSize : Int := %d\ndef initialMaxFrameSize : Int := %d\n", iw, imf)
	fd = findFunc(mf, "", "NewClientConn")
	if fd == nil {
		return "", fmt.Errorf("NewClientConn not found")
	}
	cmf, err := fieldInit(fd, "cc.maxFrameSize")
	if err != nil {
		return "", err
	}
	ciw, err := fieldInit(fd, "cc.initialWindowSize")
	if err != nil {
		return "", err
	}
	s += fmt.Sprintf("/-- NewClientConn: cc.maxFrameSize, cc.initialWindowSize (the connection window is `flow.add(initialWindowSize)`) -/\ndef clientMaxFrameSize : Int := %d\ndef clientInitialWindowSize : Int := %d\n", cmf, ciw)
	s += footer("Flow")
	return s, nil
}
