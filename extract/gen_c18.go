package main

import (
	"fmt"
	"go/ast"
	"go/token"
	"strconv"
	"strings"
)

func init() {
	register("Flow", genFlow)
}

// ---------------------------------------------------------------------------------------------------------
// Gen.Flow: pkg/module/http2/flow.go (flow.available / take / add) with int32 semantics, the window computation of
// the two awaitFlowControl loops of mhttp2.go, the DATA split constant of MFramer.writeData, the initial constants.
//
// Integer typing (recorded choice): values are unbounded `Int`; every arithmetic result of Go type int32 is passed
// through `wrap32` (two's-complement wrap into [-2^31, 2^31)), as is every conversion `int32(x)`. `int(x)` is the
// identity (64-bit int, operands are int32 / slice lengths).

const wrap32Def = `/-- Go int32 arithmetic: the two's-complement representative of x in [-2^31, 2^31). -/
def wrap32 (x : Int) : Int := (x + 2147483648) % 4294967296 - 2147483648
`

func arith32(op, l, r string) string { return "(wrap32 (" + l + " " + op + " " + r + "))" }

func flowEnv(recv string) *Env {
	return &Env{
		Names: map[string]string{
			recv + ".n":           "f_n",
			recv + ".conn":        "hasConn", // pointer modelled by its nil-ness
			"nil":                 "false",
			recv + ".conn.n":      "conn_n",
			"n":                   "n",
			recv + ".available()": "(available f_n hasConn conn_n)",
		},
		Calls: map[string]string{"int32": "wrap32"},
		Arith: arith32,
	}
}

func h2RecvName(fd *ast.FuncDecl) string {
	if fd.Recv != nil && len(fd.Recv.List) > 0 && len(fd.Recv.List[0].Names) > 0 {
		return fd.Recv.List[0].Names[0].Name
	}
	return "_"
}

// takeBlock extracts from an awaitFlowControl method the `if a := <x>.flow.available(); a > 0 { … }` statement and
// translates (1) its condition and (2) its body up to the `<x>.flow.take(take); return take, nil` tail.
func takeBlock(fd *ast.FuncDecl, prefix string) (string, error) {
	var ifs *ast.IfStmt
	ast.Inspect(fd.Body, func(n ast.Node) bool {
		if s, ok := n.(*ast.IfStmt); ok && s.Init != nil && ifs == nil {
			if as, ok := s.Init.(*ast.AssignStmt); ok && len(as.Rhs) == 1 {
				if c, ok := as.Rhs[0].(*ast.CallExpr); ok && strings.HasSuffix(exprKey(c.Fun), ".flow.available") {
					ifs = s
				}
			}
		}
		return true
	})
	if ifs == nil {
		return "", fmt.Errorf("%s: `if a := ….flow.available(); …` not found", fd.Name.Name)
	}
	as := ifs.Init.(*ast.AssignStmt)
	aName := exprKey(as.Lhs[0])
	if len(fd.Type.Params.List) != 1 || len(fd.Type.Params.List[0].Names) != 1 {
		return "", fmt.Errorf("%s: unexpected parameters", fd.Name.Name)
	}
	maxBytes := fd.Type.Params.List[0].Names[0].Name
	// locate the connection variable: `cc := <recv>.conn`
	connVar := ""
	for _, st := range fd.Body.List {
		if a, ok := st.(*ast.AssignStmt); ok && a.Tok == token.DEFINE && len(a.Lhs) == 1 && strings.HasSuffix(exprKey(a.Rhs[0]), ".conn") {
			connVar = exprKey(a.Lhs[0])
		}
	}
	if connVar == "" {
		return "", fmt.Errorf("%s: connection variable not found", fd.Name.Name)
	}
	env := &Env{
		Names: map[string]string{aName: "a", maxBytes: "maxBytes", connVar + ".maxFrameSize": "maxFrameSize"},
		Calls: map[string]string{"int32": "wrap32", "int": ""},
		Arith: arith32,
		Ret: func(rs []string) string {
			if len(rs) != 2 || rs[1] != "NIL" {
				return "ERR_unexpected_return"
			}
			return rs[0]
		},
		Fall: "ERR_falls_through",
	}
	cond, err := env.expr(ifs.Cond)
	if err != nil {
		return "", err
	}
	// body: drop exactly one `<x>.flow.take(<v>)` statement, which must directly precede `return <v>, nil`
	var stmts []ast.Stmt
	body := ifs.Body.List
	if len(body) < 2 {
		return "", fmt.Errorf("%s: body too short", fd.Name.Name)
	}
	ret, ok := body[len(body)-1].(*ast.ReturnStmt)
	if !ok || len(ret.Results) != 2 || exprKey(ret.Results[1]) != "nil" {
		return "", fmt.Errorf("%s: body does not end in `return v, nil`", fd.Name.Name)
	}
	es, ok := body[len(body)-2].(*ast.ExprStmt)
	if !ok {
		return "", fmt.Errorf("%s: flow.take call not found before return", fd.Name.Name)
	}
	call, ok := es.X.(*ast.CallExpr)
	if !ok || !strings.HasSuffix(exprKey(call.Fun), ".flow.take") || len(call.Args) != 1 || exprKey(call.Args[0]) != exprKey(ret.Results[0]) {
		return "", fmt.Errorf("%s: expected `x.flow.take(v); return v, nil`", fd.Name.Name)
	}
	stmts = append(stmts, body[:len(body)-2]...)
	stmts = append(stmts, ret)
	env.Names["nil"] = "NIL"
	b, err := env.block(stmts, "  ")
	if err != nil {
		return "", err
	}
	if strings.Contains(b, "ERR_") {
		return "", fmt.Errorf("%s: unsupported control flow in the take computation", fd.Name.Name)
	}
	s := "/-- guard of the send branch of " + fd.Name.Name + " (`a` = flow.available()) -/\n"
	s += "def " + prefix + "Enabled (a : Int) : Bool := " + cond + "\n"
	s += "/-- bytes taken by one pass of " + fd.Name.Name + ": `a` = available window, `maxBytes` = len(remain), `maxFrameSize` = peer SETTINGS_MAX_FRAME_SIZE as stored -/\n"
	s += "def " + prefix + "Take (a maxBytes maxFrameSize : Int) : Int :=\n  " + b + "\n"
	return s, nil
}

// localIntConst finds `const name = <int literal>` declared inside a function body.
func localIntConst(fd *ast.FuncDecl, name string) (int64, error) {
	var out *int64
	ast.Inspect(fd.Body, func(n ast.Node) bool {
		if vs, ok := n.(*ast.ValueSpec); ok {
			for i, id := range vs.Names {
				if id.Name == name && i < len(vs.Values) {
					if bl, ok := vs.Values[i].(*ast.BasicLit); ok && bl.Kind == token.INT {
						if v, err := strconv.ParseInt(bl.Value, 0, 64); err == nil {
							out = &v
						}
					}
				}
			}
		}
		return true
	})
	if out == nil {
		return 0, fmt.Errorf("local constant %s not found in %s", name, fd.Name.Name)
	}
	return *out, nil
}

// fieldInit finds `<recv>.<field> = <const expr>` in a constructor and evaluates int literals / `a << b`.
func fieldInit(fd *ast.FuncDecl, key string) (int64, error) {
	var out *int64
	ast.Inspect(fd.Body, func(n ast.Node) bool {
		if a, ok := n.(*ast.AssignStmt); ok && len(a.Lhs) == 1 && len(a.Rhs) == 1 && exprKey(a.Lhs[0]) == key {
			if v, ok := evalInt(a.Rhs[0]); ok {
				out = &v
			}
		}
		return true
	})
	if out == nil {
		return 0, fmt.Errorf("initialisation of %s not found in %s", key, fd.Name.Name)
	}
	return *out, nil
}

func evalInt(e ast.Expr) (int64, bool) {
	switch x := e.(type) {
	case *ast.BasicLit:
		if x.Kind == token.INT {
			v, err := strconv.ParseInt(x.Value, 0, 64)
			return v, err == nil
		}
	case *ast.ParenExpr:
		return evalInt(x.X)
	case *ast.BinaryExpr:
		l, ok1 := evalInt(x.X)
		r, ok2 := evalInt(x.Y)
		if ok1 && ok2 {
			switch x.Op {
			case token.SHL:
				return l << uint(r), true
			case token.ADD:
				return l + r, true
			case token.SUB:
				return l - r, true
			case token.MUL:
				return l * r, true
			}
		}
	}
	return 0, false
}

func genFlow() (string, error) {
	const src = "pkg/module/http2/flow.go"
	const msrc = "pkg/module/http2/mhttp2.go"
	f, err := parse(src)
	if err != nil {
		return "", err
	}
	s := header("Flow", src, msrc+" (awaitFlowControl ×2, MFramer.writeData, NewClientConn/NewServerConn)")
	s += wrap32Def

	// available
	fd := findFunc(f, "flow", "available")
	if fd == nil {
		return "", fmt.Errorf("flow.available not found")
	}
	env := flowEnv(h2RecvName(fd))
	env.Ret = func(rs []string) string {
		if len(rs) != 1 {
			return "ERR"
		}
		return rs[0]
	}
	env.Fall = "ERR_falls_through"
	b, err := env.block(fd.Body.List, "  ")
	if err != nil {
		return "", fmt.Errorf("available: %v", err)
	}
	s += "/-- flow.available(): `hasConn` = (f.conn != nil), `conn_n` = f.conn.n -/\n"
	s += "def available (f_n : Int) (hasConn : Bool) (conn_n : Int) : Int :=\n  " + b + "\n"

	// take
	fd = findFunc(f, "flow", "take")
	if fd == nil {
		return "", fmt.Errorf("flow.take not found")
	}
	env = flowEnv(h2RecvName(fd))
	if len(fd.Type.Params.List) != 1 || len(fd.Type.Params.List[0].Names) != 1 {
		return "", fmt.Errorf("flow.take parameters")
	}
	env.Names[fd.Type.Params.List[0].Names[0].Name] = "n"
	env.Ret = func(rs []string) string { return "ERR" }
	env.Fall = "some (f_n, conn_n)"
	env.Panic = "none"
	b, err = env.block(fd.Body.List, "  ")
	if err != nil {
		return "", fmt.Errorf("take: %v", err)
	}
	s += "/-- flow.take(n): new (f.n, f.conn.n); `none` = panic(\"took too much\") -/\n"
	s += "def take (f_n : Int) (hasConn : Bool) (conn_n : Int) (n : Int) : Option (Int × Int) :=\n  " + b + "\n"

	// add
	fd = findFunc(f, "flow", "add")
	if fd == nil {
		return "", fmt.Errorf("flow.add not found")
	}
	env = flowEnv(h2RecvName(fd))
	env.Names[fd.Type.Params.List[0].Names[0].Name] = "n"
	env.Ret = func(rs []string) string {
		if len(rs) != 1 {
			return "ERR"
		}
		return "(f_n, " + rs[0] + ")"
	}
	env.Fall = "ERR_falls_through"
	b, err = env.block(fd.Body.List, "  ")
	if err != nil {
		return "", fmt.Errorf("add: %v", err)
	}
	s += "/-- flow.add(n): (new f.n, returned bool) -/\n"
	s += "def add (f_n : Int) (n : Int) : Int × Bool :=\n  " + b + "\n"
	if strings.Contains(s, "ERR") {
		return "", fmt.Errorf("flow.go: unsupported control flow")
	}

	// awaitFlowControl ×2
	mf, err := parse(msrc)
	if err != nil {
		return "", err
	}
	for _, p := range []struct{ recv, prefix string }{{"MClientStream", "client"}, {"MStream", "server"}} {
		fd = findFunc(mf, p.recv, "awaitFlowControl")
		if fd == nil {
			return "", fmt.Errorf("%s.awaitFlowControl not found", p.recv)
		}
		t, err := takeBlock(fd, p.prefix)
		if err != nil {
			return "", err
		}
		s += t
	}
	// MFramer.writeData split constant
	fd = findFunc(mf, "MFramer", "writeData")
	if fd == nil {
		return "", fmt.Errorf("MFramer.writeData not found")
	}
	c, err := localIntConst(fd, "maxFrameSize")
	if err != nil {
		return "", err
	}
	s += fmt.Sprintf("/-- MFramer.writeData splits a taken chunk into DATA frames of at most this many bytes -/\ndef writeDataSplit : Nat := %d\n", c)
	// initial values
	iw, err := intConst("pkg/module/http2", "initialWindowSize")
	if err != nil {
		return "", err
	}
	imf, err := intConst("pkg/module/http2", "initialMaxFrameSize")
	if err != nil {
		return "", err
	}
	s += fmt.Sprintf("def initialWindowSize : Int := %d\ndef initialMaxFrameSize : Int := %d\n", iw, imf)
	fd = findFunc(mf, "", "NewClientConn")
	if fd == nil {
		return "", fmt.Errorf("NewClientConn not found")
	}
	cmf, err := fieldInit(fd, "cc.maxFrameSize")
	if err != nil {
		return "", err
	}
	ciw, err := fieldInit(fd, "cc.initialWindowSize")
	if err != nil {
		return "", err
	}
	s += fmt.Sprintf("/-- NewClientConn: cc.maxFrameSize, cc.initialWindowSize (the connection window is `flow.add(initialWindowSize)`) -/\ndef clientMaxFrameSize : Int := %d\ndef clientInitialWindowSize : Int := %d\n", cmf, ciw)
	s += footer("Flow")
	return s, nil
}

// ---------------------------------------------------------------------------------------------------------
// Gen.Hpack: constants and tables of pkg/module/http2/hpack.

func init() { register("Hpack", genHpack) }

func genHpack() (string, error) {
	const dir = "pkg/module/http2/hpack"
	hf, err := parse(dir + "/hpack.go")
	if err != nil {
		return "", err
	}
	s := header("Hpack", dir+"/hpack.go (readVarInt)", dir+"/tables.go (staticTableEntries, huffmanCodes, huffmanCodeLen)", dir+"/encode.go")
	// readVarInt: `m += <step>` and `if m >= <limit>`
	fd := findFunc(hf, "", "readVarInt")
	if fd == nil {
		return "", fmt.Errorf("readVarInt not found")
	}
	var limit, stepv int64 = -1, -1
	var bad error
	ast.Inspect(fd.Body, func(n ast.Node) bool {
		switch x := n.(type) {
		case *ast.IfStmt:
			if be, ok := x.Cond.(*ast.BinaryExpr); ok && exprKey(be.X) == "m" {
				if be.Op != token.GEQ {
					bad = fmt.Errorf("readVarInt: overflow guard is `m %s …`, expected `>=`", be.Op)
				}
				if v, ok := evalInt(be.Y); ok {
					limit = v
				}
			}
		case *ast.AssignStmt:
			if len(x.Lhs) == 1 && exprKey(x.Lhs[0]) == "m" && x.Tok == token.ADD_ASSIGN {
				if v, ok := evalInt(x.Rhs[0]); ok {
					stepv = v
				}
			}
		}
		return true
	})
	if bad != nil {
		return "", bad
	}
	if limit < 0 || stepv < 0 {
		return "", fmt.Errorf("readVarInt: shift limit / step not found")
	}
	s += fmt.Sprintf("/-- readVarInt: `m += %d; if m >= %d { return errVarintOverflow }` -/\ndef varintShiftLimit : Nat := %d\ndef varintShiftStep : Nat := %d\n", stepv, limit, limit, stepv)
	ihts, err := intConst(dir, "initialHeaderTableSize")
	if err != nil {
		return "", err
	}
	s += fmt.Sprintf("def initialHeaderTableSize : Nat := %d\n", ihts)

	tf, err := parse(dir + "/tables.go")
	if err != nil {
		return "", err
	}
	var static, codes, lens *ast.CompositeLit
	for _, d := range tf.Decls {
		gd, ok := d.(*ast.GenDecl)
		if !ok {
			continue
		}
		for _, sp := range gd.Specs {
			vs, ok := sp.(*ast.ValueSpec)
			if !ok || len(vs.Names) != 1 || len(vs.Values) != 1 {
				continue
			}
			cl, ok := vs.Values[0].(*ast.CompositeLit)
			if !ok {
				continue
			}
			switch vs.Names[0].Name {
			case "staticTableEntries":
				static = cl
			case "huffmanCodes":
				codes = cl
			case "huffmanCodeLen":
				lens = cl
			}
		}
	}
	if static == nil || codes == nil || lens == nil {
		return "", fmt.Errorf("tables.go: staticTableEntries / huffmanCodes / huffmanCodeLen not found")
	}
	var ents []string
	for _, e := range static.Elts {
		cl, ok := e.(*ast.CompositeLit)
		if !ok {
			return "", fmt.Errorf("static table entry is not a composite literal")
		}
		name, value := `""`, `""`
		for _, kv := range cl.Elts {
			k, ok := kv.(*ast.KeyValueExpr)
			if !ok {
				return "", fmt.Errorf("static table entry without field names")
			}
			bl, ok := k.Value.(*ast.BasicLit)
			if !ok || bl.Kind != token.STRING {
				return "", fmt.Errorf("static table entry: non-literal field")
			}
			str, err := strconv.Unquote(bl.Value)
			if err != nil {
				return "", err
			}
			for _, c := range []byte(str) {
				if c < 0x20 || c > 0x7e || c == '"' || c == '\\' {
					return "", fmt.Errorf("static table entry: unsupported character")
				}
			}
			switch exprKey(k.Key) {
			case "Name":
				name = `"` + str + `"`
			case "Value":
				value = `"` + str + `"`
			default:
				return "", fmt.Errorf("static table entry: unexpected field %s", exprKey(k.Key))
			}
		}
		ents = append(ents, "("+name+", "+value+")")
	}
	s += "/-- the HPACK static table (RFC 7541 Appendix A), index 1 first -/\ndef staticTable : List (String × String) := [\n  " + strings.Join(ents, ",\n  ") + "]\n"
	ints := func(cl *ast.CompositeLit) ([]string, error) {
		var out []string
		for _, e := range cl.Elts {
			v, ok := evalInt(e)
			if !ok {
				return nil, fmt.Errorf("non-literal table element")
			}
			out = append(out, strconv.FormatInt(v, 10))
		}
		return out, nil
	}
	cs, err := ints(codes)
	if err != nil {
		return "", err
	}
	ls, err := ints(lens)
	if err != nil {
		return "", err
	}
	s += "/-- huffmanCodes[sym] (RFC 7541 Appendix B), as numbers -/\ndef huffmanCodes : List Nat := [" + strings.Join(cs, ", ") + "]\n"
	s += "/-- huffmanCodeLen[sym] in bits -/\ndef huffmanCodeLen : List Nat := [" + strings.Join(ls, ", ") + "]\n"
	s += footer("Hpack")
	return s, nil
}

// ---------------------------------------------------------------------------------------------------------
// Gen.H2Frame: the 9-byte frame header layout as read by MFramer.readFrameHeader and written by
// MFramer.startWrite/endWrite (mhttp2.go), frame type / flag constants, and the padding-length decisions of
// parseDataFrame / parseHeadersFrame (frame.go).

func init() { register("H2Frame", genH2Frame) }

// shiftOf recognises `uint32(buf[i])<<s`, `uint32(buf[i])`, `byte(x >> s)`, `byte(x)`; returns (index or -1, shift, inner name)
func idxShift(e ast.Expr) (idx int64, shift int64, inner string, ok bool) {
	shift = 0
	if be, isBin := e.(*ast.BinaryExpr); isBin && (be.Op == token.SHL || be.Op == token.SHR) {
		s, okS := evalInt(be.Y)
		if !okS {
			return 0, 0, "", false
		}
		shift = s
		e = be.X
	}
	if p, isP := e.(*ast.ParenExpr); isP {
		e = p.X
	}
	if c, isC := e.(*ast.CallExpr); isC && len(c.Args) == 1 {
		a := c.Args[0]
		if be, isBin := a.(*ast.BinaryExpr); isBin && be.Op == token.SHR {
			s, okS := evalInt(be.Y)
			if !okS {
				return 0, 0, "", false
			}
			return -1, s, exprKey(be.X), true
		}
		if ix, isIx := a.(*ast.IndexExpr); isIx {
			i, okI := evalInt(ix.Index)
			if !okI {
				return 0, 0, "", false
			}
			return i, shift, exprKey(ix.X), true
		}
		return -1, 0, exprKey(a), true
	}
	return 0, 0, "", false
}

func flattenOr(e ast.Expr) []ast.Expr {
	if p, ok := e.(*ast.ParenExpr); ok {
		return flattenOr(p.X)
	}
	if be, ok := e.(*ast.BinaryExpr); ok && be.Op == token.OR {
		return append(flattenOr(be.X), flattenOr(be.Y)...)
	}
	return []ast.Expr{e}
}

func genH2Frame() (string, error) {
	const dir = "pkg/module/http2"
	s := header("H2Frame", dir+"/mhttp2.go (MFramer.readFrameHeader/startWrite/endWrite)", dir+"/frame.go (constants, parseDataFrame, parseHeadersFrame)")
	for _, c := range []string{"frameHeaderLen", "FrameData", "FrameHeaders", "FramePriority", "FrameRSTStream", "FrameSettings",
		"FramePushPromise", "FramePing", "FrameGoAway", "FrameWindowUpdate", "FrameContinuation",
		"FlagDataEndStream", "FlagDataPadded", "FlagHeadersEndStream", "FlagHeadersEndHeaders", "FlagHeadersPadded",
		"FlagHeadersPriority", "FlagContinuationEndHeaders", "FlagSettingsAck"} {
		v, err := intConst(dir, c)
		if err != nil {
			return "", err
		}
		name := strings.ToLower(c[:1]) + c[1:]
		s += fmt.Sprintf("def %s : Nat := %d\n", name, v)
	}
	mf, err := parse(dir + "/mhttp2.go")
	if err != nil {
		return "", err
	}
	// --- read side
	fd := findFunc(mf, "MFramer", "readFrameHeader")
	if fd == nil {
		return "", fmt.Errorf("MFramer.readFrameHeader not found")
	}
	var lit *ast.CompositeLit
	ast.Inspect(fd.Body, func(n ast.Node) bool {
		if cl, ok := n.(*ast.CompositeLit); ok && exprKey(cl.Type) == "FrameHeader" && len(cl.Elts) > 0 {
			lit = cl
		}
		return true
	})
	if lit == nil {
		return "", fmt.Errorf("readFrameHeader: FrameHeader literal not found")
	}
	var lenLayout []string
	typeIdx, flagsIdx, sidStart, sidMask := int64(-1), int64(-1), int64(-1), int64(-1)
	for _, e := range lit.Elts {
		kv, ok := e.(*ast.KeyValueExpr)
		if !ok {
			return "", fmt.Errorf("readFrameHeader: positional literal")
		}
		switch exprKey(kv.Key) {
		case "Length":
			for _, t := range flattenOr(kv.Value) {
				i, sh, _, ok := idxShift(t)
				if !ok || i < 0 {
					return "", fmt.Errorf("readFrameHeader: unsupported Length term")
				}
				lenLayout = append(lenLayout, fmt.Sprintf("(%d, %d)", i, sh))
			}
		case "Type":
			i, _, _, ok := idxShift(kv.Value)
			if !ok {
				return "", fmt.Errorf("readFrameHeader: Type")
			}
			typeIdx = i
		case "Flags":
			i, _, _, ok := idxShift(kv.Value)
			if !ok {
				return "", fmt.Errorf("readFrameHeader: Flags")
			}
			flagsIdx = i
		case "StreamID":
			be, ok := kv.Value.(*ast.BinaryExpr)
			if !ok || be.Op != token.AND {
				return "", fmt.Errorf("readFrameHeader: StreamID is not `… & mask`")
			}
			m, ok := evalInt(be.Y)
			if !ok {
				return "", fmt.Errorf("readFrameHeader: StreamID mask")
			}
			sidMask = m
			c, ok := be.X.(*ast.CallExpr)
			if !ok || exprKey(c.Fun) != "binary.BigEndian.Uint32" || len(c.Args) != 1 {
				return "", fmt.Errorf("readFrameHeader: StreamID is not binary.BigEndian.Uint32(buf[k:])")
			}
			sl, ok := c.Args[0].(*ast.SliceExpr)
			if !ok || sl.Low == nil {
				return "", fmt.Errorf("readFrameHeader: StreamID slice")
			}
			st, ok := evalInt(sl.Low)
			if !ok {
				return "", fmt.Errorf("readFrameHeader: StreamID slice start")
			}
			sidStart = st
		}
	}
	if len(lenLayout) == 0 || typeIdx < 0 || flagsIdx < 0 || sidStart < 0 {
		return "", fmt.Errorf("readFrameHeader: incomplete layout")
	}
	s += "/-- readFrameHeader: Length = OR of buf[i] << s for these (i, s) -/\ndef readLengthLayout : List (Nat × Nat) := [" + strings.Join(lenLayout, ", ") + "]\n"
	s += fmt.Sprintf("def readTypeIdx : Nat := %d\ndef readFlagsIdx : Nat := %d\n/-- StreamID = BigEndian.Uint32(buf[readStreamIdx:]) & readStreamMask -/\ndef readStreamIdx : Nat := %d\ndef readStreamMask : Nat := %d\n", typeIdx, flagsIdx, sidStart, sidMask)
	// --- write side: startWrite literal []byte{0,0,0, byte(ftype), byte(flags), byte(streamID>>24), …}
	fd = findFunc(mf, "MFramer", "startWrite")
	if fd == nil {
		return "", fmt.Errorf("MFramer.startWrite not found")
	}
	lit = nil
	ast.Inspect(fd.Body, func(n ast.Node) bool {
		if cl, ok := n.(*ast.CompositeLit); ok && lit == nil {
			if at, ok := cl.Type.(*ast.ArrayType); ok && exprKey(at.Elt) == "byte" {
				lit = cl
			}
		}
		return true
	})
	if lit == nil {
		return "", fmt.Errorf("startWrite: header literal not found")
	}
	var wl []string
	for i, e := range lit.Elts {
		if v, ok := evalInt(e); ok {
			wl = append(wl, fmt.Sprintf("(%d, \"const\", %d)", i, v))
			continue
		}
		_, sh, inner, ok := idxShift(e)
		if !ok {
			return "", fmt.Errorf("startWrite: unsupported header byte %d", i)
		}
		wl = append(wl, fmt.Sprintf("(%d, \"%s\", %d)", i, inner, sh))
	}
	s += "/-- startWrite: header byte i = byte(<field> >> shift) -/\ndef writeLayout : List (Nat × String × Nat) := [" + strings.Join(wl, ", ") + "]\n"
	fd = findFunc(mf, "MFramer", "endWrite")
	if fd == nil {
		return "", fmt.Errorf("MFramer.endWrite not found")
	}
	var el []string
	var tooLarge int64 = -1
	ast.Inspect(fd.Body, func(n ast.Node) bool {
		switch x := n.(type) {
		case *ast.AssignStmt:
			if len(x.Lhs) == 1 && len(x.Rhs) == 1 {
				if ix, ok := x.Lhs[0].(*ast.IndexExpr); ok && exprKey(ix.X) == "header" {
					i, ok1 := evalInt(ix.Index)
					_, sh, inner, ok2 := idxShift(x.Rhs[0])
					if ok1 && ok2 && inner == "length" {
						el = append(el, fmt.Sprintf("(%d, %d)", i, sh))
					}
				}
			}
		case *ast.IfStmt:
			if be, ok := x.Cond.(*ast.BinaryExpr); ok && exprKey(be.X) == "length" && be.Op == token.GEQ {
				if v, ok := evalInt(be.Y); ok {
					tooLarge = v
				}
			}
		}
		return true
	})
	if len(el) == 0 || tooLarge < 0 {
		return "", fmt.Errorf("endWrite: length layout / size guard not found")
	}
	s += "/-- endWrite: header[i] = byte(length >> s); refused when length >= writeTooLarge -/\ndef writeLengthLayout : List (Nat × Nat) := [" + strings.Join(el, ", ") + "]\n"
	s += fmt.Sprintf("def writeTooLarge : Nat := %d\n", tooLarge)

	// --- padding decisions of frame.go
	ff, err := parse(dir + "/frame.go")
	if err != nil {
		return "", err
	}
	cond := func(fn, mustMention string, names map[string]string) (string, error) {
		fd := findFunc(ff, "", fn)
		if fd == nil {
			return "", fmt.Errorf("%s not found", fn)
		}
		var found ast.Expr
		for _, st := range fd.Body.List {
			if is, ok := st.(*ast.IfStmt); ok && is.Init == nil {
				txt := exprText(is.Cond)
				if strings.Contains(txt, mustMention) {
					found = is.Cond
				}
			}
		}
		if found == nil {
			return "", fmt.Errorf("%s: padding test not found", fn)
		}
		env := &Env{Names: names, Calls: map[string]string{"int": "", "len": ""}}
		return env.expr(found)
	}
	c1, err := cond("parseDataFrame", "padSize", map[string]string{"padSize": "padSize", "payload": "lenPayload"})
	if err != nil {
		return "", err
	}
	s += "/-- parseDataFrame: the padding-too-large test (`lenPayload` = len(payload) after the pad-length byte) -/\ndef dataPadTooBig (padSize lenPayload : Int) : Bool := " + c1 + "\n"
	c2, err := cond("parseHeadersFrame", "padLength", map[string]string{"padLength": "padLength", "p": "lenP"})
	if err != nil {
		return "", err
	}
	s += "/-- parseHeadersFrame: the padding test (`lenP` = len(p) after pad-length and priority fields) -/\ndef headersPadTooBig (lenP padLength : Int) : Bool := " + c2 + "\n"
	s += footer("H2Frame")
	return s, nil
}

func exprText(e ast.Expr) string {
	switch x := e.(type) {
	case *ast.BinaryExpr:
		return exprText(x.X) + x.Op.String() + exprText(x.Y)
	case *ast.CallExpr:
		var a []string
		for _, arg := range x.Args {
			a = append(a, exprText(arg))
		}
		return exprText(x.Fun) + "(" + strings.Join(a, ",") + ")"
	case *ast.ParenExpr:
		return "(" + exprText(x.X) + ")"
	case *ast.BasicLit:
		return x.Value
	}
	return exprKey(e)
}
