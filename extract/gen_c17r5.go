package main

// C17, route finalisation: the WHOLE decision structure of RouteRuleImplBase.finalizePathHeader and
// RouteRuleImplBase.finalizeRequestHeaders (pkg/router/base_rule.go), statement by statement, as state-passing Lean
// functions over an abstract request state (header map, path variable, host variable), and the order in which the three
// HTTP rules (pkg/router/http_rule.go) call them.  Every statement must be recognised: an added guard either becomes part
// of the regenerated function (reads of the header map / of the variables are translated) or stops the translation.

import (
	"fmt"
	"go/ast"
	"go/token"
	"strings"
)

func init() { register("RouteFinalize", genC17r5RouteFinalize) }

type c17r5Walker struct {
	env *Env
	tmp int
}

// reads of the request state usable as `a, b := CALL` / `if a, b := CALL; cond {`
// value: (Lean Option expression, true = second result is `ok`, false = second result is `err`)
func c17r5Read(w *c17r5Walker, c *ast.CallExpr) (string, bool, error) {
	head := exprKey(c.Fun)
	switch head {
	case "headers.Get":
		if len(c.Args) != 1 {
			break
		}
		k, err := w.expr(c.Args[0])
		if err != nil {
			return "", false, err
		}
		return "(o.getHeader s " + k + ")", true, nil
	case "variable.GetString":
		if len(c.Args) != 2 || exprKey(c.Args[0]) != "ctx" {
			break
		}
		switch exprKey(c.Args[1]) {
		case "types.VarPath":
			return "(o.getPath s)", false, nil
		case "types.VarIstioHeaderHost":
			return "(o.getHost s)", false, nil
		}
	}
	return "", false, fmt.Errorf("unsupported read %s", callKey(c))
}

// expr: string concatenation, `x[len(y):]`, otherwise the shared translator
func (w *c17r5Walker) expr(e ast.Expr) (string, error) {
	switch x := e.(type) {
	case *ast.ParenExpr:
		s, err := w.expr(x.X)
		return "(" + s + ")", err
	case *ast.BinaryExpr:
		if x.Op == token.ADD {
			l, err := w.expr(x.X)
			if err != nil {
				return "", err
			}
			r, err := w.expr(x.Y)
			if err != nil {
				return "", err
			}
			return "(" + l + " ++ " + r + ")", nil
		}
	case *ast.SliceExpr:
		if x.High != nil || x.Max != nil || x.Low == nil {
			return "", fmt.Errorf("unsupported slice expression")
		}
		lc, ok := x.Low.(*ast.CallExpr)
		if !ok || exprKey(lc.Fun) != "len" || len(lc.Args) != 1 {
			return "", fmt.Errorf("unsupported slice bound")
		}
		a, err := w.expr(lc.Args[0])
		if err != nil {
			return "", err
		}
		b, err := w.expr(x.X)
		if err != nil {
			return "", err
		}
		return "(goDrop " + a + ".length " + b + ")", nil
	}
	return w.env.expr(e)
}

func c17r5LogOnly(is *ast.IfStmt) bool {
	if is.Init != nil || is.Else != nil || !strings.HasPrefix(exprKey(is.Cond), "?") {
		return false
	}
	be, ok := is.Cond.(*ast.BinaryExpr)
	if !ok || exprKey(be.X) != "log.DefaultLogger.GetLogLevel()" {
		return false
	}
	for _, st := range is.Body.List {
		es, ok := st.(*ast.ExprStmt)
		if !ok {
			return false
		}
		c, ok := es.X.(*ast.CallExpr)
		if !ok || !strings.HasPrefix(exprKey(c.Fun), "log.DefaultLogger.") {
			return false
		}
	}
	return true
}

// bind2 renders `a, b := READ` as a Lean tuple let and registers the names
func (w *c17r5Walker) bind2(as *ast.AssignStmt) (string, error) {
	if len(as.Lhs) != 2 || len(as.Rhs) != 1 || as.Tok != token.DEFINE {
		return "", fmt.Errorf("unsupported assignment")
	}
	c, ok := as.Rhs[0].(*ast.CallExpr)
	if !ok {
		return "", fmt.Errorf("unsupported two-value assignment")
	}
	rd, isOk, err := c17r5Read(w, c)
	if err != nil {
		return "", err
	}
	name := func(e ast.Expr) string {
		n := exprKey(e)
		if n == "_" {
			w.tmp++
			return fmt.Sprintf("_u%d", w.tmp)
		}
		w.env.Names[n] = n
		return n
	}
	a, b := name(as.Lhs[0]), name(as.Lhs[1])
	present, absent := "true", "false" // ok
	if !isOk {
		present, absent = "false", "true" // err (rendered as Bool: true = an error was returned; `nil` is `false`)
	}
	return fmt.Sprintf("let (%s, %s) : String × Bool := match %s with | some v => (v, %s) | none => (\"\", %s)", a, b, rd, present, absent), nil
}

// block renders stmts followed by `rest` (continuation) as a Lean expression of the state type; the current state is `s`.
func (w *c17r5Walker) block(stmts []ast.Stmt, ind string) (string, error) {
	if len(stmts) == 0 {
		return "s", nil
	}
	st, rest := stmts[0], stmts[1:]
	switch x := st.(type) {
	case *ast.ReturnStmt:
		if len(x.Results) != 0 {
			return "", fmt.Errorf("return with results")
		}
		return "s", nil
	case *ast.BlockStmt:
		return w.block(append(append([]ast.Stmt{}, x.List...), rest...), ind)
	case *ast.ExprStmt:
		c, ok := x.X.(*ast.CallExpr)
		if !ok {
			return "", fmt.Errorf("unsupported expression statement")
		}
		var upd string
		switch exprKey(c.Fun) {
		case "headers.Set":
			if len(c.Args) != 2 {
				return "", fmt.Errorf("headers.Set arity")
			}
			k, err := w.expr(c.Args[0])
			if err != nil {
				return "", err
			}
			v, err := w.expr(c.Args[1])
			if err != nil {
				return "", err
			}
			upd = "o.setHeader s " + k + " " + v
		case "variable.SetString":
			if len(c.Args) != 3 || exprKey(c.Args[0]) != "ctx" {
				return "", fmt.Errorf("variable.SetString shape")
			}
			v, err := w.expr(c.Args[2])
			if err != nil {
				return "", err
			}
			switch exprKey(c.Args[1]) {
			case "types.VarPath":
				upd = "o.setPath s " + v
			case "types.VarIstioHeaderHost":
				upd = "o.setHost s " + v
			default:
				return "", fmt.Errorf("write of unmodelled variable %s", exprKey(c.Args[1]))
			}
		case "rri.requestHeadersParser.evaluateHeaders":
			if callKey(c) != "rri.requestHeadersParser.evaluateHeaders(ctx,headers)" {
				return "", fmt.Errorf("evaluateHeaders arguments changed")
			}
			upd = "o.evalRoute s"
		case "rri.vHost.FinalizeRequestHeaders":
			if callKey(c) != "rri.vHost.FinalizeRequestHeaders(ctx,headers,requestInfo)" {
				return "", fmt.Errorf("vHost.FinalizeRequestHeaders arguments changed")
			}
			upd = "o.evalVhost s"
		default:
			return "", fmt.Errorf("unsupported call statement %s", callKey(c))
		}
		k, err := w.block(rest, ind)
		if err != nil {
			return "", err
		}
		return "let s := " + upd + "\n" + ind + k, nil
	case *ast.AssignStmt:
		if len(x.Lhs) == 2 {
			b, err := w.bind2(x)
			if err != nil {
				return "", err
			}
			k, err := w.block(rest, ind)
			if err != nil {
				return "", err
			}
			return b + "\n" + ind + k, nil
		}
		if len(x.Lhs) != 1 || len(x.Rhs) != 1 || x.Tok != token.DEFINE {
			return "", fmt.Errorf("unsupported assignment")
		}
		n := exprKey(x.Lhs[0])
		rhs, err := w.expr(x.Rhs[0])
		if err != nil {
			return "", err
		}
		w.env.Names[n] = n
		k, err := w.block(rest, ind)
		if err != nil {
			return "", err
		}
		return "let " + n + " := " + rhs + "\n" + ind + k, nil
	case *ast.IfStmt:
		if c17r5LogOnly(x) {
			return w.block(rest, ind)
		}
		pre := ""
		saved := copyNames(w.env.Names)
		if x.Init != nil {
			as, ok := x.Init.(*ast.AssignStmt)
			if !ok {
				return "", fmt.Errorf("unsupported if-init")
			}
			b, err := w.bind2(as)
			if err != nil {
				return "", err
			}
			pre = b + "\n" + ind
		}
		c, err := w.expr(x.Cond)
		if err != nil {
			return "", err
		}
		t, err := w.block(append(append([]ast.Stmt{}, x.Body.List...), rest...), ind+"  ")
		if err != nil {
			return "", err
		}
		var els []ast.Stmt
		switch eb := x.Else.(type) {
		case nil:
			els = rest
		case *ast.BlockStmt:
			els = append(append([]ast.Stmt{}, eb.List...), rest...)
		case *ast.IfStmt:
			els = append([]ast.Stmt{eb}, rest...)
		default:
			return "", fmt.Errorf("unsupported else")
		}
		e, err := w.block(els, ind+"  ")
		if err != nil {
			return "", err
		}
		w.env.Names = saved
		return pre + "if " + c + " then\n" + ind + "  " + t + "\n" + ind + "else\n" + ind + "  " + e, nil
	}
	return "", fmt.Errorf("unsupported statement %T", st)
}

func genC17r5RouteFinalize() (string, error) {
	const src = "pkg/router/base_rule.go"
	bf, err := parse(src)
	if err != nil {
		return "", err
	}
	cs, err := pkgConsts("pkg/types")
	if err != nil {
		return "", err
	}
	hop, ok := cs["HeaderOriginalPath"]
	if !ok {
		return "", fmt.Errorf("HeaderOriginalPath not found")
	}
	vc, err := pkgConsts("pkg/config/v2")
	if err != nil {
		return "", err
	}
	sdns, ok := vc["STRICT_DNS_CLUSTER"]
	if !ok {
		return "", fmt.Errorf("STRICT_DNS_CLUSTER not found")
	}
	names := func() map[string]string {
		return map[string]string{
			"nil": "false", "matchedPath": "matchedPath",
			"types.HeaderOriginalPath": "headerOriginalPath", "types.HeaderGlobalTimeout": "headerGlobalTimeout", "types.HeaderTryTimeout": "headerTryTimeout",
			"rri.prefixRewrite": "c.prefixRewrite", "len(rri.prefixRewrite)": "(c.prefixRewrite.length : Int)",
			"rri.regexRewrite.Pattern.Regex": "c.regex", "len(rri.regexRewrite.Pattern.Regex)": "(c.regex.length : Int)",
			"rri.regexPattern": "c.hasPattern",
			"rri.regexPattern.ReplaceAllString(path,rri.regexRewrite.Substitution)": "(regexReplace path)",
			"rri.hostRewrite": "c.hostRewrite", "len(rri.hostRewrite)": "(c.hostRewrite.length : Int)",
			"rri.autoHostRewriteHeader": "c.autoHostRewriteHeader", "len(rri.autoHostRewriteHeader)": "(c.autoHostRewriteHeader.length : Int)",
			"rri.autoHostRewrite": "c.autoHostRewrite",
			"cluster.GetClusterMngAdapterInstance().GetClusterSnapshot(context.TODO(),rri.routerAction.ClusterName)": "e.hasSnapshot",
			"clusterSnapshot.ClusterInfo().ClusterType()":                                                            "e.clusterType",
			"v2.STRICT_DNS_CLUSTER":                    "strictDNSCluster",
			"requestInfo.UpstreamHost().Hostname()":    "e.upstreamHostname",
		}
	}
	s := header("RouteFinalize", src+" (finalizePathHeader, finalizeRequestHeaders)", "pkg/router/http_rule.go (FinalizeRequestHeaders of the three HTTP rules)")
	s += `/-- what the two functions read and write of a request: the header map, the path variable, the host variable
(types.VarIstioHeaderHost), and the header-mutation parsers of the route and of the virtual host (+ router config) -/
structure Ops (σ : Type) where
  getHeader : σ → String → Option String
  setHeader : σ → String → String → σ
  getPath : σ → Option String
  setPath : σ → String → σ
  getHost : σ → Option String
  setHost : σ → String → σ
  evalRoute : σ → σ
  evalVhost : σ → σ
/-- the fields of RouteRuleImplBase the two functions consult -/
structure Cfg where
  prefixRewrite : String
  regex : String
  hasPattern : Bool
  hostRewrite : String
  autoHostRewriteHeader : String
  autoHostRewrite : Bool
deriving Repr
/-- environment of the auto_host_rewrite branch (cluster manager snapshot, selected upstream host): oracle inputs -/
structure HostEnv where
  hasSnapshot : Bool
  clusterType : String
  upstreamHostname : String
deriving Repr
`
	s += "def headerOriginalPath : String := " + hop.ExactString() + "\n"
	s += "def headerGlobalTimeout : String := " + cs["HeaderGlobalTimeout"].ExactString() + "\n"
	s += "def headerTryTimeout : String := " + cs["HeaderTryTimeout"].ExactString() + "\n"
	s += "def strictDNSCluster : String := " + sdns.ExactString() + "\n"
	s += "/-- Go `x[n:]` on a string (bytes; characters for the ASCII strings that are generated) -/\ndef goDrop (n : Nat) (x : String) : String := String.ofList (x.toList.drop n)\n"
	s += "def goHasPrefix (x p : String) : Bool := p.toList.isPrefixOf x.toList\n"

	fd := findFunc(bf, "RouteRuleImplBase", "finalizePathHeader")
	if fd == nil {
		return "", fmt.Errorf("finalizePathHeader not found")
	}
	w := &c17r5Walker{env: &Env{Names: names(), Calls: map[string]string{"strings.HasPrefix": "goHasPrefix"}}}
	body, err := w.block(fd.Body.List, "  ")
	if err != nil {
		return "", fmt.Errorf("finalizePathHeader: %v", err)
	}
	s += "/-- `finalizePathHeader`, every statement (log statements dropped). `regexReplace` = regexPattern.ReplaceAllString(·, substitution). -/\n"
	s += "def finalizePathHeader {σ : Type} (o : Ops σ) (c : Cfg) (regexReplace : String → String) (matchedPath : String) (s : σ) : σ :=\n  " + body + "\n"

	fd = findFunc(bf, "RouteRuleImplBase", "finalizeRequestHeaders")
	if fd == nil {
		return "", fmt.Errorf("finalizeRequestHeaders not found")
	}
	w = &c17r5Walker{env: &Env{Names: names(), Calls: map[string]string{"strings.HasPrefix": "goHasPrefix"}}}
	body, err = w.block(fd.Body.List, "  ")
	if err != nil {
		return "", fmt.Errorf("finalizeRequestHeaders: %v", err)
	}
	s += "/-- `finalizeRequestHeaders`, every statement -/\n"
	s += "def finalizeRequestHeaders {σ : Type} (o : Ops σ) (c : Cfg) (e : HostEnv) (s : σ) : σ :=\n  " + body + "\n"

	// the order in which the three HTTP rules call the two functions, and the matched-path argument
	hf, err := parse("pkg/router/http_rule.go")
	if err != nil {
		return "", err
	}
	s += "inductive Step where\n  | requestHeaders | pathHeader\nderiving DecidableEq, Repr\n"
	for _, r := range []struct{ recv, v, field, name string }{{"PathRouteRuleImpl", "prri", "path", "Path"}, {"PrefixRouteRuleImpl", "prei", "prefix", "Prefix"}, {"RegexRouteRuleImpl", "rrei", "regexStr", "Regex"}} {
		fd := findFunc(hf, r.recv, "FinalizeRequestHeaders")
		if fd == nil {
			return "", fmt.Errorf("%s.FinalizeRequestHeaders not found", r.recv)
		}
		var order []string
		for _, st := range fd.Body.List {
			es, ok := st.(*ast.ExprStmt)
			if !ok {
				return "", fmt.Errorf("%s.FinalizeRequestHeaders: unsupported statement %T", r.recv, st)
			}
			c, ok := es.X.(*ast.CallExpr)
			if !ok {
				return "", fmt.Errorf("%s.FinalizeRequestHeaders: unsupported statement", r.recv)
			}
			switch callKey(c) {
			case r.v + ".finalizeRequestHeaders(ctx,headers,requestInfo)":
				order = append(order, ".requestHeaders")
			case r.v + ".finalizePathHeader(ctx,headers," + r.v + "." + r.field + ")":
				order = append(order, ".pathHeader")
			default:
				return "", fmt.Errorf("%s.FinalizeRequestHeaders: unexpected call %s", r.recv, callKey(c))
			}
		}
		s += fmt.Sprintf("/-- `%s.FinalizeRequestHeaders`: the calls in order (the matched path handed over is the rule's own %s) -/\n", r.recv, r.field)
		s += "def order" + r.name + " : List Step := [" + strings.Join(order, ", ") + "]\n"
	}
	// FinalizePathHeader / FinalizeRequestHeaders of the base: plain delegations
	for _, d := range []struct{ fn, want string }{{"FinalizePathHeader", "rri.finalizePathHeader(ctx,headers,matchedPath)"}, {"FinalizeRequestHeaders", "rri.finalizeRequestHeaders(ctx,headers,requestInfo)"}} {
		fd := findFunc(bf, "RouteRuleImplBase", d.fn)
		if fd == nil || len(fd.Body.List) != 1 {
			return "", fmt.Errorf("RouteRuleImplBase.%s is no longer a plain delegation", d.fn)
		}
		es, ok := fd.Body.List[0].(*ast.ExprStmt)
		if !ok || exprKey(es.X) != d.want {
			return "", fmt.Errorf("RouteRuleImplBase.%s is no longer a plain delegation", d.fn)
		}
	}
	s += footer("RouteFinalize")
	return s, nil
}
