package main

import (
	"fmt"
	"go/ast"
	"go/token"
	"strings"
)

// Gen/DirDump (property C12): the TOP-LEVEL statement structure of the directory-mode part of
// ClusterManagerConfig.MarshalJSON (upstream.go) and RouterConfiguration.MarshalJSON (route.go) — what follows the static-mode
// `if path == "" { …; return json.Marshal(…) }` — as a list of steps in source order.  The directory scan that writes the items is
// also what removes the files of items that no longer exist: a `return` between the ReadDir and the stale-file cleanup (e.g. for an
// empty item list) leaves the files of removed items behind.  The body of the item loop (file names) is Gen/ConfigDir's subject.
func init() { register("DirDump", genC12dir) }

// c12dirKey: exprKey extended by binary / index / call-with-args expressions
func c12dirKey(e ast.Expr) string {
	switch x := e.(type) {
	case *ast.ParenExpr:
		return c12dirKey(x.X)
	case *ast.BinaryExpr:
		return c12dirKey(x.X) + " " + x.Op.String() + " " + c12dirKey(x.Y)
	case *ast.IndexExpr:
		return c12dirKey(x.X) + "[" + c12dirKey(x.Index) + "]"
	case *ast.SelectorExpr:
		return c12dirKey(x.X) + "." + x.Sel.Name
	case *ast.CallExpr:
		var a []string
		for _, y := range x.Args {
			a = append(a, c12dirKey(y))
		}
		return c12dirKey(x.Fun) + "(" + strings.Join(a, ",") + ")"
	}
	return exprKey(e)
}

func c12dirHasReturn(n ast.Node) bool {
	found := false
	ast.Inspect(n, func(x ast.Node) bool {
		if _, ok := x.(*ast.ReturnStmt); ok {
			found = true
		}
		if _, ok := x.(*ast.FuncLit); ok {
			return false
		}
		return true
	})
	return found
}

// c12dirSteps: recv = receiver variable, path = its path field, items = its item-list field
func c12dirSteps(file, typ, recv, path, items string) (string, error) {
	f, err := parse(file)
	if err != nil {
		return "", err
	}
	fd := findFunc(f, typ, "MarshalJSON")
	if fd == nil {
		return "", fmt.Errorf("%s.MarshalJSON not found", typ)
	}
	pathKey, itemsKey := recv+"."+path, recv+"."+items
	var steps []string
	seenStatic := false
	for _, st := range fd.Body.List {
		bad := func(why string) (string, error) {
			return "", fmt.Errorf("%s.MarshalJSON: %s at %s", typ, why, fset.Position(st.Pos()))
		}
		if !seenStatic {
			is, ok := st.(*ast.IfStmt)
			if !ok || is.Init != nil || is.Else != nil || c12dirKey(is.Cond) != pathKey+` == ""` || len(is.Body.List) == 0 {
				return bad("the static-mode branch is not the first statement")
			}
			if _, ok := is.Body.List[len(is.Body.List)-1].(*ast.ReturnStmt); !ok {
				return bad("the static-mode branch does not return")
			}
			seenStatic = true
			continue
		}
		switch x := st.(type) {
		case *ast.ExprStmt:
			if k := c12dirKey(x.X); strings.HasPrefix(k, "os.MkdirAll("+pathKey+",") {
				steps = append(steps, ".mkdir")
				continue
			}
			return bad("unsupported call")
		case *ast.AssignStmt:
			if len(x.Rhs) != 1 {
				return bad("unsupported assignment")
			}
			r := c12dirKey(x.Rhs[0])
			l := c12dirKey(x.Lhs[0])
			switch {
			case r == "ioutil.ReadDir("+pathKey+")" || r == "os.ReadDir("+pathKey+")":
				if l != "files" {
					return bad("ReadDir result is not `files`")
				}
				steps = append(steps, ".readDir")
			case l == "allFiles" && strings.HasPrefix(r, "make("):
				steps = append(steps, ".collectInit")
			case l == "written" && strings.HasPrefix(r, "make("):
				steps = append(steps, ".writtenInit")
			default:
				return bad("unsupported assignment " + l)
			}
		case *ast.IfStmt:
			c := c12dirKey(x.Cond)
			if x.Init == nil && x.Else == nil && c == "err != nil" && len(x.Body.List) == 1 && c12dirHasReturn(x.Body) &&
				len(steps) > 0 && steps[len(steps)-1] == ".readDir" {
				continue // the I/O error exit of ReadDir (not modelled)
			}
			if !c12dirHasReturn(x) {
				return bad("unsupported if statement")
			}
			// an early return: classify its condition
			switch {
			case x.Init == nil && x.Else == nil && (c == "len("+itemsKey+") == 0" || c == "len("+itemsKey+") < 1" || c == "len("+itemsKey+") <= 0" || c == itemsKey+" == nil"):
				steps = append(steps, ".returnIfEmpty")
			default:
				steps = append(steps, ".returnIfOther")
			}
		case *ast.RangeStmt:
			switch c12dirKey(x.X) {
			case "files":
				if c12dirHasReturn(x.Body) {
					return bad("return inside the collection loop")
				}
				steps = append(steps, ".collect")
			case itemsKey:
				steps = append(steps, ".writeLoop")
			case "allFiles":
				removes := false
				ast.Inspect(x.Body, func(n ast.Node) bool {
					if ce, ok := n.(*ast.CallExpr); ok && exprKey(ce.Fun) == "os.Remove" {
						removes = true
					}
					return true
				})
				if !removes || c12dirHasReturn(x.Body) {
					return bad("the loop over allFiles does not remove / returns")
				}
				steps = append(steps, ".cleanup")
			default:
				return bad("unsupported loop")
			}
		case *ast.ReturnStmt:
			steps = append(steps, ".finish")
		default:
			_ = token.ILLEGAL
			return bad("unsupported statement")
		}
	}
	return "[" + strings.Join(steps, ", ") + "]", nil
}

func genC12dir() (string, error) {
	s := header("DirDump", "pkg/config/v2/upstream.go", "pkg/config/v2/route.go")
	s += "/-- one top-level statement of the directory-mode part of a `MarshalJSON` -/\ninductive DStep where\n" +
		"  | mkdir          -- os.MkdirAll(path, …)\n" +
		"  | readDir        -- files, err := ioutil.ReadDir(path) (+ its error exit)\n" +
		"  | collectInit    -- allFiles := make(…)\n" +
		"  | collect        -- for _, f := range files { allFiles[f.Name()] = … }\n" +
		"  | writtenInit    -- written := make(…)\n" +
		"  | returnIfEmpty  -- if len(items) == 0 { …return… }\n" +
		"  | returnIfOther  -- any other early return\n" +
		"  | writeLoop      -- for _, item := range items { … write the item's file, delete(allFiles, fileName) … }\n" +
		"  | cleanup        -- for f := range allFiles { os.Remove(…) }\n" +
		"  | finish         -- return json.Marshal(…)\nderiving DecidableEq, Repr\n\n"
	cl, err := c12dirSteps("pkg/config/v2/upstream.go", "ClusterManagerConfig", "cc", "ClusterConfigPath", "Clusters")
	if err != nil {
		return "", err
	}
	vh, err := c12dirSteps("pkg/config/v2/route.go", "RouterConfiguration", "rc", "RouterConfigPath", "VirtualHosts")
	if err != nil {
		return "", err
	}
	s += "/-- `ClusterManagerConfig.MarshalJSON` after the static-mode branch -/\ndef clusterDumpSteps : List DStep := " + cl + "\n\n"
	s += "/-- `RouterConfiguration.MarshalJSON` after the static-mode branch -/\ndef vhostDumpSteps : List DStep := " + vh + "\n"
	return s + footer("DirDump"), nil
}
