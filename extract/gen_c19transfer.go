package main

import (
	"fmt"
	"go/ast"
	"go/token"
	"go/types"
	"strings"
)

func init() { register("ConfigTransfer", genC19Transfer) }

// genC19Transfer regenerates the reassembly plan of transferConfig (pkg/configmanager/dump_action.go): for every list of
// the dumped MOSNConfig the function rebuilds — its source (a `range` over one of the effective MAPS appending to a local,
// or an in-order copy of an effective SLICE: `dst[k] = v` in a range / `copy(dst, src)`), the number of sort calls applied
// to it (through the local or through the field it was assigned to), and every statement of a rebuilding loop that sorts a
// list inside the element.  The vocabulary is closed: any statement that is not one of the recognised forms (another
// call on a list, an assignment from a call, a write to an element field other than the router's path restore, …) is
// rejected, so the tie breaks instead of silently ignoring a reordering.

type c19tList struct {
	name   string // local variable or "wait2dump.<path>"
	field  string // path below wait2dump once assigned
	src    string // Lean Src term
	sorts  int
	hasSrc bool
}

type c19tCtx struct {
	lists []*c19tList
	edits [][2]string
	dump  string // name of the local holding the dumped config
}

func c19tStr(e ast.Expr) string { return types.ExprString(e) }

func (c *c19tCtx) c19tFind(name string) *c19tList {
	for _, l := range c.lists {
		if l.name == name || (l.field != "" && c.dump+"."+l.field == name) {
			return l
		}
	}
	return nil
}

func (c *c19tCtx) c19tGet(name string) *c19tList {
	if l := c.c19tFind(name); l != nil {
		return l
	}
	l := &c19tList{name: name}
	if strings.HasPrefix(name, c.dump+".") {
		l.field = strings.TrimPrefix(name, c.dump+".")
	}
	c.lists = append(c.lists, l)
	return l
}

func c19tIsSortCall(call *ast.CallExpr) bool {
	f := strings.ToLower(c19tStr(call.Fun))
	return strings.Contains(f, "sort") || strings.Contains(f, "slices.") || strings.Contains(f, "reverse") || strings.Contains(f, "shuffle")
}

// c19tMentioned: the tracked list / the expression a (sort) call works on: the first argument, through conversions.
func c19tSubject(call *ast.CallExpr) ast.Expr {
	if len(call.Args) == 0 {
		return nil
	}
	a := call.Args[0]
	for {
		switch x := a.(type) {
		case *ast.CallExpr: // sort.Sort(byType(extends))
			if len(x.Args) == 1 {
				a = x.Args[0]
				continue
			}
		case *ast.ParenExpr:
			a = x.X
			continue
		}
		return a
	}
}

func c19tHasCall(e ast.Expr, allow func(*ast.CallExpr) bool) bool {
	found := false
	ast.Inspect(e, func(n ast.Node) bool {
		if call, ok := n.(*ast.CallExpr); ok && !allow(call) {
			found = true
		}
		return true
	})
	return found
}

func c19tBuiltin(call *ast.CallExpr) bool {
	f := c19tStr(call.Fun)
	return f == "make" || f == "len" || f == "append" || f == "cap"
}

// the body of `for k, v := range conf.<X> { … }`
func (c *c19tCtx) c19tRange(r *ast.RangeStmt) error {
	src := c19tStr(r.X)
	if !strings.HasPrefix(src, "conf.") {
		return fmt.Errorf("range over %s", src)
	}
	src = strings.TrimPrefix(src, "conf.")
	key, val := "", ""
	if r.Key != nil {
		key = c19tStr(r.Key)
	}
	if r.Value != nil {
		val = c19tStr(r.Value)
	}
	locals := map[string]bool{key: true, val: true}
	var dst *c19tList
	for _, st := range r.Body.List {
		switch s := st.(type) {
		case *ast.AssignStmt:
			if len(s.Lhs) != 1 || len(s.Rhs) != 1 {
				return fmt.Errorf("loop statement %s", c19tStr(s.Lhs[0]))
			}
			lhs, rhs := s.Lhs[0], s.Rhs[0]
			if s.Tok == token.DEFINE {
				// routerPath := conf.routerConfigPath[name] ; r := conf.Routers[name]
				if c19tHasCall(rhs, func(*ast.CallExpr) bool { return false }) {
					return fmt.Errorf("loop local %s computed by a call", c19tStr(lhs))
				}
				locals[c19tStr(lhs)] = true
				continue
			}
			if call, ok := rhs.(*ast.CallExpr); ok && c19tStr(call.Fun) == "append" && len(call.Args) == 2 && c19tStr(call.Args[0]) == c19tStr(lhs) {
				// dst = append(dst, elem) : elements in the iteration order of the MAP
				arg := strings.TrimPrefix(c19tStr(call.Args[1]), "&")
				if !locals[arg] {
					return fmt.Errorf("append of %s", arg)
				}
				dst = c.c19tGet(c19tStr(lhs))
				if dst.hasSrc {
					return fmt.Errorf("list %s rebuilt twice", dst.name)
				}
				dst.src, dst.hasSrc = fmt.Sprintf(".fromMap %q", src), true
				continue
			}
			if ix, ok := lhs.(*ast.IndexExpr); ok && key != "" && c19tStr(ix.Index) == key && c19tStr(rhs) == val && val != "" {
				// dst[k] = v : in-order copy of the SLICE
				dst = c.c19tGet(c19tStr(ix.X))
				if dst.hasSrc {
					return fmt.Errorf("list %s rebuilt twice", dst.name)
				}
				dst.src, dst.hasSrc = fmt.Sprintf(".inOrder %q", src), true
				continue
			}
			if sel, ok := lhs.(*ast.SelectorExpr); ok && sel.Sel.Name == "RouterConfigPath" && locals[c19tStr(sel.X)] && locals[c19tStr(rhs)] {
				continue // r.RouterConfigPath = routerPath : the stored path is put back (a scalar)
			}
			return fmt.Errorf("loop statement %s = %s outside the vocabulary", c19tStr(lhs), c19tStr(rhs))
		case *ast.ExprStmt:
			call, ok := s.X.(*ast.CallExpr)
			if !ok {
				return fmt.Errorf("loop expression statement")
			}
			if c19tIsSortCall(call) {
				subj := c19tSubject(call)
				if sel, ok := subj.(*ast.SelectorExpr); ok && locals[c19tStr(sel.X)] {
					c.edits = append(c.edits, [2]string{"@" + src, sel.Sel.Name})
					continue
				}
			}
			return fmt.Errorf("loop call %s outside the vocabulary", c19tStr(call.Fun))
		default:
			return fmt.Errorf("loop statement %T outside the vocabulary", st)
		}
	}
	if dst == nil {
		return fmt.Errorf("range over conf.%s rebuilds no list", src)
	}
	// edits recorded in this loop belong to the list it rebuilds
	for i := range c.edits {
		if c.edits[i][0] == "@"+src {
			c.edits[i][0] = "=" + dst.name
		}
	}
	return nil
}

func (c *c19tCtx) c19tBlock(stmts []ast.Stmt) error {
	for _, st := range stmts {
		switch s := st.(type) {
		case *ast.DeferStmt, *ast.ReturnStmt:
			if r, ok := st.(*ast.ReturnStmt); ok {
				if len(r.Results) != 2 && len(r.Results) != 1 {
					return fmt.Errorf("return shape")
				}
				if call, ok := r.Results[0].(*ast.CallExpr); !ok || !strings.HasPrefix(c19tStr(call.Fun), "json.Marshal") || len(call.Args) == 0 || c19tStr(call.Args[0]) != c.dump {
					return fmt.Errorf("return %s is not json.Marshal…(%s, …)", c19tStr(r.Results[0]), c.dump)
				}
			}
		case *ast.RangeStmt:
			if err := c.c19tRange(s); err != nil {
				return err
			}
		case *ast.IfStmt:
			cond := c19tStr(s.Cond)
			if s.Init != nil || s.Else != nil || (cond != "len("+c.dump+".Servers) == 0" && cond != "transferExtensionFunc != nil") {
				return fmt.Errorf("if %s outside the vocabulary", cond)
			}
			if err := c.c19tBlock(s.Body.List); err != nil {
				return err
			}
		case *ast.ExprStmt:
			call, ok := s.X.(*ast.CallExpr)
			if !ok {
				return fmt.Errorf("expression statement")
			}
			f := c19tStr(call.Fun)
			switch {
			case strings.HasPrefix(f, "configLock."), strings.HasPrefix(f, "log."):
			case f == "transferExtensionFunc" && len(call.Args) == 1 && c19tStr(call.Args[0]) == "&"+c.dump:
			case f == "copy" && len(call.Args) == 2 && strings.HasPrefix(c19tStr(call.Args[1]), "conf."):
				l := c.c19tGet(c19tStr(call.Args[0]))
				if l.hasSrc {
					return fmt.Errorf("list %s rebuilt twice", l.name)
				}
				l.src, l.hasSrc = fmt.Sprintf(".inOrder %q", strings.TrimPrefix(c19tStr(call.Args[1]), "conf.")), true
			case c19tIsSortCall(call):
				subj := c19tSubject(call)
				if subj == nil {
					return fmt.Errorf("sort call %s without a subject", f)
				}
				name := c19tStr(subj)
				if l := c.c19tFind(name); l != nil {
					l.sorts++
				} else if strings.HasPrefix(name, c.dump+".") {
					// a list of the copied config that the function does not rebuild (sorted where it is)
					l := c.c19tGet(name)
					l.src, l.hasSrc = fmt.Sprintf(".inOrder %q", "MosnConfig."+l.field), true
					l.sorts++
				} else {
					return fmt.Errorf("sort call on %s, not a list of the dump", name)
				}
			default:
				return fmt.Errorf("call %s outside the vocabulary", f)
			}
		case *ast.AssignStmt:
			if len(s.Lhs) != 1 || len(s.Rhs) != 1 {
				return fmt.Errorf("assignment shape")
			}
			lhs, rhs := c19tStr(s.Lhs[0]), s.Rhs[0]
			if s.Tok == token.DEFINE && c19tStr(rhs) == "conf.MosnConfig" {
				c.dump = lhs
				continue
			}
			if c19tHasCall(rhs, c19tBuiltin) {
				return fmt.Errorf("%s assigned from a call: %s", lhs, c19tStr(rhs))
			}
			if call, ok := rhs.(*ast.CallExpr); ok && c19tStr(call.Fun) == "make" {
				continue // allocation of a list (filled by a loop / copy below) — or of Servers
			}
			if c.dump != "" && strings.HasPrefix(lhs, c.dump+".") {
				if id, ok := rhs.(*ast.Ident); ok {
					if l := c.c19tFind(id.Name); l != nil {
						if l.field != "" {
							return fmt.Errorf("list %s assigned twice", l.name)
						}
						l.field = strings.TrimPrefix(lhs, c.dump+".")
						continue
					}
					return fmt.Errorf("%s = %s: not a rebuilt list", lhs, id.Name)
				}
				if _, ok := rhs.(*ast.CompositeLit); ok {
					continue // wait2dump.Servers[0] = v2.ServerConfig{}
				}
				if strings.HasPrefix(c19tStr(rhs), "conf.") {
					continue // a scalar of the effective config (clusterConfigPath)
				}
			}
			return fmt.Errorf("assignment %s = %s outside the vocabulary", lhs, c19tStr(rhs))
		default:
			return fmt.Errorf("statement %T outside the vocabulary", st)
		}
	}
	return nil
}

func genC19Transfer() (string, error) {
	const file = "pkg/configmanager/dump_action.go"
	f, err := parse(file)
	if err != nil {
		return "", err
	}
	fd := findFunc(f, "", "transferConfig")
	if fd == nil || fd.Body == nil {
		return "", fmt.Errorf("transferConfig not found")
	}
	c := &c19tCtx{}
	if err := c.c19tBlock(fd.Body.List); err != nil {
		return "", err
	}
	s := "-- GENERATED by /verif/extract from " + file + " (transferConfig) — do not edit; regenerated on every check\n"
	s += "import MosnVerif.Model.OrderTypes\nnamespace MosnVerif.Gen.ConfigTransfer\nopen MosnVerif.Model.OrderTypes\n\n"
	s += "def lists : List ListPlan := [\n"
	var rows []string
	for _, l := range c.lists {
		if !l.hasSrc {
			return "", fmt.Errorf("list %s is never filled", l.name)
		}
		if l.field == "" {
			return "", fmt.Errorf("list %s is never assigned into the dump", l.name)
		}
		rows = append(rows, fmt.Sprintf("  ⟨%q, %s, %d⟩", l.field, l.src, l.sorts))
	}
	s += strings.Join(rows, ",\n") + "]\n\n"
	var eds []string
	for _, e := range c.edits {
		l := c.c19tFind(strings.TrimPrefix(e[0], "="))
		if l == nil {
			return "", fmt.Errorf("edit of an unknown list %s", e[0])
		}
		eds = append(eds, fmt.Sprintf("⟨%q, %q⟩", l.field, e[1]))
	}
	s += "def edits : List Edit := [" + strings.Join(eds, ", ") + "]\n\n"
	return s + footer("ConfigTransfer"), nil
}
