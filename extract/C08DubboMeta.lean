-- translation-unsupported C08DubboMeta: open -out/pkg/protocol/xprotocol/dubbo/decoder.go: no such file or directory
namespace MosnVerif.Gen.C08DubboMeta
end MosnVerif.Gen.C08DubboMeta
