package main

// Gen/BufReset.lean (C02): what the Reset method of every pooled per-request buffer context clears.
// For each (package, ctx type, buffers struct): the field names of the buffers struct in declaration order and the
// statements of `func (ctx T) Reset(i interface{})`:
//   *buf = S{}                      whole = true
//   buf.f.Reset()  /  buf.f = X{}   clears (f, [])
//   buf.f.g.Reset() / buf.f.g = X{} clears (f, [g])      (only a part of field f)
//   buf, _ := i.(*S)                ignored
//   if … { PutIoBuffer / log }      ignored (recycling of io buffers; must not assign to buf.* or call Reset)
// Anything else is translation-unsupported. All helpers are prefixed c02b.

import (
	"fmt"
	"go/ast"
	"strings"
)

func init() { register("BufReset", c02bGen) }

type c02bCtx struct{ lean, file, ctxType, bufType string }

func c02bSel(e ast.Expr) ([]string, bool) {
	switch x := e.(type) {
	case *ast.Ident:
		return []string{x.Name}, true
	case *ast.SelectorExpr:
		p, ok := c02bSel(x.X)
		if !ok {
			return nil, false
		}
		return append(p, x.Sel.Name), true
	}
	return nil, false
}

func c02bZero(e ast.Expr) bool {
	switch x := e.(type) {
	case *ast.CompositeLit:
		return len(x.Elts) == 0
	case *ast.Ident:
		return x.Name == "nil" || x.Name == "false"
	case *ast.BasicLit:
		return x.Value == "0" || x.Value == `""`
	}
	return false
}

func c02bOne(c c02bCtx) (string, error) {
	f, err := parse(c.file)
	if err != nil {
		return "", err
	}
	var fields []string
	found := false
	for _, d := range f.Decls {
		gd, ok := d.(*ast.GenDecl)
		if !ok {
			continue
		}
		for _, sp := range gd.Specs {
			ts, ok := sp.(*ast.TypeSpec)
			if !ok || ts.Name.Name != c.bufType {
				continue
			}
			st, ok := ts.Type.(*ast.StructType)
			if !ok {
				return "", fmt.Errorf("%s: %s is not a struct", c.file, c.bufType)
			}
			found = true
			for _, fl := range st.Fields.List {
				if len(fl.Names) == 0 {
					return "", fmt.Errorf("%s: embedded field in %s", c.file, c.bufType)
				}
				for _, n := range fl.Names {
					fields = append(fields, n.Name)
				}
			}
		}
	}
	if !found {
		return "", fmt.Errorf("%s: struct %s not found", c.file, c.bufType)
	}
	fd := findFunc(f, c.ctxType, "Reset")
	if fd == nil || fd.Body == nil {
		return "", fmt.Errorf("%s: %s.Reset not found", c.file, c.ctxType)
	}
	whole := false
	var clears []string
	bufName := ""
	for _, st := range fd.Body.List {
		switch s := st.(type) {
		case *ast.AssignStmt:
			if len(s.Rhs) == 1 {
				if ta, ok := s.Rhs[0].(*ast.TypeAssertExpr); ok && len(s.Lhs) >= 1 {
					if id, ok := s.Lhs[0].(*ast.Ident); ok {
						if se, ok := ta.Type.(*ast.StarExpr); !ok || exprKey(se.X) != c.bufType {
							return "", fmt.Errorf("%s: Reset asserts %s, expected *%s", c.file, exprKey(ta.Type), c.bufType)
						}
						bufName = id.Name
						continue
					}
				}
			}
			if len(s.Lhs) != 1 || len(s.Rhs) != 1 || !c02bZero(s.Rhs[0]) {
				return "", fmt.Errorf("%s: unsupported assignment in Reset at %s", c.file, fset.Position(s.Pos()))
			}
			if se, ok := s.Lhs[0].(*ast.StarExpr); ok {
				if id, ok := se.X.(*ast.Ident); ok && id.Name == bufName {
					if cl, ok := s.Rhs[0].(*ast.CompositeLit); !ok || exprKey(cl.Type) != c.bufType {
						return "", fmt.Errorf("%s: *buf assigned something else than %s{}", c.file, c.bufType)
					}
					whole = true
					continue
				}
			}
			p, ok := c02bSel(s.Lhs[0])
			if !ok || len(p) < 2 || p[0] != bufName {
				return "", fmt.Errorf("%s: unsupported assignment target in Reset at %s", c.file, fset.Position(s.Pos()))
			}
			clears = append(clears, c02bPair(p[1], p[2:]))
		case *ast.ExprStmt:
			call, ok := s.X.(*ast.CallExpr)
			if !ok {
				return "", fmt.Errorf("%s: unsupported statement in Reset at %s", c.file, fset.Position(s.Pos()))
			}
			p, ok := c02bSel(call.Fun)
			if !ok || len(p) < 3 || p[0] != bufName || p[len(p)-1] != "Reset" || len(call.Args) != 0 {
				return "", fmt.Errorf("%s: unsupported call in Reset at %s", c.file, fset.Position(s.Pos()))
			}
			clears = append(clears, c02bPair(p[1], p[2:len(p)-1]))
		case *ast.IfStmt:
			bad := false
			ast.Inspect(s, func(n ast.Node) bool {
				switch x := n.(type) {
				case *ast.AssignStmt:
					for _, l := range x.Lhs {
						if p, ok := c02bSel(l); ok && p[0] == bufName {
							bad = true
						}
						if _, ok := l.(*ast.StarExpr); ok {
							bad = true
						}
					}
				case *ast.CallExpr:
					if p, ok := c02bSel(x.Fun); ok && p[len(p)-1] == "Reset" {
						bad = true
					}
				}
				return true
			})
			if bad {
				return "", fmt.Errorf("%s: conditional clearing in Reset at %s", c.file, fset.Position(s.Pos()))
			}
		default:
			return "", fmt.Errorf("%s: unsupported statement in Reset at %s", c.file, fset.Position(st.Pos()))
		}
	}
	q := func(xs []string) string {
		var o []string
		for _, x := range xs {
			o = append(o, `"`+x+`"`)
		}
		return "[" + strings.Join(o, ", ") + "]"
	}
	return fmt.Sprintf("def %s : BufCtx := ⟨\"%s %s\", %s, %v, [%s]⟩\n", c.lean, c.file, c.ctxType, q(fields), whole, strings.Join(clears, ", ")), nil
}

func c02bPair(f string, sub []string) string {
	var o []string
	for _, x := range sub {
		o = append(o, `"`+x+`"`)
	}
	return fmt.Sprintf("(\"%s\", [%s])", f, strings.Join(o, ", "))
}

func c02bGen() (string, error) {
	ctxs := []c02bCtx{
		{"http", "pkg/stream/http/buffer.go", "httpBufferCtx", "httpBuffers"},
		{"xstream", "pkg/stream/xprotocol/buffer.go", "xStreamBufferCtx", "streamBuffers"},
		{"proxy", "pkg/proxy/buffer.go", "proxyBufferCtx", "proxyBuffers"},
		{"bolt", "pkg/protocol/xprotocol/bolt/buffer.go", "boltBufferCtx", "boltBuffer"},
		{"boltv2", "pkg/protocol/xprotocol/boltv2/buffer.go", "boltv2BufferCtx", "boltv2Buffer"},
	}
	var srcs, names []string
	for _, c := range ctxs {
		srcs = append(srcs, c.file)
		names = append(names, c.lean)
	}
	var sb strings.Builder
	sb.WriteString(header("BufReset", srcs...))
	sb.WriteString(`/-- a pooled buffer context: the fields of its buffers struct, whether Reset assigns the zero struct, and the
(field, sub-path) pairs Reset clears one by one (empty sub-path = the whole field) -/
structure BufCtx where
  name : String
  fields : List String
  whole : Bool
  clears : List (String × List String)
  deriving DecidableEq, Repr
`)
	for _, c := range ctxs {
		s, err := c02bOne(c)
		if err != nil {
			return "", err
		}
		sb.WriteString(s)
	}
	sb.WriteString("def all : List BufCtx := [" + strings.Join(names, ", ") + "]\n")
	sb.WriteString(footer("BufReset"))
	return sb.String(), nil
}
