-- translation-unsupported DirDump: open -out/pkg/config/v2/upstream.go: no such file or directory
namespace MosnVerif.Gen.DirDump
end MosnVerif.Gen.DirDump
