-- translation-unsupported PoolDestroy: open -out/pkg/stream/http/connpool.go: no such file or directory
namespace MosnVerif.Gen.PoolDestroy
end MosnVerif.Gen.PoolDestroy
