package main

// Additions to the continuation-style translator (cps.go) for small *constructor* functions (C04, header-matcher
// constructors of pkg/router/configutility.go, CreateRPCRule, NewBaseHTTPRouteRule):
//   * `T{f: e, …}` / `&T{f: e, …}`  ->  `({ (default : T') with f := e, … } : T')`  (T -> T' via GoTypes; Go zero values
//     of omitted fields = the derived `Inhabited` default of the Lean structure),
//   * `v.f.g = e`   -> `let v := { v with f := { v.f with g := e } }`,
//   * `v.f[k] = e`  -> `let v := { v with f := mapSet v.f k e }`      (f a map: LenFn[v.f] = mapLen),
//   * `switch tag { case a, b: …; default: … }` -> the equivalent if / else-if chain (no fallthrough, no break),
//   * `make(T, …)` -> the zero value of T'.
// A pointer to a freshly allocated record that only the constructor holds is modelled by the record's value.
// Anything else => error => translation-unsupported => broken tie (never a wrong translation).

import (
	"fmt"
	"go/ast"
	"go/token"
	"strings"
)

// c04bPathRoot: the root variable of an assignable path `v.f…` / `v.f…[k]` (empty for a plain identifier or any other shape).
func c04bPathRoot(e ast.Expr) string {
	switch x := e.(type) {
	case *ast.SelectorExpr:
		return rootIdent(x)
	case *ast.IndexExpr:
		if _, ok := x.X.(*ast.SelectorExpr); ok {
			return rootIdent(x.X)
		}
	}
	return ""
}

func (c *CPS) c04bComposite(x *ast.CompositeLit) (string, error) {
	if x.Type == nil {
		return "", fmt.Errorf("untyped composite literal")
	}
	t, ok := c.GoTypes[typeText(x.Type)]
	if !ok {
		return "", fmt.Errorf("composite literal of unknown type %s", typeText(x.Type))
	}
	if len(x.Elts) == 0 {
		return "(default : " + t + ")", nil
	}
	var fs []string
	for _, el := range x.Elts {
		kv, ok := el.(*ast.KeyValueExpr)
		if !ok {
			return "", fmt.Errorf("positional composite literal of %s", typeText(x.Type))
		}
		id, ok := kv.Key.(*ast.Ident)
		if !ok {
			return "", fmt.Errorf("composite literal key of %s", typeText(x.Type))
		}
		v, err := c.ex(kv.Value)
		if err != nil {
			return "", err
		}
		fs = append(fs, leanName(id.Name)+" := "+v)
	}
	return "({ (default : " + t + ") with " + strings.Join(fs, ", ") + " } : " + t + ")", nil
}

// c04bAssignPath renders `root.f1.….fn = rhs` and `root.f1.….fn[key] = rhs` as a functional update of `root`.
func (c *CPS) c04bAssignPath(x *ast.AssignStmt, rest []ast.Stmt, k, ind string) (string, error) {
	lhs := x.Lhs[0]
	root := c04bPathRoot(lhs)
	if !c.isLocal(root) || !(c.declaredHere(root) || c.mut[root]) {
		return "", fmt.Errorf("assignment through %s which is not a local variable", root)
	}
	rhs, err := c.ex(x.Rhs[0])
	if err != nil {
		return "", err
	}
	path := lhs
	if ie, ok := lhs.(*ast.IndexExpr); ok {
		if c.LenFn[goKey(ie.X)] != "mapLen" {
			return "", fmt.Errorf("indexed assignment to non-map %s", goKey(ie.X))
		}
		cur, err := c.ex(ie.X)
		if err != nil {
			return "", err
		}
		key, err := c.ex(ie.Index)
		if err != nil {
			return "", err
		}
		rhs = "(mapSet " + cur + " " + key + " " + rhs + ")"
		path = ie.X
	}
	// path = root.f1.….fn ; build the nested `with` from the innermost field outwards
	val := rhs
	for {
		se, ok := path.(*ast.SelectorExpr)
		if !ok {
			break
		}
		base, err := c.c04bPlain(se.X)
		if err != nil {
			return "", err
		}
		field := leanName(se.Sel.Name)
		if n, ok := c.Names[goKey(se)]; ok && strings.HasPrefix(n, base+".") && !strings.ContainsAny(n[len(base)+1:], ". ()") {
			field = n[len(base)+1:] // the configured Lean name of this Go field
		}
		val = "{ " + base + " with " + field + " := " + val + " }"
		path = se.X
	}
	if id, ok := path.(*ast.Ident); !ok || id.Name != root {
		return "", fmt.Errorf("unsupported assignment path %s", goKey(lhs))
	}
	r, err := c.blk(rest, k, ind)
	if err != nil {
		return "", err
	}
	return "let " + leanName(root) + " := " + val + "\n" + ind + r, nil
}

// c04bPlain renders a path of a local variable by its field names (no Names overrides: it is the record being updated).
func (c *CPS) c04bPlain(e ast.Expr) (string, error) {
	switch x := e.(type) {
	case *ast.Ident:
		if c.isLocal(x.Name) {
			return leanName(x.Name), nil
		}
	case *ast.SelectorExpr:
		b, err := c.c04bPlain(x.X)
		if err != nil {
			return "", err
		}
		return b + "." + leanName(x.Sel.Name), nil
	}
	return "", fmt.Errorf("unsupported update path %s", goKey(e))
}

// c04bSwitchToIf rewrites an expression switch without fallthrough / break into an if / else-if chain.
func c04bSwitchToIf(x *ast.SwitchStmt) (ast.Stmt, error) {
	if x.Init != nil || x.Tag == nil {
		return nil, fmt.Errorf("unsupported switch form")
	}
	switch x.Tag.(type) {
	case *ast.Ident, *ast.SelectorExpr: // evaluated once in Go, several times here: must be side-effect free
	default:
		return nil, fmt.Errorf("unsupported switch tag %s", goKey(x.Tag))
	}
	var bad error
	var noBreak func(n ast.Node) bool
	noBreak = func(n ast.Node) bool {
		switch y := n.(type) {
		case *ast.ForStmt, *ast.RangeStmt, *ast.SwitchStmt, *ast.TypeSwitchStmt, *ast.SelectStmt, *ast.FuncLit:
			return false // a break in there belongs to that statement
		case *ast.BranchStmt:
			if y.Tok == token.BREAK || y.Tok == token.FALLTHROUGH || y.Tok == token.GOTO {
				bad = fmt.Errorf("%v inside switch", y.Tok)
			}
		}
		return true
	}
	var dflt *ast.CaseClause
	var cases []*ast.CaseClause
	for _, s := range x.Body.List {
		cc, ok := s.(*ast.CaseClause)
		if !ok {
			return nil, fmt.Errorf("switch body")
		}
		for _, b := range cc.Body {
			ast.Inspect(b, noBreak)
		}
		if cc.List == nil {
			if dflt != nil {
				return nil, fmt.Errorf("two default clauses")
			}
			dflt = cc
		} else {
			cases = append(cases, cc)
		}
	}
	if bad != nil {
		return nil, bad
	}
	var tail ast.Stmt
	if dflt != nil {
		tail = &ast.BlockStmt{List: dflt.Body}
	}
	for i := len(cases) - 1; i >= 0; i-- {
		cc := cases[i]
		var cond ast.Expr
		for _, e := range cc.List {
			eq := &ast.BinaryExpr{X: x.Tag, Op: token.EQL, Y: e}
			if cond == nil {
				cond = eq
			} else {
				cond = &ast.BinaryExpr{X: cond, Op: token.LOR, Y: eq}
			}
		}
		tail = &ast.IfStmt{Cond: cond, Body: &ast.BlockStmt{List: cc.Body}, Else: tail}
	}
	if tail == nil {
		return &ast.BlockStmt{}, nil
	}
	if b, ok := tail.(*ast.BlockStmt); ok { // only a default clause
		return b, nil
	}
	return tail, nil
}
