package main

// Gen/C08Loop.lean (C08): the control structure of the decode loop of streamConn.Dispatch
// (pkg/stream/xprotocol/conn.go) as a function of what ONE turn finds: the read buffer empty, Decode answering
// "need more" (nil, nil), Decode failing (err != nil; the frame may or may not be nil), Decode delivering something that
// is not an api.XFrame, Decode delivering a frame. For every class the loop body is walked symbolically (conditions over
// buf.Len(), the frame and error variables of the Decode call and the `ok` of the XFrame assertion are decided by the
// class, log-level tests and the like are "unknown" and may only guard code without control transfers) and the way the
// turn ENDS is emitted: `false` = Dispatch returns (return, or break out of the loop to the end of the function),
// `true` = the loop goes round again (continue / falling off the end of the body). Also: whether Decode is called in a
// turn of that class, and whether handleError is called before the turn ends.
//
// Every shape the walk does not know is REJECTED (empty Gen module, the dependent theorems stop checking).
// All helpers carry the prefix c08d.

import (
	"fmt"
	"go/ast"
	"go/token"
	"strings"
)

func init() { register("C08Loop", c08dGen) }

type c08dWalk struct {
	class        string // empty | needmore | error | badtype | frame
	bufV         string
	frameV, errV string
	okV          string
	decoded      bool // the Decode call has been passed
	decodes      int
	handleErr    int
	next         int
	end          string // "" | return | continue | break
}

const (
	c08dF = iota
	c08dT
	c08dU
)

func c08dNot(t int) int {
	switch t {
	case c08dF:
		return c08dT
	case c08dT:
		return c08dF
	}
	return c08dU
}

func c08dIsNil(e ast.Expr) bool { id, ok := e.(*ast.Ident); return ok && id.Name == "nil" }

func (w *c08dWalk) cond(e ast.Expr) int {
	switch x := e.(type) {
	case *ast.ParenExpr:
		return w.cond(x.X)
	case *ast.UnaryExpr:
		if x.Op == token.NOT {
			return c08dNot(w.cond(x.X))
		}
	case *ast.Ident:
		if w.okV != "" && x.Name == w.okV {
			if w.class == "badtype" {
				return c08dF
			}
			if w.class == "frame" {
				return c08dT
			}
		}
	case *ast.BinaryExpr:
		switch x.Op {
		case token.LAND:
			a, b := w.cond(x.X), w.cond(x.Y)
			if a == c08dF || b == c08dF {
				return c08dF
			}
			if a == c08dT && b == c08dT {
				return c08dT
			}
			return c08dU
		case token.LOR:
			a, b := w.cond(x.X), w.cond(x.Y)
			if a == c08dT || b == c08dT {
				return c08dT
			}
			if a == c08dF && b == c08dF {
				return c08dF
			}
			return c08dU
		case token.EQL, token.NEQ:
			r := c08dU
			l, rr := exprKey(x.X), exprKey(x.Y)
			switch {
			case l == w.bufV+".Len()" && rr == "0" && !w.decoded:
				// at the head of a turn; after a Decode call the length is no longer what the class says
				if w.class == "empty" {
					r = c08dT
				} else {
					r = c08dF
				}
			case w.decoded && l == w.frameV && c08dIsNil(x.Y):
				switch w.class {
				case "needmore":
					r = c08dT
				case "frame", "badtype":
					r = c08dF
				}
			case w.decoded && l == w.errV && c08dIsNil(x.Y):
				switch w.class {
				case "needmore", "frame", "badtype":
					r = c08dT
				case "error":
					r = c08dF
				}
			}
			if x.Op == token.NEQ {
				r = c08dNot(r)
			}
			return r
		}
	}
	return c08dU
}

// c08dTransfers: does n contain a control transfer or one of the calls the walk counts (not looking into function literals)
func c08dTransfers(n ast.Node) bool {
	found := false
	ast.Inspect(n, func(m ast.Node) bool {
		switch x := m.(type) {
		case *ast.FuncLit:
			return false
		case *ast.ReturnStmt, *ast.BranchStmt, *ast.ForStmt, *ast.RangeStmt, *ast.GoStmt, *ast.LabeledStmt, *ast.SelectStmt:
			found = true
		case *ast.CallExpr:
			if s, ok := x.Fun.(*ast.SelectorExpr); ok {
				switch s.Sel.Name {
				case "Decode", "handleError", "Next", "handleFrame":
					found = true
				}
			}
			if id, ok := x.Fun.(*ast.Ident); ok && id.Name == "panic" {
				found = true
			}
		}
		return true
	})
	return found
}

func (w *c08dWalk) calls(n ast.Node) {
	ast.Inspect(n, func(m ast.Node) bool {
		if _, ok := m.(*ast.FuncLit); ok {
			return false
		}
		if c, ok := m.(*ast.CallExpr); ok {
			if s, ok := c.Fun.(*ast.SelectorExpr); ok {
				switch s.Sel.Name {
				case "handleError":
					w.handleErr++
				case "Next":
					if strings.HasSuffix(exprKey(s.X), "ctxManager") {
						w.next++
					}
				}
			}
		}
		return true
	})
}

func (w *c08dWalk) stmts(l []ast.Stmt) error {
	for _, s := range l {
		if w.end != "" {
			return nil
		}
		if err := w.stmt(s); err != nil {
			return err
		}
	}
	return nil
}

func (w *c08dWalk) stmt(s ast.Stmt) error {
	switch x := s.(type) {
	case *ast.ReturnStmt:
		if len(x.Results) != 0 {
			return fmt.Errorf("Dispatch: return with a value at %s", fset.Position(x.Pos()))
		}
		w.end = "return"
	case *ast.BranchStmt:
		if x.Label != nil {
			return fmt.Errorf("Dispatch: labelled %s at %s", x.Tok, fset.Position(x.Pos()))
		}
		switch x.Tok {
		case token.CONTINUE:
			w.end = "continue"
		case token.BREAK:
			w.end = "break"
		default:
			return fmt.Errorf("Dispatch: %s at %s", x.Tok, fset.Position(x.Pos()))
		}
	case *ast.BlockStmt:
		return w.stmts(x.List)
	case *ast.IfStmt:
		if x.Init != nil {
			if err := w.stmt(x.Init); err != nil {
				return err
			}
		}
		switch w.cond(x.Cond) {
		case c08dT:
			return w.stmts(x.Body.List)
		case c08dF:
			if x.Else != nil {
				return w.stmt(x.Else)
			}
		default:
			if c08dTransfers(x.Body) || (x.Else != nil && c08dTransfers(x.Else)) {
				return fmt.Errorf("Dispatch: on the path `%s` the condition %s at %s is not decided by the class and guards a control transfer", w.class, exprKey(x.Cond), fset.Position(x.Pos()))
			}
		}
	case *ast.AssignStmt:
		// the Decode call / the XFrame assertion
		if len(x.Rhs) == 1 {
			if c, ok := x.Rhs[0].(*ast.CallExpr); ok {
				if sel, ok := c.Fun.(*ast.SelectorExpr); ok && sel.Sel.Name == "Decode" {
					if len(x.Lhs) != 2 || len(c.Args) != 2 || exprKey(c.Args[1]) != w.bufV {
						return fmt.Errorf("Dispatch: Decode call not of the shape `frame, err := ….Decode(ctx, buf)`")
					}
					if w.class == "empty" {
						w.decodes++
						return fmt.Errorf("Dispatch: Decode is called on an empty buffer")
					}
					w.frameV, w.errV = exprKey(x.Lhs[0]), exprKey(x.Lhs[1])
					w.decoded = true
					w.decodes++
					return nil
				}
			}
			if ta, ok := x.Rhs[0].(*ast.TypeAssertExpr); ok && len(x.Lhs) == 2 && exprKey(ta.X) == w.frameV && w.decoded {
				w.okV = exprKey(x.Lhs[1])
				return nil
			}
		}
		if c08dTransfers(x) {
			w.calls(x)
		}
	case *ast.ExprStmt:
		w.calls(x)
		if c, ok := x.X.(*ast.CallExpr); ok {
			if sel, ok := c.Fun.(*ast.SelectorExpr); ok && sel.Sel.Name == "Decode" {
				return fmt.Errorf("Dispatch: Decode result dropped")
			}
			if id, ok := c.Fun.(*ast.Ident); ok && id.Name == "panic" {
				return fmt.Errorf("Dispatch: panic in the loop")
			}
		}
	case *ast.DeclStmt, *ast.IncDecStmt, *ast.EmptyStmt:
	default:
		return fmt.Errorf("Dispatch: statement %T at %s not recognised", s, fset.Position(s.Pos()))
	}
	return nil
}

type c08dTurn struct {
	again     bool
	decodes   int
	handleErr int
	next      int
}

func c08dClass(fd *ast.FuncDecl, class string) (c08dTurn, error) {
	var t c08dTurn
	if fd.Type.Params == nil || len(fd.Type.Params.List) != 1 || len(fd.Type.Params.List[0].Names) != 1 {
		return t, fmt.Errorf("Dispatch: parameters not recognised")
	}
	var loop *ast.ForStmt
	for i, s := range fd.Body.List {
		f, ok := s.(*ast.ForStmt)
		if !ok {
			if c08dTransfers(s) {
				return t, fmt.Errorf("Dispatch: statement %d outside the loop transfers control", i)
			}
			continue
		}
		if loop != nil {
			return t, fmt.Errorf("Dispatch: more than one loop")
		}
		loop = f
		for _, r := range fd.Body.List[i+1:] {
			if c08dTransfers(r) {
				return t, fmt.Errorf("Dispatch: code behind the loop transfers control")
			}
		}
	}
	if loop == nil || loop.Init != nil || loop.Cond != nil || loop.Post != nil {
		return t, fmt.Errorf("Dispatch: not a single `for { … }` loop")
	}
	w := &c08dWalk{class: class, bufV: fd.Type.Params.List[0].Names[0].Name}
	if err := w.stmts(loop.Body.List); err != nil {
		return t, err
	}
	if class != "empty" && w.decodes != 1 {
		return t, fmt.Errorf("Dispatch: path `%s` passes %d Decode calls", class, w.decodes)
	}
	t = c08dTurn{again: w.end == "" || w.end == "continue", decodes: w.decodes, handleErr: w.handleErr, next: w.next}
	return t, nil
}

func c08dBool(b bool) string {
	if b {
		return "true"
	}
	return "false"
}

func c08dGen() (string, error) {
	const conn = "pkg/stream/xprotocol/conn.go"
	f, err := parse(conn)
	if err != nil {
		return "", err
	}
	fd := findFunc(f, "streamConn", "Dispatch")
	if fd == nil {
		return "", fmt.Errorf("streamConn.Dispatch not found")
	}
	var sb strings.Builder
	sb.WriteString(header("C08Loop", conn))
	for _, c := range []struct{ class, lean, doc string }{
		{"empty", "Empty", "the read buffer is empty at the head of the turn"},
		{"needmore", "NeedMore", "Decode answered (nil, nil): no complete frame yet"},
		{"error", "Error", "Decode failed (err != nil)"},
		{"badtype", "BadType", "Decode delivered something that is not an api.XFrame"},
		{"frame", "Frame", "Decode delivered a frame"},
	} {
		t, err := c08dClass(fd, c.class)
		if err != nil {
			return "", err
		}
		fmt.Fprintf(&sb, "/-- streamConn.Dispatch, a turn of the decode loop in which %s: the loop goes round again (false: Dispatch returns) -/\ndef again%s : Bool := %s\n", c.doc, c.lean, c08dBool(t.again))
		if c.class == "empty" {
			fmt.Fprintf(&sb, "/-- Decode calls in a turn that finds the buffer empty -/\ndef decodesEmpty : Nat := %d\n", t.decodes)
		}
		if c.class == "error" {
			fmt.Fprintf(&sb, "/-- a failed Decode is handed to handleError (exception reply or close) before the turn ends -/\ndef errorHandled : Bool := %s\n", c08dBool(t.handleErr == 1))
		}
	}
	sb.WriteString(footer("C08Loop"))
	return sb.String(), nil
}
