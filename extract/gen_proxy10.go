package main

// Gen module ProxyBackoff (proxy10: the back-off sleep of doRetry as a state of the downstream machine, the two windows inside
// the retry set-up, the arming of the global timer):
//   doRetry          downStream.doRetry statement by statement, generic in the state: what it re-checks after its sleep
//                    (pending local reply, recorded expiry of the global timeout), the no-host branch, the new upstream
//                    request, the three send calls, which timers it arms
//   processDone      downStream.processDone as a function of the three flags; sendGuards: upstreamRequest.appendHeaders /
//                    appendData / appendTrailers start with `if r.downStream.processDone() { return }`
//   setupRetry       downStream.setupRetry statement by statement with the two yield sites of the worker as interleaving
//                    points (after the mark on the given-up request, after upstreamResponseReceived is swung back)
//   globalCallback   the callback of the global timer (function literal of onUpstreamRequestSent) followed by
//                    onResponseTimeout; onResetStream: upstreamRequest.OnResetStream
//   requestSent      downStream.onUpstreamRequestSent up to the creation of the timer (who arms, under which conditions);
//                    armSites: every place that assigns s.responseTimer a new timer; requestSentCallers: every call of
//                    onUpstreamRequestSent with the function it is in
//   cleanResets      the condition under which cleanStream resets the upstream request, over Gen.ProxyReset.Flags + the phase

import (
	"fmt"
	"go/ast"
	"go/token"
	"sort"
	"strings"
)

func init() { register("ProxyBackoff", p10GenProxyBackoff) }

func p10Threader() *threader {
	return &threader{
		vars:   []string{"s"},
		types:  []string{"σ"},
		conds:  map[string]string{},
		condFx: map[string]string{},
		stmts:  map[string]string{},
		skip:   isLogStmt,
		ret: func(rs []string) (string, error) {
			if len(rs) == 0 {
				return "s", nil
			}
			return "", fmt.Errorf("unsupported return %v", rs)
		},
	}
}

// p10NewRequestLit: `s.upstreamRequest = &upstreamRequest{…}` whose keys are among downStream, proxy, connPool, host, protocol
// (no requestSender, no setupRetry: a fresh, unmarked request without a stream)
func p10NewRequestLit(st ast.Stmt) bool {
	as, ok := st.(*ast.AssignStmt)
	if !ok || len(as.Lhs) != 1 || len(as.Rhs) != 1 || src(as.Lhs[0]) != "s.upstreamRequest" || as.Tok != token.ASSIGN {
		return false
	}
	un, ok := as.Rhs[0].(*ast.UnaryExpr)
	if !ok || un.Op != token.AND {
		return false
	}
	cl, ok := un.X.(*ast.CompositeLit)
	if !ok || src(cl.Type) != "upstreamRequest" {
		return false
	}
	allowed := map[string]bool{"downStream": true, "proxy": true, "connPool": true, "host": true, "protocol": true}
	for _, e := range cl.Elts {
		kv, ok := e.(*ast.KeyValueExpr)
		if !ok || !allowed[src(kv.Key)] {
			return false
		}
	}
	return true
}

func p10DoRetry(f *ast.File) (string, error) {
	fd := findFunc(f, "downStream", "doRetry")
	if fd == nil {
		return "", fmt.Errorf("doRetry not found")
	}
	noHost, err := apiInt("NoHealthUpstreamCode")
	if err != nil {
		return "", err
	}
	t := p10Threader()
	t.conds = map[string]string{
		"s.directResponse": "(o.directResponse s)",
		"atomic.LoadUint32(&s.globalTimeoutExpired) == 1": "(o.globalExpired s)",
		"s.upstreamRequest != nil":                         "(o.hasUpstreamRequest s)",
		"err != nil":                                       "(o.noHost s)",
		"s.downstreamReqDataBuf != nil":                    "(o.hasData s)",
		"s.downstreamReqTrailers != nil":                   "(o.hasTrailers s)",
		"s.responseTimer == nil":                           "(!(o.hasGlobalTimer s))",
		"!s.upstreamRequestSent":                           "(!(o.requestSent s))",
		"atomic.LoadUint32(&s.downstreamReset) == 1":       "(o.downstreamReset s)",
		"atomic.LoadUint32(&s.upstreamReset) == 1":         "(o.upstreamReset s)",
		"s.processDone()":                                  "(o.processDone s)",
	}
	t.stmts = map[string]string{
		"atomic.StoreUint32(&s.reuseBuffer, 0)":                                        "let s := o.noReuse s",
		"host, pool, err := s.initializeUpstreamConnectionPool(s)":                     "",
		"s.upstreamRequest.setupRetry = false":                                         "let s := o.clearSetupRetry s",
		"s.sendHijackReply(api.NoHealthUpstreamCode, s.downstreamReqHeaders)":          fmt.Sprintf("let s := o.hijack s %d", noHost),
		"s.cleanUp()":                                                                  "let s := o.cleanUp s",
		"s.upstreamRequest.OnResetStream(types.UpstreamGlobalTimeout)":                 "let s := o.raiseGlobalTimeout s",
		"s.upstreamRequest.appendHeaders(s.downstreamReqDataBuf == nil && s.downstreamReqTrailers == nil)": "let s := o.appendHeaders s (!(o.hasData s) && !(o.hasTrailers s))",
		"s.upstreamRequest.appendData(s.downstreamReqTrailers == nil)":                 "let s := o.appendData s (!(o.hasTrailers s))",
		"s.upstreamRequest.appendTrailers()":                                           "let s := o.appendTrailers s",
		"s.onUpstreamRequestSent()":                                                    "let s := o.onUpstreamRequestSent s",
		"s.setupPerReqTimeout()":                                                       "let s := o.setupPerReqTimeout s",
		"s.upstreamRequestSent = true":                                                 "let s := o.setRequestSent s",
		"s.downstreamRecvDone = true":                                                  "let s := o.setRecvDone s",
	}
	sleeps := 0
	var body []ast.Stmt
	for _, st := range fd.Body.List {
		if es, ok := st.(*ast.ExprStmt); ok && strings.HasPrefix(src(es.X), "time.Sleep(") {
			if len(body) != 0 {
				return "", fmt.Errorf("doRetry: the back-off sleep is not its first statement")
			}
			sleeps++
			continue
		}
		if p10NewRequestLit(st) {
			t.stmts[src(st)] = "let s := o.newUpstreamRequest s"
		}
		body = append(body, st)
	}
	if sleeps != 1 {
		return "", fmt.Errorf("doRetry: expected exactly one time.Sleep, found %d", sleeps)
	}
	b, err := t.block(body, "  ", "s")
	if err != nil {
		return "", fmt.Errorf("doRetry: %v", err)
	}
	s := `/-- what doRetry reads and does after its back-off sleep, as operations on an abstract state σ -/
structure Ops (σ : Type) where
  directResponse : σ → Bool        -- s.directResponse
  globalExpired : σ → Bool         -- globalTimeoutExpired == 1
  hasUpstreamRequest : σ → Bool    -- s.upstreamRequest != nil
  downstreamReset : σ → Bool       -- downstreamReset == 1
  upstreamReset : σ → Bool         -- upstreamReset == 1
  processDone : σ → Bool           -- s.processDone()
  noHost : σ → Bool                -- initializeUpstreamConnectionPool returned an error
  hasData : σ → Bool               -- s.downstreamReqDataBuf != nil
  hasTrailers : σ → Bool           -- s.downstreamReqTrailers != nil
  hasGlobalTimer : σ → Bool        -- s.responseTimer != nil
  requestSent : σ → Bool           -- s.upstreamRequestSent
  noReuse : σ → σ
  raiseGlobalTimeout : σ → σ       -- s.upstreamRequest.OnResetStream(types.UpstreamGlobalTimeout)
  clearSetupRetry : σ → σ          -- s.upstreamRequest.setupRetry = false
  hijack : σ → Nat → σ             -- s.sendHijackReply(code, request headers)
  cleanUp : σ → σ
  newUpstreamRequest : σ → σ       -- s.upstreamRequest = &upstreamRequest{…} (no stream, not marked)
  appendHeaders : σ → Bool → σ     -- s.upstreamRequest.appendHeaders(endStream)
  appendData : σ → Bool → σ
  appendTrailers : σ → σ
  onUpstreamRequestSent : σ → σ
  setupPerReqTimeout : σ → σ
  setRequestSent : σ → σ           -- s.upstreamRequestSent = true
  setRecvDone : σ → σ              -- s.downstreamRecvDone = true
`
	s += "/-- downStream.doRetry after `time.Sleep(…)`, statement by statement -/\n"
	s += "def doRetry {σ : Type} (o : Ops σ) (s : σ) : σ :=\n  " + b + "\n"
	return s, nil
}

// p10ProcessDone: `return a || b || c` over the three flags, and the guards of the three send calls of upstreamRequest.
func p10ProcessDone(df, uf *ast.File) (string, error) {
	fd := findFunc(df, "downStream", "processDone")
	if fd == nil || len(fd.Body.List) != 1 {
		return "", fmt.Errorf("processDone: unexpected shape")
	}
	rs, ok := fd.Body.List[0].(*ast.ReturnStmt)
	if !ok || len(rs.Results) != 1 {
		return "", fmt.Errorf("processDone: unexpected shape")
	}
	t := &threader{conds: map[string]string{
		"s.upstreamProcessDone.Load()":               "pd",
		"atomic.LoadUint32(&s.downstreamReset) == 1": "dr",
		"atomic.LoadUint32(&s.upstreamReset) == 1":   "ur",
	}, condFx: map[string]string{}}
	c, fx, err := t.cond(rs.Results[0])
	if err != nil || fx != "" {
		return "", fmt.Errorf("processDone: %v", err)
	}
	s := "/-- downStream.processDone(): pd = upstreamProcessDone, dr = downstreamReset == 1, ur = upstreamReset == 1 -/\n"
	s += "def processDone (pd dr ur : Bool) : Bool := " + c + "\n"
	for _, n := range []string{"appendHeaders", "appendData", "appendTrailers"} {
		g := findFunc(uf, "upstreamRequest", n)
		guarded := false
		if g != nil && len(g.Body.List) > 0 {
			if is, ok := g.Body.List[0].(*ast.IfStmt); ok && is.Init == nil && is.Else == nil && src(is.Cond) == "r.downStream.processDone()" &&
				len(is.Body.List) == 1 && src(is.Body.List[0]) == "return" {
				guarded = true
			}
		}
		s += fmt.Sprintf("/-- upstreamRequest.%s starts with `if r.downStream.processDone() { return }` -/\ndef %sChecksDone : Bool := %v\n", n, n, guarded)
	}
	return s, nil
}

func p10SetupRetry(f *ast.File) (string, error) {
	fd := findFunc(f, "downStream", "setupRetry")
	if fd == nil {
		return "", fmt.Errorf("setupRetry not found")
	}
	if sig := src(fd.Type); sig != "func(endStream bool) bool" {
		return "", fmt.Errorf("setupRetry: unexpected signature %s", sig)
	}
	t := p10Threader()
	t.conds = map[string]string{
		"atomic.LoadUint32(&s.globalTimeoutExpired) == 1": "(o.globalExpired s)",
		"!endStream":              "(!endStream)",
		"endStream":               "endStream",
		"s.perRetryTimer != nil":  "(o.hasPerTryTimer s)",
		"s.responseTimer != nil":  "(o.hasGlobalTimer s)",
	}
	t.stmts = map[string]string{
		"s.upstreamRequest.setupRetry = true":                                "let s := o.mark s",
		"verifWorkerYield(s, verifSiteRetryMarked)":                          "let s := w1 s",
		"verifWorkerYield(s, verifSiteRetrySwung)":                           "let s := w2 s",
		"s.upstreamRequest.resetStream()":                                    "let s := o.resetUpstream s",
		"s.perRetryTimer.Stop()":                                             "let s := o.stopPerTry s",
		"s.perRetryTimer = nil":                                              "",
		"s.responseTimer.Stop()":                                             "let s := o.stopGlobal s",
		"s.responseTimer = nil":                                              "let s := o.forgetGlobal s",
		"atomic.CompareAndSwapUint32(&s.upstreamResponseReceived, 1, 0)":     "let s := o.freeSlot s",
		"atomic.StoreUint32(&s.upstreamResponseReceived, 0)":                 "let s := o.freeSlot s",
	}
	t.ret = func(rs []string) (string, error) {
		if len(rs) == 1 && (rs[0] == "true" || rs[0] == "false") {
			return "(s, " + rs[0] + ")", nil
		}
		return "", fmt.Errorf("unsupported return %v", rs)
	}
	b, err := t.block(fd.Body.List, "  ", "ERR")
	if err != nil {
		return "", fmt.Errorf("setupRetry: %v", err)
	}
	if strings.Contains(b, "ERR") {
		return "", fmt.Errorf("setupRetry: a path falls off the end")
	}
	n1 := strings.Count(b, "w1 s")
	n2 := strings.Count(b, "w2 s")
	if n1 != 1 || n2 != 1 {
		return "", fmt.Errorf("setupRetry: the two yield sites of the worker are not both present exactly once (%d, %d)", n1, n2)
	}
	if strings.Index(b, "o.mark s") > strings.Index(b, "w1 s") || strings.Index(b, "w1 s") > strings.Index(b, "o.freeSlot s") || strings.Index(b, "o.freeSlot s") > strings.Index(b, "w2 s") {
		return "", fmt.Errorf("setupRetry: order mark < site 1 < swing < site 2 not found")
	}
	s := `/-- what setupRetry reads and does -/
structure SROps (σ : Type) where
  globalExpired : σ → Bool     -- globalTimeoutExpired == 1
  hasPerTryTimer : σ → Bool    -- s.perRetryTimer != nil
  hasGlobalTimer : σ → Bool    -- s.responseTimer != nil
  mark : σ → σ                 -- s.upstreamRequest.setupRetry = true
  resetUpstream : σ → σ        -- s.upstreamRequest.resetStream()
  stopPerTry : σ → σ           -- s.perRetryTimer.Stop(); s.perRetryTimer = nil
  stopGlobal : σ → σ           -- s.responseTimer.Stop()
  forgetGlobal : σ → σ         -- s.responseTimer = nil
  freeSlot : σ → σ             -- upstreamResponseReceived 1 -> 0
`
	s += "/-- downStream.setupRetry(endStream) statement by statement; `w1` / `w2` are what other goroutines do while the worker is at\nits yield site after the mark / after the swing (identity when nothing interleaves) -/\n"
	s += "def setupRetry {σ : Type} (o : SROps σ) (w1 w2 : σ → σ) (endStream : Bool) (s : σ) : σ × Bool :=\n  " + b + "\n"
	return s, nil
}

// p10GlobalCallback: the function literal handed to utils.NewTimer for s.responseTimer, with onResponseTimeout inlined at its
// call, and upstreamRequest.OnResetStream.
func p10GlobalCallback(f, uf *ast.File) (string, error) {
	sent := findFunc(f, "downStream", "onUpstreamRequestSent")
	if sent == nil {
		return "", fmt.Errorf("onUpstreamRequestSent not found")
	}
	var lit *ast.FuncLit
	ast.Inspect(sent.Body, func(n ast.Node) bool {
		if as, ok := n.(*ast.AssignStmt); ok && len(as.Lhs) == 1 && src(as.Lhs[0]) == "s.responseTimer" && len(as.Rhs) == 1 {
			if ce, ok := as.Rhs[0].(*ast.CallExpr); ok && src(ce.Fun) == "utils.NewTimer" && len(ce.Args) == 2 {
				if fl, ok := ce.Args[1].(*ast.FuncLit); ok {
					lit = fl
				}
			}
		}
		return true
	})
	if lit == nil {
		return "", fmt.Errorf("onUpstreamRequestSent: `s.responseTimer = utils.NewTimer(…, func() {…})` not found")
	}
	ort := findFunc(f, "downStream", "onResponseTimeout")
	if ort == nil {
		return "", fmt.Errorf("onResponseTimeout not found")
	}
	// onResponseTimeout: defer recover; stats; if s.upstreamRequest != nil { host stats…; resetStream; OnResetStream(GlobalTimeout) }
	tt := p10Threader()
	tt.conds = map[string]string{
		"s.upstreamRequest != nil":         "(o.hasUpstreamRequest s)",
		"s.upstreamRequest.setupRetry":     "(o.marked s)",
		"!s.upstreamRequest.setupRetry":    "(!(o.marked s))",
		"s.upstreamRequest.host != nil":    "true",
	}
	tt.stmts = map[string]string{
		"s.cluster.Stats().UpstreamRequestTimeout.Inc(1)":                      "",
		"s.upstreamRequest.host.HostStats().UpstreamRequestTimeout.Inc(1)":     "",
		"s.upstreamRequest.resetStream()":                                      "let s := o.resetUpstream s",
		"s.upstreamRequest.OnResetStream(types.UpstreamGlobalTimeout)":         "let s := o.onResetStream s",
	}
	var ob []ast.Stmt
	for _, st := range ort.Body.List {
		if _, ok := st.(*ast.DeferStmt); ok {
			continue
		}
		ob = append(ob, st)
	}
	// the host statistics block `if s.upstreamRequest.host != nil { stats; log }` carries no state: drop it
	var strip func(l []ast.Stmt) []ast.Stmt
	strip = func(l []ast.Stmt) []ast.Stmt {
		var out []ast.Stmt
		for _, st := range l {
			if is, ok := st.(*ast.IfStmt); ok && src(is.Cond) == "s.upstreamRequest.host != nil" && is.Else == nil {
				continue
			}
			if is, ok := st.(*ast.IfStmt); ok && is.Init == nil {
				c := *is
				nb := *is.Body
				nb.List = strip(is.Body.List)
				c.Body = &nb
				out = append(out, &c)
				continue
			}
			out = append(out, st)
		}
		return out
	}
	timeoutB, err := tt.block(strip(ob), "    ", "s")
	if err != nil {
		return "", fmt.Errorf("onResponseTimeout: %v", err)
	}
	t := p10Threader()
	const casNeg = "!atomic.CompareAndSwapUint32(&s.upstreamResponseReceived, 0, 1)"
	t.conds = map[string]string{
		"atomic.LoadUint32(&s.downstreamCleaned) == 1": "(o.cleaned s)",
		"ID != atomic.LoadUint32(&s.ID)":               "(!(o.idMatches s))",
		casNeg:                                         "(o.responseReceived s)",
		"s.upstreamRequest != nil":                     "(o.hasUpstreamRequest s)",
		"s.upstreamRequest.setupRetry":                 "(o.marked s)",
		"s.upstreamRequest != nil && s.upstreamRequest.setupRetry": "((o.hasUpstreamRequest s) && (o.marked s))",
	}
	t.condFxNeg = map[string]string{casNeg: "let s := o.takeSlot s"}
	t.stmts = map[string]string{
		"atomic.StoreUint32(&s.reuseBuffer, 0)":          "",
		"verifTimerYield(1)":                             "", // c02g10's yield hook at the start of the callback: a no-op without a test gate, like a log statement
		"atomic.StoreUint32(&s.globalTimeoutExpired, 1)": "let s := o.recordExpiry s",
		"s.onResponseTimeout()":                          "let s := onResponseTimeout o s",
	}
	cb, err := t.block(lit.Body.List, "  ", "s")
	if err != nil {
		return "", fmt.Errorf("global timer callback: %v", err)
	}
	// upstreamRequest.OnResetStream
	ors := findFunc(uf, "upstreamRequest", "OnResetStream")
	if ors == nil {
		return "", fmt.Errorf("upstreamRequest.OnResetStream not found")
	}
	tr := p10Threader()
	const casUp = "!atomic.CompareAndSwapUint32(&r.downStream.upstreamReset, 0, 1)"
	tr.conds = map[string]string{
		"r.setupRetry": "(o.marked s)",
		casUp:          "(o.upstreamReset s)",
	}
	tr.condFxNeg = map[string]string{casUp: "let s := o.raiseReset s"}
	tr.stmts = map[string]string{
		"r.downStream.resetReason.Store(reason)": "let s := o.storeReason s",
		"r.downStream.sendNotify()":              "let s := o.notify s",
	}
	rb, err := tr.block(ors.Body.List, "  ", "s")
	if err != nil {
		return "", fmt.Errorf("upstreamRequest.OnResetStream: %v", err)
	}
	s := `/-- what the global timer callback reads and does -/
structure GCOps (σ : Type) where
  cleaned : σ → Bool              -- downstreamCleaned == 1
  idMatches : σ → Bool            -- the ID captured when the timer was armed is the stream's ID
  responseReceived : σ → Bool     -- upstreamResponseReceived == 1
  hasUpstreamRequest : σ → Bool   -- s.upstreamRequest != nil
  marked : σ → Bool               -- s.upstreamRequest.setupRetry
  recordExpiry : σ → σ            -- globalTimeoutExpired = 1
  takeSlot : σ → σ                -- the successful compare-and-swap 0 -> 1 on upstreamResponseReceived
  resetUpstream : σ → σ           -- s.upstreamRequest.resetStream()
  onResetStream : σ → σ           -- s.upstreamRequest.OnResetStream(types.UpstreamGlobalTimeout)
/-- what upstreamRequest.OnResetStream reads and does -/
structure RSOps (σ : Type) where
  marked : σ → Bool               -- r.setupRetry
  upstreamReset : σ → Bool        -- upstreamReset == 1
  raiseReset : σ → σ              -- the successful compare-and-swap 0 -> 1 on upstreamReset
  storeReason : σ → σ
  notify : σ → σ
`
	s += "/-- downStream.onResponseTimeout (statistics dropped) -/\ndef onResponseTimeout {σ : Type} (o : GCOps σ) (s : σ) : σ :=\n    " + timeoutB + "\n"
	s += "/-- the callback of the global timer (`s.responseTimer = utils.NewTimer(s.timeout.GlobalTimeout, func() {…})`) -/\n"
	s += "def globalCallback {σ : Type} (o : GCOps σ) (s : σ) : σ :=\n  " + cb + "\n"
	s += "/-- upstreamRequest.OnResetStream(reason) -/\ndef onResetStream {σ : Type} (o : RSOps σ) (s : σ) : σ :=\n  " + rb + "\n"
	return s, nil
}

// p10RequestSent: onUpstreamRequestSent with the timer creation as one operation; the arm sites of the global timer and the
// callers of onUpstreamRequestSent in pkg/proxy (non-test files).
func p10RequestSent(f *ast.File) (string, error) {
	fd := findFunc(f, "downStream", "onUpstreamRequestSent")
	if fd == nil {
		return "", fmt.Errorf("onUpstreamRequestSent not found")
	}
	t := p10Threader()
	t.conds = map[string]string{
		"s.upstreamRequest != nil && !s.oneway": "((o.hasUpstreamRequest s) && !(o.oneway s))",
		"s.upstreamRequest != nil":              "(o.hasUpstreamRequest s)",
		"!s.oneway":                             "(!(o.oneway s))",
		"s.oneway":                              "(o.oneway s)",
		"s.timeout.GlobalTimeout > 0":           "(o.globalPositive s)",
		"s.responseTimer != nil":                "(o.hasGlobalTimer s)",
		"s.responseTimer == nil":                "(!(o.hasGlobalTimer s))",
	}
	t.stmts = map[string]string{
		"s.upstreamRequestSent = true":                          "let s := o.setRequestSent s",
		"s.requestInfo.SetRequestReceivedDuration(time.Now())":  "",
		"s.setupPerReqTimeout()":                                "let s := o.setupPerReqTimeout s",
		"s.responseTimer.Stop()":                                "let s := o.stopGlobal s",
		"ID := atomic.LoadUint32(&s.ID)":                        "",
	}
	// the statement that creates the timer
	n := 0
	ast.Inspect(fd.Body, func(x ast.Node) bool {
		if as, ok := x.(*ast.AssignStmt); ok && len(as.Lhs) == 1 && src(as.Lhs[0]) == "s.responseTimer" && len(as.Rhs) == 1 {
			if ce, ok := as.Rhs[0].(*ast.CallExpr); ok && src(ce.Fun) == "utils.NewTimer" && len(ce.Args) == 2 && src(ce.Args[0]) == "s.timeout.GlobalTimeout" {
				t.stmts[src(as)] = "let s := o.armGlobal s"
				n++
			}
		}
		return true
	})
	if n != 1 {
		return "", fmt.Errorf("onUpstreamRequestSent: expected one creation of the global timer, found %d", n)
	}
	b, err := t.block(fd.Body.List, "  ", "s")
	if err != nil {
		return "", fmt.Errorf("onUpstreamRequestSent: %v", err)
	}
	// arm sites and callers over the whole package
	pkgFiles, err := p10ProxyFiles()
	if err != nil {
		return "", err
	}
	var arms, callers, forgets []string
	for _, pf := range pkgFiles {
		for _, d := range pf.Decls {
			g, ok := d.(*ast.FuncDecl)
			if !ok || g.Body == nil {
				continue
			}
			ast.Inspect(g.Body, func(x ast.Node) bool {
				switch y := x.(type) {
				case *ast.AssignStmt:
					for i, l := range y.Lhs {
						if strings.HasSuffix(src(l), ".responseTimer") && i < len(y.Rhs) {
							if src(y.Rhs[i]) == "nil" {
								forgets = append(forgets, g.Name.Name)
							} else {
								arms = append(arms, g.Name.Name)
							}
						}
					}
				case *ast.CallExpr:
					if strings.HasSuffix(src(y.Fun), ".onUpstreamRequestSent") {
						callers = append(callers, g.Name.Name)
					}
				}
				return true
			})
		}
	}
	sort.Strings(arms)
	sort.Strings(callers)
	sort.Strings(forgets)
	q := func(l []string) string {
		var p []string
		for _, x := range l {
			p = append(p, fmt.Sprintf("%q", x))
		}
		return "[" + strings.Join(p, ", ") + "]"
	}
	s := `/-- what onUpstreamRequestSent reads and does -/
structure SentOps (σ : Type) where
  hasUpstreamRequest : σ → Bool
  oneway : σ → Bool
  globalPositive : σ → Bool        -- s.timeout.GlobalTimeout > 0 (always, after parseProxyTimeout)
  hasGlobalTimer : σ → Bool        -- s.responseTimer != nil
  setRequestSent : σ → σ
  setupPerReqTimeout : σ → σ
  stopGlobal : σ → σ               -- s.responseTimer.Stop()
  armGlobal : σ → σ                -- s.responseTimer = utils.NewTimer(s.timeout.GlobalTimeout, callback)
`
	s += "/-- downStream.onUpstreamRequestSent statement by statement -/\ndef onUpstreamRequestSent {σ : Type} (o : SentOps σ) (s : σ) : σ :=\n  " + b + "\n"
	s += "/-- the functions of pkg/proxy that assign a new timer to responseTimer (one entry per assignment) -/\ndef armSites : List String := " + q(arms) + "\n"
	s += "/-- the functions of pkg/proxy that set responseTimer to nil -/\ndef forgetSites : List String := " + q(forgets) + "\n"
	s += "/-- the functions of pkg/proxy that call onUpstreamRequestSent (one entry per call) -/\ndef requestSentCallers : List String := " + q(callers) + "\n"
	return s, nil
}

func p10ProxyFiles() ([]*ast.File, error) {
	var out []*ast.File
	for _, n := range []string{"downstream.go", "upstream.go", "streamfilters.go", "retrystate.go", "proxy.go", "util.go"} {
		f, err := parse("pkg/proxy/" + n)
		if err != nil {
			return nil, err
		}
		out = append(out, f)
	}
	return out, nil
}

// p10CleanResets: `if <cond> { log; s.upstreamProcessDone.Store(true); s.upstreamRequest.resetStream() }` in cleanStream.
func p10CleanResets(f *ast.File) (string, error) {
	fd := findFunc(f, "downStream", "cleanStream")
	if fd == nil {
		return "", fmt.Errorf("cleanStream not found")
	}
	names, err := phaseNames()
	if err != nil {
		return "", err
	}
	conds := map[string]string{}
	for k, v := range c03bFlagConds {
		conds[k] = v
	}
	conds["!s.oneway"] = "(!f.oneway)"
	conds["s.upstreamRequest.setupRetry"] = "marked"
	conds["!s.upstreamRequest.setupRetry"] = "(!marked)"
	for _, p := range names {
		conds["s.phase != types."+p] = "(decide (phase ≠ Phase." + p + "))"
		conds["s.phase == types."+p] = "(decide (phase = Phase." + p + "))"
	}
	t := &threader{conds: conds, condFx: map[string]string{}}
	var found []string
	for _, st := range fd.Body.List {
		is, ok := st.(*ast.IfStmt)
		if !ok || is.Init != nil {
			continue
		}
		if !strings.Contains(src(is.Body), "s.upstreamRequest.resetStream()") {
			continue
		}
		var body []string
		for _, b := range is.Body.List {
			if !isLogStmt(b) {
				body = append(body, src(b))
			}
		}
		if is.Else != nil || strings.Join(body, " ; ") != "s.upstreamProcessDone.Store(true) ; s.upstreamRequest.resetStream()" {
			return "", fmt.Errorf("cleanStream: unexpected reset block %v", body)
		}
		c, fx, err := t.cond(is.Cond)
		if err != nil || fx != "" {
			return "", fmt.Errorf("cleanStream: reset condition %q not translatable: %v", src(is.Cond), err)
		}
		found = append(found, c)
	}
	if len(found) != 1 {
		return "", fmt.Errorf("cleanStream: expected one block resetting the upstream request, found %d", len(found))
	}
	s := "/-- cleanStream resets the upstream request (`s.upstreamProcessDone.Store(true); s.upstreamRequest.resetStream()`) exactly when: -/\n"
	s += "def cleanResets (f : MosnVerif.Gen.ProxyReset.Flags) (phase : Phase) (marked : Bool) : Bool := " + found[0] + "\n"
	return s, nil
}

func p10GenProxyBackoff() (string, error) {
	f, err := parse("pkg/proxy/downstream.go")
	if err != nil {
		return "", err
	}
	uf, err := parse("pkg/proxy/upstream.go")
	if err != nil {
		return "", err
	}
	var parts []string
	for _, g := range []func() (string, error){
		func() (string, error) { return p10DoRetry(f) },
		func() (string, error) { return p10ProcessDone(f, uf) },
		func() (string, error) { return p10SetupRetry(f) },
		func() (string, error) { return p10GlobalCallback(f, uf) },
		func() (string, error) { return p10RequestSent(f) },
		func() (string, error) { return p10CleanResets(f) },
	} {
		p, err := g()
		if err != nil {
			return "", err
		}
		parts = append(parts, p)
	}
	s := "import MosnVerif.Gen.ProxyPhase\nimport MosnVerif.Gen.ProxyReset\n" + header("ProxyBackoff", "pkg/proxy/downstream.go (doRetry, processDone, setupRetry, onUpstreamRequestSent, onResponseTimeout, cleanStream)", "pkg/proxy/upstream.go (OnResetStream, appendHeaders, appendData, appendTrailers)")
	s += "open MosnVerif.Gen.ProxyPhase\n"
	s += strings.Join(parts, "")
	s += footer("ProxyBackoff")
	return s, nil
}
