-- translation-unsupported H1SegOps: open -out/pkg/stream/http/stream.go: no such file or directory
namespace MosnVerif.Gen.H1SegOps
end MosnVerif.Gen.H1SegOps
