package main

// C11 (c11w9): the lock discipline between a connection write in progress and the hand-over of the connection.
//   Gen/HandoverLock.lean : the step list of connection.writeDirectly (lock; test of the hand-over mark; appendBuffer;
//                           doWrite; unlock — in the order and under the mutex the source has), the step list of the
//                           hand-over (connection.transfer = notifyTransfer's non-write-loop branch spliced in, then
//                           transferRead = the fd is sent), and the identity of the two mutexes
//                           (pkg/network/connection.go)

import (
	"fmt"
	"go/ast"
	"strings"
)

func init() { register("HandoverLock", genC11w9Lock) }

// c11w9MutexOf: X of a call X.TryLock(…) / X.Lock() / X.Unlock(); "" when the call is none of these.
func c11w9MutexOf(c *ast.CallExpr) (mutex, op string) {
	sel, ok := c.Fun.(*ast.SelectorExpr)
	if !ok {
		return "", ""
	}
	switch sel.Sel.Name {
	case "TryLock", "Lock":
		return exprKey(sel.X), "lock"
	case "Unlock":
		return exprKey(sel.X), "unlock"
	}
	return "", ""
}

func c11w9Mentions(n ast.Node, key string) bool {
	found := false
	ast.Inspect(n, func(x ast.Node) bool {
		if e, ok := x.(ast.Expr); ok && exprKey(e) == key {
			found = true
		}
		return !found
	})
	return found
}

type c11w9Walk struct {
	steps    []string
	mutexes  []string // every mutex a lock step names
	deferred []string // mutexes unlocked by a defer
	guards   map[string]bool
	classify func(st ast.Stmt) string // "" = not a step of interest
	err      error
}

// walk: top-level statements in order; `v := X.TryLock(…)` is a lock step and `if v { … }` is entered (the time-out
// branch of TryLock is not a step); `if <mark> { … }` is the classifier's business.
func (w *c11w9Walk) walk(stmts []ast.Stmt) {
	for _, st := range stmts {
		if k := w.classify(st); k != "" {
			if k != "skip" {
				w.steps = append(w.steps, k)
			}
			continue
		}
		switch s := st.(type) {
		case *ast.AssignStmt:
			if len(s.Rhs) == 1 {
				if c, ok := s.Rhs[0].(*ast.CallExpr); ok {
					if m, op := c11w9MutexOf(c); op == "lock" {
						w.steps = append(w.steps, "lock")
						w.mutexes = append(w.mutexes, m)
						if len(s.Lhs) == 1 {
							w.guards[exprKey(s.Lhs[0])] = true
						}
					}
				}
			}
		case *ast.ExprStmt:
			if c, ok := s.X.(*ast.CallExpr); ok {
				if m, op := c11w9MutexOf(c); op != "" {
					w.steps = append(w.steps, op)
					if op == "lock" {
						w.mutexes = append(w.mutexes, m)
					}
				}
			}
		case *ast.DeferStmt:
			if m, op := c11w9MutexOf(s.Call); op == "unlock" {
				w.deferred = append(w.deferred, m)
			}
		case *ast.IfStmt:
			if w.guards[exprKey(s.Cond)] {
				w.walk(s.Body.List)
			} else if c11w9HasLockOp(s) {
				w.err = fmt.Errorf("a lock operation under a condition that is not the TryLock result")
			}
		case *ast.BlockStmt:
			w.walk(s.List)
		default:
			if c11w9HasLockOp(st) {
				w.err = fmt.Errorf("a lock operation inside a statement form that is not recognised")
			}
		}
	}
}

func c11w9HasLockOp(n ast.Node) bool {
	found := false
	ast.Inspect(n, func(x ast.Node) bool {
		if c, ok := x.(*ast.CallExpr); ok {
			if _, op := c11w9MutexOf(c); op != "" {
				found = true
			}
		}
		return !found
	})
	return found
}

func c11w9One(ms []string) (string, error) {
	if len(ms) == 0 {
		return "", nil
	}
	for _, m := range ms {
		if m != ms[0] {
			return "", fmt.Errorf("more than one mutex: %v", ms)
		}
	}
	return ms[0], nil
}

func genC11w9Lock() (string, error) {
	const src = "pkg/network/connection.go"
	f, err := parse(src)
	if err != nil {
		return "", err
	}
	// ---- writeDirectly
	wd := findFunc(f, "connection", "writeDirectly")
	if wd == nil {
		return "", fmt.Errorf("writeDirectly not found")
	}
	ww := &c11w9Walk{guards: map[string]bool{}}
	ww.classify = func(st ast.Stmt) string {
		switch s := st.(type) {
		case *ast.IfStmt:
			if exprKey(s.Cond) == "c.needTransfer" {
				if _, ok := s.Body.List[len(s.Body.List)-1].(*ast.ReturnStmt); !ok {
					ww.err = fmt.Errorf("writeDirectly: the needTransfer branch does not return")
				}
				return "check"
			}
			return ""
		case *ast.SelectStmt:
			return "skip" // the stop-channel test at the top
		case *ast.DeferStmt:
			return ""
		}
		if _, ok := st.(*ast.ExprStmt); ok && len(callsTo(st, "c.appendBuffer")) == 1 {
			return "append"
		}
		if len(callsTo(st, "c.doWrite")) == 1 {
			if _, ok := st.(*ast.IfStmt); !ok {
				return "io"
			}
		}
		return ""
	}
	ww.walk(wd.Body.List)
	if ww.err != nil {
		return "", fmt.Errorf("writeDirectly: %v", ww.err)
	}
	wm, err := c11w9One(append(append([]string{}, ww.mutexes...), ww.deferred...))
	if err != nil {
		return "", fmt.Errorf("writeDirectly: %v", err)
	}
	wsteps := ww.steps
	if len(ww.deferred) > 0 {
		wsteps = append(wsteps, "unlock")
	}
	cnt := map[string]int{}
	for _, s := range wsteps {
		cnt[s]++
	}
	if cnt["check"] != 1 || cnt["append"] != 1 || cnt["io"] != 1 {
		return "", fmt.Errorf("writeDirectly: expected one test of needTransfer, one appendBuffer and one doWrite, got %v", wsteps)
	}
	// ---- notifyTransfer (the branch without a write loop)
	nt := findFunc(f, "connection", "notifyTransfer")
	if nt == nil {
		return "", fmt.Errorf("notifyTransfer not found")
	}
	var branch []ast.Stmt
	for _, st := range nt.Body.List {
		if i, ok := st.(*ast.IfStmt); ok && exprKey(i.Cond) == "c.useWriteLoop" {
			if e, ok := i.Else.(*ast.BlockStmt); ok {
				branch = e.List
			}
		}
	}
	if branch == nil {
		return "", fmt.Errorf("notifyTransfer: `if c.useWriteLoop { … } else { … }` not found")
	}
	nw := &c11w9Walk{guards: map[string]bool{}}
	nw.classify = func(st ast.Stmt) string {
		switch s := st.(type) {
		case *ast.AssignStmt:
			for _, l := range s.Lhs {
				if exprKey(l) == "c.needTransfer" {
					if len(s.Rhs) == 1 && exprKey(s.Rhs[0]) == "true" {
						return "setMark"
					}
					nw.err = fmt.Errorf("c.needTransfer is assigned something other than true")
					return "skip"
				}
			}
		case *ast.ExprStmt:
			if c, ok := s.X.(*ast.CallExpr); ok {
				if _, op := c11w9MutexOf(c); op == "" && c11w9Mentions(c, "c.needTransfer") {
					return "setMark" // an atomic store of the mark
				}
			}
		}
		return ""
	}
	nw.walk(branch)
	if nw.err != nil {
		return "", fmt.Errorf("notifyTransfer: %v", nw.err)
	}
	nm, err := c11w9One(append(append([]string{}, nw.mutexes...), nw.deferred...))
	if err != nil {
		return "", fmt.Errorf("notifyTransfer: %v", err)
	}
	nsteps := nw.steps
	if len(nw.deferred) > 0 {
		nsteps = append(nsteps, "unlock")
	}
	marks := 0
	for _, s := range nsteps {
		if s == "setMark" {
			marks++
		}
	}
	if marks != 1 {
		return "", fmt.Errorf("notifyTransfer: expected exactly one store of needTransfer, got %v", nsteps)
	}
	same := nm != "" && nm == wm
	if !same { // a lock of another mutex excludes nothing: not a step of the model
		var k []string
		for _, s := range nsteps {
			if s == "setMark" {
				k = append(k, s)
			}
		}
		nsteps = k
	}
	// ---- connection.transfer: notifyTransfer, then transferRead (the descriptor leaves), then the forwarding loop
	tr := findFunc(f, "connection", "transfer")
	if tr == nil {
		return "", fmt.Errorf("connection.transfer not found")
	}
	var hsteps []string
	for _, st := range tr.Body.List {
		switch {
		case len(callsTo(st, "c.notifyTransfer")) > 0:
			hsteps = append(hsteps, nsteps...)
		case len(callsTo(st, "transferRead")) > 0:
			hsteps = append(hsteps, "sendFd")
		case len(callsTo(st, "c.transferWrite")) > 0:
		default:
			return "", fmt.Errorf("connection.transfer: statement not recognised: %s", c11w9StmtKey(st))
		}
	}
	fds := 0
	for _, s := range hsteps {
		if s == "sendFd" {
			fds++
		}
	}
	if fds != 1 {
		return "", fmt.Errorf("connection.transfer: expected one transferRead, got %v", hsteps)
	}
	lst := func(xs []string) string {
		var o []string
		for _, x := range xs {
			o = append(o, "."+x)
		}
		return "[" + strings.Join(o, ", ") + "]"
	}
	s := header("HandoverLock", src)
	s += "/-- one step of `connection.writeDirectly`: take the write mutex / test the hand-over mark (`c.needTransfer`: the write is\ndiverted to the queue and the function returns) / `appendBuffer` / `doWrite` (the writev loop: any number of partial\nwrites) / release the mutex (explicit or deferred) -/\n" +
		"inductive WStep | lock | check | append | io | unlock\nderiving DecidableEq, Repr\n" +
		"/-- one step of the hand-over of a connection (`connection.transfer` with `notifyTransfer` spliced in; lock steps only\nwhen they name the mutex `writeDirectly` takes): take it / store the mark / release it / `transferRead`: the descriptor\nis sent to the new process -/\n" +
		"inductive HStep | lock | setMark | unlock | sendFd\nderiving DecidableEq, Repr\n"
	s += fmt.Sprintf("/-- `writeDirectly`, statement order of the source (mutex `%s`) -/\ndef writeSteps : List WStep := %s\n", wm, lst(wsteps))
	s += fmt.Sprintf("/-- `transfer` = `notifyTransfer` (mutex `%s`); `transferRead`; forwarding loop -/\ndef handoverSteps : List HStep := %s\n", nm, lst(hsteps))
	s += fmt.Sprintf("/-- `notifyTransfer` locks the mutex that `writeDirectly` holds over appendBuffer + doWrite -/\ndef sameMutex : Bool := %v\n", same)
	return s + footer("HandoverLock"), nil
}

func c11w9StmtKey(st ast.Stmt) string {
	if e, ok := st.(*ast.ExprStmt); ok {
		return exprKey(e.X)
	}
	return fmt.Sprintf("%T", st)
}
