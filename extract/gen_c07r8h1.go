package main

// Gen/H1SegOps.lean — the HTTP/1 connection reader as a byte queue (property C07, kind h1seg):
// pkg/stream/http/stream.go.
//
// Regenerated:
//   - serverLoopBrUses / clientLoopBrUses: every use of the connection's bufio reader (`<x>.br`) inside the `for` loop of
//     serverStreamConnection.serve / clientStreamConnection.serve, in source order:
//     `arg:<callee>` (handed to a call), `call:<method>` (a bufio.Reader method called on it), `assign` (`x.br = …`),
//     `alias` (right-hand side of an assignment / anything else);
//   - brAssignSites: every function of the file that assigns `.br`;
//   - brStrayUses: every use of `.br` outside the two loops that is not one of those assignments (`func:use`);
//   - readDrainsCopied: streamConnection.Read copies `data.Bytes()` into p and drains exactly the count copy returned,
//     and calls nothing else on the handed-over buffer;
//   - dispatchUntilEmpty: streamConnection.Dispatch is `for buffer.Len() > 0 { bufChan <- buffer; <-endRead }`;
//   - bufChanSenders / bufChanReceivers: the functions of the file that send to / receive from `.bufChan`.
// All helpers carry the prefix c07r8.

import (
	"fmt"
	"go/ast"
	"go/token"
	"go/types"
	"sort"
	"strings"
)

func init() { register("H1SegOps", genC07r8H1) }

const c07r8File = "pkg/stream/http/stream.go"

func c07r8FuncName(fd *ast.FuncDecl) string {
	if fd.Recv != nil && len(fd.Recv.List) > 0 {
		t := fd.Recv.List[0].Type
		if s, ok := t.(*ast.StarExpr); ok {
			t = s.X
		}
		return types.ExprString(t) + "." + fd.Name.Name
	}
	return fd.Name.Name
}

func c07r8IsBr(n ast.Node) bool {
	se, ok := n.(*ast.SelectorExpr)
	return ok && se.Sel.Name == "br"
}

// c07r8Uses lists the uses of `.br` below root in source order (each with its position).
type c07r8Use struct {
	pos  token.Pos
	what string
}

func c07r8Uses(root ast.Node) []c07r8Use {
	var out []c07r8Use
	var stack []ast.Node
	ast.Inspect(root, func(n ast.Node) bool {
		if n == nil {
			stack = stack[:len(stack)-1]
			return true
		}
		if c07r8IsBr(n) {
			what := "alias"
			if len(stack) > 0 {
				switch p := stack[len(stack)-1].(type) {
				case *ast.SelectorExpr:
					what = "alias"
					if p.X == n && len(stack) > 1 {
						if ce, ok := stack[len(stack)-2].(*ast.CallExpr); ok && ce.Fun == p {
							what = "call:" + p.Sel.Name
						}
					}
				case *ast.CallExpr:
					for _, a := range p.Args {
						if a == n {
							switch f := p.Fun.(type) {
							case *ast.SelectorExpr:
								what = "arg:" + f.Sel.Name
							case *ast.Ident:
								what = "arg:" + f.Name
							default:
								what = "arg:?"
							}
						}
					}
				case *ast.AssignStmt:
					for _, l := range p.Lhs {
						if l == n {
							what = "assign"
						}
					}
				}
			}
			out = append(out, c07r8Use{n.Pos(), what})
		}
		stack = append(stack, n)
		return true
	})
	sort.SliceStable(out, func(i, j int) bool { return out[i].pos < out[j].pos })
	return out
}

func c07r8Loop(fd *ast.FuncDecl) (*ast.ForStmt, error) {
	var loops []*ast.ForStmt
	for _, s := range fd.Body.List {
		if f, ok := s.(*ast.ForStmt); ok {
			loops = append(loops, f)
		}
	}
	if len(loops) != 1 || loops[0].Cond != nil || loops[0].Init != nil || loops[0].Post != nil {
		return nil, fmt.Errorf("%s: expected exactly one top-level `for { }` loop", c07r8FuncName(fd))
	}
	return loops[0], nil
}

func c07r8StrList(l []string) string {
	q := make([]string, len(l))
	for i, s := range l {
		q[i] = fmt.Sprintf("%q", s)
	}
	return "[" + strings.Join(q, ", ") + "]"
}

func c07r8Bool(b bool) string {
	if b {
		return "true"
	}
	return "false"
}

func genC07r8H1() (string, error) {
	f, err := parse(c07r8File)
	if err != nil {
		return "", err
	}
	loopUses := map[string][]string{}
	inLoop := map[token.Pos]bool{}
	for _, side := range []string{"serverStreamConnection", "clientStreamConnection"} {
		fd := findFunc(f, side, "serve")
		if fd == nil || fd.Body == nil {
			return "", fmt.Errorf("%s.serve not found", side)
		}
		loop, err := c07r8Loop(fd)
		if err != nil {
			return "", err
		}
		us := []string{}
		for _, u := range c07r8Uses(loop) {
			us = append(us, u.what)
			inLoop[u.pos] = true
		}
		loopUses[side] = us
	}
	assignSites := []string{}
	stray := []string{}
	senders := []string{}
	receivers := []string{}
	addOnce := func(l []string, s string) []string {
		for _, x := range l {
			if x == s {
				return l
			}
		}
		return append(l, s)
	}
	for _, d := range f.Decls {
		fd, ok := d.(*ast.FuncDecl)
		if !ok || fd.Body == nil {
			continue
		}
		name := c07r8FuncName(fd)
		for _, u := range c07r8Uses(fd) {
			if u.what == "assign" {
				assignSites = addOnce(assignSites, name)
				continue
			}
			if !inLoop[u.pos] {
				stray = append(stray, name+":"+u.what)
			}
		}
		ast.Inspect(fd, func(n ast.Node) bool {
			switch x := n.(type) {
			case *ast.SendStmt:
				if se, ok := x.Chan.(*ast.SelectorExpr); ok && se.Sel.Name == "bufChan" {
					senders = addOnce(senders, fd.Name.Name)
				}
			case *ast.UnaryExpr:
				if x.Op == token.ARROW {
					if se, ok := x.X.(*ast.SelectorExpr); ok && se.Sel.Name == "bufChan" {
						receivers = addOnce(receivers, fd.Name.Name)
					}
				}
			}
			return true
		})
	}
	sort.Strings(assignSites)
	// the loop-internal assignments are also reported as loop uses; an assignment inside a loop makes the site list differ too

	// Read: n = copy(p, data.Bytes()); data.Drain(n); nothing else on data
	readOK := false
	if fd := findFunc(f, "streamConnection", "Read"); fd != nil && fd.Body != nil {
		copied := ""
		drained := ""
		other := false
		ast.Inspect(fd, func(n ast.Node) bool {
			switch x := n.(type) {
			case *ast.AssignStmt:
				if len(x.Lhs) == 1 && len(x.Rhs) == 1 && types.ExprString(x.Rhs[0]) == "copy(p, data.Bytes())" {
					copied = types.ExprString(x.Lhs[0])
				}
			case *ast.CallExpr:
				if se, ok := x.Fun.(*ast.SelectorExpr); ok && types.ExprString(se.X) == "data" {
					switch se.Sel.Name {
					case "Bytes":
					case "Drain":
						if len(x.Args) == 1 && drained == "" {
							drained = types.ExprString(x.Args[0])
						} else {
							other = true
						}
					default:
						other = true
					}
				}
			}
			return true
		})
		readOK = copied != "" && copied == drained && !other
	} else {
		return "", fmt.Errorf("streamConnection.Read not found")
	}
	// Dispatch: for buffer.Len() > 0 { sc.bufChan <- buffer; <-sc.endRead }
	dispOK := false
	if fd := findFunc(f, "streamConnection", "Dispatch"); fd != nil && fd.Body != nil {
		for _, s := range fd.Body.List {
			fs, ok := s.(*ast.ForStmt)
			if !ok || fs.Cond == nil || fs.Init != nil || fs.Post != nil {
				continue
			}
			if types.ExprString(fs.Cond) != "buffer.Len() > 0" || len(fs.Body.List) != 2 {
				continue
			}
			snd, ok1 := fs.Body.List[0].(*ast.SendStmt)
			rcv, ok2 := fs.Body.List[1].(*ast.ExprStmt)
			if ok1 && ok2 && types.ExprString(snd.Chan) == "sc.bufChan" && types.ExprString(snd.Value) == "buffer" &&
				types.ExprString(rcv.X) == "<-sc.endRead" {
				dispOK = true
			}
		}
	} else {
		return "", fmt.Errorf("streamConnection.Dispatch not found")
	}

	var sb strings.Builder
	sb.WriteString(header("H1SegOps", c07r8File))
	sb.WriteString("def serverLoopBrUses : List String := " + c07r8StrList(loopUses["serverStreamConnection"]) + "\n")
	sb.WriteString("def clientLoopBrUses : List String := " + c07r8StrList(loopUses["clientStreamConnection"]) + "\n")
	sb.WriteString("def brAssignSites : List String := " + c07r8StrList(assignSites) + "\n")
	sb.WriteString("def brStrayUses : List String := " + c07r8StrList(stray) + "\n")
	sb.WriteString("def readDrainsCopied : Bool := " + c07r8Bool(readOK) + "\n")
	sb.WriteString("def dispatchUntilEmpty : Bool := " + c07r8Bool(dispOK) + "\n")
	sb.WriteString("def bufChanSenders : List String := " + c07r8StrList(senders) + "\n")
	sb.WriteString("def bufChanReceivers : List String := " + c07r8StrList(receivers) + "\n")
	sb.WriteString(footer("H1SegOps"))
	return sb.String(), nil
}
