-- translation-unsupported FilterRegs: open -out/pkg/streamfilter/chain.go: no such file or directory
namespace MosnVerif.Gen.FilterRegs
end MosnVerif.Gen.FilterRegs
