-- translation-unsupported ProxyTerminate: open -out/pkg/proxy/streamfilters.go: no such file or directory
namespace MosnVerif.Gen.ProxyTerminate
end MosnVerif.Gen.ProxyTerminate
