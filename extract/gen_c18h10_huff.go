package main

// Gen.HpackHuff (property C18, builder c18h10): pkg/module/http2/hpack/huffman.go statement by statement.
//
//	addDecoderNode / buildRootHuffmanNode   the construction of the 8-bit-stride decoding tree
//	huffmanDecode                            the tree walker: bit buffer, cbits / sbits bookkeeping, the maxLen guard, the
//	                                         trailing loop, the two padding tests
//	HuffmanEncodeLength                      the announced length
//	AppendHuffmanString / appendByteToHuffmanCode   the encoder's bit packing and its EOS padding
//
// Every function body must be, line for line, the template below; the holes become Lean definitions.

import (
	"fmt"
	"go/ast"
	"strings"
)

func init() { register("HpackHuff", c18hGenHuff) }

const c18hAddDecoderNode = `
{
cur := lazyRootHuffmanNode
for «addLoopGuard» {
codeLen -= «addLoopDec»
i := «addDescIdx»
if cur.children[i] == nil {
cur.children[i] = newInternalNode()
}
cur = cur.children[i]
}
shift := «addShift»
start, end := «addStart», «addEnd»
for i := start; i < «addFillEnd»; i++ {
cur.children[i] = &node{sym: sym, codeLen: codeLen}
}
}`

const c18hBuildRoot = `
{
if len(huffmanCodes) != «tableLen» {
panic("unexpected size")
}
lazyRootHuffmanNode = newInternalNode()
for i, code := range huffmanCodes {
addDecoderNode(byte(i), code, huffmanCodeLen[i])
}
}`

const c18hDecode = `
{
rootHuffmanNode := getRootHuffmanNode()
n := rootHuffmanNode
cur, cbits, sbits := uint(0), uint8(0), uint8(0)
for _, b := range v {
cur = «decFeed»
cbits += «decFeedBits»
sbits += «decFeedSbits»
for «decInnerGuard» {
idx := «decInnerIdx»
n = n.children[idx]
if n == nil {
return ErrInvalidHuffman
}
if n.children == nil {
if «decMaxLenHit» {
return ErrStringLength
}
buf.WriteByte(n.sym)
cbits -= «decLeafBits»
n = rootHuffmanNode
sbits = «decLeafSbits»
} else {
cbits -= «decDescBits»
}
}
}
for «decTailGuard» {
n = n.children[«decTailIdx»]
if n == nil {
return ErrInvalidHuffman
}
if «decTailBreak» {
break
}
if «decMaxLenHit» {
return ErrStringLength
}
buf.WriteByte(n.sym)
cbits -= «decLeafBits»
n = rootHuffmanNode
sbits = «decLeafSbits»
}
if «decSbitsBad» {
return ErrInvalidHuffman
}
if mask := «decMask»; «decMaskBad» {
return ErrInvalidHuffman
}
return nil
}`

const c18hEncodeLength = `
{
n := uint64(0)
for i := 0; i < len(s); i++ {
n += «encLenTerm»
}
return «encLenRound»
}`

const c18hAppendString = `
{
rembits := uint8(«encRemInit»)
for i := 0; i < len(s); i++ {
if rembits == «encRemFull» {
dst = append(dst, 0)
}
dst, rembits = appendByteToHuffmanCode(dst, rembits, s[i])
}
if rembits < «encRemFull» {
code := uint32(«eosCode»)
nbits := uint8(«eosLen»)
t := «encEosByte»
dst[len(dst)-1] |= t
}
return dst
}`

const c18hAppendByte = `
{
code := huffmanCodes[c]
nbits := huffmanCodeLen[c]
for {
if «encFits» {
t := «encLowByte»
dst[len(dst)-1] |= t
rembits -= «encFitsDec»
break
}
t := «encHighByte»
dst[len(dst)-1] |= t
nbits -= «encSpillDec»
rembits = «encRemReset»
if «encDone» {
break
}
dst = append(dst, 0)
}
return dst, rembits
}`

func c18hGenHuff() (string, error) {
	const dir = "pkg/module/http2/hpack"
	f, err := parse(dir + "/huffman.go")
	if err != nil {
		return "", err
	}
	s := header("HpackHuff", dir+"/huffman.go (addDecoderNode, buildRootHuffmanNode, huffmanDecode, HuffmanEncodeLength, AppendHuffmanString, appendByteToHuffmanCode)")
	match := func(fn, tpl string) (map[string]string, error) {
		fd := findFunc(f, "", fn)
		if fd == nil || fd.Body == nil {
			return nil, fmt.Errorf("%s not found", fn)
		}
		return c18hMatch(fn, fd.Body, tpl)
	}
	emit := func(t *c18hTr, h map[string]string, doc, name, params, pre, ctx, want string) error {
		src, ok := h[name]
		if !ok {
			return fmt.Errorf("hole %s missing", name)
		}
		d, err := t.def(doc, name, params, pre+src, ctx, want)
		if err != nil {
			return err
		}
		s += d
		return nil
	}
	type item struct{ doc, name, params, pre, ctx, want string }
	run := func(t *c18hTr, h map[string]string, items []item) error {
		for _, it := range items {
			if err := emit(t, h, it.doc, it.name, it.params, it.pre, it.ctx, it.want); err != nil {
				return err
			}
		}
		return nil
	}

	// --- addDecoderNode(sym byte, code uint32, codeLen uint8)
	h, err := match("addDecoderNode", c18hAddDecoderNode)
	if err != nil {
		return "", err
	}
	t := c18hNewTr(dir)
	t.bind("code", "code", "u32")
	t.bind("codeLen", "codeLen", "u8")
	t.bind("shift", "shift", "u8")
	t.bind("start", "start", "int")
	t.bind("end", "fend", "int")
	if err := run(t, h, []item{
		{"addDecoderNode: descend one level while", "addLoopGuard", "(codeLen : Nat)", "", "", "bool"},
		{"addDecoderNode: `codeLen -= …` (uint8)", "addLoopDec", "(codeLen : Nat)", "codeLen - ", "u8", "u8"},
		{"addDecoderNode: child index of the descent (after the decrement)", "addDescIdx", "(code codeLen : Nat)", "", "", "u8"},
		{"addDecoderNode: shift", "addShift", "(codeLen : Nat)", "", "u8", "u8"},
		{"addDecoderNode: first child index the leaf fills", "addStart", "(code shift : Nat)", "", "int", "int"},
		{"addDecoderNode: number of child indices the leaf fills", "addEnd", "(shift : Nat)", "", "int", "int"},
		{"addDecoderNode: the fill loop runs while i < this", "addFillEnd", "(start fend : Nat)", "", "int", "int"},
	}); err != nil {
		return "", err
	}
	h, err = match("buildRootHuffmanNode", c18hBuildRoot)
	if err != nil {
		return "", err
	}
	if err := run(c18hNewTr(dir), h, []item{{"buildRootHuffmanNode: required table size", "tableLen", "", "", "int", "int"}}); err != nil {
		return "", err
	}
	// huffmanCodes / huffmanCodeLen are arrays of one length, every element written out
	tf, err := parse(dir + "/tables.go")
	if err != nil {
		return "", err
	}
	arrLen := map[string]int64{}
	for _, d := range tf.Decls {
		gd, ok := d.(*ast.GenDecl)
		if !ok {
			continue
		}
		for _, sp := range gd.Specs {
			vs, ok := sp.(*ast.ValueSpec)
			if !ok || len(vs.Names) != 1 || len(vs.Values) != 1 {
				continue
			}
			if n := vs.Names[0].Name; n == "huffmanCodes" || n == "huffmanCodeLen" {
				cl, ok := vs.Values[0].(*ast.CompositeLit)
				if !ok {
					return "", fmt.Errorf("%s is not a composite literal", n)
				}
				at, ok := cl.Type.(*ast.ArrayType)
				if !ok || at.Len == nil {
					return "", fmt.Errorf("%s is not an array", n)
				}
				l, ok := evalInt(at.Len)
				if !ok || int(l) != len(cl.Elts) {
					return "", fmt.Errorf("%s: array length and number of elements differ", n)
				}
				for _, e := range cl.Elts {
					if _, isKV := e.(*ast.KeyValueExpr); isKV {
						return "", fmt.Errorf("%s: keyed element", n)
					}
				}
				arrLen[n] = l
			}
		}
	}
	if arrLen["huffmanCodes"] == 0 || arrLen["huffmanCodes"] != arrLen["huffmanCodeLen"] {
		return "", fmt.Errorf("huffmanCodes / huffmanCodeLen: array lengths %d / %d", arrLen["huffmanCodes"], arrLen["huffmanCodeLen"])
	}
	s += fmt.Sprintf("/-- tables.go: `huffmanCodes` and `huffmanCodeLen` are arrays of this length, every element written out -/\ndef tableArrayLen : Nat := %d\n", arrLen["huffmanCodes"])

	// --- huffmanDecode(buf, maxLen int, v []byte)
	h, err = match("huffmanDecode", c18hDecode)
	if err != nil {
		return "", err
	}
	t = c18hNewTr(dir)
	t.bind("cur", "cur", "u64")
	t.bind("cbits", "cbits", "u8")
	t.bind("sbits", "sbits", "u8")
	t.bind("b", "b", "u8")
	t.bind("maxLen", "maxLen", "int")
	t.bind("buf.Len()", "bufLen", "int")
	t.bind("n.codeLen", "codeLen", "u8")
	t.bind("n.children != nil", "hasChildren", "bool")
	t.bind("mask", "mask", "u64")
	if err := run(t, h, []item{
		{"huffmanDecode: a byte enters the bit buffer (uint, 64 bits)", "decFeed", "(cur b : Nat)", "", "u64", "u64"},
		{"huffmanDecode: `cbits += …`", "decFeedBits", "(cbits : Nat)", "cbits + ", "u8", "u8"},
		{"huffmanDecode: `sbits += …`", "decFeedSbits", "(sbits : Nat)", "sbits + ", "u8", "u8"},
		{"huffmanDecode: the lookup loop runs while", "decInnerGuard", "(cbits : Nat)", "", "", "bool"},
		{"huffmanDecode: child index of the lookup", "decInnerIdx", "(cur cbits : Nat)", "", "", "u8"},
		{"huffmanDecode: the output is full (both loops)", "decMaxLenHit", "(maxLen bufLen : Nat)", "", "", "bool"},
		{"huffmanDecode: `cbits -= …` at a leaf (both loops)", "decLeafBits", "(cbits codeLen : Nat)", "cbits - ", "u8", "u8"},
		{"huffmanDecode: `sbits = …` at a leaf, after cbits was updated (both loops)", "decLeafSbits", "(cbits : Nat)", "", "u8", "u8"},
		{"huffmanDecode: `cbits -= …` at an internal node", "decDescBits", "(cbits : Nat)", "cbits - ", "u8", "u8"},
		{"huffmanDecode: the trailing loop runs while", "decTailGuard", "(cbits : Nat)", "", "", "bool"},
		{"huffmanDecode: child index of the trailing lookup (zero-filled)", "decTailIdx", "(cur cbits : Nat)", "", "", "u8"},
		{"huffmanDecode: the trailing loop stops at", "decTailBreak", "(hasChildren : Bool) (codeLen cbits : Nat)", "", "", "bool"},
		{"huffmanDecode: incomplete symbol or overlong padding", "decSbitsBad", "(sbits : Nat)", "", "", "bool"},
		{"huffmanDecode: the padding mask", "decMask", "(cbits : Nat)", "", "u64", "u64"},
		{"huffmanDecode: the padding is not a prefix of EOS", "decMaskBad", "(cur mask : Nat)", "", "", "bool"},
	}); err != nil {
		return "", err
	}

	// --- HuffmanEncodeLength
	h, err = match("HuffmanEncodeLength", c18hEncodeLength)
	if err != nil {
		return "", err
	}
	t = c18hNewTr(dir)
	t.bind("n", "n", "u64")
	t.bind("huffmanCodeLen[s[i]]", "codeLen", "u8")
	if err := run(t, h, []item{
		{"HuffmanEncodeLength: `n += …`", "encLenTerm", "(n codeLen : Nat)", "n + ", "u64", "u64"},
		{"HuffmanEncodeLength: bits to bytes", "encLenRound", "(n : Nat)", "", "u64", "u64"},
	}); err != nil {
		return "", err
	}

	// --- AppendHuffmanString / appendByteToHuffmanCode
	h, err = match("AppendHuffmanString", c18hAppendString)
	if err != nil {
		return "", err
	}
	t = c18hNewTr(dir)
	t.bind("code", "code", "u32")
	t.bind("nbits", "nbits", "u8")
	t.bind("rembits", "rembits", "u8")
	if err := run(t, h, []item{
		{"AppendHuffmanString: free bits of a fresh byte", "encRemInit", "", "", "u8", "u8"},
		{"AppendHuffmanString: a new byte is appended when rembits equals / padding is written when rembits is below", "encRemFull", "", "", "u8", "u8"},
		{"AppendHuffmanString: EOS code", "eosCode", "", "", "u32", "u32"},
		{"AppendHuffmanString: EOS length in bits", "eosLen", "", "", "u8", "u8"},
		{"AppendHuffmanString: the padding OR-ed into the last byte", "encEosByte", "(code nbits rembits : Nat)", "", "", "u8"},
	}); err != nil {
		return "", err
	}
	h, err = match("appendByteToHuffmanCode", c18hAppendByte)
	if err != nil {
		return "", err
	}
	if err := run(t, h, []item{
		{"appendByteToHuffmanCode: the rest of the code fits the last byte with room to spare", "encFits", "(rembits nbits : Nat)", "", "", "bool"},
		{"appendByteToHuffmanCode: the rest of the code, shifted into place", "encLowByte", "(code rembits nbits : Nat)", "", "", "u8"},
		{"appendByteToHuffmanCode: `rembits -= …`", "encFitsDec", "(rembits nbits : Nat)", "rembits - ", "u8", "u8"},
		{"appendByteToHuffmanCode: the bits of the code that fill the last byte", "encHighByte", "(code rembits nbits : Nat)", "", "", "u8"},
		{"appendByteToHuffmanCode: `nbits -= …`", "encSpillDec", "(rembits nbits : Nat)", "nbits - ", "u8", "u8"},
		{"appendByteToHuffmanCode: `rembits = …`", "encRemReset", "", "", "u8", "u8"},
		{"appendByteToHuffmanCode: the code is written completely", "encDone", "(nbits : Nat)", "", "", "bool"},
	}); err != nil {
		return "", err
	}
	if !strings.Contains(s, "def decMaskBad") {
		return "", fmt.Errorf("internal: incomplete")
	}
	s += footer("HpackHuff")
	return s, nil
}
