package main

import (
	"fmt"
	"go/ast"
	"go/token"
	"sort"
	"strings"
)

func init() {
	register("H1Drain", c11h1Gen)
}

// ---------------------------------------------------------------------------------------------------------
// Gen.H1Drain: the drain mark of one HTTP/1 server connection (pkg/stream/http/stream.go, field
// serverStreamConnection.close).  During a hot upgrade the connection's read loop runs the transfer event listener
// installed by newServerStreamConnection (HTTP/1 connections cannot be handed over): it MARKS the connection; the
// request loop serve() marks it as well when a request carries `Connection: close`; serverStream.endStream answers
// `Connection: close` and closes the connection when the mark (or the request's own header) is set.
//
//   EVERY assignment to a field `.close` of the file is collected with the function it is in, its guard and its value:
//     markUpdate  old           the assignments inside the func literal given to SetTransferEventListener
//     parseUpdate old reqClose  the assignments of serve() (after a request was parsed), composed in source order
//   an assignment anywhere else, or under a shape other than `x.close = RHS` / `if COND { x.close = RHS }`, is
//   unsupported (the module is emitted empty and the proofs about the mark fail to build).
//     respCloses flag reqClose  the guard of endStream's `resetConn = true` branch

type c11h1Site struct {
	fn   string
	pos  token.Pos
	cond ast.Expr // nil: unguarded
	rhs  ast.Expr
	lit  *ast.FuncLit // innermost enclosing func literal (nil: none)
}

func c11h1IsCloseField(e ast.Expr) bool {
	s, ok := e.(*ast.SelectorExpr)
	return ok && s.Sel.Name == "close"
}

// c11h1Sites collects the assignments to a `.close` field inside fd.
func c11h1Sites(fd *ast.FuncDecl) ([]c11h1Site, error) {
	var out []c11h1Site
	var stack []ast.Node
	var ferr error
	ast.Inspect(fd, func(n ast.Node) bool {
		if n == nil {
			stack = stack[:len(stack)-1]
			return true
		}
		stack = append(stack, n)
		switch x := n.(type) {
		case *ast.IncDecStmt:
			if c11h1IsCloseField(x.X) {
				ferr = fmt.Errorf("%s: inc/dec of %s", fd.Name.Name, exprKey(x.X))
			}
		case *ast.UnaryExpr:
			if x.Op == token.AND && c11h1IsCloseField(x.X) {
				ferr = fmt.Errorf("%s: address of %s taken", fd.Name.Name, exprKey(x.X))
			}
		case *ast.AssignStmt:
			hit := -1
			for i, l := range x.Lhs {
				if c11h1IsCloseField(l) {
					hit = i
				}
			}
			if hit < 0 {
				return true
			}
			if x.Tok != token.ASSIGN || len(x.Lhs) != 1 || len(x.Rhs) != 1 {
				ferr = fmt.Errorf("%s: unsupported assignment form to %s", fd.Name.Name, exprKey(x.Lhs[hit]))
				return true
			}
			site := c11h1Site{fn: fd.Name.Name, pos: x.Pos(), rhs: x.Rhs[0]}
			// walk outwards: Block, then either one plain `if` (no init, no else, this assignment alone in its body)
			// or none; above that only blocks, loops, func literals and the call/statement wrappers around them
			guards := 0
			for i := len(stack) - 2; i >= 1; i-- {
				switch p := stack[i].(type) {
				case *ast.BlockStmt, *ast.ForStmt, *ast.RangeStmt, *ast.ExprStmt, *ast.CallExpr, *ast.GoStmt, *ast.DeferStmt:
				case *ast.FuncLit:
					if site.lit == nil {
						site.lit = p
					}
				case *ast.IfStmt:
					guards++
					if guards > 1 || site.lit != nil || p.Init != nil || p.Else != nil || len(p.Body.List) != 1 || p.Body.List[0] != ast.Stmt(x) {
						ferr = fmt.Errorf("%s: assignment to %s under an unsupported guard shape", fd.Name.Name, exprKey(x.Lhs[0]))
						return true
					}
					site.cond = p.Cond
				default:
					ferr = fmt.Errorf("%s: assignment to %s inside %T", fd.Name.Name, exprKey(x.Lhs[0]), p)
					return true
				}
			}
			out = append(out, site)
		}
		return true
	})
	return out, ferr
}

func c11h1Gen() (string, error) {
	const src = "pkg/stream/http/stream.go"
	f, err := parse(src)
	if err != nil {
		return "", err
	}
	var sites []c11h1Site
	for _, d := range f.Decls {
		fd, ok := d.(*ast.FuncDecl)
		if !ok || fd.Body == nil {
			continue
		}
		ss, err := c11h1Sites(fd)
		if err != nil {
			return "", err
		}
		sites = append(sites, ss...)
	}
	sort.Slice(sites, func(i, j int) bool { return sites[i].pos < sites[j].pos })
	// the func literal handed to SetTransferEventListener in newServerStreamConnection
	ctor := findFunc(f, "", "newServerStreamConnection")
	if ctor == nil {
		return "", fmt.Errorf("newServerStreamConnection not found")
	}
	var markLit *ast.FuncLit
	for _, c := range callsTo(ctor, "ssc.conn.SetTransferEventListener") {
		if len(c.Args) == 1 {
			if l, ok := c.Args[0].(*ast.FuncLit); ok {
				markLit = l
			}
		}
	}
	if markLit == nil {
		return "", fmt.Errorf("newServerStreamConnection: ssc.conn.SetTransferEventListener(func() bool {…}) not found")
	}
	// the listener refuses the hand-over (`return false`): the connection stays with the old process
	refuses := false
	if n := len(markLit.Body.List); n > 0 {
		refuses = c11h2IsReturnOf(markLit.Body.List[n-1], "false")
	}
	if !refuses {
		return "", fmt.Errorf("transfer event listener of the HTTP/1 server connection does not end in `return false`")
	}
	s := header("H1Drain", src+" (every assignment to serverStreamConnection.close; serverStream.endStream)")
	s += "set_option linter.unusedVariables false\n"
	render := func(site c11h1Site, names map[string]string, old string) (string, error) {
		env := &Env{Names: names, Calls: map[string]string{}}
		r, err := env.expr(site.rhs)
		if err != nil {
			return "", fmt.Errorf("%s: value `%s` assigned to the close mark: %v", site.fn, exprKey(site.rhs), err)
		}
		if site.cond == nil {
			return r, nil
		}
		c, err := env.expr(site.cond)
		if err != nil {
			return "", fmt.Errorf("%s: guard `%s` of the assignment to the close mark: %v", site.fn, exprKey(site.cond), err)
		}
		return "(if " + c + " then " + r + " else " + old + ")", nil
	}
	mark, parseU := "old", "old"
	var doc []string
	for _, site := range sites {
		g := "-"
		if site.cond != nil {
			g = exprKey(site.cond)
		}
		doc = append(doc, fmt.Sprintf("(%q, %q, %q)", site.fn, g, exprKey(site.rhs)))
		switch {
		case site.fn == "newServerStreamConnection" && site.lit == markLit:
			r, err := render(site, map[string]string{"ssc.close": mark}, mark)
			if err != nil {
				return "", err
			}
			mark = r
		case site.fn == "serve" && site.lit == nil:
			r, err := render(site, map[string]string{"s.connection.close": parseU, "conn.close": parseU, "s.header.ConnectionClose()": "reqClose",
				"request.Header.ConnectionClose()": "reqClose", "s.request.Header.ConnectionClose()": "reqClose"}, parseU)
			if err != nil {
				return "", err
			}
			parseU = r
		default:
			return "", fmt.Errorf("%s: assignment to a `.close` mark outside the modelled sites (transfer event listener, serve)", site.fn)
		}
	}
	s += "/-- every assignment to a field `.close` in the file: (function, guard, value) -/\n"
	s += "def closeAssignments : List (String × String × String) := [" + strings.Join(doc, ", ") + "]\n"
	s += "/-- the transfer event listener (run by the connection's read loop once the old process stops its connections) -/\n"
	s += "def markUpdate (old : Bool) : Bool := " + mark + "\n"
	s += "/-- serve(): after a request was parsed (`reqClose` = the request carries `Connection: close`) -/\n"
	s += "def parseUpdate (old reqClose : Bool) : Bool := " + parseU + "\n"
	// ---- endStream
	es := findFunc(f, "serverStream", "endStream")
	if es == nil {
		return "", fmt.Errorf("serverStream.endStream not found")
	}
	var closeIf *ast.IfStmt
	closesConn := false
	for _, st := range es.Body.List {
		ifs, ok := st.(*ast.IfStmt)
		if !ok {
			continue
		}
		if closeIf == nil && c11Mentions(ifs.Cond, "s.connection.close") {
			closeIf = ifs
		}
		if exprKey(ifs.Cond) == "resetConn" && len(callsTo(ifs.Body, "s.connection.conn.Close")) == 1 {
			closesConn = true
		}
	}
	if closeIf == nil || closeIf.Init != nil {
		return "", fmt.Errorf("endStream: `if s.connection.close || … {` not found")
	}
	setsReset := false
	for _, st := range closeIf.Body.List {
		if a, ok := st.(*ast.AssignStmt); ok && len(a.Lhs) == 1 && exprKey(a.Lhs[0]) == "resetConn" && exprKey(a.Rhs[0]) == "true" {
			setsReset = true
		}
	}
	if !setsReset || !closesConn || len(callsTo(closeIf.Body, "s.response.SetConnectionClose")) != 1 {
		return "", fmt.Errorf("endStream: the close branch does not `SetConnectionClose(); resetConn = true` followed by `if resetConn { …conn.Close }`")
	}
	// resetConn is assigned nowhere else
	n := 0
	ast.Inspect(es, func(x ast.Node) bool {
		if a, ok := x.(*ast.AssignStmt); ok {
			for _, l := range a.Lhs {
				if exprKey(l) == "resetConn" {
					n++
				}
			}
		}
		return true
	})
	if n != 2 { // `resetConn := false` and `resetConn = true`
		return "", fmt.Errorf("endStream: resetConn is assigned %d times (expected the declaration and the close branch)", n)
	}
	env := &Env{Names: map[string]string{"s.connection.close": "flag", "s.request.Header.ConnectionClose()": "reqClose", "s.header.ConnectionClose()": "reqClose"}, Calls: map[string]string{}}
	c, err := env.expr(closeIf.Cond)
	if err != nil {
		return "", fmt.Errorf("endStream: close guard `%s`: %v", exprKey(closeIf.Cond), err)
	}
	s += "/-- serverStream.endStream: the response carries `Connection: close` and the connection is closed after it -/\n"
	s += "def respCloses (flag reqClose : Bool) : Bool := " + c + "\n"
	s += footer("H1Drain")
	return s, nil
}
