package main

// Gen/ConfigCb.lean (C19): what cluster.NewResourceManager (pkg/upstream/cluster/resource_manager.go) reads from a
// cluster's circuit_breakers: for each of the four resources the default constant, and the entry index and field of
// v2.Thresholds used when the list is not empty.

import (
	"fmt"
	"go/ast"
	"go/token"
	"go/types"
	"strings"
)

func init() {
	register("ConfigCb", c19cbGen)
}

func c19cbGen() (string, error) {
	const file = "pkg/upstream/cluster/resource_manager.go"
	f, err := parse(file)
	if err != nil {
		return "", err
	}
	fd := findFunc(f, "", "NewResourceManager")
	if fd == nil || fd.Type.Params == nil || len(fd.Type.Params.List) != 1 || len(fd.Type.Params.List[0].Names) != 1 {
		return "", fmt.Errorf("NewResourceManager(circuitBreakers) not found")
	}
	param := fd.Type.Params.List[0].Names[0].Name
	list := param + ".Thresholds"
	defaults := map[string]int64{} // local variable -> default
	type pick struct {
		idx   int64
		field string
	}
	picks := map[string]pick{}
	guard := ""
	var order []string // resource name -> local, in the order of the returned struct
	resVar := map[string]string{}
	for _, st := range fd.Body.List {
		switch s := st.(type) {
		case *ast.AssignStmt:
			if s.Tok == token.DEFINE && len(s.Lhs) == 1 && len(s.Rhs) == 1 {
				id, ok1 := s.Lhs[0].(*ast.Ident)
				c, ok2 := s.Rhs[0].(*ast.Ident)
				if !ok1 || !ok2 {
					return "", fmt.Errorf("unsupported statement %s := %s", exprKey(s.Lhs[0]), exprKey(s.Rhs[0]))
				}
				v, err := intConst("pkg/upstream/cluster", c.Name)
				if err != nil {
					return "", err
				}
				defaults[id.Name] = v
				continue
			}
			return "", fmt.Errorf("unsupported assignment in NewResourceManager")
		case *ast.IfStmt:
			if s.Init != nil || s.Else != nil || guard != "" {
				return "", fmt.Errorf("unsupported conditional in NewResourceManager")
			}
			guard = types.ExprString(s.Cond)
			for _, b := range s.Body.List {
				as, ok := b.(*ast.AssignStmt)
				if !ok || as.Tok != token.ASSIGN || len(as.Lhs) != 1 || len(as.Rhs) != 1 {
					return "", fmt.Errorf("unsupported statement under the thresholds guard")
				}
				id, ok := as.Lhs[0].(*ast.Ident)
				if !ok {
					return "", fmt.Errorf("unsupported assignment target %s", exprKey(as.Lhs[0]))
				}
				// uint64(<param>.Thresholds[<i>].<Field>)
				call, ok := as.Rhs[0].(*ast.CallExpr)
				if !ok || exprKey(call.Fun) != "uint64" || len(call.Args) != 1 {
					return "", fmt.Errorf("unsupported value %s", exprKey(as.Rhs[0]))
				}
				sel, ok := call.Args[0].(*ast.SelectorExpr)
				if !ok {
					return "", fmt.Errorf("unsupported value %s", exprKey(as.Rhs[0]))
				}
				ix, ok := sel.X.(*ast.IndexExpr)
				if !ok || exprKey(ix.X) != list {
					return "", fmt.Errorf("unsupported value %s", exprKey(as.Rhs[0]))
				}
				lit, ok := ix.Index.(*ast.BasicLit)
				if !ok || lit.Kind != token.INT {
					return "", fmt.Errorf("unsupported index %s", exprKey(ix.Index))
				}
				var n int64
				fmt.Sscan(lit.Value, &n)
				if _, known := defaults[id.Name]; !known {
					return "", fmt.Errorf("%s has no default", id.Name)
				}
				picks[id.Name] = pick{n, sel.Sel.Name}
			}
		case *ast.ReturnStmt:
			if len(s.Results) != 1 {
				return "", fmt.Errorf("unsupported return")
			}
			u, ok := s.Results[0].(*ast.UnaryExpr)
			if !ok {
				return "", fmt.Errorf("unsupported return value")
			}
			cl, ok := u.X.(*ast.CompositeLit)
			if !ok {
				return "", fmt.Errorf("unsupported return value")
			}
			for _, e := range cl.Elts {
				kv, ok := e.(*ast.KeyValueExpr)
				if !ok {
					return "", fmt.Errorf("unsupported resource literal")
				}
				// <resource>: &resource{max: <local>}
				ru, ok := kv.Value.(*ast.UnaryExpr)
				if !ok {
					return "", fmt.Errorf("unsupported resource literal")
				}
				rl, ok := ru.X.(*ast.CompositeLit)
				if !ok || len(rl.Elts) != 1 {
					return "", fmt.Errorf("unsupported resource literal")
				}
				mkv, ok := rl.Elts[0].(*ast.KeyValueExpr)
				if !ok || exprKey(mkv.Key) != "max" {
					return "", fmt.Errorf("unsupported resource literal")
				}
				order = append(order, exprKey(kv.Key))
				resVar[exprKey(kv.Key)] = exprKey(mkv.Value)
			}
		default:
			return "", fmt.Errorf("unsupported statement in NewResourceManager")
		}
	}
	wantGuard := []string{list + " != nil && len(" + list + ") > 0", "len(" + list + ") > 0"}
	if guard != wantGuard[0] && guard != wantGuard[1] {
		return "", fmt.Errorf("the thresholds are used under the condition %q, expected a non-empty list", guard)
	}
	want := []string{"connections", "pendingRequests", "requests", "retries"}
	if strings.Join(order, ",") != strings.Join(want, ",") {
		return "", fmt.Errorf("resources %v, expected %v", order, want)
	}
	var rows []string
	for _, r := range order {
		v := resVar[r]
		d, ok := defaults[v]
		p, ok2 := picks[v]
		if !ok || !ok2 {
			return "", fmt.Errorf("resource %s: limit %s is not a default overridden from the thresholds", r, v)
		}
		rows = append(rows, fmt.Sprintf("(%q, %d, %d, %q)", r, d, p.idx, p.field))
	}
	s := header("ConfigCb", file)
	s += "\n/-- NewResourceManager: (resource, default limit, index of the thresholds entry used when the list is not empty, its field) -/\n"
	s += "def plan : List (String × Nat × Nat × String) := [" + strings.Join(rows, ", ") + "]\n\n"
	s += footer("ConfigCb")
	return s, nil
}
