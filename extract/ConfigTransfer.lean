-- translation-unsupported ConfigTransfer: open -out/pkg/configmanager/dump_action.go: no such file or directory
namespace MosnVerif.Gen.ConfigTransfer
end MosnVerif.Gen.ConfigTransfer
