-- translation-unsupported C01HttpFraming: open -out/pkg/stream/http/stream.go: no such file or directory
namespace MosnVerif.Gen.C01HttpFraming
end MosnVerif.Gen.C01HttpFraming
