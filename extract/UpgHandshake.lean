-- translation-unsupported UpgHandshake: open -out/pkg/server/reconfigure.go: no such file or directory
namespace MosnVerif.Gen.UpgHandshake
end MosnVerif.Gen.UpgHandshake
