-- translation-unsupported HealthDispatch: open -out/pkg/upstream/healthcheck/session_checker.go: no such file or directory
namespace MosnVerif.Gen.HealthDispatch
end MosnVerif.Gen.HealthDispatch
