package main

// Gen module TcpProxy (property C10, TCP half): the connection life cycle of the stream proxy network filter,
// pkg/filter/network/streamproxy/streamproxy.go, statement by statement and generic in the state:
//
//   initializeUpstreamConnection  (breaker check, retry-over-hosts loop with its continue / break, what is counted
//                                  before / after the dial and on which exit)
//   onInitFailure, closeUpstreamConnection, finalizeUpstreamConnectionStats, onUpstreamEventStats,
//   onUpstreamEvent, onDownstreamEvent
//
// plus api.ConnectionEvent (declaration order), ConnectionEvent.IsClose, api.ConnectionCloseType, the response flags and
// the stats names the file uses, defaultConnectRetryTimes, and three wiring facts (which callback calls which handler).
// Every statement must be recognised: an unknown statement, a counter touched in a function that is not translated,
// or a resource other than Connections() is an error (translation-unsupported => broken tie).
// All helper names of this file carry the prefix c10t.

import (
	"fmt"
	"go/ast"
	"go/parser"
	"go/token"
	"os"
	"path/filepath"
	"regexp"
	"sort"
	"strings"
)

func init() { register("TcpProxy", genC10TcpProxy) }

const c10tPath = "pkg/filter/network/streamproxy/streamproxy.go"

// c10tFn is the per-function translation context.
type c10tFn struct {
	name     string
	locals   []string          // threaded locals besides s, in order
	ltypes   map[string]string // their Lean types
	ret      func(rs []string) (string, error)
	resVars  map[string]bool // local names bound to the cluster's Connections() resource
	nk       int
	funcs    map[string]*ast.FuncDecl // methods of *proxy by name
	flags    map[string]bool
	stats    map[string]bool
	events   map[string]bool
	neutral  map[string]bool // methods of *proxy proven neutral (no counter / close / host statement)
	emitted  map[string]bool // functions translated (callable as `name o s`)
	loopBody []ast.Stmt      // body of the retry-over-hosts loop (rendered as <name>Loop)
}

var (
	c10tReFlag     = regexp.MustCompile(`^p\.requestInfo\.SetResponseFlag\(api\.(\w+)\)$`)
	c10tReReqInfo  = regexp.MustCompile(`^p\.requestInfo\.\w+\(.*\)$`)
	c10tReHostStat = regexp.MustCompile(`^(connectionData\.Host|host)\.HostStats\(\)\.(\w+)\.(Inc|Dec)\((\d+)\)$`)
	c10tReCluStat  = regexp.MustCompile(`^p\.clusterInfo\.Stats\(\)\.(\w+)\.(Inc|Dec)\((\d+)\)$`)
	c10tReResChain = regexp.MustCompile(`^(host|p\.clusterInfo|clusterInfo)(\.ClusterInfo\(\))?\.ResourceManager\(\)\.(\w+)\(\)\.(Increase|Decrease)\(\)$`)
	c10tReResVar   = regexp.MustCompile(`^(\w+)\.(Increase|Decrease)\(\)$`)
	c10tReResBind  = regexp.MustCompile(`^(\w+) := clusterInfo\.ResourceManager\(\)\.(\w+)\(\)$`)
	c10tReCloseDn  = regexp.MustCompile(`^p\.readCallbacks\.Connection\(\)\.Close\(api\.(\w+), api\.(\w+)\)$`)
	c10tReCloseUp  = regexp.MustCompile(`^p\.upstreamConnection\.Close\(api\.(\w+), api\.(\w+)\)$`)
	c10tReSelfCall = regexp.MustCompile(`^p\.(\w+)\((\w*)\)$`)
)

// statements with no effect on the ledger, the connections or the session's host (exact canonical text)
var c10tSkipExact = map[string]bool{
	"clusterName := p.getUpstreamCluster()":                                                                                          true,
	"clusterSnapshot := p.clusterManager.GetClusterSnapshot(context.Background(), clusterName)":                                      true,
	"clusterInfo := clusterSnapshot.ClusterInfo()":                                                                                   true,
	"ctx := &LbContext{ conn: p.readCallbacks, ctx: p.ctx, cluster: clusterInfo, }":                                                  true,
	"var connectionData types.CreateConnectionData":                                                                                  true,
	"upstreamConnection := connectionData.Connection":                                                                                true,
	"hostInfo := p.readCallbacks.UpstreamHost()":                                                                                     true,
	"p.upstreamConnection.SetCollector(p.clusterInfo.Stats().UpstreamBytesReadTotal, p.clusterInfo.Stats().UpstreamBytesWriteTotal)": true,
	"p.readCallbacks.Connection().SetReadDisable(false)":                                                                             true,
	"p.readCallbacks.Connection().SetReadDisable(true)":                                                                              true,
}

// c10tTouches: does the node contain a call that can move a counter, close a connection, connect, or set the host?
func c10tTouches(n ast.Node) []string {
	var out []string
	ast.Inspect(n, func(x ast.Node) bool {
		ce, ok := x.(*ast.CallExpr)
		if !ok {
			return true
		}
		se, ok := ce.Fun.(*ast.SelectorExpr)
		if !ok {
			return true
		}
		switch se.Sel.Name {
		case "Increase", "Decrease", "Inc", "Dec", "UpdateCur", "Close", "Connect", "SetUpstreamHost":
			out = append(out, src(ce))
		}
		return true
	})
	return out
}

func (t *c10tFn) tuple() string {
	return "(" + strings.Join(append([]string{"s"}, t.locals...), ", ") + ")"
}

func (t *c10tFn) params() string {
	ps := []string{"(s : σ)"}
	for _, v := range t.locals {
		ps = append(ps, "("+v+" : "+t.ltypes[v]+")")
	}
	return strings.Join(ps, " ")
}

func (t *c10tFn) callArgs() string { return strings.Join(append([]string{"s"}, t.locals...), " ") }

// c10tCtl: the Lean expressions a terminator is rendered to.
type c10tCtl struct {
	fall string // falling off the end of the statement list
	cont string // `continue` ("" = not inside a loop)
	brk  string // `break`
}

func (t *c10tFn) isLocal(v string) bool {
	for _, l := range t.locals {
		if l == v {
			return true
		}
	}
	return false
}

// intExpr renders the tiny integer sub-language of the loop bound.
func (t *c10tFn) intExpr(e ast.Expr) (string, error) {
	switch x := e.(type) {
	case *ast.Ident:
		if t.isLocal(x.Name) && t.ltypes[x.Name] == "Int" {
			return x.Name, nil
		}
		if x.Name == "defaultConnectRetryTimes" {
			return "defaultConnectRetryTimes", nil
		}
	case *ast.BasicLit:
		if x.Kind == token.INT {
			return "(" + x.Value + " : Int)", nil
		}
	case *ast.ParenExpr:
		return t.intExpr(x.X)
	}
	return "", fmt.Errorf("%s: unsupported integer expression %s", t.name, src(e))
}

func (t *c10tFn) cond(e ast.Expr) (string, error) {
	k := src(e)
	switch k {
	case "clusterSnapshot == nil || reflect.ValueOf(clusterSnapshot).IsNil()":
		return "(o.snapshotNil s)", nil
	case "connectionData.Connection == nil":
		return "(o.connNil s)", nil
	case "p.upstreamConnection != nil":
		return "(o.upstreamConnSet s)", nil
	case "event.IsClose()":
		return "(Event.isClose event)", nil
	case "err != nil":
		if t.isLocal("err") {
			return "err", nil
		}
	}
	switch x := e.(type) {
	case *ast.Ident:
		if t.isLocal(x.Name) && t.ltypes[x.Name] == "Bool" {
			return x.Name, nil
		}
	case *ast.ParenExpr:
		return t.cond(x.X)
	case *ast.UnaryExpr:
		if x.Op == token.NOT {
			c, err := t.cond(x.X)
			if err != nil {
				return "", err
			}
			return "(!" + c + ")", nil
		}
	case *ast.CallExpr:
		if t.isCanCreate(x) && t.isLocal("can") {
			return "can", nil
		}
	case *ast.BinaryExpr:
		switch x.Op {
		case token.LAND, token.LOR:
			a, err := t.cond(x.X)
			if err != nil {
				return "", err
			}
			b, err := t.cond(x.Y)
			if err != nil {
				return "", err
			}
			op := "&&"
			if x.Op == token.LOR {
				op = "||"
			}
			return "(" + a + " " + op + " " + b + ")", nil
		case token.EQL, token.NEQ, token.LSS, token.LEQ, token.GTR, token.GEQ:
			a, err := t.intExpr(x.X)
			if err != nil {
				return "", err
			}
			b, err := t.intExpr(x.Y)
			if err != nil {
				return "", err
			}
			op := map[token.Token]string{token.EQL: "=", token.NEQ: "≠", token.LSS: "<", token.LEQ: "≤", token.GTR: ">", token.GEQ: "≥"}[x.Op]
			return "(decide (" + a + " " + op + " " + b + "))", nil
		}
	}
	return "", fmt.Errorf("%s: unsupported condition %s", t.name, k)
}

func (t *c10tFn) isCanCreate(x *ast.CallExpr) bool {
	if se, ok := x.Fun.(*ast.SelectorExpr); ok && se.Sel.Name == "CanCreate" && len(x.Args) == 0 {
		if id, ok := se.X.(*ast.Ident); ok && t.resVars[id.Name] {
			return true
		}
	}
	return false
}

// canCreateCalls counts the CanCreate() calls on the connections resource inside a condition: the admission test is
// rendered as a step of its own (`let (s, can) := o.canCreate s`) so that the model can place it in the order of events.
func (t *c10tFn) canCreateCalls(e ast.Expr) int {
	n := 0
	ast.Inspect(e, func(x ast.Node) bool {
		if ce, ok := x.(*ast.CallExpr); ok && t.isCanCreate(ce) {
			n++
		}
		return true
	})
	return n
}

func c10tSign(op, n string) string {
	if op == "Dec" {
		return "(-" + n + ")"
	}
	return "(" + n + ")"
}

// simple renders a statement without control flow to zero or more `let` lines; ok=false when it is not such a statement.
func (t *c10tFn) simple(st ast.Stmt) (lines []string, ok bool, err error) {
	if isLogStmt(st) || pxIsLogStmt(st) {
		return nil, true, nil
	}
	k := src(st)
	if c10tSkipExact[k] {
		return nil, true, nil
	}
	if m := c10tReFlag.FindStringSubmatch(k); m != nil {
		t.flags[m[1]] = true
		return []string{"let s := o.flag Flag." + m[1] + " s"}, true, nil
	}
	if c10tReReqInfo.MatchString(k) {
		return nil, true, nil
	}
	if m := c10tReHostStat.FindStringSubmatch(k); m != nil {
		t.stats[m[2]] = true
		return []string{"let s := o.bump Scope.host Stat." + m[2] + " " + c10tSign(m[3], m[4]) + " s"}, true, nil
	}
	if m := c10tReCluStat.FindStringSubmatch(k); m != nil {
		t.stats[m[1]] = true
		return []string{"let s := o.bump Scope.cluster Stat." + m[1] + " " + c10tSign(m[2], m[3]) + " s"}, true, nil
	}
	if m := c10tReResBind.FindStringSubmatch(k); m != nil {
		if m[2] != "Connections" {
			return nil, false, fmt.Errorf("%s: resource %s() is not the connections resource: %s", t.name, m[2], k)
		}
		t.resVars[m[1]] = true
		return nil, true, nil
	}
	if m := c10tReResChain.FindStringSubmatch(k); m != nil {
		if m[3] != "Connections" {
			return nil, false, fmt.Errorf("%s: resource %s() is not the connections resource: %s", t.name, m[3], k)
		}
		return []string{"let s := o.res" + m[4] + " s"}, true, nil
	}
	if m := c10tReResVar.FindStringSubmatch(k); m != nil && t.resVars[m[1]] {
		return []string{"let s := o.res" + m[2] + " s"}, true, nil
	}
	if m := c10tReCloseDn.FindStringSubmatch(k); m != nil {
		t.events[m[2]] = true
		return []string{"let s := o.closeDownstream CloseType." + m[1] + " Event." + m[2] + " s"}, true, nil
	}
	if m := c10tReCloseUp.FindStringSubmatch(k); m != nil {
		t.events[m[2]] = true
		return []string{"let s := o.closeUpstream CloseType." + m[1] + " Event." + m[2] + " s"}, true, nil
	}
	switch k {
	case "p.clusterInfo = clusterInfo":
		return []string{"let s := o.setClusterInfo s"}, true, nil
	case "retryTime := clusterSnapshot.HostNum(nil)":
		return []string{"let retryTime := o.hostNum s"}, true, nil
	case "connected := false", "connected = false":
		return []string{"let connected := false"}, true, nil
	case "connected = true":
		return []string{"let connected := true"}, true, nil
	case "connectionData = p.getUpstreamConnection(ctx, clusterSnapshot)":
		return []string{"let s := o.getConn s"}, true, nil
	case "upstreamConnection.AddConnectionEventListener(p.upstreamCallbacks)":
		return []string{"let s := o.addListener s"}, true, nil
	case "upstreamConnection.FilterManager().AddReadFilter(p.upstreamCallbacks)":
		return []string{"let s := o.addReadFilter s"}, true, nil
	case "p.upstreamConnection = upstreamConnection":
		return []string{"let s := o.setUpstreamConn s"}, true, nil
	case "p.readCallbacks.SetUpstreamHost(connectionData.Host)":
		return []string{"let s := o.setUpstreamHost s"}, true, nil
	case "host, ok := p.readCallbacks.UpstreamHost().(types.Host)", "host, ok := hostInfo.(types.Host)":
		if !t.isLocal("ok") {
			return nil, false, fmt.Errorf("%s: local ok not declared", t.name)
		}
		return []string{"let ok := o.hostKnown s"}, true, nil
	case "err := upstreamConnection.Connect()":
		if !t.isLocal("err") {
			return nil, false, fmt.Errorf("%s: local err not declared", t.name)
		}
		return []string{"let (s, err) := o.connect s"}, true, nil
	}
	if as, isAs := st.(*ast.AssignStmt); isAs && len(as.Lhs) == 1 && len(as.Rhs) == 1 && as.Tok == token.ASSIGN {
		if id, isId := as.Lhs[0].(*ast.Ident); isId && t.isLocal(id.Name) && t.ltypes[id.Name] == "Int" {
			e, err := t.intExpr(as.Rhs[0])
			if err != nil {
				return nil, false, err
			}
			return []string{"let " + id.Name + " := " + e}, true, nil
		}
	}
	if m := c10tReSelfCall.FindStringSubmatch(k); m != nil {
		callee := m[1]
		if t.emitted[callee] {
			switch m[2] {
			case "":
				return []string{"let s := " + callee + " o s"}, true, nil
			case "event":
				return []string{"let s := " + callee + " o event s"}, true, nil
			default:
				if callee == "onInitFailure" { // the reason argument is unused by the body (checked where it is translated)
					return []string{"let s := onInitFailure o s"}, true, nil
				}
			}
		}
		if t.neutral[callee] {
			return nil, true, nil
		}
		return nil, false, fmt.Errorf("%s: call of a method that is neither translated nor neutral: %s", t.name, k)
	}
	return nil, false, nil
}

func c10tTerminates(l []ast.Stmt) bool {
	if len(l) == 0 {
		return false
	}
	switch x := l[len(l)-1].(type) {
	case *ast.ReturnStmt:
		return true
	case *ast.BranchStmt:
		return x.Tok == token.CONTINUE || x.Tok == token.BREAK
	case *ast.IfStmt:
		eb, ok := x.Else.(*ast.BlockStmt)
		return ok && c10tTerminates(x.Body.List) && c10tTerminates(eb.List)
	}
	return false
}

func (t *c10tFn) lets(lines []string, ind, k string) string {
	if len(lines) == 0 {
		return k
	}
	return strings.Join(lines, "\n"+ind) + "\n" + ind + k
}

// block renders a statement list; control leaves it through ctl.
func (t *c10tFn) block(stmts []ast.Stmt, ind string, ctl c10tCtl) (string, error) {
	if len(stmts) == 0 {
		return ctl.fall, nil
	}
	st, rest := stmts[0], stmts[1:]
	lines, ok, err := t.simple(st)
	if err != nil {
		return "", err
	}
	if ok {
		k, err := t.block(rest, ind, ctl)
		if err != nil {
			return "", err
		}
		return t.lets(lines, ind, k), nil
	}
	// join: render `rest` once as a local continuation when control can fall out of the compound statement
	withJoin := func(canFall bool, body func(after c10tCtl) (string, error)) (string, error) {
		if !canFall || len(rest) == 0 {
			return body(ctl)
		}
		t.nk++
		kn := fmt.Sprintf("k%d", t.nk)
		rb, err := t.block(rest, ind+"  ", ctl)
		if err != nil {
			return "", err
		}
		after := ctl
		after.fall = kn + " " + t.callArgs()
		b, err := body(after)
		if err != nil {
			return "", err
		}
		return "let " + kn + " := fun " + t.params() + " =>\n" + ind + "  " + rb + "\n" + ind + b, nil
	}
	switch x := st.(type) {
	case *ast.ReturnStmt:
		var rs []string
		for _, r := range x.Results {
			rs = append(rs, src(r))
		}
		return t.ret(rs)
	case *ast.BranchStmt:
		switch {
		case x.Tok == token.CONTINUE && x.Label == nil && ctl.cont != "":
			return ctl.cont, nil
		case x.Tok == token.BREAK && x.Label == nil && ctl.brk != "":
			return ctl.brk, nil
		}
		return "", fmt.Errorf("%s: unsupported branch statement %s", t.name, src(x))
	case *ast.BlockStmt:
		return t.block(append(append([]ast.Stmt{}, x.List...), rest...), ind, ctl)
	case *ast.IfStmt:
		var pre []string
		if x.Init != nil {
			l, ok, err := t.simple(x.Init)
			if err != nil {
				return "", err
			}
			if !ok {
				return "", fmt.Errorf("%s: unsupported if-init %s", t.name, src(x.Init))
			}
			pre = l
		}
		switch t.canCreateCalls(x.Cond) {
		case 0:
		case 1:
			pre = append(pre, "let (s, can) := o.canCreate s")
		default:
			return "", fmt.Errorf("%s: several CanCreate() calls in one condition: %s", t.name, src(x.Cond))
		}
		c, err := t.cond(x.Cond)
		if err != nil {
			return "", err
		}
		var elseList []ast.Stmt
		switch eb := x.Else.(type) {
		case nil:
		case *ast.BlockStmt:
			elseList = eb.List
		case *ast.IfStmt:
			elseList = []ast.Stmt{eb}
		default:
			return "", fmt.Errorf("%s: unsupported else %s", t.name, src(x))
		}
		canFall := !(c10tTerminates(x.Body.List) && c10tTerminates(elseList))
		if c10tTerminates(x.Body.List) && !c10tTerminates(elseList) {
			// if c { …; return }  rest   ==>   if c then … else (else-part; rest)   (no join needed)
			tb, err := t.block(x.Body.List, ind+"  ", ctl)
			if err != nil {
				return "", err
			}
			eb, err := t.block(append(append([]ast.Stmt{}, elseList...), rest...), ind+"  ", ctl)
			if err != nil {
				return "", err
			}
			return t.lets(pre, ind, "if "+c+" then\n"+ind+"  "+tb+"\n"+ind+"else\n"+ind+"  "+eb), nil
		}
		return withJoin(canFall, func(after c10tCtl) (string, error) {
			tb, err := t.block(x.Body.List, ind+"  ", after)
			if err != nil {
				return "", err
			}
			eb, err := t.block(elseList, ind+"  ", after)
			if err != nil {
				return "", err
			}
			return t.lets(pre, ind, "if "+c+" then\n"+ind+"  "+tb+"\n"+ind+"else\n"+ind+"  "+eb), nil
		})
	case *ast.SwitchStmt:
		if x.Init != nil || src(x.Tag) != "event" {
			return "", fmt.Errorf("%s: unsupported switch %s", t.name, src(x.Tag))
		}
		return withJoin(true, func(after c10tCtl) (string, error) {
			inner := after
			inner.brk = after.fall // `break` inside a switch case leaves the switch
			out := ""
			closeN := 0
			var deflt []ast.Stmt
			hasDefault := false
			cind := ind
			for _, cc := range x.Body.List {
				cl := cc.(*ast.CaseClause)
				if cl.List == nil {
					hasDefault = true
					deflt = cl.Body
					continue
				}
				var alts []string
				for _, e := range cl.List {
					k := src(e)
					if !strings.HasPrefix(k, "api.") {
						return "", fmt.Errorf("%s: unsupported case value %s", t.name, k)
					}
					t.events[strings.TrimPrefix(k, "api.")] = true
					alts = append(alts, "decide (event = Event."+strings.TrimPrefix(k, "api.")+")")
				}
				for _, b := range cl.Body {
					if _, isFall := b.(*ast.BranchStmt); isFall && b.(*ast.BranchStmt).Tok == token.FALLTHROUGH {
						return "", fmt.Errorf("%s: fallthrough not supported", t.name)
					}
				}
				body, err := t.block(cl.Body, cind+"  ", inner)
				if err != nil {
					return "", err
				}
				out += "if (" + strings.Join(alts, " || ") + ") then\n" + cind + "  " + body + "\n" + cind + "else\n" + cind + "  "
				cind += "  "
				closeN++
			}
			_ = closeN
			if hasDefault {
				body, err := t.block(deflt, cind, inner)
				if err != nil {
					return "", err
				}
				out += body
			} else {
				out += inner.fall
			}
			return out, nil
		})
	case *ast.ForStmt:
		if src(x.Init) != "i := 0" || src(x.Cond) != "i < retryTime" || src(x.Post) != "i++" {
			return "", fmt.Errorf("%s: unsupported loop header for %s; %s; %s", t.name, src(x.Init), src(x.Cond), src(x.Post))
		}
		if ctl.cont != "" {
			return "", fmt.Errorf("%s: nested loops not supported", t.name)
		}
		// the loop becomes a local recursive function over fuel; the fuel retryTime.toNat is exactly the iteration bound
		// (i runs 0,1,…,retryTime-1), so running out of fuel and failing the loop test coincide.
		k, err := t.block(rest, ind, ctl)
		if err != nil {
			return "", err
		}
		t.loopBody = x.Body.List
		return "let " + t.tuple() + " := " + t.name + "Loop o retryTime.toNat 0 " + t.callArgs() + "\n" + ind + k, nil
	}
	return "", fmt.Errorf("%s: unsupported statement %q", t.name, src(st))
}

// loopDef renders the loop recorded by block as a recursive function over fuel.
func (t *c10tFn) loopDef() (string, error) {
	name := t.name + "Loop"
	tys := []string{"σ"}
	for _, v := range t.locals {
		tys = append(tys, t.ltypes[v])
	}
	rec := name + " o fuel (i + 1) " + t.callArgs()
	body, err := t.block(t.loopBody, "      ", c10tCtl{fall: rec, cont: rec, brk: t.tuple()})
	if err != nil {
		return "", err
	}
	pat := strings.Join(append([]string{"s"}, t.locals...), ", ")
	s := "/-- the retry-over-hosts loop `for i := 0; i < retryTime; i++` of " + t.name + ": fuel, i, state, locals -/\n"
	s += "def " + name + " {σ : Type} (o : Ops σ) : Nat → Int → " + strings.Join(tys, " → ") + " → " + strings.Join(tys, " × ") + "\n"
	s += "  | 0, _, " + pat + " => " + t.tuple() + "\n"
	s += "  | fuel + 1, i, " + pat + " =>\n"
	s += "    if decide (i < retryTime) then\n      " + body + "\n    else\n      " + t.tuple() + "\n"
	return s, nil
}

// c10tApiEvents reads api.ConnectionEvent's constants (declaration order), IsClose and the close types from mosn.io/api.
func c10tApiEvents() (events []string, isClose string, closeTypes []string, err error) {
	d, err := pxModDir("mosn.io/api")
	if err != nil {
		return nil, "", nil, err
	}
	f, err := parserParseAbs(filepath.Join(d, "network.go"))
	if err != nil {
		return nil, "", nil, err
	}
	for _, dcl := range f.Decls {
		gd, ok := dcl.(*ast.GenDecl)
		if !ok || gd.Tok != token.CONST {
			continue
		}
		for _, sp := range gd.Specs {
			vs := sp.(*ast.ValueSpec)
			if vs.Type == nil || len(vs.Names) != 1 {
				continue
			}
			switch src(vs.Type) {
			case "ConnectionEvent":
				events = append(events, vs.Names[0].Name)
			case "ConnectionCloseType":
				closeTypes = append(closeTypes, vs.Names[0].Name)
			}
		}
	}
	fd := findFunc(f, "ConnectionEvent", "IsClose")
	if fd == nil || len(fd.Body.List) != 1 {
		return nil, "", nil, fmt.Errorf("api.ConnectionEvent.IsClose: unexpected shape")
	}
	rs, ok := fd.Body.List[0].(*ast.ReturnStmt)
	if !ok || len(rs.Results) != 1 {
		return nil, "", nil, fmt.Errorf("api.ConnectionEvent.IsClose: unexpected shape")
	}
	known := map[string]bool{}
	for _, e := range events {
		known[e] = true
	}
	var rec func(e ast.Expr) (string, error)
	rec = func(e ast.Expr) (string, error) {
		switch x := e.(type) {
		case *ast.ParenExpr:
			return rec(x.X)
		case *ast.BinaryExpr:
			switch x.Op {
			case token.LOR, token.LAND:
				a, err := rec(x.X)
				if err != nil {
					return "", err
				}
				b, err := rec(x.Y)
				if err != nil {
					return "", err
				}
				op := "||"
				if x.Op == token.LAND {
					op = "&&"
				}
				return "(" + a + " " + op + " " + b + ")", nil
			case token.EQL, token.NEQ:
				if src(x.X) == "ce" && known[src(x.Y)] {
					op := "="
					if x.Op == token.NEQ {
						op = "≠"
					}
					return "decide (ce " + op + " Event." + src(x.Y) + ")", nil
				}
			}
		}
		return "", fmt.Errorf("api.ConnectionEvent.IsClose: unsupported expression %s", src(e))
	}
	isClose, err = rec(rs.Results[0])
	if err != nil {
		return nil, "", nil, err
	}
	if len(events) == 0 || len(closeTypes) == 0 {
		return nil, "", nil, fmt.Errorf("api: ConnectionEvent / ConnectionCloseType constants not found")
	}
	return events, isClose, closeTypes, nil
}

func parserParseAbs(p string) (*ast.File, error) {
	return c10tParse(p)
}

func genC10TcpProxy() (string, error) {
	f, err := parse(c10tPath)
	if err != nil {
		return "", err
	}
	events, isClose, closeTypes, err := c10tApiEvents()
	if err != nil {
		return "", err
	}
	retryTimes, err := intConst(filepath.Dir(c10tPath), "defaultConnectRetryTimes")
	if err != nil {
		return "", err
	}
	// every function of the package's non-test files, by "recv.name"
	dir := filepath.Join(repo, filepath.Dir(c10tPath))
	ents, err := os.ReadDir(dir)
	if err != nil {
		return "", err
	}
	type fnInfo struct {
		key string
		fd  *ast.FuncDecl
	}
	var all []fnInfo
	for _, e := range ents {
		if e.IsDir() || !strings.HasSuffix(e.Name(), ".go") || strings.HasSuffix(e.Name(), "_test.go") {
			continue
		}
		pf, err := c10tParse(filepath.Join(dir, e.Name()))
		if err != nil {
			return "", err
		}
		for _, d := range pf.Decls {
			fd, ok := d.(*ast.FuncDecl)
			if !ok || fd.Body == nil {
				continue
			}
			recv := ""
			if fd.Recv != nil && len(fd.Recv.List) == 1 {
				rt := fd.Recv.List[0].Type
				if st, ok := rt.(*ast.StarExpr); ok {
					rt = st.X
				}
				recv = src(rt)
			}
			all = append(all, fnInfo{recv + "." + fd.Name.Name, fd})
		}
	}
	sort.Slice(all, func(i, j int) bool { return all[i].key < all[j].key })

	translated := []string{"onInitFailure", "closeUpstreamConnection", "finalizeUpstreamConnectionStats", "onUpstreamEventStats",
		"onUpstreamEvent", "onDownstreamEvent", "initializeUpstreamConnection"}
	isTranslated := map[string]bool{}
	for _, n := range translated {
		isTranslated["proxy."+n] = true
	}
	// wiring: the three callbacks that hand over to the translated handlers, and the registration of the downstream listener
	wiring := map[string]string{
		"proxy.OnNewConnection":       "return p.initializeUpstreamConnection()",
		"upstreamCallbacks.OnEvent":   "uc.proxy.onUpstreamEvent(event)",
		"downstreamCallbacks.OnEvent": "dc.proxy.onDownstreamEvent(event)",
	}
	neutral := map[string]bool{}
	seenWiring := map[string]bool{}
	for _, fi := range all {
		if isTranslated[fi.key] {
			continue
		}
		if want, ok := wiring[fi.key]; ok {
			n := len(fi.fd.Body.List)
			if n == 0 || src(fi.fd.Body.List[n-1]) != want {
				return "", fmt.Errorf("%s: last statement is not `%s`", fi.key, want)
			}
			for _, st := range fi.fd.Body.List[:n-1] {
				if tt := c10tTouches(st); len(tt) > 0 {
					return "", fmt.Errorf("%s: unmodelled statement %s", fi.key, tt[0])
				}
				if strings.Contains(src(st), "return") {
					return "", fmt.Errorf("%s: early return before `%s`", fi.key, want)
				}
			}
			seenWiring[fi.key] = true
			continue
		}
		if tt := c10tTouches(fi.fd.Body); len(tt) > 0 {
			return "", fmt.Errorf("%s touches a counter or a connection outside the translated functions: %s", fi.key, tt[0])
		}
		if strings.HasPrefix(fi.key, "proxy.") {
			neutral[strings.TrimPrefix(fi.key, "proxy.")] = true
		}
	}
	for k := range wiring {
		if !seenWiring[k] {
			return "", fmt.Errorf("%s not found", k)
		}
	}
	irc := findFunc(f, "proxy", "InitializeReadFilterCallbacks")
	if irc == nil || !strings.Contains(src(irc.Body), "p.readCallbacks.Connection().AddConnectionEventListener(p.downstreamCallbacks)") {
		return "", fmt.Errorf("InitializeReadFilterCallbacks does not register p.downstreamCallbacks on the downstream connection")
	}

	flags, stats, evUsed := map[string]bool{}, map[string]bool{}, map[string]bool{}
	emitted := map[string]bool{}
	var defs []string
	for _, name := range translated {
		fd := findFunc(f, "proxy", name)
		if fd == nil {
			return "", fmt.Errorf("%s not found", name)
		}
		t := &c10tFn{name: name, ltypes: map[string]string{}, resVars: map[string]bool{}, flags: flags, stats: stats, events: evUsed,
			neutral: neutral, emitted: emitted}
		sig := src(fd.Type)
		evParam := false
		retTy := "σ"
		switch name {
		case "initializeUpstreamConnection":
			if sig != "func() api.FilterStatus" {
				return "", fmt.Errorf("%s: unexpected signature %s", name, sig)
			}
			t.locals = []string{"retryTime", "connected", "err", "can"}
			t.ltypes = map[string]string{"retryTime": "Int", "connected": "Bool", "err": "Bool", "can": "Bool"}
			retTy = "σ × Bool"
			t.ret = func(rs []string) (string, error) {
				if len(rs) == 1 && rs[0] == "api.Stop" {
					return "(s, false)", nil
				}
				if len(rs) == 1 && rs[0] == "api.Continue" {
					return "(s, true)", nil
				}
				return "", fmt.Errorf("%s: unsupported return %v", name, rs)
			}
		case "onUpstreamEvent", "onUpstreamEventStats", "onDownstreamEvent":
			if sig != "func(event api.ConnectionEvent)" {
				return "", fmt.Errorf("%s: unexpected signature %s", name, sig)
			}
			evParam = true
			t.locals = []string{"ok"}
			t.ltypes = map[string]string{"ok": "Bool"}
		case "onInitFailure":
			if sig != "func(reason UpstreamFailureReason)" || strings.Contains(src(fd.Body), "reason") {
				return "", fmt.Errorf("%s: unexpected signature or use of the reason: %s", name, sig)
			}
		default:
			if sig != "func()" {
				return "", fmt.Errorf("%s: unexpected signature %s", name, sig)
			}
			t.locals = []string{"ok"}
			t.ltypes = map[string]string{"ok": "Bool"}
		}
		if t.ret == nil {
			t.ret = func(rs []string) (string, error) {
				if len(rs) != 0 {
					return "", fmt.Errorf("%s: unsupported return %v", name, rs)
				}
				return "s", nil
			}
		}
		fall := "s"
		if name == "initializeUpstreamConnection" {
			fall = "ERR"
		}
		body, err := t.block(fd.Body.List, "  ", c10tCtl{fall: fall})
		if err != nil {
			return "", err
		}
		if strings.Contains(body, "ERR") {
			return "", fmt.Errorf("%s: a path falls off the end", name)
		}
		d := ""
		if t.loopBody != nil {
			ld, err := t.loopDef()
			if err != nil {
				return "", err
			}
			d += ld
		}
		d += "/-- proxy." + name + ", statement by statement -/\n"
		d += "def " + name + " {σ : Type} (o : Ops σ) "
		if evParam {
			d += "(event : Event) "
		}
		d += "(s : σ) : " + retTy + " :=\n"
		for _, v := range t.locals {
			dv := "false"
			if t.ltypes[v] == "Int" {
				dv = "0"
			}
			d += "  let " + v + " : " + t.ltypes[v] + " := " + dv + "\n"
		}
		d += "  " + body + "\n"
		defs = append(defs, d)
		emitted[name] = true
	}
	known := map[string]bool{}
	for _, e := range events {
		known[e] = true
	}
	for e := range evUsed {
		if !known[e] {
			return "", fmt.Errorf("event api.%s is not a ConnectionEvent constant", e)
		}
	}
	sorted := func(m map[string]bool) []string {
		var l []string
		for k := range m {
			l = append(l, k)
		}
		sort.Strings(l)
		return l
	}
	ctors := func(l []string) string {
		return "  | " + strings.Join(l, " | ") + "\n  deriving DecidableEq, Repr, Inhabited\n"
	}
	s := header("TcpProxy", c10tPath+" (initializeUpstreamConnection, onUpstreamEvent, onUpstreamEventStats, finalizeUpstreamConnectionStats, onDownstreamEvent, onInitFailure, closeUpstreamConnection)", "mosn.io/api network.go (ConnectionEvent, IsClose, ConnectionCloseType)")
	s += "set_option linter.unusedVariables false\n"
	s += "/-- api.ConnectionEvent, declaration order -/\ninductive Event where\n" + ctors(events)
	s += "/-- api.ConnectionEvent.IsClose -/\ndef Event.isClose (ce : Event) : Bool :=\n  " + isClose + "\n"
	s += "/-- api.ConnectionCloseType -/\ninductive CloseType where\n" + ctors(closeTypes)
	s += "/-- response flags set by the stream proxy -/\ninductive Flag where\n" + ctors(sorted(flags))
	s += "/-- stats of the cluster / host the stream proxy moves -/\ninductive Stat where\n" + ctors(sorted(stats))
	s += "inductive Scope where\n  | cluster | host\n  deriving DecidableEq, Repr, Inhabited\n"
	s += fmt.Sprintf("def defaultConnectRetryTimes : Int := %d\n", retryTimes)
	s += `/-- what the translated functions read and do, as operations on an abstract state σ -/
structure Ops (σ : Type) where
  /-- GetClusterSnapshot returned nil -/
  snapshotNil : σ → Bool
  /-- clusterInfo.ResourceManager().Connections().CanCreate(): a step of its own (the model records when it is taken) -/
  canCreate : σ → σ × Bool
  /-- clusterSnapshot.HostNum(nil) -/
  hostNum : σ → Int
  /-- connectionData.Connection == nil (no host chosen) -/
  connNil : σ → Bool
  /-- p.upstreamConnection != nil -/
  upstreamConnSet : σ → Bool
  /-- p.readCallbacks.UpstreamHost() is a types.Host -/
  hostKnown : σ → Bool
  setClusterInfo : σ → σ
  /-- connectionData = p.getUpstreamConnection(ctx, clusterSnapshot): choose a host, create a client connection -/
  getConn : σ → σ
  addListener : σ → σ
  addReadFilter : σ → σ
  setUpstreamConn : σ → σ
  /-- upstreamConnection.Connect(): the state after its event callbacks ran, and err != nil -/
  connect : σ → σ × Bool
  /-- Connections().Increase() / Decrease() of the cluster -/
  resIncrease : σ → σ
  resDecrease : σ → σ
  setUpstreamHost : σ → σ
  bump : Scope → Stat → Int → σ → σ
  flag : Flag → σ → σ
  /-- p.readCallbacks.Connection().Close(type, event) -/
  closeDownstream : CloseType → Event → σ → σ
  /-- p.upstreamConnection.Close(type, event) -/
  closeUpstream : CloseType → Event → σ → σ
`
	s += strings.Join(defs, "")
	s += footer("TcpProxy")
	return s, nil
}

func c10tParse(abs string) (*ast.File, error) {
	return parser.ParseFile(fset, abs, nil, parser.ParseComments)
}

// ---------------------------------------------------------------------------------------------------------------
// Gen module ResourceSites: every use of a circuit-breaker resource (ResourceManager().<Res>().<Op>()) in the non-test,
// non-mock Go files under pkg/ — which file and function touches which resource with which operation.
// ---------------------------------------------------------------------------------------------------------------

func init() { register("ResourceSites", genC10tResourceSites) }

type c10tSite struct{ file, fn, res, op string }

var c10tResNames = map[string]bool{"Connections": true, "PendingRequests": true, "Requests": true, "Retries": true}
var c10tOpNames = map[string]bool{"CanCreate": true, "Increase": true, "Decrease": true, "Max": true, "Cur": true, "UpdateCur": true}

// c10tResOf: e is `<…>.ResourceManager().<Res>()` => Res
func c10tResOf(e ast.Expr) (string, bool) {
	ce, ok := e.(*ast.CallExpr)
	if !ok || len(ce.Args) != 0 {
		return "", false
	}
	se, ok := ce.Fun.(*ast.SelectorExpr)
	if !ok || !c10tResNames[se.Sel.Name] {
		return "", false
	}
	in, ok := se.X.(*ast.CallExpr)
	if !ok {
		return "", false
	}
	ise, ok := in.Fun.(*ast.SelectorExpr)
	if !ok || ise.Sel.Name != "ResourceManager" {
		return "", false
	}
	return se.Sel.Name, true
}

func c10tScanFunc(rel string, fd *ast.FuncDecl, sites *[]c10tSite, escapes *[]string) {
	name := fd.Name.Name
	if fd.Recv != nil && len(fd.Recv.List) == 1 {
		rt := fd.Recv.List[0].Type
		if st, ok := rt.(*ast.StarExpr); ok {
			rt = st.X
		}
		name = src(rt) + "." + name
	}
	alias := map[string]string{} // local identifier -> resource
	used := map[ast.Expr]bool{}  // resource expressions accounted for
	// pass 1: aliases  `v := <…>.ResourceManager().<Res>()`
	ast.Inspect(fd.Body, func(n ast.Node) bool {
		as, ok := n.(*ast.AssignStmt)
		if !ok || len(as.Lhs) != 1 || len(as.Rhs) != 1 {
			return true
		}
		if res, ok := c10tResOf(as.Rhs[0]); ok {
			if id, ok := as.Lhs[0].(*ast.Ident); ok {
				alias[id.Name] = res
				used[as.Rhs[0]] = true
			}
		}
		return true
	})
	// pass 2: operations on a resource expression or an alias
	ast.Inspect(fd.Body, func(n ast.Node) bool {
		ce, ok := n.(*ast.CallExpr)
		if !ok {
			return true
		}
		se, ok := ce.Fun.(*ast.SelectorExpr)
		if !ok || !c10tOpNames[se.Sel.Name] {
			return true
		}
		if res, ok := c10tResOf(se.X); ok {
			*sites = append(*sites, c10tSite{rel, name, res, se.Sel.Name})
			used[se.X] = true
		} else if id, ok := se.X.(*ast.Ident); ok && alias[id.Name] != "" {
			*sites = append(*sites, c10tSite{rel, name, alias[id.Name], se.Sel.Name})
		}
		return true
	})
	// pass 3: anything else done with a resource or a resource manager escapes the table
	ast.Inspect(fd.Body, func(n ast.Node) bool {
		e, ok := n.(ast.Expr)
		if !ok {
			return true
		}
		if _, isRes := c10tResOf(e); isRes && !used[e] {
			*escapes = append(*escapes, rel+":"+name+": "+src(e))
		}
		return true
	})
	// a resource manager stored or passed on (not immediately asked for one of its resources)
	var parents []ast.Node
	ast.Inspect(fd.Body, func(n ast.Node) bool {
		if n == nil {
			parents = parents[:len(parents)-1]
			return true
		}
		if ce, ok := n.(*ast.CallExpr); ok {
			if se, ok := ce.Fun.(*ast.SelectorExpr); ok && se.Sel.Name == "ResourceManager" && len(ce.Args) == 0 {
				direct := false
				if len(parents) > 0 {
					if pse, ok := parents[len(parents)-1].(*ast.SelectorExpr); ok && pse.X == n && c10tResNames[pse.Sel.Name] {
						direct = true
					}
				}
				if !direct {
					*escapes = append(*escapes, rel+":"+name+": "+src(ce))
				}
			}
		}
		parents = append(parents, n)
		return true
	})
}

func genC10tResourceSites() (string, error) {
	var sites []c10tSite
	var escapes []string
	root := filepath.Join(repo, "pkg")
	err := filepath.Walk(root, func(p string, fi os.FileInfo, err error) error {
		if err != nil {
			return err
		}
		if fi.IsDir() {
			if fi.Name() == "mock" || fi.Name() == "testdata" {
				return filepath.SkipDir
			}
			return nil
		}
		if !strings.HasSuffix(p, ".go") || strings.HasSuffix(p, "_test.go") {
			return nil
		}
		b, err := os.ReadFile(p)
		if err != nil {
			return err
		}
		if !strings.Contains(string(b), "ResourceManager()") {
			return nil
		}
		f, err := c10tParse(p)
		if err != nil {
			return err
		}
		rel, _ := filepath.Rel(repo, p)
		for _, d := range f.Decls {
			if fd, ok := d.(*ast.FuncDecl); ok && fd.Body != nil {
				c10tScanFunc(rel, fd, &sites, &escapes)
			}
		}
		// a use outside any function body (package-level initialiser) is not expected
		return nil
	})
	if err != nil {
		return "", err
	}
	sort.Slice(sites, func(i, j int) bool {
		a, b := sites[i], sites[j]
		if a.file != b.file {
			return a.file < b.file
		}
		if a.fn != b.fn {
			return a.fn < b.fn
		}
		if a.res != b.res {
			return a.res < b.res
		}
		return a.op < b.op
	})
	sort.Strings(escapes)
	s := header("ResourceSites", "every non-test, non-mock Go file under pkg/ (uses of ResourceManager().<Res>().<Op>())")
	s += "inductive Res where\n  | Connections | PendingRequests | Requests | Retries\n  deriving DecidableEq, Repr\n"
	s += "inductive Op where\n  | CanCreate | Increase | Decrease | Max | Cur | UpdateCur\n  deriving DecidableEq, Repr\n"
	s += "structure Site where\n  file : String\n  fn : String\n  res : Res\n  op : Op\n  deriving DecidableEq, Repr\n"
	s += "/-- one entry per (file, function, resource, operation) call site, sorted; duplicates kept -/\ndef sites : List Site := [\n"
	for i, x := range sites {
		sep := ","
		if i == len(sites)-1 {
			sep = ""
		}
		s += fmt.Sprintf("  ⟨%q, %q, .%s, .%s⟩%s\n", x.file, x.fn, x.res, x.op, sep)
	}
	s += "]\n"
	s += "/-- resources or resource managers used in any other way (stored, passed on): outside the table -/\ndef escapes : List String := [\n"
	for i, x := range escapes {
		sep := ","
		if i == len(escapes)-1 {
			sep = ""
		}
		s += fmt.Sprintf("  %q%s\n", x, sep)
	}
	s += "]\n"
	s += footer("ResourceSites")
	return s, nil
}
