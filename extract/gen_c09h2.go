package main

// Gen/PoolH2.lean (C09 / C10, helpers prefixed c09h; statement walker c09e… of gen_c09e.go): the HTTP/2 connection pool
// (pkg/stream/http2/connpool.go) — one client per pool, replaced after GOAWAY:
//   - NewStream: the critical section that picks the client (the replace test with what its branch does to the
//     connection_active gauges and to p.activeClient — deleteActiveClient is walked in place —, then the dial when the
//     pool holds no client), the nil test, the admission test, what an admitted request moves;
//   - newActiveClient: what moves before / after the connect;
//   - onConnectionEvent, close branch: the guards and the test under which the pool gives up its client, and what that
//     does; onStreamDestroy; OnGoAway's mark.
// Unknown shapes are rejected.

import (
	"fmt"
	"go/ast"
	"go/token"
	"go/types"
	"strings"
)

func init() {
	register("PoolH2", genPoolH2)
}

// c09hCond renders a boolean condition over named atoms (keys: types.ExprString of the sub-expression).
// intAtoms are Nat-valued, boolAtoms Bool-valued; integer literals are allowed beside an int atom.
func c09hCond(e ast.Expr, boolAtoms, intAtoms map[string]string) (string, error) {
	t := types.ExprString(e)
	if v, ok := boolAtoms[t]; ok {
		return v, nil
	}
	switch x := e.(type) {
	case *ast.ParenExpr:
		return c09hCond(x.X, boolAtoms, intAtoms)
	case *ast.UnaryExpr:
		if x.Op == token.NOT {
			s, err := c09hCond(x.X, boolAtoms, intAtoms)
			return "(!" + s + ")", err
		}
	case *ast.BinaryExpr:
		switch x.Op {
		case token.LAND, token.LOR:
			l, err := c09hCond(x.X, boolAtoms, intAtoms)
			if err != nil {
				return "", err
			}
			r, err := c09hCond(x.Y, boolAtoms, intAtoms)
			if err != nil {
				return "", err
			}
			op := " && "
			if x.Op == token.LOR {
				op = " || "
			}
			return "(" + l + op + r + ")", nil
		case token.EQL, token.NEQ:
			term := func(e ast.Expr) (string, bool) {
				if v, ok := intAtoms[types.ExprString(e)]; ok {
					return v, true
				}
				if l, ok := e.(*ast.BasicLit); ok && l.Kind == token.INT {
					return l.Value, true
				}
				return "", false
			}
			l, ok1 := term(x.X)
			r, ok2 := term(x.Y)
			if ok1 && ok2 {
				op := " = "
				if x.Op == token.NEQ {
					op = " ≠ "
				}
				return "(decide (" + l + op + r + "))", nil
			}
		}
	}
	return "", fmt.Errorf("condition `%s` is not read", t)
}

func c09hIsCall(s ast.Stmt, text string) bool {
	es, ok := s.(*ast.ExprStmt)
	return ok && types.ExprString(es.X) == text
}

func (m c09eMv) connLean() string {
	return fmt.Sprintf("({ host := %d, cluster := %d, nils := %v } : ConnMoves)", m.connHost, m.connClustr, m.nils > 0)
}

func (m c09eMv) onlyConn() bool {
	return m.reqInc == 0 && m.reqDec == 0 && m.host == 0 && m.cluster == 0 && m.listens == 0 && m.creates == 0
}

func genPoolH2() (string, error) {
	const src = "pkg/stream/http2/connpool.go"
	f, err := parse(src)
	if err != nil {
		return "", err
	}
	var sb strings.Builder
	sb.WriteString(header("PoolH2", src))
	fmt.Fprintf(&sb, c09eMovesStruct, "Moves")
	sb.WriteString(`/-- what one branch does to the pool's connection books -/
structure ConnMoves where
  host    : Int    -- net movement of the host's upstream connection_active gauge
  cluster : Int    -- net movement of the cluster's upstream connection_active gauge
  nils    : Bool   -- p.activeClient = nil
  deriving DecidableEq, Repr
`)
	fn := func(recv, name string) (*ast.FuncDecl, error) {
		fd := findFunc(f, recv, name)
		if fd == nil || fd.Body == nil {
			return nil, fmt.Errorf("%s.%s not found", recv, name)
		}
		return fd, nil
	}
	ns, err := fn("connPool", "NewStream")
	if err != nil {
		return "", err
	}
	del, err := fn("connPool", "deleteActiveClient")
	if err != nil {
		return "", err
	}
	inline := map[string]*ast.FuncDecl{"p.deleteActiveClient()": del}
	// deleteActiveClient itself must be straight-line
	{
		var mv c09eMv
		c09eRecv = ""
		if err := c09eWalk(del.Body.List, nil, &mv, nil, 0); err != nil {
			return "", fmt.Errorf("deleteActiveClient: %v", err)
		}
		if !mv.onlyConn() {
			return "", fmt.Errorf("deleteActiveClient: unexpected movement")
		}
	}

	// --- NewStream, statement 1: activeClient := func() *activeClient { … }()
	if len(ns.Body.List) < 4 {
		return "", fmt.Errorf("NewStream: unexpected shape")
	}
	pick, ok := ns.Body.List[0].(*ast.AssignStmt)
	var lit *ast.FuncLit
	if ok && len(pick.Lhs) == 1 && len(pick.Rhs) == 1 && types.ExprString(pick.Lhs[0]) == "activeClient" {
		if call, ok := pick.Rhs[0].(*ast.CallExpr); ok && len(call.Args) == 0 {
			lit, _ = call.Fun.(*ast.FuncLit)
		}
	}
	if lit == nil {
		return "", fmt.Errorf("NewStream: the client is not picked by `activeClient := func() *activeClient { … }()`")
	}
	cs := lit.Body.List
	if len(cs) < 4 || !c09hIsCall(cs[0], "p.mux.Lock()") {
		return "", fmt.Errorf("NewStream: the client is not picked under p.mux")
	}
	if d, ok := cs[1].(*ast.DeferStmt); !ok || types.ExprString(d.Call) != "p.mux.Unlock()" {
		return "", fmt.Errorf("NewStream: the client is not picked under p.mux (defer)")
	}
	if r, ok := cs[len(cs)-1].(*ast.ReturnStmt); !ok || len(r.Results) != 1 || types.ExprString(r.Results[0]) != "p.activeClient" {
		return "", fmt.Errorf("NewStream: the critical section does not return p.activeClient")
	}
	mid := cs[2 : len(cs)-1]
	if len(mid) != 2 {
		return "", fmt.Errorf("NewStream: %d statements between lock and return of the critical section (replace test, dial test expected)", len(mid))
	}
	rep, ok1 := mid[0].(*ast.IfStmt)
	dial, ok2 := mid[1].(*ast.IfStmt)
	if !ok1 || !ok2 || rep.Else != nil || dial.Else != nil || rep.Init != nil || dial.Init != nil {
		return "", fmt.Errorf("NewStream: replace test / dial test not recognised")
	}
	curBool := map[string]string{"p.activeClient != nil": "present", "p.activeClient == nil": "(!present)"}
	curInt := map[string]string{"atomic.LoadUint32(&p.activeClient.goaway)": "goaway", "p.activeClient.goaway": "goaway"}
	rc, err := c09hCond(rep.Cond, curBool, curInt)
	if err != nil {
		return "", fmt.Errorf("NewStream replace test: %v", err)
	}
	var rmv c09eMv
	c09eRecv = ""
	if err := c09eWalk(rep.Body.List, nil, &rmv, inline, 0); err != nil {
		return "", fmt.Errorf("NewStream replace branch: %v", err)
	}
	if !rmv.onlyConn() || endsInReturn(rep.Body.List) {
		return "", fmt.Errorf("NewStream replace branch: unexpected movement")
	}
	if types.ExprString(dial.Cond) != "p.activeClient == nil" || len(dial.Body.List) != 1 {
		return "", fmt.Errorf("NewStream dial test not recognised")
	}
	if a, ok := dial.Body.List[0].(*ast.AssignStmt); !ok || len(a.Lhs) != 1 || types.ExprString(a.Lhs[0]) != "p.activeClient" ||
		types.ExprString(a.Rhs[0]) != "newActiveClient(ctx, p)" {
		return "", fmt.Errorf("NewStream dial branch not recognised")
	}
	fmt.Fprintf(&sb, "/-- NewStream, under the pool mutex: the pool's client (present, its go-away mark) is given up before the dial test -/\ndef h2ReplaceCond (present : Bool) (goaway : Nat) : Bool :=\n  %s\n", rc)
	fmt.Fprintf(&sb, "/-- … and what giving it up does (deleteActiveClient walked in place) -/\ndef h2ReplaceMoves : ConnMoves :=\n  %s\n", rmv.connLean())

	// --- the rest of NewStream: nil test before the admission test, then the movements
	before, after, err := c09eAfterAdmission(ns.Body)
	if err != nil {
		return "", fmt.Errorf("NewStream: %v", err)
	}
	nilTest := false
	for _, s := range before[1:] {
		if is, ok := s.(*ast.IfStmt); ok && types.ExprString(is.Cond) == "activeClient == nil" && endsInReturn(is.Body.List) {
			r := is.Body.List[len(is.Body.List)-1].(*ast.ReturnStmt)
			if len(r.Results) == 3 && types.ExprString(r.Results[2]) == "types.ConnectionFailure" {
				nilTest = true
			}
		}
		if err := c09eQuiet(s); err != nil {
			return "", fmt.Errorf("NewStream, before the admission test: %v", err)
		}
	}
	if !nilTest {
		return "", fmt.Errorf("NewStream: `if activeClient == nil { return …ConnectionFailure }` not found before the admission test")
	}
	two, one, err := c09eLeasePaths(ns, after)
	if err != nil {
		return "", err
	}
	fmt.Fprintf(&sb, "/-- NewStream once the request is admitted (one-way: receiver == nil) -/\ndef h2LeaseMoves (oneway : Bool) : Moves :=\n  if oneway then %s\n  else %s\n", one.lean("Moves"), two.lean("Moves"))

	// --- newActiveClient: before / after the connect
	nac, err := fn("", "newActiveClient")
	if err != nil {
		return "", err
	}
	ci := -1
	for i, s := range nac.Body.List {
		if is, ok := s.(*ast.IfStmt); ok && is.Init != nil && strings.Contains(types.ExprString(is.Init.(*ast.AssignStmt).Rhs[0]), ".Connect()") {
			if types.ExprString(is.Cond) != "err != nil" || !endsInReturn(is.Body.List) ||
				types.ExprString(is.Body.List[len(is.Body.List)-1].(*ast.ReturnStmt).Results[0]) != "nil" {
				return "", fmt.Errorf("newActiveClient: connect test not recognised")
			}
			if err := c09eQuiet(is.Body); err != nil {
				return "", fmt.Errorf("newActiveClient, failure branch: %v", err)
			}
			ci = i
		}
	}
	if ci < 0 {
		return "", fmt.Errorf("newActiveClient: connect test not found")
	}
	for _, s := range nac.Body.List[:ci] {
		if err := c09eQuiet(s); err != nil {
			return "", fmt.Errorf("newActiveClient, before the connect: %v", err)
		}
	}
	var dmv c09eMv
	for _, s := range nac.Body.List[ci+1:] {
		switch x := s.(type) {
		case *ast.ExprStmt:
			call, ok := x.X.(*ast.CallExpr)
			if !ok {
				return "", fmt.Errorf("newActiveClient: statement not read")
			}
			if t := types.ExprString(call); strings.HasPrefix(t, "codecClient.SetConnectionCollector(") {
				continue
			}
			if err := c09eCall(call, &dmv, nil, 0); err != nil {
				return "", fmt.Errorf("newActiveClient: %v", err)
			}
		case *ast.ReturnStmt:
			if len(x.Results) != 1 || types.ExprString(x.Results[0]) != "ac" {
				return "", fmt.Errorf("newActiveClient: does not return the client")
			}
		default:
			if err := c09eQuiet(s); err != nil {
				return "", fmt.Errorf("newActiveClient: %v", err)
			}
		}
	}
	if !dmv.onlyConn() || dmv.nils != 0 {
		return "", fmt.Errorf("newActiveClient: unexpected movement")
	}
	fmt.Fprintf(&sb, "/-- newActiveClient after a successful connect (a failed connect returns before any movement) -/\ndef h2DialMoves : ConnMoves :=\n  %s\n", dmv.connLean())

	// --- onConnectionEvent, close branch
	oe, err := fn("connPool", "onConnectionEvent")
	if err != nil {
		return "", err
	}
	if len(oe.Type.Params.List) != 2 || len(oe.Type.Params.List[0].Names) != 1 {
		return "", fmt.Errorf("onConnectionEvent: parameters not recognised")
	}
	cl := oe.Type.Params.List[0].Names[0].Name
	var closeIf *ast.IfStmt
	for _, s := range oe.Body.List {
		if is, ok := s.(*ast.IfStmt); ok && types.ExprString(is.Cond) == "event.IsClose()" {
			closeIf = is
		} else if err := c09eQuiet(s); err != nil {
			return "", fmt.Errorf("onConnectionEvent, outside the close branch: %v", err)
		}
	}
	if closeIf == nil {
		return "", fmt.Errorf("onConnectionEvent: close branch not found")
	}
	if closeIf.Else != nil {
		if err := c09eQuiet(closeIf.Else); err != nil {
			return "", fmt.Errorf("onConnectionEvent, other events: %v", err)
		}
	}
	evBool := map[string]string{
		"p.activeClient != nil": "curPresent", "p.activeClient == nil": "(!curPresent)",
		"p.activeClient == " + cl: "isCur", cl + " == p.activeClient": "isCur",
		"p.activeClient != " + cl: "(!isCur)", cl + " != p.activeClient": "(!isCur)",
	}
	evInt := map[string]string{
		"atomic.LoadUint32(&" + cl + ".goaway)": "cg", cl + ".goaway": "cg",
		"atomic.LoadUint32(&p.activeClient.goaway)": "curG", "p.activeClient.goaway": "curG",
	}
	var guards []string
	dropCond := ""
	var cmv c09eMv // unconditional movements of the close branch
	var xmv c09eMv // movements of the drop
	seenDrop := false
	for _, s := range closeIf.Body.List {
		switch x := s.(type) {
		case *ast.IfStmt:
			if x.Init != nil {
				return "", fmt.Errorf("onConnectionEvent: if with init not read")
			}
			if c09eQuiet(x) == nil {
				// a guard `if COND { return }`, or a branch that only moves other statistics
				if c09bIsOnlyReturn(x.Body) && x.Else == nil {
					if seenDrop {
						continue
					}
					g, err := c09hCond(x.Cond, evBool, evInt)
					if err != nil {
						return "", fmt.Errorf("onConnectionEvent guard: %v", err)
					}
					guards = append(guards, "(!"+g+")")
				} else if c09hReturns(x) {
					return "", fmt.Errorf("onConnectionEvent: a branch with a return that is not a plain guard")
				}
				continue
			}
			if seenDrop || x.Else != nil {
				return "", fmt.Errorf("onConnectionEvent: second / two-armed branch that touches the pool's client")
			}
			dc, err := c09hCond(x.Cond, evBool, evInt)
			if err != nil {
				return "", fmt.Errorf("onConnectionEvent drop test: %v", err)
			}
			c09eRecv = ""
			if err := c09eWalk(x.Body.List, nil, &xmv, inline, 0); err != nil {
				return "", fmt.Errorf("onConnectionEvent drop branch: %v", err)
			}
			if endsInReturn(x.Body.List) {
				return "", fmt.Errorf("onConnectionEvent drop branch returns")
			}
			dropCond, seenDrop = dc, true
		case *ast.SwitchStmt:
			if err := c09eQuiet(x); err != nil {
				return "", fmt.Errorf("onConnectionEvent: %v", err)
			}
			if c09hReturns(x) {
				return "", fmt.Errorf("onConnectionEvent: return inside the switch")
			}
		case *ast.ExprStmt:
			call, ok := x.X.(*ast.CallExpr)
			if !ok {
				return "", fmt.Errorf("onConnectionEvent: statement not read")
			}
			if types.ExprString(call) == "p.deleteActiveClient()" {
				if seenDrop {
					return "", fmt.Errorf("onConnectionEvent: the pool's client is given up twice")
				}
				if err := c09eCall(call, &xmv, inline, 0); err != nil {
					return "", err
				}
				dropCond, seenDrop = "true", true
				continue
			}
			if err := c09eCall(call, &cmv, nil, 0); err != nil {
				return "", fmt.Errorf("onConnectionEvent: %v", err)
			}
		case *ast.ReturnStmt:
			if !seenDrop {
				dropCond, seenDrop = "false", true
			}
		default:
			return "", fmt.Errorf("onConnectionEvent: statement %T in the close branch is not read", s)
		}
	}
	if !seenDrop {
		dropCond = "false"
	}
	if !cmv.onlyConn() || !xmv.onlyConn() || cmv.nils != 0 {
		return "", fmt.Errorf("onConnectionEvent: unexpected movement")
	}
	fmt.Fprintf(&sb, "/-- onConnectionEvent, close of a connection: movements made for every close -/\ndef h2CloseMoves : ConnMoves :=\n  %s\n", cmv.connLean())
	fmt.Fprintf(&sb, "/-- … the pool gives up its client (cg: go-away mark of the client that closed; isCur: the pool's client is the one that closed; curPresent / curG: the pool holds a client / its go-away mark) -/\ndef h2CloseDrops (cg : Nat) (isCur curPresent : Bool) (curG : Nat) : Bool :=\n  %s\n",
		strings.Join(append(guards, dropCond), " && "))
	fmt.Fprintf(&sb, "/-- … and what giving it up does -/\ndef h2DropMoves : ConnMoves :=\n  %s\n", xmv.connLean())

	// --- onStreamDestroy / onStreamReset / the delegating methods of activeClient
	osd, err := fn("connPool", "onStreamDestroy")
	if err != nil {
		return "", err
	}
	var sm c09eMv
	c09eRecv = ""
	if err := c09eWalk(osd.Body.List, nil, &sm, nil, 0); err != nil {
		return "", fmt.Errorf("onStreamDestroy: %v", err)
	}
	if sm.creates != 0 || sm.listens != 0 || sm.connHost != 0 || sm.connClustr != 0 || sm.nils != 0 {
		return "", fmt.Errorf("onStreamDestroy: unexpected movement")
	}
	fmt.Fprintf(&sb, "/-- onStreamDestroy: what a destroyed stream gives back -/\ndef h2DestroyMoves : Moves :=\n  %s\n", sm.lean("Moves"))
	osr, err := fn("connPool", "onStreamReset")
	if err != nil {
		return "", err
	}
	if err := c09eQuiet(osr.Body); err != nil {
		return "", fmt.Errorf("onStreamReset: %v", err)
	}
	for name, want := range map[string]string{"OnEvent": "ac.pool.onConnectionEvent(ac, event)", "OnDestroyStream": "ac.pool.onStreamDestroy(ac)",
		"OnResetStream": "ac.pool.onStreamReset(ac, reason)"} {
		fd, err := fn("activeClient", name)
		if err != nil {
			return "", err
		}
		if len(fd.Body.List) != 1 || !c09hIsCall(fd.Body.List[0], want) {
			return "", fmt.Errorf("activeClient.%s does not just delegate to the pool", name)
		}
	}
	// OnGoAway: stores the mark
	og, err := fn("activeClient", "OnGoAway")
	if err != nil {
		return "", err
	}
	if len(og.Body.List) != 1 {
		return "", fmt.Errorf("OnGoAway: unexpected shape")
	}
	mark := ""
	if es, ok := og.Body.List[0].(*ast.ExprStmt); ok {
		if c, ok := es.X.(*ast.CallExpr); ok && types.ExprString(c.Fun) == "atomic.StoreUint32" && len(c.Args) == 2 && types.ExprString(c.Args[0]) == "&ac.goaway" {
			if l, ok := c.Args[1].(*ast.BasicLit); ok && l.Kind == token.INT {
				mark = l.Value
			}
		}
	}
	if mark == "" {
		return "", fmt.Errorf("OnGoAway: store of the go-away mark not recognised")
	}
	fmt.Fprintf(&sb, "/-- OnGoAway stores this into the client's go-away mark -/\ndef h2GoAwayMark : Nat := %s\n", mark)
	// Shutdown does nothing; Close closes the pool's client only
	sd, err := fn("connPool", "Shutdown")
	if err != nil {
		return "", err
	}
	fmt.Fprintf(&sb, "/-- Shutdown has no statement -/\ndef h2ShutdownNoop : Bool := %v\n", len(sd.Body.List) == 0)
	cf, err := fn("connPool", "Close")
	if err != nil {
		return "", err
	}
	if err := c09eQuiet(cf.Body); err != nil {
		return "", fmt.Errorf("Close: %v", err)
	}
	closesCur := len(cf.Body.List) == 2 && strings.Contains(c09hText(cf.Body.List[0]), "activeClient := p.activeClient") &&
		strings.Contains(c09hText(cf.Body.List[1]), "activeClient.client.Close()")
	if !closesCur {
		return "", fmt.Errorf("Close: unexpected shape")
	}
	sb.WriteString("/-- Close closes the connection of the pool's client, nothing else -/\ndef h2CloseClosesCurrent : Bool := true\n")
	sb.WriteString(footer("PoolH2"))
	return sb.String(), nil
}

func c09hReturns(n ast.Node) bool {
	found := false
	ast.Inspect(n, func(m ast.Node) bool {
		if _, ok := m.(*ast.ReturnStmt); ok {
			found = true
		}
		return true
	})
	return found
}

func c09hText(s ast.Stmt) string {
	var sb strings.Builder
	ast.Inspect(s, func(m ast.Node) bool {
		switch x := m.(type) {
		case *ast.AssignStmt:
			sb.WriteString(c09eStmtText(x) + ";")
		case *ast.CallExpr:
			sb.WriteString(types.ExprString(x) + ";")
		}
		return true
	})
	return sb.String()
}
