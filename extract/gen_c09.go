package main

// Gen/Pool.lean (C09): the small decision bodies of the HTTP/1 pool (pkg/stream/http/connpool.go), the xprotocol
// ping-pong pool (pkg/stream/xprotocol/connpool_pingpong.go), BaseStream's state constants (pkg/stream/stream.go),
// the circuit-breaker resource (pkg/upstream/cluster/resource_manager.go) and the reset-reason strings.

import (
	"fmt"
	"go/ast"
	"go/constant"
	"go/token"
	"go/types"
	"strings"
)

func init() {
	register("Pool", genPool)
}

func c09StrConst(relDir, name string) (string, error) {
	cs, err := pkgConsts(relDir)
	if err != nil {
		return "", err
	}
	v, ok := cs[name]
	if !ok || v.Kind() != constant.String {
		return "", fmt.Errorf("string constant %s not found in %s", name, relDir)
	}
	return constant.StringVal(v), nil
}

// deatom rewrites reads through sync/atomic (atomic.LoadXxx(&x), x.Load()) into the plain operand: the models are
// sequential, every lock-protected block / atomic access is one step.
func deatom(e ast.Expr) ast.Expr {
	switch x := e.(type) {
	case *ast.ParenExpr:
		return &ast.ParenExpr{X: deatom(x.X)}
	case *ast.UnaryExpr:
		return &ast.UnaryExpr{Op: x.Op, X: deatom(x.X)}
	case *ast.BinaryExpr:
		return &ast.BinaryExpr{X: deatom(x.X), Op: x.Op, Y: deatom(x.Y)}
	case *ast.CallExpr:
		head := types.ExprString(x.Fun)
		if (head == "atomic.LoadInt64" || head == "atomic.LoadUint64" || head == "atomic.LoadUint32") && len(x.Args) == 1 {
			if u, ok := x.Args[0].(*ast.UnaryExpr); ok && u.Op == token.AND {
				return deatom(u.X)
			}
		}
		var args []ast.Expr
		for _, a := range x.Args {
			args = append(args, deatom(a))
		}
		return &ast.CallExpr{Fun: x.Fun, Args: args}
	}
	return e
}

func deatomStmts(l []ast.Stmt) []ast.Stmt {
	var out []ast.Stmt
	for _, s := range l {
		switch x := s.(type) {
		case *ast.AssignStmt:
			var rhs []ast.Expr
			for _, r := range x.Rhs {
				rhs = append(rhs, deatom(r))
			}
			out = append(out, &ast.AssignStmt{Lhs: x.Lhs, Tok: x.Tok, Rhs: rhs})
		case *ast.IfStmt:
			n := &ast.IfStmt{Init: x.Init, Cond: deatom(x.Cond), Body: &ast.BlockStmt{List: deatomStmts(x.Body.List)}}
			switch eb := x.Else.(type) {
			case *ast.BlockStmt:
				n.Else = &ast.BlockStmt{List: deatomStmts(eb.List)}
			case *ast.IfStmt:
				n.Else = deatomStmts([]ast.Stmt{eb})[0]
			}
			out = append(out, n)
		case *ast.ReturnStmt:
			var rs []ast.Expr
			for _, r := range x.Results {
				rs = append(rs, deatom(r))
			}
			out = append(out, &ast.ReturnStmt{Results: rs})
		default:
			out = append(out, s)
		}
	}
	return out
}

// ifs returns every IfStmt of a function body in source order.
func ifs(n ast.Node) []*ast.IfStmt {
	var out []*ast.IfStmt
	ast.Inspect(n, func(m ast.Node) bool {
		if i, ok := m.(*ast.IfStmt); ok {
			out = append(out, i)
		}
		return true
	})
	return out
}

func findIf(n ast.Node, contains string) *ast.IfStmt {
	for _, i := range ifs(n) {
		if strings.Contains(types.ExprString(i.Cond), contains) {
			return i
		}
	}
	return nil
}

// counterDelta recognises the statements that move a connection / request counter and returns the signed amount:
// atomic.AddUint64(&x, 1), atomic.AddUint64(&x, ^uint64(c-1)) (= -c), atomic.AddInt64(&x, ±k), x.Inc(), x.Dec().
func counterDelta(s ast.Stmt, target string) (int64, bool) {
	es, ok := s.(*ast.ExprStmt)
	if !ok {
		return 0, false
	}
	call, ok := es.X.(*ast.CallExpr)
	if !ok {
		return 0, false
	}
	head := types.ExprString(call.Fun)
	switch {
	case head == target+".Inc" && len(call.Args) == 0:
		return 1, true
	case head == target+".Dec" && len(call.Args) == 0:
		return -1, true
	case (head == "atomic.AddUint64" || head == "atomic.AddInt64") && len(call.Args) == 2:
		if types.ExprString(call.Args[0]) != "&"+target {
			return 0, false
		}
		switch a := call.Args[1].(type) {
		case *ast.BasicLit:
			var v int64
			if _, err := fmt.Sscan(a.Value, &v); err == nil {
				return v, true
			}
		case *ast.UnaryExpr:
			if a.Op == token.SUB {
				if l, ok := a.X.(*ast.BasicLit); ok {
					var v int64
					if _, err := fmt.Sscan(l.Value, &v); err == nil {
						return -v, true
					}
				}
			}
			if a.Op == token.XOR { // ^uint64(k) == -(k+1)
				if c, ok := a.X.(*ast.CallExpr); ok && types.ExprString(c.Fun) == "uint64" && len(c.Args) == 1 {
					if l, ok := c.Args[0].(*ast.BasicLit); ok {
						var v int64
						if _, err := fmt.Sscan(l.Value, &v); err == nil {
							return -(v + 1), true
						}
					}
				}
			}
		}
	}
	return 0, false
}

// sumDeltas adds the counter movements among the direct statements of a block (not descending into nested blocks).
// A block without any recognised movement yields 0: the model then does not move the counter either, the theorems
// about the books stop checking and the correspondence run shows the drift on a concrete history.
func sumDeltas(l []ast.Stmt, target string) (sum int64, n int) {
	for _, s := range l {
		if d, ok := counterDelta(s, target); ok {
			sum += d
			n++
		}
	}
	return
}

// appendsTo reports whether one of the DIRECT statements of the block is `target = append(target, …)`.
func appendsTo(l []ast.Stmt, target string) bool {
	for _, s := range l {
		if a, ok := s.(*ast.AssignStmt); ok && len(a.Lhs) == 1 && len(a.Rhs) == 1 && types.ExprString(a.Lhs[0]) == target {
			if c, ok := a.Rhs[0].(*ast.CallExpr); ok && types.ExprString(c.Fun) == "append" {
				return true
			}
		}
	}
	return false
}

// putBackDef: `if <cond> { idle = append(idle, client) }` ⇒ cond; an unconditional append ⇒ true.
func putBackDef(name, doc string, body *ast.BlockStmt, target string) (string, error) {
	for _, i := range ifs(body) {
		if appendsTo(i.Body.List, target) && i.Else == nil {
			return condDef(name, "(closed : Bool)", doc, boolEnv(map[string]string{"client.closed": "closed"}), i.Cond)
		}
	}
	if appendsTo(body.List, target) {
		return fmt.Sprintf("/-- %s (unconditional) -/\ndef %s (closed : Bool) : Bool :=\n  true\n", doc, name), nil
	}
	return "", fmt.Errorf("%s: append to %s not found", name, target)
}

func boolEnv(names map[string]string) *Env {
	return &Env{Names: names, Calls: map[string]string{"int": "", "int64": "", "uint64": "", "uint32": ""},
		Ret: func(rs []string) string {
			if len(rs) == 0 {
				return "ERR"
			}
			return rs[len(rs)-1]
		}, Fall: "false"}
}

func condDef(name, params, doc string, env *Env, cond ast.Expr) (string, error) {
	c, err := env.expr(deatom(cond))
	if err != nil {
		return "", fmt.Errorf("%s: %v", name, err)
	}
	return fmt.Sprintf("/-- %s -/\ndef %s %s : Bool :=\n  %s\n", doc, name, params, c), nil
}

// refusal translates `pre-statements; if cond { …; return nil, Overflow }` into a Bool (true = refused).
func refusal(name, params, doc string, names map[string]string, stmts []ast.Stmt) (string, error) {
	var keep []ast.Stmt
	found := false
	for _, s := range stmts {
		switch x := s.(type) {
		case *ast.DeferStmt, *ast.DeclStmt:
			continue
		case *ast.IfStmt:
			// the refusing branch: keep only its condition, `return true`
			keep = append(keep, &ast.IfStmt{Cond: x.Cond, Body: &ast.BlockStmt{List: []ast.Stmt{
				&ast.ReturnStmt{Results: []ast.Expr{ast.NewIdent("true")}}}}})
			found = true
		default:
			keep = append(keep, s)
		}
		if found {
			break
		}
	}
	if !found {
		return "", fmt.Errorf("%s: refusing if not found", name)
	}
	env := boolEnv(names)
	body, err := env.block(deatomStmts(keep), "  ")
	if err != nil {
		return "", fmt.Errorf("%s: %v", name, err)
	}
	return fmt.Sprintf("/-- %s -/\ndef %s %s : Bool :=\n  %s\n", doc, name, params, body), nil
}

func genPool() (string, error) {
	const h1src = "pkg/stream/http/connpool.go"
	const ppsrc = "pkg/stream/xprotocol/connpool_pingpong.go"
	const rsrc = "pkg/upstream/cluster/resource_manager.go"
	var sb strings.Builder
	sb.WriteString(header("Pool", h1src, ppsrc, "pkg/stream/stream.go", rsrc, "pkg/types/stream.go"))

	// --- BaseStream states
	for _, n := range []string{"streamStateReset", "streamStateDestroying", "streamStateDestroyed"} {
		v, err := intConst("pkg/stream", n)
		if err != nil {
			return "", err
		}
		fmt.Fprintf(&sb, "def %s : Nat := %d\n", n, v)
	}
	// --- BaseStream.ResetStream / DestroyStream guards
	sf, err := parse("pkg/stream/stream.go")
	if err != nil {
		return "", err
	}
	rsFn := findFunc(sf, "BaseStream", "ResetStream")
	dsFn := findFunc(sf, "BaseStream", "DestroyStream")
	if rsFn == nil || dsFn == nil {
		return "", fmt.Errorf("BaseStream.ResetStream/DestroyStream not found")
	}
	// the guards are read off the step programs of the two methods (gen_c09b.go): sequentially, a load guard and a
	// CAS guard both mean "proceeds iff state = <value>"; the difference matters to concurrent callers only and is
	// the subject of Gen/StreamOnce and theorem destroy_once_concurrent.
	guardOf := func(fd *ast.FuncDecl) (string, []c09bStep, error) {
		p, err := c09bProgram(fd)
		if err != nil {
			return "", nil, err
		}
		names := map[int64]string{}
		for _, n := range []string{"streamStateReset", "streamStateDestroying", "streamStateDestroyed"} {
			v, err := intConst("pkg/stream", n)
			if err != nil {
				return "", nil, err
			}
			names[v] = n
		}
		for _, st := range p {
			if st.kind == "loadGuard" || st.kind == "casGuard" {
				n, ok := names[st.a]
				if !ok {
					return "", nil, fmt.Errorf("%s: guard value %d is not a stream state", fd.Name.Name, st.a)
				}
				return "(decide (state = " + n + "))", p, nil
			}
			if st.kind != "yield" {
				break
			}
		}
		return "true", p, nil
	}
	resetGuard, _, err := guardOf(rsFn)
	if err != nil {
		return "", err
	}
	fmt.Fprintf(&sb, "/-- BaseStream.ResetStream goes on (notifies the listeners, then destroys) -/\ndef resetProceeds (state : Nat) : Bool :=\n  %s\n", resetGuard)
	destroyGuard, dprog, err := guardOf(dsFn)
	if err != nil {
		return "", err
	}
	fmt.Fprintf(&sb, "/-- BaseStream.DestroyStream passes its guard (tells the listeners) -/\ndef destroyProceeds (state : Nat) : Bool :=\n  %s\n", destroyGuard)
	// the state a destroyed stream is left in: the last store of DestroyStream
	finalState := ""
	for _, st := range dprog {
		if st.kind == "store" {
			finalState = fmt.Sprint(st.a)
		}
	}
	if finalState == "" {
		return "", fmt.Errorf("DestroyStream: final state store not found")
	}
	fmt.Fprintf(&sb, "/-- state BaseStream.DestroyStream leaves behind -/\ndef destroyedState : Nat := %s\n", finalState)
	// --- reset reasons
	reasons := map[string]string{}
	for _, n := range []string{"StreamLocalReset", "StreamRemoteReset", "StreamConnectionTermination", "StreamConnectionFailed", "UpstreamReset"} {
		v, err := c09StrConst("pkg/types", n)
		if err != nil {
			return "", err
		}
		reasons["types."+n] = fmt.Sprintf("%q", v)
		fmt.Fprintf(&sb, "def reason%s : String := %q\n", n, v)
	}

	// --- resource.CanCreate / Increase / Decrease
	rf, err := parse(rsrc)
	if err != nil {
		return "", err
	}
	cc := findFunc(rf, "resource", "CanCreate")
	if cc == nil {
		return "", fmt.Errorf("resource.CanCreate not found")
	}
	env := boolEnv(map[string]string{"r.max": "max", "r.current": "cur", "r.Max()": "max"})
	body, err := env.block(deatomStmts(cc.Body.List), "  ")
	if err != nil {
		return "", fmt.Errorf("CanCreate: %v", err)
	}
	sb.WriteString("/-- resource.CanCreate (max = 0: unlimited) -/\ndef canCreate (max cur : Int) : Bool :=\n  " + body + "\n")
	for _, fn := range []string{"Increase", "Decrease"} {
		fd := findFunc(rf, "resource", fn)
		if fd == nil || len(fd.Body.List) != 1 {
			return "", fmt.Errorf("resource.%s: unexpected shape", fn)
		}
		is, ok := fd.Body.List[0].(*ast.IfStmt)
		if !ok || is.Else != nil {
			return "", fmt.Errorf("resource.%s: unexpected shape", fn)
		}
		d, n := sumDeltas(is.Body.List, "r.current")
		if n != 1 || len(is.Body.List) != 1 {
			return "", fmt.Errorf("resource.%s: counter movement not recognised", fn)
		}
		c, err := boolEnv(map[string]string{"r.max": "max"}).expr(is.Cond)
		if err != nil {
			return "", err
		}
		fmt.Fprintf(&sb, "/-- resource.%s -/\ndef res%s (max cur : Int) : Int :=\n  if %s then cur + (%d) else cur\n", fn, fn, c, d)
	}

	// --- HTTP/1 pool
	hf, err := parse(h1src)
	if err != nil {
		return "", err
	}
	ns := findFunc(hf, "connPool", "NewStream")
	ga := findFunc(hf, "connPool", "getAvailableClient")
	oce := findFunc(hf, "connPool", "onConnectionEvent")
	osd := findFunc(hf, "connPool", "onStreamDestroy")
	osr := findFunc(hf, "connPool", "onStreamReset")
	ods := findFunc(hf, "activeClient", "OnDestroyStream")
	ors := findFunc(hf, "activeClient", "OnResetStream")
	if ns == nil || ga == nil || oce == nil || osd == nil || osr == nil || ods == nil || ors == nil {
		return "", fmt.Errorf("http connpool: a function is missing")
	}
	// NewStream: the requests breaker is consulted BEFORE a client is acquired (position of the two calls)
	posBreaker, posGet := token.NoPos, token.NoPos
	ast.Inspect(ns.Body, func(n ast.Node) bool {
		if c, ok := n.(*ast.CallExpr); ok {
			h := types.ExprString(c.Fun)
			if strings.HasSuffix(h, "Requests().CanCreate") && posBreaker == token.NoPos {
				posBreaker = c.Pos()
			}
			if h == "p.getAvailableClient" && posGet == token.NoPos {
				posGet = c.Pos()
			}
		}
		return true
	})
	if posBreaker == token.NoPos || posGet == token.NoPos {
		return "", fmt.Errorf("http NewStream: breaker check or getAvailableClient call not found")
	}
	fmt.Fprintf(&sb, "/-- connPool.NewStream consults Requests().CanCreate() before getAvailableClient -/\ndef h1BreakerFirst : Bool := %v\n", posBreaker < posGet)

	top := findIf(ga.Body, "n == 0")
	if top == nil {
		return "", fmt.Errorf("getAvailableClient: `if n == 0` not found")
	}
	const h1tot = "p.totalClientCount"
	d, n := sumDeltas(top.Body.List, h1tot)
	if n > 1 {
		return "", fmt.Errorf("getAvailableClient: pre-increment not recognised")
	}
	fmt.Fprintf(&sb, "def h1NewDelta : Int := %d\n", d)
	var inner *ast.IfStmt
	for _, s := range top.Body.List {
		if i, ok := s.(*ast.IfStmt); ok {
			inner = i
		}
	}
	if inner == nil {
		return "", fmt.Errorf("getAvailableClient: limit test not found")
	}
	h1names := func() map[string]string {
		m := map[string]string{"maxConns": "maxConns", h1tot: "total", "n": "n"}
		for k, v := range reasons {
			m[k] = v
		}
		return m
	}
	s, err := condDef("h1CanNew", "(maxConns total : Int)", "getAvailableClient, empty idle list: may a new connection be made (`total` already incremented)", boolEnv(h1names()), inner.Cond)
	if err != nil {
		return "", err
	}
	sb.WriteString(s)
	// connect failure inside the then-branch, overflow in the else-branch
	// A failed dial gives the slot back either right here (the branch testing the result of newActiveClient) or in the
	// connection-event handler (branch of the dial's event: ConnectFailed for a refused / failed connect,
	// ConnectTimeout for a dial that timed out). Both places are read; the model adds them up per dial outcome.
	var inFn int64
	if failIf := findIf(inner.Body, "ac == nil"); failIf != nil {
		d, n = sumDeltas(failIf.Body.List, h1tot)
		if n > 1 {
			return "", fmt.Errorf("getAvailableClient: connect-failure decrement not recognised")
		}
		inFn = d
	}
	s, err = c09bDialFailDef("h1DialFailDelta", "HTTP/1 pool", inFn, oce, h1tot)
	if err != nil {
		return "", err
	}
	sb.WriteString(s)
	eb, ok := inner.Else.(*ast.BlockStmt)
	if !ok {
		return "", fmt.Errorf("getAvailableClient: overflow branch not found")
	}
	d, n = sumDeltas(eb.List, h1tot)
	if n > 1 {
		return "", fmt.Errorf("getAvailableClient: overflow decrement not recognised")
	}
	fmt.Fprintf(&sb, "def h1OverflowDelta : Int := %d\n", d)
	reuse, ok := top.Else.(*ast.BlockStmt)
	if !ok {
		return "", fmt.Errorf("getAvailableClient: reuse branch not found")
	}
	s, err = refusal("h1ReuseRefused", "(maxConns total n : Int)", "getAvailableClient, non-empty idle list of length n: is the lease refused", h1names(), reuse.List)
	if err != nil {
		return "", err
	}
	sb.WriteString(s)
	// onConnectionEvent: the decrement on close
	closeIf := findIf(oce.Body, "event.IsClose()")
	if closeIf == nil {
		return "", fmt.Errorf("onConnectionEvent: close branch not found")
	}
	d, n = sumDeltas(closeIf.Body.List, h1tot)
	if n > 1 {
		return "", fmt.Errorf("onConnectionEvent: decrement not recognised")
	}
	fmt.Fprintf(&sb, "def h1CloseDelta : Int := %d\n", d)
	// onStreamDestroy: put back unless closed
	s, err = putBackDef("h1PutBack", "onStreamDestroy: the client is appended to availableClients", osd.Body, "p.availableClients")
	if err != nil {
		return "", err
	}
	sb.WriteString(s)
	cod := findIf(ods.Body, "closeConn")
	if cod == nil {
		return "", fmt.Errorf("OnDestroyStream: close test not found")
	}
	s, err = condDef("h1CloseOnDestroy", "(closed closeConn : Bool)", "activeClient.OnDestroyStream: the connection is closed before the client is handed back", boolEnv(map[string]string{"ac.closed": "closed", "ac.closeConn": "closeConn"}), cod.Cond)
	if err != nil {
		return "", err
	}
	sb.WriteString(s)
	var mark *ast.IfStmt
	for _, i := range ifs(ors.Body) {
		ast.Inspect(i.Body, func(n ast.Node) bool {
			if a, ok := n.(*ast.AssignStmt); ok && len(a.Lhs) == 1 && types.ExprString(a.Lhs[0]) == "ac.closeConn" {
				mark = i
			}
			return true
		})
		if mark != nil {
			break
		}
	}
	if mark == nil {
		return "", fmt.Errorf("OnResetStream: closeConn assignment not found")
	}
	mn := h1names()
	mn["reason"] = "reason"
	mn["ac.closed"] = "closed"
	s, err = condDef("h1MarkClose", "(reason : String) (closed : Bool)", "activeClient.OnResetStream: closeConn := true", boolEnv(mn), mark.Cond)
	if err != nil {
		return "", err
	}
	sb.WriteString(s)
	var cwar *ast.IfStmt
	for _, i := range ifs(osr.Body) {
		for _, st := range i.Body.List {
			if a, ok := st.(*ast.AssignStmt); ok && types.ExprString(a.Lhs[0]) == "client.closeWithActiveReq" {
				cwar = i
			}
		}
		if cwar != nil {
			break
		}
	}
	if cwar == nil {
		return "", fmt.Errorf("onStreamReset: closeWithActiveReq assignment not found")
	}
	s, err = condDef("h1MarkCwar", "(reason : String)", "onStreamReset: closeWithActiveReq := true", boolEnv(mn), cwar.Cond)
	if err != nil {
		return "", err
	}
	sb.WriteString(s)

	// --- ping-pong pool
	pf, err := parse(ppsrc)
	if err != nil {
		return "", err
	}
	gac := findFunc(pf, "poolPingPong", "GetActiveClient")
	put2 := findFunc(pf, "poolPingPong", "putClientToPoolLocked")
	rfp := findFunc(pf, "activeClientPingPong", "removeFromPool")
	pods := findFunc(pf, "activeClientPingPong", "OnDestroyStream")
	pors := findFunc(pf, "activeClientPingPong", "OnResetStream")
	if gac == nil || put2 == nil || rfp == nil || pods == nil || pors == nil {
		return "", fmt.Errorf("pingpong connpool: a function is missing")
	}
	const pptot = "p.totalClientCount"
	// the breaker is the first statement's test
	first := ifs(gac.Body)
	if len(first) == 0 || !strings.Contains(types.ExprString(first[0].Cond), "Requests().CanCreate()") {
		return "", fmt.Errorf("GetActiveClient: requests breaker is not the first test")
	}
	fmt.Fprintf(&sb, "/-- GetActiveClient consults Requests().CanCreate() first -/\ndef ppBreakerFirst : Bool := true\n")
	ptop := findIf(gac.Body, "n == 0")
	if ptop == nil {
		return "", fmt.Errorf("GetActiveClient: `if n == 0` not found")
	}
	var pinner *ast.IfStmt
	for _, s := range ptop.Body.List {
		if i, ok := s.(*ast.IfStmt); ok {
			pinner = i
		}
	}
	if pinner == nil {
		return "", fmt.Errorf("GetActiveClient: limit test not found")
	}
	ppnames := func() map[string]string {
		m := map[string]string{"maxConns": "maxConns", pptot + ".Load()": "total", "n": "n",
			"?*ast.CallExpr.Max()": "maxConns", "host.ClusterInfo().ResourceManager().Connections().Max()": "maxConns"}
		for k, v := range reasons {
			m[k] = v
		}
		return m
	}
	if d, n := sumDeltas(ptop.Body.List, pptot); n != 0 || d != 0 {
		return "", fmt.Errorf("GetActiveClient: unexpected counter movement before the limit test")
	}
	s, err = condDef("ppCanNew", "(maxConns total : Int)", "GetActiveClient, empty idle list: may a new connection be made", boolEnv(ppnames()), pinner.Cond)
	if err != nil {
		return "", err
	}
	sb.WriteString(s)
	okIf := findIf(pinner.Body, "c != nil")
	if okIf == nil {
		return "", fmt.Errorf("GetActiveClient: success branch not found")
	}
	d, n = sumDeltas(okIf.Body.List, pptot)
	if n > 1 {
		return "", fmt.Errorf("GetActiveClient: increment on success not recognised")
	}
	fmt.Fprintf(&sb, "def ppNewDelta : Int := %d\n", d)
	var ppInFn int64
	if eb, ok := okIf.Else.(*ast.BlockStmt); ok {
		d, n = sumDeltas(eb.List, pptot)
		if n > 1 {
			return "", fmt.Errorf("GetActiveClient: counter movement on a failed dial not recognised")
		}
		ppInFn = d
	} else if okIf.Else != nil {
		return "", fmt.Errorf("GetActiveClient: unexpected else-if after the success test")
	}
	poe := findFunc(pf, "activeClientPingPong", "OnEvent")
	if poe == nil {
		return "", fmt.Errorf("activeClientPingPong.OnEvent not found")
	}
	s, err = c09bDialFailDef("ppDialFailDelta", "ping-pong pool", ppInFn, poe, pptot)
	if err != nil {
		return "", err
	}
	sb.WriteString(s)
	preuse, ok := ptop.Else.(*ast.BlockStmt)
	if !ok {
		return "", fmt.Errorf("GetActiveClient: reuse branch not found")
	}
	s, err = refusal("ppReuseRefused", "(maxConns total n : Int)", "GetActiveClient, non-empty idle list of length n: is the lease refused", ppnames(), preuse.List)
	if err != nil {
		return "", err
	}
	sb.WriteString(s)
	d, n = sumDeltas(rfp.Body.List, pptot)
	if n > 1 {
		return "", fmt.Errorf("removeFromPool: decrement not recognised")
	}
	fmt.Fprintf(&sb, "def ppCloseDelta : Int := %d\n", d)
	s, err = putBackDef("ppPutBack", "putClientToPoolLocked: the client is appended to idleClients", put2.Body, "p.idleClients")
	if err != nil {
		return "", err
	}
	sb.WriteString(s)
	pcod := findIf(pods.Body, "shouldCloseConn")
	if pcod == nil {
		// the flag is not consulted: the connection is never closed on destroy
		sb.WriteString("/-- activeClientPingPong.OnDestroyStream does not consult shouldCloseConn -/\ndef ppCloseOnDestroy (closed shouldCloseConn : Bool) : Bool :=\n  false\n")
	} else {
		s, err = condDef("ppCloseOnDestroy", "(closed shouldCloseConn : Bool)", "activeClientPingPong.OnDestroyStream: the connection is closed before the client is handed back", boolEnv(map[string]string{"ac.closed": "closed", "ac.shouldCloseConn": "shouldCloseConn"}), pcod.Cond)
		if err != nil {
			return "", err
		}
		sb.WriteString(s)
	}
	var pmark *ast.IfStmt
	for _, i := range ifs(pors.Body) {
		for _, st := range i.Body.List {
			if a, ok := st.(*ast.AssignStmt); ok && types.ExprString(a.Lhs[0]) == "ac.shouldCloseConn" {
				pmark = i
			}
		}
		if pmark != nil {
			break
		}
	}
	if pmark == nil {
		return "", fmt.Errorf("pingpong OnResetStream: shouldCloseConn assignment not found")
	}
	pn := ppnames()
	pn["reason"] = "reason"
	pn["ac.closed"] = "closed"
	s, err = condDef("ppMarkClose", "(reason : String) (closed : Bool)", "activeClientPingPong.OnResetStream: shouldCloseConn := true", boolEnv(pn), pmark.Cond)
	if err != nil {
		return "", err
	}
	sb.WriteString(s)
	// closeWithActiveReq: the case clause of `switch reason`
	var cases []string
	ast.Inspect(pors.Body, func(n ast.Node) bool {
		cl, ok := n.(*ast.CaseClause)
		if !ok {
			return true
		}
		for _, st := range cl.Body {
			if a, ok := st.(*ast.AssignStmt); ok && types.ExprString(a.Lhs[0]) == "ac.closeWithActiveReq" {
				for _, e := range cl.List {
					if v, ok := reasons[types.ExprString(e)]; ok {
						cases = append(cases, "(decide (reason = "+v+"))")
					} else {
						cases = append(cases, "UNSUPPORTED")
					}
				}
			}
		}
		return true
	})
	if len(cases) == 0 || strings.Contains(strings.Join(cases, ""), "UNSUPPORTED") {
		return "", fmt.Errorf("pingpong OnResetStream: closeWithActiveReq case not recognised")
	}
	sb.WriteString("/-- activeClientPingPong.OnResetStream: closeWithActiveReq := true -/\ndef ppMarkCwar (reason : String) : Bool :=\n  " + strings.Join(cases, " || ") + "\n")

	sb.WriteString(footer("Pool"))
	return sb.String(), nil
}
