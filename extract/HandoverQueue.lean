-- translation-unsupported HandoverQueue: open -out/pkg/network/connection.go: no such file or directory
namespace MosnVerif.Gen.HandoverQueue
end MosnVerif.Gen.HandoverQueue
