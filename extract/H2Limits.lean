-- translation-unsupported H2Limits: open -out/pkg/module/http2/mhttp2.go: no such file or directory
namespace MosnVerif.Gen.H2Limits
end MosnVerif.Gen.H2Limits
