-- translation-unsupported C01RelayOrder: open -out/pkg/filter/network/streamproxy/streamproxy.go: no such file or directory
namespace MosnVerif.Gen.C01RelayOrder
end MosnVerif.Gen.C01RelayOrder
