package main

import (
	"fmt"
	"go/ast"
	"go/token"
	"strings"
)

func init() { register("ClusterPub", genC05pClusterPub) }

// genC05pClusterPub regenerates the publication ORDER of the cluster manager's updaters (cluster_manager.go) and the
// de-duplication rule of hostSet.setFinalHost (host_set.go):
//   - clusterManager.UpdateCluster / clusterManager.UpdateHosts as step programs in source order
//     (NewCluster, clustersMap.Load, the handler call, clustersMap.Store);
//   - the handlers they are called with (closures of AddOrUpdatePrimaryCluster / AddOrUpdateClusterAndHost /
//     RemoveClusterHosts, NewSimpleHostHandler, AppendSimpleHostHandler; package-level handlers they call are inlined):
//     `X := NewHostSet(l)` = build, `c.UpdateHosts(X)` with X built before = publish, `nc.UpdateHosts(oc.Snapshot().HostSet())`
//     = inherit, any other UpdateHosts argument = publishUnbuilt, a mention of X after it was published = touchAfter;
//   - which lists each host handler appends, in source order, to the slice it hands to NewHostSet;
//   - which occurrence of an address setFinalHost keeps.
func genC05pClusterPub() (string, error) {
	const dir = "pkg/upstream/cluster"
	f, err := parse(dir + "/cluster_manager.go")
	if err != nil {
		return "", err
	}
	uc := findFunc(f, "clusterManager", "UpdateCluster")
	uh := findFunc(f, "clusterManager", "UpdateHosts")
	if uc == nil || uh == nil {
		return "", fmt.Errorf("clusterManager.UpdateCluster / UpdateHosts not found")
	}
	ucSteps, err := c05pOuter(uc, "clusterHandler", ".loadOld", ".clusterHandler")
	if err != nil {
		return "", err
	}
	uhSteps, err := c05pOuter(uh, "hostHandler", ".loadCur", ".hostHandler")
	if err != nil {
		return "", err
	}
	type hd struct{ lean, fn, callee string }
	var defs []string
	bodies := map[string]*ast.BlockStmt{}
	for _, h := range []hd{{"primaryHandler", "AddOrUpdatePrimaryCluster", "cm.UpdateCluster"},
		{"clusterAndHostHandler", "AddOrUpdateClusterAndHost", "cm.UpdateCluster"},
		{"newSimpleHostHandler", "UpdateClusterHosts", "cm.UpdateHosts"},
		{"appendSimpleHostHandler", "AppendClusterHosts", "cm.UpdateHosts"},
		{"removeHostsHandler", "RemoveClusterHosts", "cm.UpdateHosts"}} {
		fd := findFunc(f, "clusterManager", h.fn)
		if fd == nil {
			return "", fmt.Errorf("clusterManager.%s not found", h.fn)
		}
		body, err := c05pHandlerBody(f, fd, h.callee)
		if err != nil {
			return "", err
		}
		bodies[h.lean] = body
		steps, err := c05pHandlerSteps(f, body, 0)
		if err != nil {
			return "", fmt.Errorf("%s: %v", h.fn, err)
		}
		defs = append(defs, fmt.Sprintf("/-- the handler `%s` passes to `%s`. -/\ndef %s : List CStep := [%s]\n", h.fn, h.callee, h.lean, strings.Join(steps, ", ")))
	}
	var parts []string
	for _, p := range [][2]string{{"updateParts", "newSimpleHostHandler"}, {"appendParts", "appendSimpleHostHandler"}, {"removeParts", "removeHostsHandler"}} {
		ps, err := c05pParts(bodies[p[1]])
		if err != nil {
			return "", fmt.Errorf("%s: %v", p[1], err)
		}
		parts = append(parts, fmt.Sprintf("def %s : List Part := [%s]\n", p[0], strings.Join(ps, ", ")))
	}
	hf, err := parse(dir + "/host_set.go")
	if err != nil {
		return "", err
	}
	first, err := c05pDupRule(hf)
	if err != nil {
		return "", err
	}
	s := header("ClusterPub", dir+"/cluster_manager.go (UpdateCluster, UpdateHosts, the updaters' handlers)", dir+"/host_set.go (hostSet.setFinalHost)")
	s += "/-- step vocabulary of the cluster manager's updaters (fixed text of the extractor). -/\n"
	s += "inductive CStep where\n  | newCluster | loadOld | clusterHandler | storeNew | loadCur | hostHandler\n  | build | publish | inherit | publishUnbuilt | touchAfter | other\nderiving DecidableEq, Repr, Inhabited\n\n"
	s += "/-- which list feeds the host list handed to `NewHostSet` (fixed text of the extractor). -/\n"
	s += "inductive Part where\n  | supplied | current\nderiving DecidableEq, Repr, Inhabited\n\n"
	s += "/-- `clusterManager.UpdateCluster`, the statements that create / load / hand over / store a cluster, in source order. -/\n"
	s += "def updateCluster : List CStep := [" + strings.Join(ucSteps, ", ") + "]\n"
	s += "/-- `clusterManager.UpdateHosts`. -/\n"
	s += "def updateHostsMgr : List CStep := [" + strings.Join(uhSteps, ", ") + "]\n"
	s += strings.Join(defs, "")
	s += "/-- lists appended (source order) to the slice handed to `NewHostSet`. -/\n"
	s += strings.Join(parts, "")
	s += "/-- `setFinalHost` keeps the FIRST occurrence of an address (skips later ones). -/\n"
	s += fmt.Sprintf("def dupKeepsFirst : Bool := %v\n", first)
	s += footer("ClusterPub")
	return s, nil
}

// c05pCalls lists the rendered callees of every call inside n, in source order.
func c05pCalls(n ast.Node) []string {
	var out []string
	ast.Inspect(n, func(x ast.Node) bool {
		if c, ok := x.(*ast.CallExpr); ok {
			out = append(out, exprKey(c.Fun))
		}
		return true
	})
	return out
}

// c05pOuter: the top-level statements of UpdateCluster / UpdateHosts that touch clustersMap, create the cluster or call
// the handler, in source order. Every other statement must not touch clustersMap or publish a host set.
func c05pOuter(fd *ast.FuncDecl, handler, loadStep, handlerStep string) ([]string, error) {
	var out []string
	for _, st := range fd.Body.List {
		var here []string
		for _, c := range c05pCalls(st) {
			switch {
			case c == "NewCluster":
				here = append(here, ".newCluster")
			case c == "cm.clustersMap.Load":
				here = append(here, loadStep)
			case c == "cm.clustersMap.Store":
				here = append(here, ".storeNew")
			case c == handler:
				here = append(here, handlerStep)
			case strings.HasPrefix(c, "cm.clustersMap.") || strings.HasSuffix(c, ".UpdateHosts"):
				return nil, fmt.Errorf("%s: unsupported call %s at %s", fd.Name.Name, c, fset.Position(st.Pos()))
			}
		}
		if len(here) > 1 {
			return nil, fmt.Errorf("%s: statement with several publication steps at %s", fd.Name.Name, fset.Position(st.Pos()))
		}
		out = append(out, here...)
	}
	return out, nil
}

// c05pHandlerBody: the body of the handler that fd passes as last argument to `callee`.
func c05pHandlerBody(f *ast.File, fd *ast.FuncDecl, callee string) (*ast.BlockStmt, error) {
	var body *ast.BlockStmt
	var err error
	ast.Inspect(fd.Body, func(x ast.Node) bool {
		c, ok := x.(*ast.CallExpr)
		if !ok || exprKey(c.Fun) != callee || len(c.Args) == 0 || body != nil {
			return true
		}
		switch a := c.Args[len(c.Args)-1].(type) {
		case *ast.FuncLit:
			body = a.Body
		case *ast.Ident:
			h := findFunc(f, "", a.Name)
			if h == nil {
				err = fmt.Errorf("%s: handler %s not found", fd.Name.Name, a.Name)
			} else {
				body = h.Body
			}
		default:
			err = fmt.Errorf("%s: unsupported handler argument", fd.Name.Name)
		}
		return false
	})
	if err == nil && body == nil {
		err = fmt.Errorf("%s: no call of %s", fd.Name.Name, callee)
	}
	return body, err
}

// c05pHandlerSteps: build / publish / inherit / publishUnbuilt / touchAfter steps of a handler body in source order;
// calls of package-level functions of cluster_manager.go are inlined.
func c05pHandlerSteps(f *ast.File, body *ast.BlockStmt, depth int) ([]string, error) {
	if depth > 4 {
		return nil, fmt.Errorf("handler nesting too deep")
	}
	var out []string
	var err error
	built := map[string]bool{}
	var publishedEnd token.Pos
	skip := map[ast.Node]bool{}
	ast.Inspect(body, func(x ast.Node) bool {
		if err != nil || x == nil || skip[x] {
			return false
		}
		switch n := x.(type) {
		case *ast.AssignStmt:
			if len(n.Lhs) == 1 && len(n.Rhs) == 1 {
				if id, ok := n.Lhs[0].(*ast.Ident); ok && isCallExpr(n.Rhs[0], "NewHostSet", 1) {
					if publishedEnd != token.NoPos && built[id.Name] {
						out = append(out, ".touchAfter")
					}
					built[id.Name] = true
					out = append(out, ".build")
					skip[n.Lhs[0]] = true
				}
			}
		case *ast.CallExpr:
			key := exprKey(n.Fun)
			if strings.HasSuffix(key, ".UpdateHosts") && len(n.Args) == 1 {
				arg := n.Args[0]
				switch {
				case isCallExpr(arg, "NewHostSet", 1):
					out = append(out, ".build", ".publish")
				case exprKey(arg) == "oc.Snapshot().HostSet()":
					out = append(out, ".inherit")
				default:
					if id, ok := arg.(*ast.Ident); ok && built[id.Name] {
						out = append(out, ".publish")
						skip[arg] = true
					} else {
						out = append(out, ".publishUnbuilt")
					}
				}
				publishedEnd = n.End()
				return true
			}
			if id, ok := n.Fun.(*ast.Ident); ok {
				if h := findFunc(f, "", id.Name); h != nil {
					sub, e := c05pHandlerSteps(f, h.Body, depth+1)
					if e != nil {
						err = e
						return false
					}
					out = append(out, sub...)
				}
			}
		case *ast.Ident:
			if built[n.Name] && publishedEnd != token.NoPos && n.Pos() > publishedEnd {
				out = append(out, ".touchAfter")
			}
		}
		return true
	})
	return out, err
}

// c05pParts: the sources appended (in source order) to the slices of a host handler: `NewSimpleHost(cfg, …)` objects made
// from the supplied configs, or the hosts handed out by `snap.HostSet().Range`.
func c05pParts(body *ast.BlockStmt) ([]string, error) {
	current := map[string]bool{}
	ast.Inspect(body, func(x ast.Node) bool {
		if c, ok := x.(*ast.CallExpr); ok && exprKey(c.Fun) == "snap.HostSet().Range" && len(c.Args) == 1 {
			if fl, ok := c.Args[0].(*ast.FuncLit); ok {
				for _, p := range fl.Type.Params.List {
					for _, nm := range p.Names {
						current[nm.Name] = true
					}
				}
			}
		}
		return true
	})
	var out []string
	var err error
	ast.Inspect(body, func(x ast.Node) bool {
		c, ok := x.(*ast.CallExpr)
		if !ok || exprKey(c.Fun) != "append" || c.Ellipsis != token.NoPos || len(c.Args) != 2 {
			return true
		}
		switch e := c.Args[1].(type) {
		case *ast.CallExpr:
			if exprKey(e.Fun) == "NewSimpleHost" {
				out = append(out, ".supplied")
				return true
			}
		case *ast.Ident:
			if current[e.Name] {
				out = append(out, ".current")
				return true
			}
		}
		err = fmt.Errorf("unknown source appended to a host list at %s", fset.Position(c.Pos()))
		return true
	})
	return out, err
}

// c05pDupRule: the loop of setFinalHost must be
//   for _, h := range hosts { addr := h.AddressString(); if _, exists := M[addr]; exists { continue }; M[addr] = …; L = append(L, h) }
// (first occurrence kept => true) or have `L[i] = h` in the exists branch (a later occurrence overwrites => false).
func c05pDupRule(f *ast.File) (bool, error) {
	fd := findFunc(f, "hostSet", "setFinalHost")
	if fd == nil {
		return false, fmt.Errorf("hostSet.setFinalHost not found")
	}
	var rs *ast.RangeStmt
	n := 0
	ast.Inspect(fd.Body, func(x ast.Node) bool {
		if r, ok := x.(*ast.RangeStmt); ok {
			rs = r
			n++
		}
		return true
	})
	if n != 1 || exprKey(rs.X) != "hosts" || rs.Value == nil {
		return false, fmt.Errorf("setFinalHost: expected one loop over hosts")
	}
	hv := exprKey(rs.Value)
	var ifs *ast.IfStmt
	appended := false
	for _, st := range rs.Body.List {
		switch s := st.(type) {
		case *ast.IfStmt:
			if ifs != nil || appended {
				return false, fmt.Errorf("setFinalHost: unexpected loop shape")
			}
			ifs = s
		case *ast.AssignStmt:
			if len(s.Rhs) == 1 {
				if c, ok := s.Rhs[0].(*ast.CallExpr); ok && exprKey(c.Fun) == "append" && len(c.Args) == 2 && exprKey(c.Args[1]) == hv {
					if ifs == nil {
						return false, fmt.Errorf("setFinalHost: append before the duplicate test")
					}
					appended = true
				}
			}
		}
	}
	if ifs == nil || !appended || ifs.Else != nil || ifs.Init == nil {
		return false, fmt.Errorf("setFinalHost: duplicate test / append not found")
	}
	in, ok := ifs.Init.(*ast.AssignStmt)
	if !ok || len(in.Lhs) != 2 || len(in.Rhs) != 1 || exprKey(ifs.Cond) != exprKey(in.Lhs[1]) {
		return false, fmt.Errorf("setFinalHost: the if is not `if _, exists := m[addr]; exists`")
	}
	if _, ok := in.Rhs[0].(*ast.IndexExpr); !ok {
		return false, fmt.Errorf("setFinalHost: the if does not test a map")
	}
	bl := ifs.Body.List
	if len(bl) == 0 {
		return false, fmt.Errorf("setFinalHost: empty duplicate branch")
	}
	if b, ok := bl[len(bl)-1].(*ast.BranchStmt); !ok || b.Tok != token.CONTINUE {
		return false, fmt.Errorf("setFinalHost: duplicate branch does not end in continue")
	}
	if len(bl) == 1 {
		return true, nil
	}
	for _, st := range bl[:len(bl)-1] {
		if a, ok := st.(*ast.AssignStmt); ok && len(a.Lhs) == 1 && len(a.Rhs) == 1 && exprKey(a.Rhs[0]) == hv {
			if _, ok := a.Lhs[0].(*ast.IndexExpr); ok {
				return false, nil
			}
		}
	}
	return false, fmt.Errorf("setFinalHost: unsupported duplicate branch")
}
