package main

// C17, second half: the retry decision (pkg/proxy/retrystate.go), the places of pkg/proxy/downstream.go that consult it,
// the local-reply order of chooseHost, the pool-failure -> reset-reason switch of upstream.go and the reason -> status table.

import (
	"fmt"
	"go/ast"
	"go/constant"
	"go/importer"
	"go/parser"
	"go/token"
	"go/types"
	"os"
	"path/filepath"
	"regexp"
	"sort"
	"strings"
)

func init() {
	register("RetryState", genRetryState)
	register("RouteAction", genRouteAction)
}

// modDir locates the source directory of a module required by the repo's go.mod (module cache, read-only).
func modDir(mod string) (string, error) {
	b, err := os.ReadFile(filepath.Join(repo, "go.mod"))
	if err != nil {
		return "", err
	}
	m := regexp.MustCompile(`(?m)^\s*` + regexp.QuoteMeta(mod) + `\s+(v\S+)`).FindSubmatch(b)
	if m == nil {
		return "", fmt.Errorf("module %s not required by go.mod", mod)
	}
	var roots []string
	if c := os.Getenv("GOMODCACHE"); c != "" {
		roots = append(roots, c)
	}
	if g := os.Getenv("GOPATH"); g != "" {
		roots = append(roots, filepath.Join(g, "pkg", "mod"))
	}
	if h, err := os.UserHomeDir(); err == nil {
		roots = append(roots, filepath.Join(h, "go", "pkg", "mod"))
	}
	for _, r := range roots {
		d := filepath.Join(r, mod+"@"+string(m[1]))
		if st, err := os.Stat(d); err == nil && st.IsDir() {
			return d, nil
		}
	}
	return "", fmt.Errorf("module %s@%s not found in the module cache", mod, m[1])
}

// dirConsts type-checks the package in an absolute directory (imports stubbed) and returns its constants.
func dirConsts(dir string) (map[string]constant.Value, error) {
	if c, ok := constCache["abs:"+dir]; ok {
		return c, nil
	}
	pkgs, err := parser.ParseDir(fset, dir, func(fi os.FileInfo) bool { return !strings.HasSuffix(fi.Name(), "_test.go") }, 0)
	if err != nil {
		return nil, err
	}
	out := map[string]constant.Value{}
	for _, p := range pkgs {
		var names []string
		for n := range p.Files {
			names = append(names, n)
		}
		sort.Strings(names)
		var files []*ast.File
		for _, n := range names {
			files = append(files, p.Files[n])
		}
		conf := types.Config{Importer: fakeImporter{importer.Default()}, Error: func(error) {}}
		tp, _ := conf.Check(p.Name, fset, files, nil)
		if tp == nil {
			continue
		}
		for _, n := range tp.Scope().Names() {
			if c, ok := tp.Scope().Lookup(n).(*types.Const); ok {
				out[n] = c.Val()
			}
		}
	}
	constCache["abs:"+dir] = out
	return out, nil
}

func constInt(cs map[string]constant.Value, name string) (int64, error) {
	v, ok := cs[name]
	if !ok {
		return 0, fmt.Errorf("constant %s not found", name)
	}
	i, ok := constant.Int64Val(constant.ToInt(v))
	if !ok {
		return 0, fmt.Errorf("constant %s is not an integer", name)
	}
	return i, nil
}

func leanInt(i int64) string {
	if i < 0 {
		return fmt.Sprintf("(%d)", i)
	}
	return fmt.Sprint(i)
}


// mapStmts rewrites a statement list recursively (blocks, if bodies and else branches); f returns (replacement, true) to
// replace a statement (nil replacement = drop) or (_, false) to keep it and descend.
func mapStmts(l []ast.Stmt, f func(ast.Stmt) ([]ast.Stmt, bool)) []ast.Stmt {
	var out []ast.Stmt
	for _, s := range l {
		if r, ok := f(s); ok {
			out = append(out, r...)
			continue
		}
		switch x := s.(type) {
		case *ast.IfStmt:
			c := *x
			c.Body = &ast.BlockStmt{List: mapStmts(x.Body.List, f)}
			switch e := x.Else.(type) {
			case *ast.BlockStmt:
				c.Else = &ast.BlockStmt{List: mapStmts(e.List, f)}
			case *ast.IfStmt:
				r := mapStmts([]ast.Stmt{e}, f)
				if len(r) == 1 {
					c.Else = r[0]
				}
			}
			out = append(out, &c)
		case *ast.BlockStmt:
			out = append(out, &ast.BlockStmt{List: mapStmts(x.List, f)})
		default:
			out = append(out, s)
		}
	}
	return out
}

var reasonNames = []string{"StreamConnectionTermination", "StreamConnectionFailed", "StreamConnectionSuccessed", "StreamLocalReset",
	"StreamOverflow", "StreamRemoteReset", "UpstreamReset", "UpstreamGlobalTimeout", "UpstreamPerTryTimeout"}

func genRetryState() (string, error) {
	const src = "pkg/proxy/retrystate.go"
	f, err := parse(src)
	if err != nil {
		return "", err
	}
	tc, err := pkgConsts("pkg/types")
	if err != nil {
		return "", err
	}
	apiDir, err := modDir("mosn.io/api")
	if err != nil {
		return "", err
	}
	ac, err := dirConsts(apiDir)
	if err != nil {
		return "", err
	}
	pkgDir, err := modDir("mosn.io/pkg")
	if err != nil {
		return "", err
	}
	hc, err := dirConsts(filepath.Join(pkgDir, "protocol", "http"))
	if err != nil {
		return "", err
	}
	s := header("RetryState", src, "pkg/proxy/downstream.go", "pkg/proxy/upstream.go", "pkg/types/constant.go", "mosn.io/api (constants)")

	// ---- constants
	names := map[string]string{"nil": "false"}
	for _, n := range reasonNames {
		v, ok := tc[n]
		if !ok || v.Kind() != constant.String {
			return "", fmt.Errorf("reset reason %s not found in pkg/types", n)
		}
		s += fmt.Sprintf("def %s : String := %s\n", lowerFirst(n), v.ExactString())
		names["types."+n] = lowerFirst(n)
	}
	for _, n := range []string{"ShouldRetry", "NoRetry", "RetryOverflow"} {
		i, err := constInt(ac, n)
		if err != nil {
			return "", err
		}
		s += fmt.Sprintf("def rc%s : Int := %s\n", n, leanInt(i))
		names["api."+n] = "rc" + n
	}
	for _, n := range []string{"SuccessCode", "RouterUnavailableCode", "InternalErrorCode", "NoHealthUpstreamCode", "UpstreamOverFlowCode", "TimeoutExceptionCode"} {
		i, err := constInt(ac, n)
		if err != nil {
			return "", err
		}
		s += fmt.Sprintf("def %s : Int := %s\n", lowerFirst(n), leanInt(i))
		names["api."+n] = lowerFirst(n)
	}
	ise, err := constInt(hc, "InternalServerError")
	if err != nil {
		return "", err
	}
	s += fmt.Sprintf("def httpInternalServerError : Int := %d\n", ise)
	names["http.InternalServerError"] = "httpInternalServerError"

	// ---- newRetryState: initial budget
	fd := findFunc(f, "", "newRetryState")
	if fd == nil || len(fd.Body.List) < 2 {
		return "", fmt.Errorf("newRetryState not found")
	}
	var floor string
	if as, ok := fd.Body.List[0].(*ast.AssignStmt); ok && len(as.Lhs) == 1 && exprKey(as.Lhs[0]) == "rs" {
		ast.Inspect(as.Rhs[0], func(n ast.Node) bool {
			if kv, ok := n.(*ast.KeyValueExpr); ok && exprKey(kv.Key) == "retiesRemaining" {
				if bl, ok := kv.Value.(*ast.BasicLit); ok && bl.Kind == token.INT {
					floor = bl.Value
				}
			}
			return true
		})
	}
	if floor == "" {
		return "", fmt.Errorf("newRetryState: literal initial retiesRemaining not found")
	}
	env := &Env{Names: map[string]string{"rs.retiesRemaining": "retiesRemaining", "retryPolicy.NumRetries()": "numRetries", "rs": "retiesRemaining"},
		Calls: map[string]string{}, Ret: func(rs []string) string { return "retiesRemaining" }, Fall: "retiesRemaining"}
	body, err := env.block(fd.Body.List[1:], "  ")
	if err != nil {
		return "", fmt.Errorf("newRetryState: %v", err)
	}
	s += "/-- `newRetryState`: the retry budget of one request computed from the configured num_retries (uint32 as unbounded Int ≥ 0) -/\n"
	s += "def initialBudget (numRetries : Int) : Int :=\n  let retiesRemaining : Int := " + floor + "\n  " + body + "\n"

	// ---- doRetryCheck
	fd = findFunc(f, "retryState", "doRetryCheck")
	if fd == nil {
		return "", fmt.Errorf("doRetryCheck not found")
	}
	var shapeErr error
	stmts := mapStmts(fd.Body.List, func(st ast.Stmt) ([]ast.Stmt, bool) {
		switch x := st.(type) {
		case *ast.IfStmt:
			// if disable, err := variable.Get(ctx, types.VarProxyDisableRetry); err == nil {
			//     if retryDisable, ok := disable.(bool); ok && retryDisable { return false } }
			if x.Init != nil {
				as, ok := x.Init.(*ast.AssignStmt)
				if !ok || len(as.Rhs) != 1 || exprKey(as.Rhs[0]) != "variable.Get(ctx,types.VarProxyDisableRetry)" ||
					exprKey(x.Cond) != "?*ast.BinaryExpr" || x.Else != nil || len(x.Body.List) != 1 {
					shapeErr = fmt.Errorf("doRetryCheck: unexpected if-with-init")
					return nil, true
				}
				if be := x.Cond.(*ast.BinaryExpr); be.Op != token.EQL || exprKey(be.X) != "err" || exprKey(be.Y) != "nil" {
					shapeErr = fmt.Errorf("doRetryCheck: disable-retry lookup condition changed")
					return nil, true
				}
				in, ok := x.Body.List[0].(*ast.IfStmt)
				if !ok || in.Init == nil || in.Else != nil || len(in.Body.List) != 1 {
					shapeErr = fmt.Errorf("doRetryCheck: disable-retry inner if changed")
					return nil, true
				}
				ia, ok := in.Init.(*ast.AssignStmt)
				ta, ok2 := (ast.Expr)(nil), false
				if ok && len(ia.Rhs) == 1 {
					ta, ok2 = ia.Rhs[0].(*ast.TypeAssertExpr)
				}
				be, ok3 := in.Cond.(*ast.BinaryExpr)
				if !ok || !ok2 || !ok3 || exprKey(ta.(*ast.TypeAssertExpr).X) != "disable" || exprKey(ta.(*ast.TypeAssertExpr).Type) != "bool" ||
					be.Op != token.LAND || exprKey(be.X) != "ok" || exprKey(be.Y) != "retryDisable" {
					shapeErr = fmt.Errorf("doRetryCheck: disable-retry type assertion / condition changed")
					return nil, true
				}
				return []ast.Stmt{&ast.IfStmt{Cond: ast.NewIdent("disableRetry"), Body: in.Body}}, true
			}
		case *ast.AssignStmt:
			// code, err := protocol.MappingHeaderStatusCode(ctx, r.upstreamProtocol, headers)
			if len(x.Lhs) == 2 {
				if exprKey(x.Lhs[0]) == "code" && exprKey(x.Lhs[1]) == "err" && len(x.Rhs) == 1 &&
					exprKey(x.Rhs[0]) == "protocol.MappingHeaderStatusCode(ctx,r.upstreamProtocol,headers)" {
					return nil, true
				}
				shapeErr = fmt.Errorf("doRetryCheck: unexpected two-value assignment")
				return nil, true
			}
		}
		return nil, false
	})
	if shapeErr != nil {
		return "", shapeErr
	}
	env = &Env{Names: copyNames(names), Calls: map[string]string{"int": ""}, Types: map[string]string{"codes": "List Int"},
		Ret: func(rs []string) string { return rs[0] }, Fall: "false"}
	for k, v := range map[string]string{"ctx": "hasCtx", "disableRetry": "disableRetry", "reason": "reason", "r.retryOn": "retryOn", "code": "code",
		"err": "statusErr", "r.retryPolicy.RetryableStatusCodes()": "retryCodes", "len(codes)": "(codes.length : Int)"} {
		env.Names[k] = v
	}
	body, err = env.block(stmts, "  ")
	if err != nil {
		return "", fmt.Errorf("doRetryCheck: %v", err)
	}
	s += "/-- `retryState.doRetryCheck`, statement by statement. `hasCtx` = (ctx != nil); `disableRetry` = the proxy_disable_retry variable is\npresent and true; `statusErr`/`code` = result of protocol.MappingHeaderStatusCode (reads the status VARIABLE of the stream context,\nwhatever attempt wrote it last); `retryCodes` = the policy's status-code list; `reason` = the reset reason (\"\" for response headers). -/\n"
	s += "def doRetryCheck (hasCtx disableRetry retryOn statusErr : Bool) (code : Int) (retryCodes : List Int) (reason : String) : Bool :=\n  " + body + "\n"

	// ---- shouldRetry
	fd = findFunc(f, "retryState", "shouldRetry")
	if fd == nil {
		return "", fmt.Errorf("shouldRetry not found")
	}
	skip := map[string]bool{"r.cluster.Stats().UpstreamRequestRetryOverflow.Inc": true, "r.cluster.Stats().UpstreamRequestRetry.Inc": true,
		"r.reset": true, "r.cluster.ResourceManager().Retries().Increase": true}
	env = &Env{Names: copyNames(names), Calls: map[string]string{}, SkipCalls: skip,
		Ret: func(rs []string) string { return "(" + rs[0] + ", retiesRemaining)" }, Fall: "(rcNoRetry, retiesRemaining)"}
	env.Names["r.retiesRemaining"] = "retiesRemaining"
	env.Names["r.doRetryCheck(ctx,headers,reason)"] = "check"
	env.Names["r.cluster.ResourceManager().Retries().CanCreate()"] = "canCreate"
	body, err = env.block(fd.Body.List, "  ")
	if err != nil {
		return "", fmt.Errorf("shouldRetry: %v", err)
	}
	s += "/-- `retryState.shouldRetry`: (status, new retiesRemaining). `check` = doRetryCheck's result, `canCreate` = the Retries breaker admits.\nuint32 `retiesRemaining` as Int: the decrement is guarded by the `== 0` test, so it never wraps. -/\n"
	s += "def shouldRetry (retiesRemaining : Int) (check canCreate : Bool) : Int × Int :=\n  " + body + "\n"

	// ---- retry
	fd = findFunc(f, "retryState", "retry")
	if fd == nil {
		return "", fmt.Errorf("retry not found")
	}
	env = &Env{Names: copyNames(names), Calls: map[string]string{}, SkipCalls: skip, Ret: func(rs []string) string { return rs[0] }, Fall: "shouldRetryStatus"}
	env.Names["r.shouldRetry(ctx,headers,reason)"] = "shouldRetryStatus"
	body, err = env.block(fd.Body.List, "  ")
	if err != nil {
		return "", fmt.Errorf("retry: %v", err)
	}
	s += "/-- `retryState.retry`: the status handed to the proxy, from shouldRetry's status (breaker accounting dropped: C10's concern) -/\n"
	s += "def retry (shouldRetryStatus : Int) : Int :=\n  " + body + "\n"

	// ---- downstream.go: the two places that consult the retry state, setupRetry's result, the worker loop bound
	df, err := parse("pkg/proxy/downstream.go")
	if err != nil {
		return "", err
	}
	dnames := copyNames(names)
	for k, v := range map[string]string{"reason": "reason", "s.downstreamResponseStarted": "responseStarted", "s.retryState": "hasRetryState",
		"retryCheck": "retryCheck", "s.setupRetry(true)": "setupRetryResult", "s.setupRetry(endStream)": "setupRetryResult"} {
		dnames[k] = v
	}
	denv := &Env{Names: dnames, Calls: map[string]string{}}
	// onUpstreamReset
	fd = findFunc(df, "downStream", "onUpstreamReset")
	if fd == nil || len(fd.Body.List) < 2 {
		return "", fmt.Errorf("onUpstreamReset not found")
	}
	guard, ok := fd.Body.List[0].(*ast.IfStmt)
	if !ok || guard.Init != nil || guard.Else != nil || len(guard.Body.List) < 2 {
		return "", fmt.Errorf("onUpstreamReset: first statement is not the retry guard")
	}
	g, err := denv.expr(guard.Cond)
	if err != nil {
		return "", fmt.Errorf("onUpstreamReset guard: %v", err)
	}
	if as, ok := guard.Body.List[0].(*ast.AssignStmt); !ok || exprKey(as.Lhs[0]) != "retryCheck" || exprKey(as.Rhs[0]) != "s.retryState.retry(s.context,nil,reason)" {
		return "", fmt.Errorf("onUpstreamReset: retry call changed")
	}
	inner, ok := guard.Body.List[1].(*ast.IfStmt)
	if !ok || inner.Init != nil || !endsInReturn(inner.Body.List) {
		return "", fmt.Errorf("onUpstreamReset: retry branch changed")
	}
	rc, err := denv.expr(inner.Cond)
	if err != nil {
		return "", fmt.Errorf("onUpstreamReset retry condition: %v", err)
	}
	// onUpstreamHeaders
	fd = findFunc(df, "downStream", "onUpstreamHeaders")
	if fd == nil {
		return "", fmt.Errorf("onUpstreamHeaders not found")
	}
	var hguard *ast.IfStmt
	startedAfter := false
	for _, st := range fd.Body.List {
		if is, ok := st.(*ast.IfStmt); ok && hguard == nil && strings.Contains(exprKey(is.Cond), "retryState") || func() bool {
			be, ok := st.(*ast.IfStmt)
			if !ok || hguard != nil {
				return false
			}
			b, ok := be.Cond.(*ast.BinaryExpr)
			return ok && exprKey(b.X) == "s.retryState"
		}() {
			hguard = st.(*ast.IfStmt)
			continue
		}
		if as, ok := st.(*ast.AssignStmt); ok && hguard != nil && exprKey(as.Lhs[0]) == "s.downstreamResponseStarted" && exprKey(as.Rhs[0]) == "true" {
			startedAfter = true
		}
	}
	if hguard == nil || hguard.Init != nil || len(hguard.Body.List) < 2 || !startedAfter {
		return "", fmt.Errorf("onUpstreamHeaders: retry guard followed by `downstreamResponseStarted = true` not found")
	}
	hg, err := denv.expr(hguard.Cond)
	if err != nil {
		return "", fmt.Errorf("onUpstreamHeaders guard: %v", err)
	}
	if as, ok := hguard.Body.List[0].(*ast.AssignStmt); !ok || exprKey(as.Lhs[0]) != "retryCheck" || exprKey(as.Rhs[0]) != "s.retryState.retry(s.context,headers,\"\")" {
		return "", fmt.Errorf("onUpstreamHeaders: retry call changed")
	}
	hinner, ok := hguard.Body.List[1].(*ast.IfStmt)
	if !ok || hinner.Init != nil || !endsInReturn(hinner.Body.List) {
		return "", fmt.Errorf("onUpstreamHeaders: retry branch changed")
	}
	hrc, err := denv.expr(hinner.Cond)
	if err != nil {
		return "", fmt.Errorf("onUpstreamHeaders retry condition: %v", err)
	}
	// setupRetry: the function ends in `return true`; an earlier `return false` is only accepted directly inside an `if` on the
	// globalTimeoutExpired flag (the global timeout already fired: in the model the `.global` label has ended the exchange).
	fd = findFunc(df, "downStream", "setupRetry")
	if fd == nil || len(fd.Body.List) == 0 {
		return "", fmt.Errorf("setupRetry not found")
	}
	sr := ""
	if r, ok := fd.Body.List[len(fd.Body.List)-1].(*ast.ReturnStmt); ok && len(r.Results) == 1 && exprKey(r.Results[0]) == "true" {
		sr = "true"
	}
	bad := false
	for _, st := range fd.Body.List[:len(fd.Body.List)-1] {
		if !containsReturn(st) {
			continue
		}
		is, ok := st.(*ast.IfStmt)
		mentions := false
		if ok {
			ast.Inspect(is.Cond, func(n ast.Node) bool {
				if se, ok := n.(*ast.SelectorExpr); ok && se.Sel.Name == "globalTimeoutExpired" {
					mentions = true
				}
				return true
			})
		}
		if !ok || !mentions || is.Else != nil || len(is.Body.List) != 1 {
			bad = true
			continue
		}
		if r, ok := is.Body.List[0].(*ast.ReturnStmt); !ok || len(r.Results) != 1 || exprKey(r.Results[0]) != "false" {
			bad = true
		}
	}
	if bad || sr == "" {
		return "", fmt.Errorf("setupRetry: does not end in `return true` or refuses for a reason outside the model")
	}
	// OnReceive: `for i := 0; i < N; i++` around s.receive
	fd = findFunc(df, "downStream", "OnReceive")
	if fd == nil {
		return "", fmt.Errorf("downStream.OnReceive not found")
	}
	loopN := ""
	keeps := "false"
	ast.Inspect(fd.Body, func(n ast.Node) bool {
		fs, ok := n.(*ast.ForStmt)
		if !ok || fs.Cond == nil {
			return true
		}
		be, ok := fs.Cond.(*ast.BinaryExpr)
		if !ok || be.Op != token.LSS {
			return true
		}
		calls := false
		ast.Inspect(fs.Body, func(m ast.Node) bool {
			if c, ok := m.(*ast.CallExpr); ok && exprKey(c.Fun) == "s.receive" {
				calls = true
			}
			return true
		})
		if bl, ok := be.Y.(*ast.BasicLit); ok && calls && bl.Kind == token.INT {
			if init, ok := fs.Init.(*ast.AssignStmt); ok && exprKey(init.Rhs[0]) == "0" {
				loopN = bl.Value
				// does the `case types.Retry:` clause give the iteration back (`i--`)?
				ast.Inspect(fs.Body, func(m ast.Node) bool {
					cc, ok := m.(*ast.CaseClause)
					if !ok || len(cc.List) != 1 || exprKey(cc.List[0]) != "types.Retry" {
						return true
					}
					for _, st := range cc.Body {
						if id, ok := st.(*ast.IncDecStmt); ok && id.Tok == token.DEC && exprKey(id.X) == exprKey(init.Lhs[0]) {
							keeps = "true"
						}
					}
					return true
				})
			}
		}
		return true
	})
	if loopN == "" {
		return "", fmt.Errorf("OnReceive: bounded worker loop around s.receive not found")
	}
	s += "/-- `downStream.setupRetry` reports success (unless the global timeout has already expired, which ends the exchange in the model) -/\ndef setupRetryResult : Bool := " + sr + "\n"
	s += "/-- `onUpstreamReset`: `if <guard> { retryCheck := retryState.retry(ctx, nil, reason); if <cond> { …; return } … }` -/\n"
	s += "def resetGuard (reason : String) (responseStarted hasRetryState : Bool) : Bool := " + g + "\n"
	s += "def resetRetryCond (retryCheck : Int) : Bool := " + rc + "\n"
	s += "/-- `onUpstreamHeaders`: `if <guard> { retryCheck := retryState.retry(ctx, headers, \"\"); if <cond> { …; return } … }; …; downstreamResponseStarted = true` -/\n"
	s += "def headersGuard (hasRetryState : Bool) : Bool := " + hg + "\n"
	s += "def headersRetryCond (retryCheck : Int) : Bool := " + hrc + "\n"
	s += "/-- `downStream.OnReceive`: the worker runs `receive` at most this many times (first pass + one per Retry phase) -/\n"
	s += "def workLoopBound : Nat := " + loopN + "\n"
	s += "/-- the `case types.Retry:` clause of that loop gives its iteration back (`i--`): retry passes do not use up the bound -/\n"
	s += "def retryKeepsBudget : Bool := " + keeps + "\n"

	// ---- upstream.go OnFailure: pool failure reason -> reset reason
	uf, err := parse("pkg/proxy/upstream.go")
	if err != nil {
		return "", err
	}
	fd = findFunc(uf, "upstreamRequest", "OnFailure")
	if fd == nil {
		return "", fmt.Errorf("OnFailure not found")
	}
	pf := map[string]string{}
	ast.Inspect(fd.Body, func(n ast.Node) bool {
		cc, ok := n.(*ast.CaseClause)
		if !ok || len(cc.List) != 1 || len(cc.Body) != 1 {
			return true
		}
		if as, ok := cc.Body[0].(*ast.AssignStmt); ok && exprKey(as.Lhs[0]) == "resetReason" {
			pf[exprKey(cc.List[0])] = exprKey(as.Rhs[0])
		}
		return true
	})
	for _, k := range []string{"types.Overflow", "types.ConnectionFailure"} {
		if _, ok := names[pf[k]]; !ok {
			return "", fmt.Errorf("OnFailure: reset reason for %s not found", k)
		}
	}
	s += "/-- `upstreamRequest.OnFailure`: the reset reason a refused pool.NewStream is turned into -/\n"
	s += "def poolFailReason (overflow : Bool) : String := if overflow then " + names[pf["types.Overflow"]] + " else " + names[pf["types.ConnectionFailure"]] + "\n"

	// ---- pkg/types/constant.go reason2code + ConvertReasonToCode default
	cf, err := parse("pkg/types/constant.go")
	if err != nil {
		return "", err
	}
	var table []string
	tnames := map[string]string{}
	for k, v := range names {
		tnames[strings.TrimPrefix(k, "types.")] = v
	}
	for _, d := range cf.Decls {
		gd, ok := d.(*ast.GenDecl)
		if !ok {
			continue
		}
		for _, sp := range gd.Specs {
			vs, ok := sp.(*ast.ValueSpec)
			if !ok || len(vs.Names) != 1 || vs.Names[0].Name != "reason2code" || len(vs.Values) != 1 {
				continue
			}
			cl, ok := vs.Values[0].(*ast.CompositeLit)
			if !ok {
				continue
			}
			for _, e := range cl.Elts {
				kv, ok := e.(*ast.KeyValueExpr)
				if !ok {
					return "", fmt.Errorf("reason2code: element shape")
				}
				k, ok1 := tnames[exprKey(kv.Key)]
				v, ok2 := tnames[exprKey(kv.Value)]
				if !ok1 || !ok2 {
					return "", fmt.Errorf("reason2code: unknown entry %s: %s", exprKey(kv.Key), exprKey(kv.Value))
				}
				table = append(table, "("+k+", "+v+")")
			}
		}
	}
	fd = findFunc(cf, "", "ConvertReasonToCode")
	if fd == nil || len(table) == 0 {
		return "", fmt.Errorf("reason2code / ConvertReasonToCode not found")
	}
	def := ""
	if r, ok := fd.Body.List[len(fd.Body.List)-1].(*ast.ReturnStmt); ok && len(r.Results) == 1 {
		def = tnames[exprKey(r.Results[0])]
	}
	if def == "" {
		return "", fmt.Errorf("ConvertReasonToCode: default code not found")
	}
	s += "def reason2code : List (String × Int) := [" + strings.Join(table, ", ") + "]\n"
	s += "/-- `types.ConvertReasonToCode` -/\ndef convertReasonToCode (reason : String) : Int :=\n  match reason2code.find? (fun e => e.1 == reason) with\n  | some e => e.2\n  | none => " + def + "\n"
	s += footer("RetryState")
	return s, nil
}

// genRouteAction: chooseHost's order of local-reply branches, getStringOr, and finalizePathHeader's prefix-rewrite branch.
func genRouteAction() (string, error) {
	df, err := parse("pkg/proxy/downstream.go")
	if err != nil {
		return "", err
	}
	fd := findFunc(df, "downStream", "chooseHost")
	if fd == nil {
		return "", fmt.Errorf("chooseHost not found")
	}
	// top-level ifs whose body ends in return, in order, classified by what their condition / init mentions
	var order []string
	poolSeen := false
	for _, st := range fd.Body.List {
		if as, ok := st.(*ast.AssignStmt); ok && len(as.Rhs) == 1 && strings.HasPrefix(exprKey(as.Rhs[0]), "s.initializeUpstreamConnectionPool(") {
			order = append(order, ".pool")
			poolSeen = true
			continue
		}
		is, ok := st.(*ast.IfStmt)
		if !ok || poolSeen {
			continue
		}
		if be, ok := is.Cond.(*ast.BinaryExpr); ok && exprKey(be.X) == "log.Proxy.GetLogLevel()" && !containsReturn(is) {
			continue // logging only
		}
		key := exprKey(is.Cond)
		if is.Init != nil {
			if as, ok := is.Init.(*ast.AssignStmt); ok && len(as.Rhs) == 1 {
				key = exprKey(as.Rhs[0])
			}
		}
		kind := ""
		switch {
		case key == "s.route.DirectResponseRule()":
			kind = ".direct"
		case key == "s.route.RedirectRule()":
			kind = ".redirect"
		case key == "s.route.RouteRule()":
			kind = ".noRule"
		default:
			if be, ok := is.Cond.(*ast.BinaryExpr); ok {
				if exprKey(be.X) == "s.route" && exprKey(be.Y) == "nil" && be.Op == token.EQL {
					kind = ".noRoute"
				} else {
					ast.Inspect(is.Cond, func(m ast.Node) bool {
						if se, ok := m.(*ast.SelectorExpr); ok && exprKey(se) == "s.snapshot" {
							kind = ".noSnapshot"
						}
						return true
					})
				}
			}
		}
		if kind == "" {
			return "", fmt.Errorf("chooseHost: unclassified branch before the pool initialisation")
		}
		if !endsInReturn(is.Body.List) {
			return "", fmt.Errorf("chooseHost: branch %s does not end in return", kind)
		}
		// a local-reply branch must not reach the pool
		reach := false
		ast.Inspect(is.Body, func(n ast.Node) bool {
			if c, ok := n.(*ast.CallExpr); ok && (strings.Contains(exprKey(c.Fun), "initializeUpstreamConnectionPool") || strings.Contains(exprKey(c.Fun), "NewStream")) {
				reach = true
			}
			return true
		})
		if reach {
			return "", fmt.Errorf("chooseHost: branch %s reaches the connection pool", kind)
		}
		order = append(order, kind)
	}
	if !poolSeen {
		return "", fmt.Errorf("chooseHost: pool initialisation not found")
	}
	s := header("RouteAction", "pkg/proxy/downstream.go (chooseHost, getStringOr)", "pkg/router/base_rule.go (finalizePathHeader)")
	s += "inductive Branch where\n  | noRoute | direct | redirect | noRule | noSnapshot | pool\nderiving DecidableEq, Repr\n"
	s += "/-- `chooseHost`: the order of the branches; every branch before `.pool` ends in `return` and never touches a pool -/\n"
	s += "def chooseHostOrder : List Branch := [" + strings.Join(order, ", ") + "]\n"
	// getStringOr
	fd = findFunc(df, "", "getStringOr")
	if fd == nil {
		return "", fmt.Errorf("getStringOr not found")
	}
	env := &Env{Names: map[string]string{"s": "s", "defVal": "defVal", "len(s)": "(s.length : Int)"}, Calls: map[string]string{},
		Ret: func(rs []string) string { return rs[0] }, Fall: "defVal"}
	body, err := env.block(fd.Body.List, "  ")
	if err != nil {
		return "", fmt.Errorf("getStringOr: %v", err)
	}
	s += "/-- `getStringOr` (redirect scheme/host/path defaults) -/\ndef getStringOr (s defVal : String) : String :=\n  " + body + "\n"
	// the port-stripping condition of the redirect branch
	var strip ast.Expr
	fd = findFunc(df, "downStream", "chooseHost")
	ast.Inspect(fd.Body, func(n ast.Node) bool {
		is, ok := n.(*ast.IfStmt)
		if !ok || is.Init != nil {
			return true
		}
		if be, ok := is.Cond.(*ast.BinaryExpr); ok && be.Op == token.LOR && strings.Contains(exprKey(is.Cond), "") {
			found := false
			ast.Inspect(is.Cond, func(m ast.Node) bool {
				if id, ok := m.(*ast.Ident); ok && id.Name == "port" {
					found = true
				}
				return true
			})
			if found {
				strip = is.Cond
			}
		}
		return true
	})
	if strip == nil {
		return "", fmt.Errorf("chooseHost: port-stripping condition not found")
	}
	env = &Env{Names: map[string]string{"u.Scheme": "scheme", "port": "port"}, Calls: map[string]string{}}
	sc, err := env.expr(strip)
	if err != nil {
		return "", fmt.Errorf("port-stripping condition: %v", err)
	}
	s += "/-- redirect: with a changed scheme and a host of the form host:port, the port is dropped when this holds -/\n"
	s += "def stripPort (scheme port : String) : Bool := " + sc + "\n"

	// finalizePathHeader: the guard and the prefix branch
	bf, err := parse("pkg/router/base_rule.go")
	if err != nil {
		return "", err
	}
	fd = findFunc(bf, "RouteRuleImplBase", "finalizePathHeader")
	if fd == nil {
		return "", fmt.Errorf("finalizePathHeader not found")
	}
	var prefIf *ast.IfStmt
	var newPath ast.Expr
	origRecorded := false
	ast.Inspect(fd.Body, func(n ast.Node) bool {
		is, ok := n.(*ast.IfStmt)
		if !ok {
			return true
		}
		if exprKey(is.Cond) == "strings.HasPrefix(path,matchedPath)" {
			prefIf = is
			for _, st := range is.Body.List {
				es, ok := st.(*ast.ExprStmt)
				if !ok {
					continue
				}
				c, ok := es.X.(*ast.CallExpr)
				if !ok {
					continue
				}
				if exprKey(c.Fun) == "headers.Set" && len(c.Args) == 2 && exprKey(c.Args[0]) == "types.HeaderOriginalPath" && exprKey(c.Args[1]) == "path" {
					origRecorded = true
				}
				if exprKey(c.Fun) == "variable.SetString" && len(c.Args) == 3 && exprKey(c.Args[1]) == "types.VarPath" {
					newPath = c.Args[2]
				}
			}
		}
		return true
	})
	if prefIf == nil || newPath == nil || !origRecorded {
		return "", fmt.Errorf("finalizePathHeader: prefix branch (HasPrefix / original-path header / path variable) not found")
	}
	be, ok := newPath.(*ast.BinaryExpr)
	if !ok || be.Op != token.ADD || exprKey(be.X) != "rri.prefixRewrite" {
		return "", fmt.Errorf("finalizePathHeader: new path is not prefixRewrite + …")
	}
	sl, ok := be.Y.(*ast.SliceExpr)
	if !ok || exprKey(sl.X) != "path" || sl.High != nil || exprKey(sl.Low) != "len(matchedPath)" {
		return "", fmt.Errorf("finalizePathHeader: new path is not prefixRewrite + path[len(matchedPath):]")
	}
	// the enabling guard: first statement `if len(prefixRewrite) == 0 && len(regex) == 0 { return }`, and `path != ""`
	first, ok := fd.Body.List[0].(*ast.IfStmt)
	if !ok || !endsInReturn(first.Body.List) {
		return "", fmt.Errorf("finalizePathHeader: leading guard not found")
	}
	env = &Env{Names: map[string]string{"len(rri.prefixRewrite)": "(prefixRewrite.length : Int)", "len(rri.regexRewrite.Pattern.Regex)": "(regex.length : Int)"}, Calls: map[string]string{}}
	gc, err := env.expr(first.Cond)
	if err != nil {
		return "", fmt.Errorf("finalizePathHeader guard: %v", err)
	}
	cs, err := pkgConsts("pkg/types")
	if err != nil {
		return "", err
	}
	hop, ok := cs["HeaderOriginalPath"]
	if !ok {
		return "", fmt.Errorf("HeaderOriginalPath not found")
	}
	// NewRouteRuleImplBase: the condition under which a configured regex_rewrite is stored at all
	fd = findFunc(bf, "", "NewRouteRuleImplBase")
	if fd == nil {
		return "", fmt.Errorf("NewRouteRuleImplBase not found")
	}
	var stored ast.Expr
	ast.Inspect(fd.Body, func(n ast.Node) bool {
		is, ok := n.(*ast.IfStmt)
		if !ok || is.Init != nil {
			return true
		}
		for _, st := range is.Body.List {
			if as, ok := st.(*ast.AssignStmt); ok && exprKey(as.Lhs[0]) == "base.regexRewrite" {
				stored = is.Cond
			}
		}
		return true
	})
	if stored == nil {
		return "", fmt.Errorf("NewRouteRuleImplBase: regex_rewrite storing condition not found")
	}
	env = &Env{Names: map[string]string{"route.Route.RegexRewrite": "hasRegexRewrite", "nil": "false",
		"len(route.Route.RegexRewrite.Pattern.Regex)": "(regex.length : Int)", "len(route.Route.PrefixRewrite)": "(prefixRewrite.length : Int)"}, Calls: map[string]string{}}
	stc, err := env.expr(stored)
	if err != nil {
		return "", fmt.Errorf("regex_rewrite storing condition: %v", err)
	}
	s += "/-- `NewRouteRuleImplBase`: a configured regex_rewrite is kept (and compiled) only when this holds -/\n"
	s += "def regexStored (hasRegexRewrite : Bool) (regex prefixRewrite : String) : Bool := " + stc + "\n"
	s += "def headerOriginalPath : String := " + hop.ExactString() + "\n"
	s += "/-- `finalizePathHeader` returns at once (no rewrite at all) when this holds -/\n"
	s += "def rewriteDisabled (prefixRewrite regex : String) : Bool := " + gc + "\n"
	s += "/-- prefix branch: `if strings.HasPrefix(path, matchedPath) { headers.Set(HeaderOriginalPath, path); path = prefixRewrite + path[len(matchedPath):] }`\n"
	s += "(strings as lists of bytes/characters: Go slices bytes; identical for the ASCII paths that are generated) -/\n"
	s += "def prefixRewritePath (prefixRewrite matchedPath path : List Char) : Option (List Char) :=\n  if matchedPath.isPrefixOf path then some (prefixRewrite ++ path.drop matchedPath.length) else none\n"
	s += footer("RouteAction")
	return s, nil
}
