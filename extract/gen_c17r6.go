package main

// C17, construction wiring of the header parsers: for each of the three levels (router configuration / virtual host /
// route) and both directions, WHICH configuration fields feed the level's request / response header parser.
// Regenerated from the composite literals of NewConfigImpl (configutility.go), NewVirtualHostImpl (virtualhost.go),
// NewRouteRuleImplBase (base_rule.go): the arguments of getHeaderParser in the `requestHeadersParser:` /
// `responseHeadersParser:` entries; from getHeaderParser (utility.go): which parameter becomes the additions and which the
// removals, and its nil condition; from NewRouters (routers_impl.go): that the router-level configImpl built from the
// router configuration is the one installed as every virtual host's globalRouteConfig.

import (
	"fmt"
	"go/ast"
	"go/token"
	"strings"
)

func init() { register("HeaderWiring", genC17r6HeaderWiring) }

// c17r6Literal finds, inside fn, the composite literal of type `typ` (possibly behind &).
func c17r6Literal(fd *ast.FuncDecl, typ string) *ast.CompositeLit {
	var out *ast.CompositeLit
	ast.Inspect(fd.Body, func(n ast.Node) bool {
		if cl, ok := n.(*ast.CompositeLit); ok && out == nil {
			if id, ok := cl.Type.(*ast.Ident); ok && id.Name == typ {
				out = cl
			}
		}
		return true
	})
	return out
}

func c17r6Entry(cl *ast.CompositeLit, key string) ast.Expr {
	var out ast.Expr
	n := 0
	for _, e := range cl.Elts {
		if kv, ok := e.(*ast.KeyValueExpr); ok && exprKey(kv.Key) == key {
			out = kv.Value
			n++
		}
	}
	if n != 1 {
		return nil
	}
	return out
}

var c17r6AddFields = map[string]string{"RequestHeadersToAdd": ".requestHeadersToAdd", "ResponseHeadersToAdd": ".responseHeadersToAdd"}
var c17r6RemFields = map[string]string{"RequestHeadersToRemove": ".requestHeadersToRemove", "ResponseHeadersToRemove": ".responseHeadersToRemove"}

// c17r6Field: `<base>.<Field>` where base must be the level's own configuration object.
func c17r6Field(e ast.Expr, base string, table map[string]string) (string, error) {
	k := exprKey(e)
	if !strings.HasPrefix(k, base+".") {
		return "", fmt.Errorf("parser argument %s is not a field of %s", k, base)
	}
	f, ok := table[strings.TrimPrefix(k, base+".")]
	if !ok {
		return "", fmt.Errorf("parser argument %s: unexpected field", k)
	}
	return f, nil
}

// c17r6NilCond: boolean combination of `<param> == nil` / `<param> != nil`
func c17r6NilCond(e ast.Expr, addP, remP string) (string, error) {
	switch x := e.(type) {
	case *ast.ParenExpr:
		s, err := c17r6NilCond(x.X, addP, remP)
		return "(" + s + ")", err
	case *ast.BinaryExpr:
		switch x.Op {
		case token.LAND, token.LOR:
			l, err := c17r6NilCond(x.X, addP, remP)
			if err != nil {
				return "", err
			}
			r, err := c17r6NilCond(x.Y, addP, remP)
			if err != nil {
				return "", err
			}
			op := " && "
			if x.Op == token.LOR {
				op = " || "
			}
			return "(" + l + op + r + ")", nil
		case token.EQL, token.NEQ:
			if exprKey(x.Y) != "nil" {
				break
			}
			v := ""
			switch exprKey(x.X) {
			case addP:
				v = "addsNil"
			case remP:
				v = "removesNil"
			default:
				return "", fmt.Errorf("nil test of %s", exprKey(x.X))
			}
			if x.Op == token.NEQ {
				v = "(!" + v + ")"
			}
			return v, nil
		}
	}
	return "", fmt.Errorf("unsupported guard expression")
}

func genC17r6HeaderWiring() (string, error) {
	// 1. the constructor: getHeaderParser(headersToAdd, headersToRemove)
	uf, err := parse("pkg/router/utility.go")
	if err != nil {
		return "", err
	}
	ctor := findFunc(uf, "", "getHeaderParser")
	if ctor == nil || ctor.Type.Params == nil {
		return "", fmt.Errorf("getHeaderParser not found")
	}
	var params []string
	for _, p := range ctor.Type.Params.List {
		for _, n := range p.Names {
			params = append(params, n.Name)
		}
	}
	if len(params) != 2 {
		return "", fmt.Errorf("getHeaderParser: expected two parameters, got %v", params)
	}
	cl := c17r6Literal(ctor, "headerParser")
	if cl == nil {
		return "", fmt.Errorf("getHeaderParser: headerParser literal not found")
	}
	argOf := func(key, conv string) (int, error) {
		v := c17r6Entry(cl, key)
		c, ok := v.(*ast.CallExpr)
		if !ok || exprKey(c.Fun) != conv || len(c.Args) != 1 {
			return 0, fmt.Errorf("getHeaderParser: %s is not %s(<parameter>)", key, conv)
		}
		for i, p := range params {
			if exprKey(c.Args[0]) == p {
				return i, nil
			}
		}
		return 0, fmt.Errorf("getHeaderParser: %s built from %s, not a parameter", key, exprKey(c.Args[0]))
	}
	addArg, err := argOf("headersToAdd", "getHeaderPair")
	if err != nil {
		return "", err
	}
	remArg, err := argOf("headersToRemove", "getHeadersToRemove")
	if err != nil {
		return "", err
	}
	if addArg == remArg {
		return "", fmt.Errorf("getHeaderParser: additions and removals built from the same parameter")
	}
	// the nil guard: statements other than the final return must be exactly `if <cond> { return nil }`
	nilCond := ""
	for _, st := range ctor.Body.List {
		switch s := st.(type) {
		case *ast.IfStmt:
			if nilCond != "" || s.Else != nil || s.Init != nil || len(s.Body.List) != 1 {
				return "", fmt.Errorf("getHeaderParser: unexpected guard")
			}
			r, ok := s.Body.List[0].(*ast.ReturnStmt)
			if !ok || len(r.Results) != 1 || exprKey(r.Results[0]) != "nil" {
				return "", fmt.Errorf("getHeaderParser: guard does not return nil")
			}
			c, err := c17r6NilCond(s.Cond, params[addArg], params[remArg])
			if err != nil {
				return "", fmt.Errorf("getHeaderParser guard: %v", err)
			}
			nilCond = c
		case *ast.ReturnStmt:
		default:
			return "", fmt.Errorf("getHeaderParser: unexpected statement %T", st)
		}
	}
	if nilCond == "" {
		nilCond = "false"
	}

	// 2. the three construction sites
	type site struct{ level, file, fn, typ, base string }
	sites := []site{
		{".route", "pkg/router/base_rule.go", "NewRouteRuleImplBase", "RouteRuleImplBase", "route.Route"},
		{".vhost", "pkg/router/virtualhost.go", "NewVirtualHostImpl", "VirtualHostImpl", "virtualHost"},
		{".router", "pkg/router/configutility.go", "NewConfigImpl", "configImpl", "routerConfig"},
	}
	var rows []string
	for _, s := range sites {
		f, err := parse(s.file)
		if err != nil {
			return "", err
		}
		fd := findFunc(f, "", s.fn)
		if fd == nil {
			return "", fmt.Errorf("%s not found", s.fn)
		}
		lit := c17r6Literal(fd, s.typ)
		if lit == nil {
			return "", fmt.Errorf("%s: %s literal not found", s.fn, s.typ)
		}
		for _, d := range [][2]string{{".request", "requestHeadersParser"}, {".response", "responseHeadersParser"}} {
			v := c17r6Entry(lit, d[1])
			if v == nil {
				// no parser built for this level and direction: no row (the model treats it as the nil parser)
				continue
			}
			c, ok := v.(*ast.CallExpr)
			if !ok || exprKey(c.Fun) != "getHeaderParser" || len(c.Args) != 2 {
				return "", fmt.Errorf("%s: %s is not built by getHeaderParser(a, b)", s.fn, d[1])
			}
			af, err := c17r6Field(c.Args[addArg], s.base, c17r6AddFields)
			if err != nil {
				return "", fmt.Errorf("%s %s: %v", s.fn, d[1], err)
			}
			rf, err := c17r6Field(c.Args[remArg], s.base, c17r6RemFields)
			if err != nil {
				return "", fmt.Errorf("%s %s: %v", s.fn, d[1], err)
			}
			rows = append(rows, fmt.Sprintf("(%s, %s, %s, %s)", s.level, d[0], af, rf))
		}
		// the parser fields must not be reassigned later in the constructor
		bad := ""
		ast.Inspect(fd.Body, func(n ast.Node) bool {
			if as, ok := n.(*ast.AssignStmt); ok {
				for _, l := range as.Lhs {
					if k := exprKey(l); strings.HasSuffix(k, ".requestHeadersParser") || strings.HasSuffix(k, ".responseHeadersParser") {
						bad = k
					}
				}
			}
			return true
		})
		if bad != "" {
			return "", fmt.Errorf("%s: %s is assigned outside the literal", s.fn, bad)
		}
	}

	// 3. NewRouters: configImpl := NewConfigImpl(routerConfig); every virtual host gets vh.globalRouteConfig = configImpl,
	//    vh built by NewVirtualHostImpl(&vhConfig) with vhConfig ranging over routerConfig.VirtualHosts
	rf, err := parse("pkg/router/routers_impl.go")
	if err != nil {
		return "", err
	}
	nr := findFunc(rf, "", "NewRouters")
	if nr == nil {
		return "", fmt.Errorf("NewRouters not found")
	}
	var global, vhSrc, vhInstall string
	ast.Inspect(nr.Body, func(n ast.Node) bool {
		switch x := n.(type) {
		case *ast.AssignStmt:
			if len(x.Lhs) >= 1 && len(x.Rhs) == 1 {
				if c, ok := x.Rhs[0].(*ast.CallExpr); ok {
					switch exprKey(c.Fun) {
					case "NewConfigImpl":
						if len(c.Args) == 1 {
							global = exprKey(x.Lhs[0]) + "<-" + exprKey(c.Args[0])
						}
					case "NewVirtualHostImpl":
						if len(c.Args) == 1 {
							vhSrc = exprKey(x.Lhs[0]) + "<-" + exprKey(c.Args[0])
						}
					}
				}
				if strings.HasSuffix(exprKey(x.Lhs[0]), ".globalRouteConfig") {
					vhInstall = exprKey(x.Lhs[0]) + "<-" + exprKey(x.Rhs[0])
				}
			}
		}
		return true
	})
	if global != "configImpl<-routerConfig" || vhInstall != "vh.globalRouteConfig<-configImpl" || !strings.HasPrefix(vhSrc, "vh<-") {
		return "", fmt.Errorf("NewRouters: unexpected construction (%q, %q, %q)", global, vhSrc, vhInstall)
	}

	s := header("HeaderWiring", "pkg/router/utility.go (getHeaderParser), base_rule.go (NewRouteRuleImplBase), virtualhost.go (NewVirtualHostImpl), configutility.go (NewConfigImpl), routers_impl.go (NewRouters)")
	s += "open MosnVerif.Gen.HeaderMutation (Level)\n"
	s += "inductive Dir where\n  | request | response\nderiving DecidableEq, Repr\n"
	s += "/-- the configuration fields holding additions -/\ninductive AddField where\n  | requestHeadersToAdd | responseHeadersToAdd\nderiving DecidableEq, Repr\n"
	s += "/-- the configuration fields holding removals -/\ninductive RemoveField where\n  | requestHeadersToRemove | responseHeadersToRemove\nderiving DecidableEq, Repr\n"
	s += "/-- for each level and direction: the field passed to the parser constructor as additions, and the one passed as removals\n(level = the configuration object the constructor of that level receives) -/\n"
	s += "def parserWiring : List (Level × Dir × AddField × RemoveField) :=\n  [" + strings.Join(rows, ",\n   ") + "]\n"
	s += "/-- `getHeaderParser` returns the nil parser (evaluateHeaders is then a no-op) under this condition -/\n"
	s += "def parserIsNil (addsNil removesNil : Bool) : Bool := " + nilCond + "\n"
	s += footer("HeaderWiring")
	return "import MosnVerif.Gen.HeaderMutation\n" + s, nil
}
