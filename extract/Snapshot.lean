-- translation-unsupported Snapshot: open -out/pkg/upstream/cluster/cluster.go: no such file or directory
namespace MosnVerif.Gen.Snapshot
end MosnVerif.Gen.Snapshot
