-- translation-unsupported H1Drain: open -out/pkg/stream/http/stream.go: no such file or directory
namespace MosnVerif.Gen.H1Drain
end MosnVerif.Gen.H1Drain
