-- translation-unsupported DumpProto: open -out/pkg/configmanager/dump_action.go: no such file or directory
namespace MosnVerif.Gen.DumpProto
end MosnVerif.Gen.DumpProto
