-- translation-unsupported PubVal: open -out/pkg/upstream/cluster/cluster_manager.go: no such file or directory
namespace MosnVerif.Gen.PubVal
end MosnVerif.Gen.PubVal
