package main

import (
	"fmt"
	"go/ast"
	"go/token"
	"sort"
	"strings"
)

func init() { register("WcLock", genC06lWcLock) }

// genC06lWcLock regenerates the LOCK STRUCTURE around every shared random generator / cursor of the weighted-selection
// family (property C06): for each site below, the statements of the function in SOURCE ORDER (nested blocks flattened) as a
// step program over a fixed vocabulary:
//
//	lock / unlock   <mutex>.Lock() / <mutex>.Unlock() (a `defer <mutex>.Unlock()` becomes an unlock at the end of the program)
//	initRng         `if <rng> == nil { <rng> = … }` (lazy creation)
//	draw            a method call on the shared object itself: <rng>.Intn(…), <rng>.Uint32(), …
//	alias           a copy of the pointer: `x := <rng>` / `x = <rng>` / `var x = <rng>` (x is tracked from there on)
//	drawAlias       a method call through a tracked copy: x.Intn(…)
//	escape          every other mention of <rng> or of a tracked copy (argument of a call, stored in a field, captured by a
//	                closure, returned, compared, …): the pointer leaves what this extractor can follow
//	atomicOp        (cursor sites) `atomic.<F>(&<cursor>, …)`
//	other           statements that do not mention the shared object (consecutive ones are merged)
//
// Nested blocks (if / for / range / switch bodies) must leave the mutex as they found it (else: translation-unsupported), and
// a `return` while the mutex is held without a deferred unlock is rejected. Hence whether the mutex is held at a statement
// does not depend on the path taken, and every execution is a walk through the flattened list that skips / repeats balanced
// blocks: a shared access that is "inside the lock" in the flattened program is inside the lock on every path.
// Whether the programs HAVE the discipline (every initRng / draw / alias / drawAlias between lock and unlock, no escape, no
// raw cursor access) is decided in Lean on the regenerated lists (Model/WcLock.lean `disciplined`, Props/C06.lean).
type c06lSite struct {
	lean   string // Lean name of the program
	file   string
	recv   string // receiver type
	fn     string
	mutex  string // exprKey of the mutex
	key    string // exprKey of the shared generator / cursor
	atomic bool   // the shared object is a cursor accessed through sync/atomic
}

var c06lSites = []c06lSite{
	{"clusterName", "pkg/router/base_rule.go", "RouteRuleImplBase", "ClusterName", "rri.lock", "rri.randInstance", false},
	{"randomChoose", "pkg/upstream/cluster/loadbalancer.go", "randomLoadBalancer", "ChooseHost", "lb.mutex", "lb.rand", false},
	{"rrFactoryNew", "pkg/upstream/cluster/loadbalancer.go", "roundRobinLoadBalancerFactory", "newRoundRobinLoadBalancer", "f.mutex", "f.rand", false},
	{"leastActiveUnweighted", "pkg/upstream/cluster/loadbalancer.go", "leastActiveRequestLoadBalancer", "unweightChooseHost", "lb.mutex", "lb.rand", false},
	{"peakEwmaIterate", "pkg/upstream/cluster/loadbalancer.go", "peakEwmaLoadBalancer", "iterateChoose", "lb.mutex", "lb.rand", false},
	{"peakEwmaRandom", "pkg/upstream/cluster/loadbalancer.go", "peakEwmaLoadBalancer", "randomChoose", "lb.mutex", "lb.rand", false},
	{"rrCursor", "pkg/upstream/cluster/loadbalancer.go", "roundRobinLoadBalancer", "ChooseHost", "", "lb.rrIndex", true},
}

type c06lWalk struct {
	site     c06lSite
	held     bool
	deferred bool
	aliases  map[string]bool
	steps    []string
}

func (w *c06lWalk) emit(s string) {
	if s == "other" && len(w.steps) > 0 && w.steps[len(w.steps)-1] == ".other" {
		return
	}
	w.steps = append(w.steps, "."+s)
}

func (w *c06lWalk) bad(n ast.Node, why string) error {
	return fmt.Errorf("%s.%s: %s at %s", w.site.recv, w.site.fn, why, fset.Position(n.Pos()))
}

type c06lEv struct {
	pos  token.Pos
	step string
}

// c06lScan collects the shared-object events of one expression / simple statement, in source order.
func (w *c06lWalk) scan(n ast.Node) []c06lEv {
	if n == nil {
		return nil
	}
	var evs []c06lEv
	claimed := map[ast.Node]bool{}
	isKey := func(e ast.Expr) bool { return w.site.key != "" && exprKey(e) == w.site.key }
	isAlias := func(e ast.Expr) bool {
		id, ok := e.(*ast.Ident)
		return ok && w.aliases[id.Name]
	}
	var visit func(n ast.Node, inClosure bool)
	visit = func(n ast.Node, inClosure bool) {
		ast.Inspect(n, func(m ast.Node) bool {
			if m == nil || claimed[m] {
				return !claimed[m]
			}
			switch x := m.(type) {
			case *ast.FuncLit:
				claimed[x] = true
				visit(x.Body, true)
				return false
			case *ast.CallExpr:
				if sel, ok := x.Fun.(*ast.SelectorExpr); ok && !inClosure {
					if isKey(sel.X) && !w.site.atomic {
						claimed[sel.X] = true
						evs = append(evs, c06lEv{x.Pos(), "draw"})
					} else if isAlias(sel.X) {
						claimed[sel.X] = true
						evs = append(evs, c06lEv{x.Pos(), "drawAlias"})
					} else if w.site.atomic && strings.HasPrefix(exprKey(sel), "atomic.") && len(x.Args) > 0 {
						if u, ok := x.Args[0].(*ast.UnaryExpr); ok && u.Op == token.AND && isKey(u.X) {
							claimed[u.X] = true
							evs = append(evs, c06lEv{x.Pos(), "atomicOp"})
						}
					}
				}
			case *ast.SelectorExpr:
				if isKey(x) {
					claimed[x] = true
					evs = append(evs, c06lEv{x.Pos(), "escape"})
					return false
				}
			case *ast.Ident:
				if isKey(x) || isAlias(x) {
					evs = append(evs, c06lEv{x.Pos(), "escape"})
				}
			}
			return true
		})
	}
	// pointer copies: x := key / x = key / var x = key (exactly the shared pointer on the right-hand side)
	switch st := n.(type) {
	case *ast.AssignStmt:
		if len(st.Lhs) == len(st.Rhs) {
			for i, r := range st.Rhs {
				id, ok := st.Lhs[i].(*ast.Ident)
				if ok && (isKey(r) || isAlias(r)) && !w.site.atomic && id.Name != "_" {
					claimed[r] = true
					claimed[id] = true
					evs = append(evs, c06lEv{r.Pos(), "alias"})
					defer func(name string) { w.aliases[name] = true }(id.Name)
				}
			}
		}
	case *ast.DeclStmt:
		if gd, ok := st.Decl.(*ast.GenDecl); ok {
			for _, sp := range gd.Specs {
				vs, ok := sp.(*ast.ValueSpec)
				if !ok || len(vs.Names) != len(vs.Values) {
					continue
				}
				for i, r := range vs.Values {
					if (isKey(r) || isAlias(r)) && !w.site.atomic {
						claimed[r] = true
						evs = append(evs, c06lEv{r.Pos(), "alias"})
						defer func(name string) { w.aliases[name] = true }(vs.Names[i].Name)
					}
				}
			}
		}
	}
	visit(n, false)
	sort.SliceStable(evs, func(i, j int) bool { return evs[i].pos < evs[j].pos })
	return evs
}

func (w *c06lWalk) simple(n ast.Node) {
	evs := w.scan(n)
	if len(evs) == 0 {
		w.emit("other")
		return
	}
	for _, e := range evs {
		w.emit(e.step)
	}
}

func (w *c06lWalk) isMutexCall(st ast.Stmt, m string) bool {
	return w.site.mutex != "" && isCallStmt(st, w.site.mutex+"."+m, 0)
}

// isInit: `if key == nil { key = <expr> }`
func (w *c06lWalk) isInit(is *ast.IfStmt) bool {
	if is.Init != nil || is.Else != nil || len(is.Body.List) != 1 {
		return false
	}
	b, ok := is.Cond.(*ast.BinaryExpr)
	if !ok || b.Op != token.EQL || exprKey(b.X) != w.site.key || exprKey(b.Y) != "nil" {
		return false
	}
	lhs, rhs, ok := assignParts(is.Body.List[0], token.ASSIGN)
	return ok && lhs == w.site.key && len(w.scan(rhs)) == 0
}

func (w *c06lWalk) block(list []ast.Stmt, nested ast.Node) error {
	h0 := w.held
	for _, st := range list {
		if err := w.stmt(st); err != nil {
			return err
		}
	}
	if nested != nil && w.held != h0 {
		return w.bad(nested, "nested block changes whether the mutex is held")
	}
	return nil
}

func (w *c06lWalk) stmt(st ast.Stmt) error {
	switch x := st.(type) {
	case nil:
		return nil
	case *ast.ExprStmt:
		switch {
		case w.isMutexCall(st, "Lock"):
			if w.held {
				return w.bad(st, "Lock while the mutex is held")
			}
			w.held = true
			w.emit("lock")
		case w.isMutexCall(st, "Unlock"):
			if !w.held || w.deferred {
				return w.bad(st, "Unlock while the mutex is not held / an Unlock is deferred")
			}
			w.held = false
			w.emit("unlock")
		default:
			w.simple(st)
		}
	case *ast.DeferStmt:
		if w.site.mutex != "" && exprKey(x.Call.Fun) == w.site.mutex+".Unlock" && len(x.Call.Args) == 0 {
			if !w.held || w.deferred {
				return w.bad(st, "defer Unlock while the mutex is not held / second defer")
			}
			w.deferred = true
			return nil
		}
		if len(w.scan(x.Call)) != 0 {
			w.emit("escape") // the shared object is used by a deferred call: runs at an unknown lock state
		} else {
			w.emit("other")
		}
	case *ast.GoStmt:
		if len(w.scan(x.Call)) != 0 {
			w.emit("escape")
		} else {
			w.emit("other")
		}
	case *ast.IfStmt:
		if w.isInit(x) {
			w.emit("initRng")
			return nil
		}
		if err := w.stmt(x.Init); err != nil {
			return err
		}
		w.simple(x.Cond)
		if err := w.block(x.Body.List, x); err != nil {
			return err
		}
		if x.Else != nil {
			if eb, ok := x.Else.(*ast.BlockStmt); ok {
				return w.block(eb.List, x)
			}
			return w.stmt(x.Else)
		}
	case *ast.ForStmt:
		if err := w.stmt(x.Init); err != nil {
			return err
		}
		if x.Cond != nil {
			w.simple(x.Cond)
		}
		if err := w.block(x.Body.List, x); err != nil {
			return err
		}
		return w.stmt(x.Post)
	case *ast.RangeStmt:
		w.simple(x.X)
		return w.block(x.Body.List, x)
	case *ast.BlockStmt:
		return w.block(x.List, x)
	case *ast.SwitchStmt:
		if err := w.stmt(x.Init); err != nil {
			return err
		}
		if x.Tag != nil {
			w.simple(x.Tag)
		}
		for _, c := range x.Body.List {
			cc := c.(*ast.CaseClause)
			for _, e := range cc.List {
				w.simple(e)
			}
			if err := w.block(cc.Body, cc); err != nil {
				return err
			}
		}
	case *ast.ReturnStmt:
		if w.held && !w.deferred {
			return w.bad(st, "return while the mutex is held and no Unlock is deferred")
		}
		w.simple(st)
	case *ast.AssignStmt, *ast.DeclStmt, *ast.IncDecStmt, *ast.BranchStmt, *ast.EmptyStmt:
		w.simple(st)
	default:
		return w.bad(st, fmt.Sprintf("statement kind %T outside the vocabulary", st))
	}
	return nil
}

func c06lProgram(site c06lSite) ([]string, error) {
	f, err := parse(site.file)
	if err != nil {
		return nil, err
	}
	fd := findFunc(f, site.recv, site.fn)
	if fd == nil || fd.Body == nil {
		return nil, fmt.Errorf("%s.%s not found in %s", site.recv, site.fn, site.file)
	}
	root := strings.SplitN(site.key, ".", 2)[0]
	if fd.Recv.List[0].Names == nil || fd.Recv.List[0].Names[0].Name != root {
		return nil, fmt.Errorf("%s.%s: receiver is not named %s", site.recv, site.fn, root)
	}
	w := &c06lWalk{site: site, aliases: map[string]bool{}}
	if err := w.block(fd.Body.List, nil); err != nil {
		return nil, err
	}
	if w.held && !w.deferred {
		return nil, fmt.Errorf("%s.%s: function ends with the mutex held", site.recv, site.fn)
	}
	if w.deferred {
		w.emit("unlock")
	}
	return w.steps, nil
}

// c06lOnlyCallers: every call `<x>.<method>(…)` in the non-test, non-verif files of dir lies inside one of the allowed functions.
func c06lOnlyCallers(file, method string, allowed map[string]bool) error {
	f, err := parse(file)
	if err != nil {
		return err
	}
	for _, d := range f.Decls {
		fd, ok := d.(*ast.FuncDecl)
		if !ok || fd.Body == nil {
			continue
		}
		var bad ast.Node
		ast.Inspect(fd.Body, func(n ast.Node) bool {
			if ce, ok := n.(*ast.CallExpr); ok {
				if sel, ok := ce.Fun.(*ast.SelectorExpr); ok && sel.Sel.Name == method && !allowed[fd.Name.Name] {
					bad = ce
				}
			}
			return true
		})
		if bad != nil {
			return fmt.Errorf("%s is called from %s at %s", method, fd.Name.Name, fset.Position(bad.Pos()))
		}
	}
	return nil
}

func genC06lWcLock() (string, error) {
	var srcs []string
	seen := map[string]bool{}
	for _, s := range c06lSites {
		if !seen[s.file] {
			seen[s.file] = true
			srcs = append(srcs, s.file)
		}
	}
	out := header("WcLock", strings.Join(srcs, ", ")+" (lock structure around the shared random generators / cursors of weighted selection)")
	out += "/-- the step vocabulary (fixed text of the extractor). -/\n"
	out += "inductive Step where\n  | lock | unlock | initRng | draw | alias | drawAlias | escape | atomicOp | other\nderiving DecidableEq, Repr, Inhabited\n\n"
	var lockNames, atomicNames []string
	for _, s := range c06lSites {
		steps, err := c06lProgram(s)
		if err != nil {
			return "", err
		}
		what := "mutex " + s.mutex
		if s.atomic {
			what = "sync/atomic cursor"
		}
		out += fmt.Sprintf("/-- `%s.%s` (%s): shared object `%s`, %s. -/\n", s.recv, s.fn, s.file, s.key, what)
		out += fmt.Sprintf("def %s : List Step := [%s]\n\n", s.lean, strings.Join(steps, ", "))
		if s.atomic {
			atomicNames = append(atomicNames, s.lean)
		} else {
			lockNames = append(lockNames, s.lean)
		}
	}
	// EdfLoadBalancer.refresh draws from lb.rand WITHOUT a lock: sound only because it runs while the balancer is being built
	// (no other goroutine has it yet). Regenerated fact: refresh is called from the constructor only.
	refreshOnly := c06lOnlyCallers("pkg/upstream/cluster/loadbalancer.go", "refresh", map[string]bool{"newEdfLoadBalancer": true}) == nil
	out += "/-- the mutex-protected sites. -/\n"
	out += "def lockSites : List (List Step) := [" + strings.Join(lockNames, ", ") + "]\n\n"
	out += "/-- the sync/atomic sites. -/\n"
	out += "def atomicSites : List (List Step) := [" + strings.Join(atomicNames, ", ") + "]\n\n"
	out += "/-- `EdfLoadBalancer.refresh` (which draws the warm-up count from `lb.rand` without a lock) is called from the constructor `newEdfLoadBalancer` only. -/\n"
	out += fmt.Sprintf("def refreshOnlyFromConstructor : Bool := %v\n", refreshOnly)
	out += footer("WcLock")
	return out, nil
}
