-- translation-unsupported ConfigPairs: open -out/pkg/config/v2: no such file or directory
namespace MosnVerif.Gen.ConfigPairs
end MosnVerif.Gen.ConfigPairs
