-- translation-unsupported Edf: open -out/pkg/upstream/cluster/edfheap.go: no such file or directory
namespace MosnVerif.Gen.Edf
end MosnVerif.Gen.Edf
