package main

import (
	"fmt"
	"go/ast"
	"go/token"
	"strings"
)

func init() { register("EdfLock", genEdfLock) }

// genEdfLock regenerates the LOCK STRUCTURE of edfScheduler.NextAndPush and edfScheduler.Add (edf.go) as a step
// program: the statements of the function body in source order, each classified as one step of a fixed vocabulary
// (lock, unlock, checkEmpty, peek, setTime, callback, setDeadline, setWeight, setQueued, fix, ret, newEntry, push).
// `defer edf.lock.Unlock()` becomes an `unlock` step after the return value has been evaluated (Go semantics).
// Any statement outside the vocabulary, a second defer, a Lock while the lock is held, an Unlock while it is not, or
// an early return that leaves the lock in a different state than it claims is rejected (=> translation-unsupported).
// What each step DOES is the hand-written `Model/EdfConc.lean` (with the regenerated arithmetic of Gen/Edf); what is
// regenerated here is which steps exist, in which order, and where the mutex is taken and released.
func genEdfLock() (string, error) {
	fe, err := parse("pkg/upstream/cluster/edf.go")
	if err != nil {
		return "", err
	}
	nap := findFunc(fe, "edfScheduler", "NextAndPush")
	add := findFunc(fe, "edfScheduler", "Add")
	if nap == nil || add == nil {
		return "", fmt.Errorf("edfScheduler.Add / NextAndPush not found")
	}
	if nap.Recv.List[0].Names == nil || nap.Recv.List[0].Names[0].Name != "edf" || add.Recv.List[0].Names[0].Name != "edf" {
		return "", fmt.Errorf("receiver is not named edf")
	}
	if nap.Type.Params == nil || len(nap.Type.Params.List) != 1 || len(nap.Type.Params.List[0].Names) != 1 ||
		nap.Type.Params.List[0].Names[0].Name != "weightFunc" {
		return "", fmt.Errorf("NextAndPush: parameter is not (weightFunc …)")
	}
	napSteps, err := lockSteps("NextAndPush", nap.Body.List)
	if err != nil {
		return "", err
	}
	addSteps, err := lockSteps("Add", add.Body.List)
	if err != nil {
		return "", err
	}
	s := header("EdfLock", "pkg/upstream/cluster/edf.go (lock structure of edfScheduler.NextAndPush and edfScheduler.Add)")
	s += "/-- the step vocabulary of the scheduler's two entry points (fixed text of the extractor). -/\n"
	s += "inductive Step where\n  | lock | unlock | checkEmpty | peek | setTime | callback | setDeadline | setWeight | setQueued | fix | ret\n  | newEntry | push\nderiving DecidableEq, Repr, Inhabited\n\n"
	s += "/-- `NextAndPush(weightFunc)`, statement by statement in source order. -/\n"
	s += "def nextAndPush : List Step := [" + strings.Join(napSteps, ", ") + "]\n\n"
	s += "/-- `Add(item, weight)`, statement by statement in source order. -/\n"
	s += "def add : List Step := [" + strings.Join(addSteps, ", ") + "]\n"
	s += footer("EdfLock")
	return s, nil
}

func isCallStmt(st ast.Stmt, key string, nargs int) bool {
	es, ok := st.(*ast.ExprStmt)
	if !ok {
		return false
	}
	c, ok := es.X.(*ast.CallExpr)
	return ok && exprKey(c.Fun) == key && len(c.Args) == nargs
}

func isCallExpr(e ast.Expr, key string, nargs int) bool {
	c, ok := e.(*ast.CallExpr)
	return ok && exprKey(c.Fun) == key && len(c.Args) == nargs
}

func assignParts(st ast.Stmt, tok token.Token) (string, ast.Expr, bool) {
	a, ok := st.(*ast.AssignStmt)
	if !ok || a.Tok != tok || len(a.Lhs) != 1 || len(a.Rhs) != 1 {
		return "", nil, false
	}
	return exprKey(a.Lhs[0]), a.Rhs[0], true
}

// mentionsKey reports whether expression e refers to `key` (a selector / identifier rendering of exprKey).
func mentionsKey(e ast.Expr, key string) bool {
	found := false
	ast.Inspect(e, func(n ast.Node) bool {
		if x, ok := n.(ast.Expr); ok && exprKey(x) == key {
			found = true
		}
		return true
	})
	return found
}

func lockSteps(fn string, stmts []ast.Stmt) ([]string, error) {
	var out []string
	held, deferred, returned := false, false, false
	bad := func(st ast.Stmt, why string) error {
		return fmt.Errorf("%s: %s at %s", fn, why, fset.Position(st.Pos()))
	}
	emit := func(s string) { out = append(out, "."+s) }
	for _, st := range stmts {
		if returned {
			return nil, bad(st, "statement after return")
		}
		switch {
		case isCallStmt(st, "edf.lock.Lock", 0):
			if held {
				return nil, bad(st, "Lock while the lock is held")
			}
			held = true
			emit("lock")
		case isCallStmt(st, "edf.lock.Unlock", 0):
			if !held || deferred {
				return nil, bad(st, "Unlock while the lock is not held / an Unlock is deferred")
			}
			held = false
			emit("unlock")
		default:
			if d, ok := st.(*ast.DeferStmt); ok {
				if exprKey(d.Call.Fun) != "edf.lock.Unlock" || len(d.Call.Args) != 0 {
					return nil, bad(st, "defer of something else than edf.lock.Unlock()")
				}
				if deferred || !held {
					return nil, bad(st, "second defer / defer Unlock while the lock is not held")
				}
				deferred = true
				continue
			}
			if ifs, ok := st.(*ast.IfStmt); ok {
				// if edf.items.Empty() { [edf.lock.Unlock();] return nil }
				if ifs.Init != nil || ifs.Else != nil || !isCallExpr(ifs.Cond, "edf.items.Empty", 0) {
					return nil, bad(st, "if statement other than `if edf.items.Empty() {…}`")
				}
				body := ifs.Body.List
				explicit := false
				if len(body) == 2 && isCallStmt(body[0], "edf.lock.Unlock", 0) {
					explicit = true
					body = body[1:]
				}
				r, ok := body[0].(*ast.ReturnStmt)
				if len(body) != 1 || !ok || len(r.Results) != 1 || exprKey(r.Results[0]) != "nil" {
					return nil, bad(st, "empty-queue branch is not `[Unlock();] return nil`")
				}
				// the model's early return releases the lock iff the caller holds it: the source must do the same
				if explicit && (!held || deferred) {
					return nil, bad(st, "empty-queue branch unlocks a lock that is not held / is unlocked again by the defer")
				}
				if !explicit && held && !deferred {
					return nil, bad(st, "empty-queue branch returns with the lock held")
				}
				emit("checkEmpty")
				continue
			}
			if r, ok := st.(*ast.ReturnStmt); ok {
				if len(r.Results) != 1 || exprKey(r.Results[0]) != "entry.item" {
					return nil, bad(st, "return of something else than entry.item")
				}
				emit("ret")
				returned = true
				continue
			}
			if lhs, rhs, ok := assignParts(st, token.DEFINE); ok {
				switch {
				case lhs == "entry" && isCallExpr(rhs, "edf.items.Peek", 0):
					emit("peek")
				case lhs == "weight" && isCallExpr(rhs, "weightFunc", 1) && exprKey(rhs.(*ast.CallExpr).Args[0]) == "entry.item":
					emit("callback")
				case lhs == "entry" && fn == "Add":
					cl, ok := rhs.(*ast.CompositeLit)
					if !ok || exprKey(cl.Type) != "edfEntry" {
						return nil, bad(st, "entry := … is not an edfEntry literal")
					}
					qt := false
					for _, el := range cl.Elts {
						kv, ok := el.(*ast.KeyValueExpr)
						if !ok {
							return nil, bad(st, "unkeyed edfEntry literal")
						}
						if exprKey(kv.Key) == "queuedTime" {
							qt = isCallExpr(kv.Value, "edf.tick", 0)
						} else if mentionsKey(kv.Value, "edf.tick") {
							return nil, bad(st, "edf.tick() outside queuedTime")
						}
					}
					if !qt {
						return nil, bad(st, "queuedTime is not edf.tick()")
					}
					emit("newEntry")
				default:
					return nil, bad(st, "unrecognised definition "+lhs)
				}
				continue
			}
			if lhs, rhs, ok := assignParts(st, token.ASSIGN); ok {
				switch {
				case lhs == "edf.currentTime" && exprKey(rhs) == "entry.deadline":
					emit("setTime")
				case lhs == "entry.deadline" && mentionsKey(rhs, "entry.deadline") && mentionsKey(rhs, "weight"):
					emit("setDeadline")
				case lhs == "entry.weight" && exprKey(rhs) == "weight":
					emit("setWeight")
				case lhs == "entry.queuedTime" && isCallExpr(rhs, "edf.tick", 0):
					emit("setQueued")
				default:
					return nil, bad(st, "unrecognised assignment to "+lhs)
				}
				continue
			}
			switch {
			case isCallStmt(st, "edf.items.Fix", 1) && exprKey(st.(*ast.ExprStmt).X.(*ast.CallExpr).Args[0]) == "0":
				emit("fix")
			case fn == "Add" && isCallStmt(st, "edf.items.Push", 1):
				emit("push")
			default:
				return nil, bad(st, "statement outside the step vocabulary")
			}
		}
	}
	if fn == "NextAndPush" && !returned {
		return nil, fmt.Errorf("%s: no final return entry.item", fn)
	}
	if deferred {
		emit("unlock") // the deferred Unlock runs after the return value was evaluated
	}
	return out, nil
}
