package main

// Gen.C08H2Settings (property C08, builder c08l9; also used by C18's settingCode): WHO validates a SETTINGS parameter
// before applying it, and the frame-chunking loops that consume the applied MAX_FRAME_SIZE.
//
//	MServerConn.processSettings / MClientConn.processSettings   the function handed to f.ForeachSetting (a literal, or a
//	                             method resolved through the embedded connection types): is its first statement that is
//	                             not a bare call `if err := s.Valid(); err != nil { return err }` (nothing is assigned
//	                             before it), and which fields / calls receive s.Val per setting id
//	MClientConn.writeHeaders     loop condition, cut test, advance statement (shape + the test as a function)
//	callers of writeHeaders      what they pass as maxFrameSize
//	MClientStream.awaitFlowControl / MStream.awaitFlowControl   the two clamps of `take`
//	MFramer.writeData            the constant fragment size and its cut test

import (
	"fmt"
	"go/ast"
	"go/token"
	"sort"
	"strings"
)

func init() { register("C08H2Settings", c08l9GenSettings) }

const c08l9Dir = "pkg/module/http2"

// c08l9Embedded returns the names of the struct types embedded in struct type `name` (one level).
func c08l9Embedded(files []*ast.File, name string) []string {
	var out []string
	for _, f := range files {
		for _, d := range f.Decls {
			gd, ok := d.(*ast.GenDecl)
			if !ok || gd.Tok != token.TYPE {
				continue
			}
			for _, sp := range gd.Specs {
				ts := sp.(*ast.TypeSpec)
				st, ok := ts.Type.(*ast.StructType)
				if !ok || ts.Name.Name != name {
					continue
				}
				for _, fl := range st.Fields.List {
					if len(fl.Names) != 0 {
						continue
					}
					t := fl.Type
					if s, ok := t.(*ast.StarExpr); ok {
						t = s.X
					}
					if id, ok := t.(*ast.Ident); ok {
						out = append(out, id.Name)
					}
				}
			}
		}
	}
	return out
}

// c08l9Method resolves method `name` on type `recv`: its own, else one of an embedded type (depth 2).
func c08l9Method(files []*ast.File, recv, name string, depth int) *ast.FuncDecl {
	for _, f := range files {
		if fd := findFunc(f, recv, name); fd != nil {
			return fd
		}
	}
	if depth == 0 {
		return nil
	}
	for _, e := range c08l9Embedded(files, recv) {
		if fd := c08l9Method(files, e, name, depth-1); fd != nil {
			return fd
		}
	}
	return nil
}

// c08l9Callback finds the function handed to ForeachSetting in recv.processSettings: (parameter name, body).
func c08l9Callback(files []*ast.File, recv string) (string, *ast.BlockStmt, error) {
	fd := c08l9Method(files, recv, "processSettings", 0)
	if fd == nil {
		return "", nil, fmt.Errorf("%s.processSettings not found", recv)
	}
	var arg ast.Expr
	n := 0
	ast.Inspect(fd.Body, func(x ast.Node) bool {
		if ce, ok := x.(*ast.CallExpr); ok {
			if se, ok := ce.Fun.(*ast.SelectorExpr); ok && se.Sel.Name == "ForeachSetting" && len(ce.Args) == 1 {
				arg = ce.Args[0]
				n++
			}
		}
		return true
	})
	if n != 1 {
		return "", nil, fmt.Errorf("%s.processSettings: %d ForeachSetting calls (want 1)", recv, n)
	}
	param := func(ft *ast.FuncType) (string, error) {
		if ft.Params == nil || len(ft.Params.List) != 1 || len(ft.Params.List[0].Names) != 1 {
			return "", fmt.Errorf("%s: ForeachSetting callback: unexpected parameters", recv)
		}
		return ft.Params.List[0].Names[0].Name, nil
	}
	switch a := arg.(type) {
	case *ast.FuncLit:
		p, err := param(a.Type)
		return p, a.Body, err
	case *ast.SelectorExpr:
		m := c08l9Method(files, recv, a.Sel.Name, 2)
		if m == nil {
			return "", nil, fmt.Errorf("%s: method %s not found", recv, a.Sel.Name)
		}
		p, err := param(m.Type)
		return p, m.Body, err
	}
	return "", nil, fmt.Errorf("%s: ForeachSetting argument %s unsupported", recv, exprText(arg))
}

// c08l9ValidFirst: the first statement that is not a bare call statement is `if err := p.Valid(); err != nil { return err }`.
func c08l9ValidFirst(p string, body *ast.BlockStmt) bool {
	for _, st := range body.List {
		if es, ok := st.(*ast.ExprStmt); ok {
			if _, ok := es.X.(*ast.CallExpr); ok {
				continue
			}
			return false
		}
		is, ok := st.(*ast.IfStmt)
		if !ok || is.Init == nil || is.Else != nil {
			return false
		}
		as, ok := is.Init.(*ast.AssignStmt)
		if !ok || len(as.Lhs) != 1 || len(as.Rhs) != 1 || exprText(as.Rhs[0]) != p+".Valid()" {
			return false
		}
		ev := exprText(as.Lhs[0])
		if exprText(is.Cond) != ev+"!=nil" || len(is.Body.List) != 1 {
			return false
		}
		rs, ok := is.Body.List[0].(*ast.ReturnStmt)
		return ok && len(rs.Results) == 1 && exprText(rs.Results[0]) == ev
	}
	return false
}

// c08l9Applies: per `case SettingX:` of the switch on p.ID, the assignment targets / called functions that receive p.Val.
func c08l9Applies(p string, body *ast.BlockStmt) ([]string, error) {
	var sw *ast.SwitchStmt
	for _, st := range body.List {
		if s, ok := st.(*ast.SwitchStmt); ok && s.Tag != nil && exprText(s.Tag) == p+".ID" {
			sw = s
		}
	}
	if sw == nil {
		return nil, fmt.Errorf("no switch on %s.ID", p)
	}
	mentions := func(e ast.Expr) bool { return strings.Contains(exprText(e), p+".Val") }
	var out []string
	for _, cl := range sw.Body.List {
		cc := cl.(*ast.CaseClause)
		if len(cc.List) != 1 {
			continue
		}
		id, err := intConst(c08l9Dir, exprText(cc.List[0]))
		if err != nil {
			return nil, err
		}
		var tg []string
		for _, st := range cc.Body {
			ast.Inspect(st, func(x ast.Node) bool {
				switch y := x.(type) {
				case *ast.AssignStmt:
					if y.Tok == token.ASSIGN && len(y.Lhs) == 1 && len(y.Rhs) == 1 && mentions(y.Rhs[0]) {
						tg = append(tg, exprText(y.Lhs[0]))
					}
				case *ast.CallExpr:
					for _, a := range y.Args {
						if exprText(a) == p+".Val" {
							if _, conv := y.Fun.(*ast.Ident); !conv {
								tg = append(tg, exprText(y.Fun)+"()")
							}
						}
					}
				}
				return true
			})
		}
		sort.Strings(tg)
		for _, t := range tg {
			out = append(out, fmt.Sprintf("(%d, %q)", id, t))
		}
	}
	return out, nil
}

// c08l9Text: exprText plus slice expressions (top level)
func c08l9Text(e ast.Expr) string {
	if se, ok := e.(*ast.SliceExpr); ok && !se.Slice3 {
		lo, hi := "", ""
		if se.Low != nil {
			lo = exprText(se.Low)
		}
		if se.High != nil {
			hi = exprText(se.High)
		}
		return exprText(se.X) + "[" + lo + ":" + hi + "]"
	}
	return exprText(e)
}

func c08l9GenSettings() (string, error) {
	s := header("C08H2Settings", c08l9Dir+"/mhttp2.go", c08l9Dir+"/server.go", c08l9Dir+"/transport.go")
	var files []*ast.File
	for _, n := range []string{"mhttp2.go", "server.go", "transport.go"} {
		f, err := parse(c08l9Dir + "/" + n)
		if err != nil {
			return "", err
		}
		files = append(files, f)
	}
	for _, side := range [][2]string{{"MServerConn", "server"}, {"MClientConn", "client"}} {
		p, body, err := c08l9Callback(files, side[0])
		if err != nil {
			return "", err
		}
		ap, err := c08l9Applies(p, body)
		if err != nil {
			return "", fmt.Errorf("%s: %v", side[0], err)
		}
		s += fmt.Sprintf("/-- %s.processSettings: the function handed to ForeachSetting returns the error of `%s.Valid()` before it assigns anything -/\n", side[0], p)
		s += fmt.Sprintf("def %sValidatesFirst : Bool := %v\n", side[1], c08l9ValidFirst(p, body))
		s += fmt.Sprintf("/-- %s: (setting id, field assigned from / function called with `%s.Val`) -/\n", side[0], p)
		s += fmt.Sprintf("def %sApplies : List (Nat × String) := [%s]\n", side[1], strings.Join(ap, ", "))
	}

	// MClientConn.writeHeaders: the chunking loop
	mf := files[0]
	wh := findFunc(mf, "MClientConn", "writeHeaders")
	if wh == nil {
		return "", fmt.Errorf("MClientConn.writeHeaders not found")
	}
	var loop *ast.ForStmt
	for _, st := range wh.Body.List {
		if f, ok := st.(*ast.ForStmt); ok {
			if loop != nil {
				return "", fmt.Errorf("writeHeaders: more than one loop")
			}
			loop = f
		}
	}
	if loop == nil || loop.Init != nil || loop.Post != nil || loop.Cond == nil {
		return "", fmt.Errorf("writeHeaders: loop shape")
	}
	shape := []string{exprText(loop.Cond)}
	var cut *ast.IfStmt
	for _, st := range loop.Body.List {
		switch y := st.(type) {
		case *ast.AssignStmt:
			if len(y.Lhs) == 1 && len(y.Rhs) == 1 {
				l := exprText(y.Lhs[0])
				if l == "chunk" || l == "hdrs" {
					shape = append(shape, l+y.Tok.String()+c08l9Text(y.Rhs[0]))
				}
			}
		case *ast.IfStmt:
			if strings.Contains(exprText(y.Cond), "len(chunk)") {
				if cut != nil || y.Else != nil || y.Init != nil {
					return "", fmt.Errorf("writeHeaders: cut test shape")
				}
				cut = y
				for _, b := range y.Body.List {
					if a, ok := b.(*ast.AssignStmt); ok && len(a.Lhs) == 1 && len(a.Rhs) == 1 {
						shape = append(shape, "cut:"+exprText(a.Lhs[0])+a.Tok.String()+c08l9Text(a.Rhs[0]))
					} else {
						return "", fmt.Errorf("writeHeaders: cut branch shape")
					}
				}
			}
		}
	}
	if cut == nil {
		return "", fmt.Errorf("writeHeaders: no cut test")
	}
	cond, err := c18r6Render(cut.Cond, map[string]string{"chunk": "lenChunk", "maxFrameSize": "maxFrameSize"})
	if err != nil {
		return "", fmt.Errorf("writeHeaders: %v", err)
	}
	var q []string
	for _, x := range shape {
		q = append(q, fmt.Sprintf("%q", x))
	}
	s += "/-- MClientConn.writeHeaders: loop condition, then the assignments to chunk / hdrs in order (`cut:` = inside the cut test) -/\n"
	s += fmt.Sprintf("def headersLoopShape : List String := [%s]\n", strings.Join(q, ", "))
	s += fmt.Sprintf("/-- MClientConn.writeHeaders: the chunk is cut to the frame size — Go: `%s` -/\n", exprText(cut.Cond))
	s += fmt.Sprintf("def headersChunkCut (lenChunk maxFrameSize : Int) : Bool := %s\n", cond)

	// what the callers pass as maxFrameSize
	var args []string
	for _, d := range mf.Decls {
		fd, ok := d.(*ast.FuncDecl)
		if !ok || fd.Body == nil {
			continue
		}
		ast.Inspect(fd.Body, func(x ast.Node) bool {
			if ce, ok := x.(*ast.CallExpr); ok && len(ce.Args) == 4 {
				if se, ok := ce.Fun.(*ast.SelectorExpr); ok && se.Sel.Name == "writeHeaders" {
					args = append(args, fmt.Sprintf("%q", exprText(ce.Args[2])))
				}
			}
			return true
		})
	}
	sort.Strings(args)
	s += "/-- what the callers of MClientConn.writeHeaders pass as maxFrameSize -/\n"
	s += fmt.Sprintf("def headersMaxArgs : List String := [%s]\n", strings.Join(args, ", "))

	// awaitFlowControl (client stream and server stream): the two clamps
	for _, side := range [][2]string{{"MClientStream", "client"}, {"MStream", "server"}} {
		fd := findFunc(mf, side[0], "awaitFlowControl")
		if fd == nil {
			return "", fmt.Errorf("%s.awaitFlowControl not found", side[0])
		}
		for _, j := range [][3]string{{"maxBytes", "TakeOverBytes", "(take maxBytes : Int)"}, {"maxFrameSize", "TakeOverFrame", "(take maxFrameSize : Int)"}} {
			is, err := c18r6If(fd, j[0], "")
			if err != nil {
				return "", err
			}
			c, err := c18r6Render(is.Cond, map[string]string{"take": "take", "maxBytes": "maxBytes", "cc.maxFrameSize": "maxFrameSize"})
			if err != nil {
				return "", fmt.Errorf("%s.awaitFlowControl: %v", side[0], err)
			}
			if len(is.Body.List) != 1 || !strings.HasPrefix(exprText(is.Body.List[0].(*ast.AssignStmt).Lhs[0]), "take") {
				return "", fmt.Errorf("%s.awaitFlowControl: clamp shape", side[0])
			}
			s += fmt.Sprintf("/-- %s.awaitFlowControl — Go: `%s` then `take = …` (conversions are the identity below 2^31) -/\n", side[0], exprText(is.Cond))
			s += fmt.Sprintf("def %s%s %s : Bool := %s\n", side[1], j[1], j[2], c)
		}
	}

	// MFramer.writeData: constant fragment size
	wd := findFunc(mf, "MFramer", "writeData")
	if wd == nil {
		return "", fmt.Errorf("MFramer.writeData not found")
	}
	frag := int64(-1)
	ast.Inspect(wd.Body, func(x ast.Node) bool {
		if vs, ok := x.(*ast.ValueSpec); ok && len(vs.Names) == 1 && vs.Names[0].Name == "maxFrameSize" && len(vs.Values) == 1 {
			if v, ok := c18r6Const(vs.Values[0], nil); ok {
				frag = v
			}
		}
		return true
	})
	if frag < 0 {
		return "", fmt.Errorf("MFramer.writeData: const maxFrameSize not found")
	}
	is, err := c18r6If(wd, "len(frag)", "")
	if err != nil {
		return "", err
	}
	c, err := c18r6Render(is.Cond, map[string]string{"frag": "lenFrag", "maxFrameSize": "fragMax"})
	if err != nil {
		return "", fmt.Errorf("writeData: %v", err)
	}
	s += fmt.Sprintf("/-- MFramer.writeData: `const maxFrameSize` -/\ndef dataFragMax : Nat := %d\n", frag)
	s += fmt.Sprintf("/-- MFramer.writeData: the fragment is cut — Go: `%s` -/\ndef dataFragCut (lenFrag fragMax : Int) : Bool := %s\n", exprText(is.Cond), c)
	return s + footer("C08H2Settings"), nil
}
