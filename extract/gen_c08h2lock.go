package main

import (
	"bytes"
	"fmt"
	"go/ast"
	"go/printer"
	"go/token"
	"sort"
	"strings"
)

// Gen.H2Lock: the LOCK STRUCTURE of the HTTP/2 stream connections of pkg/stream/http2/stream.go.
//
// For the client family (receiver types clientStreamConnection / clientStream, mutex `conn.mutex` = `s.sc.mutex`) every
// method is read as a set of control-flow PATHS; a path is the sequence, in execution order, of
//   lock / unlock / rlock / runlock            calls of Lock / Unlock / RLock / RUnlock on the connection mutex
//   deferUnlock / deferRUnlock                 `defer … .Unlock()` / `.RUnlock()`
//   call M connReset                           a call of a method of the family that takes the mutex (directly or through a
//                                              method it calls), or of conn.conn.Close(<not FlushWrite>, …), which delivers
//                                              the close event synchronously to clientStreamConnection.OnEvent (locks);
//                                              connReset = the receiver's `connReset` was set to true earlier on the path
//   ret                                        return / end of the function
// `if` forks (both ways), `switch` / type switch fork per clause, loops are unrolled 0, 1 and 2 times, `goto` continues at
// its label.  Statements without any of the above are skipped.  Which methods take the mutex is computed from the bodies
// (`clientAcquires`; a method whose every Lock sits under `if !s.connReset` is marked guarded).
// For the server family only handleError is read (serverPaths).
// Rejected (translation-unsupported): a mutex operation on an expression other than the family's mutex, a function
// literal (other than one handed to `go` / GoWithRecover) or a defer containing mutex operations or calls that take the
// mutex, select statements / labelled break / continue around them, a goto whose label is not a top-level statement.
// All helpers are prefixed c08l.

func init() { register("H2Lock", c08lGenH2Lock) }

type c08lFamily struct {
	connType, streamType string
	mutexes              map[string]bool // printed receiver expressions of the mutex
	methods              map[string]*ast.FuncDecl
	acquires             map[string]bool // method name -> takes the mutex (transitively)
	guarded              map[string]bool // method name -> only when connReset is false
}

type c08lPath struct {
	conds []string
	acts  []string
	reset map[string]bool // identifiers whose connReset was set to true
	done  bool
}

func (p c08lPath) clone() c08lPath {
	q := c08lPath{conds: append([]string(nil), p.conds...), acts: append([]string(nil), p.acts...), reset: map[string]bool{}, done: p.done}
	for k, v := range p.reset {
		q.reset[k] = v
	}
	return q
}

func c08lSrc(n ast.Node) string {
	var b bytes.Buffer
	printer.Fprint(&b, fset, n)
	s := strings.Join(strings.Fields(b.String()), " ")
	s = strings.ReplaceAll(s, `"`, "'")
	s = strings.ReplaceAll(s, `\`, "/")
	if len(s) > 80 {
		s = s[:80]
	}
	return s
}

func c08lRecvType(fd *ast.FuncDecl) string {
	if fd.Recv == nil || len(fd.Recv.List) == 0 {
		return ""
	}
	t := fd.Recv.List[0].Type
	if s, ok := t.(*ast.StarExpr); ok {
		t = s.X
	}
	if id, ok := t.(*ast.Ident); ok {
		return id.Name
	}
	return ""
}

// mutexOp classifies a call expression: ("lock"|"unlock"|"rlock"|"runlock", true) for an operation on the family mutex;
// an operation on another expression ending in `.mutex` is an error.
func (f *c08lFamily) mutexOp(c *ast.CallExpr) (string, bool, error) {
	sel, ok := c.Fun.(*ast.SelectorExpr)
	if !ok {
		return "", false, nil
	}
	op, ok := map[string]string{"Lock": "lock", "Unlock": "unlock", "RLock": "rlock", "RUnlock": "runlock"}[sel.Sel.Name]
	if !ok || len(c.Args) != 0 {
		return "", false, nil
	}
	recv := exprKey(sel.X)
	if f.mutexes[recv] {
		return op, true, nil
	}
	if strings.HasSuffix(recv, "mutex") || strings.HasSuffix(recv, "Mutex") || strings.HasSuffix(recv, ".mu") {
		return "", false, fmt.Errorf("mutex operation on unrecognised expression %s at %s", recv, fset.Position(c.Pos()))
	}
	return "", false, nil
}

// callee names the family method / re-entrant external a call refers to ("" = not of interest).
func (f *c08lFamily) callee(c *ast.CallExpr) string {
	sel, ok := c.Fun.(*ast.SelectorExpr)
	if !ok {
		return ""
	}
	recv := exprKey(sel.X)
	if recv == "conn.conn" || recv == "s.conn" || recv == "s.sc.conn" {
		if sel.Sel.Name == "Close" && (len(c.Args) == 0 || exprKey(c.Args[0]) != "api.FlushWrite") {
			return "connClose"
		}
		return ""
	}
	// the embedded base stream (`s.stream.ResetStream`) is another package's method
	if strings.HasSuffix(recv, ".stream") || strings.HasSuffix(recv, ".BaseStream") {
		return ""
	}
	if _, ok := f.methods[sel.Sel.Name]; !ok {
		return ""
	}
	// receivers of family methods are plain identifiers (conn, s, stream) or the stream's connection (`s.sc`)
	if _, isIdent := sel.X.(*ast.Ident); isIdent || strings.HasSuffix(recv, ".sc") {
		return sel.Sel.Name
	}
	return ""
}

// relevant reports whether node n contains anything a path records or that changes control flow out of n.
func (f *c08lFamily) relevant(n ast.Node) bool {
	found := false
	ast.Inspect(n, func(m ast.Node) bool {
		switch x := m.(type) {
		case *ast.CallExpr:
			if _, ok, err := f.mutexOp(x); ok || err != nil {
				found = true
			}
			if c := f.callee(x); c != "" && (f.acquires[c] || c == "connClose") {
				found = true
			}
		case *ast.ReturnStmt, *ast.BranchStmt:
			found = true
		case *ast.AssignStmt:
			if len(x.Lhs) == 1 {
				if s, ok := x.Lhs[0].(*ast.SelectorExpr); ok && s.Sel.Name == "connReset" {
					found = true
				}
			}
		}
		return !found
	})
	return found
}

type c08lWalker struct {
	f     *c08lFamily
	fn    string
	top   []ast.Stmt // top-level statements of the function (goto targets)
	jumps int
	err   error
}

func (w *c08lWalker) fail(n ast.Node, why string) {
	if w.err == nil {
		w.err = fmt.Errorf("%s: %s at %s", w.fn, why, fset.Position(n.Pos()))
	}
}

// calls appends the actions of the calls inside expression / simple statement n (in source order) to every open path.
func (w *c08lWalker) calls(n ast.Node, paths []c08lPath) []c08lPath {
	if n == nil {
		return paths
	}
	var acts []func(p *c08lPath)
	ast.Inspect(n, func(m ast.Node) bool {
		switch x := m.(type) {
		case *ast.FuncLit:
			if w.f.relevantLit(x) {
				w.fail(x, "function literal containing mutex operations / calls that take the mutex")
			}
			return false
		case *ast.CallExpr:
			op, ok, err := w.f.mutexOp(x)
			if err != nil && w.err == nil {
				w.err = err
			}
			if ok {
				acts = append(acts, func(p *c08lPath) { p.acts = append(p.acts, "."+op) })
				return true
			}
			if c := w.f.callee(x); c != "" && (w.f.acquires[c] || c == "connClose") {
				recv := ""
				if sel, ok := x.Fun.(*ast.SelectorExpr); ok {
					recv = exprKey(sel.X)
				}
				acts = append(acts, func(p *c08lPath) {
					p.acts = append(p.acts, fmt.Sprintf(".call \"%s\" %v", c, p.reset[recv]))
				})
			}
		}
		return true
	})
	// ast.Inspect visits a call before its arguments; arguments are evaluated first, but no argument here contains a
	// recorded call in practice: keep source order and reject nesting
	if len(acts) > 1 {
		nested := false
		ast.Inspect(n, func(m ast.Node) bool {
			if c, ok := m.(*ast.CallExpr); ok {
				for _, a := range c.Args {
					if w.f.relevant(a) {
						nested = true
					}
				}
			}
			return true
		})
		if nested {
			w.fail(n, "recorded call nested in the arguments of another call")
		}
	}
	for i := range paths {
		if paths[i].done {
			continue
		}
		for _, a := range acts {
			a(&paths[i])
		}
	}
	return paths
}

func (f *c08lFamily) relevantLit(l *ast.FuncLit) bool {
	found := false
	ast.Inspect(l.Body, func(m ast.Node) bool {
		if x, ok := m.(*ast.CallExpr); ok {
			if _, ok, err := f.mutexOp(x); ok || err != nil {
				found = true
			}
			if c := f.callee(x); c != "" && (f.acquires[c] || c == "connClose") {
				found = true
			}
		}
		return !found
	})
	return found
}

const c08lMaxPaths = 4000

// fork continues every open path of `paths` through each alternative and joins the results.
func (w *c08lWalker) fork(paths []c08lPath, alts []func([]c08lPath) []c08lPath) []c08lPath {
	var out []c08lPath
	var open []c08lPath
	for _, p := range paths {
		if p.done {
			out = append(out, p)
		} else {
			open = append(open, p)
		}
	}
	for _, alt := range alts {
		cp := make([]c08lPath, len(open))
		for i := range open {
			cp[i] = open[i].clone()
		}
		out = append(out, alt(cp)...)
	}
	if len(out) > c08lMaxPaths && w.err == nil {
		w.err = fmt.Errorf("%s: more than %d paths", w.fn, c08lMaxPaths)
	}
	return out
}

func c08lCond(paths []c08lPath, label string) []c08lPath {
	for i := range paths {
		if !paths[i].done {
			paths[i].conds = append(paths[i].conds, label)
		}
	}
	return paths
}

// loop state markers carried in the acts list while inside a loop body
const c08lBreak, c08lContinue = "%break", "%continue"

func (w *c08lWalker) stmts(list []ast.Stmt, paths []c08lPath) []c08lPath {
	for _, st := range list {
		if w.err != nil {
			return paths
		}
		paths = w.stmt(st, paths)
	}
	return paths
}

func c08lAllDone(paths []c08lPath) bool {
	for _, p := range paths {
		if !p.done {
			return false
		}
	}
	return true
}

func (w *c08lWalker) stmt(st ast.Stmt, paths []c08lPath) []c08lPath {
	if c08lAllDone(paths) {
		return paths
	}
	if !w.f.relevant(st) {
		if _, ok := st.(*ast.LabeledStmt); !ok {
			return paths
		}
	}
	switch x := st.(type) {
	case *ast.ExprStmt:
		return w.calls(x.X, paths)
	case *ast.AssignStmt:
		paths = w.calls(x, paths)
		if len(x.Lhs) == 1 && len(x.Rhs) == 1 {
			if s, ok := x.Lhs[0].(*ast.SelectorExpr); ok && s.Sel.Name == "connReset" {
				v := exprKey(x.Rhs[0])
				if v != "true" && v != "false" {
					w.fail(x, "connReset assigned something else than a literal")
				}
				for i := range paths {
					if !paths[i].done {
						paths[i].reset[exprKey(s.X)] = v == "true"
					}
				}
			}
		}
		return paths
	case *ast.DeclStmt, *ast.IncDecStmt, *ast.SendStmt:
		return w.calls(x, paths)
	case *ast.GoStmt:
		return paths // another goroutine
	case *ast.DeferStmt:
		op, ok, err := w.f.mutexOp(x.Call)
		if err != nil {
			w.err = err
			return paths
		}
		if ok {
			if op != "unlock" && op != "runlock" {
				w.fail(x, "defer of Lock / RLock")
			}
			for i := range paths {
				if !paths[i].done {
					paths[i].acts = append(paths[i].acts, map[string]string{"unlock": ".deferUnlock", "runlock": ".deferRUnlock"}[op])
				}
			}
			return paths
		}
		w.fail(x, "defer of a call that contains mutex operations / calls that take the mutex")
		return paths
	case *ast.ReturnStmt:
		paths = w.calls(x, paths)
		for i := range paths {
			if !paths[i].done {
				paths[i].acts = append(paths[i].acts, ".ret")
				paths[i].done = true
			}
		}
		return paths
	case *ast.BlockStmt:
		return w.stmts(x.List, paths)
	case *ast.LabeledStmt:
		return w.stmt(x.Stmt, paths)
	case *ast.BranchStmt:
		switch {
		case x.Tok == token.GOTO && x.Label != nil:
			for i, t := range w.top {
				if l, ok := t.(*ast.LabeledStmt); ok && l.Label.Name == x.Label.Name {
					w.jumps++
					if w.jumps > 50 {
						w.fail(x, "goto loop")
						return paths
					}
					paths = w.stmts(w.top[i:], paths)
					// what follows the goto in its own block is dead: close the paths that fell off the function's end
					for j := range paths {
						if !paths[j].done {
							paths[j].acts = append(paths[j].acts, ".ret")
							paths[j].done = true
						}
					}
					return paths
				}
			}
			w.fail(x, "goto to a label that is not a top-level statement")
		case (x.Tok == token.BREAK || x.Tok == token.CONTINUE) && x.Label == nil:
			for i := range paths {
				if !paths[i].done {
					paths[i].acts = append(paths[i].acts, map[token.Token]string{token.BREAK: c08lBreak, token.CONTINUE: c08lContinue}[x.Tok])
					paths[i].done = true
				}
			}
		default:
			w.fail(x, "labelled break / continue / fallthrough")
		}
		return paths
	case *ast.IfStmt:
		if x.Init != nil {
			paths = w.stmt(x.Init, paths)
		}
		paths = w.calls(x.Cond, paths)
		label := c08lSrc(x.Cond)
		return w.fork(paths, []func([]c08lPath) []c08lPath{
			func(p []c08lPath) []c08lPath { return w.stmts(x.Body.List, c08lCond(p, label)) },
			func(p []c08lPath) []c08lPath {
				p = c08lCond(p, "!("+label+")")
				if x.Else != nil {
					return w.stmt(x.Else, p)
				}
				return p
			},
		})
	case *ast.SwitchStmt, *ast.TypeSwitchStmt:
		var body *ast.BlockStmt
		tag := ""
		switch s := x.(type) {
		case *ast.SwitchStmt:
			if s.Init != nil {
				paths = w.stmt(s.Init, paths)
			}
			if s.Tag != nil {
				paths = w.calls(s.Tag, paths)
				tag = c08lSrc(s.Tag) + " "
			}
			body = s.Body
		case *ast.TypeSwitchStmt:
			if s.Init != nil {
				paths = w.stmt(s.Init, paths)
			}
			body = s.Body
		}
		hasDefault := false
		var alts []func([]c08lPath) []c08lPath
		for _, cc := range body.List {
			c := cc.(*ast.CaseClause)
			label := "default"
			if c.List == nil {
				hasDefault = true
			} else {
				var ls []string
				for _, e := range c.List {
					ls = append(ls, c08lSrc(e))
				}
				label = "case " + tag + strings.Join(ls, "|")
			}
			cbody := c.Body
			alts = append(alts, func(p []c08lPath) []c08lPath {
				p = w.stmts(cbody, c08lCond(p, label))
				// an unlabelled break inside a switch clause leaves the switch
				for i := range p {
					if n := len(p[i].acts); p[i].done && n > 0 && p[i].acts[n-1] == c08lBreak {
						p[i].acts = p[i].acts[:n-1]
						p[i].done = false
					}
				}
				return p
			})
		}
		if !hasDefault {
			alts = append(alts, func(p []c08lPath) []c08lPath { return c08lCond(p, "no case") })
		}
		return w.fork(paths, alts)
	case *ast.ForStmt, *ast.RangeStmt:
		var body *ast.BlockStmt
		label := ""
		infinite := false
		switch l := x.(type) {
		case *ast.ForStmt:
			if l.Init != nil {
				paths = w.stmt(l.Init, paths)
			}
			if l.Cond != nil {
				paths = w.calls(l.Cond, paths)
				label = c08lSrc(l.Cond)
			} else {
				infinite = true
				label = "for"
			}
			if l.Post != nil && w.f.relevant(l.Post) {
				w.fail(l, "loop post statement with recorded calls")
			}
			body = l.Body
		case *ast.RangeStmt:
			paths = w.calls(l.X, paths)
			label = "range " + c08lSrc(l.X)
			body = l.Body
		}
		iter := func(p []c08lPath) []c08lPath {
			p = w.stmts(body.List, p)
			for i := range p {
				if n := len(p[i].acts); p[i].done && n > 0 && p[i].acts[n-1] == c08lContinue {
					p[i].acts = p[i].acts[:n-1]
					p[i].done = false
				}
			}
			return p
		}
		unbreak := func(p []c08lPath) []c08lPath {
			for i := range p {
				if n := len(p[i].acts); p[i].done && n > 0 && p[i].acts[n-1] == c08lBreak {
					p[i].acts = p[i].acts[:n-1]
					p[i].done = false
				}
			}
			return p
		}
		var alts []func([]c08lPath) []c08lPath
		if !infinite {
			alts = append(alts, func(p []c08lPath) []c08lPath { return c08lCond(p, label+" x0") })
		}
		alts = append(alts,
			func(p []c08lPath) []c08lPath {
				p = iter(c08lCond(p, label+" x1"))
				if infinite { // a loop without condition is left by break / return only; cut the unrolling here
					for i := range p {
						if !p[i].done {
							p[i].acts = append(p[i].acts, c08lBreak)
							p[i].done = true
						}
					}
				}
				return unbreak(p)
			},
			func(p []c08lPath) []c08lPath {
				p = iter(c08lCond(p, label+" x2"))
				// the paths that broke out in the first round are covered by x1: keep only those that iterate again
				var again []c08lPath
				for _, q := range p {
					if !q.done {
						again = append(again, q)
					}
				}
				again = iter(again)
				if infinite {
					for i := range again {
						if !again[i].done {
							again[i].acts = append(again[i].acts, c08lBreak)
							again[i].done = true
						}
					}
				}
				return unbreak(again)
			})
		return w.fork(paths, alts)
	case *ast.SelectStmt:
		w.fail(x, "select statement around mutex operations / calls that take the mutex")
		return paths
	}
	w.fail(st, fmt.Sprintf("unsupported statement %T", st))
	return paths
}

// c08lFamilyOf collects the methods of the two receiver types and computes which take the mutex.
func c08lFamilyOf(file *ast.File, connType, streamType string) (*c08lFamily, error) {
	f := &c08lFamily{connType: connType, streamType: streamType, mutexes: map[string]bool{}, methods: map[string]*ast.FuncDecl{},
		acquires: map[string]bool{}, guarded: map[string]bool{}}
	for _, d := range file.Decls {
		fd, ok := d.(*ast.FuncDecl)
		if !ok || fd.Body == nil {
			continue
		}
		rt := c08lRecvType(fd)
		if rt != connType && rt != streamType {
			continue
		}
		if len(fd.Recv.List[0].Names) != 1 {
			return nil, fmt.Errorf("%s.%s: unnamed receiver", rt, fd.Name.Name)
		}
		rn := fd.Recv.List[0].Names[0].Name
		if (rt == connType && rn != "conn") || (rt == streamType && rn != "s") {
			return nil, fmt.Errorf("%s.%s: receiver is named %s (expected conn / s)", rt, fd.Name.Name, rn)
		}
		if _, dup := f.methods[fd.Name.Name]; dup {
			return nil, fmt.Errorf("method name %s is defined on both %s and %s", fd.Name.Name, connType, streamType)
		}
		f.methods[fd.Name.Name] = fd
	}
	if len(f.methods) == 0 {
		return nil, fmt.Errorf("no methods of %s / %s found", connType, streamType)
	}
	f.mutexes["conn.mutex"] = true
	f.mutexes["s.sc.mutex"] = true
	// direct lockers, and whether every Lock / RLock of a method sits under `if !s.connReset {`
	for name, fd := range f.methods {
		var locks, guardedLocks int
		var err error
		var walk func(n ast.Node, guarded bool)
		walk = func(n ast.Node, guarded bool) {
			ast.Inspect(n, func(m ast.Node) bool {
				switch x := m.(type) {
				case *ast.IfStmt:
					if m != n && x.Else == nil && x.Init == nil && exprKey(x.Cond) == "!s.connReset" {
						walk(x.Body, true)
						return false
					}
				case *ast.CallExpr:
					op, ok, e := f.mutexOp(x)
					if e != nil {
						err = e
					}
					if ok && (op == "lock" || op == "rlock") {
						locks++
						if guarded {
							guardedLocks++
						}
					}
				}
				return true
			})
		}
		walk(fd.Body, false)
		if err != nil {
			return nil, err
		}
		if locks > 0 {
			f.acquires[name] = true
			f.guarded[name] = guardedLocks == locks
		}
	}
	// transitive closure over calls of family methods
	for changed := true; changed; {
		changed = false
		for name, fd := range f.methods {
			if f.acquires[name] && !f.guarded[name] {
				continue
			}
			ast.Inspect(fd.Body, func(m ast.Node) bool {
				if _, isLit := m.(*ast.FuncLit); isLit {
					return false
				}
				if c, ok := m.(*ast.CallExpr); ok {
					if cal := f.callee(c); cal != "" && cal != name && (f.acquires[cal] || cal == "connClose") {
						if !f.acquires[name] || f.guarded[name] {
							f.acquires[name] = true
							f.guarded[name] = false
							changed = true
						}
					}
				}
				return true
			})
		}
	}
	return f, nil
}

func (f *c08lFamily) paths(names []string) ([]string, error) {
	var out []string
	for _, name := range names {
		fd := f.methods[name]
		if fd == nil {
			return nil, fmt.Errorf("method %s not found", name)
		}
		w := &c08lWalker{f: f, fn: c08lRecvType(fd) + "." + name, top: fd.Body.List}
		ps := w.stmts(fd.Body.List, []c08lPath{{reset: map[string]bool{}}})
		if w.err != nil {
			return nil, w.err
		}
		for _, p := range ps {
			acts := p.acts
			if !p.done {
				acts = append(acts, ".ret")
			} else if n := len(acts); n > 0 && (acts[n-1] == c08lBreak || acts[n-1] == c08lContinue) {
				return nil, fmt.Errorf("%s: break / continue outside a loop", w.fn)
			}
			var cs []string
			for _, c := range p.conds {
				cs = append(cs, "\""+c+"\"")
			}
			out = append(out, fmt.Sprintf("  { fn := \"%s\", conds := [%s], acts := [%s] }", name, strings.Join(cs, ", "), strings.Join(acts, ", ")))
		}
	}
	return out, nil
}

func (f *c08lFamily) acquiresLean() string {
	var names []string
	for n := range f.acquires {
		names = append(names, n)
	}
	sort.Strings(names)
	var out []string
	for _, n := range names {
		out = append(out, fmt.Sprintf("(\"%s\", %v)", n, f.guarded[n]))
	}
	out = append(out, "(\"connClose\", false)")
	return "[" + strings.Join(out, ", ") + "]"
}

func c08lGenH2Lock() (string, error) {
	const src = "pkg/stream/http2/stream.go"
	file, err := parse(src)
	if err != nil {
		return "", err
	}
	cl, err := c08lFamilyOf(file, "clientStreamConnection", "clientStream")
	if err != nil {
		return "", err
	}
	var names []string
	for n := range cl.methods {
		names = append(names, n)
	}
	sort.Strings(names)
	cpaths, err := cl.paths(names)
	if err != nil {
		return "", err
	}
	sv, err := c08lFamilyOf(file, "serverStreamConnection", "serverStream")
	if err != nil {
		return "", err
	}
	spaths, err := sv.paths([]string{"handleError"})
	if err != nil {
		return "", err
	}
	s := header("H2Lock", src+" (lock structure of the methods of clientStreamConnection / clientStream; serverStreamConnection.handleError)")
	s += "/-- the action vocabulary of a path (fixed text of the extractor) -/\n"
	s += "inductive Act where\n  | lock | unlock | rlock | runlock | deferUnlock | deferRUnlock\n  | call (callee : String) (connReset : Bool)\n  | ret\nderiving DecidableEq, Repr, Inhabited\n\n"
	s += "structure Path where\n  fn : String\n  conds : List String\n  acts : List Act\nderiving DecidableEq, Repr, Inhabited\n\n"
	s += "/-- methods of the client family that take `conn.mutex` (directly or through a method they call); `true` = only\nwhile the stream's `connReset` is false; `connClose` = conn.conn.Close(<not FlushWrite>), which delivers the close event\nsynchronously to clientStreamConnection.OnEvent -/\n"
	s += "def clientAcquires : List (String × Bool) := " + cl.acquiresLean() + "\n\n"
	s += "/-- every control-flow path of every method of clientStreamConnection / clientStream -/\n"
	s += "def clientPaths : List Path := [\n" + strings.Join(cpaths, ",\n") + "]\n\n"
	s += "def serverAcquires : List (String × Bool) := " + sv.acquiresLean() + "\n\n"
	s += "/-- serverStreamConnection.handleError -/\ndef serverPaths : List Path := [\n" + strings.Join(spaths, ",\n") + "]\n"
	s += footer("H2Lock")
	return s, nil
}
