package main

import (
	"fmt"
	"go/ast"
	"go/constant"
	"strings"
)

func init() {
	register("Route", genRoute)
}

func strConst(relDir, name string) (string, error) {
	cs, err := pkgConsts(relDir)
	if err != nil {
		return "", err
	}
	v, ok := cs[name]
	if !ok || v.Kind() != constant.String {
		return "", fmt.Errorf("string constant %s not found in %s", name, relDir)
	}
	return constant.StringVal(v), nil
}

func recvName(fd *ast.FuncDecl) string {
	if fd == nil || fd.Recv == nil || len(fd.Recv.List) == 0 || len(fd.Recv.List[0].Names) == 0 {
		return "_recv"
	}
	return fd.Recv.List[0].Names[0].Name
}

func paramNames(fd *ast.FuncDecl) []string {
	var out []string
	if fd == nil {
		return out
	}
	for _, f := range fd.Type.Params.List {
		for _, n := range f.Names {
			out = append(out, n.Name)
		}
	}
	return out
}

// retBool renders `return <receiver>` as true and `return nil` as false (Match functions return the rule or nil).
func retRouteOrNil(recv string) func(rs []ast.Expr) (string, error) {
	return func(rs []ast.Expr) (string, error) {
		if len(rs) != 1 {
			return "", fmt.Errorf("return arity")
		}
		id, ok := rs[0].(*ast.Ident)
		if !ok {
			return "", fmt.Errorf("return of non-identifier")
		}
		switch id.Name {
		case recv:
			return "true", nil
		case "nil":
			return "false", nil
		}
		return "", fmt.Errorf("return %s", id.Name)
	}
}

func genRoute() (string, error) {
	const (
		fRouters = "pkg/router/routers_impl.go"
		fUtil    = "pkg/router/configutility.go"
		fHTTP    = "pkg/router/http_rule.go"
		fRPC     = "pkg/router/rpc_rule.go"
		fVar     = "pkg/router/variable_rule.go"
	)
	var sb strings.Builder
	sb.WriteString("import MosnVerif.Model.RouteBase\n")
	sb.WriteString(header("Route", fRouters, fUtil, fHTTP, fRPC, fVar, "pkg/types"))
	sb.WriteString("open MosnVerif.Model.Route\nset_option linter.unusedVariables false\n\n")

	// ---- constants
	for _, c := range [][2]string{{"VarHost", "varHost"}, {"VarPath", "varPath"}, {"VarMethod", "varMethod"}, {"RPCRouteMatchKey", "rpcRouteMatchKey"}} {
		v, err := strConst("pkg/types", c[0])
		if err != nil {
			return "", err
		}
		fmt.Fprintf(&sb, "/-- types.%s = %q -/\ndef %s : Str := %s\n\n", c[0], v, c[1], leanStr(v))
	}

	fr, err := parse(fRouters)
	if err != nil {
		return "", err
	}
	// ---- Less
	{
		fd := findFunc(fr, "WildcardVirtualHostWithPortSlice", "Less")
		if fd == nil {
			return "", fmt.Errorf("Less not found")
		}
		r, ps := recvName(fd), paramNames(fd)
		if len(ps) != 2 {
			return "", fmt.Errorf("Less arity")
		}
		c := &CPS{Names: map[string]string{}}
		for _, p := range ps {
			for _, fld := range []string{"hostLen", "host", "index"} {
				c.Names[r+"["+p+"]."+fld] = "a_" + p + "." + fld
			}
		}
		c.Ret = func(rs []ast.Expr) (string, error) {
			if len(rs) != 1 {
				return "", fmt.Errorf("return arity")
			}
			return c.ex(rs[0])
		}
		body, err := c.fn(fd)
		if err != nil {
			return "", fmt.Errorf("Less: %v", err)
		}
		fmt.Fprintf(&sb, "/-- `WildcardVirtualHostWithPortSlice.Less(%s, %s)` with `a_%s = a[%s]`, `a_%s = a[%s]` -/\ndef less (a_%s a_%s : Wild) : Bool :=\n  %s\n\n", ps[0], ps[1], ps[0], ps[0], ps[1], ps[1], ps[0], ps[1], body)
	}
	// ---- findHighestPriorityIndex
	{
		fd := findFunc(fr, "routersImpl", "findHighestPriorityIndex")
		if fd == nil {
			return "", fmt.Errorf("findHighestPriorityIndex not found")
		}
		r, ps := recvName(fd), paramNames(fd)
		if len(ps) != 2 {
			return "", fmt.Errorf("findHighestPriorityIndex arity")
		}
		c := &CPS{
			Names: map[string]string{r: "ri", ps[0]: "host", ps[1]: "port"},
			LenFn: map[string]string{
				r + ".virtualHostPortsMap": "mapLen", r + ".virtualHostPortsMap[]": "mapLen",
				r + ".portWildcardVirtualHost": "mapLen", r + ".portWildcardVirtualHost[]": "listLen",
				ps[0]: "strLen", ps[1]: "strLen",
			},
		}
		c.Ret = func(rs []ast.Expr) (string, error) {
			if len(rs) != 1 {
				return "", fmt.Errorf("return arity")
			}
			return c.ex(rs[0])
		}
		body, err := c.fn(fd)
		if err != nil {
			return "", fmt.Errorf("findHighestPriorityIndex: %v", err)
		}
		fmt.Fprintf(&sb, "/-- `routersImpl.findHighestPriorityIndex` (ints are unbounded `Int`; lengths are far below 2^63) -/\ndef findHighestPriorityIndex (ri : Tables) (host port : Str) : Int :=\n  %s\n\n", body)
	}

	fu, err := parse(fUtil)
	if err != nil {
		return "", err
	}
	retExpr := func(c *CPS) func(rs []ast.Expr) (string, error) {
		return func(rs []ast.Expr) (string, error) {
			if len(rs) != 1 {
				return "", fmt.Errorf("return arity")
			}
			return c.ex(rs[0])
		}
	}
	// ---- StringMatch.Matches
	{
		fd := findFunc(fu, "StringMatch", "Matches")
		if fd == nil {
			return "", fmt.Errorf("StringMatch.Matches not found")
		}
		r, ps := recvName(fd), paramNames(fd)
		if len(ps) != 1 {
			return "", fmt.Errorf("StringMatch.Matches arity")
		}
		c := &CPS{Names: map[string]string{r: "sm", ps[0]: "s"}}
		c.Calls = map[string]func([]string) string{
			r + ".RegexPattern.MatchString": func(a []string) string { return "(rxMatch rx sm.RegexPattern " + a[0] + ")" },
		}
		c.Ret = retExpr(c)
		body, err := c.fn(fd)
		if err != nil {
			return "", fmt.Errorf("StringMatch.Matches: %v", err)
		}
		fmt.Fprintf(&sb, "/-- `StringMatch.Matches` -/\ndef stringMatch (rx : RxOracle) (sm : StringMatch) (s : Str) : Bool :=\n  %s\n\n", body)
	}
	// ---- commonHeaderMatcherImpl.Matches
	{
		fd := findFunc(fu, "commonHeaderMatcherImpl", "Matches")
		if fd == nil {
			return "", fmt.Errorf("commonHeaderMatcherImpl.Matches not found")
		}
		r, ps := recvName(fd), paramNames(fd)
		if len(ps) != 2 {
			return "", fmt.Errorf("commonHeaderMatcherImpl.Matches arity")
		}
		hn := ps[1]
		c := &CPS{Names: map[string]string{r: "m", hn: "headers"}, LenFn: map[string]string{r: "listLen"}}
		c.Calls = map[string]func([]string) string{
			"strings.ToLower": func(a []string) string { return "(lower " + a[0] + ")" }, // so that a name normalised at lookup time is a fact of the model, not a broken translation
		}
		c.Calls2 = map[string]call2{hn + ".Get": {func(a []string) string { return "(headers " + a[0] + ")" }, "ok"}}
		c.Ret = retExpr(c)
		// the loop variable's method: <loopvar>.Value.Matches(x)
		ast.Inspect(fd.Body, func(n ast.Node) bool {
			if rs, ok := n.(*ast.RangeStmt); ok {
				if id, ok := rs.Value.(*ast.Ident); ok {
					v := id.Name
					c.Calls[v+".Value.Matches"] = func(a []string) string { return "(stringMatch rx " + leanName(v) + ".Value " + a[0] + ")" }
				}
			}
			return true
		})
		body, err := c.fn(fd)
		if err != nil {
			return "", fmt.Errorf("commonHeaderMatcherImpl.Matches: %v", err)
		}
		fmt.Fprintf(&sb, "/-- `commonHeaderMatcherImpl.Matches`: the header conjunction -/\ndef commonMatches (rx : RxOracle) (headers : Str → Option Str) (m : List KeyValueData) : Bool :=\n  %s\n\n", body)
	}
	// ---- httpHeaderMatcherImpl.Matches
	{
		fd := findFunc(fu, "httpHeaderMatcherImpl", "Matches")
		if fd == nil {
			return "", fmt.Errorf("httpHeaderMatcherImpl.Matches not found")
		}
		r, ps := recvName(fd), paramNames(fd)
		if len(ps) != 2 {
			return "", fmt.Errorf("httpHeaderMatcherImpl.Matches arity")
		}
		c := &CPS{Names: map[string]string{r: "m", ps[0]: "ctx", ps[1]: "headers"}, LenFn: map[string]string{r + ".variables": "mapLen"}}
		c.Calls = map[string]func([]string) string{
			r + ".headers.Matches": func(a []string) string { return "(commonMatches rx headers m.headers)" },
		}
		c.Calls2 = map[string]call2{"variable.GetString": {func(a []string) string { return "(ctx " + a[1] + ")" }, "err"}}
		c.Ret = retExpr(c)
		body, err := c.fn(fd)
		if err != nil {
			return "", fmt.Errorf("httpHeaderMatcherImpl.Matches: %v", err)
		}
		fmt.Fprintf(&sb, "/-- `httpHeaderMatcherImpl.Matches`: request variables (method) then the header conjunction -/\ndef httpMatches (rx : RxOracle) (ctx headers : Str → Option Str) (m : HttpHeaderMatcher) : Bool :=\n  %s\n\n", body)
	}

	// ---- the header-matcher constructors (gen_c04b.go)
	if err := c04bGenCtors(&sb, fu); err != nil {
		return "", err
	}

	// ---- the three HTTP path rules' Match
	fh, err := parse(fHTTP)
	if err != nil {
		return "", err
	}
	// ---- their common base: NewBaseHTTPRouteRule, matchRoute (gen_c04b.go)
	if err := c04bGenHTTPBase(&sb, fh); err != nil {
		return "", err
	}
	for _, k := range []struct{ typ, field, lean, leanField, ftype, doc string }{
		{"PathRouteRuleImpl", "path", "pathMatch", "path", "Str", "exact path (compared with EqualFold)"},
		{"PrefixRouteRuleImpl", "prefix", "prefixMatch", "prefix_", "Str", "path prefix"},
		{"RegexRouteRuleImpl", "regexPattern", "regexMatch", "regexPattern", "RegexId", "path regex"},
	} {
		fd := findFunc(fh, k.typ, "Match")
		if fd == nil {
			return "", fmt.Errorf("%s.Match not found", k.typ)
		}
		r, ps := recvName(fd), paramNames(fd)
		if len(ps) != 2 {
			return "", fmt.Errorf("%s.Match arity", k.typ)
		}
		c := &CPS{Names: map[string]string{ps[0]: "ctx", ps[1]: "headers", r + "." + k.field: k.leanField, "types.VarPath": "varPath"}}
		c.Calls = map[string]func([]string) string{
			r + ".matchRoute":               func(a []string) string { return "(matchRoute rx pq ctx headers base)" },
			"strings.EqualFold":             func(a []string) string { return "(equalFold " + a[0] + " " + a[1] + ")" },
			"strings.HasPrefix":             func(a []string) string { return "(hasPrefix " + a[0] + " " + a[1] + ")" },
			r + ".regexPattern.MatchString": func(a []string) string { return "(rx regexPattern " + a[0] + ")" },
		}
		c.Calls2 = map[string]call2{"variable.GetString": {func(a []string) string { return "(ctx " + a[1] + ")" }, "err"}}
		c.Ret = retRouteOrNil(r)
		body, err := c.fn(fd)
		if err != nil {
			return "", fmt.Errorf("%s.Match: %v", k.typ, err)
		}
		fmt.Fprintf(&sb, "/-- `%s.Match` (%s); `true` = the rule is returned. `base` is the embedded `BaseHTTPRouteRule` -/\ndef %s (rx : RxOracle) (pq : Str → List (Str × Str)) (ctx headers : Str → Option Str) (base : HttpBase) (%s : %s) : Bool :=\n  %s\n\n",
			k.typ, k.doc, k.lean, k.leanField, k.ftype, body)
	}

	// ---- RPC rule Match
	{
		frp, err := parse(fRPC)
		if err != nil {
			return "", err
		}
		if err := c04bGenRPCRule(&sb, frp); err != nil {
			return "", err
		}
		fd := findFunc(frp, "RPCRouteRuleImpl", "Match")
		if fd == nil {
			return "", fmt.Errorf("RPCRouteRuleImpl.Match not found")
		}
		r, ps := recvName(fd), paramNames(fd)
		if len(ps) != 2 {
			return "", fmt.Errorf("RPCRouteRuleImpl.Match arity")
		}
		c := &CPS{Names: map[string]string{ps[0]: "ctx", ps[1]: "headers", r + ".fastmatch": "fastmatch", "types.RPCRouteMatchKey": "rpcRouteMatchKey"}}
		c.Calls = map[string]func([]string) string{
			r + ".configHeaders.Matches": func(a []string) string { return "(commonMatches rx headers configHeaders)" },
		}
		c.Calls2 = map[string]call2{ps[1] + ".Get": {func(a []string) string { return "(headers " + a[0] + ")" }, "ok"}}
		c.Ret = retRouteOrNil(r)
		body, err := c.fn(fd)
		if err != nil {
			return "", fmt.Errorf("RPCRouteRuleImpl.Match: %v", err)
		}
		fmt.Fprintf(&sb, "/-- `RPCRouteRuleImpl.Match` -/\ndef rpcMatch (rx : RxOracle) (headers : Str → Option Str) (fastmatch : Str) (configHeaders : List KeyValueData) : Bool :=\n  %s\n\n", body)
	}

	// ---- constants of the variable rule
	for _, cst := range [][2]string{{"AND", "modelAnd"}, {"OR", "modelOr"}} {
		v, err := strConst("pkg/router", cst[0])
		if err != nil {
			return "", err
		}
		fmt.Fprintf(&sb, "/-- router.%s = %q -/\ndef %s : Str := %s\n\n", cst[0], v, cst[1], leanStr(v))
	}
	// ---- VariableRouteRuleImpl.Match
	{
		fv, err := parse(fVar)
		if err != nil {
			return "", err
		}
		fd := findFunc(fv, "VariableRouteRuleImpl", "Match")
		if fd == nil {
			return "", fmt.Errorf("VariableRouteRuleImpl.Match not found")
		}
		r, ps := recvName(fd), paramNames(fd)
		if len(ps) != 2 {
			return "", fmt.Errorf("VariableRouteRuleImpl.Match arity")
		}
		c := &CPS{
			Names: map[string]string{ps[0]: "ctx", r + ".Variables": "variables", "AND": "modelAnd", "OR": "modelOr"},
			LenFn: map[string]string{r + ".Variables": "listLen"},
			Types: map[string]string{"result": "Bool", "walkVarName": "Str", "lastMode": "Str", "curStepRes": "Bool"},
		}
		c.Calls = map[string]func([]string) string{}
		ast.Inspect(fd.Body, func(n ast.Node) bool {
			if rs, ok := n.(*ast.RangeStmt); ok {
				if id, ok := rs.Value.(*ast.Ident); ok {
					v := id.Name
					c.Calls[v+".regexPattern.MatchString"] = func(a []string) string {
						return "(rxMatch rx " + leanName(v) + ".regexPattern " + a[0] + ")"
					}
				}
			}
			return true
		})
		c.Calls2 = map[string]call2{"variable.GetString": {func(a []string) string { return "(ctx " + a[1] + ")" }, "err"}}
		c.Ret = retRouteOrNil(r)
		body, err := c.fn(fd)
		if err != nil {
			return "", fmt.Errorf("VariableRouteRuleImpl.Match: %v", err)
		}
		fmt.Fprintf(&sb, "/-- `VariableRouteRuleImpl.Match`; the loop-carried variables are threaded through `forRangeS`. A nil item (which `ParseToVariableMatchItem` can return) is outside the model -/\ndef variableMatch (rx : RxOracle) (ctx : Str → Option Str) (variables : List VarItem) : Bool :=\n  %s\n\n", body)
		// ---- ParseToVariableMatchItem (gen_c04r.go)
		if err := c04rGenParseVarItem(&sb, fv); err != nil {
			return "", err
		}
	}
	// ---- the two entry loops of a virtual host
	fvh, err := parse("pkg/router/virtualhost.go")
	if err != nil {
		return "", err
	}
	for _, k := range []struct{ name, lean, rty, doc string }{
		{"GetRouteFromEntries", "getRouteFromEntries", "Option ρ", "first rule whose Match returns a route"},
		{"GetAllRoutesFromEntries", "getAllRoutesFromEntries", "List ρ", "every rule whose Match returns a route, in order"},
	} {
		fd := findFunc(fvh, "VirtualHostImpl", k.name)
		if fd == nil {
			return "", fmt.Errorf("%s not found", k.name)
		}
		r := recvName(fd)
		c := &CPS{
			Names:   map[string]string{r + ".routes": "routes_"},
			LenFn:   map[string]string{r + ".routes": "listLen"},
			Types:   map[string]string{"routes": "List ρ"},
			GoTypes: map[string]string{"api.Route": "Option ρ", "[]api.Route": "List ρ", "bool": "Bool", "int": "Int"},
		}
		c.Calls = map[string]func([]string) string{
			"append": func(a []string) string { return "(" + a[0] + " ++ [" + a[1] + "])" },
		}
		ast.Inspect(fd.Body, func(n ast.Node) bool {
			if rs, ok := n.(*ast.RangeStmt); ok {
				if id, ok := rs.Value.(*ast.Ident); ok {
					v := id.Name
					c.Calls[v+".Match"] = func(a []string) string { return "(matchFn " + leanName(v) + ")" }
				}
			}
			return true
		})
		isList := k.rty == "List ρ"
		c.Ret = func(rs []ast.Expr) (string, error) {
			if len(rs) != 1 {
				return "", fmt.Errorf("return arity")
			}
			if id, ok := rs[0].(*ast.Ident); ok && id.Name == "nil" {
				if isList {
					return "[]", nil
				}
				return "none", nil
			}
			return c.ex(rs[0])
		}
		body, err := c.fn(fd)
		if err != nil {
			return "", fmt.Errorf("%s: %v", k.name, err)
		}
		if isList {
			// a matched route `r` (non-nil) is appended as the route itself
			body = strings.ReplaceAll(body, "(routes ++ [r])", "(routes ++ r.toList)")
		}
		fmt.Fprintf(&sb, "/-- `VirtualHostImpl.%s`: %s. `matchFn route` = `route.Match(ctx, headers)` (`none` = nil); the mutex is skipped -/\ndef %s {ρ : Type} (matchFn : ρ → Option ρ) (routes_ : List ρ) : %s :=\n  %s\n\n", k.name, k.doc, k.lean, k.rty, body)
	}
	// ---- findVirtualHost
	{
		fd := findFunc(fr, "routersImpl", "findVirtualHost")
		if fd == nil {
			return "", fmt.Errorf("findVirtualHost not found")
		}
		r, ps := recvName(fd), paramNames(fd)
		if len(ps) != 1 {
			return "", fmt.Errorf("findVirtualHost arity")
		}
		c := &CPS{
			Names: map[string]string{r: "ri", ps[0]: "ctx", "types.VarHost": "varHost"},
			LenFn: map[string]string{r + ".virtualHostPortsMap": "mapLen", r + ".portWildcardVirtualHost": "mapLen"},
			Types: map[string]string{"index": "Int"},
		}
		c.Calls = map[string]func([]string) string{
			"strings.ToLower":               func(a []string) string { return "(lower " + a[0] + ")" },
			r + ".findHighestPriorityIndex": func(a []string) string { return "(findHighestPriorityIndex ri " + a[0] + " " + a[1] + ")" },
		}
		c.Calls2 = map[string]call2{
			"variable.GetString":    {func(a []string) string { return "(ctx " + a[1] + ")" }, "err"},
			"splitHostPortGraceful": {func(a []string) string { return "(split " + a[0] + ")" }, "err"},
		}
		c.Ret = func(rs []ast.Expr) (string, error) {
			if len(rs) != 1 {
				return "", fmt.Errorf("return arity")
			}
			if id, ok := rs[0].(*ast.Ident); ok && id.Name == "nil" {
				return "(-1)", nil
			}
			if ie, ok := rs[0].(*ast.IndexExpr); ok && goKey(ie.X) == r+".virtualHosts" {
				return c.ex(ie.Index)
			}
			return "", fmt.Errorf("unsupported return %s", goKey(rs[0]))
		}
		body, err := c.fn(fd)
		if err != nil {
			return "", fmt.Errorf("findVirtualHost: %v", err)
		}
		fmt.Fprintf(&sb, "/-- `routersImpl.findVirtualHost`: index of the returned virtual host, −1 for nil. `split` = `splitHostPortGraceful` -/\ndef findVirtualHost (split : Str → Option (Str × Str)) (ri : Tables) (ctx : Str → Option Str) : Int :=\n  %s\n\n", body)
	}

	sb.WriteString(footer("Route"))
	return sb.String(), nil
}
