-- translation-unsupported SubsetKeys: open -out/pkg/upstream/cluster/subset_loadbalancer.go: no such file or directory
namespace MosnVerif.Gen.SubsetKeys
end MosnVerif.Gen.SubsetKeys
