-- translation-unsupported FrameLen: open -out/pkg/protocol/xprotocol/bolt: no such file or directory
namespace MosnVerif.Gen.FrameLen
end MosnVerif.Gen.FrameLen
